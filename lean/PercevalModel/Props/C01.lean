/-
  C01 — property theorems (model: `Model/C01.lean`).  For every commutative ring `R`
  (in particular ℂ), every tree of any depth, every admissible offset.
-/
import PercevalModel.Lemmas.C01
import PercevalModel.Lemmas.C01Reg
import PercevalModel.Lemmas.C01More
import PercevalModel.Lemmas.C01Range
import PercevalModel.Num.GQ

open Matrix

namespace PM.C01
variable {R : Type}

mutual
  /-- The reported matrix is the ordered product of the leaves' own matrices, each embedded on
  exactly the modes the recursive iterator reports for it; those ranges lie inside the circuit. -/
  theorem unitaryOf_eq_prod_flatten [CommRing R] :
      (c : Comp R) → c.WF →
        unitaryOf c = prodFlat c.size (flatten c) ∧ Flat.Fits (flatten c) c.size
    | .leaf k U, _ => by
      constructor
      · show unitaryOf (.leaf k U) = prodFlat k (flatten (.leaf k U))
        simp [flatten, prodFlat, embed_full]
        rfl
      · intro p hp; simp [flatten] at hp; subst hp; simp [Comp.size]
    | .circ m items, h => by
      show unitaryOf (.circ m items) = prodFlat m (flatten (.circ m items)) ∧
        Flat.Fits (flatten (.circ m items)) m
      simp only [unitaryOf_circ, flatten]
      exact prodItems_eq_prod_flatten m items h
  theorem prodItems_eq_prod_flatten [CommRing R] (m : ℕ) :
      (items : Items R) → items.WF m →
        prodItems m items = prodFlat m (flattenItems items) ∧ Flat.Fits (flattenItems items) m
    | .nil, _ => by
      constructor
      · simp [flattenItems, prodFlat]
      · intro p hp; simp [flattenItems] at hp
    | .cons off c rest, h => by
      simp only [Items.WF] at h
      obtain ⟨h1, h2, h3⟩ := h
      obtain ⟨e1, f1⟩ := unitaryOf_eq_prod_flatten c h2
      obtain ⟨e2, f2⟩ := prodItems_eq_prod_flatten m rest h3
      constructor
      · rw [prodItems_cons, flattenItems, prodFlat_append, e2, e1, embed_prodFlat h1 _ f1]
        rfl
      · intro p hp
        simp only [flattenItems, List.mem_append, List.mem_map] at hp
        rcases hp with ⟨q, hq, rfl⟩ | hp
        · have := f1 q hq
          simp only; omega
        · exact f2 p hp
end

/-- `flatten_ranges`: every range reported by iteration lies inside `[0, m)`. -/
theorem flatten_ranges [CommRing R] (c : Comp R) (h : c.WF) :
    ∀ p ∈ flatten c, p.1 + p.2.1 ≤ c.size :=
  (unitaryOf_eq_prod_flatten c h).2

/-- Adding a sub-circuit merged (`//`, `merge=True`) or nested (`merge=False`) gives the same
matrix, at every admissible offset, whatever the circuit already holds.
(`unitaryOf (.circ m items) = prodItems m items` is `unitaryOf_circ`.) -/
theorem unitaryOf_addMerged_eq_addNested [CommRing R] (m : ℕ) (items : Items R) (off : ℕ)
    (c : Comp R) (hc : c.WF) (hfit : off + c.size ≤ m) :
    prodItems m (addItem items off c true) = prodItems m (addItem items off c false) := by
  cases c with
  | leaf k U => rfl
  | circ k sub =>
    cases sub with
    | nil => rfl
    | cons o c' r =>
      have hw : (Items.cons o c' r).WF k := hc
      have hfit' : off + k ≤ m := hfit
      simp only [addItem, prodItems_append]
      rw [← embed_prodItems hfit' _ hw]
      simp
      rfl

/-- One `add` multiplies the matrix on the left by the embedded matrix of what was added. -/
theorem unitaryOf_add [CommRing R] (m : ℕ) (items : Items R) (off : ℕ) (c : Comp R)
    (merge : Bool) (hc : c.WF) (hfit : off + c.size ≤ m) :
    prodItems m (addItem items off c merge) = embed m off (unitaryOf c) * prodItems m items := by
  cases merge
  · simp [addItem, prodItems_append]
  · rw [unitaryOf_addMerged_eq_addNested m items off c hc hfit]
    simp [addItem, prodItems_append]

/-- `barrier()` (an identity leaf on all modes) does not change the matrix, wherever inserted. -/
theorem unitaryOf_barrier [CommRing R] (m : ℕ) (before after : Items R) :
    prodItems m (before.append (.cons 0 (barrierItem m) after)) =
      prodItems m (before.append after) := by
  have : embed m 0 (1 : Matrix (Fin m) (Fin m) R) = 1 := embed_full 1
  simp only [prodItems_append, prodItems_cons, barrierItem]
  show prodItems m after * embed m 0 (k := m) (unitaryOf (.leaf m 1)) * prodItems m before = _
  rw [unitaryOf_leaf, this, Matrix.mul_one]

mutual
  /-- A circuit whose leaves are all unitary is unitary (any nesting depth). -/
  theorem unitaryOf_isUnitary [CommRing R] [StarRing R] :
      (c : Comp R) → c.WF → c.AllUnitary → IsUnitary (unitaryOf c)
    | .leaf k U, _, hu => by
      show IsUnitary (n := Fin k) (unitaryOf (.leaf k U))
      rw [unitaryOf_leaf]; exact hu
    | .circ m items, h, hu => by
      show IsUnitary (n := Fin m) (unitaryOf (.circ m items))
      rw [unitaryOf_circ]
      exact prodItems_isUnitary m items h hu
  theorem prodItems_isUnitary [CommRing R] [StarRing R] (m : ℕ) :
      (items : Items R) → items.WF m → items.AllUnitary → IsUnitary (prodItems m items)
    | .nil, _, _ => by simpa using isUnitary_one
    | .cons off c rest, h, hu => by
      simp only [Items.WF] at h
      simp only [Items.AllUnitary] at hu
      rw [prodItems_cons]
      exact (prodItems_isUnitary m rest h.2.2 hu.2).mul
        (IsUnitary.embed h.1 (unitaryOf_isUnitary c h.2.1 hu.1))
end

/-- The model's `add` keeps well-formedness (so every constructible circuit is `WF`). -/
theorem addItem_WF (m : ℕ) (items : Items R) (off : ℕ) (c : Comp R) (merge : Bool)
    (hi : items.WF m) (hc : c.WF) (hfit : off + c.size ≤ m) :
    (addItem items off c merge).WF m := by
  cases merge
  · exact Items.WF_append (by simp [Items.WF, hfit, hc]) items hi
  · cases c with
    | leaf k U => exact Items.WF_append (by simp [Items.WF, hfit, hc]) items hi
    | circ k sub =>
      cases sub with
      | nil => exact Items.WF_append (by simp [Items.WF, hfit, hc]) items hi
      | cons o c' r =>
        exact Items.WF_append (Items.WF_shift hfit _ hc) items hi

/-! ### non-vacuity: a 4-mode circuit with a 2-level nested sub-circuit at offset 1 -/

def swap2 : Matrix (Fin 2) (Fin 2) GQ := fun i j => if i = j then 0 else 1
def phaseI : Matrix (Fin 1) (Fin 1) GQ := fun _ _ => GQ.I

def exInner : Comp GQ := .circ 2 (.cons 0 (.leaf 2 swap2) (.cons 1 (.leaf 1 phaseI) .nil))
def exMid : Comp GQ := .circ 3 (.cons 1 exInner (.cons 0 (.leaf 2 swap2) .nil))
def exTop : Comp GQ := .circ 4 (.cons 1 exMid (.cons 0 (.leaf 1 phaseI) .nil))

example : exTop.WF ∧ exTop.AllUnitary := by
  refine ⟨by simp [exTop, exMid, exInner, Comp.WF, Items.WF, Comp.size], ?_⟩
  simp only [exTop, exMid, exInner, Comp.AllUnitary, Items.AllUnitary, and_true]
  refine ⟨⟨?_, ?_⟩, ?_, ?_⟩ <;> (try unfold IsUnitary) <;> decide +kernel

/-! ## base change: parameters, symbolic entries

For a ring homomorphism `φ` (evaluate the variable parameters at an environment; evaluate the
entries of the symbolic matrix numerically) the matrix of the mapped circuit is the mapped matrix.
So `compute_unitary(use_symbolic=True)` evaluated at the current values, and the matrix of a
circuit with variable parameters under an environment, are the products of the leaf matrices
evaluated the same way. -/

theorem unitaryOf_map {S : Type} [CommRing R] [CommRing S] (φ : R →+* S) (m : ℕ) (items : Items R) :
    unitaryOf ((Comp.circ m items).map φ) = (unitaryOf (Comp.circ m items)).map φ := by
  show unitaryOf (Comp.circ m (items.map φ)) = _
  rw [unitaryOf_circ, unitaryOf_circ, prodItems_map]
  rfl

theorem unitaryOf_map_leaf {S : Type} [CommRing R] [CommRing S] (φ : R → S) (k : ℕ)
    (U : Matrix (Fin k) (Fin k) R) :
    unitaryOf ((Comp.leaf k U).map φ) = (unitaryOf (Comp.leaf k U)).map φ := by
  show unitaryOf (Comp.leaf k (U.map φ)) = _
  rw [unitaryOf_leaf, unitaryOf_leaf]
  rfl

/-- the ranges reported by iteration do not depend on the coefficients, and the matrix of the
mapped circuit is the ordered product of the mapped leaf matrices on those ranges -/
theorem unitaryOf_map_eq_prod_flatten {S : Type} [CommRing R] [CommRing S] (φ : R →+* S) (m : ℕ)
    (items : Items R) (hw : items.WF m) :
    (prodItems m items).map φ = prodFlat m (Flat.mapC φ (flattenItems items)) := by
  rw [← prodItems_map, ← flattenItems_map]
  exact (prodItems_eq_prod_flatten m _ (Items.WF_map φ m items hw)).1

/-! ## reference semantics (heap of circuit objects) -/

/-- Evaluation that follows object references = product over the tree obtained by resolving the
references (any pool, any fuel): every theorem about trees transfers to pools. -/
theorem eval_eq_prodItems {S : Type} [CommRing S] (φ : R → S) (h : Heap R) (i : ℕ) :
    eval φ h i = prodItems (h.msize i) ((snapshotItems h i).map φ) :=
  evalV_eq φ h _ i

theorem eval_eq_unitaryOf_snapshot {S : Type} [CommRing S] (φ : R → S) (h : Heap R) (i : ℕ) :
    eval φ h i = unitaryOf ((snapshot h i).map φ) := by
  rw [eval_eq_prodItems]
  show _ = unitaryOf (Comp.circ (h.msize i) ((snapshotItems h i).map φ))
  rw [unitaryOf_circ]

/-- with a ring homomorphism on the coefficients: the mapped matrix of the snapshot -/
theorem eval_eq_map_unitaryOf_snapshot {S : Type} [CommRing R] [CommRing S] (φ : R →+* S)
    (h : Heap R) (i : ℕ) : eval φ h i = (unitaryOf (snapshot h i)).map φ := by
  rw [eval_eq_prodItems, prodItems_map]
  show _ = (unitaryOf (Comp.circ (h.msize i) (snapshotItems h i))).map φ
  rw [unitaryOf_circ]
  rfl

/-- every operation keeps the invariant, hence every pool reachable by a history has it -/
theorem exec_ok [Zero R] [One R] (ops : List (Op R)) : (exec (Heap.empty : Heap R) ops).Ok :=
  exec_ok_of ops Heap.empty_ok

/-- After ANY history of `new / add leaf / nest by reference / merge / barrier / copy`: the
snapshot of every pool entry is well formed, the evaluated matrix is the ordered product of the
(mapped) leaf matrices on the ranges iteration reports, and those ranges fit. -/
theorem eval_after_any_history {S : Type} [CommRing R] [CommRing S] (φ : R →+* S)
    (ops : List (Op R)) (i : ℕ) :
    let h := exec (Heap.empty : Heap R) ops
    (snapshot h i).WF ∧
      eval φ h i = prodFlat (h.msize i) (Flat.mapC φ (flatten (snapshot h i))) ∧
      Flat.Fits (flatten (snapshot h i)) (h.msize i) := by
  intro h
  have hOk : h.Ok := exec_ok ops
  have hw : (snapshotItems h i).WF (h.msize i) := resolveIt_WF hOk _ i
  refine ⟨snapshot_WF hOk i, ?_, ?_⟩
  · rw [eval_eq_prodItems, prodItems_map]
    exact unitaryOf_map_eq_prod_flatten φ _ _ hw
  · exact (prodItems_eq_prod_flatten (h.msize i) _ hw).2

/-- recursion through references never runs out of fuel: more fuel gives the same tree -/
theorem snapshot_fuel_irrelevant {h : Heap R} (hOk : h.Ok) (i f : ℕ) (hf : h.rank i < f) :
    resolve h f i = snapshot h i := by
  simp only [resolve, snapshot, snapshotItems]
  rw [resolveIt_stable hOk f (h.rank i + 1) i hf (by omega)]

/-- a pool entry is the list of its own items, each reference standing for the *current*
snapshot of the entry it points to (this is "nested by reference keeps growing") -/
theorem snapshot_compositional {h : Heap R} (hOk : h.Ok) (i : ℕ) :
    snapshot h i = .circ (h.msize i) (resolveItems (snapshot h) (h.items i)) := by
  rw [snapshot, snapshotItems_eq hOk]

/-! ### each heap operation refines the tree operation `addItem` -/

theorem snapshot_step_leaf [Zero R] [One R] {h : Heap R} (hOk : h.Ok) (i off k : ℕ)
    (U : Matrix (Fin k) (Fin k) R) (hok : (Op.leaf i off k U).ok h = true) :
    snapshotItems (step h (.leaf i off k U)) i =
      addItem (snapshotItems h i) off (.leaf k U) false := by
  have hOk' := applyOp_ok hOk _ hok
  simp only [step, hok, if_true, applyOp] at hOk' ⊢
  simp only [Op.ok, Bool.and_eq_true, decide_eq_true_eq] at hok
  rw [snapshotItems_push hOk]
  · rfl
  · intro p hp
    simp only [List.mem_singleton] at hp
    subst hp
    simp only [HItem.Ok, Comp.WF, Comp.size, true_and]
    omega

theorem snapshot_step_nest [Zero R] [One R] {h : Heap R} (hOk : h.Ok) (i j off : ℕ)
    (hok : (Op.nest (R := R) i j off).ok h = true) :
    snapshotItems (step h (.nest i j off)) i =
      addItem (snapshotItems h i) off (snapshot h j) false := by
  simp only [step, hok, if_true, applyOp]
  simp only [Op.ok, Bool.and_eq_true, decide_eq_true_eq] at hok
  rw [snapshotItems_push hOk]
  · rfl
  · intro p hp
    simp only [List.mem_singleton] at hp
    subst hp
    simp only [HItem.Ok]
    omega

/-- `add(…, merge=True)`, `//`, `//=`: splicing the child's *current* items = `addItem … true` on
the snapshots -/
theorem snapshot_step_merge [Zero R] [One R] {h : Heap R} (hOk : h.Ok) (i j off : ℕ)
    (hok : (Op.merge (R := R) i j off).ok h = true) :
    snapshotItems (step h (.merge i j off)) i =
      addItem (snapshotItems h i) off (snapshot h j) true := by
  simp only [step, hok, if_true, applyOp]
  simp only [Op.ok, Bool.and_eq_true, decide_eq_true_eq] at hok
  have hj := snapshotItems_eq hOk j
  split
  · next hnil =>
    rw [hnil] at hj
    rw [snapshotItems_push hOk]
    · simp only [snapshot, hj, resolveItems, addItem]
    · intro p hp
      simp only [List.mem_singleton] at hp
      subst hp
      simp only [HItem.Ok]
      omega
  · next x xs hx =>
    rw [hx] at hj
    rw [snapshotItems_push hOk, resolveItems_shift, ← hj]
    · obtain ⟨o, it⟩ := x
      cases it <;> simp only [resolveItems] at hj <;> simp only [snapshot, hj, addItem]
    · intro p hp
      obtain ⟨q, hq, rfl⟩ := List.mem_map.mp hp
      have hq' := hOk j q (by rw [hx]; exact hq)
      obtain ⟨o, it⟩ := q
      cases it with
      | val v =>
        simp only [HItem.Ok] at hq' ⊢
        exact ⟨hq'.1, by omega⟩
      | ref k =>
        simp only [HItem.Ok] at hq' ⊢
        omega

theorem snapshot_step_barrier [Zero R] [One R] {h : Heap R} (hOk : h.Ok) (i : ℕ)
    (hok : (Op.barrier (R := R) i).ok h = true) :
    snapshotItems (step h (.barrier i)) i =
      addItem (snapshotItems h i) 0 (barrierItem (h.msize i)) false := by
  simp only [step, hok, if_true, applyOp]
  rw [snapshotItems_push hOk]
  · rfl
  · intro p hp
    simp only [List.mem_singleton] at hp
    subst hp
    simp [HItem.Ok, Comp.WF, Comp.size, barrierItem]

/-- `copy()`: a new pool entry whose tree is the current snapshot with `φ` applied to the leaves -/
theorem snapshot_step_copy [Zero R] [One R] {h : Heap R} (hOk : h.Ok) (i : ℕ) (φ : R → R)
    (hi : i < h.size) : snapshot (step h (.copy i φ)) h.size = (snapshot h i).map φ := by
  have hok : (Op.copy i φ).ok h = true := by simp [Op.ok, hi]
  simp only [step, hok, if_true, applyOp]
  rw [snapshot_frozen_cell _ h _ _ _ _ φ (Heap.cell_alloc_self h _), ← snapshotItems_eq hOk i]
  rfl

/-- frame: an operation on pool entry `t` is invisible from every other entry of rank ≤ rank `t`
(such an entry cannot reach `t`); operations that create an entry change no existing entry -/
theorem snapshot_step_frame [Zero R] [One R] {h : Heap R} (hOk : h.Ok) (op : Op R) (k : ℕ)
    (hk : match op.target with
      | some t => k ≠ t ∧ h.rank k ≤ h.rank t
      | none => k < h.size) :
    snapshot (step h op) k = snapshot h k := by
  unfold step
  split
  · cases op with
    | new m r => exact snapshot_alloc_frame hOk _ hk
    | leaf i off k' U => exact snapshot_push_frame hOk i _ hk.1 hk.2
    | nest i j off => exact snapshot_push_frame hOk i _ hk.1 hk.2
    | merge i j off =>
      simp only [applyOp]
      split
      · exact snapshot_push_frame hOk i _ hk.1 hk.2
      · exact snapshot_push_frame hOk i _ hk.1 hk.2
    | barrier i => exact snapshot_push_frame hOk i _ hk.1 hk.2
    | copy i φ => exact snapshot_alloc_frame hOk _ hk
  · rfl

/-! ### consequences on matrices -/

/-- one operation on entry `i` multiplies its matrix on the left by the embedded *current* matrix
of what was added; merged or nested makes no difference at evaluation time -/
theorem eval_step_merge_eq_nest {S : Type} [CommRing R] [CommRing S] (φ : R →+* S) {h : Heap R}
    (hOk : h.Ok) (i j off : ℕ) (hok : (Op.merge (R := R) i j off).ok h = true) :
    prodItems (h.msize i) ((snapshotItems (step h (.merge i j off)) i).map φ) =
        prodItems (h.msize i) ((snapshotItems (step h (.nest i j off)) i).map φ) ∧
      prodItems (h.msize i) ((snapshotItems (step h (.merge i j off)) i).map φ) =
        embed (h.msize i) off (eval φ h j) * eval φ h i := by
  have hok' : (Op.nest (R := R) i j off).ok h = true := hok
  rw [snapshot_step_merge hOk i j off hok, snapshot_step_nest hOk i j off hok']
  simp only [Op.ok, Bool.and_eq_true, decide_eq_true_eq] at hok
  have hfit : off + (snapshot h j).size ≤ h.msize i := hok.2
  have hw := snapshot_WF hOk j
  rw [prodItems_map, prodItems_map, unitaryOf_addMerged_eq_addNested _ _ _ _ hw hfit]
  refine ⟨rfl, ?_⟩
  rw [unitaryOf_add _ _ _ _ false hw hfit, Matrix.map_mul,
    embed_map φ (map_zero φ) (map_one φ), eval_eq_map_unitaryOf_snapshot,
    eval_eq_prodItems, prodItems_map]
  rfl

/-- unitary leaves in, unitary matrices out — for every entry of every pool a history of
operations with unitary leaves can reach -/
theorem eval_isUnitary_after_any_history [CommRing R] [StarRing R] (ops : List (Op R))
    (hops : ∀ op ∈ ops, op.Unitary) (i : ℕ) :
    IsUnitary (unitaryOf (snapshot (exec (Heap.empty : Heap R) ops) i)) := by
  have hOk := exec_ok ops
  have hU : (exec (Heap.empty : Heap R) ops).AllUnitary :=
    exec_allUnitary_of ops (fun i p hp => by simp [Heap.empty, Heap.items] at hp) hops
  exact unitaryOf_isUnitary _ (snapshot_WF hOk i) (snapshot_allUnitary hU i)

/-- `copy()` detaches: whatever is done afterwards to other pool entries (in particular to the
original), the copy keeps the tree it had when it was made -/
theorem copy_independent [Zero R] [One R] {h : Heap R} (hOk : h.Ok) (i : ℕ) (φ : R → R)
    (hi : i < h.size) (ops : List (Op R)) (hops : ∀ op ∈ ops, op.target ≠ some h.size) :
    snapshot (exec (step h (.copy i φ)) ops) h.size = (snapshot h i).map φ := by
  rw [← snapshot_step_copy hOk i φ hi]
  have hok : (Op.copy i φ).ok h = true := by simp [Op.ok, hi]
  apply snapshot_closed
  · exact exec_cell_ne ops _ (by simp [step, hok, applyOp]) hops
  · intro p hp j hj
    simp only [step, hok, if_true, applyOp, Heap.items, Heap.cell_alloc_self] at hp
    obtain ⟨q, _, rfl⟩ := List.mem_map.mp hp
    simp at hj

/-- … and growing the copy does not change the original -/
theorem copy_growth_invisible [Zero R] [One R] {h : Heap R} (hOk : h.Ok) (i : ℕ) (φ : R → R)
    (hi : i < h.size) (op : Op R) (ht : op.target = some h.size) :
    snapshot (step (step h (.copy i φ)) op) i = snapshot h i := by
  have hok : (Op.copy i φ).ok h = true := by simp [Op.ok, hi]
  have hOk1 : (step h (.copy i φ)).Ok := step_ok hOk _
  have e1 : snapshot (step h (.copy i φ)) i = snapshot h i :=
    snapshot_step_frame hOk (.copy i φ) i (by simpa [Op.target] using hi)
  rw [← e1]
  apply snapshot_step_frame hOk1 op i
  rw [ht]
  simp only [step, hok, if_true, applyOp, Heap.rank, Heap.cell_alloc_self]
  rw [Heap.cell_alloc_ne _ _ (Nat.ne_of_lt hi)]
  exact ⟨Nat.ne_of_lt hi, Nat.le_refl _⟩

/-! ## variable parameters -/

section world
variable {E S : Type}

/-- The matrix reported under an environment is the product over the resolved tree of the leaf
matrices under that same environment — for every nesting and every pool. -/
theorem observe_eq_unitaryOf [CommRing S] (w : World E S) (i : ℕ) :
    observe w i = unitaryOf ((snapshot w.heap i).map (atEnv w.env)) :=
  eval_eq_unitaryOf_snapshot _ _ _

theorem observeV_toMatrix [CommRing S] (w : World E S) (i : ℕ) :
    (observeV w i).toMatrix = observe w i := rfl

/-- … and it is the circuit's parametrised matrix evaluated at that environment, positions
independent of the environment -/
theorem observe_eq_prod_flatten [CommRing S] (w : World E S) (hOk : w.heap.Ok) (i : ℕ) :
    observe w i = (unitaryOf (snapshot w.heap i)).map (atEnv w.env) ∧
      observe w i = prodFlat (w.heap.msize i)
        (Flat.mapC (atEnv w.env) (flatten (snapshot w.heap i))) := by
  have hw : (snapshotItems w.heap i).WF (w.heap.msize i) := resolveIt_WF hOk _ i
  constructor
  · exact eval_eq_map_unitaryOf_snapshot (R := E → S) (S := S) (atEnvHom w.env) w.heap i
  · show eval (R := E → S) (S := S) (atEnvHom w.env) w.heap i = _
    rw [eval_eq_prodItems, prodItems_map (R := E → S) (S := S)]
    exact unitaryOf_map_eq_prod_flatten (R := E → S) (S := S) (atEnvHom w.env) _ _ hw

/-- `set_value` changes no circuit: every entry of the pool is then observed under the new
environment (all leaves keep their binding), after any history of re-assignments -/
theorem observe_after_sets [Zero S] [One S] (w : World E S) (gs : List (E → E)) :
    (wexec w (gs.map WOp.set)).heap = w.heap ∧
      (wexec w (gs.map WOp.set)).env = gs.foldl (fun e g => g e) w.env := by
  induction gs generalizing w with
  | nil => exact ⟨rfl, rfl⟩
  | cons g r ih =>
    have := ih (wstep w (.set g))
    simpa [wexec, wstep] using this

/-- `copy()` freezes: the copy keeps reporting the matrix the original had at copy time, whatever
values the parameters receive later and whatever is added to other entries -/
theorem copy_frozen [CommRing S] (w : World E S) (hOk : w.heap.Ok) (i : ℕ) (hi : i < w.heap.size)
    (ops : List (WOp E S)) (hops : ∀ op ∈ ops, op.target ≠ some w.heap.size) :
    let w' := wexec (wstep w (.copy i)) ops
    (snapshot w'.heap w.heap.size).map (atEnv w'.env) = (snapshot w.heap i).map (atEnv w.env) := by
  intro w'
  have key : ∀ (ops : List (WOp E S)) (v : World E S), v.heap.Ok → w.heap.size < v.heap.size →
      (∀ op ∈ ops, op.target ≠ some w.heap.size) →
      (wexec v ops).heap.cell w.heap.size = v.heap.cell w.heap.size := by
    intro ops
    induction ops with
    | nil => intro v _ _ _; rfl
    | cons op r ih =>
      intro v hv hs ht
      have hop := ht op (by simp)
      have hstep : (wstep v op).heap.cell w.heap.size = v.heap.cell w.heap.size ∧
          v.heap.size ≤ (wstep v op).heap.size ∧ (wstep v op).heap.Ok := by
        cases op with
        | struct o =>
          obtain ⟨a, b⟩ := step_cell_ne v.heap o hs (by simpa [WOp.target] using hop)
          exact ⟨a, b, step_ok hv o⟩
        | copy k =>
          obtain ⟨a, b⟩ := step_cell_ne v.heap (.copy k (freeze v.env)) hs (by simp [Op.target])
          exact ⟨a, b, step_ok hv _⟩
        | set g => exact ⟨rfl, Nat.le_refl _, hv⟩
      have := ih (wstep v op) hstep.2.2 (by omega) (fun o ho => ht o (by simp [ho]))
      simp only [wexec, List.foldl_cons] at this ⊢
      rw [this, hstep.1]
  have hok : (Op.copy i (freeze w.env)).ok w.heap = true := by simp [Op.ok, hi]
  have h1 : (wstep w (.copy i)).heap = step w.heap (.copy i (freeze w.env)) := rfl
  have hcell := key ops (wstep w (.copy i)) (by rw [h1]; exact step_ok hOk _)
    (by rw [h1]; simp [step, hok, applyOp]) hops
  have hsnap : snapshot w'.heap w.heap.size = (snapshot w.heap i).map (freeze w.env) := by
    rw [← snapshot_step_copy hOk i (freeze w.env) hi, ← h1]
    apply snapshot_closed _ _ _ hcell
    intro p hp j hj
    simp only [h1, step, hok, if_true, applyOp, Heap.items, Heap.cell_alloc_self] at hp
    obtain ⟨q, _, rfl⟩ := List.mem_map.mp hp
    simp at hj
  rw [hsnap, Comp.map_map, atEnv_comp_freeze]

/-- `//`, `//=`, `@` (a shallow `copy.copy`, a barrier and a merge) keep the binding: after the
operation and any re-assignment of values, the result is the product under the *new* values -/
theorem merge_keeps_binding [CommRing S] (w : World E S) (hOk : w.heap.Ok) (i j off : ℕ)
    (hok : (Op.merge (R := E → S) i j off).ok w.heap = true) (g : E → E) :
    let w' := wexec w [.struct (.merge i j off), .set g]
    prodItems (w.heap.msize i) ((snapshotItems w'.heap i).map (atEnv w'.env)) =
      embed (w.heap.msize i) off (eval (atEnv (g w.env)) w.heap j) *
        eval (atEnv (g w.env)) w.heap i :=
  (eval_step_merge_eq_nest (R := E → S) (S := S) (atEnvHom (g w.env)) hOk i j off hok).2

/-- every world operation keeps the pool invariant -/
theorem wexec_ok [Zero S] [One S] (ops : List (WOp E S)) :
    ∀ (w : World E S), w.heap.Ok → (wexec w ops).heap.Ok := by
  induction ops with
  | nil => intro w hw; exact hw
  | cons op r ih =>
    intro w hw
    apply ih (wstep w op)
    cases op with
    | struct o => exact step_ok hw o
    | copy k => exact step_ok hw _
    | set g => exact hw

/-- After ANY history of structural operations, copies and re-assignments of parameter values,
starting from the empty pool: what every pool entry reports is the ordered product of its leaves'
matrices under the *current* environment, on the ranges iteration reports (which fit). -/
theorem observe_after_any_history [CommRing S] (e₀ : E) (ops : List (WOp E S)) (i : ℕ) :
    let w := wexec (⟨Heap.empty, e₀⟩ : World E S) ops
    observe w i = prodFlat (w.heap.msize i) (Flat.mapC (atEnv w.env) (flatten (snapshot w.heap i))) ∧
      Flat.Fits (flatten (snapshot w.heap i)) (w.heap.msize i) := by
  intro w
  have hOk : w.heap.Ok := wexec_ok ops _ Heap.empty_ok
  have hw : (snapshotItems w.heap i).WF (w.heap.msize i) := resolveIt_WF hOk _ i
  exact ⟨(observe_eq_prod_flatten w hOk i).2, (prodItems_eq_prod_flatten _ _ hw).2⟩

end world

/-! ### non-vacuity of the heap theorems: a history with nesting by reference, growth after
nesting, a merge and a copy; all operations admissible, leaves unitary -/

def exHist : List (Op GQ) :=
  [.new 3 1, .new 2 0, .leaf 1 0 2 swap2, .nest 0 1 1, .leaf 1 1 1 phaseI, .merge 0 1 0,
   .barrier 0, .copy 0 id, .leaf 0 0 1 phaseI]

example : ∀ op ∈ exHist, op.Unitary := by
  have h1 : IsUnitary swap2 := by unfold IsUnitary; decide +kernel
  have h2 : IsUnitary phaseI := by unfold IsUnitary; decide +kernel
  have h3 : PreservesUnitary (id : GQ → GQ) := fun k U hU => by simpa using hU
  intro op hop
  simp only [exHist, List.mem_cons, List.not_mem_nil, or_false] at hop
  rcases hop with rfl | rfl | rfl | rfl | rfl | rfl | rfl | rfl | rfl
  · exact True.intro
  · exact True.intro
  · exact h1
  · exact True.intro
  · exact h2
  · exact True.intro
  · exact True.intro
  · exact h3
  · exact h2

example : (exec (Heap.empty : Heap GQ) exHist).size = 3 ∧
    ((exec (Heap.empty : Heap GQ) exHist).items 0).length = 5 := by decide +kernel

/-- the hypotheses of the refinement theorems (`hOk`, admissibility of a nest / merge / leaf /
barrier, `i < size` for a copy) hold together on a reachable pool -/
example : let h := exec (Heap.empty : Heap GQ) (exHist.take 3)
    h.Ok ∧ (Op.nest (R := GQ) 0 1 1).ok h = true ∧ (Op.merge (R := GQ) 0 1 0).ok h = true ∧
      (Op.leaf 1 1 1 phaseI).ok h = true ∧ (Op.barrier (R := GQ) 0).ok h = true ∧ 0 < h.size := by
  refine ⟨exec_ok _, ?_⟩
  decide +kernel

/-- … and the ones of the world theorems (`copy_frozen`, `merge_keeps_binding`) on a world with a
leaf whose matrix depends on the environment -/
def exWorld : World Bool GQ :=
  wexec ⟨Heap.empty, false⟩
    [.struct (.new 2 1), .struct (.new 1 0),
     .struct (.leaf 1 0 1 (fun _ _ e => if e then GQ.I else 1)), .struct (.nest 0 1 1)]

example : exWorld.heap.Ok ∧ 0 < exWorld.heap.size ∧
    (Op.merge (R := Bool → GQ) 0 1 0).ok exWorld.heap = true := by
  refine ⟨wexec_ok _ _ Heap.empty_ok, ?_⟩
  decide +kernel

/-! ## the per-circuit parameter registry (`_params`), `assign`, undefined parameters, `copy(subs=…)`

Model: `Model/C01Reg.lean` (`RState`: the pool and the store of parameter values of `World`, plus the
registry of every pool entry, the variable slots of the leaves and the `Parameter` allocation counter). -/

section registry
variable {V S : Type} [Zero S] [One S]

/-- After ANY history (failed `add`s included) the names of a registry are pairwise distinct and the
pool invariant holds: `vars`, `param(name)`, `assign` address one `Parameter` per name. -/
theorem registry_names_distinct_after_any_history (e : PEnv V) (next : ℕ) (ops : List (ROp V S)) (i : ℕ) :
    (((rexec (RState.empty e next) ops).reg i).map (·.name)).Nodup :=
  (rexec_inv ops _ (empty_inv e next)).nodup i

/-- After any history in which no `add` raised the duplicate-name `RuntimeError`: every registered
parameter drives a slot of a leaf reachable from the circuit (nothing stale in `_params`). -/
theorem registry_subset_reachable (e : PEnv V) (next : ℕ) (ops : List (ROp V S))
    (hclean : CleanRun (RState.empty e next) ops) (i : ℕ) (v : Var) :
    v ∈ (rexec (RState.empty e next) ops).reg i → Occ (rexec (RState.empty e next) ops).pit i v :=
  rexec_regSub ops _ (empty_inv e next) (fun i v h => ((empty_regExact e next) i v).mp h) hclean i v

/-- After any history in which, in addition, no circuit received a component while it was held by
reference by another circuit: the registry of every circuit is EXACTLY the set of variable parameters
of the leaves reachable from it.  (Both hypotheses are necessary: witnesses below.) -/
theorem registry_exact (e : PEnv V) (next : ℕ) (ops : List (ROp V S))
    (hclean : CleanRun (RState.empty e next) ops) (hsafe : SafeRun (RState.empty e next) ops)
    (i : ℕ) (v : Var) :
    v ∈ (rexec (RState.empty e next) ops).reg i ↔ Occ (rexec (RState.empty e next) ops).pit i v :=
  rexec_regExact ops _ (empty_inv e next) (empty_regExact e next) hclean hsafe i v

/-- … and then a name identifies one `Parameter` among everything reachable from the circuit (the
purpose of the duplicate-name check) -/
theorem reachable_name_determines_parameter {s : RState V S} (hinv : RInv s) (hex : RegExact s)
    (i : ℕ) (v w : Var) (hv : Occ s.pit i v) (hw : Occ s.pit i w) (hn : v.name = w.name) : v = w := by
  have h1 := regLookup_of_mem (hinv.nodup i) ((hex i v).mpr hv)
  have h2 := regLookup_of_mem (hinv.nodup i) ((hex i w).mpr hw)
  rw [hn, h2] at h1
  exact (Option.some.inj h1).symm

/-- the executable traversal (what the driver reports and the harness compares with the iteration of the
real circuit) is reachability, after any history -/
theorem occ_iff_reachable (e : PEnv V) (next : ℕ) (ops : List (ROp V S)) (i : ℕ) (v : Var) :
    v ∈ (rexec (RState.empty e next) ops).occ i ↔ Occ (rexec (RState.empty e next) ops).pit i v :=
  mem_occ_iff (rexec_inv ops _ (empty_inv e next)) i v

/-! ### `assign` / `compute_unitary(assign=…)` -/

/-- `assign({name: x})` on a circuit whose registry is exact sets exactly the reachable parameter of that
name (and nothing else); the structure is untouched -/
theorem assign_reaches_reachable {s : RState V S} (hinv : RInv s) (hex : RegExact s) (i : ℕ) (v : Var)
    (hv : Occ s.pit i v) (x : V) :
    rstep s (.assign i [(v.name, x)]) =
      ({ s with w := { s.w with env := s.w.env.upd v.pid (some x) } }, .ok) := by
  have h1 := regLookup_of_mem (hinv.nodup i) ((hex i v).mpr hv)
  simp [rstep, assignMany, h1]

/-- … and raises `KeyError`, changing nothing, when no reachable leaf has a parameter of that name -/
theorem assign_unknown_name {s : RState V S} (hex : RegExact s) (i n : ℕ)
    (hn : ∀ v, Occ s.pit i v → v.name ≠ n) (x : V) :
    rstep s (.assign i [(n, x)]) = (s, .key) := by
  have h1 : regLookup (s.reg i) n = none := by
    cases h : regLookup (s.reg i) n with
    | none => rfl
    | some w =>
      obtain ⟨hm, hw⟩ := regLookup_some h
      exact absurd hw (hn w ((hex i w).mp hm))
  simp [rstep, assignMany, h1]

/-- in general `assign` reads the registry only: a bound name reaches the registered object, an unbound
name stops the loop (`KeyError`) and keeps what was assigned before -/
theorem assignMany_cons (reg : List Var) (e : PEnv V) (n : ℕ) (x : V) (r : List (ℕ × V)) :
    assignMany reg e ((n, x) :: r) =
      match regLookup reg n with
      | some v => assignMany reg (e.upd v.pid (some x)) r
      | none => (e, false) := rfl

end registry

section evaluation
variable {V S : Type} [CommRing S]

/-- `compute_unitary()` raises (a leaf's `assert self.defined`) exactly when a parameter of a reachable
leaf has no value -/
theorem reval_none_iff {s : RState V S} (hinv : RInv s) (i : ℕ) :
    s.reval i = none ↔ ∃ v, Occ s.pit i v ∧ s.w.env v.pid = none := by
  unfold RState.reval RState.evalOk
  constructor
  · intro h
    split at h
    · cases h
    · next hne =>
      simp only [List.all_eq_true, not_forall] at hne
      obtain ⟨v, hv, hd⟩ := hne
      refine ⟨v, (mem_occ_iff hinv i v).mp hv, ?_⟩
      simpa using hd
  · rintro ⟨v, hv, hd⟩
    have : ¬ ((s.occ i).all fun v => (s.w.env v.pid).isSome) = true := by
      simp only [List.all_eq_true, not_forall]
      exact ⟨v, (mem_occ_iff hinv i v).mpr hv, by simp [hd]⟩
    simp [this]

/-- when it does not raise, the matrix is the ordered product of the leaves' matrices under the current
store of parameter values, on the ranges iteration reports — after any history of the registry machine
(structural operations, failed adds, copies with substitution, `set_value`, `reset`, `assign`) -/
theorem reval_after_any_history (e : PEnv V) (next : ℕ) (ops : List (ROp V S)) (i : ℕ)
    (M : Matrix (Fin ((rexec (RState.empty e next) ops).w.heap.msize i))
      (Fin ((rexec (RState.empty e next) ops).w.heap.msize i)) S)
    (h : (rexec (RState.empty e next) ops).reval i = some M) :
    let s := rexec (RState.empty e next) ops
    M = prodFlat (s.w.heap.msize i) (Flat.mapC (atEnv s.w.env) (flatten (snapshot s.w.heap i))) ∧
      Flat.Fits (flatten (snapshot s.w.heap i)) (s.w.heap.msize i) := by
  intro s
  have hOk : s.w.heap.Ok := (rexec_inv ops _ (empty_inv e next)).heapOk
  have hw : (snapshotItems s.w.heap i).WF (s.w.heap.msize i) := resolveIt_WF hOk _ i
  unfold RState.reval at h
  split at h
  · cases h
    exact ⟨(observe_eq_prod_flatten s.w hOk i).2, (prodItems_eq_prod_flatten _ _ hw).2⟩
  · cases h

/-- `compute_unitary(assign=a)` = `assign(a)` followed by `compute_unitary()`: the evaluation is the one of
the same pool under the updated store -/
theorem assign_then_eval (s : RState V S) (i : ℕ) (a : List (ℕ × V)) :
    (rstep s (.assign i a)).1.w.heap = s.w.heap ∧
      (rstep s (.assign i a)).1.w.env = (assignMany (s.reg i) s.w.env a).1 ∧
      (rstep s (.assign i a)).1.pit = s.pit ∧ (rstep s (.assign i a)).1.reg = s.reg :=
  ⟨rfl, rfl, rfl, rfl⟩

/-- `compute_unitary(assign=a)` after any history: when it returns a matrix, that matrix is the ordered product
of the leaves' matrices under the store in which the registered parameters named in `a` have the given values
(the store `assignMany` computes by looking the names up in the registry of that circuit) -/
theorem assign_eval_after_any_history (e : PEnv V) (next : ℕ) (ops : List (ROp V S)) (i : ℕ)
    (a : List (ℕ × V))
    (M : Matrix (Fin ((rexec (RState.empty e next) (ops ++ [.assign i a])).w.heap.msize i))
      (Fin ((rexec (RState.empty e next) (ops ++ [.assign i a])).w.heap.msize i)) S)
    (h : (rexec (RState.empty e next) (ops ++ [.assign i a])).reval i = some M) :
    let s := rexec (RState.empty e next) ops
    let s' := rexec (RState.empty e next) (ops ++ [.assign i a])
    s'.w.heap = s.w.heap ∧ s'.w.env = (assignMany (s.reg i) s.w.env a).1 ∧
      M = prodFlat (s'.w.heap.msize i) (Flat.mapC (atEnv s'.w.env) (flatten (snapshot s'.w.heap i))) := by
  intro s s'
  have hs' : s' = (rstep s (.assign i a)).1 := by
    simp only [s', s, rexec, List.foldl_append, List.foldl_cons, List.foldl_nil]
  refine ⟨by rw [hs']; rfl, by rw [hs']; rfl, ?_⟩
  exact (reval_after_any_history e next (ops ++ [.assign i a]) i M h).1

end evaluation

/-! ### `copy()` / `copy(subs=σ)` with undefined parameters -/

section copy
variable {V S : Type}

/-- the exact failure set: the nested `add` calls of `Circuit.copy` raise `RuntimeError` iff two slots
(of one leaf, of two leaves, of one component met twice) that stay variable — no value at copy time, symbol
not substituted — carry the same name -/
theorem copy_fails_iff [Zero S] [One S] (s : RState V S) (i : ℕ) (σ : ℕ → Option V) (hi : i < s.size) :
    (rstep s (.copy i σ)).2 = .runtime ↔
      ¬ (remNames (keepVar s.w.env σ) s.pit (s.w.heap.rank i + 1) i).Nodup := by
  simp only [rstep, hi, if_true]
  rw [copyNames_eq]
  by_cases hnd : (remNames (keepVar s.w.env σ) s.pit (s.w.heap.rank i + 1) i).Nodup
  · simp [hnd]
  · simp [hnd]

/-- a failed copy changes nothing -/
theorem copy_failure_no_effect [Zero S] [One S] (s : RState V S) (i : ℕ) (σ : ℕ → Option V)
    (h : (rstep s (.copy i σ)).2 ≠ .ok) : (rstep s (.copy i σ)).1 = s := by
  simp only [rstep] at h ⊢
  split
  · split
    · rfl
    · next hi _ names hn => simp [hi, hn] at h
  · rfl

/-- a successful copy registers one new `Parameter` per slot left variable, in iteration order -/
theorem copy_registry [Zero S] [One S] (s : RState V S) (i : ℕ) (σ : ℕ → Option V) (hi : i < s.size)
    (hnd : (remNames (keepVar s.w.env σ) s.pit (s.w.heap.rank i + 1) i).Nodup) :
    (rstep s (.copy i σ)).2 = .ok ∧
      (rstep s (.copy i σ)).1.reg s.size =
        freshVars s.next (remNames (keepVar s.w.env σ) s.pit (s.w.heap.rank i + 1) i) ∧
      (rstep s (.copy i σ)).1.next =
        s.next + (remNames (keepVar s.w.env σ) s.pit (s.w.heap.rank i + 1) i).length := by
  simp only [rstep, hi, if_true]
  rw [copyNames_eq, if_pos hnd]
  exact ⟨rfl, updAt_self _ _ _, rfl⟩

/-- `copy(subs=σ)` then evaluation under a store `ρ` = evaluation of the original (as it was at copy time)
under `rebind … ρ`: for every store, every nesting, every leaf -/
theorem copy_subs_eval [Zero S] [One S] (s : RState V S) (hinv : RInv s) (i : ℕ) (σ : ℕ → Option V)
    (hi : i < s.size) (hok : (rstep s (.copy i σ)).2 = .ok) (ρ : PEnv V) :
    (snapshot (rstep s (.copy i σ)).1.w.heap s.size).map (atEnv ρ) =
      (snapshot s.w.heap i).map (atEnv (rebind s.w.env σ (s.occ i)
        (remNames (keepVar s.w.env σ) s.pit (s.w.heap.rank i + 1) i) s.next ρ)) := by
  by_cases hnd : (remNames (keepVar s.w.env σ) s.pit (s.w.heap.rank i + 1) i).Nodup
  · simp only [rstep, hi, if_true]
    rw [copyNames_eq, if_pos hnd]
    show (snapshot (step s.w.heap (.copy i _)) s.w.heap.size).map (atEnv ρ) = _
    rw [snapshot_step_copy hinv.heapOk i _ hi, Comp.map_map]
    rfl
  · have := (copy_fails_iff s i σ hi).mpr hnd
    rw [this] at hok
    cases hok

/-- … and this stays so after ANY later history that does not add to the copy itself (growth of the
original, `set_value` on the original's parameters, further copies, failed adds …) -/
theorem copy_subs_eval_after_any_history [Zero S] [One S] (s : RState V S) (hinv : RInv s) (i : ℕ)
    (σ : ℕ → Option V) (hi : i < s.size) (hok : (rstep s (.copy i σ)).2 = .ok)
    (ops : List (ROp V S)) (hops : ∀ op ∈ ops, op.target ≠ some s.size) (ρ : PEnv V) :
    (snapshot (rexec (rstep s (.copy i σ)).1 ops).w.heap s.size).map (atEnv ρ) =
      (snapshot s.w.heap i).map (atEnv (rebind s.w.env σ (s.occ i)
        (remNames (keepVar s.w.env σ) s.pit (s.w.heap.rank i + 1) i) s.next ρ)) := by
  rw [← copy_subs_eval s hinv i σ hi hok ρ]
  congr 1
  have hnd : (remNames (keepVar s.w.env σ) s.pit (s.w.heap.rank i + 1) i).Nodup := by
    by_contra h
    rw [(copy_fails_iff s i σ hi).mpr h] at hok
    cases hok
  have hheap : (rstep s (.copy i σ)).1.w.heap = step s.w.heap (.copy i fun x ρ =>
      x (rebind s.w.env σ (s.occ i)
        (remNames (keepVar s.w.env σ) s.pit (s.w.heap.rank i + 1) i) s.next ρ)) := by
    simp only [rstep, hi, if_true]
    rw [copyNames_eq, if_pos hnd]
    rfl
  have hsz : s.size < (rstep s (.copy i σ)).1.size := by
    show s.w.heap.size < (rstep s (.copy i σ)).1.w.heap.size
    rw [hheap]
    have : i < s.w.heap.size := hi
    simp [step, Op.ok, this, applyOp]
  apply snapshot_closed _ _ _ (rexec_cell_ne ops _ hsz hops)
  intro p hp j hj
  rw [hheap] at hp
  have : i < s.w.heap.size := hi
  simp only [step, Op.ok, this, decide_true, if_true, applyOp, Heap.items, RState.size,
    Heap.cell_alloc_self] at hp
  obtain ⟨q, _, rfl⟩ := List.mem_map.mp hp
  simp at hj

/-- what `rebind` is: a parameter defined at copy time keeps that value whatever the copy's store says -/
theorem rebind_defined (e : PEnv V) (σ : ℕ → Option V) (occ : List Var) (names : List ℕ) (next : ℕ)
    (ρ : PEnv V) (p : ℕ) (x : V) (h : e p = some x) : rebind e σ occ names next ρ p = some x := by
  simp [rebind, h]

/-- … an undefined parameter whose symbol is substituted has the substituted value -/
theorem rebind_substituted (e : PEnv V) (σ : ℕ → Option V) (occ : List Var) (names : List ℕ) (next : ℕ)
    (ρ : PEnv V) (v : Var) (x : V) (h : e v.pid = none)
    (hocc : occ.find? (fun u => u.pid == v.pid) = some v) (hσ : σ v.name = some x) :
    rebind e σ occ names next ρ v.pid = some x := by
  simp [rebind, h, hocc, hσ]

/-- … every other one reads the new `Parameter` created for it (the one registered under its name) -/
theorem rebind_fresh (e : PEnv V) (σ : ℕ → Option V) (occ : List Var) (names : List ℕ) (next : ℕ)
    (ρ : PEnv V) (v : Var) (h : e v.pid = none)
    (hocc : occ.find? (fun u => u.pid == v.pid) = some v) (hσ : σ v.name = none) :
    rebind e σ occ names next ρ v.pid = ρ (next + names.idxOf v.name) := by
  simp [rebind, h, hocc, hσ]

/-- the new `Parameter` registered under the `t`-th name has `pid = next + t` -/
theorem freshVars_getElem : ∀ (names : List ℕ) (next t : ℕ) (ht : t < (freshVars next names).length)
    (ht' : t < names.length), (freshVars next names)[t] = ⟨next + t, names[t]⟩ := by
  intro names
  induction names with
  | nil => intro _ t _ ht'; simp at ht'
  | cons n r ih =>
    intro next t ht ht'
    cases t with
    | zero => simp [freshVars]
    | succ t =>
      simp only [freshVars, List.getElem_cons_succ]
      rw [ih (next + 1) t _ (by simpa using ht')]
      simp [Nat.add_assoc, Nat.add_comm 1 t]

end copy

/-! ### non-vacuity and the witnesses that both hypotheses of `registry_exact` are necessary -/

section witnesses

def vx : Var := ⟨0, 0⟩     -- P("x")
def vy : Var := ⟨1, 1⟩     -- P("y")
def vz : Var := ⟨2, 2⟩     -- P("z")
def vx' : Var := ⟨3, 0⟩    -- another P("x")
def zeroU (k : ℕ) : Matrix (Fin k) (Fin k) (PEnv ℕ → ℕ) := fun _ _ _ => 0
def st0 : RState ℕ ℕ := RState.empty (fun _ => none) 4

/-- a clean and safe history: an inner circuit is completed, nested, merged, the outer one copied with a
substitution; every hypothesis of `registry_exact`, `copy_subs_eval`, `copy_registry` holds on it -/
def exReg : List (ROp ℕ ℕ) :=
  [.new 2 2, .new 1 0, .new 1 1, .leaf 1 0 1 [vx] (zeroU 1), .leaf 2 0 1 [vz] (zeroU 1), .nest 0 1 1,
   .leaf 0 0 2 [vy, vy] (zeroU 2), .merge 0 2 0, .barrier 0,
   .copy 0 (fun n => if n = 1 then some 7 else none)]

example : CleanRun st0 exReg ∧ SafeRun st0 exReg ∧ (rexec st0 exReg).size = 4 ∧
    (rexec st0 exReg).reg 0 = [vx, vy, vz] ∧ (rexec st0 exReg).reg 3 = [⟨4, 0⟩, ⟨5, 2⟩] ∧
    (rstep (rexec st0 (exReg.take 9)) (.copy 0 (fun n => if n = 1 then some 7 else none))).2 = .ok := by
  refine ⟨?_, ?_, ?_, ?_, ?_, ?_⟩ <;> decide +kernel

/-- the hypotheses of `reachable_name_determines_parameter`, `assign_reaches_reachable` hold there -/
example : RInv (rexec st0 exReg) ∧ RegExact (rexec st0 exReg) ∧ Occ (rexec st0 exReg).pit 0 vz :=
  ⟨rexec_inv _ _ (empty_inv _ _),
   rexec_regExact _ _ (empty_inv _ _) (empty_regExact _ _) (by decide +kernel) (by decide +kernel),
   occAt_sound _ 3 0 vz (by decide +kernel)⟩

/-- hypothesis of `assign_unknown_name`: the copy (entry 3) reaches no parameter named "y" (it was substituted) -/
example : ∀ v, Occ (rexec st0 exReg).pit 3 v → v.name ≠ 1 := by
  intro v hv
  have hm := (mem_occ_iff (rexec_inv exReg _ (empty_inv _ _)) 3 v).mpr hv
  have hall : ∀ u ∈ (rexec st0 exReg).occ 3, u.name ≠ 1 := by decide +kernel
  exact hall v hm

/-- hypothesis of `reval_after_any_history` / `assign_eval_after_any_history`: an evaluation that succeeds -/
def exEval : List (ROp ℕ ℤ) :=
  [.new 1 0, .leaf 0 0 1 [vx] (fun _ _ _ => 1), .assign 0 [(0, 3)]]

example : ((rexec (RState.empty (fun _ => none) 4) exEval).reval 0).isSome = true ∧
    ((rexec (RState.empty (fun _ => none) 4) (exEval.take 2)).reval 0).isSome = false := by
  constructor <;> decide +kernel

/-- `rebind` on concrete data: frozen, substituted, fresh -/
example : rebind (fun p => if p = 0 then some 5 else none) (fun n => if n = 1 then some 7 else none)
      [vx, vy, vz] [2] 4 (fun p => if p = 4 then some 9 else none) 0 = some 5 ∧
    rebind (fun p => if p = 0 then some 5 else none) (fun n => if n = 1 then some 7 else none)
      [vx, vy, vz] [2] 4 (fun p => if p = 4 then some 9 else none) 1 = some 7 ∧
    rebind (fun p => if p = 0 then some 5 else none) (fun n => if n = 1 then some 7 else none)
      [vx, vy, vz] [2] 4 (fun p => if p = 4 then some 9 else none) 2 = some 9 := by
  refine ⟨?_, ?_, ?_⟩ <;> decide +kernel

/-- WITNESS 1 (a failed `add` leaves a stale parameter): `c.add(0, PS(x))`, then
`c.add(0, BS(theta=y, phi_tl=x'))` with another parameter named "x" raises `RuntimeError` in the middle of
the loop: `y` stays in `c._params` although no leaf of `c` has it. -/
def exStale : List (ROp ℕ ℕ) :=
  [.new 2 1, .leaf 0 0 1 [vx] (zeroU 1), .leaf 0 0 2 [vy, vx'] (zeroU 2)]

theorem registry_keeps_parameter_of_failed_add :
    (rstep (rexec st0 (exStale.take 2)) (.leaf 0 0 2 [vy, vx'] (zeroU 2))).2 = .runtime ∧
      vy ∈ (rexec st0 exStale).reg 0 ∧ ¬ Occ (rexec st0 exStale).pit 0 vy := by
  refine ⟨by decide +kernel, by decide +kernel, ?_⟩
  intro h
  have := (mem_occ_iff (rexec_inv exStale _ (empty_inv _ _)) 0 vy).mpr h
  revert this
  decide +kernel

/-- WITNESS 2 (growth after nesting): `outer.add(0, inner)`, then `inner.add(0, PS(x))`: no error, `x` drives
a leaf reachable from `outer`, `outer._params` does not know it; `outer.assign({"x": …})` is a `KeyError`. -/
def exGrow : List (ROp ℕ ℕ) :=
  [.new 2 1, .new 1 0, .nest 0 1 0, .leaf 1 0 1 [vx] (zeroU 1)]

theorem registry_misses_growth_after_nesting :
    CleanRun st0 exGrow ∧ Occ (rexec st0 exGrow).pit 0 vx ∧ vx ∉ (rexec st0 exGrow).reg 0 ∧
      (rstep (rexec st0 exGrow) (.assign 0 [(0, 5)])).2 = .key := by
  refine ⟨by decide +kernel, ?_, by decide +kernel, by decide +kernel⟩
  apply occAt_sound _ 2 0 vx
  decide +kernel

/-- WITNESS 3 (the duplicate-name check is bypassed the same way): `outer.add(0, inner)`,
`outer.add(0, PS(x))`, `inner.add(0, PS(x'))`: no `RuntimeError`, two different parameters named "x" under
`outer`; `assign({"x": v})` reaches the first one only. -/
def exTwo : List (ROp ℕ ℕ) :=
  [.new 2 1, .new 1 0, .nest 0 1 0, .leaf 0 0 1 [vx] (zeroU 1), .leaf 1 0 1 [vx'] (zeroU 1)]

theorem two_parameters_one_name_after_growth :
    CleanRun st0 exTwo ∧ Occ (rexec st0 exTwo).pit 0 vx ∧ Occ (rexec st0 exTwo).pit 0 vx' ∧
      (rexec st0 exTwo).reg 0 = [vx] := by
  refine ⟨by decide +kernel, ?_, ?_, by decide +kernel⟩
  · apply occAt_sound _ 2 0 vx; decide +kernel
  · apply occAt_sound _ 2 0 vx'; decide +kernel

/-- WITNESS 4 (exact failure set of `copy`): one undefined parameter driving two slots makes `copy()` raise;
with a value, or with its symbol substituted, the copy succeeds -/
theorem copy_raises_on_shared_undefined_parameter :
    let s := rexec st0 [.new 2 1, .leaf 0 0 2 [vy, vy] (zeroU 2)]
    (rstep s (.copy 0 fun _ => none)).2 = .runtime ∧
      (rstep (rstep s (.setv 1 (some 4))).1 (.copy 0 fun _ => none)).2 = .ok ∧
      (rstep s (.copy 0 fun n => if n = 1 then some 4 else none)).2 = .ok := by
  refine ⟨?_, ?_, ?_⟩ <;> decide +kernel

end witnesses

/-! ### wave 7: what the rank discipline and `SafeRun` exclude (witnesses, for every choice of ranks)

The note "every acyclic history of the real API is a ranked history" is FALSE for the model as it is, for two
reasons, each with a witness that holds for every choice of the ghost ranks (both histories are accepted by the
real API and their reference graph is acyclic; checked by hand on /repo):
 * `copy()` gives the new entry the rank of the original, although the copy holds everything by value;
 * `merge` of a non-empty circuit demands `rank j < rank i` although it stores no reference to `j`.
So the theorems "after ANY history" quantify over the ranked histories only, a strict subset of the acyclic ones
(`ranked_history_of_acyclic_plain` below gives the converse for histories of new / leaf / nest / barrier). -/

section rankWitnesses

/-- `A = Circuit(2); C = A.copy(); P = Circuit(2); P.add(0, C); A.add(0, P)`: acyclic (A -> P -> C), but the copy
has the rank of `A`, so whatever ranks `A` and `P` were given, if `P.add(0, C)` is accepted then `A.add(0, P)` is
rejected by the model. -/
theorem rank_discipline_rejects_nesting_a_copy {R : Type} [Zero R] [One R] (r0 r2 : ℕ) (φ : R → R) :
    let h := exec (Heap.empty : Heap R) [.new 2 r0, .copy 0 φ, .new 2 r2]
    h.size = 3 ∧
      ((Op.nest (R := R) 2 1 0).ok h = true →
        (Op.nest (R := R) 0 2 0).ok (step h (.nest 2 1 0)) = false) := by
  intro h
  have e0 : h.rank 0 = r0 := rfl
  have e1 : h.rank 1 = r0 := rfl
  have e2 : h.rank 2 = r2 := rfl
  refine ⟨rfl, ?_⟩
  intro hok
  have hr : h.rank 1 < h.rank 2 := by
    simp only [Op.ok, Bool.and_eq_true, decide_eq_true_eq] at hok
    exact hok.1.2
  have e0' : (step h (.nest 2 1 0)).rank 0 = r0 := by
    simp only [step, hok, if_true, applyOp]; rfl
  have e2' : (step h (.nest 2 1 0)).rank 2 = r2 := by
    simp only [step, hok, if_true, applyOp]; rfl
  simp only [Op.ok, e0', e2']
  rw [e1, e2] at hr
  simp
  intro _ _ h'
  omega

/-- `A = Circuit(2); B = Circuit(2); B.add(0, BS()); A.add(0, B, merge=True); B.add(0, A)`: acyclic (`A` holds the
leaf by value, no reference to `B`), but the model's `merge` demands `rank B < rank A`, so the later nest of `A`
into `B` is rejected whatever the ranks. -/
theorem rank_discipline_rejects_nest_after_merge {R : Type} [Zero R] [One R] (rA rB : ℕ)
    (U : Matrix (Fin 2) (Fin 2) R) :
    let h := exec (Heap.empty : Heap R) [.new 2 rA, .new 2 rB, .leaf 1 0 2 U]
    h.items 1 = [(0, .val (.leaf 2 U))] ∧
      ((Op.merge (R := R) 0 1 0).ok h = true →
        (Op.nest (R := R) 1 0 0).ok (step h (.merge 0 1 0)) = false ∧
        (step h (.merge 0 1 0)).items 0 = [(0, .val (.leaf 2 U))]) := by
  intro h
  have e0 : h.rank 0 = rA := rfl
  have e1 : h.rank 1 = rB := rfl
  have hit : h.items 1 = [(0, .val (.leaf 2 U))] := rfl
  refine ⟨hit, ?_⟩
  intro hok
  have hr : h.rank 1 < h.rank 0 := by
    simp only [Op.ok, Bool.and_eq_true, decide_eq_true_eq] at hok
    exact hok.1.2
  have hs : step h (.merge 0 1 0) = h.push 0 [(0 + 0, .val (.leaf 2 U))] := by
    simp only [step, hok, if_true, applyOp, hit]; rfl
  rw [hs]
  have e0' : (h.push 0 [(0 + 0, HItem.val (.leaf 2 U))]).rank 0 = rA := rfl
  have e1' : (h.push 0 [(0 + 0, HItem.val (.leaf 2 U))]).rank 1 = rB := rfl
  refine ⟨?_, rfl⟩
  simp only [Op.ok, e0', e1']
  rw [e0, e1] at hr
  simp
  intro _ _ h'
  omega

end rankWitnesses

/-! the converse where it holds: the unranked machine `stepU` / `execU` (Lemmas/C01More.lean: the assertions of the
real `add`, no rank test) restricted to new / leaf / nest / barrier -/

/-- Every history of `Circuit(m)` / `add(elementary)` / `add(circuit, merge=False)` / `barrier()` run WITHOUT
the rank discipline (only the assertions the real `add` makes) whose final reference graph is acyclic —
`ρ` decreases along every reference present at the end — is a ranked history: re-labelling the ghost ranks of
the `new` operations by `ρ` makes the ranked machine accept exactly the same operations and reach the same pool. -/
theorem ranked_history_of_acyclic_plain [Zero R] [One R] (ops : List (Op R)) (hpl : ∀ op ∈ ops, op.Plain)
    (ρ : ℕ → ℕ)
    (hacy : ∀ i j off, i < (execU (Heap.empty : Heap R) ops).size →
      (off, HItem.ref j) ∈ (execU (Heap.empty : Heap R) ops).items i → ρ j < ρ i) :
    exec (Heap.empty : Heap R) (relabel ρ Heap.empty ops) = (execU Heap.empty ops).rerank ρ := by
  have := exec_relabel ρ ops Heap.empty hpl hacy
  rwa [rerank_empty] at this

/-- … hence the "after ANY history" theorems hold for every acyclic plain history of the unranked machine -/
theorem eval_after_any_acyclic_plain_history {S : Type} [CommRing R] [CommRing S] (φ : R →+* S)
    (ops : List (Op R)) (hpl : ∀ op ∈ ops, op.Plain) (ρ : ℕ → ℕ)
    (hacy : ∀ i j off, i < (execU (Heap.empty : Heap R) ops).size →
      (off, HItem.ref j) ∈ (execU (Heap.empty : Heap R) ops).items i → ρ j < ρ i) (i : ℕ) :
    let h := (execU (Heap.empty : Heap R) ops).rerank ρ
    h.Ok ∧ (snapshot h i).WF ∧
      eval φ h i = prodFlat (h.msize i) (Flat.mapC φ (flatten (snapshot h i))) ∧
      Flat.Fits (flatten (snapshot h i)) (h.msize i) := by
  intro h
  have e : h = exec (Heap.empty : Heap R) (relabel ρ Heap.empty ops) :=
    (ranked_history_of_acyclic_plain ops hpl ρ hacy).symm
  rw [e]
  exact ⟨exec_ok _, eval_after_any_history φ _ i⟩

/-- non-vacuity: a history run without ranks (all `new` carry rank 0) with growth after nesting; `ρ` = 1 on
entry 0, 0 elsewhere -/
def exPlain : List (Op GQ) := [.new 3 0, .new 2 0, .nest 0 1 1, .leaf 1 0 2 swap2, .barrier 0]

example : (∀ op ∈ exPlain, op.Plain) ∧
    (∀ i j off, i < (execU (Heap.empty : Heap GQ) exPlain).size →
      (off, HItem.ref j) ∈ (execU (Heap.empty : Heap GQ) exPlain).items i →
        (fun k => if k = 0 then 1 else 0 : ℕ → ℕ) j < (fun k => if k = 0 then 1 else 0 : ℕ → ℕ) i) ∧
    ((execU (Heap.empty : Heap GQ) exPlain).items 0).length = 2 := by
  refine ⟨?_, ?_, by decide +kernel⟩
  · intro op hop
    simp only [exPlain, List.mem_cons, List.not_mem_nil, or_false] at hop
    rcases hop with rfl | rfl | rfl | rfl | rfl <;> exact True.intro
  · intro i j off hi hm
    have hs : (execU (Heap.empty : Heap GQ) exPlain).size = 2 := by decide +kernel
    have h0 : (execU (Heap.empty : Heap GQ) exPlain).items 0 =
        [(1, .ref 1), (0, .val (barrierItem 3))] := rfl
    have h1 : (execU (Heap.empty : Heap GQ) exPlain).items 1 = [(0, .val (.leaf 2 swap2))] := rfl
    rw [hs] at hi
    have : i = 0 ∨ i = 1 := by omega
    rcases this with rfl | rfl
    · rw [h0] at hm; simp at hm; obtain ⟨_, rfl⟩ := hm; simp
    · rw [h1] at hm; simp at hm

/-- `registry_exact` is sufficient, not necessary: growth after nesting that only adds an already registered
parameter is not a `SafeRun`, and still the registry of every pool entry is exactly the set of reachable
parameters. -/
def exRegrow : List (ROp ℕ ℕ) :=
  [.new 2 1, .new 1 0, .leaf 1 0 1 [vx] (zeroU 1), .nest 0 1 0, .leaf 1 0 1 [vx] (zeroU 1)]

theorem registry_exact_without_safeRun :
    CleanRun st0 exRegrow ∧ ¬ SafeRun st0 exRegrow ∧ (rexec st0 exRegrow).size = 2 ∧
      ∀ i, i < 2 → ∀ v, v ∈ (rexec st0 exRegrow).reg i ↔ Occ (rexec st0 exRegrow).pit i v := by
  refine ⟨by decide +kernel, by decide +kernel, by decide +kernel, ?_⟩
  intro i hi v
  have hinv : RInv (rexec st0 exRegrow) := rexec_inv exRegrow _ (empty_inv _ _)
  rw [← mem_occ_iff hinv i v]
  have h0 : (rexec st0 exRegrow).reg 0 = [vx] := by decide +kernel
  have h1 : (rexec st0 exRegrow).reg 1 = [vx] := by decide +kernel
  have o0 : (rexec st0 exRegrow).occ 0 = [vx, vx] := by decide +kernel
  have o1 : (rexec st0 exRegrow).occ 1 = [vx, vx] := by decide +kernel
  have : i = 0 ∨ i = 1 := by omega
  rcases this with rfl | rfl
  · rw [h0, o0]; simp
  · rw [h1, o1]; simp

/-! ## extension 8: the `port_range` argument of `add`, and the literal block assignment

Model: `Model/C01Range.lean` (the assertion chain of `Circuit.add` on an `int` / `tuple` / `list` argument with its
outcome class, `//=`'s `(pos, c)` form, the element-wise shifts of `merge` and `__iter__`, the slice assignment
`nU[r[0]:r[-1]+1, r[0]:r[-1]+1] = cU` with its `len(r) == m` shortcut and the `u is None` start). -/

/-- `Circuit.add` accepts a `port_range` argument exactly when it denotes `range(off, off + k)` for a first port
`off ≥ 0` with `off + k ≤ m` (and `k > 0`): nothing else passes the assertion chain, and every such range does. -/
theorem checkRange_ok_iff (m k : ℕ) (a : PortArg) :
    checkRange m k a = .ok ↔ 0 < k ∧ ∃ off : ℕ, off + k ≤ m ∧ a.norm k = rangeFrom off k := by
  constructor
  · intro h
    by_cases hc : consecutive (a.norm k) = true
    · have e := eq_rangeFrom_of_consecutive _ hc
      obtain ⟨n, hn⟩ : ∃ n, (a.norm k).length = n := ⟨_, rfl⟩
      obtain ⟨p, hp⟩ : ∃ p, (a.norm k).headD 0 = p := ⟨_, rfl⟩
      rw [hn, hp] at e
      rw [checkRange_of_norm e] at h
      cases n with
      | zero => simp [verdict] at h
      | succ n' =>
        simp only [verdict] at h
        split at h
        · rename_i hb
          split at h
          · rename_i hk
            subst hk
            have hpn : ((p.toNat : ℕ) : ℤ) = p := by omega
            refine ⟨by omega, p.toNat, by omega, ?_⟩
            rw [hpn]; exact e
          · simp at h
        · simp at h
    · rw [checkRange_not_consecutive (by simpa using hc)] at h
      simp at h
  · rintro ⟨hk, off, ho, e⟩
    rw [checkRange_of_norm e]
    cases k with
    | zero => omega
    | succ k' =>
      have : (0 : ℤ) ≤ off ∧ (off : ℤ) + k' < m := by omega
      simp [verdict, this]

/-- the `int` form: accepted iff `0 ≤ p` and `p + k ≤ m` -/
theorem checkRange_int (m k : ℕ) (p : ℤ) :
    checkRange m k (.int p) = .ok ↔ 0 < k ∧ 0 ≤ p ∧ p + k ≤ m := by
  have e : (PortArg.int p).norm k = rangeFrom p k := rfl
  rw [checkRange_of_norm e]
  cases k with
  | zero => simp [verdict]
  | succ k' =>
    simp only [verdict, if_true]
    constructor
    · intro h
      split at h
      · rename_i hb; push_cast; omega
      · simp at h
    · rintro ⟨_, h1, h2⟩
      have : 0 ≤ p ∧ p + k' < m := by push_cast at h2; omega
      simp [this]

/-- an accepted `tuple` / `list` is the `int` form of its first element: same decision, same stored range -/
theorem checkRange_seq_is_int (m k : ℕ) (r : List ℤ) (h : checkRange m k (.seq r) = .ok) :
    checkRange m k (.int (r.headD 0)) = .ok ∧ (PortArg.int (r.headD 0)).norm k = r := by
  obtain ⟨hk, off, ho, e⟩ := (checkRange_ok_iff m k _).1 h
  have e' : r = rangeFrom off k := e
  cases k with
  | zero => omega
  | succ k' =>
    subst e'
    rw [headD_rangeFrom]
    exact ⟨(checkRange_ok_iff _ _ _).2 ⟨hk, off, ho, rfl⟩, rfl⟩

/-- `c //= (pos, x)` and `c //= x` (pos = 0) take the decision of `c.add(pos, x)` -/
theorem checkRange_floordiv (m k : ℕ) (pos : ℤ) :
    checkRange m k (floordivArg pos k) = checkRange m k (.int pos) := rfl

/-- the only way to a `ValueError`: an empty range (`min(())`) -/
theorem checkRange_valueError_iff (m k : ℕ) (a : PortArg) :
    checkRange m k a = .valueError ↔ a.norm k = [] := by
  constructor
  · intro h
    by_cases hc : consecutive (a.norm k) = true
    · have e := eq_rangeFrom_of_consecutive _ hc
      obtain ⟨n, hn⟩ : ∃ n, (a.norm k).length = n := ⟨_, rfl⟩
      rw [hn] at e
      rw [checkRange_of_norm e] at h
      cases n with
      | zero => exact List.length_eq_zero_iff.1 hn
      | succ n' =>
        simp only [verdict] at h
        split at h
        · split at h <;> simp at h
        · simp at h
    · rw [checkRange_not_consecutive (by simpa using hc)] at h
      simp at h
  · intro e
    have e' : a.norm k = rangeFrom 0 0 := e
    rw [checkRange_of_norm e']; rfl

/-- link with the tree model: the argument check succeeds exactly when the argument is `range(off, off + c.m)` for
an offset the model's `addOk` admits — the `WF` hypothesis of the tree theorems is what the assertions enforce -/
theorem checkRange_ok_iff_addOk (m : ℕ) (c : Comp R) (a : PortArg) :
    checkRange m c.size a = .ok ↔ ∃ off : ℕ, addOk m off c = true ∧ a.norm c.size = rangeFrom off c.size := by
  rw [checkRange_ok_iff]
  simp only [addOk, Bool.and_eq_true, decide_eq_true_eq]
  constructor
  · rintro ⟨hk, off, ho, e⟩; exact ⟨off, ⟨ho, hk⟩, e⟩
  · rintro ⟨off, ⟨ho, hk⟩, e⟩; exact ⟨hk, off, ho, e⟩

/-- merge branch: shifting an inner range `range(o, o + j)` (accepted by the sub-circuit of `k` modes) by the first
port of an accepted outer range gives `range(o + off, o + off + j)`, a range the outer circuit accepts -/
theorem mergeRange_ok {m k j : ℕ} {pr sp : List ℤ} (h1 : checkRange m k (.seq pr) = .ok)
    (h2 : checkRange k j (.seq sp) = .ok) :
    mergeRange pr sp = rangeFrom ((sp.headD 0).toNat + (pr.headD 0).toNat : ℕ) j ∧
      checkRange m j (.seq (mergeRange pr sp)) = .ok := by
  obtain ⟨hk, off, ho, e⟩ := (checkRange_ok_iff m k _).1 h1
  obtain ⟨hj, o, hoo, e2⟩ := (checkRange_ok_iff k j _).1 h2
  have e' : pr = rangeFrom off k := e
  have e2' : sp = rangeFrom o j := e2
  subst e' e2'
  cases k with
  | zero => omega
  | succ k' =>
  cases j with
  | zero => omega
  | succ j' =>
    have key : mergeRange (rangeFrom (off : ℤ) (k' + 1)) (rangeFrom (o : ℤ) (j' + 1)) =
        rangeFrom ((o + off : ℕ) : ℤ) (j' + 1) := by
      unfold mergeRange
      rw [headD_rangeFrom]
      generalize (j' + 1) = n
      have : ∀ (q : ℤ) (n : ℕ), (rangeFrom q n).map (· + (off : ℤ)) = rangeFrom (q + off) n := by
        intro q n
        induction n generalizing q with
        | zero => rfl
        | succ n ih => simp only [rangeFrom, List.map_cons, ih]; congr 2; omega
      rw [this]; congr 1
    rw [headD_rangeFrom, headD_rangeFrom, key]
    refine ⟨by simp, (checkRange_ok_iff _ _ _).2 ⟨hj, o + off, by omega, rfl⟩⟩

/-- `__iter__` shifts by the same rule (`pos + r[0]`) -/
theorem iterRange_eq_mergeRange (r rc : List ℤ) : iterRange r rc = mergeRange r rc := rfl

/-- on an accepted range the literal block assignment (slice `r[0] : r[-1]+1`, or `cU` itself when
`len(r) == m`) is `embed` at the first port -/
theorem litCU_eq_embed [Zero R] [One R] {m k : ℕ} {r : List ℤ} (h : checkRange m k (.seq r) = .ok)
    (U : Matrix (Fin k) (Fin k) R) : litCU m r U = embed m (r.headD 0).toNat U := by
  obtain ⟨hk, off, ho, e⟩ := (checkRange_ok_iff m k _).1 h
  have e' : r = rangeFrom off k := e
  cases k with
  | zero => omega
  | succ k' =>
    subst e'
    rw [litCU_rangeFrom ho, headD_rangeFrom]
    simp

/-- the literal loop of `_compute_circuit_unitary` (`u = None`, first item taken as it is, `cU @ u` afterwards,
identity for an empty circuit) over accepted ranges is the ordered product of the leaves embedded at their first
ports — the quantity `unitaryOf_eq_prod_flatten` is about -/
theorem litUnitary_eq_prodFlat [CommRing R] (m : ℕ)
    (l : List (List ℤ × (Σ k, Matrix (Fin k) (Fin k) R))) (h : RangesOk m l) :
    litUnitary m l = prodFlat m (firstPorts l) := by
  have key : ∀ (l : List (List ℤ × (Σ k, Matrix (Fin k) (Fin k) R))) (u : Option (MatV R m m)),
      RangesOk m l →
      ((litLoop m u l).getD (MatV.ofMatrix 1)).toMatrix =
        prodFlat m (firstPorts l) * ((u.map MatV.toMatrix).getD 1) := by
    intro l
    induction l with
    | nil => intro u _; cases u <;> simp [litLoop, firstPorts, prodFlat]
    | cons p rest ih =>
      intro u hl
      obtain ⟨r, k, B⟩ := p
      have hp : checkRange m k (.seq r) = .ok := hl (r, ⟨k, B⟩) (by simp)
      have hr : RangesOk m rest := fun q hq => hl q (by simp [hq])
      simp only [litLoop]
      rw [ih _ hr]
      cases u with
      | none => simp [firstPorts, prodFlat, litCU_eq_embed hp]
      | some u => simp [firstPorts, prodFlat, litCU_eq_embed hp, Matrix.mul_assoc]
  have := key l none h
  simpa [litUnitary, litUnitaryV] using this

/-- non-vacuity and the outcome classes on concrete arguments (4 modes, a component of 2) -/
example : checkRange 4 2 (.seq [1, 2]) = .ok := by decide
example : checkRange 4 2 (.int 2) = .ok := by decide
example : checkRange 4 2 (floordivArg 2 2) = .ok := by decide
example : checkRange 4 2 (.seq [2, 1]) = .assertion := by decide      -- not consecutive
example : checkRange 4 2 (.seq [1, 3]) = .assertion := by decide
example : checkRange 4 2 (.seq [3, 4]) = .assertion := by decide      -- too high
example : checkRange 4 2 (.int (-1)) = .assertion := by decide        -- negative
example : checkRange 4 2 (.seq [1, 2, 3]) = .assertion := by decide   -- wrong length
example : checkRange 4 2 (.seq [1]) = .assertion := by decide
example : checkRange 4 2 (.seq []) = .valueError := by decide         -- `min(())`
example : mergeRange [2, 3, 4] [1, 2] = [3, 4] := by decide
example : checkRange 5 3 (.seq [2, 3, 4]) = .ok ∧ checkRange 3 2 (.seq [1, 2]) = .ok := by decide
example : RangesOk 3 [([1, 2], ⟨2, swap2⟩), ([0], ⟨1, phaseI⟩), ([0, 1, 2], ⟨3, (1 : Matrix _ _ GQ)⟩)] := by
  intro p hp
  simp only [List.mem_cons, List.not_mem_nil, or_false] at hp
  rcases hp with rfl | rfl | rfl <;> decide



/-! ### range trees: the literal `add` / `__iter__` / `_compute_circuit_unitary` refine the first-port model -/
section rtree
/-- merge: the shifted items are items the outer circuit accepts … -/
theorem RItems.shiftBy_WF {m k : ℕ} {pr : List ℤ} (h : checkRange m k (.seq pr) = .ok) :
    (items : RItems R) → items.WF k → (items.shiftBy pr).WF m
  | .nil, _ => by simp [RItems.shiftBy, RItems.WF]
  | .cons r c rest, hw => by
    simp only [RItems.WF] at hw
    simp only [RItems.shiftBy, RItems.WF]
    exact ⟨(mergeRange_ok h hw.1).2, hw.2.1, RItems.shiftBy_WF h rest hw.2.2⟩

/-- … and their first ports are the inner first ports plus the outer first port (`Items.shift`) -/
theorem RItems.abs_shiftBy {m k : ℕ} {pr : List ℤ} (h : checkRange m k (.seq pr) = .ok) :
    (items : RItems R) → items.WF k → (items.shiftBy pr).abs = items.abs.shift (pr.headD 0).toNat
  | .nil, _ => by simp [RItems.shiftBy, RItems.abs, Items.shift]
  | .cons r c rest, hw => by
    simp only [RItems.WF] at hw
    simp only [RItems.shiftBy, RItems.abs, Items.shift]
    rw [RItems.abs_shiftBy h rest hw.2.2]
    have hm := (mergeRange_ok h hw.1).1
    obtain ⟨_, hj, _, _, _, _⟩ := range_of_ok hw.1
    congr 1
    rw [hm]
    rw [headD_rangeFrom_pos _ hj]; exact Int.toNat_natCast _

theorem raddItem_WF {m : ℕ} {items : RItems R} {pr : List ℤ} {c : RComp R} (merge : Bool)
    (hi : items.WF m) (hc : c.WF) (h : checkRange m c.size (.seq pr) = .ok) :
    (raddItem items pr c merge).WF m := by
  unfold raddItem
  split
  · rename_i k r c' rest
    rw [RItems.WF_append]
    exact ⟨hi, RItems.shiftBy_WF h _ hc⟩
  · rw [RItems.WF_append]
    exact ⟨hi, by simp only [RItems.WF]; exact ⟨h, hc, trivial⟩⟩

theorem raddItem_abs {m : ℕ} {items : RItems R} {pr : List ℤ} {c : RComp R} (merge : Bool)
    (hc : c.WF) (h : checkRange m c.size (.seq pr) = .ok) :
    (raddItem items pr c merge).abs = addItem items.abs (pr.headD 0).toNat c.abs merge := by
  unfold raddItem
  split
  · rename_i k r c' rest
    rw [RItems.abs_append, RItems.abs_shiftBy h _ hc]
    simp [RComp.abs, RItems.abs, addItem]
  · rename_i hne
    rw [RItems.abs_append]
    cases merge with
    | false => simp [addItem, RItems.abs]
    | true =>
      cases c with
      | leaf k U => simp [addItem, RItems.abs, RComp.abs]
      | circ k its =>
        cases its with
        | nil => simp [addItem, RItems.abs, RComp.abs]
        | cons r c' rest => exact absurd rfl (hne k r c' rest rfl)

mutual
  theorem RComp.abs_WF : (c : RComp R) → c.WF → c.abs.WF
    | .leaf _ _, _ => by simp [RComp.abs, Comp.WF]
    | .circ m items, h => by
      simp only [RComp.abs, Comp.WF]
      exact RItems.abs_WF items m h
  theorem RItems.abs_WF : (items : RItems R) → (m : ℕ) → items.WF m → items.abs.WF m
    | .nil, _, _ => by simp [RItems.abs, Items.WF]
    | .cons r c rest, m, h => by
      simp only [RItems.WF] at h
      obtain ⟨h1, h2, h3⟩ := h
      obtain ⟨off, _, ho, _, e, _⟩ := range_of_ok h1
      simp only [RItems.abs, Items.WF, e, RComp.abs_size]
      exact ⟨ho, RComp.abs_WF c h2, RItems.abs_WF rest m h3⟩
end

mutual
  theorem riter_eq : (c : RComp R) → c.WF → riter c = asRanges (flatten c.abs)
    | .leaf k U, _ => by simp [riter, RComp.abs, flatten, asRanges]
    | .circ m items, h => by
      simp only [riter, RComp.abs, flatten]
      exact riterItems_eq items m h
  theorem riterItems_eq : (items : RItems R) → (m : ℕ) → items.WF m →
      riterItems items = asRanges (flattenItems items.abs)
    | .nil, _, _ => by simp [riterItems, RItems.abs, flattenItems, asRanges]
    | .cons r c rest, m, h => by
      simp only [RItems.WF] at h
      obtain ⟨h1, h2, h3⟩ := h
      obtain ⟨off, _, ho, _, e, e'⟩ := range_of_ok h1
      simp only [riterItems, RItems.abs, flattenItems, riter_eq c h2, riterItems_eq rest m h3, asRanges,
        List.map_append, List.map_map, e]
      congr 1
      apply List.map_congr_left
      intro p _
      simp only [Function.comp, iterRange, e', map_add_rangeFrom]
      congr 2
end

section eval
variable [CommRing R]

mutual
  theorem litCU_rlitV : (c : RComp R) → c.WF → ∀ (N : ℕ) (r : List ℤ),
      litCU N r (rlitV c).toMatrix = litCU N r (unitaryOf c.abs)
    | .leaf k U, _ => by
      intro N r
      show litCU N r (k := k) (rlitV (.leaf k U)).toMatrix = litCU N r (k := k) (unitaryOf (.leaf k U))
      rw [unitaryOf_leaf, rlitV]
      exact congrArg (fun M : Matrix (Fin k) (Fin k) R => litCU N r M) (MatV.toMatrix_ofMatrix U)
    | .circ m items, h => by
      intro N r
      show litCU N r (k := m) (rlitV (.circ m items)).toMatrix =
        litCU N r (k := m) (unitaryOf (.circ m items.abs))
      rw [unitaryOf_circ, rlitV]
      have := rlitLoop_eq items m h none
      simp only [Option.map_none, Option.getD_none, mul_one] at this
      exact congrArg (fun M : Matrix (Fin m) (Fin m) R => litCU N r M) this
  theorem rlitLoop_eq : (items : RItems R) → (m : ℕ) → items.WF m → ∀ u : Option (MatV R m m),
      ((rlitLoop m u items).getD (MatV.ofMatrix 1)).toMatrix =
        prodItems m items.abs * ((u.map MatV.toMatrix).getD 1)
    | .nil, m, _ => by
      intro u
      cases u <;> simp [rlitLoop, RItems.abs]
    | .cons r c rest, m, h => by
      intro u
      simp only [RItems.WF] at h
      obtain ⟨h1, h2, h3⟩ := h
      have h1' : checkRange m c.abs.size (.seq r) = .ok := by rw [RComp.abs_size]; exact h1
      simp only [rlitLoop]
      rw [rlitLoop_eq rest m h3]
      simp only [RItems.abs, prodItems_cons]
      cases u with
      | none =>
        simp only [Option.map_some, Option.getD_some, MatV.toMatrix_ofMatrix, Option.map_none, Option.getD_none,
          mul_one, litCU_rlitV c h2, litCU_eq_embed h1']
      | some u =>
        simp only [Option.map_some, Option.getD_some, MatV.toMatrix_ofMatrix, litCU_rlitV c h2, litCU_eq_embed h1',
          Matrix.mul_assoc]
end

end eval
end rtree

/-- `Circuit.add` on port tuples refines `addItem` on first ports: an accepted add is `addItem` at an offset `addOk`
admits (merge included: the element-wise shift of the stored tuples is `Items.shift`), a rejected add changes nothing -/
theorem radd_refines_addItem {m : ℕ} (items : RItems R) (a : PortArg) (c : RComp R) (merge : Bool) (hc : c.WF) :
    ((radd m items a c merge).1 = .ok ∧ ∃ off : ℕ, addOk m off c.abs = true ∧ a.norm c.size = rangeFrom off c.size ∧
        (radd m items a c merge).2.abs = addItem items.abs off c.abs merge) ∨
    ((radd m items a c merge).1 ≠ .ok ∧ (radd m items a c merge).1 = checkRange m c.size a ∧
        (radd m items a c merge).2 = items) := by
  unfold radd
  cases hck : checkRange m c.size a with
  | ok =>
    left
    obtain ⟨hk, off, ho, e⟩ := (checkRange_ok_iff m c.size a).1 hck
    have hs : checkRange m c.size (.seq (a.norm c.size)) = .ok := (checkRange_ok_iff _ _ _).2 ⟨hk, off, ho, e⟩
    refine ⟨rfl, off, ?_, e, ?_⟩
    · simp only [addOk, RComp.abs_size, Bool.and_eq_true, decide_eq_true_eq]; exact ⟨ho, hk⟩
    · simp only
      rw [raddItem_abs merge hc hs, e, headD_rangeFrom_pos _ hk, Int.toNat_natCast]
  | assertion => right; simp
  | valueError => right; simp

/-- accepted adds keep every stored range admissible -/
theorem radd_WF {m : ℕ} (items : RItems R) (a : PortArg) (c : RComp R) (merge : Bool) (hi : items.WF m)
    (hc : c.WF) : (radd m items a c merge).2.WF m := by
  unfold radd
  cases hck : checkRange m c.size a with
  | ok =>
    obtain ⟨hk, off, ho, e⟩ := (checkRange_ok_iff m c.size a).1 hck
    exact raddItem_WF merge hi hc ((checkRange_ok_iff _ _ _).2 ⟨hk, off, ho, e⟩)
  | assertion => exact hi
  | valueError => exact hi

theorem raddAll_WF (m : ℕ) (l : List (PortArg × RComp R × Bool)) (items : RItems R) (hi : items.WF m)
    (hl : ∀ x ∈ l, x.2.1.WF) : (raddAll m items l).WF m := by
  induction l generalizing items with
  | nil => exact hi
  | cons x rest ih =>
    obtain ⟨a, c, mg⟩ := x
    exact ih _ (radd_WF items a c mg hi (hl (a, c, mg) (by simp))) (fun y hy => hl y (by simp [hy]))

/-- the literal code on stored port tuples (slice assignment, `len(r) == m` shortcut, `u = None` start, recursion
through sub-circuits) computes `unitaryOf` of the first-port abstraction -/
theorem rlit_eq_unitaryOf [CommRing R] (m : ℕ) (items : RItems R) (h : items.WF m) :
    (rlitV (.circ m items)).toMatrix = unitaryOf (.circ m items.abs) := by
  have := rlitLoop_eq items m h none
  simp only [Option.map_none, Option.getD_none, mul_one] at this
  rw [unitaryOf_circ]
  show (rlitV (.circ m items)).toMatrix = prodItems m items.abs
  rw [rlitV]; exact this

/-- END TO END, no well-formedness hypothesis left: after ANY sequence of `add` calls on a new circuit of `m` modes
(int / tuple / list / `//=` arguments, admissible or not, merged or nested, components leaves or circuits built the
same way) the literal evaluation is the ordered product of the leaves embedded at the first ports, the literal
iterator reports exactly `range(first port, first port + width)` for each of them, and these lie inside the circuit -/
theorem rlit_after_any_adds [CommRing R] (m : ℕ) (l : List (PortArg × RComp R × Bool))
    (hl : ∀ x ∈ l, x.2.1.WF) :
    let items := raddAll m .nil l
    (rlitV (.circ m items)).toMatrix = prodFlat m (flatten (.circ m items.abs)) ∧
      riter (.circ m items) = asRanges (flatten (.circ m items.abs)) ∧
      Flat.Fits (flatten (.circ m items.abs)) m := by
  intro items
  have hw : items.WF m := raddAll_WF m l .nil (by simp [RItems.WF]) hl
  have ha : (Comp.circ m items.abs).WF := RComp.abs_WF (.circ m items) hw
  obtain ⟨e, f⟩ := unitaryOf_eq_prod_flatten (.circ m items.abs) ha
  exact ⟨(rlit_eq_unitaryOf m items hw).trans e, riter_eq (.circ m items) hw, f⟩

/-- non-vacuity: a sub-circuit (swap on ports (1, 2) of 3) merged at `(1, 2, 3)` of 5 modes after a rejected add -/
def exRInner : RComp GQ := .circ 3 (raddAll 3 .nil [(.seq [1, 2], .leaf 2 swap2, false)])
def exRAdds : List (PortArg × RComp GQ × Bool) :=
  [(.seq [4, 5], .leaf 2 swap2, false), (.seq [1, 2, 3], exRInner, true), (.int 0, .leaf 1 phaseI, false)]

example : (riter (.circ 5 (raddAll 5 .nil exRAdds))).map (·.1) = [[2, 3], [0]] := by decide
example : ∀ x ∈ exRAdds, x.2.1.WF := by
  intro x hx
  simp only [exRAdds, List.mem_cons, List.not_mem_nil, or_false] at hx
  rcases hx with rfl | rfl | rfl
  · trivial
  · exact raddAll_WF 3 _ .nil (by simp [RItems.WF]) (by intro y hy; simp at hy; subst hy; trivial)
  · trivial


/-! ### unitarity of the literal evaluation -/
section runitary
variable [CommRing R] [StarRing R]

mutual
  theorem RComp.abs_allUnitary : (c : RComp R) → c.AllUnitary → c.abs.AllUnitary
    | .leaf _ _, h => by simpa [RComp.abs, Comp.AllUnitary, RComp.AllUnitary] using h
    | .circ _ items, h => by
      simp only [RComp.abs, Comp.AllUnitary]
      exact RItems.abs_allUnitary items (by simpa [RComp.AllUnitary] using h)
  theorem RItems.abs_allUnitary : (items : RItems R) → items.AllUnitary → items.abs.AllUnitary
    | .nil, _ => by simp [RItems.abs, Items.AllUnitary]
    | .cons _ c rest, h => by
      simp only [RItems.AllUnitary] at h
      simp only [RItems.abs, Items.AllUnitary]
      exact ⟨RComp.abs_allUnitary c h.1, RItems.abs_allUnitary rest h.2⟩
end

theorem RItems.allUnitary_append : (a b : RItems R) → ((a.append b).AllUnitary ↔ a.AllUnitary ∧ b.AllUnitary)
  | .nil, b => by simp [RItems.append, RItems.AllUnitary]
  | .cons r c rest, b => by
    simp [RItems.append, RItems.AllUnitary, RItems.allUnitary_append rest b, and_assoc]

theorem RItems.allUnitary_shiftBy (pr : List ℤ) : (a : RItems R) → ((a.shiftBy pr).AllUnitary ↔ a.AllUnitary)
  | .nil => by simp [RItems.shiftBy, RItems.AllUnitary]
  | .cons r c rest => by simp [RItems.shiftBy, RItems.AllUnitary, RItems.allUnitary_shiftBy pr rest]

theorem radd_allUnitary {m : ℕ} (items : RItems R) (a : PortArg) (c : RComp R) (merge : Bool)
    (hi : items.AllUnitary) (hc : c.AllUnitary) : (radd m items a c merge).2.AllUnitary := by
  unfold radd
  cases checkRange m c.size a with
  | ok =>
    simp only [raddItem]
    split
    · rename_i k r c' rest
      rw [RItems.allUnitary_append, RItems.allUnitary_shiftBy]
      exact ⟨hi, by simpa [RComp.AllUnitary] using hc⟩
    · rw [RItems.allUnitary_append]
      exact ⟨hi, by simp only [RItems.AllUnitary]; exact ⟨hc, trivial⟩⟩
  | assertion => exact hi
  | valueError => exact hi

/-- the matrix the literal code reports after ANY sequence of `add` calls with unitary leaves is unitary -/
theorem rlit_isUnitary_after_any_adds (m : ℕ) (l : List (PortArg × RComp R × Bool))
    (hl : ∀ x ∈ l, x.2.1.WF) (hu : ∀ x ∈ l, x.2.1.AllUnitary) :
    IsUnitary (rlitV (.circ m (raddAll m .nil l))).toMatrix := by
  have hw : (raddAll m .nil l).WF m := raddAll_WF m l .nil (by simp [RItems.WF]) hl
  have hU : ∀ (l : List (PortArg × RComp R × Bool)) (items : RItems R), items.AllUnitary →
      (∀ x ∈ l, x.2.1.AllUnitary) → (raddAll m items l).AllUnitary := by
    intro l
    induction l with
    | nil => intro items hi _; exact hi
    | cons x rest ih =>
      intro items hi hx
      obtain ⟨a, c, mg⟩ := x
      exact ih _ (radd_allUnitary items a c mg hi (hx (a, c, mg) (by simp))) (fun y hy => hx y (by simp [hy]))
  have hu' := hU l .nil (by simp [RItems.AllUnitary]) hu
  rw [rlit_eq_unitaryOf m _ hw]
  exact unitaryOf_isUnitary (.circ m (raddAll m .nil l).abs) (RComp.abs_WF (.circ m _) hw)
    (RComp.abs_allUnitary (.circ m _) (by simpa [RComp.AllUnitary] using hu'))

end runitary

example : ∀ x ∈ exRAdds, x.2.1.AllUnitary := by
  have h1 : IsUnitary swap2 := by unfold IsUnitary; decide +kernel
  have h2 : IsUnitary phaseI := by unfold IsUnitary; decide +kernel
  intro x hx
  simp only [exRAdds, List.mem_cons, List.not_mem_nil, or_false] at hx
  rcases hx with rfl | rfl | rfl
  · exact h1
  · show (RComp.circ 3 (raddAll 3 .nil [(.seq [1, 2], .leaf 2 swap2, false)])).AllUnitary
    simp only [RComp.AllUnitary]
    exact radd_allUnitary _ _ _ _ (by simp [RItems.AllUnitary]) h1
  · exact h2

/-
  Outside the model (see manifest.d/C01.json):
  * validated only: the symbolic path — `compute_unitary(use_symbolic=True)` is compared, after numeric evaluation
    of its entries (with values, and with the variables left symbolic and substituted afterwards), with the same
    product; `unitaryOf_map` is the statement behind it, sympy itself is trusted;
  * validated only: which Python object stands for which pool entry (`a // x`, `a @ x` on a `Circuit` return a
    second handle on the same entry — and on the same `_params` dict; the harness works through every handle);
  * validated only: that the slots a leaf declares are the parameters its matrix reads; that the flat slot list kept
    for a by-value sub-tree of a copy behaves like the nested tree (`copyNames_eq` is the reason);
    `copy(subs=[Parameter…])` / `copy(subs={"name": v})` substitute nothing (string keys never match sympy symbols):
    modelled as `σ = ∅`, exercised on every run;
  * ranked vs acyclic histories: PROVED for histories of new / leaf / nest / barrier (`ranked_history_of_acyclic_plain`,
    `eval_after_any_acyclic_plain_history`); FALSE in general for the model as it is — `copy()` inherits the rank of the
    original and `merge` of a non-empty circuit demands `rank j < rank i` (`rank_discipline_rejects_nesting_a_copy`,
    `rank_discipline_rejects_nest_after_merge`): the ranked histories are a strict subset of the acyclic ones; not proved:
    the converse for histories with merge / copy under a weaker rank test (would need a change of `Op.ok` / `applyOp`);
  * `registry_exact` is a sufficient condition with necessity witnesses, not an equivalence for every history
    (`registry_exact_without_safeRun`: an unsafe history whose registries are exact);
  * port_range layer (extension 8): tuple / list elements are ints (bool, float — `(0, 1.0)` passes the assertion
    `isinstance(x, int) and i == 0 or x == port_range[i-1] + 1` for `i > 0` — and numpy integers are outside the model);
    numpy's negative-index wrap-around and shape errors cannot occur on accepted ranges and are total defaults in
    `sliceEmbed` / `asIs`; range trees are values without sharing: the heap model keeps first ports only and is not
    re-proved over port tuples (link: `radd_refines_addItem` per operation); `multiplier = 2` (use_polarization) is C13;
  * not modelled: `Expression` parameters, bounds and periodic wrapping of `Parameter` (C14), `fix_value`,
    `reset_parameters`, polarisation (C13), `inverse` (C11), `getitem` / `depths` / `ncomponents`, cyclic `add`
    (evaluation does not terminate).
-/

end PM.C01
