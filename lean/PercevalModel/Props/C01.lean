/-
  C01 — property theorems (model: `Model/C01.lean`).  For every commutative ring `R`
  (in particular ℂ), every tree of any depth, every admissible offset.
-/
import PercevalModel.Lemmas.C01
import PercevalModel.Num.GQ

open Matrix

namespace PM.C01
variable {R : Type}

mutual
  /-- The reported matrix is the ordered product of the leaves' own matrices, each embedded on
  exactly the modes the recursive iterator reports for it; those ranges lie inside the circuit. -/
  theorem unitaryOf_eq_prod_flatten [CommRing R] :
      (c : Comp R) → c.WF →
        unitaryOf c = prodFlat c.size (flatten c) ∧ Flat.Fits (flatten c) c.size
    | .leaf k U, _ => by
      constructor
      · show unitaryOf (.leaf k U) = prodFlat k (flatten (.leaf k U))
        simp [flatten, prodFlat, embed_full]
        rfl
      · intro p hp; simp [flatten] at hp; subst hp; simp [Comp.size]
    | .circ m items, h => by
      show unitaryOf (.circ m items) = prodFlat m (flatten (.circ m items)) ∧
        Flat.Fits (flatten (.circ m items)) m
      simp only [unitaryOf_circ, flatten]
      exact prodItems_eq_prod_flatten m items h
  theorem prodItems_eq_prod_flatten [CommRing R] (m : ℕ) :
      (items : Items R) → items.WF m →
        prodItems m items = prodFlat m (flattenItems items) ∧ Flat.Fits (flattenItems items) m
    | .nil, _ => by
      constructor
      · simp [flattenItems, prodFlat]
      · intro p hp; simp [flattenItems] at hp
    | .cons off c rest, h => by
      simp only [Items.WF] at h
      obtain ⟨h1, h2, h3⟩ := h
      obtain ⟨e1, f1⟩ := unitaryOf_eq_prod_flatten c h2
      obtain ⟨e2, f2⟩ := prodItems_eq_prod_flatten m rest h3
      constructor
      · rw [prodItems_cons, flattenItems, prodFlat_append, e2, e1, embed_prodFlat h1 _ f1]
        rfl
      · intro p hp
        simp only [flattenItems, List.mem_append, List.mem_map] at hp
        rcases hp with ⟨q, hq, rfl⟩ | hp
        · have := f1 q hq
          simp only; omega
        · exact f2 p hp
end

/-- `flatten_ranges`: every range reported by iteration lies inside `[0, m)`. -/
theorem flatten_ranges [CommRing R] (c : Comp R) (h : c.WF) :
    ∀ p ∈ flatten c, p.1 + p.2.1 ≤ c.size :=
  (unitaryOf_eq_prod_flatten c h).2

/-- Adding a sub-circuit merged (`//`, `merge=True`) or nested (`merge=False`) gives the same
matrix, at every admissible offset, whatever the circuit already holds.
(`unitaryOf (.circ m items) = prodItems m items` is `unitaryOf_circ`.) -/
theorem unitaryOf_addMerged_eq_addNested [CommRing R] (m : ℕ) (items : Items R) (off : ℕ)
    (c : Comp R) (hc : c.WF) (hfit : off + c.size ≤ m) :
    prodItems m (addItem items off c true) = prodItems m (addItem items off c false) := by
  cases c with
  | leaf k U => rfl
  | circ k sub =>
    cases sub with
    | nil => rfl
    | cons o c' r =>
      have hw : (Items.cons o c' r).WF k := hc
      have hfit' : off + k ≤ m := hfit
      simp only [addItem, prodItems_append]
      rw [← embed_prodItems hfit' _ hw]
      simp
      rfl

/-- One `add` multiplies the matrix on the left by the embedded matrix of what was added. -/
theorem unitaryOf_add [CommRing R] (m : ℕ) (items : Items R) (off : ℕ) (c : Comp R)
    (merge : Bool) (hc : c.WF) (hfit : off + c.size ≤ m) :
    prodItems m (addItem items off c merge) = embed m off (unitaryOf c) * prodItems m items := by
  cases merge
  · simp [addItem, prodItems_append]
  · rw [unitaryOf_addMerged_eq_addNested m items off c hc hfit]
    simp [addItem, prodItems_append]

/-- `barrier()` (an identity leaf on all modes) does not change the matrix, wherever inserted. -/
theorem unitaryOf_barrier [CommRing R] (m : ℕ) (before after : Items R) :
    prodItems m (before.append (.cons 0 (barrierItem m) after)) =
      prodItems m (before.append after) := by
  have : embed m 0 (1 : Matrix (Fin m) (Fin m) R) = 1 := embed_full 1
  simp only [prodItems_append, prodItems_cons, barrierItem]
  show prodItems m after * embed m 0 (k := m) (unitaryOf (.leaf m 1)) * prodItems m before = _
  rw [unitaryOf_leaf, this, Matrix.mul_one]

mutual
  /-- A circuit whose leaves are all unitary is unitary (any nesting depth). -/
  theorem unitaryOf_isUnitary [CommRing R] [StarRing R] :
      (c : Comp R) → c.WF → c.AllUnitary → IsUnitary (unitaryOf c)
    | .leaf k U, _, hu => by
      show IsUnitary (n := Fin k) (unitaryOf (.leaf k U))
      rw [unitaryOf_leaf]; exact hu
    | .circ m items, h, hu => by
      show IsUnitary (n := Fin m) (unitaryOf (.circ m items))
      rw [unitaryOf_circ]
      exact prodItems_isUnitary m items h hu
  theorem prodItems_isUnitary [CommRing R] [StarRing R] (m : ℕ) :
      (items : Items R) → items.WF m → items.AllUnitary → IsUnitary (prodItems m items)
    | .nil, _, _ => by simpa using isUnitary_one
    | .cons off c rest, h, hu => by
      simp only [Items.WF] at h
      simp only [Items.AllUnitary] at hu
      rw [prodItems_cons]
      exact (prodItems_isUnitary m rest h.2.2 hu.2).mul
        (IsUnitary.embed h.1 (unitaryOf_isUnitary c h.2.1 hu.1))
end

/-- The model's `add` keeps well-formedness (so every constructible circuit is `WF`). -/
theorem addItem_WF (m : ℕ) (items : Items R) (off : ℕ) (c : Comp R) (merge : Bool)
    (hi : items.WF m) (hc : c.WF) (hfit : off + c.size ≤ m) :
    (addItem items off c merge).WF m := by
  cases merge
  · exact Items.WF_append (by simp [Items.WF, hfit, hc]) items hi
  · cases c with
    | leaf k U => exact Items.WF_append (by simp [Items.WF, hfit, hc]) items hi
    | circ k sub =>
      cases sub with
      | nil => exact Items.WF_append (by simp [Items.WF, hfit, hc]) items hi
      | cons o c' r =>
        exact Items.WF_append (Items.WF_shift hfit _ hc) items hi

/-! ### non-vacuity: a 4-mode circuit with a 2-level nested sub-circuit at offset 1 -/

def swap2 : Matrix (Fin 2) (Fin 2) GQ := fun i j => if i = j then 0 else 1
def phaseI : Matrix (Fin 1) (Fin 1) GQ := fun _ _ => GQ.I

def exInner : Comp GQ := .circ 2 (.cons 0 (.leaf 2 swap2) (.cons 1 (.leaf 1 phaseI) .nil))
def exMid : Comp GQ := .circ 3 (.cons 1 exInner (.cons 0 (.leaf 2 swap2) .nil))
def exTop : Comp GQ := .circ 4 (.cons 1 exMid (.cons 0 (.leaf 1 phaseI) .nil))

example : exTop.WF ∧ exTop.AllUnitary := by
  refine ⟨by simp [exTop, exMid, exInner, Comp.WF, Items.WF, Comp.size], ?_⟩
  simp only [exTop, exMid, exInner, Comp.AllUnitary, Items.AllUnitary, and_true]
  refine ⟨⟨?_, ?_⟩, ?_, ?_⟩ <;> (try unfold IsUnitary) <;> decide +kernel

end PM.C01
