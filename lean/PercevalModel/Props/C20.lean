/-
  C20 — property theorems (model: `Model/C20.lean`, helper lemmas: `Lemmas/C20.lean`).

  Full statement of the property (properties.jsonl):
    "Every logic gate of the component catalog, used with its heralds and post-selection, maps each
     dual-rail logical basis state to the logical output of the gate it is named after, with the correct
     relative phases and a success probability that does not depend on the input; parametrised gates do
     so for every angle.  A processor converted from a gate-based circuit (Qiskit, myQLM, cQASM) acts on
     the logical basis as the source circuit's unitary, up to a global phase and a uniform success
     probability, whichever mix of heralded and post-processed two-qubit gates the converter selects."

  What is proved here, for all inputs:
    * the algebra of `Implements` (scalars, products, uniform success for a unitary target);
    * the executable evaluation used by the driver is the specification (`Matrix.permanent`);
    * one-qubit gates: the logical table *is* the 2×2 circuit matrix (so C14's closed forms carry over
      to every angle);
    * the converter's bookkeeping: mode map, SWAP permutation (any two qubits), CNOT labelling
      (lengths, names, the post-processed CNOTs form a forest — never two on the same qubit pair —,
      maximality), the repaired labelling also respects the other two-qubit gates, the pinned one does
      not (witness);
    * the post-selection conditions re-applied after a SWAP follow the photons for the repaired converter
      (`cond_follows_photons`), not for the pinned one (`cond_follows_photons_fails_on_current_code`);
    * the cQASM front-end's assignment of declared qubit variables to qubits (`operand_lands_on_named_qubit`,
      `operand_index_injective`, `operand_index_in_range`, closed forms `operand_index_array` /
      `operand_index_single`: total width of the variables declared before, plus the index).
  What is NOT proved (validated per instance by the correspondence, see manifest.d/C20.json):
    * that the concrete catalog matrices (floating-point angles, SVD / sqrtm constructions, optimiser
      fits) implement their gate — no `∀`-angle theorem for the multi-photon gates;
    * that the logical table of a composed processor is the product of the tables of its parts
      (Fock-space composition with heralds; `implements_comp` is the matrix-level statement only);
    * that a forest of post-processed CNOTs is *sufficient* for the physics (photon-number argument);
    * `_is_cyclic` (DFS) is modelled extensionally by the leaf criterion `Forest`.
-/
import PercevalModel.Lemmas.C20

open Matrix

namespace PM.C20
open PM.Fock PM.SimSpec

variable {R : Type*} {n : Type*}

/-! ## Logical layer -/

theorem implements_refl [CommRing R] (G : Matrix n n R) : Implements G G := ⟨1, by simp⟩

/-- a global phase (any scalar) on the implementation does not matter -/
theorem implements_phase_free [CommRing R] {G A : Matrix n n R} (h : Implements G A) (z : R) :
    Implements G (z • A) := by
  obtain ⟨c, rfl⟩ := h
  exact ⟨z * c, by rw [smul_smul]⟩

/-- a global phase (any unit) on the *target* does not matter either -/
theorem implements_smul [CommRing R] {G A : Matrix n n R} (h : Implements G A) (u v : R)
    (huv : v * u = 1) : Implements (u • G) A := by
  obtain ⟨c, rfl⟩ := h
  exact ⟨c * v, by rw [smul_smul, mul_assoc, huv, mul_one]⟩

/-- composition at the level of logical tables: implementations compose to an implementation of the
product, the scalars (amplitudes of success) multiply -/
theorem implements_comp [CommRing R] [Fintype n] {G₁ A₁ G₂ A₂ : Matrix n n R}
    (h₁ : Implements G₁ A₁) (h₂ : Implements G₂ A₂) : Implements (G₂ * G₁) (A₂ * A₁) := by
  obtain ⟨c₁, rfl⟩ := h₁
  obtain ⟨c₂, rfl⟩ := h₂
  exact ⟨c₂ * c₁, by rw [Matrix.smul_mul, Matrix.mul_smul, smul_smul]⟩

/-- uniform success: when the target is unitary the Gram matrix of the implementation is `|c|²·1` —
every logical input (basis state or superposition) succeeds with the same probability `|c|²`, and
orthogonal inputs stay orthogonal -/
theorem implements_uniform_success [CommRing R] [StarRing R] [Fintype n] [DecidableEq n]
    {G A : Matrix n n R} {c : R} (h : A = c • G) (hG : Gᴴ * G = 1) :
    Aᴴ * A = (star c * c) • (1 : Matrix n n R) := by
  subst h
  rw [Matrix.conjTranspose_smul, Matrix.smul_mul, Matrix.mul_smul, hG, smul_smul]

/-- …in particular the squared norm of every column (success probability of that basis input) is `|c|²` -/
theorem success_independent_of_input [CommRing R] [StarRing R] [Fintype n] [DecidableEq n]
    {G A : Matrix n n R} {c : R} (h : A = c • G) (hG : Gᴴ * G = 1) (j : n) :
    ∑ i, star (A i j) * A i j = star c * c := by
  have := congrFun (congrFun (implements_uniform_success h hG) j) j
  simpa [Matrix.mul_apply, Matrix.conjTranspose_apply] using this

/-- the evaluation the driver runs (Laplace expansion skipping zero entries) is the specification
`gateAmp` (Mathlib's `Matrix.permanent` on the encoded logical states) -/
theorem fastGateAmp_eq_gateAmp [CommRing R] [DecidableEq R] {m : ℕ} (U : Matrix (Fin m) (Fin m) R)
    (L : Layout) (ps : PS) (bo bi : List Bool) :
    fastGateAmp U L ps bo bi = gateAmp U L ps bo bi := by
  unfold fastGateAmp gateAmp
  rw [fastAmp_eq_pamp]

/-- one-qubit gates (no heralds, no post-selection): the logical table is the circuit's 2×2 matrix
itself, for every matrix — hence for every angle of `rx, ry, rz, ph` once C14 gives the matrix -/
theorem one_qubit_table_exact [CommRing R] (U : Matrix (Fin 2) (Fin 2) R) (bo bi : Bool) :
    gateAmp U ⟨2, [0], []⟩ PS.tt [bo] [bi] = U (if bo then 1 else 0) (if bi then 1 else 0) := by
  unfold gateAmp
  simp only [PS.eval, if_true]
  cases bo <;> cases bi <;>
    (rw [PM.C02.pamp_single _ _ _ (by decide) (by decide)]; rfl)

/-! ## Converter layer -/

/-- `_create_mode_map` for two distinct qubits: control pair ↦ gate modes 0,1, data pair ↦ 2,3, no key
twice -/
theorem mode_map_spec (a b : ℕ) (h : a ≠ b) :
    ((createModeMap (2 * a) (2 * b)).map Prod.fst).Nodup ∧
    (createModeMap (2 * a) (2 * b)).map Prod.snd = [0, 1, 2, 3] ∧
    (createModeMap (2 * a) (2 * b)).lookup (2 * a) = some 0 ∧
    (createModeMap (2 * a) (2 * b)).lookup (2 * a + 1) = some 1 ∧
    (createModeMap (2 * a) (2 * b)).lookup (2 * b) = some 2 ∧
    (createModeMap (2 * a) (2 * b)).lookup (2 * b + 1) = some 3 := by
  have h1 : ¬ 2 * a = 2 * b := by omega
  have h2 : ¬ 2 * a = 2 * b + 1 := by omega
  have h3 : ¬ 2 * a + 1 = 2 * b := by omega
  have h4 : ¬ 2 * b = 2 * a := by omega
  have h5 : ¬ 2 * b + 1 = 2 * a := by omega
  have h6 : ¬ 2 * b = 2 * a + 1 := by omega
  have h7 : ¬ b = a := fun e => h e.symm
  have b1 : (2 * a + 1 == 2 * a) = false := beq_eq_false_iff_ne.mpr (by omega)
  have b2 : (2 * b == 2 * a) = false := beq_eq_false_iff_ne.mpr h4
  have b3 : (2 * b == 2 * a + 1) = false := beq_eq_false_iff_ne.mpr h6
  have b4 : (2 * b + 1 == 2 * a) = false := beq_eq_false_iff_ne.mpr h5
  have b5 : (2 * b + 1 == 2 * a + 1) = false := beq_eq_false_iff_ne.mpr (by omega)
  have b6 : (2 * b + 1 == 2 * b) = false := beq_eq_false_iff_ne.mpr (by omega)
  refine ⟨?_, rfl, ?_, ?_, ?_, ?_⟩
  · simp [createModeMap, h1, h2, h3, h]
  · simp [createModeMap, List.lookup]
  · simp [createModeMap, List.lookup, b1]
  · simp [createModeMap, List.lookup, b2, b3]
  · simp [createModeMap, List.lookup, b4, b5, b6]

/-- **SWAP**: for any two distinct qubits the constructed `PERM` (placed at the lower qubit's first
mode) exchanges the two dual-rail pairs rail by rail and fixes every mode in between and outside -/
theorem swap_perm_spec (a b : ℕ) (h : a ≠ b) :
    ∃ perm, swapPerm (2 * a) (2 * b) = some (2 * min a b, perm) ∧
      perm.length = 2 * (max a b - min a b) + 2 ∧
      ∀ j, permTarget (2 * min a b) perm j = swapPairs a b j := by
  rcases Nat.lt_or_gt_of_ne h with hab | hab
  · have e1 : min (2 * a) (2 * b) = 2 * a := by omega
    have e2 : max (2 * a) (2 * b) - min (2 * a) (2 * b) = 2 * (b - a) := by omega
    have e3 : min a b = a := by omega
    have e4 : max a b = b := by omega
    refine ⟨swapList (2 * (b - a)), ?_, ?_, ?_⟩
    · rw [swapPerm_eq _ _ (by omega) (by omega), e2, e1, e3]
    · rw [swapList_length, e3, e4]
    · intro j; rw [e3]; exact swap_aux a b j hab
  · have e1 : min (2 * a) (2 * b) = 2 * b := by omega
    have e2 : max (2 * a) (2 * b) - min (2 * a) (2 * b) = 2 * (a - b) := by omega
    have e3 : min a b = b := by omega
    have e4 : max a b = a := by omega
    refine ⟨swapList (2 * (a - b)), ?_, ?_, ?_⟩
    · rw [swapPerm_eq _ _ (by omega) (by omega), e2, e1, e3]
    · rw [swapList_length, e3, e4]
    · intro j; rw [e3, swapPairs_comm a b j h]; exact swap_aux b a j hab

/-! ### post-selection conditions across a SWAP

A post-processed CNOT leaves conditions ("one photon in each of my two qubits") on the processor.  A later SWAP
moves the photons of a qubit to another mode pair, so the conditions must move with them; otherwise the outputs
with two photons in one of the CNOT's qubits are no longer rejected once both qubits have been swapped away
(4 qubits: `h(1); cx(1,2); swap(2,3); swap(0,1)` gives 5/6 of non-logical outputs on the pinned code). -/

theorem swapPairs_involutive (a b : ℕ) (_h : a ≠ b) (j : ℕ) : swapPairs a b (swapPairs a b j) = j := by
  unfold swapPairs
  split_ifs <;> omega

/-- repaired converter: a condition re-applied after a SWAP counts, on the state behind the SWAP, exactly the
photons it counted before the SWAP -/
theorem cond_follows_photons (a b : ℕ) (h : a ≠ b) (t : ℕ → ℕ) (c : Cond) :
    condCount (moveState a b t) (condAfterSwap true a b c) = condCount t c := by
  simp only [condCount, condAfterSwap, if_true, List.map_map]
  congr 1
  apply List.map_congr_left
  intro j _
  simp [moveState, swapPairs_involutive a b h]

/-- pinned code: the condition stays on the old modes -/
theorem cond_follows_photons_fails_on_current_code :
    ¬ ∀ (a b : ℕ), a ≠ b → ∀ (t : ℕ → ℕ) (c : Cond),
      condCount (moveState a b t) (condAfterSwap false a b c) = condCount t c := by
  intro h
  have := h 0 1 (by decide) (fun j => if j = 0 then 2 else 0) [0, 1]
  simp [condCount, condAfterSwap, moveState, swapPairs] at this

/-! ### CNOT labelling -/

/-- one label per gate -/
theorem label_length (fixed : Bool) (gs : List Gate) : (labelCnots fixed gs).length = gs.length :=
  relabel_length gs _

/-- gates that are not CNOTs keep their name; every CNOT becomes "postprocessed cnot" or "heralded cnot" -/
theorem label_names (fixed : Bool) (gs : List Gate) (i : ℕ) (hi : i < gs.length) :
    (isCnot gs[i] = false →
      (labelCnots fixed gs)[i]'(by rw [label_length]; exact hi) = gs[i].name) ∧
    (isCnot gs[i] = true →
      (labelCnots fixed gs)[i]'(by rw [label_length]; exact hi) = "postprocessed cnot" ∨
      (labelCnots fixed gs)[i]'(by rw [label_length]; exact hi) = "heralded cnot") :=
  relabel_spec gs _ (by rw [cnotFlags_length]) i hi

/-- the post-processed pairs are (as a multiset) exactly the set found by `_find_max_ralph_pairs` -/
theorem ppPairs_perm (fixed : Bool) (gs : List Gate) :
    (ppPairs fixed gs).Perm
      (findMaxRalph (cnotPairs gs).reverse (extraEdges fixed gs)) :=
  chosen_perm _ _ (findMaxRalph_sublist _ _).subperm

/-- as many CNOTs are flagged post-processed as pairs were found -/
theorem label_pp_count (fixed : Bool) (gs : List Gate) :
    (cnotFlags fixed gs).count true = (ppPairs fixed gs).length := by
  simp only [cnotFlags, ppPairs, List.count_reverse]
  exact assign_count _ _

/-- the post-processed CNOTs are some of the circuit's CNOTs -/
theorem ppPairs_subperm (fixed : Bool) (gs : List Gate) :
    (ppPairs fixed gs).Subperm (cnotPairs gs) :=
  ((ppPairs_perm fixed gs).subperm.trans (findMaxRalph_sublist _ _).subperm).trans
    (List.reverse_perm _).subperm

/-- **the invariant the converter relies on**: the post-processed CNOTs (together with the always-present
edges of the labelling rule) form a forest of the qubit-interaction multigraph -/
theorem ralph_pairs_forest (fixed : Bool) (gs : List Gate) :
    ppPairs fixed gs = [] ∨ Forest (ppPairs fixed gs ++ extraEdges fixed gs) := by
  rcases findMaxRalph_forest (cnotPairs gs).reverse (extraEdges fixed gs) with h | h
  · left
    simp only [ppPairs, h, chosen_nil]
  · right
    exact h.perm ((ppPairs_perm fixed gs).symm.append_right _)

/-- pinned code: the post-processed CNOTs alone always form a forest -/
theorem ralph_pairs_forest_pinned (gs : List Gate) : Forest (ppPairs false gs) := by
  rcases ralph_pairs_forest false gs with h | h
  · rw [h]; exact forest_nil
  · simpa [extraEdges] using h

/-- …and the choice is maximal: no admissible set of CNOTs is larger -/
theorem ralph_pairs_maximal (fixed : Bool) (gs : List Gate) (S : List Edge)
    (hS : S.Subperm (cnotPairs gs)) (hF : Forest (S ++ extraEdges fixed gs)) :
    S.length ≤ (ppPairs fixed gs).length := by
  have hS' : S.Subperm (cnotPairs gs).reverse := hS.trans (List.reverse_perm _).symm.subperm
  obtain ⟨l, hl, hsub⟩ := hS'
  have hF' : Forest (l ++ extraEdges fixed gs) := hF.perm (hl.symm.append_right _)
  have := findMaxRalph_max _ _ l hsub hF'
  rw [(ppPairs_perm fixed gs).length_eq, ← hl.length_eq]
  exact this

/-- two post-processed CNOTs never act on the same pair of qubits (in either orientation), and none is
a CNOT of a qubit with itself -/
theorem pp_never_share_a_pair (fixed : Bool) (gs : List Gate) (e f : Edge)
    (h : [e, f].Subperm (ppPairs fixed gs)) : ¬ sameUnordered e f := by
  rcases ralph_pairs_forest fixed gs with h0 | hF
  · rw [h0] at h; simp at h
  · exact hF.no_parallel (h.trans (List.sublist_append_left _ _).subperm)

/-- repaired labelling: a post-processed CNOT never acts on the qubit pair of another two-qubit gate
(CZ, SWAP, …) of the circuit -/
theorem pp_avoids_other_two_qubit_gates (gs : List Gate) (e f : Edge)
    (he : e ∈ ppPairs true gs) (hf : f ∈ otherPairs gs) : ¬ sameUnordered e f := by
  rcases ralph_pairs_forest true gs with h0 | hF
  · rw [h0] at he; simp at he
  · apply hF.no_parallel
    have h1 : [e].Subperm (ppPairs true gs) := List.singleton_subperm_iff.mpr he
    have h2 : [f].Subperm (extraEdges true gs) := List.singleton_subperm_iff.mpr (by simpa [extraEdges] using hf)
    obtain ⟨l1, p1, s1⟩ := h1
    obtain ⟨l2, p2, s2⟩ := h2
    exact ⟨l1 ++ l2, p1.append p2, s1.append s2⟩

/-- the witness circuit `cx(0,1); cz(0,1)` -/
def witnessGates : List Gate := [⟨"cx", [0, 1]⟩, ⟨"cz", [0, 1]⟩]

/-- pinned code (only CNOTs enter the interaction graph): the CNOT of `cx(0,1); cz(0,1)` is labelled
post-processed although the CZ re-uses its qubit pair — on the real code the converted processor's
logical table then differs from `c·(CZ·CNOT)` by 0.12 (replayed by the correspondence). -/
theorem pp_avoids_other_two_qubit_gates_fails_on_current_code :
    ¬ ∀ (gs : List Gate) (e f : Edge), e ∈ ppPairs false gs → f ∈ otherPairs gs →
      ¬ sameUnordered e f := by
  intro h
  exact h witnessGates (0, 1) (0, 1) (by decide +kernel) (by decide +kernel) (Or.inl ⟨rfl, rfl⟩)

/-! ## cQASM front-end: which qubit a gate operand is sent to

`CQASMConverter` flattens the declared variables into `_qubit_list` (declaration order), names the ports
after it and resolves every operand with `list.index`.  For all declaration lists: the qubit an operand is
sent to is the one whose port carries the name written in the program, two different references never share
a qubit, the index is in range; and, when the variable's name is not declared before, the index is the
closed form "total width of the variables declared before + i" (independent of what is declared after). -/

/-- closed form of the index of an array element: the widths of the variables declared before, plus `i` -/
theorem operand_index_array (pre post : List Decl) (nm : String) (k i : ℕ) (hi : i < k)
    (hn : nm ∉ pre.map Decl.name) :
    operandIndex (pre ++ ⟨nm, some k⟩ :: post) (nm, Int.ofNat i) = some ((pre.map declWidth).sum + i) := by
  have hnot : (nm, Int.ofNat i) ∉ qubitList pre := fun h => hn (mem_qubitList_name h)
  have hin : (nm, Int.ofNat i) ∈ declQubits ⟨nm, some k⟩ := by
    simp only [declQubits]
    exact List.mem_map.2 ⟨i, List.mem_range.2 hi, rfl⟩
  unfold operandIndex
  rw [qubitList_append, qubitList_cons]
  rw [if_pos (List.mem_append_right _ (List.mem_append_left _ hin))]
  rw [List.idxOf_append_of_notMem hnot, List.idxOf_append_of_mem hin, qubitList_length]
  simp only [declQubits]
  rw [idxOf_range_map nm k i hi]

theorem operand_index_single (pre post : List Decl) (nm : String) (hn : nm ∉ pre.map Decl.name) :
    operandIndex (pre ++ ⟨nm, none⟩ :: post) (nm, -1) = some ((pre.map declWidth).sum) := by
  have hnot : (nm, (-1 : ℤ)) ∉ qubitList pre := fun h => hn (mem_qubitList_name h)
  have hin : (nm, (-1 : ℤ)) ∈ declQubits ⟨nm, none⟩ := by simp [declQubits]
  unfold operandIndex
  rw [qubitList_append, qubitList_cons]
  rw [if_pos (List.mem_append_right _ (List.mem_append_left _ hin))]
  rw [List.idxOf_append_of_notMem hnot, List.idxOf_append_of_mem hin, qubitList_length]
  simp [declQubits]

/-- the qubit a gate operand is sent to carries the name written in the program -/
theorem operand_lands_on_named_qubit (ds : List Decl) (ref : String × ℤ) (k : ℕ)
    (h : operandIndex ds ref = some k) : (qubitList ds)[k]? = some ref := by
  unfold operandIndex at h
  split at h
  · rename_i hm
    cases h
    exact List.getElem?_idxOf hm
  · cases h

theorem operand_index_injective (ds : List Decl) (r₁ r₂ : String × ℤ) (k : ℕ)
    (h₁ : operandIndex ds r₁ = some k) (h₂ : operandIndex ds r₂ = some k) : r₁ = r₂ := by
  have a := operand_lands_on_named_qubit ds r₁ k h₁
  have b := operand_lands_on_named_qubit ds r₂ k h₂
  rw [a] at b
  exact Option.some.inj b

theorem operand_index_in_range (ds : List Decl) (ref : String × ℤ) (k : ℕ)
    (h : operandIndex ds ref = some k) : k < (ds.map declWidth).sum := by
  have a := operand_lands_on_named_qubit ds ref k h
  rw [← qubitList_length]
  exact (List.getElem?_eq_some_iff.1 a).1

/-! ## non-vacuity -/

example : Implements (1 : Matrix (Fin 2) (Fin 2) ℚ) ((3 : ℚ) • 1) := ⟨3, rfl⟩

example : ∃ (G A : Matrix (Fin 1) (Fin 1) GQ) (c : GQ), A = c • G ∧ Gᴴ * G = 1 :=
  ⟨1, GQ.I • 1, GQ.I, rfl, by simp⟩

example : (3 : ℚ)⁻¹ * 3 = 1 := by norm_num

example : (0 : ℕ) ≠ 2 := by decide

-- `ralph_pairs_maximal` / `pp_never_share_a_pair` / `pp_avoids_other_two_qubit_gates`: their hypotheses
-- are satisfiable on a concrete circuit
example : [((0 : ℕ), (1 : ℕ))].isSubperm (cnotPairs witnessGates) = true ∧
    forestB ([(0, 1)] ++ extraEdges false witnessGates) = true := by decide +kernel

example : ((0 : ℕ), (2 : ℕ)) ∈ ppPairs true [⟨"cx", [0, 2]⟩, ⟨"cz", [0, 1]⟩] ∧
    ((0 : ℕ), (1 : ℕ)) ∈ otherPairs [⟨"cx", [0, 2]⟩, ⟨"cz", [0, 1]⟩] := by decide +kernel

example : [((1 : ℕ), (2 : ℕ)), ((0 : ℕ), (1 : ℕ))].isSubperm
    (ppPairs false [⟨"cx", [0, 1]⟩, ⟨"cx", [1, 2]⟩]) = true := by decide +kernel

-- regression witness of the pinned behaviour and of the repaired one on the same circuit
example : labelCnots false witnessGates = ["postprocessed cnot", "cz"] := by decide +kernel
example : labelCnots true witnessGates = ["heralded cnot", "cz"] := by decide +kernel

-- cQASM declarations: hypotheses are satisfiable, on the shape `qubit[2] a; qubit b; qubit[2] c`
example : operandIndex [⟨"a", some 2⟩, ⟨"b", none⟩, ⟨"c", some 2⟩] ("c", 1) = some 4 ∧
    operandIndex [⟨"a", some 2⟩, ⟨"b", none⟩, ⟨"c", some 2⟩] ("b", -1) = some 2 ∧
    operandIndex [⟨"a", some 2⟩, ⟨"b", none⟩, ⟨"c", some 2⟩] ("b", 0) = none ∧
    qubitNames [⟨"a", some 2⟩, ⟨"b", none⟩] = ["a[0]", "a[1]", "b"] := by decide +kernel

example : "c" ∉ ([⟨"a", some 2⟩, ⟨"b", none⟩] : List Decl).map Decl.name := by decide +kernel

end PM.C20
