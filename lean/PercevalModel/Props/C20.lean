/-
  C20 — property theorems (model: `Model/C20.lean`, helper lemmas: `Lemmas/C20.lean`).

  Full statement of the property (properties.jsonl):
    "Every logic gate of the component catalog, used with its heralds and post-selection, maps each
     dual-rail logical basis state to the logical output of the gate it is named after, with the correct
     relative phases and a success probability that does not depend on the input; parametrised gates do
     so for every angle.  A processor converted from a gate-based circuit (Qiskit, myQLM, cQASM) acts on
     the logical basis as the source circuit's unitary, up to a global phase and a uniform success
     probability, whichever mix of heralded and post-processed two-qubit gates the converter selects."

  What is proved here, for all inputs:
    * the algebra of `Implements` (scalars, products, uniform success for a unitary target);
    * the executable evaluation used by the driver is the specification (`Matrix.permanent`);
    * one-qubit gates: the logical table *is* the 2×2 circuit matrix (so C14's closed forms carry over
      to every angle);
    * the converter's bookkeeping: mode map, SWAP permutation (any two qubits), CNOT labelling
      (lengths, names, the post-processed CNOTs form a forest — never two on the same qubit pair —,
      maximality), the repaired labelling also respects the other two-qubit gates, the pinned one does
      not (witness);
    * the post-selection conditions re-applied after a SWAP follow the photons for the repaired converter
      (`cond_follows_photons`), not for the pinned one (`cond_follows_photons_fails_on_current_code`);
    * the cQASM front-end's assignment of declared qubit variables to qubits (`operand_lands_on_named_qubit`,
      `operand_index_injective`, `operand_index_in_range`, closed forms `operand_index_array` /
      `operand_index_single`: total width of the variables declared before, plus the index).
  Round 3 (sections "(1)".."(4)" below), proved for all inputs:
    * Fock-space composition of implementations WITH heralds and post-selection, with the precise side conditions
      (`fock_comp_tables`, `fock_comp_implements`, `heralds_enforced_midway`, `leak_return_condition_*`,
      `heralded_gates_compose`, `heralded_circuit_implements_product`);
    * a gate placed on arbitrary modes of a processor acts as the gate alone (spectator factorisation of
      permanents: `placed_gate_amplitude`, `placed_gate_logical_amplitude`, `placed_gate_no_leak`,
      `placed_gate_is_gateImpl`);
    * the post-processed CZ / CNOT and the heralded CZ exactly as the catalog builds them: explicit matrices,
      tables `(1/3)•CZ`, `(1/3)•CNOT`, `c•CZ` with `c² = 2/27`, success `1/9`, zero leakage
      (`postprocessed_*`, `heralded_cz_*`), anywhere in a processor (`postprocessed_cnot_anywhere`,
      `heralded_cz_anywhere`), and circuits of heralded CZs end to end (`heralded_cz_circuit`);
    * the DFS `_is_cyclic` = not `Forest` (`is_cyclic_dfs_eq_not_forest`, `is_cyclic_dfs_node_map`);
    * Ryser's formula = `Matrix.permanent` (`ryser_eq_permanent`, `evalAmp_eq_spec`).
  Round 4 (sections "(5)".."(7)" at the end), proved for all inputs:
    * the heralded CNOT exactly as the catalog builds it (`BS.H` · heralded CZ · `BS.H`): table `c • CNOT` with
      `27c² = 2`, zero leakage, anywhere in a processor (`heralded_cnot_exact`, `heralded_cnot_no_leak`,
      `heralded_cnot_anywhere`) — over fields of characteristic 0 (it goes through the composition theorem);
      every one-qubit gate is heralded (`one_qubit_gate_never_leaks`);
    * circuits WITH post-processed (leaky) gates: if every leaky two-qubit gate's qubits are separated by a set
      of qubits closed under all later gates (`CutOk`; executable check `cutCheck`, sound by `cut_check_sound`),
      the leak-and-return condition holds at every step and the circuit implements the product with the product
      of the scalars (`leaky_circuit_implements_product`, `converted_circuit_implements_product`);
    * the converter's mode mapping is a `Placement` for all qubit counts / pairs / gate positions
      (`converter_layout_ok`, `converter_mode_map_is_placement`, `converter_gates_share_no_herald`), and a placed
      gate is an admissible step (`placed_gate_is_step`).
  Round 5 (section "(8)" at the end), proved for all gate sequences of one- and two-qubit gates:
    * THE LABELLING the converter computes always satisfies the cut condition (`labelling_satisfies_cut_condition`,
      `labelling_passes_cut_check`, `labelled_cnot_is_separated`): `_find_max_ralph_pairs` returns the FIRST acyclic
      subset of the largest size in `itertools.combinations` order of the REVERSED CNOT list, so by an exchange
      argument every CNOT labelled post-processed has its two qubits separated by a set of qubits closed under ALL
      the two-qubit gates that follow it; `cutCheck` DECIDES the condition (`cut_check_decides`: sound and complete);
      hence `converted_circuit_implements_product_labelled` needs no hypothesis on the labelling any more.  The
      pinned labelling (CNOTs only in the interaction graph) fails it (`pinned_labelling_fails_cut_check`), and an
      arbitrary maximal forest is not enough (`other_maximal_forest_fails_cut_check`);
    * THE WHOLE CONVERTED PROCESSOR (section "(10)"): `convGatesM` builds the list of placed gates as
      `_generate_converted_processor` does; it has the shape `convShape` computes, its SWAPs are proved steps, no
      herald mode is shared, and the conversion goes through on every valid sequence; hence
      `converted_processor_implements`: logical table = (∏ scalars) • product of the source gates, with no
      hypothesis left on labelling, shape, SWAPs or herald sharing;
  Round 8 (section "(11)" at the end), proved for all gate sequences / qubit counts:
    * the post-selection bookkeeping of `_create_2_qubit_gates_from_catalog` (`planPS`, Model/C20Post.lean): the
      conditions of the converted processor are exactly those of the post-processed CNOTs moved by the SWAPs that
      follow them (`converted_postselection_conditions`), each on the two rails of one qubit
      (`converted_postselection_on_qubit_pairs`); the end-to-end theorem for the post-selection the converter
      computes (`converted_source_circuit_implements_planned_postselection`);
    * the default input state is the encoding of `|0…0⟩` (`default_input_is_logical_zero`).
  What is still NOT proved (validated per instance by the correspondence, see manifest.d/C20.json):
    * the other multi-photon catalog matrices (KLM CNOT — algebraic but not done —, post-processed CCZ, Toffoli, the
      n-qubit controlled rotations for all angles, optimiser-fitted one-qubit gates);
    * (closed in round 5, section "(9)": the `PERM` of a SWAP is an admissible heralded step with table `1 • SWAP`
      anywhere in a processor, `swap_anywhere`, `converter_swap_is_placement`).
-/
import PercevalModel.Lemmas.C20
import PercevalModel.Lemmas.C20Gates
import PercevalModel.Lemmas.C20Comp
import PercevalModel.Lemmas.C20Ryser
import PercevalModel.Lemmas.C20Place
import PercevalModel.Lemmas.C20HeraldedCz
import PercevalModel.Lemmas.C20Dfs
import PercevalModel.Lemmas.C20Catalog
import PercevalModel.Lemmas.C20LabelCut
import PercevalModel.Lemmas.C20Swap
import PercevalModel.Lemmas.C20Whole
import PercevalModel.Lemmas.C20Post
import PercevalModel.Lemmas.C20Input
import Mathlib.Analysis.Real.Sqrt
import Mathlib.Data.Complex.Basic

open Matrix

namespace PM.C20
open PM.Fock PM.SimSpec

variable {R : Type*} {n : Type*}

/-! ## Logical layer -/

theorem implements_refl [CommRing R] (G : Matrix n n R) : Implements G G := ⟨1, by simp⟩

/-- a global phase (any scalar) on the implementation does not matter -/
theorem implements_phase_free [CommRing R] {G A : Matrix n n R} (h : Implements G A) (z : R) :
    Implements G (z • A) := by
  obtain ⟨c, rfl⟩ := h
  exact ⟨z * c, by rw [smul_smul]⟩

/-- a global phase (any unit) on the *target* does not matter either -/
theorem implements_smul [CommRing R] {G A : Matrix n n R} (h : Implements G A) (u v : R)
    (huv : v * u = 1) : Implements (u • G) A := by
  obtain ⟨c, rfl⟩ := h
  exact ⟨c * v, by rw [smul_smul, mul_assoc, huv, mul_one]⟩

/-- composition at the level of logical tables: implementations compose to an implementation of the
product, the scalars (amplitudes of success) multiply -/
theorem implements_comp [CommRing R] [Fintype n] {G₁ A₁ G₂ A₂ : Matrix n n R}
    (h₁ : Implements G₁ A₁) (h₂ : Implements G₂ A₂) : Implements (G₂ * G₁) (A₂ * A₁) := by
  obtain ⟨c₁, rfl⟩ := h₁
  obtain ⟨c₂, rfl⟩ := h₂
  exact ⟨c₂ * c₁, by rw [Matrix.smul_mul, Matrix.mul_smul, smul_smul]⟩

/-- uniform success: when the target is unitary the Gram matrix of the implementation is `|c|²·1` —
every logical input (basis state or superposition) succeeds with the same probability `|c|²`, and
orthogonal inputs stay orthogonal -/
theorem implements_uniform_success [CommRing R] [StarRing R] [Fintype n] [DecidableEq n]
    {G A : Matrix n n R} {c : R} (h : A = c • G) (hG : Gᴴ * G = 1) :
    Aᴴ * A = (star c * c) • (1 : Matrix n n R) := by
  subst h
  rw [Matrix.conjTranspose_smul, Matrix.smul_mul, Matrix.mul_smul, hG, smul_smul]

/-- …in particular the squared norm of every column (success probability of that basis input) is `|c|²` -/
theorem success_independent_of_input [CommRing R] [StarRing R] [Fintype n] [DecidableEq n]
    {G A : Matrix n n R} {c : R} (h : A = c • G) (hG : Gᴴ * G = 1) (j : n) :
    ∑ i, star (A i j) * A i j = star c * c := by
  have := congrFun (congrFun (implements_uniform_success h hG) j) j
  simpa [Matrix.mul_apply, Matrix.conjTranspose_apply] using this

/-- the evaluation the driver runs (Laplace expansion skipping zero entries) is the specification
`gateAmp` (Mathlib's `Matrix.permanent` on the encoded logical states) -/
theorem fastGateAmp_eq_gateAmp [CommRing R] [DecidableEq R] {m : ℕ} (U : Matrix (Fin m) (Fin m) R)
    (L : Layout) (ps : PS) (bo bi : List Bool) :
    fastGateAmp U L ps bo bi = gateAmp U L ps bo bi := by
  unfold fastGateAmp gateAmp
  rw [fastAmp_eq_pamp]

/-- one-qubit gates (no heralds, no post-selection): the logical table is the circuit's 2×2 matrix
itself, for every matrix — hence for every angle of `rx, ry, rz, ph` once C14 gives the matrix -/
theorem one_qubit_table_exact [CommRing R] (U : Matrix (Fin 2) (Fin 2) R) (bo bi : Bool) :
    gateAmp U ⟨2, [0], []⟩ PS.tt [bo] [bi] = U (if bo then 1 else 0) (if bi then 1 else 0) := by
  unfold gateAmp
  simp only [PS.eval, if_true]
  cases bo <;> cases bi <;>
    (rw [PM.C02.pamp_single _ _ _ (by decide) (by decide)]; rfl)

/-! ## Converter layer -/

/-- `_create_mode_map` for two distinct qubits: control pair ↦ gate modes 0,1, data pair ↦ 2,3, no key
twice -/
theorem mode_map_spec (a b : ℕ) (h : a ≠ b) :
    ((createModeMap (2 * a) (2 * b)).map Prod.fst).Nodup ∧
    (createModeMap (2 * a) (2 * b)).map Prod.snd = [0, 1, 2, 3] ∧
    (createModeMap (2 * a) (2 * b)).lookup (2 * a) = some 0 ∧
    (createModeMap (2 * a) (2 * b)).lookup (2 * a + 1) = some 1 ∧
    (createModeMap (2 * a) (2 * b)).lookup (2 * b) = some 2 ∧
    (createModeMap (2 * a) (2 * b)).lookup (2 * b + 1) = some 3 := by
  have h1 : ¬ 2 * a = 2 * b := by omega
  have h2 : ¬ 2 * a = 2 * b + 1 := by omega
  have h3 : ¬ 2 * a + 1 = 2 * b := by omega
  have h4 : ¬ 2 * b = 2 * a := by omega
  have h5 : ¬ 2 * b + 1 = 2 * a := by omega
  have h6 : ¬ 2 * b = 2 * a + 1 := by omega
  have h7 : ¬ b = a := fun e => h e.symm
  have b1 : (2 * a + 1 == 2 * a) = false := beq_eq_false_iff_ne.mpr (by omega)
  have b2 : (2 * b == 2 * a) = false := beq_eq_false_iff_ne.mpr h4
  have b3 : (2 * b == 2 * a + 1) = false := beq_eq_false_iff_ne.mpr h6
  have b4 : (2 * b + 1 == 2 * a) = false := beq_eq_false_iff_ne.mpr h5
  have b5 : (2 * b + 1 == 2 * a + 1) = false := beq_eq_false_iff_ne.mpr (by omega)
  have b6 : (2 * b + 1 == 2 * b) = false := beq_eq_false_iff_ne.mpr (by omega)
  refine ⟨?_, rfl, ?_, ?_, ?_, ?_⟩
  · simp [createModeMap, h1, h2, h3, h]
  · simp [createModeMap, List.lookup]
  · simp [createModeMap, List.lookup, b1]
  · simp [createModeMap, List.lookup, b2, b3]
  · simp [createModeMap, List.lookup, b4, b5, b6]

/-- **SWAP**: for any two distinct qubits the constructed `PERM` (placed at the lower qubit's first
mode) exchanges the two dual-rail pairs rail by rail and fixes every mode in between and outside -/
theorem swap_perm_spec (a b : ℕ) (h : a ≠ b) :
    ∃ perm, swapPerm (2 * a) (2 * b) = some (2 * min a b, perm) ∧
      perm.length = 2 * (max a b - min a b) + 2 ∧
      ∀ j, permTarget (2 * min a b) perm j = swapPairs a b j := by
  rcases Nat.lt_or_gt_of_ne h with hab | hab
  · have e1 : min (2 * a) (2 * b) = 2 * a := by omega
    have e2 : max (2 * a) (2 * b) - min (2 * a) (2 * b) = 2 * (b - a) := by omega
    have e3 : min a b = a := by omega
    have e4 : max a b = b := by omega
    refine ⟨swapList (2 * (b - a)), ?_, ?_, ?_⟩
    · rw [swapPerm_eq _ _ (by omega) (by omega), e2, e1, e3]
    · rw [swapList_length, e3, e4]
    · intro j; rw [e3]; exact swap_aux a b j hab
  · have e1 : min (2 * a) (2 * b) = 2 * b := by omega
    have e2 : max (2 * a) (2 * b) - min (2 * a) (2 * b) = 2 * (a - b) := by omega
    have e3 : min a b = b := by omega
    have e4 : max a b = a := by omega
    refine ⟨swapList (2 * (a - b)), ?_, ?_, ?_⟩
    · rw [swapPerm_eq _ _ (by omega) (by omega), e2, e1, e3]
    · rw [swapList_length, e3, e4]
    · intro j; rw [e3, swapPairs_comm a b j h]; exact swap_aux b a j hab

/-! ### post-selection conditions across a SWAP

A post-processed CNOT leaves conditions ("one photon in each of my two qubits") on the processor.  A later SWAP
moves the photons of a qubit to another mode pair, so the conditions must move with them; otherwise the outputs
with two photons in one of the CNOT's qubits are no longer rejected once both qubits have been swapped away
(4 qubits: `h(1); cx(1,2); swap(2,3); swap(0,1)` gives 5/6 of non-logical outputs on the pinned code). -/

theorem swapPairs_involutive (a b : ℕ) (_h : a ≠ b) (j : ℕ) : swapPairs a b (swapPairs a b j) = j := by
  unfold swapPairs
  split_ifs <;> omega

/-- repaired converter: a condition re-applied after a SWAP counts, on the state behind the SWAP, exactly the
photons it counted before the SWAP -/
theorem cond_follows_photons (a b : ℕ) (h : a ≠ b) (t : ℕ → ℕ) (c : Cond) :
    condCount (moveState a b t) (condAfterSwap true a b c) = condCount t c := by
  simp only [condCount, condAfterSwap, if_true, List.map_map]
  congr 1
  apply List.map_congr_left
  intro j _
  simp [moveState, swapPairs_involutive a b h]

/-- pinned code: the condition stays on the old modes -/
theorem cond_follows_photons_fails_on_current_code :
    ¬ ∀ (a b : ℕ), a ≠ b → ∀ (t : ℕ → ℕ) (c : Cond),
      condCount (moveState a b t) (condAfterSwap false a b c) = condCount t c := by
  intro h
  have := h 0 1 (by decide) (fun j => if j = 0 then 2 else 0) [0, 1]
  simp [condCount, condAfterSwap, moveState, swapPairs] at this

/-! ### CNOT labelling -/

/-- one label per gate -/
theorem label_length (fixed : Bool) (gs : List Gate) : (labelCnots fixed gs).length = gs.length :=
  relabel_length gs _

/-- gates that are not CNOTs keep their name; every CNOT becomes "postprocessed cnot" or "heralded cnot" -/
theorem label_names (fixed : Bool) (gs : List Gate) (i : ℕ) (hi : i < gs.length) :
    (isCnot gs[i] = false →
      (labelCnots fixed gs)[i]'(by rw [label_length]; exact hi) = gs[i].name) ∧
    (isCnot gs[i] = true →
      (labelCnots fixed gs)[i]'(by rw [label_length]; exact hi) = "postprocessed cnot" ∨
      (labelCnots fixed gs)[i]'(by rw [label_length]; exact hi) = "heralded cnot") :=
  relabel_spec gs _ (by rw [cnotFlags_length]) i hi

/-- the post-processed pairs are (as a multiset) exactly the set found by `_find_max_ralph_pairs` -/
theorem ppPairs_perm (fixed : Bool) (gs : List Gate) :
    (ppPairs fixed gs).Perm
      (findMaxRalph (cnotPairs gs).reverse (extraEdges fixed gs)) :=
  chosen_perm _ _ (findMaxRalph_sublist _ _).subperm

/-- as many CNOTs are flagged post-processed as pairs were found -/
theorem label_pp_count (fixed : Bool) (gs : List Gate) :
    (cnotFlags fixed gs).count true = (ppPairs fixed gs).length := by
  simp only [cnotFlags, ppPairs, List.count_reverse]
  exact assign_count _ _

/-- the post-processed CNOTs are some of the circuit's CNOTs -/
theorem ppPairs_subperm (fixed : Bool) (gs : List Gate) :
    (ppPairs fixed gs).Subperm (cnotPairs gs) :=
  ((ppPairs_perm fixed gs).subperm.trans (findMaxRalph_sublist _ _).subperm).trans
    (List.reverse_perm _).subperm

/-- **the invariant the converter relies on**: the post-processed CNOTs (together with the always-present
edges of the labelling rule) form a forest of the qubit-interaction multigraph -/
theorem ralph_pairs_forest (fixed : Bool) (gs : List Gate) :
    ppPairs fixed gs = [] ∨ Forest (ppPairs fixed gs ++ extraEdges fixed gs) := by
  rcases findMaxRalph_forest (cnotPairs gs).reverse (extraEdges fixed gs) with h | h
  · left
    simp only [ppPairs, h, chosen_nil]
  · right
    exact h.perm ((ppPairs_perm fixed gs).symm.append_right _)

/-- pinned code: the post-processed CNOTs alone always form a forest -/
theorem ralph_pairs_forest_pinned (gs : List Gate) : Forest (ppPairs false gs) := by
  rcases ralph_pairs_forest false gs with h | h
  · rw [h]; exact forest_nil
  · simpa [extraEdges] using h

/-- …and the choice is maximal: no admissible set of CNOTs is larger -/
theorem ralph_pairs_maximal (fixed : Bool) (gs : List Gate) (S : List Edge)
    (hS : S.Subperm (cnotPairs gs)) (hF : Forest (S ++ extraEdges fixed gs)) :
    S.length ≤ (ppPairs fixed gs).length := by
  have hS' : S.Subperm (cnotPairs gs).reverse := hS.trans (List.reverse_perm _).symm.subperm
  obtain ⟨l, hl, hsub⟩ := hS'
  have hF' : Forest (l ++ extraEdges fixed gs) := hF.perm (hl.symm.append_right _)
  have := findMaxRalph_max _ _ l hsub hF'
  rw [(ppPairs_perm fixed gs).length_eq, ← hl.length_eq]
  exact this

/-- two post-processed CNOTs never act on the same pair of qubits (in either orientation), and none is
a CNOT of a qubit with itself -/
theorem pp_never_share_a_pair (fixed : Bool) (gs : List Gate) (e f : Edge)
    (h : [e, f].Subperm (ppPairs fixed gs)) : ¬ sameUnordered e f := by
  rcases ralph_pairs_forest fixed gs with h0 | hF
  · rw [h0] at h; simp at h
  · exact hF.no_parallel (h.trans (List.sublist_append_left _ _).subperm)

/-- repaired labelling: a post-processed CNOT never acts on the qubit pair of another two-qubit gate
(CZ, SWAP, …) of the circuit -/
theorem pp_avoids_other_two_qubit_gates (gs : List Gate) (e f : Edge)
    (he : e ∈ ppPairs true gs) (hf : f ∈ otherPairs gs) : ¬ sameUnordered e f := by
  rcases ralph_pairs_forest true gs with h0 | hF
  · rw [h0] at he; simp at he
  · apply hF.no_parallel
    have h1 : [e].Subperm (ppPairs true gs) := List.singleton_subperm_iff.mpr he
    have h2 : [f].Subperm (extraEdges true gs) := List.singleton_subperm_iff.mpr (by simpa [extraEdges] using hf)
    obtain ⟨l1, p1, s1⟩ := h1
    obtain ⟨l2, p2, s2⟩ := h2
    exact ⟨l1 ++ l2, p1.append p2, s1.append s2⟩

/-- the witness circuit `cx(0,1); cz(0,1)` -/
def witnessGates : List Gate := [⟨"cx", [0, 1]⟩, ⟨"cz", [0, 1]⟩]

/-- pinned code (only CNOTs enter the interaction graph): the CNOT of `cx(0,1); cz(0,1)` is labelled
post-processed although the CZ re-uses its qubit pair — on the real code the converted processor's
logical table then differs from `c·(CZ·CNOT)` by 0.12 (replayed by the correspondence). -/
theorem pp_avoids_other_two_qubit_gates_fails_on_current_code :
    ¬ ∀ (gs : List Gate) (e f : Edge), e ∈ ppPairs false gs → f ∈ otherPairs gs →
      ¬ sameUnordered e f := by
  intro h
  exact h witnessGates (0, 1) (0, 1) (by decide +kernel) (by decide +kernel) (Or.inl ⟨rfl, rfl⟩)

/-! ## cQASM front-end: which qubit a gate operand is sent to

`CQASMConverter` flattens the declared variables into `_qubit_list` (declaration order), names the ports
after it and resolves every operand with `list.index`.  For all declaration lists: the qubit an operand is
sent to is the one whose port carries the name written in the program, two different references never share
a qubit, the index is in range; and, when the variable's name is not declared before, the index is the
closed form "total width of the variables declared before + i" (independent of what is declared after). -/

/-- closed form of the index of an array element: the widths of the variables declared before, plus `i` -/
theorem operand_index_array (pre post : List Decl) (nm : String) (k i : ℕ) (hi : i < k)
    (hn : nm ∉ pre.map Decl.name) :
    operandIndex (pre ++ ⟨nm, some k⟩ :: post) (nm, Int.ofNat i) = some ((pre.map declWidth).sum + i) := by
  have hnot : (nm, Int.ofNat i) ∉ qubitList pre := fun h => hn (mem_qubitList_name h)
  have hin : (nm, Int.ofNat i) ∈ declQubits ⟨nm, some k⟩ := by
    simp only [declQubits]
    exact List.mem_map.2 ⟨i, List.mem_range.2 hi, rfl⟩
  unfold operandIndex
  rw [qubitList_append, qubitList_cons]
  rw [if_pos (List.mem_append_right _ (List.mem_append_left _ hin))]
  rw [List.idxOf_append_of_notMem hnot, List.idxOf_append_of_mem hin, qubitList_length]
  simp only [declQubits]
  rw [idxOf_range_map nm k i hi]

theorem operand_index_single (pre post : List Decl) (nm : String) (hn : nm ∉ pre.map Decl.name) :
    operandIndex (pre ++ ⟨nm, none⟩ :: post) (nm, -1) = some ((pre.map declWidth).sum) := by
  have hnot : (nm, (-1 : ℤ)) ∉ qubitList pre := fun h => hn (mem_qubitList_name h)
  have hin : (nm, (-1 : ℤ)) ∈ declQubits ⟨nm, none⟩ := by simp [declQubits]
  unfold operandIndex
  rw [qubitList_append, qubitList_cons]
  rw [if_pos (List.mem_append_right _ (List.mem_append_left _ hin))]
  rw [List.idxOf_append_of_notMem hnot, List.idxOf_append_of_mem hin, qubitList_length]
  simp [declQubits]

/-- the qubit a gate operand is sent to carries the name written in the program -/
theorem operand_lands_on_named_qubit (ds : List Decl) (ref : String × ℤ) (k : ℕ)
    (h : operandIndex ds ref = some k) : (qubitList ds)[k]? = some ref := by
  unfold operandIndex at h
  split at h
  · rename_i hm
    cases h
    exact List.getElem?_idxOf hm
  · cases h

theorem operand_index_injective (ds : List Decl) (r₁ r₂ : String × ℤ) (k : ℕ)
    (h₁ : operandIndex ds r₁ = some k) (h₂ : operandIndex ds r₂ = some k) : r₁ = r₂ := by
  have a := operand_lands_on_named_qubit ds r₁ k h₁
  have b := operand_lands_on_named_qubit ds r₂ k h₂
  rw [a] at b
  exact Option.some.inj b

theorem operand_index_in_range (ds : List Decl) (ref : String × ℤ) (k : ℕ)
    (h : operandIndex ds ref = some k) : k < (ds.map declWidth).sum := by
  have a := operand_lands_on_named_qubit ds ref k h
  rw [← qubitList_length]
  exact (List.getElem?_eq_some_iff.1 a).1


/-! ## Round 3: statements that were only validated per instance before

### (1) Fock-space composition of implementations WITH heralds and post-selection
(`Lemmas/C20Comp.lean`; built on `PM.C02.fock_comp`).  `A` is applied first, `B` second, both are matrices on
all `L.m` modes of the layout.  The precise side conditions:
  * `NoLeakReturn L A B bo bi`: every intermediate Fock state `u` that is not an encoded logical state has
    `⟨bo|B|u⟩·⟨u|A|bi⟩ = 0` (needed for the selected outputs `bo` only);
  * it follows from `Separated L SA SB A B` (both circuits are the identity outside their supports and no herald
    mode lies in both supports — the converter gives every heralded gate fresh herald modes) together with
    either `NoLeak L A` (the first gate is *heralded*: zero leakage into herald-satisfying non-logical states)
    or the weaker per-state condition of `leak_return_condition_separated` (post-processed gates);
  * post-selections must accept every logical state (true for the dual-rail conditions `[p,p+1]==1`). -/

/-- **composition of logical tables** (general form): `table(B·A) = (∏hᵢ!)⁻¹ • table(B)·table(A)` -/
theorem fock_comp_tables [Field R] [CharZero R] (L : Layout) (hok : L.ok = true)
    (A B : Matrix (Fin L.m) (Fin L.m) R) (ps : PS)
    (hleak : ∀ bo bi : List Bool, bo.length = L.qubits.length → bi.length = L.qubits.length →
      ps.eval (encode L bo) = true → NoLeakReturn L A B bo bi) :
    gateTable (B * A) L ps = (heraldFact L : R)⁻¹ • (gateTable B L ps * gateTable A L PS.tt) :=
  gateTable_comp L hok A B ps hleak

/-- **composition of implementations**: scalars multiply (`d·c`, divided by the herald factorial, which is `1`
for herald values `0/1`, see `heraldFact_one_of_le_one`) -/
theorem fock_comp_implements [Field R] [CharZero R] (L : Layout) (hok : L.ok = true)
    (A B : Matrix (Fin L.m) (Fin L.m) R) (ps psA : PS)
    {G H : Matrix (Fin (basis L.qubits.length).length) (Fin (basis L.qubits.length).length) R} {c d : R}
    (hA : gateTable A L psA = c • G) (hB : gateTable B L ps = d • H)
    (hpsA : ∀ b : List Bool, b.length = L.qubits.length → psA.eval (encode L b) = true)
    (hleak : ∀ bo bi : List Bool, bo.length = L.qubits.length → bi.length = L.qubits.length →
      ps.eval (encode L bo) = true → NoLeakReturn L A B bo bi) :
    gateTable (B * A) L ps = ((heraldFact L : R)⁻¹ * (d * c)) • (H * G) :=
  implements_fock_comp L hok A B ps psA hA hB hpsA hleak

theorem heraldFact_one_of_le_one (L : Layout) (h : ∀ p ∈ L.heralds, p.2 ≤ 1) : heraldFact L = 1 :=
  heraldFact_eq_one L h

/-- spectator modes keep their photons -/
theorem spectator_modes_unchanged [CommRing R] {m : ℕ} {S : List ℕ} {A : Matrix (Fin m) (Fin m) R}
    (hA : LocalOn S A) (s t : List ℕ) (hs : s.length = m) (ht : t.length = m)
    (hne : pamp A s t ≠ 0) (k : ℕ) (hk : k ∉ S) : t.getD k 0 = s.getD k 0 :=
  pamp_local_eq hA s t hs ht hne k hk

/-- heralds are enforced at the intermediate step although they are measured at the end -/
theorem heralds_enforced_midway [CommRing R] {m : ℕ} {SA SB : List ℕ} {A B : Matrix (Fin m) (Fin m) R}
    (hA : LocalOn SA A) (hB : LocalOn SB B) (hs : List (ℕ × ℕ))
    (hher : ∀ h ∈ hs, h.1 ∉ SA ∨ h.1 ∉ SB) (s t u : List ℕ)
    (hsl : s.length = m) (htl : t.length = m) (hul : u.length = m)
    (hsok : heraldsOk hs s = true) (htok : heraldsOk hs t = true)
    (hne : pamp B u t * pamp A s u ≠ 0) : heraldsOk hs u = true :=
  heraldsOk_mid hA hB hs hher s t u hsl htl hul hsok htok hne

/-- a heralded first gate never leaks-and-returns, whatever follows -/
theorem leak_return_condition_heralded [CommRing R] [NoZeroDivisors R] (L : Layout) (hok : L.ok = true)
    {SA SB : List ℕ} {A B : Matrix (Fin L.m) (Fin L.m) R} (hsep : Separated L SA SB A B) (hA : NoLeak L A)
    (bo bi : List Bool) (hbo : bo.length = L.qubits.length) (hbi : bi.length = L.qubits.length) :
    NoLeakReturn L A B bo bi :=
  noLeakReturn_of_noLeak L hok hsep hA bo bi hbo hbi

/-- in general (post-processed first gate) it suffices to look at the herald-satisfying non-logical states -/
theorem leak_return_condition_separated [CommRing R] [NoZeroDivisors R] (L : Layout) (hok : L.ok = true)
    {SA SB : List ℕ} {A B : Matrix (Fin L.m) (Fin L.m) R} (hsep : Separated L SA SB A B)
    (bo bi : List Bool) (hbo : bo.length = L.qubits.length) (hbi : bi.length = L.qubits.length)
    (h : ∀ u : List ℕ, u.length = L.m → heraldsOk L.heralds u = true → isLogical L u = false →
      pamp B u (encode L bo) * pamp A (encode L bi) u = 0) :
    NoLeakReturn L A B bo bi :=
  noLeakReturn_of_separated L hok hsep bo bi hbo hbi h

/-- heralded gates compose to a heralded gate -/
theorem heralded_gates_compose [Field R] [CharZero R] (L : Layout) (hok : L.ok = true) {SA SB : List ℕ}
    {A B : Matrix (Fin L.m) (Fin L.m) R} (hsep : Separated L SA SB A B) (hA : NoLeak L A)
    (hB : NoLeak L B) : NoLeak L (B * A) :=
  NoLeak.comp L hok hsep hA hB

/-- **a whole circuit of heralded gates implements the product of its gates, scalar `∏ cₖ`** -/
theorem heralded_circuit_implements_product [Field R] [CharZero R] (L : Layout) (hok : L.ok = true)
    (hh : ∀ p ∈ L.heralds, p.2 ≤ 1) (ps : PS)
    (hps : ∀ b : List Bool, b.length = L.qubits.length → ps.eval (encode L b) = true)
    (gs : List (GateImpl L R)) (hg : ∀ g ∈ gs, g.Ok ps)
    (hp : gs.Pairwise (fun g g' => ∀ h ∈ L.heralds, h.1 ∉ g.S ∨ h.1 ∉ g'.S)) :
    gateTable (PM.C02.circuitMatrix (gs.map (·.U))) L ps =
        ((gs.map (·.c)).prod) • gs.foldl (fun M g => g.G * M) 1 ∧
      NoLeak L (PM.C02.circuitMatrix (gs.map (·.U))) :=
  heralded_circuit_implements L hok hh ps hps gs hg hp

/-- one step of the photon-number argument for post-processed gates: a local circuit conserves the photon
number on its support … -/
theorem photons_on_support_conserved [CommRing R] {m : ℕ} {S : List ℕ} {B : Matrix (Fin m) (Fin m) R}
    (hB : LocalOn S B) (u t : List ℕ) (hu : u.length = m) (ht : t.length = m) (hne : pamp B u t ≠ 0) :
    ∑ k : Fin m with k.val ∈ S, t.getD k.val 0 = ∑ k : Fin m with k.val ∈ S, u.getD k.val 0 :=
  pamp_local_count hB u t hu ht hne

/-- … and a non-logical qubit pair it does not touch is never brought back to a logical output -/
theorem untouched_bad_pair_never_returns [CommRing R] (L : Layout) {S : List ℕ}
    {B : Matrix (Fin L.m) (Fin L.m) R} (hB : LocalOn S B) (u t : List ℕ) (hu : u.length = L.m)
    (ht : t.length = L.m) (htl : isLogical L t = true) (p : ℕ) (hp : p ∈ L.qubits) (h1 : p ∉ S)
    (h2 : p + 1 ∉ S) (hbad : u.getD p 0 + u.getD (p + 1) 0 ≠ 1) : pamp B u t = 0 :=
  pamp_zero_of_spectator_pair L hB u t hu ht htl p hp h1 h2 hbad

/-! ### (2) the post-processed CZ and CNOT of the catalog, exactly
(`Lemmas/C20Gates.lean`; `r = 1/√3 = cos(θ₁₃/2)`, `2hr = √(2/3) = sin(θ₁₃/2)`, `h = 1/√2`; any commutative
ring).  The circuits are the component products of `build_circuit`, read from
`perceval/components/core_catalog/postprocessed_cz.py` / `postprocessed_cnot.py`. -/

/-- the circuit `PERM·(BS.H(θ₁₃))³·PERM` is the explicit 6×6 matrix with entries `±r`, `2hr` -/
theorem postprocessed_cz_circuit_matrix [CommRing R] (r h : R) : ppczCircuit r h = ppczMatrix r h :=
  ppczCircuit_eq r h

theorem postprocessed_cnot_circuit_matrix [CommRing R] (r h : R) (hh : 2 * h * h = 1) :
    ppcnotCircuit r h = ppcnotMatrix r h :=
  ppcnotCircuit_eq r h hh

/-- **post-processed CZ**: the logical table is exactly `c • CZ` with `3c = 1`; success probability
`|c|² = 1/9` (`postprocessed_success_one_ninth`) -/
theorem postprocessed_cz_exact [CommRing R] (r h : R) (hr : 3 * r * r = 1) (hh : 2 * h * h = 1) :
    ∃ c : R, 3 * c = 1 ∧
      (gateTable (ppczCircuit r h) ppLayout ppPS : Matrix (Fin 4) (Fin 4) R) = c • czGate :=
  ⟨r * r, by rw [← hr]; ring, by rw [ppczCircuit_eq]; exact ppcz_table r h hh⟩

/-- **post-processed CNOT (Ralph)**: the logical table is exactly `c • CNOT` with `3c = 1` -/
theorem postprocessed_cnot_exact [CommRing R] (r h : R) (hr : 3 * r * r = 1) (hh : 2 * h * h = 1) :
    ∃ c : R, 3 * c = 1 ∧
      (gateTable (ppcnotCircuit r h) ppLayout ppPS : Matrix (Fin 4) (Fin 4) R) = c • cnotGate :=
  ⟨r * r, by rw [← hr]; ring, by rw [ppcnotCircuit_eq r h hh]; exact ppcnot_table r h⟩

/-- success probability `1/9` on every logical input, for a real scalar `c = 1/3` -/
theorem postprocessed_success_one_ninth [CommRing R] [StarRing R] {G A : Matrix (Fin 4) (Fin 4) R} {c : R}
    (hc : 3 * c = 1) (hreal : star c = c) (h : A = c • G) (hG : Gᴴ * G = 1) (j : Fin 4) :
    9 * ∑ i, star (A i j) * A i j = 1 := by
  rw [success_independent_of_input h hG j, hreal]
  linear_combination (3 * c + 1) * hc

/-- every output kept by `[0,1]==1 & [2,3]==1` is logical: zero leakage, whatever the matrix -/
theorem postprocessed_selected_outputs_are_logical (t : List ℕ) (h : ppPS.eval t = true) :
    isLogical ppLayout t = true :=
  pp_selected_is_logical t h

theorem postprocessed_leak_zero (U : Matrix (Fin 6) (Fin 6) GQ) (bi : List Bool) :
    leak U ppLayout ppPS bi = 0 :=
  pp_leak_zero U bi

/-! the same over `ℂ` with the positive roots the code uses -/

/-- `1/√3` -/
noncomputable def invSqrt3 : ℂ := ((Real.sqrt 3)⁻¹ : ℝ)
/-- `1/√2` -/
noncomputable def invSqrt2 : ℂ := ((Real.sqrt 2)⁻¹ : ℝ)

theorem invSqrt3_spec : 3 * invSqrt3 * invSqrt3 = 1 := by
  have h : (3 : ℝ) * (Real.sqrt 3)⁻¹ * (Real.sqrt 3)⁻¹ = 1 := by
    have h3 : Real.sqrt 3 ≠ 0 := Real.sqrt_ne_zero'.2 (by norm_num)
    have := Real.mul_self_sqrt (show (0 : ℝ) ≤ 3 by norm_num)
    field_simp
    linarith
  unfold invSqrt3
  exact_mod_cast h

theorem invSqrt2_spec : 2 * invSqrt2 * invSqrt2 = 1 := by
  have h : (2 : ℝ) * (Real.sqrt 2)⁻¹ * (Real.sqrt 2)⁻¹ = 1 := by
    have h3 : Real.sqrt 2 ≠ 0 := Real.sqrt_ne_zero'.2 (by norm_num)
    have := Real.mul_self_sqrt (show (0 : ℝ) ≤ 2 by norm_num)
    field_simp
    linarith
  unfold invSqrt2
  exact_mod_cast h

/-- **Ralph CNOT over ℂ: table `= (1/3) • CNOT`** -/
theorem postprocessed_cnot_complex :
    (gateTable (ppcnotCircuit invSqrt3 invSqrt2) ppLayout ppPS : Matrix (Fin 4) (Fin 4) ℂ) =
      (1 / 3 : ℂ) • cnotGate := by
  obtain ⟨c, hc, hT⟩ := postprocessed_cnot_exact invSqrt3 invSqrt2 invSqrt3_spec invSqrt2_spec
  have : c = 1 / 3 := by rw [eq_div_iff (by norm_num)]; linear_combination hc
  rw [hT, this]

/-- **post-processed CZ over ℂ: table `= (1/3) • CZ`** -/
theorem postprocessed_cz_complex :
    (gateTable (ppczCircuit invSqrt3 invSqrt2) ppLayout ppPS : Matrix (Fin 4) (Fin 4) ℂ) =
      (1 / 3 : ℂ) • czGate := by
  obtain ⟨c, hc, hT⟩ := postprocessed_cz_exact invSqrt3 invSqrt2 invSqrt3_spec invSqrt2_spec
  have : c = 1 / 3 := by rw [eq_div_iff (by norm_num)]; linear_combination hc
  rw [hT, this]

/-- success probability of the Ralph CNOT: `1/9` for every logical input -/
theorem postprocessed_cnot_complex_success (j : Fin 4) :
    ∑ i, star ((gateTable (ppcnotCircuit invSqrt3 invSqrt2) ppLayout ppPS : Matrix (Fin 4) (Fin 4) ℂ) i j) *
      (gateTable (ppcnotCircuit invSqrt3 invSqrt2) ppLayout ppPS : Matrix (Fin 4) (Fin 4) ℂ) i j = 1 / 9 := by
  have h := postprocessed_success_one_ninth (c := (1 / 3 : ℂ)) (by norm_num) (by simp)
    postprocessed_cnot_complex cnotGate_unitary j
  rw [eq_div_iff (by norm_num), mul_comm]
  exact h

theorem postprocessed_cz_complex_success (j : Fin 4) :
    ∑ i, star ((gateTable (ppczCircuit invSqrt3 invSqrt2) ppLayout ppPS : Matrix (Fin 4) (Fin 4) ℂ) i j) *
      (gateTable (ppczCircuit invSqrt3 invSqrt2) ppLayout ppPS : Matrix (Fin 4) (Fin 4) ℂ) i j = 1 / 9 := by
  have h := postprocessed_success_one_ninth (c := (1 / 3 : ℂ)) (by norm_num) (by simp)
    postprocessed_cz_complex czGate_unitary j
  rw [eq_div_iff (by norm_num), mul_comm]
  exact h

/-! ### (1b) from a gate's own layout to the processor's layout
(`Lemmas/C20Lift.lean`: block permanents; `Lemmas/C20Place.lean`: layouts).  `PM.place g B` is the gate matrix `B`
on the modes selected by the placement, identity elsewhere — what `_compute_circuit_unitary` builds. -/

/-- **spectator factorisation of Fock amplitudes**: a gate placed on some modes acts on the photons of those
modes as the gate alone does and leaves every other mode alone (`∏ sⱼ!` is the amplitude of the identity) -/
theorem placed_gate_amplitude [CommRing R] {k m : ℕ} (f : Fin k → Fin m) (g : Fin m → Option (Fin k))
    (hfg : Function.IsPartialInv f g) (B : Matrix (Fin k) (Fin k) R) (s t : List ℕ)
    (hs : s.length = m) (ht : t.length = m) :
    pamp (PM.place g B) s t =
      if ∀ j : Fin m, g j = none → t.getD j.val 0 = s.getD j.val 0 then
        ((∏ j : Fin m with g j = none, (s.getD j.val 0).factorial : ℕ) : R) *
          pamp B (List.ofFn fun a : Fin k => s.getD (f a).val 0) (List.ofFn fun a : Fin k => t.getD (f a).val 0)
      else 0 :=
  pamp_place f g hfg B s t hs ht

/-- logical amplitudes of a gate placed (rail by rail, heralds on heralds) in a processor layout -/
theorem placed_gate_logical_amplitude [CommRing R] {Lg L : Layout} (P : Placement Lg L) (hokg : Lg.ok = true)
    (hok : L.ok = true) (B : Matrix (Fin Lg.m) (Fin Lg.m) R) (ps : PS) (bo bi : List Bool)
    (hbo : bo.length = L.qubits.length) (hbi : bi.length = L.qubits.length) :
    gateAmp (PM.place P.g B) L ps bo bi =
      if ps.eval (encode L bo) = true then
        if ∀ j : Fin L.m, P.g j = none → (encode L bo).getD j.val 0 = (encode L bi).getD j.val 0 then
          (spectFact P bi : R) * gateAmp B Lg PS.tt (P.bits bo) (P.bits bi)
        else 0
      else 0 :=
  gateAmp_place P hokg hok B ps bo bi hbo hbi

/-- a heralded gate (zero leakage on its own layout) is heralded in the processor -/
theorem placed_gate_no_leak [CommRing R] {Lg L : Layout} (P : Placement Lg L) (hokg : Lg.ok = true)
    (hok : L.ok = true) (B : Matrix (Fin Lg.m) (Fin Lg.m) R) (hB : NoLeak Lg B) :
    NoLeak L (PM.place P.g B) :=
  noLeak_place P hokg hok B hB

/-- … and is a `GateImpl` accepted by `heralded_circuit_implements_product` -/
theorem placed_gate_is_gateImpl [CommRing R] {Lg L : Layout} (P : Placement Lg L) (hokg : Lg.ok = true)
    (hok : L.ok = true) (hh : ∀ p ∈ L.heralds, p.2 ≤ 1) (B : Matrix (Fin Lg.m) (Fin Lg.m) R)
    (G : List Bool → List Bool → R) (c : R)
    (hB : ∀ bo bi : List Bool, bo.length = Lg.qubits.length → bi.length = Lg.qubits.length →
      gateAmp B Lg PS.tt bo bi = c * G bo bi)
    (hN : NoLeak Lg B)
    (ps : PS) (hps : ∀ b : List Bool, b.length = L.qubits.length → ps.eval (encode L b) = true) :
    (⟨List.ofFn fun a : Fin Lg.m => (P.f a).val, PM.place P.g B, placedGate P G, c⟩ : GateImpl L R).Ok ps :=
  gateImpl_place_ok P hokg hok hh B G c hB hN ps hps

/-- **the post-processed CNOT on any two qubits of any processor** (any placement, any sane layout with herald
values `0/1`): amplitudes `1/3 ·` (CNOT on the selected qubits ⊗ identity), on the outputs the processor's
post-selection keeps -/
theorem postprocessed_cnot_anywhere [CommRing R] {L : Layout} (P : Placement ppLayout L) (hok : L.ok = true)
    (hh : ∀ p ∈ L.heralds, p.2 ≤ 1) (r h : R) (h2 : 2 * h * h = 1) (ps : PS) (bo bi : List Bool)
    (hbo : bo.length = L.qubits.length) (hbi : bi.length = L.qubits.length) :
    gateAmp (PM.place P.g (ppcnotCircuit r h)) L ps bo bi =
      r * r * (if ps.eval (encode L bo) = true ∧
              ∀ j : Fin L.m, P.g j = none → (encode L bo).getD j.val 0 = (encode L bi).getD j.val 0
            then twoQubit cnotEntry (P.bits bo) (P.bits bi) else 0) :=
  postprocessed_cnot_placed P hok hh r h h2 ps bo bi hbo hbi

theorem postprocessed_cz_anywhere [CommRing R] {L : Layout} (P : Placement ppLayout L) (hok : L.ok = true)
    (hh : ∀ p ∈ L.heralds, p.2 ≤ 1) (r h : R) (h2 : 2 * h * h = 1) (ps : PS) (bo bi : List Bool)
    (hbo : bo.length = L.qubits.length) (hbi : bi.length = L.qubits.length) :
    gateAmp (PM.place P.g (ppczCircuit r h)) L ps bo bi =
      r * r * (if ps.eval (encode L bo) = true ∧
              ∀ j : Fin L.m, P.g j = none → (encode L bo).getD j.val 0 = (encode L bi).getD j.val 0
            then twoQubit czEntry (P.bits bo) (P.bits bi) else 0) :=
  postprocessed_cz_placed P hok hh r h h2 ps bo bi hbo hbi

/-! ### (2b) the heralded CZ (Knill) of the catalog, exactly, and that it is *heralded*
(`Lemmas/C20HeraldedCz.lean`; component product read from `heralded_cz.py`; `r = 1/√3`, `h = 1/√2`,
`c2 = cos(θ₂/2) = √((3+√6)/6)`, `s2 = sin(θ₂/2) = √((3−√6)/6)` as ring elements with the five relations below;
four photons: two qubits + heralds `4:1, 5:1`) -/

/-- **heralded CZ**: logical table exactly `c • CZ` with `27·c² = 2` (success probability `2/27`), no
post-selection -/
theorem heralded_cz_exact [CommRing R] (r h c2 s2 : R) (hr : 3 * r * r = 1) (hh : 2 * h * h = 1)
    (hc : 6 * c2 * c2 = 3 + 6 * h * r) (hs : 6 * s2 * s2 = 3 - 6 * h * r) (hcs : 2 * c2 * s2 = r) :
    ∃ c : R, 27 * (c * c) = 2 ∧
      (gateTable (hczCircuit r h c2 s2) hczLayout PS.tt : Matrix (Fin 4) (Fin 4) R) = c • czGate :=
  ⟨2 * h * r * (r * r), hcz_scalar_sq r h hr hh, hczCircuit_table r h c2 s2 hr hh hc hs hcs⟩

/-- **the heralded CZ is heralded**: with both heralds satisfied it reaches no non-logical state — for every
output state, not only the enumerated ones -/
theorem heralded_cz_no_leak [CommRing R] (r h c2 s2 : R) (hr : 3 * r * r = 1) (hh : 2 * h * h = 1)
    (hc : 6 * c2 * c2 = 3 + 6 * h * r) (hs : 6 * s2 * s2 = 3 - 6 * h * r) (hcs : 2 * c2 * s2 = r) :
    NoLeak hczLayout (hczCircuit r h c2 s2) :=
  hczCircuit_noLeak r h c2 s2 hr hh hc hs hcs

/-- the five relations are satisfied by the numbers of the code (over `ℝ`) -/
theorem heralded_cz_params_exist : ∃ r h c2 s2 : ℝ, 3 * r * r = 1 ∧ 2 * h * h = 1 ∧
    6 * c2 * c2 = 3 + 6 * h * r ∧ 6 * s2 * s2 = 3 - 6 * h * r ∧ 2 * c2 * s2 = r :=
  hcz_params_exist

theorem hcz_amp_tt [CommRing R] (r h c2 s2 : R) (hr : 3 * r * r = 1) (hh : 2 * h * h = 1)
    (hc : 6 * c2 * c2 = 3 + 6 * h * r) (hs : 6 * s2 * s2 = 3 - 6 * h * r) (hcs : 2 * c2 * s2 = r)
    (bo bi : List Bool) (hbo : bo.length = 2) (hbi : bi.length = 2) :
    gateAmp (hczMatrix r h c2 s2) hczLayout PS.tt bo bi = (2 * h * r * (r * r)) * twoQubit czEntry bo bi := by
  match bo, hbo, bi, hbi with
  | [a, b], _, [c, d], _ => exact hcz_amp r h c2 s2 hr hh hc hs hcs a b c d

/-- **the heralded CZ on any two qubits of any processor** (any placement into a sane layout with herald values
`0/1`, any post-selection accepting the logical states) is local, heralded and has the table
`c • (CZ on the selected qubits ⊗ identity)` -/
theorem heralded_cz_anywhere [CommRing R] {L : Layout} (P : Placement hczLayout L) (hok : L.ok = true)
    (hhL : ∀ p ∈ L.heralds, p.2 ≤ 1) (r h c2 s2 : R) (hr : 3 * r * r = 1) (hh : 2 * h * h = 1)
    (hc : 6 * c2 * c2 = 3 + 6 * h * r) (hs : 6 * s2 * s2 = 3 - 6 * h * r) (hcs : 2 * c2 * s2 = r)
    (ps : PS) (hps : ∀ b : List Bool, b.length = L.qubits.length → ps.eval (encode L b) = true) :
    (⟨List.ofFn fun a : Fin hczLayout.m => (P.f a).val, PM.place P.g (hczCircuit r h c2 s2),
      placedGate P (twoQubit czEntry), 2 * h * r * (r * r)⟩ : GateImpl L R).Ok ps := by
  rw [hczCircuit_eq r h c2 s2 hh]
  exact gateImpl_place_ok P hczLayout_ok hok hhL _ _ _
    (fun bo bi hbo hbi => hcz_amp_tt r h c2 s2 hr hh hc hs hcs bo bi hbo hbi)
    (hcz_noLeak r h c2 s2 hr hh hc hs hcs) ps hps

/-- **end to end: any sequence of heralded CZs** placed on arbitrary qubit pairs of a processor, each with its
own herald modes: the circuit's logical table is `c^n •` the product of the CZs, and nothing leaks -/
theorem heralded_cz_circuit [Field R] [CharZero R] {L : Layout} (hok : L.ok = true)
    (hhL : ∀ p ∈ L.heralds, p.2 ≤ 1) (r h c2 s2 : R) (hr : 3 * r * r = 1) (hh : 2 * h * h = 1)
    (hc : 6 * c2 * c2 = 3 + 6 * h * r) (hs : 6 * s2 * s2 = 3 - 6 * h * r) (hcs : 2 * c2 * s2 = r)
    (ps : PS) (hps : ∀ b : List Bool, b.length = L.qubits.length → ps.eval (encode L b) = true)
    (Ps : List (Placement hczLayout L))
    (hsep : (Ps.map fun P => (⟨List.ofFn fun a : Fin hczLayout.m => (P.f a).val,
        PM.place P.g (hczCircuit r h c2 s2), placedGate P (twoQubit czEntry), 2 * h * r * (r * r)⟩ :
          GateImpl L R)).Pairwise (fun g g' => ∀ hd ∈ L.heralds, hd.1 ∉ g.S ∨ hd.1 ∉ g'.S)) :
    gateTable (PM.C02.circuitMatrix (Ps.map fun P => PM.place P.g (hczCircuit r h c2 s2))) L ps =
        ((2 * h * r * (r * r)) ^ Ps.length) •
          (Ps.foldl (fun M P => placedGate P (twoQubit czEntry) * M)
            (1 : Matrix (Fin (basis L.qubits.length).length) (Fin (basis L.qubits.length).length) R)) ∧
      NoLeak L (PM.C02.circuitMatrix (Ps.map fun P => PM.place P.g (hczCircuit r h c2 s2))) := by
  have key := heralded_circuit_implements L hok hhL ps hps _
    (fun g hg => by
      obtain ⟨P, _, rfl⟩ := List.mem_map.1 hg
      exact heralded_cz_anywhere P hok hhL r h c2 s2 hr hh hc hs hcs ps hps) hsep
  simp only [List.map_map, Function.comp_def, List.map_const', List.prod_replicate,
    List.foldl_map] at key
  exact key

/-! ### (3) the DFS `_is_cyclic` of the converter decides exactly the extensional criterion `Forest`
(`Lemmas/C20Dfs.lean`: `adjList`, `dfsLoop`, `dfsUtil`, `isCyclic` transcribe `_find_max_ralph_pairs`' adjacency
lists and `_is_cyclic_util` / `_is_cyclic` as the code is — visiting order, early exits, `parent != i`, shared
`visited`; multigraphs, self-loops).  So every theorem above about `forestB`/`Forest` is a theorem about what the
DFS answers. -/

/-- **`_is_cyclic` = not `Forest`**, for every multigraph on the vertices `0..n-1` -/
theorem is_cyclic_dfs_eq_not_forest (n : ℕ) (E : List Edge) (hE : ∀ e ∈ E, e.1 < n ∧ e.2 < n) :
    isCyclic (adjList n E) n = !forestB E :=
  isCyclic_eq_not_forest n E hE

/-- safety direction alone: when the DFS says "acyclic" the edge multiset is a forest -/
theorem is_cyclic_dfs_false_forest (n : ℕ) (E : List Edge) (hE : ∀ e ∈ E, e.1 < n ∧ e.2 < n)
    (h : isCyclic (adjList n E) n = false) : Forest E :=
  isCyclic_false_forest n E hE h

/-- with the renumbering `node_map` of `_find_max_ralph_pairs` (any injective renaming of the vertices into
`0..n-1`; the iteration order of the Python `set` does not matter) -/
theorem is_cyclic_dfs_node_map (n : ℕ) (φ : ℕ → ℕ) (E : List Edge)
    (hφ : ∀ a ∈ verts E, ∀ b ∈ verts E, φ a = φ b → a = b) (hn : ∀ a ∈ verts E, φ a < n) :
    isCyclic (adjList n (E.map fun e => (φ e.1, φ e.2))) n = !forestB E :=
  isCyclic_map_eq_not_forest n φ E hφ hn

/-- `Forest` does not depend on the names of the vertices -/
theorem forest_invariant_under_renaming (φ : ℕ → ℕ) (E : List Edge)
    (hφ : ∀ a ∈ verts E, ∀ b ∈ verts E, φ a = φ b → a = b) :
    Forest (E.map fun e => (φ e.1, φ e.2)) ↔ Forest E :=
  forest_map_iff φ E hφ

/-! ### (4) Ryser's formula (the driver's evaluation above six photons) is the permanent
(`Lemmas/C20Ryser.lean`) -/

theorem ryser_eq_permanent [CommRing R] (f : ℕ → ℕ → R) (rows cols : List ℕ) (h : rows.length = cols.length) :
    permRyser f rows cols = Matrix.permanent (PM.lmat f rows cols) :=
  permRyser_eq_permanent f rows cols h

/-- the amplitude evaluation chosen by the driver (Laplace up to six photons, Ryser beyond) is the
specification, for every photon number -/
theorem evalAmp_eq_spec {m : ℕ} (U : Matrix (Fin m) (Fin m) GQ) (s t : List ℕ) : evalAmp U s t = pamp U s t :=
  evalAmp_eq_pamp U s t

theorem ryserGateAmp_eq_spec [CommRing R] {m : ℕ} (U : Matrix (Fin m) (Fin m) R) (L : Layout) (ps : PS)
    (bo bi : List Bool) : ryserGateAmp U L ps bo bi = gateAmp U L ps bo bi :=
  ryserGateAmp_eq_gateAmp U L ps bo bi


/-! ## Round 4

### (5) the heralded CNOT (Knill) of the catalog, exactly
(`Lemmas/C20HeraldedCnot.lean`; `heralded_cnot.py`: `BS.H()` on the data pair, the heralded CZ circuit, `BS.H()` on
the data pair; same layout and the same five relations as the heralded CZ).  Obtained from the heralded CZ by the
composition theorem for heralded gates, hence stated for fields of characteristic 0 (ℝ, ℂ). -/

/-- a circuit that is the identity outside the two rails of ONE qubit never leaves the logical space: every
one-qubit gate of a converted processor is a heralded gate -/
theorem one_qubit_gate_never_leaks [CommRing R] (L : Layout) (hok : L.ok = true) (p : ℕ) (hp : p ∈ L.qubits)
    {A : Matrix (Fin L.m) (Fin L.m) R} (hA : LocalOn [p, p + 1] A) : NoLeak L A :=
  noLeak_of_localOn_pair L hok p hp hA

/-- **heralded CNOT**: logical table exactly `c • CNOT` with `27·c² = 2` (success probability `2/27` on every
logical input), no post-selection -/
theorem heralded_cnot_exact [Field R] [CharZero R] (r h c2 s2 : R) (hr : 3 * r * r = 1) (hh : 2 * h * h = 1)
    (hc : 6 * c2 * c2 = 3 + 6 * h * r) (hs : 6 * s2 * s2 = 3 - 6 * h * r) (hcs : 2 * c2 * s2 = r) :
    ∃ c : R, 27 * (c * c) = 2 ∧
      (gateTable (hcnotCircuit r h c2 s2) hczLayout PS.tt : Matrix (Fin 4) (Fin 4) R) = c • cnotGate :=
  ⟨2 * h * r * (r * r), hcz_scalar_sq r h hr hh, hcnot_table r h c2 s2 hr hh hc hs hcs⟩

/-- **the heralded CNOT is heralded**: with both heralds satisfied it reaches no non-logical state -/
theorem heralded_cnot_no_leak [Field R] [CharZero R] (r h c2 s2 : R) (hr : 3 * r * r = 1) (hh : 2 * h * h = 1)
    (hc : 6 * c2 * c2 = 3 + 6 * h * r) (hs : 6 * s2 * s2 = 3 - 6 * h * r) (hcs : 2 * c2 * s2 = r) :
    NoLeak hczLayout (hcnotCircuit r h c2 s2) :=
  hcnot_noLeak r h c2 s2 hr hh hc hs hcs

/-- **the heralded CNOT on any two qubits of any processor**: local, heralded, table
`c • (CNOT on the selected qubits ⊗ identity)` — a `GateImpl` accepted by `heralded_circuit_implements_product` -/
theorem heralded_cnot_anywhere [Field R] [CharZero R] {L : Layout} (P : Placement hczLayout L) (hok : L.ok = true)
    (hhL : ∀ p ∈ L.heralds, p.2 ≤ 1) (r h c2 s2 : R) (hr : 3 * r * r = 1) (hh : 2 * h * h = 1)
    (hc : 6 * c2 * c2 = 3 + 6 * h * r) (hs : 6 * s2 * s2 = 3 - 6 * h * r) (hcs : 2 * c2 * s2 = r)
    (ps : PS) (hps : ∀ b : List Bool, b.length = L.qubits.length → ps.eval (encode L b) = true) :
    (⟨List.ofFn fun a : Fin hczLayout.m => (P.f a).val, PM.place P.g (hcnotCircuit r h c2 s2),
      placedGate P (twoQubit cnotEntry), 2 * h * r * (r * r)⟩ : GateImpl L R).Ok ps :=
  hcnot_placed_ok P hok hhL r h c2 s2 hr hh hc hs hcs ps hps

/-! ### (6) circuits with post-processed (leaky) gates: the global photon-number argument
(`Lemmas/C20Forest.lean`).  `Step`: support, touched qubit pairs, matrix, logical gate, scalar, leaky flag.
`Step.Ok`: local, table `c • G`, heralded unless leaky, support meets only its own qubit pairs.  `CutOk`: every
leaky step acts on two qubits `a, b` and some set `A ∋ a`, `A ∌ b` of qubits is closed under (each later step's
qubits all inside or all outside) every LATER step — i.e. `a` and `b` are not connected by what follows. -/

/-- a gate conserves the photons on every set of qubits it is closed under -/
theorem photons_on_closed_set_conserved [CommRing R] {L : Layout} (hok : L.ok = true) (g : Step L R) (hg : g.Ok)
    (A : ℕ → Bool) (hA : g.respects A) (u t : List ℕ) (hu : u.length = L.m) (ht : t.length = L.m)
    (huh : heraldsOk L.heralds u = true) (hth : heraldsOk L.heralds t = true)
    (hne : pamp g.U u t ≠ 0) : cutSum L A t = cutSum L A u :=
  cutSum_conserved hok g hg A hA u t hu ht huh hth hne

/-- what a leaky two-qubit gate leaks shows on every set of qubits that separates its two qubits -/
theorem leak_visible_on_separating_set [CommRing R] {L : Layout} (hok : L.ok = true) (g : Step L R) (hg : g.Ok)
    (a b : ℕ) (A : ℕ → Bool) (hQ : g.Q = [a, b]) (ha : A a = true) (hb : A b = false) (u t : List ℕ)
    (hu : u.length = L.m) (ht : t.length = L.m) (huh : heraldsOk L.heralds u = true)
    (hth : heraldsOk L.heralds t = true) (hul : isLogical L u = true) (htl : isLogical L t = false)
    (hne : pamp g.U u t ≠ 0) : cutSum L A t ≠ (L.qubits.filter A).length :=
  cutSum_ne_of_leak hok g hg a b A hQ ha hb u t hu ht huh hth hul htl hne

/-- **forest sufficiency**: under `CutOk` the leak-and-return condition holds at every step, so the whole circuit
has the logical table `(∏ cₖ) • (Gₙ ⋯ G₁)`; and every herald-satisfying output it reaches from a logical input
is logical or has a wrong photon count on some set of qubit pairs -/
theorem leaky_circuit_implements_product [Field R] [CharZero R] (L : Layout) (hok : L.ok = true)
    (hh : ∀ p ∈ L.heralds, p.2 ≤ 1) (ps : PS)
    (hps : ∀ b : List Bool, b.length = L.qubits.length → ps.eval (encode L b) = true)
    (gs : List (Step L R)) (hg : ∀ g ∈ gs, g.Ok) (hcut : CutOk gs)
    (hp : gs.Pairwise (fun g g' => ∀ h ∈ L.heralds, h.1 ∉ g.S ∨ h.1 ∉ g'.S)) :
    gateTable (PM.C02.circuitMatrix (gs.map (·.U))) L ps =
        ((gs.map (·.c)).prod) • gs.foldl (fun M g => g.G * M) 1 ∧
      ∀ bi : List Bool, bi.length = L.qubits.length → ∀ u : List ℕ, u.length = L.m →
        heraldsOk L.heralds u = true → pamp (PM.C02.circuitMatrix (gs.map (·.U))) (encode L bi) u ≠ 0 →
        isLogical L u = true ∨ ∃ A : ℕ → Bool, cutSum L A u ≠ (L.qubits.filter A).length :=
  forest_circuit_implements L hok hh ps hps gs hg hcut hp

/-- the executable check run by the driver on the shape of every converted circuit is sound for `CutOk` -/
theorem cut_check_sound {L : Layout} (gs : List (Step L R))
    (h : cutCheck (gs.map fun g => (g.Q, g.leaky)) = true) : CutOk gs :=
  cutCheck_sound gs h

/-- **a converted circuit** — one-qubit gates (any 2×2 matrix), heralded CZ, heralded CNOT, post-processed CNOT
on arbitrary placements, other heralded steps given with their proof (SWAP) — **implements the product of its
gates** with the product of the scalars `1`, `2hr·r²`, `r²`, when `cutCheck` accepts its shape and no herald mode
is shared by two gates -/
theorem converted_circuit_implements_product [Field R] [CharZero R] {L : Layout} (hok : L.ok = true)
    (hhL : ∀ p ∈ L.heralds, p.2 ≤ 1) (ps : PS)
    (hps : ∀ b : List Bool, b.length = L.qubits.length → ps.eval (encode L b) = true)
    (r h c2 s2 : R) (hr : 3 * r * r = 1) (hh : 2 * h * h = 1) (hc : 6 * c2 * c2 = 3 + 6 * h * r)
    (hs : 6 * s2 * s2 = 3 - 6 * h * r) (hcs : 2 * c2 * s2 = r)
    (gs : List (ConvGate L R)) (hgood : ∀ g ∈ gs, g.Good)
    (hcut : cutCheck ((convSteps r h c2 s2 gs).map fun s => (s.Q, s.leaky)) = true)
    (hp : (convSteps r h c2 s2 gs).Pairwise (fun g g' => ∀ hd ∈ L.heralds, hd.1 ∉ g.S ∨ hd.1 ∉ g'.S)) :
    gateTable (PM.C02.circuitMatrix ((convSteps r h c2 s2 gs).map (·.U))) L ps =
      (((convSteps r h c2 s2 gs).map (·.c)).prod) •
        (convSteps r h c2 s2 gs).foldl (fun M g => g.G * M) 1 :=
  conv_circuit_implements hok hhL ps hps r h c2 s2 hr hh hc hs hcs gs hgood hcut hp

/-! ### (7) the mode mapping the converter computes is a `Placement`
(`Lemmas/C20ModeMap.lean`, `Model/C20Conv.lean`: `convLayout`, `gateModes`) -/

/-- the layout of a converted processor (qubit `k` on modes `2k, 2k+1`, herald modes appended) is sane -/
theorem converter_layout_ok (n : ℕ) (hv : List ℕ) : (convLayout n hv).ok = true := convLayout_ok n hv

/-- **`_create_mode_map` + the appended herald modes form a `Placement`** of the gate's own six-mode layout,
for every qubit count, every two distinct qubits, every gate position `j` (herald value `v`) -/
theorem converter_mode_map_is_placement (n : ℕ) (hv : List ℕ) (a b j v : ℕ) (ha : a < n) (hb : b < n)
    (hab : a ≠ b) (hj : 2 * j + 1 < hv.length) (h0 : hv.getD (2 * j) 0 = v) (h1 : hv.getD (2 * j + 1) 0 = v) :
    ∃ P : Placement ⟨6, [0, 2], [(4, v), (5, v)]⟩ (convLayout n hv),
      (List.ofFn fun k : Fin 6 => (P.f k).val) = gateModes n a b j ∧ P.sel = [a, b] ∧
      (createModeMap (2 * a) (2 * b)).map Prod.fst = (gateModes n a b j).take 4 :=
  ⟨gatePlacement n hv a b j v ha hb hab hj h0 h1, gatePlacement_support n hv a b j v ha hb hab hj h0 h1, rfl, rfl⟩

/-- two catalog gates (different positions) share no herald mode; gates on qubit modes only touch none -/
theorem converter_gates_share_no_herald (n : ℕ) (hv : List ℕ) (a b j a' b' j' : ℕ) (ha : a < n) (hb : b < n)
    (ha' : a' < n) (hb' : b' < n) (hjj : j ≠ j') :
    ∀ h ∈ (convLayout n hv).heralds, h.1 ∉ gateModes n a b j ∨ h.1 ∉ gateModes n a' b' j' :=
  gateModes_heralds_disjoint n hv a b j a' b' j' ha hb ha' hb' hjj

theorem converter_qubit_modes_no_herald (n : ℕ) (hv : List ℕ) (S : List ℕ) (hS : ∀ k ∈ S, k < 2 * n) :
    ∀ h ∈ (convLayout n hv).heralds, h.1 ∉ S :=
  qubit_modes_no_herald n hv S hS

/-- **a gate placed by any placement is an admissible step** of `leaky_circuit_implements_product` -/
theorem placed_gate_is_step [CommRing R] {Lg L : Layout} (P : Placement Lg L) (hokg : Lg.ok = true)
    (hok : L.ok = true) (hh : ∀ p ∈ L.heralds, p.2 ≤ 1) (B : Matrix (Fin Lg.m) (Fin Lg.m) R)
    (G : List Bool → List Bool → R) (c : R) (leaky : Bool)
    (hB : ∀ bo bi : List Bool, bo.length = Lg.qubits.length → bi.length = Lg.qubits.length →
      gateAmp B Lg PS.tt bo bi = c * G bo bi)
    (hN : leaky = false → NoLeak Lg B) : (placedStep P B G c leaky).Ok :=
  placedStep_ok P hokg hok hh B G c leaky hB hN

/-! ## non-vacuity -/

example : Implements (1 : Matrix (Fin 2) (Fin 2) ℚ) ((3 : ℚ) • 1) := ⟨3, rfl⟩

example : ∃ (G A : Matrix (Fin 1) (Fin 1) GQ) (c : GQ), A = c • G ∧ Gᴴ * G = 1 :=
  ⟨1, GQ.I • 1, GQ.I, rfl, by simp⟩

example : (3 : ℚ)⁻¹ * 3 = 1 := by norm_num

example : (0 : ℕ) ≠ 2 := by decide

-- `ralph_pairs_maximal` / `pp_never_share_a_pair` / `pp_avoids_other_two_qubit_gates`: their hypotheses
-- are satisfiable on a concrete circuit
example : [((0 : ℕ), (1 : ℕ))].isSubperm (cnotPairs witnessGates) = true ∧
    forestB ([(0, 1)] ++ extraEdges false witnessGates) = true := by decide +kernel

example : ((0 : ℕ), (2 : ℕ)) ∈ ppPairs true [⟨"cx", [0, 2]⟩, ⟨"cz", [0, 1]⟩] ∧
    ((0 : ℕ), (1 : ℕ)) ∈ otherPairs [⟨"cx", [0, 2]⟩, ⟨"cz", [0, 1]⟩] := by decide +kernel

example : [((1 : ℕ), (2 : ℕ)), ((0 : ℕ), (1 : ℕ))].isSubperm
    (ppPairs false [⟨"cx", [0, 1]⟩, ⟨"cx", [1, 2]⟩]) = true := by decide +kernel

-- regression witness of the pinned behaviour and of the repaired one on the same circuit
example : labelCnots false witnessGates = ["postprocessed cnot", "cz"] := by decide +kernel
example : labelCnots true witnessGates = ["heralded cnot", "cz"] := by decide +kernel

-- cQASM declarations: hypotheses are satisfiable, on the shape `qubit[2] a; qubit b; qubit[2] c`
example : operandIndex [⟨"a", some 2⟩, ⟨"b", none⟩, ⟨"c", some 2⟩] ("c", 1) = some 4 ∧
    operandIndex [⟨"a", some 2⟩, ⟨"b", none⟩, ⟨"c", some 2⟩] ("b", -1) = some 2 ∧
    operandIndex [⟨"a", some 2⟩, ⟨"b", none⟩, ⟨"c", some 2⟩] ("b", 0) = none ∧
    qubitNames [⟨"a", some 2⟩, ⟨"b", none⟩] = ["a[0]", "a[1]", "b"] := by decide +kernel

example : "c" ∉ ([⟨"a", some 2⟩, ⟨"b", none⟩] : List Decl).map Decl.name := by decide +kernel

-- round 3: the hypotheses of the composition theorems are jointly satisfiable — a layout with a herald,
-- separated supports, heralded gates (here the identity; `noLeak_one`, `localOn_one`, `gateTable_one`)
example : (⟨3, [0], [(2, 1)]⟩ : Layout).ok = true := by decide

example : Separated (R := ℚ) ⟨3, [0], [(2, 1)]⟩ [0, 1] [2] 1 1 ∧ NoLeak (R := ℚ) ⟨3, [0], [(2, 1)]⟩ 1 :=
  ⟨⟨localOn_one _, localOn_one _, fun h hh => by
      simp only [List.mem_singleton] at hh; subst hh; exact Or.inl (by decide)⟩,
    noLeak_one _ (by decide)⟩

example : ∀ bo bi : List Bool, bo.length = 1 → bi.length = 1 →
    NoLeakReturn (R := ℚ) ⟨3, [0], [(2, 1)]⟩ 1 1 bo bi := fun bo bi hbo hbi =>
  noLeakReturn_of_noLeak (SA := [0, 1]) (SB := [2]) _ (by decide)
    ⟨localOn_one _, localOn_one _, fun h hh => by
      simp only [List.mem_singleton] at hh; subst hh; exact Or.inl (by decide)⟩
    (noLeak_one _ (by decide)) bo bi hbo hbi

example : (⟨[0, 1], 1, 1, 1⟩ : GateImpl ⟨3, [0], [(2, 1)]⟩ ℚ).Ok PS.tt :=
  ⟨localOn_one _, noLeak_one _ (by decide), by
    rw [gateTable_one _ (by decide) PS.tt (fun _ _ => rfl),
      heraldFact_eq_one _ (by decide), Nat.cast_one]⟩

-- `3r² = 1`, `2h² = 1` have solutions (`invSqrt3_spec`, `invSqrt2_spec` over ℂ); `pp_selected…`: a selected state
example : ppPS.eval [1, 0, 0, 1, 0, 0] = true := by decide

-- a placement exists: post-processed CNOT with control on qubit 2, data on qubit 0 of a 3-qubit processor
example : Nonempty (Placement ppLayout exL) ∧ exL.ok = true ∧ (∀ p ∈ exL.heralds, p.2 ≤ 1) :=
  ⟨⟨exPlacement'⟩, by decide, by decide⟩

-- two heralded CZs on a 3-qubit processor (qubits 0,1 with heralds 6,7; qubits 1,2 with heralds 8,9): placements
-- exist and their supports share no herald mode
def exL2 : Layout := ⟨10, [0, 2, 4], [(6, 1), (7, 1), (8, 1), (9, 1)]⟩

def exP1 : Placement ⟨6, [0, 2], [(4, 1), (5, 1)]⟩ ⟨10, [0, 2, 4], [(6, 1), (7, 1), (8, 1), (9, 1)]⟩ where
  φ := fun a => [0, 1, 2, 3, 6, 7].getD a 0
  g := (![some 0, some 1, some 2, some 3, none, none, some 4, some 5, none, none] : Fin 10 → Option (Fin 6))
  sel := [0, 1]
  φ_lt := by decide
  inv := by
    unfold Function.IsPartialInv
    change ∀ (x : Fin 6) (y : Fin 10), _
    decide
  sel_length := rfl
  sel_lt := by decide
  qubit := by decide
  herald := by decide

def exP2 : Placement ⟨6, [0, 2], [(4, 1), (5, 1)]⟩ ⟨10, [0, 2, 4], [(6, 1), (7, 1), (8, 1), (9, 1)]⟩ where
  φ := fun a => [2, 3, 4, 5, 8, 9].getD a 0
  g := (![none, none, some 0, some 1, some 2, some 3, none, none, some 4, some 5] : Fin 10 → Option (Fin 6))
  sel := [1, 2]
  φ_lt := by decide
  inv := by
    unfold Function.IsPartialInv
    change ∀ (x : Fin 6) (y : Fin 10), _
    decide
  sel_length := rfl
  sel_lt := by decide
  qubit := by decide
  herald := by decide

example : exL2.ok = true ∧ (∀ p ∈ exL2.heralds, p.2 ≤ 1) ∧
    (List.ofFn fun a : Fin 6 => (exP1.f a).val) = [0, 1, 2, 3, 6, 7] ∧
    (List.ofFn fun a : Fin 6 => (exP2.f a).val) = [2, 3, 4, 5, 8, 9] ∧
    (∀ hd ∈ exL2.heralds, hd.1 ∉ [0, 1, 2, 3, 6, 7] ∨ hd.1 ∉ [2, 3, 4, 5, 8, 9]) := by
  decide

-- the DFS model on a triangle, a path, parallel edges, a self-loop (same answers as the real `_is_cyclic`)
example : isCyclic (adjList 3 [(0, 1), (1, 2), (2, 0)]) 3 = true ∧ isCyclic (adjList 3 [(0, 1), (1, 2)]) 3 = false ∧
    isCyclic (adjList 2 [(0, 1), (1, 0)]) 2 = true ∧ isCyclic (adjList 1 [(0, 0)]) 1 = true := by decide +kernel

-- Ryser on a concrete 3×3 matrix
example : permRyser (fun i j => ((3 * i + j + 1 : ℕ) : ℤ)) [0, 1, 2] [0, 1, 2] = 450 := by decide


-- round 4.  `CutOk` / `cutCheck`: accepted shape (post-processed CNOT on qubits 0,1 = first modes 0,2, then a
-- heralded gate on qubits 1,2 and a one-qubit gate) and a rejected one (a later gate on the same pair)
example : cutCheck [([0, 2], true), ([2, 4], false), ([0], false)] = true ∧
    cutCheck [([0, 2], true), ([2, 4], false), ([4, 0], false)] = false ∧
    cutCheck [([0, 2], true), ([0, 2], false)] = false := by decide

-- the converter's shape of `cx(0,1); cz(1,2)` (labels of the repaired labelling) passes the check
example : cutCheck (convShape true [⟨"cx", [0, 1]⟩, ⟨"cz", [1, 2]⟩]
    (labelCnots true [⟨"cx", [0, 1]⟩, ⟨"cz", [1, 2]⟩])) = true := by decide +kernel

-- a placement of the converter: 3 qubits, second catalog gate = post-processed CNOT with control 2, data 0
example : gateModes 3 2 0 1 = [4, 5, 0, 1, 8, 9] ∧ (convLayout 3 [1, 1, 0, 0]).ok = true := by decide

-- the five relations of the heralded CNOT are those of the heralded CZ (`heralded_cz_params_exist`)

/-! ### (8) the labelling `label_cnots_in_gate_sequence` computes satisfies the cut condition
(`Lemmas/C20Label.lean`: graph lemmas on `Forest`, exchange along `itertools.combinations`;
`Lemmas/C20LabelCut.lean`: shape of the converted circuit, completeness of `cutCheck`) -/

/-- **every CNOT labelled post-processed is separated from what follows it**: with `cn` the CNOT qubit pairs in
circuit order and `X` the qubit pairs of the other two-qubit gates, if the `i`-th flag computed by
`_gate_list_optimized_cnots` is "post-processed" then some set `A` of qubits contains the control, not the data
qubit, and no LATER CNOT (of either kind) and no other two-qubit gate of the circuit leaves `A` -/
theorem labelled_cnot_is_separated (cn X : List Edge) (i : ℕ)
    (h : (assign cn.reverse (findMaxRalph cn.reverse X)).reverse[i]? = some true) :
    ∃ e, cn[i]? = some e ∧ ∃ A : ℕ → Prop, Closed A (cn.drop (i + 1) ++ X) ∧ A e.1 ∧ ¬ A e.2 :=
  label_cut cn X i h

/-- what `_find_max_ralph_pairs` returns: nothing, or the FIRST acyclic subset of its size in the order
`itertools.combinations` produces them (and no larger subset is acyclic: `ralph_pairs_maximal`) -/
theorem find_max_ralph_is_first (P X : List Edge) :
    findMaxRalph P X = [] ∨
      ∃ r, (combos r P).find? (fun S => forestB (S ++ X)) = some (findMaxRalph P X) :=
  findMaxRalph_first P X

/-- **the labelling satisfies the cut condition** — `CutShape`, the hypothesis `CutOk` of
`leaky_circuit_implements_product` read on the shape of the converted circuit — for every gate sequence of one-
and two-qubit gates (the converter raises NotImplementedError on wider ones) in which no foreign gate carries the
internal name "postprocessed cnot" -/
theorem labelling_satisfies_cut_condition (gs : List Gate)
    (hq : ∀ g ∈ gs, g.qubits.length = 1 ∨ g.qubits.length = 2)
    (hname : ∀ g ∈ gs, isCnot g = false → g.qubits.length = 2 → g.name.toUpper ≠ "POSTPROCESSED CNOT") :
    CutShape (convShape true gs (labelCnots true gs)) :=
  label_cutShape gs hq hname

/-- the executable check decides the cut condition (sound AND complete: the computed component is the least
closed set) -/
theorem cut_check_decides (sh : List (List ℕ × Bool)) : cutCheck sh = true ↔ CutShape sh := cutCheck_iff sh

/-- the check the driver evaluates on the real labels of every converted circuit can never fail on the labels of
the (repaired) labelling -/
theorem labelling_passes_cut_check (gs : List Gate)
    (hq : ∀ g ∈ gs, g.qubits.length = 1 ∨ g.qubits.length = 2)
    (hname : ∀ g ∈ gs, isCnot g = false → g.qubits.length = 2 → g.name.toUpper ≠ "POSTPROCESSED CNOT") :
    cutCheck (convShape true gs (labelCnots true gs)) = true :=
  label_cutCheck gs hq hname

/-- **a converted circuit whose shape is the one the converter computes for the source gate sequence `src`
implements the product of its gates** — no hypothesis on the labelling is left -/
theorem converted_circuit_implements_product_labelled [Field R] [CharZero R] {L : Layout} (hok : L.ok = true)
    (hhL : ∀ p ∈ L.heralds, p.2 ≤ 1) (ps : PS)
    (hps : ∀ b : List Bool, b.length = L.qubits.length → ps.eval (encode L b) = true)
    (r h c2 s2 : R) (hr : 3 * r * r = 1) (hh : 2 * h * h = 1) (hc : 6 * c2 * c2 = 3 + 6 * h * r)
    (hs : 6 * s2 * s2 = 3 - 6 * h * r) (hcs : 2 * c2 * s2 = r)
    (gs : List (ConvGate L R)) (hgood : ∀ g ∈ gs, g.Good)
    (src : List Gate) (hq : ∀ g ∈ src, g.qubits.length = 1 ∨ g.qubits.length = 2)
    (hname : ∀ g ∈ src, isCnot g = false → g.qubits.length = 2 → g.name.toUpper ≠ "POSTPROCESSED CNOT")
    (hshape : (convSteps r h c2 s2 gs).map (fun s => (s.Q, s.leaky)) = convShape true src (labelCnots true src))
    (hp : (convSteps r h c2 s2 gs).Pairwise (fun g g' => ∀ hd ∈ L.heralds, hd.1 ∉ g.S ∨ hd.1 ∉ g'.S)) :
    gateTable (PM.C02.circuitMatrix ((convSteps r h c2 s2 gs).map (·.U))) L ps =
      (((convSteps r h c2 s2 gs).map (·.c)).prod) •
        (convSteps r h c2 s2 gs).foldl (fun M g => g.G * M) 1 :=
  conv_circuit_implements hok hhL ps hps r h c2 s2 hr hh hc hs hcs gs hgood
    (by rw [hshape]; exact label_cutCheck src hq hname) hp

/-- the labelling of the pinned code (only CNOTs enter the interaction graph) fails the cut condition:
`cx(0,1); cz(0,1)` — the post-processed CNOT's qubits are reconnected by the CZ -/
theorem pinned_labelling_fails_cut_check :
    cutCheck (convShape true [⟨"cx", [0, 1]⟩, ⟨"cz", [0, 1]⟩]
      (labelCnots false [⟨"cx", [0, 1]⟩, ⟨"cz", [0, 1]⟩])) = false := by decide +kernel

/-- being a maximal forest is not enough, the ORDER of the candidates matters: for `cx(0,1); cx(0,1)` labelling
the FIRST CNOT post-processed is also a maximal forest and violates the cut condition; the code labels the last -/
theorem other_maximal_forest_fails_cut_check :
    cutCheck (convShape true [⟨"cx", [0, 1]⟩, ⟨"cx", [0, 1]⟩] ["postprocessed cnot", "heralded cnot"]) = false ∧
    labelCnots true [⟨"cx", [0, 1]⟩, ⟨"cx", [0, 1]⟩] = ["heralded cnot", "postprocessed cnot"] := by
  decide +kernel

-- non-vacuity: a sequence with three CNOTs around a triangle, a CZ and a SWAP meets the hypotheses, two CNOTs are
-- labelled post-processed and the check passes
example : let gs : List Gate := [⟨"cx", [0, 1]⟩, ⟨"h", [2]⟩, ⟨"cx", [1, 2]⟩, ⟨"cz", [2, 3]⟩, ⟨"cx", [2, 0]⟩,
      ⟨"swap", [3, 4]⟩]
    (∀ g ∈ gs, g.qubits.length = 1 ∨ g.qubits.length = 2) ∧
    (∀ g ∈ gs, isCnot g = false → g.qubits.length = 2 → g.name.toUpper ≠ "POSTPROCESSED CNOT") ∧
    labelCnots true gs = ["heralded cnot", "h", "postprocessed cnot", "cz", "postprocessed cnot", "swap"] ∧
    cutCheck (convShape true gs (labelCnots true gs)) = true := by
  decide +kernel

/-! ### (9) the SWAP the converter places (`Lemmas/C20Swap.lean`) -/

/-- **the SWAP exactly**: on its own four modes the `PERM([2, 3, 0, 1])` has the logical table `1 • SWAP` -/
theorem swap_gate_exact [CommRing R] (bo bi : List Bool) (hbo : bo.length = 2) (hbi : bi.length = 2) :
    gateAmp (swapMatrix (R := R)) swapLayout PS.tt bo bi = 1 * twoQubit swapEntry bo bi :=
  swap_amp_tt bo bi hbo hbi

/-- the SWAP never sends a logical state outside the logical space -/
theorem swap_gate_no_leak [CommRing R] : NoLeak swapLayout (swapMatrix (R := R)) := swap_noLeak

/-- **the SWAP placed on any two qubits of any processor is an admissible heralded step** — the `Step.Ok` that
`converted_circuit_implements_product` took as a hypothesis for SWAPs is now a theorem: `ConvGate.other` of this
step is `Good` -/
theorem swap_anywhere [Field R] [CharZero R] {L : Layout} (P : Placement swapLayout L) (hok : L.ok = true)
    (hh : ∀ p ∈ L.heralds, p.2 ≤ 1) :
    (ConvGate.other (placedStep P (swapMatrix (R := R)) (twoQubit swapEntry) 1 false)).Good :=
  ⟨swap_step_ok P hok hh, rfl⟩

/-- **the converter's SWAP**: for every qubit count and every two distinct qubits there is a placement of the
four-mode SWAP whose modes are the four rails of the two qubits, and its matrix on ALL the modes of the processor
is the permutation matrix of `swapPairs a b` — which by `swap_perm_spec` is where the `PERM` the converter adds at
offset `2·min a b` sends every mode -/
theorem converter_swap_is_placement [Zero R] [One R] (n : ℕ) (hv : List ℕ) (a b : ℕ) (ha : a < n) (hb : b < n)
    (hab : a ≠ b) :
    ∃ P : Placement swapLayout (convLayout n hv),
      (List.ofFn fun k : Fin 4 => (P.f k).val) = [2 * a, 2 * a + 1, 2 * b, 2 * b + 1] ∧ P.sel = [a, b] ∧
      (∀ i j, PM.place P.g (swapMatrix (R := R)) i j = if swapPairs a b j.val = i.val then 1 else 0) ∧
      ∃ perm, swapPerm (2 * a) (2 * b) = some (2 * min a b, perm) ∧
        ∀ j, permTarget (2 * min a b) perm j = swapPairs a b j := by
  obtain ⟨perm, h1, _, h3⟩ := swap_perm_spec a b hab
  refine ⟨swapPlacement n hv a b ha hb hab, ?_, rfl, swapPlacement_matrix n hv a b ha hb hab, perm, h1, h3⟩
  simp [Placement.f, swapPlacement, List.ofFn_succ]

-- non-vacuity: the SWAP of qubits 2 and 0 of a three-qubit processor with one catalog gate's heralds
example : ∃ P : Placement swapLayout (convLayout 3 [1, 1]),
    (List.ofFn fun k : Fin 4 => (P.f k).val) = [4, 5, 0, 1] :=
  ⟨swapPlacement 3 [1, 1] 2 0 (by decide) (by decide) (by decide), by
    simp [Placement.f, swapPlacement, List.ofFn_succ]⟩

/-! ### (10) the whole converted processor (`Lemmas/C20Whole.lean`) -/

/-- **a processor converted from a gate-based circuit acts on the logical basis as the source circuit's product of
gates, up to one scalar** — the second sentence of the property, for the converter's own choice of heralded and
post-processed CNOTs.  `convGatesM` is the list of gates `_generate_converted_processor` places for the source
sequence `src` with the labels `label_cnots_in_gate_sequence` computes (one-qubit gates on their rails, catalog
two-qubit gates on `gateModes` with the running index of their herald pair, SWAPs as the four-rail `PERM`); when the
conversion goes through (`some cgs`, see `conversion_succeeds_on_valid_sequences`) the circuit made of the placed
matrices has the logical table `(∏ scalars) • (Gₙ ⋯ G₁)`.  No hypothesis is left on the labelling, the shape, the
SWAPs or the sharing of herald modes; the hypotheses are: gates on one or two qubits, no foreign gate named
"postprocessed cnot", herald values ≤ 1 (all catalog gates), a post-selection accepting the logical states, and the
five polynomial relations between the beam-splitter entries (`heralded_cz_params_exist`). -/
theorem converted_processor_implements [Field R] [CharZero R] (n : ℕ) (hv : List ℕ) (hle : ∀ v ∈ hv, v ≤ 1)
    (oneQ : Gate → Matrix (Fin 2) (Fin 2) R) (ps : PS)
    (hps : ∀ b : List Bool, b.length = (convLayout n hv).qubits.length → ps.eval (encode (convLayout n hv) b) = true)
    (r h c2 s2 : R) (hr : 3 * r * r = 1) (hh : 2 * h * h = 1) (hc : 6 * c2 * c2 = 3 + 6 * h * r)
    (hs : 6 * s2 * s2 = 3 - 6 * h * r) (hcs : 2 * c2 * s2 = r)
    (src : List Gate) (hq : ∀ g ∈ src, g.qubits.length = 1 ∨ g.qubits.length = 2)
    (hname : ∀ g ∈ src, isCnot g = false → g.qubits.length = 2 → g.name.toUpper ≠ "POSTPROCESSED CNOT")
    (cgs : List (ConvGate (convLayout n hv) R))
    (hconv : convGatesM n hv oneQ src (labelCnots true src) 0 = some cgs) :
    gateTable (PM.C02.circuitMatrix ((convSteps r h c2 s2 cgs).map (·.U))) (convLayout n hv) ps =
      (((convSteps r h c2 s2 cgs).map (·.c)).prod) •
        (convSteps r h c2 s2 cgs).foldl (fun M g => g.G * M) 1 :=
  converted_circuit_implements_product_labelled (convLayout_ok n hv) (convLayout_heralds_le n hv hle) ps hps
    r h c2 s2 hr hh hc hs hcs cgs (convGatesM_good n hv hle oneQ src _ 0 cgs hconv) src hq hname
    (convGatesM_shape n hv oneQ r h c2 s2 src _ 0 cgs hconv)
    (convGatesM_pairwise n hv oneQ r h c2 s2 src _ 0 cgs hconv)

/-- the conversion goes through on every sequence of accepted gates (one qubit in range, or two distinct qubits in
range with a known label) when the layout carries the herald values `planHeralds` lists -/
theorem conversion_succeeds_on_valid_sequences [Field R] [CharZero R] (n : ℕ)
    (oneQ : Gate → Matrix (Fin 2) (Fin 2) R) (gs : List Gate) (ls : List String)
    (hok : List.Forall₂ (GateOk n) gs ls) :
    (convGatesM n (planHeralds (planKinds true gs ls)) oneQ gs ls 0).isSome = true :=
  convGatesM_succeeds n oneQ gs ls 0 _ hok (by simp)

/-- the herald values of a converted processor are 0 or 1 -/
theorem converted_heralds_le_one (kinds : List String) : ∀ v ∈ planHeralds kinds, v ≤ 1 :=
  planHeralds_le_one kinds

/-- the placed gates have the shape `convShape` computes, the SWAPs are proved steps, no herald mode is shared -/
theorem converted_gates_shape_good_disjoint [Field R] [CharZero R] (n : ℕ) (hv : List ℕ) (hle : ∀ v ∈ hv, v ≤ 1)
    (oneQ : Gate → Matrix (Fin 2) (Fin 2) R) (r h c2 s2 : R) (gs : List Gate) (ls : List String) (j : ℕ)
    (cgs : List (ConvGate (convLayout n hv) R)) (hconv : convGatesM n hv oneQ gs ls j = some cgs) :
    (convSteps r h c2 s2 cgs).map (fun s => (s.Q, s.leaky)) = convShape true gs ls ∧ (∀ cg ∈ cgs, cg.Good) ∧
      (convSteps r h c2 s2 cgs).Pairwise
        (fun g g' => ∀ hd ∈ (convLayout n hv).heralds, hd.1 ∉ g.S ∨ hd.1 ∉ g'.S) :=
  ⟨convGatesM_shape n hv oneQ r h c2 s2 gs ls j cgs hconv, convGatesM_good n hv hle oneQ gs ls j cgs hconv,
    convGatesM_pairwise n hv oneQ r h c2 s2 gs ls j cgs hconv⟩

-- non-vacuity: `h(0); cx(0,1); cz(1,2); swap(0,3); cx(3,2)` on four qubits is a valid sequence with the labels the
-- converter computes, so the conversion goes through and `converted_processor_implements` applies to it
example : let gs : List Gate := [⟨"h", [0]⟩, ⟨"cx", [0, 1]⟩, ⟨"cz", [1, 2]⟩, ⟨"swap", [0, 3]⟩, ⟨"cx", [3, 2]⟩]
    List.Forall₂ (GateOk 4) gs (labelCnots true gs) ∧
    planHeralds (planKinds true gs (labelCnots true gs)) = [1, 1, 1, 1, 0, 0] := by
  refine ⟨?_, by decide +kernel⟩
  have hl : labelCnots true [⟨"h", [0]⟩, ⟨"cx", [0, 1]⟩, ⟨"cz", [1, 2]⟩, ⟨"swap", [0, 3]⟩, ⟨"cx", [3, 2]⟩] =
      ["h", "heralded cnot", "cz", "swap", "postprocessed cnot"] := by decide +kernel
  simp only [hl]
  refine List.Forall₂.cons (Or.inl ⟨0, rfl, by decide⟩) (List.Forall₂.cons (Or.inr ⟨0, 1, rfl, by decide, by decide,
    by decide, Or.inr (Or.inr (Or.inl (by decide +kernel)))⟩) (List.Forall₂.cons (Or.inr ⟨1, 2, rfl, by decide,
    by decide, by decide, Or.inr (Or.inl (by decide +kernel))⟩) (List.Forall₂.cons (Or.inr ⟨0, 3, rfl, by decide,
    by decide, by decide, Or.inl (by decide +kernel)⟩) (List.Forall₂.cons (Or.inr ⟨3, 2, rfl, by decide, by decide,
    by decide, Or.inr (Or.inr (Or.inr (by decide +kernel)))⟩) List.Forall₂.nil))))

/-- **the placed gates sit on the modes the driver reports**: the supports of the gates `convGatesM` places are
`planModes n gs (planKinds true gs labels) j` — the very list the driver's `modes` request returns and the harness
compares, for every converted circuit, with the positions of the real processor's components.  This is what ties
the object of `converted_processor_implements` to the code. -/
theorem converted_gates_sit_on_plan_modes [Field R] [CharZero R] (n : ℕ) (hv : List ℕ)
    (oneQ : Gate → Matrix (Fin 2) (Fin 2) R) (r h c2 s2 : R) (gs : List Gate) (ls : List String) (j : ℕ)
    (cgs : List (ConvGate (convLayout n hv) R)) (hconv : convGatesM n hv oneQ gs ls j = some cgs) :
    (convSteps r h c2 s2 cgs).map (·.S) = planModes n gs (planKinds true gs ls) j :=
  convGatesM_modes_planKinds n hv oneQ r h c2 s2 gs ls j cgs hconv

/-- **the end-to-end statement on the source circuit alone.**  For every number of qubits `n` and every source gate
sequence whose gates the converter can handle (`SrcOk`: one qubit in range; or two distinct qubits in range and a
CNOT / CZ / CSIGN / SWAP), with the labels the converter computes and the herald values it plans: the conversion goes
through, and the circuit made of the placed matrices has the logical table `(∏ scalars) • (Gₙ ⋯ G₁)` -/
theorem converted_source_circuit_implements [Field R] [CharZero R] (n : ℕ)
    (oneQ : Gate → Matrix (Fin 2) (Fin 2) R) (ps : PS) (src : List Gate) (hsrc : ∀ g ∈ src, SrcOk n g)
    (hps : ∀ b : List Bool,
      b.length = (convLayout n (planHeralds (planKinds true src (labelCnots true src)))).qubits.length →
      ps.eval (encode (convLayout n (planHeralds (planKinds true src (labelCnots true src)))) b) = true)
    (r h c2 s2 : R) (hr : 3 * r * r = 1) (hh : 2 * h * h = 1) (hc : 6 * c2 * c2 = 3 + 6 * h * r)
    (hs : 6 * s2 * s2 = 3 - 6 * h * r) (hcs : 2 * c2 * s2 = r) :
    ∃ cgs, convGatesM n (planHeralds (planKinds true src (labelCnots true src))) oneQ src (labelCnots true src) 0 =
        some cgs ∧
      gateTable (PM.C02.circuitMatrix ((convSteps r h c2 s2 cgs).map (·.U)))
          (convLayout n (planHeralds (planKinds true src (labelCnots true src)))) ps =
        (((convSteps r h c2 s2 cgs).map (·.c)).prod) • (convSteps r h c2 s2 cgs).foldl (fun M g => g.G * M) 1 := by
  have hsome := conversion_succeeds_on_valid_sequences (R := R) n oneQ src (labelCnots true src)
    (gateOk_labelCnots n src hsrc)
  obtain ⟨cgs, hcgs⟩ := Option.isSome_iff_exists.1 hsome
  refine ⟨cgs, hcgs, ?_⟩
  exact converted_processor_implements n _ (planHeralds_le_one _) oneQ ps hps r h c2 s2 hr hh hc hs hcs src
    (fun g hg => srcOk_qubits (hsrc g hg)) (fun g hg hcn h2 => srcOk_name (hsrc g hg) hcn h2) cgs hcgs

-- non-vacuity of `converted_source_circuit_implements`: a valid source sequence (the post-selection `PS.tt` accepts
-- everything; the five relations are satisfiable over ℝ by `heralded_cz_params_exist`)
example : ∀ g ∈ ([⟨"h", [0]⟩, ⟨"cx", [0, 1]⟩, ⟨"CZ", [1, 2]⟩, ⟨"swap", [2, 0]⟩] : List Gate), SrcOk 3 g := by
  intro g hg
  simp only [List.mem_cons, List.not_mem_nil, or_false] at hg
  rcases hg with rfl | rfl | rfl | rfl
  · exact Or.inl ⟨0, rfl, by decide⟩
  · exact Or.inr ⟨0, 1, rfl, by decide, by decide, by decide, Or.inl (by decide +kernel)⟩
  · exact Or.inr ⟨1, 2, rfl, by decide, by decide, by decide, Or.inr (Or.inl (by decide +kernel))⟩
  · exact Or.inr ⟨2, 0, rfl, by decide, by decide, by decide, Or.inr (Or.inr (Or.inr (by decide +kernel)))⟩

/-- **the post-selection a converted processor carries accepts every logical state**: it is a conjunction of
conditions `[p, p+1] == 1` on qubit pairs (those of the post-processed CNOTs, moved with the photons by later
SWAPs), and a logical state has exactly one photon on every qubit pair — so the hypothesis `hps` of the theorems
above holds for it -/
theorem converter_postselection_accepts_logical (L : Layout) (hok : L.ok = true) (pairs : List ℕ)
    (hp : ∀ p ∈ pairs, p ∈ L.qubits) (b : List Bool) (hb : b.length = L.qubits.length) :
    (pairPS pairs).eval (encode L b) = true :=
  pairPS_accepts_logical L hok pairs hp b hb

/-- the end-to-end statement with the converter's own post-selection: for every valid source sequence and every
list of qubits whose pairs carry a post-selection condition -/
theorem converted_source_circuit_implements_own_postselection [Field R] [CharZero R] (n : ℕ)
    (oneQ : Gate → Matrix (Fin 2) (Fin 2) R) (src : List Gate) (hsrc : ∀ g ∈ src, SrcOk n g)
    (qs : List ℕ) (hqs : ∀ q ∈ qs, q < n)
    (r h c2 s2 : R) (hr : 3 * r * r = 1) (hh : 2 * h * h = 1) (hc : 6 * c2 * c2 = 3 + 6 * h * r)
    (hs : 6 * s2 * s2 = 3 - 6 * h * r) (hcs : 2 * c2 * s2 = r) :
    ∃ cgs, convGatesM n (planHeralds (planKinds true src (labelCnots true src))) oneQ src (labelCnots true src) 0 =
        some cgs ∧
      gateTable (PM.C02.circuitMatrix ((convSteps r h c2 s2 cgs).map (·.U)))
          (convLayout n (planHeralds (planKinds true src (labelCnots true src)))) (pairPS (qs.map (2 * ·))) =
        (((convSteps r h c2 s2 cgs).map (·.c)).prod) • (convSteps r h c2 s2 cgs).foldl (fun M g => g.G * M) 1 := by
  apply converted_source_circuit_implements n oneQ _ src hsrc _ r h c2 s2 hr hh hc hs hcs
  intro b hb
  apply pairPS_accepts_logical _ (convLayout_ok n _) _ _ b hb
  intro p hp
  obtain ⟨q, hq, rfl⟩ := List.mem_map.1 hp
  simp only [convLayout, List.mem_map, List.mem_range]
  exact ⟨q, hqs q hq, rfl⟩

/-- everything about a converted source circuit in one statement: the conversion goes through, the placed gates sit
on the modes the driver reports (`planModes`, compared with the real processor on every converted circuit), their
shape passes the cut check, no herald mode is shared, and the logical table is the scaled product of the gates -/
theorem converted_source_circuit_summary [Field R] [CharZero R] (n : ℕ)
    (oneQ : Gate → Matrix (Fin 2) (Fin 2) R) (src : List Gate) (hsrc : ∀ g ∈ src, SrcOk n g)
    (qs : List ℕ) (hqs : ∀ q ∈ qs, q < n)
    (r h c2 s2 : R) (hr : 3 * r * r = 1) (hh : 2 * h * h = 1) (hc : 6 * c2 * c2 = 3 + 6 * h * r)
    (hs : 6 * s2 * s2 = 3 - 6 * h * r) (hcs : 2 * c2 * s2 = r) :
    let hv := planHeralds (planKinds true src (labelCnots true src))
    ∃ cgs, convGatesM n hv oneQ src (labelCnots true src) 0 = some cgs ∧
      (convSteps r h c2 s2 cgs).map (·.S) = planModes n src (planKinds true src (labelCnots true src)) 0 ∧
      cutCheck ((convSteps r h c2 s2 cgs).map fun s => (s.Q, s.leaky)) = true ∧
      (convSteps r h c2 s2 cgs).Pairwise
        (fun g g' => ∀ hd ∈ (convLayout n hv).heralds, hd.1 ∉ g.S ∨ hd.1 ∉ g'.S) ∧
      gateTable (PM.C02.circuitMatrix ((convSteps r h c2 s2 cgs).map (·.U))) (convLayout n hv)
          (pairPS (qs.map (2 * ·))) =
        (((convSteps r h c2 s2 cgs).map (·.c)).prod) • (convSteps r h c2 s2 cgs).foldl (fun M g => g.G * M) 1 := by
  intro hv
  obtain ⟨cgs, hcgs, htab⟩ := converted_source_circuit_implements_own_postselection n oneQ src hsrc qs hqs
    r h c2 s2 hr hh hc hs hcs
  refine ⟨cgs, hcgs, converted_gates_sit_on_plan_modes n hv oneQ r h c2 s2 src _ 0 cgs hcgs, ?_,
    convGatesM_pairwise n hv oneQ r h c2 s2 src _ 0 cgs hcgs, htab⟩
  rw [convGatesM_shape n hv oneQ r h c2 s2 src _ 0 cgs hcgs]
  exact label_cutCheck src (fun g hg => srcOk_qubits (hsrc g hg)) (fun g hg hcn h2 => srcOk_name (hsrc g hg) hcn h2)

/-! ## (11) round 8 — the post-selection the converter builds, and its default input state

`_create_2_qubit_gates_from_catalog` saves and clears the processor's post-selection before every two-qubit gate and
re-applies it afterwards: merged with what a post-processed CNOT brought (`PostSelect.merge`), moved by
`apply_permutation` for a SWAP.  `planPS` (Model/C20Post.lean) is that bookkeeping; the harness compares it with the
conditions of every converted processor.  Until this round the end-to-end theorem quantified over an arbitrary list
`qs` of conditioned qubits; now it is stated for the post-selection the converter actually computes. -/

/-- `PostSelect.merge` as used by the converter is a conjunction: a condition holds in the merged post-selection iff
it was saved or it came with the gate -/
theorem merge_is_conjunction (c : Cond) (cur new : List Cond) :
    c ∈ mergeConds cur new ↔ c ∈ cur ∨ c ∈ new := mem_mergeConds c new cur

/-- … and never repeats a condition -/
theorem merge_never_repeats (cur new : List Cond) (h : cur.Nodup) : (mergeConds cur new).Nodup :=
  mergeConds_nodup new cur h

/-- **which conditions a converted processor carries**: exactly the two conditions of every post-processed CNOT,
each moved by the SWAPs that FOLLOW that CNOT (repaired converter), whatever the order of merging and whatever the
other gates are -/
theorem converted_postselection_conditions (c : Cond) (gs : List Gate) (ks : List String) :
    c ∈ planPS true gs ks [] ↔ c ∈ ppTracked gs ks := by
  rw [mem_planPS c gs ks []]
  simp only [List.not_mem_nil, false_and, exists_false, false_or]

/-- a condition saved before a gate is, after it, the condition on the modes its photons were moved to: for a SWAP
of the qubits `a`, `b` the condition of qubit `q` becomes that of `swapQ a b q` -/
theorem condition_moves_with_swapped_qubit (a b q : ℕ) (g : Gate) (hq : g.qubits = [a, b]) :
    moveStep g "PERM" (pairOf q) = pairOf (swapQ a b q) := trackC_pairOf_swap a b q g hq

/-- every condition of a converted processor counts the photons on the two rails of ONE qubit of the processor -/
theorem converted_postselection_on_qubit_pairs (n : ℕ) (src : List Gate) (hsrc : ∀ g ∈ src, SrcOk n g)
    (ks : List String) : ∀ c ∈ planPS true src ks [], ∃ q, q < n ∧ c = [2 * q, 2 * q + 1] :=
  planPS_isPair src ks (fun g hg => srcOk_inRange (hsrc g hg))

-- non-vacuity / regression: `h(1); cx(1,2); swap(2,3); swap(0,1)` on four qubits — the conditions of the CNOT end
-- on qubits 0 and 3 for the repaired converter, and stayed on qubits 1 and 2 for the pinned one (defect (c))
example : planPS true [⟨"h", [1]⟩, ⟨"cx", [1, 2]⟩, ⟨"swap", [2, 3]⟩, ⟨"swap", [0, 1]⟩]
    ["1q", "PostProcessed CNOT", "PERM", "PERM"] [] = [[0, 1], [6, 7]] := by decide
example : planPS false [⟨"h", [1]⟩, ⟨"cx", [1, 2]⟩, ⟨"swap", [2, 3]⟩, ⟨"swap", [0, 1]⟩]
    ["1q", "PostProcessed CNOT", "PERM", "PERM"] [] = [[2, 3], [4, 5]] := by decide
-- two post-processed CNOTs sharing a qubit: the shared condition appears once
example : planPS true [⟨"cx", [0, 1]⟩, ⟨"cx", [2, 1]⟩] ["PostProcessed CNOT", "PostProcessed CNOT"] [] =
    [[0, 1], [2, 3], [4, 5]] := by decide

/-- **the end-to-end statement with the post-selection the converter computes** (no list of conditioned qubits is
quantified over any more): for every qubit count and every source sequence the converter can handle, with the
labels, herald values AND post-selection conditions the converter computes, the conversion goes through and the
placed circuit has the logical table `(∏ scalars) • (Gₙ ⋯ G₁)` -/
theorem converted_source_circuit_implements_planned_postselection [Field R] [CharZero R] (n : ℕ)
    (oneQ : Gate → Matrix (Fin 2) (Fin 2) R) (src : List Gate) (hsrc : ∀ g ∈ src, SrcOk n g)
    (r h c2 s2 : R) (hr : 3 * r * r = 1) (hh : 2 * h * h = 1) (hc : 6 * c2 * c2 = 3 + 6 * h * r)
    (hs : 6 * s2 * s2 = 3 - 6 * h * r) (hcs : 2 * c2 * s2 = r) :
    ∃ cgs, convGatesM n (planHeralds (planKinds true src (labelCnots true src))) oneQ src (labelCnots true src) 0 =
        some cgs ∧
      gateTable (PM.C02.circuitMatrix ((convSteps r h c2 s2 cgs).map (·.U)))
          (convLayout n (planHeralds (planKinds true src (labelCnots true src))))
          (condsPS (planPS true src (planKinds true src (labelCnots true src)) [])) =
        (((convSteps r h c2 s2 cgs).map (·.c)).prod) • (convSteps r h c2 s2 cgs).foldl (fun M g => g.G * M) 1 := by
  have hpair := planPS_isPair (n := n) src (planKinds true src (labelCnots true src))
    (fun g hg => srcOk_inRange (hsrc g hg))
  apply converted_source_circuit_implements n oneQ _ src hsrc _ r h c2 s2 hr hh hc hs hcs
  intro b hb
  rw [condsPS_pairs _ (fun c hc => let ⟨q, _, e⟩ := hpair c hc; ⟨q, e⟩)]
  apply pairPS_accepts_logical _ (convLayout_ok n _) _ _ b hb
  intro p hp
  obtain ⟨c, hc, rfl⟩ := List.mem_map.1 hp
  obtain ⟨q, hq, rfl⟩ := hpair c hc
  simp only [convLayout, List.mem_map, List.mem_range]
  exact ⟨q, hq, rfl⟩


/-- **the default input of a converted processor is the logical state `|0…0⟩`**: `_input_list` of
`_configure_processor` (`[0] * 2n` with a `1` written at every even position) followed by the herald values is the
encoding of the all-zero bit string on the converter's layout — for every qubit count and every list of herald
values.  (The harness compares `inputState` with `input_state` of every converted processor.) -/
theorem default_input_is_logical_zero (n : ℕ) (hv : List ℕ) :
    inputState n hv = encode (convLayout n hv) (List.replicate n false) := inputState_eq_encode_zero n hv

example : inputState 2 [1, 1, 0, 0] = [1, 0, 1, 0, 1, 1, 0, 0] := by decide

end PM.C20
