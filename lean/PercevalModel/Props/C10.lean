/-
  C10 — property theorems (model: `Model/C10.lean`, repaired behaviour = all fix flags `true`).
  All statements are for every mapping / every size; nothing is bounded.
-/
import PercevalModel.Lemmas.C10
import PercevalModel.Lemmas.C10More
import PercevalModel.Lemmas.C10Ext
import PercevalModel.Lemmas.C10Hist
import PercevalModel.Lemmas.C10HistR
import PercevalModel.Lemmas.C10Wave7
import PercevalModel.Model.C10Verdict
import PercevalModel.Num.GQ

open Matrix

namespace PM.C10

/-! ## accept / reject decision of `_check_consistency` -/

/-- A resolved mapping (a dictionary, so its keys are distinct by construction) is accepted iff it has
the right size, every left mode it names is connectible (photonic, inside the circuit — this
subsumes "not negative") and the right-hand modes are pairwise distinct. -/
theorem resolve_ok_iff (cs : Nat) (conn : List Bool) (n : Nat) (d : Dict) (hd : d ≠ []) :
    checkConsistency cs conn n d = .ok () ↔
      d.length = n ∧ (∀ p ∈ d, connectible cs conn p.1 = true) ∧ d.vals.Nodup := by
  rw [checkConsistency_eq cs conn n d hd]
  by_cases h1 : d.length = n
  · rw [if_neg (not_not.2 h1)]
    by_cases h2 : ∃ p ∈ d, connectible cs conn p.1 = false
    · rw [if_pos h2]
      constructor
      · intro h; cases h
      · rintro ⟨_, hall, _⟩
        obtain ⟨p, hp, hc⟩ := h2
        rw [hall p hp] at hc; cases hc
    · rw [if_neg h2]
      have hall : ∀ p ∈ d, connectible cs conn p.1 = true := by
        intro p hp
        by_contra hc
        exact h2 ⟨p, hp, by simpa using hc⟩
      by_cases h3 : d.vals.Nodup
      · rw [if_neg (not_not.2 h3)]
        exact ⟨fun _ => ⟨h1, hall, h3⟩, fun _ => rfl⟩
      · rw [if_pos h3]
        constructor
        · intro h; cases h
        · rintro ⟨_, _, h⟩; exact absurd h h3
  · rw [if_pos h1]
    constructor
    · intro h; cases h
    · rintro ⟨h, _⟩; exact absurd h h1

/-- the error class when the mapping is refused: `UnavailableModeException` exactly when the size
is right but some named left mode is not connectible … -/
theorem resolve_unavailable_iff (cs : Nat) (conn : List Bool) (n : Nat) (d : Dict) (hd : d ≠ []) :
    checkConsistency cs conn n d = .error .unavailable ↔
      d.length = n ∧ ∃ p ∈ d, connectible cs conn p.1 = false := by
  rw [checkConsistency_eq cs conn n d hd]
  by_cases h1 : d.length = n
  · by_cases h2 : ∃ p ∈ d, connectible cs conn p.1 = false
    · simp only [h1, h2, ne_eq, not_true_eq_false, if_false, if_true, and_self]
    · by_cases h3 : d.vals.Nodup
      · simp only [h1, h2, h3, ne_eq, not_true_eq_false, if_false, and_false, reduceCtorEq]
      · simp only [h1, h2, h3, ne_eq, not_true_eq_false, if_false, not_false_eq_true, if_true,
          and_false, reduceCtorEq, Except.error.injEq]
  · simp [h1]

/-- … and `InvalidMappingException` exactly when the size is wrong, or every mode is available but two
left modes are sent to the same right-hand mode. -/
theorem resolve_invalid_iff (cs : Nat) (conn : List Bool) (n : Nat) (d : Dict) (hd : d ≠ []) :
    checkConsistency cs conn n d = .error .invalid ↔
      d.length ≠ n ∨ (d.length = n ∧ (¬ ∃ p ∈ d, connectible cs conn p.1 = false) ∧ ¬ d.vals.Nodup) := by
  rw [checkConsistency_eq cs conn n d hd]
  by_cases h1 : d.length = n
  · by_cases h2 : ∃ p ∈ d, connectible cs conn p.1 = false
    · simp only [h1, h2, ne_eq, not_true_eq_false, if_false, if_true, false_or, true_and,
        false_and, reduceCtorEq, Except.error.injEq]
    · by_cases h3 : d.vals.Nodup
      · simp only [h1, h2, h3, ne_eq, not_true_eq_false, if_false, false_or, true_and,
          not_false_eq_true, and_false, reduceCtorEq]
      · simp only [h1, h2, h3, ne_eq, not_true_eq_false, if_false, not_false_eq_true, if_true,
          false_or, and_self]
  · simp [h1]

/-! ## the generated permutation -/

/-- `generate_permutation` builds a permutation of `0 … L-1` (`L = max − min + 1` modes) whenever the
left modes are distinct and the right-hand modes are `0 … n-1` in some order.  (With the heralded
modes of the added processor appended the hypothesis is the same for the extended mapping.) -/
theorem genPerm_isPerm (mp : NMap) (hne : mp ≠ []) (hk : mp.keys.Nodup) (hv : mp.vals.Nodup)
    (hb : ∀ v ∈ mp.vals, v < mp.length) :
    IsPermList (permVect mp).length (permVect mp) := by
  have hperm := permVect_perm_vals mp hk
  have hlen : (permVect mp).length = mp.length + (missingModes mp).length := by
    rw [hperm.length_eq]
    simp [NMap.vals, filled, fill_length]
  refine ⟨rfl, hperm.nodup_iff.2 (fill_vals_nodup mp _ hv), ?_⟩
  intro x hx
  have hpos : 0 < mp.length := by
    cases mp with
    | nil => exact absurd rfl hne
    | cons a l => simp
  have := fill_vals_lt mp (missingModes mp) mp.length hpos hb x (hperm.subset hx)
  omega

/-- the PERM occupies `max − min + 1` modes starting at the smallest mapped mode -/
theorem genPerm_length (mp : NMap) (hk : mp.keys.Nodup) :
    (permVect mp).length = maxN mp.keys + 1 - minN mp.keys := by
  simp [permVect, filled_length mp hk]

/-- wiring: for every pair `k ↦ v` of the mapping, the PERM sends its input `k − min` (left mode `k`)
to its output `v` (where input `v` of the added object sits). -/
theorem genPerm_wires (mp : NMap) (hk : mp.keys.Nodup) {k v : Nat} (h : (k, v) ∈ mp) :
    (permVect mp)[k - minN mp.keys]? = some v := by
  have hkm : k ∈ mp.keys := List.mem_map.2 ⟨(k, v), h, rfl⟩
  have h1 := minN_le hkm
  have h2 := le_maxN hkm
  have hL := filled_length mp hk
  unfold permVect
  rw [List.getElem?_map, List.getElem?_range' (by omega)]
  simp only [Option.map_some, lookupD]
  have : minN mp.keys + 1 * (k - minN mp.keys) = k := by omega
  rw [this, filled, fill_lookup _ _ hkm, lookup_of_mem hk h]
  rfl

/-- `PERM.__init__`'s assertion only lets permutations through -/
theorem permValid_isPerm (v : List Nat) (h : permValid v = true) : IsPermList v.length v := by
  simp only [permValid, Bool.and_eq_true, decide_eq_true_eq, beq_iff_eq] at h
  obtain ⟨⟨⟨_, _⟩, hmax⟩, hnd⟩ := h
  refine ⟨rfl, hnd, fun x hx => ?_⟩
  have := le_maxN hx
  omega

/-- whatever `generate_permutation` returns is a permutation (for any mapping, legal or not) -/
theorem genPerm_sound (mp : NMap) (σ : List Nat) (h : genPerm mp = .ok (some σ)) :
    IsPermList σ.length σ := by
  simp only [genPerm] at h
  split_ifs at h with h1 h2
  · cases h
  · cases h; exact permValid_isPerm _ h2

/-! ## what the appended components do (with `Found/LinAlg`, `Found/Perm`) -/

variable {R : Type} [CommRing R] [StarRing R]

/-- added **processor**, PERM needed: the matrix after the `add` is
`embed (P⁻¹ · embed C · P) · left` with `P` the generated permutation on modes `first …`. -/
theorem compose_matrix (N first k : ℕ) (σ : List ℕ) (hσ : IsPermList σ.length σ)
    (hk : k ≤ σ.length) (hN : first + σ.length ≤ N)
    (C : Matrix (Fin k) (Fin k) R) (left : Matrix (Fin N) (Fin N) R) :
    composeMat N first k (some σ) true C left =
      embed N first ((permMatF (permFn σ.length σ))ᴴ * embed σ.length 0 C
        * permMatF (permFn σ.length σ)) * left := by
  have e : embed N first C = embed N first (embed σ.length 0 C) := by
    rw [embed_embed hN (by omega)]; rfl
  simp only [composeMat, composeMatV, MatV.toMatrix_ofMatrix, permAt, permInvAt, ↓reduceIte]
  rw [permMatL_eq_permMatF hσ, e, ← Matrix.mul_assoc, ← Matrix.mul_assoc, embed_mul hN,
    embed_mul hN]

/-- added bare **component**, PERM needed: `embed (embed C · P) · left` (no inverse permutation) -/
theorem compose_matrix_component (N first k : ℕ) (σ : List ℕ) (hσ : IsPermList σ.length σ)
    (hk : k ≤ σ.length) (hN : first + σ.length ≤ N)
    (C : Matrix (Fin k) (Fin k) R) (left : Matrix (Fin N) (Fin N) R) :
    composeMat N first k (some σ) false C left =
      embed N first (embed σ.length 0 C * permMatF (permFn σ.length σ)) * left := by
  have e : embed N first C = embed N first (embed σ.length 0 C) := by
    rw [embed_embed hN (by omega)]; rfl
  simp only [composeMat, composeMatV, MatV.toMatrix_ofMatrix, permAt, Bool.false_eq_true,
    ↓reduceIte]
  rw [permMatL_eq_permMatF hσ, e, ← Matrix.mul_assoc, embed_mul hN]

/-- no PERM needed (the mapping is consecutive and increasing): the object is simply embedded -/
theorem compose_matrix_noperm (N first k : ℕ) (b : Bool)
    (C : Matrix (Fin k) (Fin k) R) (left : Matrix (Fin N) (Fin N) R) :
    composeMat N first k none b C left = embed N first C * left := by
  cases b <;> simp [composeMat, composeMatV, permAt, permInvAt]

theorem permFn_val {L : ℕ} (σ : List ℕ) (a : Fin L) (v : ℕ) (h : σ[a.val]? = some v) (hv : v < L) :
    (permFn L σ a).val = v := by
  have e : σ.getD a.val L = v := by rw [List.getD_eq_getElem?_getD, h]; rfl
  unfold permFn
  rw [dif_pos (by rw [e]; exact hv)]
  exact e

/-- **processor wiring**: if the PERM sends position `a` to input `va` of the added processor and position `b`
to input `vb`, the appended block has entry `C va vb` at `(a, b)`: light leaving left mode `first+b`
enters input `vb`, and what the processor puts on its output `va` returns on mode `first+a`. -/
theorem wiring_processor {L k : ℕ} (σ : List ℕ)
    (C : Matrix (Fin k) (Fin k) R) (a b : Fin L) (va vb : Fin k)
    (ha : σ[a.val]? = some va.val) (hb : σ[b.val]? = some vb.val) (hk : k ≤ L) :
    ((permMatF (permFn L σ))ᴴ * embed L 0 C * permMatF (permFn L σ) :
      Matrix (Fin L) (Fin L) R) a b = C va vb := by
  rw [mul_permMatF_apply, permMatF_conjTranspose_mul_apply]
  have fa : (permFn L σ a).val = va.val := permFn_val σ a _ ha (lt_of_lt_of_le va.isLt hk)
  have fb : (permFn L σ b).val = vb.val := permFn_val σ b _ hb (lt_of_lt_of_le vb.isLt hk)
  rw [embed_apply_in C _ _ (by rw [fa]; exact va.isLt) (by rw [fb]; exact vb.isLt)]
  congr 1 <;> exact Fin.ext (by assumption)

/-- **component wiring**: light leaving position `b` (sent by the PERM to input `vb`) enters column `vb` of the
component, which sits on rows `0 … k-1` of the block. -/
theorem wiring_component {L k : ℕ} (σ : List ℕ)
    (C : Matrix (Fin k) (Fin k) R) (a b : Fin L) (vb : Fin k) (ha : a.val < k)
    (hb : σ[b.val]? = some vb.val) (hk : k ≤ L) :
    (embed L 0 C * permMatF (permFn L σ) : Matrix (Fin L) (Fin L) R) a b = C ⟨a.val, ha⟩ vb := by
  rw [mul_permMatF_apply]
  have fb : (permFn L σ b).val = vb.val := permFn_val σ b _ hb (lt_of_lt_of_le vb.isLt hk)
  rw [embed_apply_in C _ _ ha (by rw [fb]; exact vb.isLt)]
  congr 1; exact Fin.ext fb

/-- modes outside `[first, first+L)` are untouched by whatever block is appended -/
theorem untouched_outside {N first L : ℕ} (B : Matrix (Fin L) (Fin L) R) (i j : Fin N)
    (hi : i.val < first ∨ first + L ≤ i.val) : embed N first B i j = if i = j then 1 else 0 :=
  embed_apply_out_row B i j hi

/-! ## heralded modes of the added processor -/

/-- `add_heralded_modes`: the i-th herald position (in the order of the added processor's `heralds`)
is wired to the new mode `circuit_size + i`; the user's pairs are kept. -/
theorem heralds_appended_partial (cs : Nat) (mp : NMap) (hpos : List Nat) :
    (addHeraldedModes cs mp hpos).length = mp.length + hpos.length ∧
    (∀ p ∈ mp, p ∈ addHeraldedModes cs mp hpos) ∧
    (∀ i (hi : i < hpos.length), (cs + i, hpos[i]) ∈ addHeraldedModes cs mp hpos) ∧
    (addHeraldedModes cs mp hpos).keys = mp.keys ++ (List.range hpos.length).map (cs + ·) := by
  refine ⟨by simp [addHeraldedModes], fun p hp => by simp [addHeraldedModes, hp], ?_, ?_⟩
  · intro i hi
    simp only [addHeraldedModes, List.mem_append]
    right
    rw [List.mem_iff_getElem]
    refine ⟨i, by simpa using hi, by simp⟩
  · simp only [addHeraldedModes, keys_append]
    congr 1
    simp only [NMap.keys]
    apply List.ext_getElem
    · simp
    · intro i h1 h2
      simp
/- The full statement — after `compose … = .ok res` for a processor, `res.heralds = l.heralds ++
   [(l.cs + i, expectedᵢ)]`, `res.dets = l.dets ++ [r.dets[posᵢ]]`, `res.cs = l.cs + #heralds`, through the
   monadic `compose` and the port loop `transferOut` — is `heralds_appended` below. -/

/-! ## availability of the modes after a composition (history of a long-lived processor)

`_check_consistency` of the *next* `add` reads the mode types the previous `add` left behind.  The modes
appended for the heralds of an added processor must be reserved exactly like heralds declared with
`add_herald`, and the availability of the old modes must not depend on what was plugged before. -/

/-- whatever `Processor.add` accepts, the circuit size and the mode availability it leaves behind are
`csAfter` / `connAfter` (for every mapping, every flag setting) -/
theorem compose_conn (f1 : RFlags) (f2 f3 : Bool) (l r : Side) (raw : RawMap) (keep : Bool) (res : Result)
    (h : compose f1 f2 f3 l r raw keep = .ok res) :
    res.cs = csAfter l r ∧ res.conn = connAfter l r := by
  unfold compose at h
  simp only [bind, Except.bind, pure, Except.pure, throw, throwThe, MonadExceptOf.throw] at h
  repeat' split at h
  all_goals first
    | (cases h; done)
    | (cases h; exact ⟨rfl, rfl⟩)

/-- every mode imported for a herald of an added processor (`k ≥` old circuit size) is not connectible -/
theorem imported_heralds_reserved (l r : Side) (hl : l.conn.length = l.cs) (hr : r.comp = false)
    (k : Int) (hk : (l.cs : Int) ≤ k) :
    connectible (csAfter l r) (connAfter l r) k = false := by
  unfold connectible
  have h0 : ¬ k < 0 := by omega
  rw [if_neg h0]
  split_ifs with h1
  · rfl
  · have hk' : l.conn.length ≤ k.toNat := by omega
    simp only [connAfter, hr, Bool.false_eq_true, if_false]
    rw [List.getD_eq_getElem?_getD, List.getElem?_append_right hk']
    cases h : (List.replicate r.heralds.length false)[k.toNat - l.conn.length]? with
    | none => rfl
    | some b =>
      have := List.mem_of_getElem? h
      simp only [List.mem_replicate] at this
      simp [this.2]

/-- … and the availability of the old modes is what it was, whatever was plugged -/
theorem old_modes_keep_availability (l r : Side) (hl : l.conn.length = l.cs) (k : Int)
    (hk : k < (l.cs : Int)) :
    connectible (csAfter l r) (connAfter l r) k = connectible l.cs l.conn k := by
  unfold connectible
  by_cases h0 : k < 0
  · simp [h0]
  · have h1 : ¬ k ≥ (l.cs : Int) := by omega
    have h2 : ¬ k ≥ ((csAfter l r : Nat) : Int) := by
      unfold csAfter; split_ifs <;> push_cast <;> omega
    rw [if_neg h0, if_neg h0, if_neg h1, if_neg h2]
    unfold connAfter
    split_ifs
    · rfl
    · have : k.toNat < l.conn.length := by omega
      rw [List.getD_eq_getElem?_getD, List.getD_eq_getElem?_getD, List.getElem?_append_left this]

/-- a later mapping that names an imported herald mode is refused: never accepted, and with
`UnavailableModeException` whenever its size is right -/
theorem mapping_onto_imported_herald_rejected (l r : Side) (hl : l.conn.length = l.cs)
    (hr : r.comp = false) (n : Nat) (d : Dict) (p : Int × Int) (hp : p ∈ d) (hk : (l.cs : Int) ≤ p.1) :
    checkConsistency (csAfter l r) (connAfter l r) n d ≠ .ok () ∧
    (d.length = n → checkConsistency (csAfter l r) (connAfter l r) n d = .error .unavailable) := by
  have hd : d ≠ [] := List.ne_nil_of_mem hp
  have hc := imported_heralds_reserved l r hl hr p.1 hk
  constructor
  · intro h
    have := ((resolve_ok_iff _ _ n d hd).1 h).2.1 p hp
    rw [hc] at this; cases this
  · intro hn
    exact (resolve_unavailable_iff _ _ n d hd).2 ⟨hn, p, hp, hc⟩

/-- `resolve` (int, list, dict / port-name mappings alike) only returns mappings whose left modes are all
connectible -/
theorem resolve_keys_connectible (fixed : RFlags) (l r : Side) (raw : RawMap) (d : Dict)
    (h : resolve fixed l r raw = .ok d) : ∀ p ∈ d, connectible l.cs l.conn p.1 = true := by
  have key : ∀ d' : Dict, checkConsistency l.cs l.conn r.m d' = .ok () →
      ∀ p ∈ d', connectible l.cs l.conn p.1 = true := by
    intro d' hc p hp
    exact ((resolve_ok_iff _ _ _ d' (List.ne_nil_of_mem hp)).1 hc).2.1 p hp
  unfold resolve at h
  cases raw with
  | ofInt b =>
    simp only [bind, Except.bind, pure, Except.pure] at h
    split at h
    · cases h
    · rename_i u hc
      cases h
      cases u
      exact key _ hc
  | ofList ks =>
    simp only [bind, Except.bind, pure, Except.pure, throw, throwThe, MonadExceptOf.throw] at h
    repeat' split at h
    all_goals first
      | (cases h; done)
      | (rename_i u hc; cases h; cases u; exact key _ hc)
  | ofDict items =>
    simp only [bind, Except.bind, pure, Except.pure, throw, throwThe, MonadExceptOf.throw] at h
    repeat' split at h
    all_goals first
      | (cases h; done)
      | (rename_i u hc; cases h; cases u; exact key _ hc)

/-- **two successive adds**: after a processor was plugged (by any mapping), no mapping the next `add`
accepts — offset, list, dictionary or port names, for any object — touches a mode imported for its
heralds; the next `add` sees exactly the old modes, with their old availability. -/
theorem second_add_avoids_imported_heralds (f1 fixed : RFlags) (f2 f3 : Bool) (l r : Side) (raw : RawMap)
    (keep : Bool) (res : Result) (hl : l.conn.length = l.cs) (hr : r.comp = false)
    (h : compose f1 f2 f3 l r raw keep = .ok res)
    (l' r' : Side) (hcs : l'.cs = res.cs) (hconn : l'.conn = res.conn) (raw' : RawMap) (d : Dict)
    (h' : resolve fixed l' r' raw' = .ok d) :
    ∀ p ∈ d, p.1 < (l.cs : Int) ∧ connectible l.cs l.conn p.1 = true := by
  intro p hp
  obtain ⟨e1, e2⟩ := compose_conn f1 f2 f3 l r raw keep res h
  have hc := resolve_keys_connectible fixed l' r' raw' d h' p hp
  rw [hcs, hconn, e1, e2] at hc
  have hlt : p.1 < (l.cs : Int) := by
    by_contra hge
    rw [imported_heralds_reserved l r hl hr p.1 (by omega)] at hc
    cases hc
  exact ⟨hlt, by rw [← old_modes_keep_availability l r hl p.1 hlt]; exact hc⟩

/-! ## post-selection carried over -/

theorem eval_mapModes (f : Nat → Nat) (ps : PS) (s : Nat → Nat) :
    (ps.mapModes f).eval s = ps.eval (s ∘ f) := by
  induction ps with
  | cond ms op v => simp [PS.mapModes, PS.eval, List.map_map]
  | and a b iha ihb => simp [PS.mapModes, PS.eval, iha, ihb]
  | or a b iha ihb => simp [PS.mapModes, PS.eval, iha, ihb]
  | xor a b iha ihb => simp [PS.mapModes, PS.eval, iha, ihb]
  | not a iha => simp [PS.mapModes, PS.eval, iha]

/-- The carried-over condition evaluated on a state of the composed processor equals the original
condition evaluated on the state read back through `v ↦ first + τ(v)` … -/
theorem postselect_renamed (τ : List Nat) (first : Nat) (ps : PS) (s : Nat → Nat) :
    (renamePS true (some τ) first ps).eval s =
      ps.eval (fun v => s (applyPermFn τ 0 v + first)) := by
  simp only [renamePS, if_true, eval_mapModes]
  rfl

theorem postselect_renamed_noperm (first : Nat) (ps : PS) (s : Nat → Nat) :
    (renamePS true none first ps).eval s = ps.eval (fun v => s (v + first)) := by
  simp only [renamePS, eval_mapModes]
  rfl

/-- … and `first + τ(v)` is exactly the left mode `k` the mapping attached to right-hand mode `v`
(`τ` = inverse of the generated permutation): the condition is re-expressed in the new numbering. -/
theorem postselect_renamed_mode (mp : NMap) (hne : mp ≠ []) (hk : mp.keys.Nodup)
    (hv : mp.vals.Nodup) (hb : ∀ v ∈ mp.vals, v < mp.length) {k v : Nat} (h : (k, v) ∈ mp) :
    applyPermFn (invPerm (permVect mp)) 0 v + minN mp.keys = k := by
  have hσ := genPerm_isPerm mp hne hk hv hb
  have hw := genPerm_wires mp hk h
  have hvlt : v < (permVect mp).length := by
    have hmem : v ∈ permVect mp := List.mem_of_getElem? hw
    exact hσ.2.2 v hmem
  have hinv := invPerm_getD hσ.2.1 hvlt hw
  have hkm : k ∈ mp.keys := List.mem_map.2 ⟨(k, v), h, rfl⟩
  have h1 := minN_le hkm
  have hlen : (invPerm (permVect mp)).length = (permVect mp).length := by simp [invPerm]
  unfold applyPermFn
  rw [if_pos ⟨Nat.zero_le _, by rw [hlen]; omega⟩]
  simp only [Nat.sub_zero, Nat.zero_add]
  rw [hinv]
  omega

/-- The code as found (`fixPS = false`: permute at offset `first`, then shift) breaks this as soon as the
first impacted mode is not 0: right-hand mode 0 attached to left mode 2 through `[2, 1]`. -/
theorem postselect_renamed_fails_on_current_code :
    ¬ ∀ (τ : List Nat) (first : Nat) (ps : PS) (s : Nat → Nat),
        (renamePS false (some τ) first ps).eval s =
          ps.eval (fun v => s (applyPermFn τ 0 v + first)) := by
  intro h
  have := h [1, 0] 1 (.cond [0] .eq 1) (fun m => if m = 2 then 1 else 0)
  revert this
  decide

/-! ## non-vacuity -/

/-- the mapping `[2, 0]` (left modes 2 and 0 onto inputs 0 and 1): PERM `[1, 2, 0]` on modes 0..2 -/
example : permVect [(2, 0), (0, 1)] = [1, 2, 0] ∧ genPerm [(2, 0), (0, 1)] = .ok (some [1, 2, 0]) ∧
    invPerm [1, 2, 0] = [2, 0, 1] := by decide

example : ([(2, 0), (0, 1)] : NMap) ≠ [] ∧ (NMap.keys [(2, 0), (0, 1)]).Nodup := by decide

/-- a herald of the added processor at position 1, left circuit of 3 modes: new mode 3 ↦ 1 -/
example : addHeraldedModes 3 [(1, 0), (0, 2)] [1] = [(1, 0), (0, 2), (3, 1)] ∧
    permVect [(1, 0), (0, 2), (3, 1)] = [2, 0, 3, 1] := by decide

example : checkConsistency 4 [true, true, false, true] 2 [(0, 0), (3, 1)] = .ok () ∧
    checkConsistency 4 [true, true, false, true] 2 [(0, 0), (2, 1)] = .error .unavailable ∧
    checkConsistency 4 [true, true, false, true] 2 [(0, 0), (3, 0)] = .error .invalid ∧
    checkConsistency 4 [true, true, false, true] 2 [(0, 0)] = .error .invalid := by decide

/-- a 3-mode left processor (mode 1 heralded) receives a processor with two heralds: modes 3 and 4 are
reserved, modes 0 and 2 stay available; a later `[4, 0]` is refused with `UnavailableModeException` -/
example :
    let l : Side := ⟨false, 2, 3, [true, false, true], [(1, 0)], [], [], [], [], [], none⟩
    let r : Side := ⟨false, 1, 3, [false, true, false], [(2, 1), (0, 0)], [], [], [], [], [], none⟩
    csAfter l r = 5 ∧ connAfter l r = [true, false, true, false, false] ∧
    checkConsistency (csAfter l r) (connAfter l r) 2 [(4, 0), (0, 1)] = .error .unavailable ∧
    checkConsistency (csAfter l r) (connAfter l r) 2 [(2, 0), (0, 1)] = .ok () := by decide

/-- the repaired renaming on the witness of the defect: condition on right-hand mode 0 lands on mode 2 -/
example : (renamePS true (some [1, 0]) 1 (.cond [0] .eq 1)).conds = [[2]] ∧
    (renamePS false (some [1, 0]) 1 (.cond [0] .eq 1)).conds = [[1]] := by decide

def exC : Matrix (Fin 2) (Fin 2) GQ := fun i j => if i = j then 0 else GQ.I

example : IsPermList 3 [1, 2, 0] := by decide

/-! # End-to-end statements (through `compose`, `resolve`, the port loops) -/

/-! ## heralds and detectors of the composed processor, end to end

The statements below go through the monadic `compose` (`resolve`, `_validate_postselect_composition`,
port removal, `add_heralded_modes`, `generate_permutation`, the output-port loop with `_add_herald`).
Hypotheses are the well-formedness of the bookkeeping the code maintains by construction:
`heralds` *is* the list of herald ports (`Experiment.heralds` is computed from `_out_ports`), and herald
ports sit on modes that are not connectible. -/

/-- **heralds appended** (full statement): after an accepted `add` of a processor — any mapping syntax,
any flag setting — the circuit grew by one mode per herald of the added processor; `heralds` is the old
dictionary followed, in the order of the added processor's `heralds`, by `circuit_size + i ↦ expectedᵢ`;
`detectors` is the old list followed by the detectors the added processor had on its herald modes. -/
theorem heralds_appended (f1 : RFlags) (f2 f3 : Bool) (l r : Side) (raw : RawMap) (keep : Bool) (res : Result)
    (hr : r.comp = false)
    (hlh : l.heralds = heraldsOf l.outp)
    (hlc : ∀ p ∈ l.outp, p.herald = true → ∀ k : Nat, p.start ≤ k → k < p.start + p.size →
      connectible l.cs l.conn (k : Int) = false)
    (hrh : r.heralds = heraldsOf r.outp)
    (h : compose f1 f2 f3 l r raw keep = .ok res) :
    res.cs = l.cs + r.heralds.length ∧
    res.heralds = l.heralds ++
      (List.range r.heralds.length).zipWith (fun i h => (l.cs + i, h.2)) r.heralds ∧
    res.dets = l.dets ++ r.heralds.map (fun h => r.dets.getD h.1 none) := by
  obtain ⟨d, mp, perm, inp1, outp1, inp2, -, -, -, -, -, -, -, -, -, -, hcs, -, hh, hdets, -, ho⟩ :=
    compose_proc_inv f1 f2 f3 l r raw keep res hr h
  obtain ⟨keys, new, hkeys, e, hnew, -⟩ := compose_proc_ports f1 f2 f3 l r raw keep res hr hrh h
  refine ⟨hcs, ?_, by rw [hdets, List.map_map]; rfl⟩
  rw [hh, ← ho, e, heraldsOf_append, hnew, hlh]
  congr 1
  unfold heraldsOf
  rw [removePorts_herald_filter keep l.outp keys (keys_avoid_heralds l keys hkeys hlc)]

/-- a bare component brings no herald: size, heralds and detectors are unchanged (whether or not the
output ports under the mapped modes are removed) -/
theorem heralds_unchanged_component (f1 : RFlags) (f2 f3 : Bool) (l r : Side) (raw : RawMap) (keep : Bool)
    (res : Result) (hr : r.comp = true)
    (hlh : l.heralds = heraldsOf l.outp)
    (hlc : ∀ p ∈ l.outp, p.herald = true → ∀ k : Nat, p.start ≤ k → k < p.start + p.size →
      connectible l.cs l.conn (k : Int) = false)
    (h : compose f1 f2 f3 l r raw keep = .ok res) :
    res.cs = l.cs ∧ res.heralds = l.heralds ∧ res.dets = l.dets := by
  obtain ⟨d, mp, perm, hd, hmp, -, -, -, -, -, -, hcs, -, hh, hdets, -, -, -⟩ :=
    compose_comp_inv f1 f2 f3 l r raw keep res hr h
  obtain ⟨-, -, -, -, -, hconn⟩ := resolved_nmap_facts f1 l r raw d mp hd hmp
  refine ⟨hcs, ?_, hdets⟩
  rw [hh, hlh]
  unfold heraldsOf
  rw [removePorts_herald_filter keep l.outp _ (keys_avoid_heralds l _ ?_ hlc)]
  rw [← toNMap_keys d mp hmp]; exact hconn

/-- a mode that is not connectible stays so after any `add` (old modes keep their type, imported modes are
reserved) -/
theorem connectible_after_false (l r : Side) (hl : l.conn.length = l.cs) (k : Int)
    (h : connectible l.cs l.conn k = false) :
    connectible (csAfter l r) (connAfter l r) k = false := by
  by_cases hk : k < (l.cs : Int)
  · rw [old_modes_keep_availability l r hl k hk]; exact h
  · cases hr : r.comp with
    | true => simpa [csAfter, connAfter, hr] using h
    | false => exact imported_heralds_reserved l r hl hr k (by omega)

theorem compose_keeps_heralds_reserved (f1 : RFlags) (f2 f3 : Bool) (l r : Side) (raw : RawMap) (keep : Bool)
    (res : Result) (hl : l.conn.length = l.cs)
    (hrh : r.comp = false → r.heralds = heraldsOf r.outp)
    (hres : HeraldPortsReserved l.cs l.conn l.outp)
    (h : compose f1 f2 f3 l r raw keep = .ok res) :
    res.conn.length = res.cs ∧ res.heralds = heraldsOf res.outp ∧
      HeraldPortsReserved res.cs res.conn res.outp := by
  obtain ⟨ecs, econn⟩ := compose_conn f1 f2 f3 l r raw keep res h
  have hold : ∀ p ∈ l.outp, p.herald = true →
      p.size = 1 ∧ connectible res.cs res.conn (p.start : Int) = false := by
    intro p hp hh
    obtain ⟨hs, hc⟩ := hres p hp hh
    rw [ecs, econn]
    exact ⟨hs, connectible_after_false l r hl _ hc⟩
  cases hr : r.comp with
  | true =>
    obtain ⟨d, mp, perm, -, -, -, -, -, -, -, -, hcs, hconn, hh, -, -, ho, -⟩ :=
      compose_comp_inv f1 f2 f3 l r raw keep res hr h
    refine ⟨by rw [hcs, hconn, hl], by rw [hh, ho], ?_⟩
    intro p hp hph
    rw [ho] at hp
    exact hold p (removePorts_subset _ _ _ p hp) hph
  | false =>
    obtain ⟨d, mp, perm, inp1, outp1, inp2, -, -, -, -, -, -, -, -, -, -, hcs, hconn, hh, -, -, ho⟩ :=
      compose_proc_inv f1 f2 f3 l r raw keep res hr h
    obtain ⟨keys, new, -, e, hnew, hsz⟩ :=
      compose_proc_ports f1 f2 f3 l r raw keep res hr (hrh hr) h
    refine ⟨by rw [hcs, hconn]; simp [hl], by rw [hh, ho], ?_⟩
    intro p hp hph
    rw [e] at hp
    rcases List.mem_append.1 hp with hp | hp
    · exact hold p (removePorts_subset _ _ _ p hp) hph
    · refine ⟨hsz p hp hph, ?_⟩
      have hm := heraldsOf_mem hp hph
      rw [hnew] at hm
      obtain ⟨i, hi, e'⟩ := List.mem_iff_getElem.1 hm
      simp only [List.getElem_zipWith, List.getElem_range] at e'
      have hst : p.start = l.cs + i := (congrArg Prod.fst e').symm
      rw [ecs, econn, hst]
      exact imported_heralds_reserved l r hl hr _ (by push_cast; omega)

theorem result_heralds_reserved (f1 : RFlags) (f2 f3 : Bool) (l r : Side) (raw : RawMap) (keep : Bool)
    (res : Result) (hl : l.conn.length = l.cs)
    (hrh : r.comp = false → r.heralds = heraldsOf r.outp)
    (hres : HeraldPortsReserved l.cs l.conn l.outp)
    (h : compose f1 f2 f3 l r raw keep = .ok res) :
    ∀ hm ∈ res.heralds, connectible res.cs res.conn (hm.1 : Int) = false := by
  obtain ⟨-, e, hp⟩ := compose_keeps_heralds_reserved f1 f2 f3 l r raw keep res hl hrh hres h
  intro hm hmem
  rw [e] at hmem
  obtain ⟨p, hpo, hph, hs, -⟩ := mem_heraldsOf hmem
  rw [← hs]
  exact (hp p hpo hph).2

/-! ## `generate_permutation` never raises on a legal mapping -/

/-- **completeness of PERM's assertion**: on a legal mapping (distinct left modes, right-hand modes
`0 … n-1` in some order) `generate_permutation` does not raise; it returns no PERM when the vector is the
identity and the PERM of `permVect` otherwise. -/
theorem genPerm_never_raises (mp : NMap) (hne : mp ≠ []) (hk : mp.keys.Nodup) (hv : mp.vals.Nodup)
    (hb : ∀ v ∈ mp.vals, v < mp.length) :
    genPerm mp = .ok (if permVect mp = List.range (permVect mp).length then none
      else some (permVect mp)) := by
  have hp := permValid_of_isPerm (permVect mp) (permVect_ne_nil mp hne hk)
    (genPerm_isPerm mp hne hk hv hb)
  simp only [genPerm]
  split_ifs <;> rfl

/-- … and legality is exactly what the assertion tests: for a mapping with distinct left modes,
`generate_permutation` returns iff the right-hand modes are distinct and `< n`. -/
theorem genPerm_ok_iff (mp : NMap) (hne : mp ≠ []) (hk : mp.keys.Nodup) :
    (∃ σ, genPerm mp = .ok σ) ↔ mp.vals.Nodup ∧ ∀ v ∈ mp.vals, v < mp.length := by
  constructor
  · rintro ⟨σ, h⟩; exact legal_of_genPerm_ok mp hk σ h
  · rintro ⟨hv, hb⟩; exact ⟨_, genPerm_never_raises mp hne hk hv hb⟩

/-- the only way `generate_permutation` fails is PERM's `AssertionError`, exactly on the illegal mappings -/
theorem genPerm_raises_iff (mp : NMap) (hne : mp ≠ []) (hk : mp.keys.Nodup) (e : Err) :
    genPerm mp = .error e ↔
      e = .assertion ∧ ¬ (mp.vals.Nodup ∧ ∀ v ∈ mp.vals, v < mp.length) := by
  rw [← genPerm_ok_iff mp hne hk]
  constructor
  · intro h
    refine ⟨?_, fun ⟨σ, hσ⟩ => by rw [hσ] at h; cases h⟩
    simp only [genPerm] at h
    split_ifs at h
    cases h; rfl
  · rintro ⟨rfl, hn⟩
    cases hg : genPerm mp with
    | ok σ => exact absurd ⟨σ, hg⟩ hn
    | error e' =>
      simp only [genPerm] at hg
      split_ifs at hg
      cases hg; rfl

/-- **end to end**: whenever `resolve` accepts a mapping whose right-hand values are modes of interest of
the added object (no herald, nothing out of range) and the added object is well formed, the mapping
`compose` hands to `generate_permutation` — the heralded modes of an added processor included — is legal,
so `generate_permutation` returns. -/
theorem genPerm_ok_of_accepted (fixed : RFlags) (l r : Side) (raw : RawMap) (d : Dict) (mp : NMap)
    (h : resolve fixed l r raw = .ok d) (hm : toNMap d = some mp) (hwf : RightWF r)
    (hvals : ∀ v ∈ mp.vals, v ∈ orderedRModes r) :
    ∃ σ, genPerm (permInput l r mp) = .ok σ := by
  obtain ⟨hne, hk, hv, hb⟩ := permInput_legal fixed l r raw d mp h hm hwf hvals
  exact ⟨_, genPerm_never_raises _ hne hk hv hb⟩

/-- offset and list mappings need no side condition: every one `resolve` accepts goes through
`generate_permutation` -/
theorem genPerm_ok_of_accepted_int_list (fixed : RFlags) (l r : Side) (raw : RawMap) (d : Dict)
    (hraw : ∀ items, raw ≠ .ofDict items) (hwf : RightWF r)
    (h : resolve fixed l r raw = .ok d) :
    ∃ mp σ, toNMap d = some mp ∧ genPerm (permInput l r mp) = .ok σ := by
  obtain ⟨mp, hm, hvals⟩ := resolve_simple_toNMap fixed l r raw d hraw hwf h
  obtain ⟨σ, hσ⟩ := genPerm_ok_of_accepted fixed l r raw d mp h hm hwf hvals
  exact ⟨mp, σ, hm, hσ⟩

/-- **through `compose`**: for an offset or list mapping onto a well-formed right-hand object, the only
`AssertionError` `Processor.add` can end in is the explicit `can_compose_with` assertion about the left
post-selection — never PERM's, neither in `_add_component` nor in `_compose_experiment` (heralded modes
included). -/
theorem compose_no_perm_assertion (f1 : RFlags) (f2 f3 : Bool) (l r : Side) (raw : RawMap) (keep : Bool)
    (hraw : ∀ items, raw ≠ .ofDict items) (hwf : RightWF r)
    (h : compose f1 f2 f3 l r raw keep = .error .assertion) :
    ∃ d, resolve f1 l r raw = .ok d ∧ validatePS l (d.keys.map Int.toNat) = .error .assertion := by
  refine compose_assertion_inv f1 f2 f3 l r raw keep hraw hwf ?_ h
  intro d mp hd hm
  obtain ⟨mp', σ, hm', hσ⟩ := genPerm_ok_of_accepted_int_list f1 l r raw d hraw hwf hd
  rw [hm] at hm'
  cases hm'
  exact ⟨σ, hσ⟩

/-- in particular, on a left processor without post-selection such an `add` never raises `AssertionError` -/
theorem compose_int_list_never_assertion (f1 : RFlags) (f2 f3 : Bool) (l r : Side) (raw : RawMap) (keep : Bool)
    (hraw : ∀ items, raw ≠ .ofDict items) (hwf : RightWF r) (hps : l.ps = none) :
    compose f1 f2 f3 l r raw keep ≠ .error .assertion := by
  intro h
  obtain ⟨d, -, hv⟩ := compose_no_perm_assertion f1 f2 f3 l r raw keep hraw hwf h
  simp [validatePS, hps] at hv

/-! ## the offset and list forms of `resolve` (corollaries of `resolve_ok_iff`) -/

/-- **offset mapping** `add(b, obj)`: accepted iff it stands for `{b+i : r_list[i]}`, the `m` consecutive left
modes `b … b+m-1` are all connectible and the right-hand modes of interest are distinct -/
theorem resolve_int_ok_iff (fixed : RFlags) (l r : Side) (b : Int) (d : Dict) (hm : 0 < r.m) :
    resolve fixed l r (.ofInt b) = .ok d ↔
      d = intMap b r ∧ (∀ i : Nat, i < r.m → connectible l.cs l.conn (b + i) = true) ∧
        (intMap b r).vals.Nodup := by
  rw [resolve_int_eq, ← intMap_forall b r (fun k => connectible l.cs l.conn k = true)]
  have hlen : (intMap b r).length = r.m := by simp [intMap]
  have hiff := resolve_ok_iff l.cs l.conn r.m (intMap b r) (intMap_ne_nil b r hm)
  constructor
  · intro h
    split at h
    · rename_i u hc
      cases h
      exact ⟨rfl, ((hiff.1 (by cases u; exact hc)).2)⟩
    · cases h
  · rintro ⟨rfl, h2, h3⟩
    rw [hiff.2 ⟨hlen, h2, h3⟩]

/-- for a well-formed right-hand object the last condition always holds: an offset mapping is accepted iff
modes `b … b+m-1` are connectible … -/
theorem resolve_int_ok_iff_wf (fixed : RFlags) (l r : Side) (b : Int) (d : Dict) (hm : 0 < r.m)
    (hwf : RightWF r) :
    resolve fixed l r (.ofInt b) = .ok d ↔
      d = intMap b r ∧ ∀ i : Nat, i < r.m → connectible l.cs l.conn (b + i) = true := by
  rw [resolve_int_ok_iff fixed l r b d hm]
  have : (intMap b r).vals.Nodup := by
    rw [intMap_vals b r hwf]; exact map_ofNat_nodup _ (orderedRModes_nodup r)
  exact ⟨fun h => ⟨h.1, h.2.1⟩, fun h => ⟨h.1, h.2, this⟩⟩

/-- … and is refused otherwise with `UnavailableModeException`, nothing else -/
theorem resolve_int_error_iff_wf (fixed : RFlags) (l r : Side) (b : Int) (e : Err) (hm : 0 < r.m)
    (hwf : RightWF r) :
    resolve fixed l r (.ofInt b) = .error e ↔
      e = .unavailable ∧ ∃ i : Nat, i < r.m ∧ connectible l.cs l.conn (b + i) = false := by
  have hne := intMap_ne_nil b r hm
  have hlen : (intMap b r).length = r.m := by simp [intMap]
  have hnd : (intMap b r).vals.Nodup := by
    rw [intMap_vals b r hwf]; exact map_ofNat_nodup _ (orderedRModes_nodup r)
  have hex : (∃ p ∈ intMap b r, connectible l.cs l.conn p.1 = false) ↔
      ∃ i : Nat, i < r.m ∧ connectible l.cs l.conn (b + i) = false := by
    simp only [intMap, List.mem_map, List.mem_range]
    constructor
    · rintro ⟨p, ⟨i, hi, rfl⟩, hc⟩; exact ⟨i, hi, hc⟩
    · rintro ⟨i, hi, hc⟩; exact ⟨_, ⟨i, hi, rfl⟩, hc⟩
  rw [resolve_int_eq, ← hex, checkConsistency_eq _ _ _ _ hne, if_neg (not_not.2 hlen),
    if_neg (not_not.2 hnd)]
  by_cases h2 : ∃ p ∈ intMap b r, connectible l.cs l.conn p.1 = false
  · rw [if_pos h2]
    constructor
    · intro h; cases h; exact ⟨rfl, h2⟩
    · rintro ⟨rfl, _⟩; rfl
  · rw [if_neg h2]
    constructor
    · intro h; cases h
    · rintro ⟨_, h⟩; exact absurd h h2

/-- **list mapping** `add([k0, k1, …], obj)` onto a well-formed right-hand object with `m ≥ 1` modes of
interest: accepted iff the list has `m` entries, no repetition, and names only connectible left modes; the
resolved mapping is then `zip(list, r_list)` -/
theorem resolve_list_ok_iff (fixed : RFlags) (l r : Side) (ks : List Int) (d : Dict) (hm : 0 < r.m)
    (hwf : RightWF r) :
    resolve fixed l r (.ofList ks) = .ok d ↔
      ks.length = r.m ∧ ks.Nodup ∧ (∀ k ∈ ks, connectible l.cs l.conn k = true) ∧
        d = listMap ks r := by
  have hrl := orderedRModes_length r hwf
  rw [resolve_list_eq, hrl]
  by_cases hlen : ks.length = r.m
  · rw [if_neg (not_not.2 hlen)]
    have hlen' : ks.length = (orderedRModes r).length := by rw [hrl]; exact hlen
    have hkeys := listMap_keys ks r hlen'
    have hvals := listMap_vals ks r hlen'
    have hL := listMap_length ks r hlen'
    constructor
    · intro h
      split at h
      · rename_i u hc
        cases h
        obtain ⟨-, h1, -, h4⟩ := checkConsistency_ok _ _ _ _ hc
        have hnd : ((listMap ks r).map (·.1)).Nodup :=
          (dictOf_length_iff _).1 (by rw [h1, hL, hlen])
        have e := dictOf_of_nodup _ hnd
        rw [hkeys] at hnd
        refine ⟨hlen, hnd, fun k hk => ?_, e⟩
        rw [e] at h4
        rw [← hkeys] at hk
        obtain ⟨p, hp, rfl⟩ := List.mem_map.1 hk
        exact h4 p hp
      · cases h
    · rintro ⟨-, hnd, hc, rfl⟩
      have e := dictOf_of_nodup (listMap ks r) (by rw [hkeys]; exact hnd)
      rw [e]
      have hne : listMap ks r ≠ [] := by
        intro h0
        have h1 : (listMap ks r).length = 0 := by rw [h0]; rfl
        omega
      have : checkConsistency l.cs l.conn r.m (listMap ks r) = .ok () := by
        refine (resolve_ok_iff _ _ _ _ hne).2 ⟨by rw [hL, hlen], fun p hp => ?_, ?_⟩
        · exact hc p.1 (by rw [← hkeys]; exact List.mem_map.2 ⟨p, hp, rfl⟩)
        · rw [hvals]; exact map_ofNat_nodup _ (orderedRModes_nodup r)
      rw [this]
  · rw [if_pos hlen]
    constructor
    · intro h; cases h
    · rintro ⟨h, _⟩; exact absurd h hlen

/-- … refused with `InvalidMappingException` exactly when the size is wrong or a left mode is repeated … -/
theorem resolve_list_invalid_iff (fixed : RFlags) (l r : Side) (ks : List Int) (hm : 0 < r.m)
    (hwf : RightWF r) :
    resolve fixed l r (.ofList ks) = .error .invalid ↔ ks.length ≠ r.m ∨ ¬ ks.Nodup := by
  have hrl := orderedRModes_length r hwf
  rw [resolve_list_eq, hrl]
  by_cases hlen : ks.length = r.m
  · rw [if_neg (not_not.2 hlen)]
    have hlen' : ks.length = (orderedRModes r).length := by rw [hrl]; exact hlen
    have hkeys := listMap_keys ks r hlen'
    have hvals := listMap_vals ks r hlen'
    have hL := listMap_length ks r hlen'
    by_cases hnd : ks.Nodup
    · have e := dictOf_of_nodup (listMap ks r) (by rw [hkeys]; exact hnd)
      have hne : listMap ks r ≠ [] := by
        intro h0
        have h1 : (listMap ks r).length = 0 := by rw [h0]; rfl
        omega
      rw [e, checkConsistency_eq _ _ _ _ hne, if_neg (not_not.2 (by rw [hL, hlen])),
        if_neg (not_not.2 (by rw [hvals]; exact map_ofNat_nodup _ (orderedRModes_nodup r)))]
      constructor
      · intro h
        split at h
        · cases h
        · rename_i e' hc
          split_ifs at hc
          · cases hc; cases h
      · rintro (h | h)
        · exact absurd hlen h
        · exact absurd hnd h
    · have hlt : (dictOf (listMap ks r)).length ≠ r.m := by
        intro h
        apply hnd
        rw [← hkeys]
        exact (dictOf_length_iff _).1 (by rw [h, hL, hlen])
      have : checkConsistency l.cs l.conn r.m (dictOf (listMap ks r)) = .error .invalid := by
        unfold checkConsistency
        rw [if_pos hlt]
      rw [this]
      exact ⟨fun _ => Or.inr hnd, fun _ => rfl⟩
  · rw [if_pos hlen]
    exact ⟨fun _ => Or.inl hlen, fun _ => rfl⟩

/-- … and with `UnavailableModeException` exactly when it is a duplicate-free list of the right size that
names a left mode that is not connectible -/
theorem resolve_list_unavailable_iff (fixed : RFlags) (l r : Side) (ks : List Int) (hm : 0 < r.m)
    (hwf : RightWF r) :
    resolve fixed l r (.ofList ks) = .error .unavailable ↔
      ks.length = r.m ∧ ks.Nodup ∧ ∃ k ∈ ks, connectible l.cs l.conn k = false := by
  have hrl := orderedRModes_length r hwf
  by_cases hbad : ks.length ≠ r.m ∨ ¬ ks.Nodup
  · have := (resolve_list_invalid_iff fixed l r ks hm hwf).2 hbad
    rw [this]
    constructor
    · intro h; cases h
    · rintro ⟨h1, h2, -⟩
      rcases hbad with h | h
      · exact absurd h1 h
      · exact absurd h2 h
  · have hlen : ks.length = r.m := by
      by_contra h; exact hbad (Or.inl h)
    have hnd : ks.Nodup := by
      by_contra h; exact hbad (Or.inr h)
    have hlen' : ks.length = (orderedRModes r).length := by rw [hrl]; exact hlen
    have hkeys := listMap_keys ks r hlen'
    have hvals := listMap_vals ks r hlen'
    have hL := listMap_length ks r hlen'
    have e := dictOf_of_nodup (listMap ks r) (by rw [hkeys]; exact hnd)
    have hne : listMap ks r ≠ [] := by
      intro h0
      have h1 : (listMap ks r).length = 0 := by rw [h0]; rfl
      omega
    have hex : (∃ p ∈ listMap ks r, connectible l.cs l.conn p.1 = false) ↔
        ∃ k ∈ ks, connectible l.cs l.conn k = false := by
      constructor
      · rintro ⟨p, hp, hc⟩
        exact ⟨p.1, by rw [← hkeys]; exact List.mem_map.2 ⟨p, hp, rfl⟩, hc⟩
      · rintro ⟨k, hk, hc⟩
        rw [← hkeys] at hk
        obtain ⟨p, hp, rfl⟩ := List.mem_map.1 hk
        exact ⟨p, hp, hc⟩
    rw [resolve_list_eq, hrl, if_neg (not_not.2 hlen), e]
    have hu := resolve_unavailable_iff l.cs l.conn r.m (listMap ks r) hne
    rw [hex] at hu
    constructor
    · intro h
      split at h
      · cases h
      · rename_i e' hc
        cases h
        exact ⟨hlen, hnd, (hu.1 hc).2⟩
    · rintro ⟨-, -, h⟩
      rw [hu.2 ⟨by rw [hL, hlen], h⟩]

/-! # The dictionary / port-name form of `resolve` in closed form

`resolve` on a dictionary runs `_mapping_type_checks`, then a loop that turns every item into `(left mode,
right mode)` pairs stored in a Python dictionary (a later store on the same left mode overwrites the earlier
one in place), then `_check_consistency`.  `itemPairs` is what one item stands for, `allPairs` the
concatenation; `resolveItems_eq` (Lemmas) proves the loop stores exactly those pairs. -/

/-- **every key form**, one statement: an item that is not `int: int` stands for `zip l_idx r_idx`, where
`l_idx` comes from the key (`[k]` for an int, the modes of the output port for a name) and `r_idx` from the
value (`[v]` for an int — only when `l_idx` has one mode —, the list itself, the modes of the input port for a
name — only on a processor), and the two must have the same length; an item the code ignores stands for
nothing. -/
theorem itemPairs_ok_iff (fx : RFlags) (l r : Side) (k : MKey) (v : MVal) (ps : List (Int × Int))
    (hkv : ∀ a b, ¬ (k = .int a ∧ v = .int b)) :
    itemPairs fx l r (k, v) = .ok ps ↔
      (leftIdx fx l k v = .ok none ∧ ps = []) ∨
      ∃ lidx ridx, leftIdx fx l k v = .ok (some lidx) ∧ rightIdx fx r lidx.length v = .ok ridx ∧
        lidx.length = ridx.length ∧ ps = lidx.zip ridx := by
  have key : itemPairs fx l r (k, v) =
      (match leftIdx fx l k v with
       | .error e => .error e
       | .ok none => .ok []
       | .ok (some lidx) => match rightIdx fx r lidx.length v with
         | .error e => .error e
         | .ok ridx => if lidx.length ≠ ridx.length then .error .invalid else .ok (lidx.zip ridx)) := by
    cases k with
    | int a =>
      cases v with
      | int b => exact absurd ⟨rfl, rfl⟩ (hkv a b)
      | name s =>
        simp only [itemPairs, bind, Except.bind]
        cases leftIdx fx l (.int a) (.name s) with
        | error e => rfl
        | ok o => cases o with
          | none => rfl
          | some lidx => simp only []; cases rightIdx fx r lidx.length (.name s) <;> rfl
      | list vs =>
        simp only [itemPairs, bind, Except.bind]
        cases leftIdx fx l (.int a) (.list vs) with
        | error e => rfl
        | ok o => cases o with
          | none => rfl
          | some lidx => simp only []; cases rightIdx fx r lidx.length (.list vs) <;> rfl
    | name a =>
      simp only [itemPairs, bind, Except.bind]
      cases leftIdx fx l (.name a) v with
      | error e => rfl
      | ok o => cases o with
        | none => rfl
        | some lidx => simp only []; cases rightIdx fx r lidx.length v <;> rfl
  rw [key]
  cases hl : leftIdx fx l k v with
  | error e => simp
  | ok o =>
    cases o with
    | none => simp [eq_comm]
    | some lidx =>
      simp only [Except.ok.injEq, Option.some.injEq, reduceCtorEq, false_and, false_or]
      cases hr : rightIdx fx r lidx.length v with
      | error e =>
        simp only [reduceCtorEq, false_iff, not_exists, not_and]
        intro x1 x2 h1 h2
        cases h1
        rw [hr] at h2; cases h2
      | ok ridx =>
        simp only []
        constructor
        · intro h
          split_ifs at h with hne
          cases h
          exact ⟨lidx, ridx, rfl, by rw [hr], not_not.1 hne, rfl⟩
        · rintro ⟨lidx', ridx', rfl, h2, h3, rfl⟩
          rw [hr] at h2; cases h2
          rw [if_neg (not_not.2 h3)]

/-- `int: int` is stored as it is -/
theorem itemPairs_int_int (fx : RFlags) (l r : Side) (k v : Int) :
    itemPairs fx l r (.int k, .int v) = .ok [(k, v)] := rfl

/-- `'port name': int` (repaired behaviour): accepted iff the output port `k` of the left processor exists and
has exactly one mode; it stands for `first mode of the port ↦ v` -/
theorem itemPairs_name_int_ok_iff (fx : RFlags) (l r : Side) (k : String) (v : Int)
    (ps : List (Int × Int)) :
    itemPairs fx l r (.name k, .int v) = .ok ps ↔
      fx.name = true ∧ l.outNames.count k = 1 ∧ ps = [(Int.ofNat (l.outNames.idxOf k), v)] := by
  rw [itemPairs_ok_iff fx l r _ _ ps (by rintro a b ⟨h, -⟩; cases h)]
  simp only [leftIdx, rightIdx]
  constructor
  · rintro (⟨h, -⟩ | ⟨lidx, ridx, h1, h2, h3, rfl⟩)
    · cases hp : resolvePort l.outNames k <;> rw [hp] at h <;> cases h
    · cases hp : resolvePort l.outNames k with
      | none => rw [hp] at h1; cases h1
      | some x =>
        rw [hp] at h1; cases h1
        obtain ⟨hc, rfl⟩ := (resolvePort_some_iff _ _ _).1 hp
        rw [portModes_length] at h2 h3
        split_ifs at h2 with hc1 hn
        cases h2
        refine ⟨hn, hc1, ?_⟩
        simp [portModes, hc1]
  · rintro ⟨hn, hc, rfl⟩
    right
    have hp : resolvePort l.outNames k = some (portModes l.outNames k) :=
      (resolvePort_some_iff _ _ _).2 ⟨by omega, rfl⟩
    refine ⟨portModes l.outNames k, [v], by rw [hp], ?_, by simp [portModes_length, hc], ?_⟩
    · rw [portModes_length, if_pos hc, if_pos hn]
    · simp [portModes, hc]

/-- `'port name': [modes]`: accepted iff the output port exists and the list has as many entries as the port
has modes; it stands for `zip(modes of the port, list)` -/
theorem itemPairs_name_list_ok_iff (fx : RFlags) (l r : Side) (k : String) (vs : List Int)
    (ps : List (Int × Int)) :
    itemPairs fx l r (.name k, .list vs) = .ok ps ↔
      0 < l.outNames.count k ∧ vs.length = l.outNames.count k ∧
        ps = (portModes l.outNames k).zip vs := by
  rw [itemPairs_ok_iff fx l r _ _ ps (by rintro a b ⟨h, -⟩; cases h)]
  simp only [leftIdx, rightIdx]
  constructor
  · rintro (⟨h, -⟩ | ⟨lidx, ridx, h1, h2, h3, rfl⟩)
    · cases hp : resolvePort l.outNames k <;> rw [hp] at h <;> cases h
    · cases hp : resolvePort l.outNames k with
      | none => rw [hp] at h1; cases h1
      | some x =>
        rw [hp] at h1; cases h1; cases h2
        obtain ⟨hc, rfl⟩ := (resolvePort_some_iff _ _ _).1 hp
        rw [portModes_length] at h3
        exact ⟨hc, h3.symm, rfl⟩
  · rintro ⟨hc, hl, rfl⟩
    right
    have hp : resolvePort l.outNames k = some (portModes l.outNames k) :=
      (resolvePort_some_iff _ _ _).2 ⟨hc, rfl⟩
    exact ⟨_, vs, by rw [hp], rfl, by rw [portModes_length, hl], rfl⟩

/-- `'output port': 'input port'`: accepted iff the right-hand object is a processor, both ports exist and
have the same number of modes; it stands for `zip(modes of the one, modes of the other)` -/
theorem itemPairs_name_name_ok_iff (fx : RFlags) (l r : Side) (k s : String) (ps : List (Int × Int)) :
    itemPairs fx l r (.name k, .name s) = .ok ps ↔
      r.comp = false ∧ 0 < l.outNames.count k ∧ r.inNames.count s = l.outNames.count k ∧
        ps = (portModes l.outNames k).zip (portModes r.inNames s) := by
  rw [itemPairs_ok_iff fx l r _ _ ps (by rintro a b ⟨h, -⟩; cases h)]
  simp only [leftIdx, rightIdx]
  constructor
  · rintro (⟨h, -⟩ | ⟨lidx, ridx, h1, h2, h3, rfl⟩)
    · cases hp : resolvePort l.outNames k <;> rw [hp] at h <;> cases h
    · cases hp : resolvePort l.outNames k with
      | none => rw [hp] at h1; cases h1
      | some x =>
        rw [hp] at h1; cases h1
        obtain ⟨hc, rfl⟩ := (resolvePort_some_iff _ _ _).1 hp
        cases hcomp : r.comp with
        | true => rw [hcomp] at h2; simp at h2
        | false =>
          rw [hcomp] at h2
          simp only [Bool.false_eq_true, if_false] at h2
          cases hq : resolvePort r.inNames s with
          | none => rw [hq] at h2; cases h2
          | some y =>
            rw [hq] at h2; cases h2
            obtain ⟨hc', rfl⟩ := (resolvePort_some_iff _ _ _).1 hq
            rw [portModes_length, portModes_length] at h3
            exact ⟨rfl, hc, h3.symm, rfl⟩
  · rintro ⟨hcomp, hc, hl, rfl⟩
    right
    have hp : resolvePort l.outNames k = some (portModes l.outNames k) :=
      (resolvePort_some_iff _ _ _).2 ⟨hc, rfl⟩
    have hq : resolvePort r.inNames s = some (portModes r.inNames s) :=
      (resolvePort_some_iff _ _ _).2 ⟨by omega, rfl⟩
    refine ⟨_, portModes r.inNames s, by rw [hp], ?_, by rw [portModes_length, portModes_length, hl], rfl⟩
    rw [hcomp]; simp only [Bool.false_eq_true, if_false]; rw [hq]

/-- `int: [modes]` / `int: 'input port'` **as found** (`skip = false`): silently ignored — the item stands for
nothing, whatever it names -/
theorem itemPairs_int_skipped (fx : RFlags) (l r : Side) (k : Int) (v : MVal)
    (hv : ∀ b, v ≠ .int b) (hs : fx.skip = false) :
    itemPairs fx l r (.int k, v) = .ok [] := by
  rw [itemPairs_ok_iff fx l r _ _ [] (by rintro a b ⟨-, h⟩; exact hv b h)]
  left
  cases v with
  | int b => exact absurd rfl (hv b)
  | name s => simp [leftIdx, hs]
  | list vs => simp [leftIdx, hs]

/-- `int: [modes]` repaired: the int key is a one-mode port; accepted iff the list has one entry -/
theorem itemPairs_int_list_ok_iff (fx : RFlags) (l r : Side) (k : Int) (vs : List Int)
    (ps : List (Int × Int)) (hs : fx.skip = true) :
    itemPairs fx l r (.int k, .list vs) = .ok ps ↔ ∃ v, vs = [v] ∧ ps = [(k, v)] := by
  rw [itemPairs_ok_iff fx l r _ _ ps (by rintro a b ⟨-, h⟩; cases h)]
  simp only [leftIdx, rightIdx, hs, if_true]
  constructor
  · rintro (⟨h, -⟩ | ⟨lidx, ridx, h1, h2, h3, rfl⟩)
    · cases h
    · cases h1; cases h2
      obtain ⟨v, rfl⟩ := List.length_eq_one_iff.1 h3.symm
      exact ⟨v, rfl, rfl⟩
  · rintro ⟨v, rfl, rfl⟩
    exact Or.inr ⟨[k], [v], rfl, rfl, rfl, rfl⟩

/-- `int: 'input port'` repaired: accepted iff the right-hand object is a processor and the port has exactly
one mode -/
theorem itemPairs_int_name_ok_iff (fx : RFlags) (l r : Side) (k : Int) (s : String)
    (ps : List (Int × Int)) (hs : fx.skip = true) :
    itemPairs fx l r (.int k, .name s) = .ok ps ↔
      r.comp = false ∧ r.inNames.count s = 1 ∧ ps = [(k, Int.ofNat (r.inNames.idxOf s))] := by
  rw [itemPairs_ok_iff fx l r _ _ ps (by rintro a b ⟨-, h⟩; cases h)]
  simp only [leftIdx, rightIdx, hs, if_true]
  constructor
  · rintro (⟨h, -⟩ | ⟨lidx, ridx, h1, h2, h3, rfl⟩)
    · cases h
    · cases h1
      cases hcomp : r.comp with
      | true => rw [hcomp] at h2; simp at h2
      | false =>
        rw [hcomp] at h2
        simp only [Bool.false_eq_true, if_false] at h2
        cases hq : resolvePort r.inNames s with
        | none => rw [hq] at h2; cases h2
        | some y =>
          rw [hq] at h2; cases h2
          obtain ⟨hc', rfl⟩ := (resolvePort_some_iff _ _ _).1 hq
          rw [portModes_length] at h3
          have h3' : r.inNames.count s = 1 := by simpa using h3.symm
          refine ⟨rfl, h3', ?_⟩
          simp [portModes, h3']
  · rintro ⟨hcomp, hc, rfl⟩
    right
    have hq : resolvePort r.inNames s = some (portModes r.inNames s) :=
      (resolvePort_some_iff _ _ _).2 ⟨by omega, rfl⟩
    refine ⟨[k], portModes r.inNames s, rfl, ?_, by simp [portModes_length, hc], ?_⟩
    · rw [hcomp]; simp only [Bool.false_eq_true, if_false]; rw [hq]
    · simp [portModes, hc]

/-- the only errors an item can raise: `InvalidMappingException` (unknown port, imbalanced sizes), or the
`AssertionError` of `_resolve_port_right` when the right-hand object is a bare component -/
theorem itemPairs_error_class (fx : RFlags) (l r : Side) (it : MKey × MVal) (e : Err)
    (h : itemPairs fx l r it = .error e) : e = .invalid ∨ (e = .assertion ∧ r.comp = true) := by
  obtain ⟨k, v⟩ := it
  have hr : ∀ n v' x, rightIdx fx r n v' = .error x → x = .invalid ∨ (x = .assertion ∧ r.comp = true) := by
    intro n v' x hx
    cases v' with
    | int b =>
      simp only [rightIdx] at hx
      split_ifs at hx with h1 h2 h3
      · cases hx; exact Or.inl rfl
      · cases hx; exact Or.inr ⟨rfl, h3⟩
      · cases hx; exact Or.inl rfl
    | list vs => cases hx
    | name s =>
      simp only [rightIdx] at hx
      split_ifs at hx with h1
      · cases hx; exact Or.inr ⟨rfl, h1⟩
      · cases hq : resolvePort r.inNames s <;> rw [hq] at hx <;> cases hx
        exact Or.inl rfl
  have hl : ∀ x, leftIdx fx l k v = .error x → x = .invalid := by
    intro x hx
    cases k with
    | int a => cases v <;> cases hx
    | name a =>
      simp only [leftIdx] at hx
      cases hq : resolvePort l.outNames a <;> rw [hq] at hx <;> cases hx
      rfl
  by_cases hkv : ∃ a b, k = .int a ∧ v = .int b
  · obtain ⟨a, b, rfl, rfl⟩ := hkv
    cases h
  · have hkv' : ∀ a b, ¬ (k = .int a ∧ v = .int b) := fun a b hab => hkv ⟨a, b, hab⟩
    cases hli : leftIdx fx l k v with
    | error x =>
      have : itemPairs fx l r (k, v) = .error x := by
        cases k with
        | int a =>
          cases v with
          | int b => exact absurd ⟨rfl, rfl⟩ (hkv' a b)
          | name s => simp only [itemPairs, bind, Except.bind, hli]
          | list vs => simp only [itemPairs, bind, Except.bind, hli]
        | name a => simp only [itemPairs, bind, Except.bind, hli]
      rw [this] at h; cases h
      exact Or.inl (hl _ hli)
    | ok o =>
      cases o with
      | none =>
        have := (itemPairs_ok_iff fx l r k v [] hkv').2 (Or.inl ⟨hli, rfl⟩)
        rw [this] at h; cases h
      | some lidx =>
        cases hri : rightIdx fx r lidx.length v with
        | error x =>
          have : itemPairs fx l r (k, v) = .error x := by
            cases k with
            | int a =>
              cases v with
              | int b => exact absurd ⟨rfl, rfl⟩ (hkv' a b)
              | name s => simp only [itemPairs, bind, Except.bind, hli, hri]
              | list vs => simp only [itemPairs, bind, Except.bind, hli, hri]
            | name a => simp only [itemPairs, bind, Except.bind, hli, hri]
          rw [this] at h; cases h
          exact hr _ _ _ hri
        | ok ridx =>
          by_cases hlen : lidx.length = ridx.length
          · have := (itemPairs_ok_iff fx l r k v _ hkv').2 (Or.inr ⟨lidx, ridx, hli, hri, hlen, rfl⟩)
            rw [this] at h; cases h
          · have : itemPairs fx l r (k, v) = .error .invalid := by
              cases k with
              | int a =>
                cases v with
                | int b => exact absurd ⟨rfl, rfl⟩ (hkv' a b)
                | name s => simp only [itemPairs, bind, Except.bind, hli, hri, ne_eq, hlen,
                    not_false_eq_true, if_true]
                | list vs => simp only [itemPairs, bind, Except.bind, hli, hri, ne_eq, hlen,
                    not_false_eq_true, if_true]
              | name a => simp only [itemPairs, bind, Except.bind, hli, hri, ne_eq, hlen,
                  not_false_eq_true, if_true]
            rw [this] at h; cases h
            exact Or.inl rfl

/-- all the items: accepted iff every item is, and the pairs are concatenated in order -/
theorem allPairs_ok_iff (fx : RFlags) (l r : Side) (items : List (MKey × MVal)) (ps : List (Int × Int)) :
    allPairs fx l r items = .ok ps ↔
      ∃ pss, List.Forall₂ (fun it q => itemPairs fx l r it = .ok q) items pss ∧ ps = pss.flatten := by
  induction items generalizing ps with
  | nil =>
    rw [allPairs_nil]
    constructor
    · intro h; cases h; exact ⟨[], List.Forall₂.nil, rfl⟩
    · rintro ⟨pss, h, rfl⟩; cases h; rfl
  | cons it rest ih =>
    rw [allPairs_cons]
    constructor
    · intro h
      cases hi : itemPairs fx l r it with
      | error e => rw [hi] at h; cases h
      | ok q =>
        rw [hi] at h
        cases hr : allPairs fx l r rest with
        | error e => rw [hr] at h; cases h
        | ok qs =>
          rw [hr] at h; cases h
          obtain ⟨pss, hf, rfl⟩ := (ih qs).1 hr
          exact ⟨q :: pss, List.Forall₂.cons hi hf, by simp⟩
    · rintro ⟨pss, hf, rfl⟩
      cases hf with
      | cons hi hf' =>
        rename_i q pss'
        rw [hi, (ih _).2 ⟨pss', hf', rfl⟩]
        simp

/-- … and refused with the error of the first item that is refused -/
theorem allPairs_error_iff (fx : RFlags) (l r : Side) (items : List (MKey × MVal)) (e : Err) :
    allPairs fx l r items = .error e ↔
      ∃ pre it post, items = pre ++ it :: post ∧ (∀ x ∈ pre, ∃ q, itemPairs fx l r x = .ok q) ∧
        itemPairs fx l r it = .error e := by
  induction items with
  | nil =>
    rw [allPairs_nil]
    constructor
    · intro h; cases h
    · rintro ⟨pre, it, post, h, -⟩; simp at h
  | cons a rest ih =>
    rw [allPairs_cons]
    cases hi : itemPairs fx l r a with
    | error x =>
      constructor
      · intro h; cases h; exact ⟨[], a, rest, rfl, by simp, hi⟩
      · rintro ⟨pre, it, post, h, hpre, hit⟩
        cases pre with
        | nil => simp only [List.nil_append, List.cons.injEq] at h; rw [← h.1, hi] at hit; cases hit; rfl
        | cons b pre' =>
          simp only [List.cons_append, List.cons.injEq] at h
          obtain ⟨q, hq⟩ := hpre b (by simp)
          rw [← h.1, hi] at hq; cases hq
    | ok q =>
      constructor
      · intro h
        cases hr : allPairs fx l r rest with
        | ok qs => rw [hr] at h; cases h
        | error x =>
          rw [hr] at h; cases h
          obtain ⟨pre, it, post, h1, h2, h3⟩ := ih.1 hr
          refine ⟨a :: pre, it, post, by rw [h1]; rfl, ?_, h3⟩
          intro x hx
          rcases List.mem_cons.1 hx with rfl | hx
          · exact ⟨q, hi⟩
          · exact h2 x hx
      · rintro ⟨pre, it, post, h, hpre, hit⟩
        cases pre with
        | nil => simp only [List.nil_append, List.cons.injEq] at h; rw [← h.1, hi] at hit; cases hit
        | cons b pre' =>
          simp only [List.cons_append, List.cons.injEq] at h
          have := ih.2 ⟨pre', it, post, h.2, fun x hx => hpre x (by simp [hx]), hit⟩
          rw [this]

/-- **dictionary mapping, acceptance**: `add({…}, obj)` (with `m ≥ 1` modes to connect) is accepted iff the
types are admissible, every item is accepted, and the dictionary `d` the stores build from the concatenated
pairs has `m` entries, only connectible left modes and pairwise distinct right-hand modes; `d` is then the
resolved mapping. -/
theorem resolve_dict_ok_iff (fx : RFlags) (l r : Side) (items : List (MKey × MVal)) (d : Dict)
    (hm : 0 < r.m) :
    resolve fx l r (.ofDict items) = .ok d ↔
      typeChecks r items = true ∧ ∃ ps, allPairs fx l r items = .ok ps ∧ d = dictOf ps ∧
        d.length = r.m ∧ (∀ p ∈ d, connectible l.cs l.conn p.1 = true) ∧ d.vals.Nodup := by
  rw [resolve_dict_eq]
  cases ht : typeChecks r items with
  | false => simp
  | true =>
    simp only [Bool.true_eq_false, if_false, true_and]
    cases ha : allPairs fx l r items with
    | error e => simp
    | ok ps =>
      simp only [Except.ok.injEq, exists_eq_left']
      constructor
      · intro h
        split at h
        · rename_i u hc
          cases h
          obtain ⟨-, h1, h2, h3⟩ := checkConsistency_ok _ _ _ _ hc
          exact ⟨rfl, h1, h3, h2⟩
        · cases h
      · rintro ⟨rfl, h1, h2, h3⟩
        have hne : dictOf ps ≠ [] := by
          intro h0; rw [h0] at h1; simp at h1; omega
        rw [(resolve_ok_iff _ _ _ _ hne).2 ⟨h1, h2, h3⟩]

/-- when no left mode is named twice the resolved mapping is exactly the concatenation of the pairs -/
theorem resolve_dict_pairs (fx : RFlags) (l r : Side) (items : List (MKey × MVal)) (d : Dict)
    (ps : List (Int × Int)) (h : resolve fx l r (.ofDict items) = .ok d)
    (hp : allPairs fx l r items = .ok ps) (hn : (ps.map (·.1)).Nodup) : d = ps := by
  rw [resolve_dict_eq] at h
  split_ifs at h
  rw [hp] at h
  simp only [] at h
  split at h
  · cases h; exact dictOf_of_nodup ps hn
  · cases h

/-- **dictionary mapping, refusal**: the error is the type-check assertion, or the error of the first refused
item (`itemPairs_error_class`: `InvalidMappingException`, or `AssertionError` for a port name on a bare
component), or the verdict of `_check_consistency` on the dictionary built from the pairs (whose classes are
`resolve_invalid_iff` / `resolve_unavailable_iff`). -/
theorem resolve_dict_error_iff (fx : RFlags) (l r : Side) (items : List (MKey × MVal)) (e : Err) :
    resolve fx l r (.ofDict items) = .error e ↔
      (typeChecks r items = false ∧ e = .assertion) ∨
      (typeChecks r items = true ∧ allPairs fx l r items = .error e) ∨
      (typeChecks r items = true ∧ ∃ ps, allPairs fx l r items = .ok ps ∧
        checkConsistency l.cs l.conn r.m (dictOf ps) = .error e) := by
  rw [resolve_dict_eq]
  cases ht : typeChecks r items with
  | false => simp [eq_comm]
  | true =>
    simp only [Bool.true_eq_false, if_false, false_and, true_and, false_or]
    cases ha : allPairs fx l r items with
    | error x => simp
    | ok ps =>
      simp only [reduceCtorEq, false_or, Except.ok.injEq, exists_eq_left']
      cases checkConsistency l.cs l.conn r.m (dictOf ps) <;> simp

/-- what the stores make of pairs that name a left mode more than once: the LAST value given to a left mode
wins (a Python dictionary) -/
theorem dictOf_mem_iff (ps : List (Int × Int)) (k v : Int) :
    (k, v) ∈ dictOf ps ↔ lastVal ps k = some v := by
  have := dictSetAll_mem_iff ps [] k v
  simpa [dictOf] using this

/-- witnesses of the defect: a 2-mode left processor without ports, a bare 1-mode component -/
def exLp0 : Side :=
  { comp := false, m := 2, cs := 2, conn := [true, true], heralds := [], dets := [none, none], outp := [], inp := [],
    outNames := ["", ""], inNames := ["", ""], ps := none }

def exC1' : Side :=
  { comp := true, m := 1, cs := 1, conn := [true], heralds := [], dets := [], outp := [], inp := [],
    outNames := [], inNames := [], ps := none }

/-- every accepted item contributes its pairs to the concatenation -/
theorem allPairs_item_sub (fx : RFlags) (l r : Side) (items : List (MKey × MVal)) (ps : List (Int × Int))
    (h : allPairs fx l r items = .ok ps) (it : MKey × MVal) (hit : it ∈ items) :
    ∃ q, itemPairs fx l r it = .ok q ∧ ∀ p ∈ q, p ∈ ps := by
  induction items generalizing ps with
  | nil => simp at hit
  | cons a rest ih =>
    rw [allPairs_cons] at h
    cases hi : itemPairs fx l r a with
    | error e => rw [hi] at h; cases h
    | ok q =>
      rw [hi] at h
      cases hr : allPairs fx l r rest with
      | error e => rw [hr] at h; cases h
      | ok qs =>
        rw [hr] at h
        cases h
        rcases List.mem_cons.1 hit with rfl | hit'
        · exact ⟨q, hi, fun p hp => List.mem_append_left _ hp⟩
        · obtain ⟨q', h1, h2⟩ := ih qs hr hit'
          exact ⟨q', h1, fun p hp => List.mem_append_right _ (h2 p hp)⟩

/-- **no item is ignored** (repaired behaviour): when a dictionary mapping is accepted, every left mode it names
with an int key — whatever the value is: an int, a list, a port name — is a left mode of the resolved mapping -/
theorem resolve_dict_intkey_wired (fx : RFlags) (hs : fx.skip = true) (l r : Side)
    (items : List (MKey × MVal)) (d : Dict) (k : Int) (v : MVal)
    (h : resolve fx l r (.ofDict items) = .ok d) (hit : (MKey.int k, v) ∈ items) : k ∈ d.keys := by
  rw [resolve_dict_eq] at h
  split_ifs at h
  cases ha : allPairs fx l r items with
  | error e => rw [ha] at h; cases h
  | ok ps =>
    rw [ha] at h
    simp only [] at h
    split at h
    · cases h
      obtain ⟨q, hq, hsub⟩ := allPairs_item_sub fx l r items ps ha _ hit
      have hk : ∃ x, (k, x) ∈ q := by
        cases v with
        | int b => rw [itemPairs_int_int] at hq; cases hq; exact ⟨b, by simp⟩
        | list vs =>
          obtain ⟨x, -, rfl⟩ := (itemPairs_int_list_ok_iff fx l r k vs q hs).1 hq
          exact ⟨x, by simp⟩
        | name s =>
          obtain ⟨-, -, rfl⟩ := (itemPairs_int_name_ok_iff fx l r k s q hs).1 hq
          exact ⟨Int.ofNat (r.inNames.idxOf s), by simp⟩
      obtain ⟨x, hx⟩ := hk
      obtain ⟨x', hx'⟩ := lastVal_isSome_of_mem ps (hsub _ hx)
      exact List.mem_map.2 ⟨(k, x'), (dictOf_mem_iff ps k x').2 hx', rfl⟩
    · cases h

/-- The code as found (`skip = false`) breaks this: `{0: [0], 1: 0}` on a one-mode component is accepted and
left mode 0 is not wired at all. -/
theorem resolve_dict_intkey_fails_on_current_code :
    ¬ ∀ (l r : Side) (items : List (MKey × MVal)) (d : Dict) (k : Int) (v : MVal),
        resolve ⟨true, false⟩ l r (.ofDict items) = .ok d → (MKey.int k, v) ∈ items → k ∈ d.keys := by
  intro h
  have h1 : resolve ⟨true, false⟩ exLp0 exC1' (.ofDict [(.int 0, .list [0]), (.int 1, .int 0)]) =
      .ok [(1, 0)] := by decide
  have := h exLp0 exC1' _ _ 0 (.list [0]) h1 (by simp)
  revert this
  decide

/-- **`generate_permutation` refuses exactly the dictionaries that leave the modes of interest**: for a mapping
`resolve` accepted onto a well-formed right-hand object, `generate_permutation` (after the heralded modes were
appended) returns iff every right-hand value is a mode of interest of the added object — a value on a herald
or out of range is what PERM's assertion catches. -/
theorem genPerm_ok_iff_vals_moi (fixed : RFlags) (l r : Side) (raw : RawMap) (d : Dict) (mp : NMap)
    (h : resolve fixed l r raw = .ok d) (hm : toNMap d = some mp) (hwf : RightWF r) :
    (∃ σ, genPerm (permInput l r mp) = .ok σ) ↔ ∀ v ∈ mp.vals, v ∈ orderedRModes r := by
  constructor
  · rintro ⟨σ, hσ⟩
    exact vals_moi_of_genPerm_ok fixed l r raw d mp h hm hwf σ hσ
  · intro hv
    exact genPerm_ok_of_accepted fixed l r raw d mp h hm hwf hv

/-! # Ports of the added processor: which are re-attached, where, and the port names after the add

`_compose_experiment` walks the output ports of the added processor (heralds go through `_add_herald`, which
registers them as input AND output ports; another port is re-attached only if the completed mapping sends its
modes onto consecutive modes in order and those modes are free), then its input ports.  `OutOrigin` /
`InOrigin` (Lemmas/C10Ext) say where a new port comes from; the theorems below read them. -/

/-- reading `OutOrigin` for the repaired port transfer: a new output port comes from a port `p` of the added
processor and sits on the left mode the completed mapping wires to `p`'s first mode; a herald becomes a one-mode
port named by `heraldName` with the same expected value, any other port keeps size and name and sits, mode by
mode and in order, on the left modes wired to its modes -/
theorem outOrigin_wired (fl : NMap) (ports : List Port) (q : Port) (h : OutOrigin true fl ports q) :
    ∃ p ∈ ports, (q.start, p.start) ∈ fl ∧ q.herald = p.herald ∧ q.expected = p.expected ∧
      (p.herald = true → q.size = 1 ∧ q.name = heraldName p) ∧
      (p.herald = false → q.size = p.size ∧ q.name = p.name ∧
        ∀ j, j < p.size → (q.start + j, p.start + j) ∈ fl) := by
  obtain ⟨p, hp, k, hk, hcase⟩ := h
  refine ⟨p, hp, ?_⟩
  rcases hcase with ⟨hh, rfl⟩ | ⟨hh, rfl, hc⟩
  · exact ⟨keyOfVal_mem hk, rfl, rfl, fun _ => ⟨rfl, rfl⟩, fun hf => by rw [hh] at hf; cases hf⟩
  · refine ⟨keyOfVal_mem hk, rfl, rfl, ?_, ?_⟩
    · intro ht; rw [hh] at ht; cases ht
    · intro _
      refine ⟨rfl, rfl, ?_⟩
      intro j hj
      exact keyOfVal_mem ((consecutive_iff fl p k).1 (hc rfl) j hj)

theorem inOrigin_wired (fl : NMap) (ports : List Port) (q : Port) (h : InOrigin true fl ports q) :
    ∃ p ∈ ports, q.size = p.size ∧ q.name = p.name ∧ q.herald = p.herald ∧ q.expected = p.expected ∧
      (q.start, p.start) ∈ fl ∧ ∀ j, j < p.size → (q.start + j, p.start + j) ∈ fl := by
  obtain ⟨p, hp, k, hk, rfl, hc⟩ := h
  refine ⟨p, hp, rfl, rfl, rfl, rfl, keyOfVal_mem hk, ?_⟩
  intro j hj
  exact keyOfVal_mem ((consecutive_iff fl p k).1 (hc rfl) j hj)

/-- **which ports are re-attached and where** (added processor, any mapping, any flags): the output ports are
the old ones (minus those under the mapped modes when `keep_port` is off) followed by new ports, each with an
`OutOrigin` in the output ports of the added processor w.r.t. the completed mapping `res.full`; the input ports
are the old ones, then the *herald* ports just created (a herald is an input and an output port), then new
ports with an `InOrigin` in the input ports of the added processor. -/
theorem ports_reattached (f1 : RFlags) (f2 f3 : Bool) (l r : Side) (raw : RawMap) (keep : Bool)
    (res : Result) (hr : r.comp = false) (h : compose f1 f2 f3 l r raw keep = .ok res) :
    ∃ newOut newIn,
      res.outp = removePorts keep l.outp res.map.keys ++ newOut ∧
      res.inp = l.inp ++ newOut.filter (·.herald) ++ newIn ∧
      (∀ q ∈ newOut, OutOrigin f3 res.full r.outp q) ∧
      (∀ q ∈ newIn, InOrigin f3 res.full r.inp q) := by
  obtain ⟨d, mp, perm, inp1, outp1, inp2, -, hmp, -, hout, hin, hmap, hfull, -, -, -, -, -, -, -, hi, ho⟩ :=
    compose_proc_inv f1 f2 f3 l r raw keep res hr h
  obtain ⟨newOut, e1, e2, o1⟩ := transferOut_shape f3 _ _ _ _ _ _ hout
  obtain ⟨newIn, e3, o2⟩ := transferIn_shape f3 _ _ _ _ hin
  refine ⟨newOut, newIn, ?_, ?_, ?_, ?_⟩
  · rw [ho, e1, hmap, toNMap_keys d mp hmp]
  · rw [hi, e3, e2]
  · rw [hfull]; exact o1
  · rw [hfull]; exact o2

/-- **what is dropped**: a non-herald output port of the added processor (resp. any of its input ports) whose
modes the completed mapping sends onto consecutive modes `k, k+1, …` in order is in the result at `k`, unless one
of those modes is under another port of the result — the two documented reasons are the only ones -/
theorem ports_dropped_only_if (f1 : RFlags) (f2 f3 : Bool) (l r : Side) (raw : RawMap) (keep : Bool)
    (res : Result) (hr : r.comp = false) (h : compose f1 f2 f3 l r raw keep = .ok res) :
    (∀ p ∈ r.outp, p.herald = false → ∀ k, keyOfVal res.full p.start = some k →
      (f3 = true → consecutive res.full p k = true) →
      { p with start := k } ∈ res.outp ∨ modesFree res.outp k p.size = false) ∧
    (∀ p ∈ r.inp, ∀ k, keyOfVal res.full p.start = some k →
      (f3 = true → consecutive res.full p k = true) →
      { p with start := k } ∈ res.inp ∨ modesFree res.inp k p.size = false) := by
  obtain ⟨d, mp, perm, inp1, outp1, inp2, -, -, -, hout, hin, -, hfull, -, -, -, -, -, -, -, hi, ho⟩ :=
    compose_proc_inv f1 f2 f3 l r raw keep res hr h
  rw [hfull, hi, ho]
  exact ⟨transferOut_complete f3 _ _ _ _ _ _ hout, transferIn_complete f3 _ _ _ _ hin⟩

/-- **no overlap**: if no two ports of the left processor overlap (input side, output side), the same holds
after any accepted `add` -/
theorem ports_stay_disjoint (f1 : RFlags) (f2 f3 : Bool) (l r : Side) (raw : RawMap) (keep : Bool)
    (res : Result) (hi : PortsDisjoint l.inp) (ho : PortsDisjoint l.outp)
    (h : compose f1 f2 f3 l r raw keep = .ok res) : PortsDisjoint res.inp ∧ PortsDisjoint res.outp := by
  cases hr : r.comp with
  | true =>
    obtain ⟨d, mp, perm, -, -, -, -, -, -, -, -, -, -, -, -, hinp, houtp, -⟩ :=
      compose_comp_inv f1 f2 f3 l r raw keep res hr h
    rw [hinp, houtp]
    exact ⟨hi, removePorts_disjoint _ _ _ ho⟩
  | false =>
    obtain ⟨d, mp, perm, inp1, outp1, inp2, -, -, -, hout, hin, -, -, -, -, -, -, -, -, -, hi', ho'⟩ :=
      compose_proc_inv f1 f2 f3 l r raw keep res hr h
    obtain ⟨d1, d2⟩ := transferOut_disjoint f3 _ _ _ _ _ _ hout hi (removePorts_disjoint _ _ _ ho)
    rw [hi', ho']
    exact ⟨transferIn_disjoint f3 _ _ _ _ hin d1, d2⟩

/-- **port names** (`in_port_names`, `out_port_names`), for every port list: the property raises iff a port
reaches past the last mode; otherwise mode `i` carries the name of the last port sitting on it, and on
non-overlapping ports that is the name of the one port sitting on it (`""` when there is none) -/
theorem port_names_spec (cs : Nat) (ports : List Port) :
    (portNames cs ports = none ↔ ∃ p ∈ ports, cs < p.start + p.size) ∧
    (∀ names, portNames cs ports = some names →
      names.length = cs ∧ ∀ i, i < cs → names[i]? = some (nameAt ports i "") ∧
        (PortsDisjoint ports → names[i]? = some (((portAt ports i).map (·.name)).getD ""))) := by
  rw [portNames_eq]
  constructor
  · split_ifs with hfit
    · simp only [reduceCtorEq, false_iff, not_exists, not_and, not_lt]
      exact hfit
    · simp only [true_iff]
      by_contra hc
      apply hfit
      intro p hp
      by_contra hlt
      exact hc ⟨p, hp, by omega⟩
  · intro names hn
    split_ifs at hn
    cases hn
    refine ⟨by simp, fun i hi => ?_⟩
    have e : ((List.range cs).map fun i => nameAt ports i "")[i]? = some (nameAt ports i "") := by
      rw [List.getElem?_map, List.getElem?_range hi]; rfl
    exact ⟨e, fun hd => by rw [e, nameAt_of_disjoint ports hd]⟩

/-- **the port names after the add exist** (repaired port transfer): if every port of the left processor lies
inside its circuit, every port of the result lies inside the enlarged circuit, so `in_port_names` /
`out_port_names` do not raise — with `port_names_spec` and `ports_stay_disjoint`, mode `i` then carries the
name of the one port of `ports_reattached` sitting on it. -/
theorem port_names_after_add (f1 : RFlags) (f2 : Bool) (l r : Side) (raw : RawMap) (keep : Bool)
    (res : Result)
    (hli : ∀ p ∈ l.inp, p.start + p.size ≤ l.cs) (hlo : ∀ p ∈ l.outp, p.start + p.size ≤ l.cs)
    (h : compose f1 f2 true l r raw keep = .ok res) :
    (∃ names, portNames res.cs res.inp = some names) ∧ (∃ names, portNames res.cs res.outp = some names) := by
  have key : (∀ p ∈ res.inp, p.start + p.size ≤ res.cs) ∧ (∀ p ∈ res.outp, p.start + p.size ≤ res.cs) :=
    result_ports_inside f1 f2 l r raw keep res hli hlo h
  constructor
  · rw [portNames_eq, if_pos key.1]; exact ⟨_, rfl⟩
  · rw [portNames_eq, if_pos key.2]; exact ⟨_, rfl⟩

/-! ## the permutation `compose` stores wires the resolved mapping and the herald modes -/

/-- wiring read off the value `generate_permutation` returned -/
theorem genPerm_ok_wires (mp : NMap) (hk : mp.keys.Nodup) (perm : Option (List Nat))
    (h : genPerm mp = .ok perm) {k v : Nat} (hm : (k, v) ∈ mp) :
    (∀ σ, perm = some σ → σ[k - minN mp.keys]? = some v) ∧ (perm = none → v = k - minN mp.keys) := by
  have hw := genPerm_wires mp hk hm
  rcases genPerm_ok_cases mp perm h with ⟨rfl, hr⟩ | rfl
  · refine ⟨fun σ hσ => (by cases hσ), fun _ => ?_⟩
    rw [hr] at hw
    have hlt : k - minN mp.keys < (permVect mp).length := by
      by_contra hc
      rw [List.getElem?_eq_none (by simpa using hc)] at hw
      cases hw
    rw [List.getElem?_range hlt] at hw
    exact (Option.some.inj hw).symm
  · exact ⟨fun σ hσ => (by cases hσ; exact hw), fun hn => (by cases hn)⟩

/-- **the permutation stored by `compose` wires the mapping**: after an accepted `add`, for every pair
`k ↦ v` of the resolved mapping — and, for an added processor, for every herald pair
`circuit_size + i ↦ positionᵢ` — the PERM placed at `res.first` sends left mode `k` to input `v` of the
added object; when no PERM was needed, `v = k − res.first` already. -/
theorem compose_wires (f1 : RFlags) (f2 f3 : Bool) (l r : Side) (raw : RawMap) (keep : Bool) (res : Result)
    (h : compose f1 f2 f3 l r raw keep = .ok res) (k v : Nat)
    (hkv : (k, v) ∈ res.map ∨ (r.comp = false ∧ ∃ i, ∃ hi : i < r.heralds.length,
      k = l.cs + i ∧ v = (r.heralds[i]).1)) :
    (∀ σ, res.perm = some σ → σ[k - res.first]? = some v) ∧ (res.perm = none → v = k - res.first) := by
  cases hr : r.comp with
  | true =>
    obtain ⟨d, mp, perm, hd, hmp, hperm, hmap, -, hfirst, hp, -⟩ :=
      compose_comp_inv f1 f2 f3 l r raw keep res hr h
    obtain ⟨-, -, hk, -, -, -⟩ := resolved_nmap_facts f1 l r raw d mp hd hmp
    rw [hfirst, hp]
    rcases hkv with hkv | ⟨hf, -⟩
    · exact genPerm_ok_wires mp hk perm hperm (hmap ▸ hkv)
    · rw [hr] at hf; cases hf
  | false =>
    obtain ⟨d, mp, perm, inp1, outp1, inp2, hd, hmp, hperm, -, -, hmap, -, hfirst, hp, -⟩ :=
      compose_proc_inv f1 f2 f3 l r raw keep res hr h
    obtain ⟨-, -, hk, -, hlt, -⟩ := resolved_nmap_facts f1 l r raw d mp hd hmp
    have hkH := addHeraldedModes_keys_nodup l.cs mp (r.heralds.map (·.1)) hk hlt
    rw [hfirst, hp]
    apply genPerm_ok_wires _ hkH perm hperm
    rcases hkv with hkv | ⟨-, i, hi, rfl, rfl⟩
    · exact (heralds_appended_partial l.cs mp _).2.1 _ (hmap ▸ hkv)
    · have := addHeraldedModes_mem l.cs mp (r.heralds.map (·.1)) i (by simpa using hi)
      simpa only [List.getElem_map] using this

/-! # The post-selection of the result (independence check + merge) -/

/-- **merged post-selection**: after an accepted add of a processor (repaired renaming) the post-selection of
the result holds on a state `s` of the composed processor iff the left post-selection holds on `s` and the
post-selection of the added processor holds on `s` read back through the wiring (`pullMode`; `pullMode_wired`
below says it is the wiring).  A missing post-selection counts as `true`. -/
theorem postselect_merged (f1 : RFlags) (f3 : Bool) (l r : Side) (raw : RawMap) (keep : Bool)
    (res : Result) (hr : r.comp = false) (h : compose f1 true f3 l r raw keep = .ok res)
    (s : Nat → Nat) :
    evalO res.ps s = (evalO l.ps s && evalO r.ps (fun v => s (pullMode res.inv res.first v))) := by
  obtain ⟨d, -, -, hps⟩ := compose_proc_ps_inv f1 true f3 l r raw keep res hr h
  have hq : ∀ q : PS, (renamePS true res.inv res.first q).eval s =
      q.eval (fun v => s (pullMode res.inv res.first v)) := by
    intro q
    cases hi : res.inv with
    | none => rw [postselect_renamed_noperm]; rfl
    | some τ => rw [postselect_renamed]; rfl
  cases hrp : r.ps with
  | none =>
    rw [hrp] at hps
    rw [← Except.ok.inj hps]
    simp [evalO]
  | some q =>
    rw [hrp] at hps
    cases hlp : l.ps with
    | none =>
      rw [hlp] at hps
      rw [← Except.ok.inj hps]
      simp [evalO, hq]
    | some p =>
      rw [hlp] at hps
      simp only at hps
      split_ifs at hps
      rw [← Except.ok.inj hps]
      simp [evalO, PS.eval, hq]

/-- a bare component carries no post-selection: the left one is kept as it is -/
theorem postselect_unchanged_component (f1 : RFlags) (f2 f3 : Bool) (l r : Side) (raw : RawMap)
    (keep : Bool) (res : Result) (hr : r.comp = true)
    (h : compose f1 f2 f3 l r raw keep = .ok res) : res.ps = l.ps := by
  obtain ⟨d, mp, perm, -, -, -, -, -, -, -, -, -, -, -, -, -, -, hps⟩ :=
    compose_comp_inv f1 f2 f3 l r raw keep res hr h
  exact hps

/-- **the read-back is the wiring**: for every pair `k ↦ v` of the mapping (herald pairs included) the mode
the carried-over post-selection reads for right-hand mode `v` is left mode `k` — no well-formedness needed -/
theorem pullMode_wired (f1 : RFlags) (f2 f3 : Bool) (l r : Side) (raw : RawMap) (keep : Bool)
    (res : Result) (hr : r.comp = false) (h : compose f1 f2 f3 l r raw keep = .ok res) {k v : Nat}
    (hkv : (k, v) ∈ permInput l r res.map) : pullMode res.inv res.first v = k := by
  obtain ⟨d, mp, perm, inp1, outp1, inp2, hd, hmp, hperm, -, -, hmap, -, hfirst, -, hinv, -⟩ :=
    compose_proc_inv f1 f2 f3 l r raw keep res hr h
  obtain ⟨hne, -, hk, -, hlt, -⟩ := resolved_nmap_facts f1 l r raw d mp hd hmp
  have hpi : permInput l r res.map = addHeraldedModes l.cs mp (r.heralds.map (·.1)) := by
    simp [permInput, hr, hmap]
  rw [hpi] at hkv
  rw [hinv, hfirst]
  have hkH := addHeraldedModes_keys_nodup l.cs mp (r.heralds.map (·.1)) hk hlt
  obtain ⟨hvn, hvb⟩ := legal_of_genPerm_ok _ hkH perm hperm
  have hge := minN_le (mem_keys_of_mem hkv)
  rcases genPerm_ok_cases _ perm hperm with ⟨rfl, -⟩ | rfl
  · have := (genPerm_ok_wires _ hkH none hperm hkv).2 rfl
    simp only [Option.map_none, pullMode]
    omega
  · simp only [Option.map_some, pullMode]
    exact postselect_renamed_mode _ (List.ne_nil_of_mem hkv) hkH hvn hvb hkv

/-- **independence**: an add is only accepted when no condition of the left post-selection mentions a left
mode that the carried-over post-selection reads, and every condition of the left post-selection contains all
the mapped modes or none (`_validate_postselect_composition`) -/
theorem merged_independent (f1 : RFlags) (f3 : Bool) (l r : Side) (raw : RawMap) (keep : Bool)
    (res : Result) (hr : r.comp = false) (h : compose f1 true f3 l r raw keep = .ok res)
    (p q : PS) (hl : l.ps = some p) (hq : r.ps = some q) :
    (∀ m ∈ p.modes, m ∉ q.modes.map (pullMode res.inv res.first)) ∧
    (∀ c ∈ p.conds, (∀ k ∈ res.map.keys, k ∈ c) ∨ (∀ k ∈ res.map.keys, k ∉ c)) := by
  obtain ⟨d, hd, hval, hps⟩ := compose_proc_ps_inv f1 true f3 l r raw keep res hr h
  obtain ⟨d', mp, perm, -, -, -, hd', hmp, -, -, -, hmap, -⟩ :=
    compose_proc_inv f1 true f3 l r raw keep res hr h
  rw [hd] at hd'; cases hd'
  constructor
  · rw [hq, hl] at hps
    simp only at hps
    split_ifs at hps with hi
    rw [← renamePS_modes]
    exact (independent_iff _ _).1 hi
  · rw [hmap, toNMap_keys d mp hmp]
    simp only [validatePS, hl] at hval
    split_ifs at hval with hc
    exact (canCompose_iff p _).1 hc

/-- the errors `resolve` can raise: never `RuntimeError` -/
theorem resolve_error_classes (fx : RFlags) (l r : Side) (raw : RawMap) (e : Err)
    (h : resolve fx l r raw = .error e) : e ≠ .runtime := by
  have hcc : ∀ n d x, checkConsistency l.cs l.conn n d = .error x → x ≠ .runtime := by
    intro n d x hx
    unfold checkConsistency at hx
    split_ifs at hx <;> cases hx <;> decide
  cases raw with
  | ofInt b =>
    rw [resolve_int_eq] at h
    split at h
    · cases h
    · rename_i e' hc; cases h; exact hcc _ _ _ hc
  | ofList ks =>
    rw [resolve_list_eq] at h
    split_ifs at h
    · cases h; decide
    · split at h
      · cases h
      · rename_i e' hc; cases h; exact hcc _ _ _ hc
  | ofDict items =>
    rcases (resolve_dict_error_iff fx l r items e).1 h with ⟨-, rfl⟩ | ⟨-, ha⟩ | ⟨-, ps, -, hc⟩
    · decide
    · obtain ⟨pre, it, post, -, -, hit⟩ := (allPairs_error_iff fx l r items e).1 ha
      rcases itemPairs_error_class fx l r it e hit with rfl | ⟨rfl, -⟩ <;> decide
    · exact hcc _ _ _ hc

/-- **the only source of `RuntimeError`** ("Cannot automatically compose experiment's post-selection
conditions"): the add of a processor ends in it iff every earlier stage succeeded (mapping resolved, left
post-selection composable, permutation generated, ports transferred), both sides have a post-selection, and the
left one shares a mode with the carried-over one -/
theorem compose_runtime_iff (f1 : RFlags) (f2 f3 : Bool) (l r : Side) (raw : RawMap) (keep : Bool) :
    compose f1 f2 f3 l r raw keep = .error .runtime ↔
      r.comp = false ∧ ∃ d mp perm st inp2 p q,
        resolve f1 l r raw = .ok d ∧ validatePS l (d.keys.map Int.toNat) = .ok () ∧
        toNMap d = some mp ∧ genPerm (addHeraldedModes l.cs mp (r.heralds.map (·.1))) = .ok perm ∧
        transferOut f3 (filled (addHeraldedModes l.cs mp (r.heralds.map (·.1))))
          (l.inp, removePorts keep l.outp (d.keys.map Int.toNat)) r.outp = .ok st ∧
        transferIn f3 (filled (addHeraldedModes l.cs mp (r.heralds.map (·.1)))) st.1 r.inp = .ok inp2 ∧
        l.ps = some p ∧ r.ps = some q ∧
        p.independent (renamePS f2 (perm.map invPerm)
          (minN (addHeraldedModes l.cs mp (r.heralds.map (·.1))).keys) q) = false := by
  have hgp : ∀ mp x, genPerm mp = .error x → x = .assertion := by
    intro mp x hx
    simp only [genPerm] at hx
    split_ifs at hx
    cases hx; rfl
  have hto : ∀ fl st ports x, transferOut f3 fl st ports = .error x → x ≠ .runtime := by
    intro fl st ports
    induction ports generalizing st with
    | nil => intro x hx; obtain ⟨a, b⟩ := st; simp [transferOut] at hx
    | cons p rest ih =>
      intro x hx
      obtain ⟨inp, outp⟩ := st
      simp only [transferOut] at hx
      split at hx
      · cases hx; decide
      · split_ifs at hx
        · exact ih _ x hx
        · cases hx; decide
        · exact ih _ x hx
        · exact ih _ x hx
  have hti : ∀ fl inp ports x, transferIn f3 fl inp ports = .error x → x ≠ .runtime := by
    intro fl inp ports
    induction ports generalizing inp with
    | nil => intro x hx; simp [transferIn] at hx
    | cons p rest ih =>
      intro x hx
      simp only [transferIn] at hx
      split at hx
      · cases hx; decide
      · split_ifs at hx
        · exact ih _ x hx
        · exact ih _ x hx
  constructor
  · intro h
    unfold compose at h
    cases hr : r.comp with
    | true =>
      exfalso
      simp only [bind, Except.bind, pure, Except.pure, throw, throwThe, MonadExceptOf.throw, hr,
        if_true] at h
      split at h
      · rename_i e he; cases h; exact resolve_error_classes f1 l r raw _ he rfl
      · split at h
        · rename_i e he
          cases h
          simp only [validatePS] at he
          split at he
          · split_ifs at he; cases he
          · cases he
        · split at h
          · cases h
          · split at h
            · rename_i e he; cases h; have := hgp _ _ he; cases this
            · cases h
    | false =>
      simp only [bind, Except.bind, pure, Except.pure, throw, throwThe, MonadExceptOf.throw, hr,
        Bool.false_eq_true, if_false] at h
      split at h
      · rename_i e he; cases h; exact absurd rfl (resolve_error_classes f1 l r raw _ he)
      · rename_i d hd
        split at h
        · rename_i e he
          cases h
          simp only [validatePS] at he
          split at he
          · split_ifs at he; cases he
          · cases he
        · rename_i u hval
          split at h
          · cases h
          · rename_i mp hmp
            split at h
            · rename_i e he; cases h; have := hgp _ _ he; cases this
            · rename_i perm hperm
              split at h
              · rename_i e he; cases h; exact absurd rfl (hto _ _ _ _ he)
              · rename_i st hst
                obtain ⟨inp1, outp1⟩ := st
                simp only at h
                split at h
                · rename_i e he; cases h; exact absurd rfl (hti _ _ _ _ he)
                · rename_i inp2 hin
                  split at h
                  · rename_i e he
                    cases h
                    cases u
                    refine ⟨rfl, d, mp, perm, (inp1, outp1), inp2, ?_⟩
                    cases hrp : r.ps with
                    | none => rw [hrp] at he; cases he
                    | some q =>
                      rw [hrp] at he
                      cases hlp : l.ps with
                      | none => rw [hlp] at he; cases he
                      | some p =>
                        rw [hlp] at he
                        simp only at he
                        split_ifs at he with hi
                        exact ⟨p, q, hd, hval, hmp, hperm, hst, hin, rfl, rfl, by simpa using hi⟩
                  · cases h
  · rintro ⟨hr, d, mp, perm, st, inp2, p, q, hd, hval, hmp, hperm, hst, hin, hlp, hrp, hi⟩
    obtain ⟨inp1, outp1⟩ := st
    unfold compose
    simp only [bind, Except.bind, pure, Except.pure, throw, throwThe, MonadExceptOf.throw, hr,
      Bool.false_eq_true, if_false, hd, hval, hmp, hperm, hst, hin, hlp, hrp, hi]

/-! # End to end: the composed matrix in terms of the mapping

`compose_wires` (what the stored permutation does to the mapping) glued with `compose_matrix` /
`compose_matrix_noperm` (what a block built from such a permutation is). -/

/-- **the matrix after `Processor.add(mapping, processor)`, entry by entry, in terms of the mapping**: whatever
the mapping syntax and the flags, after an accepted add of a well-formed processor the matrix of the result is
`A * left` where, writing `k ↦ v` for the pairs of `permInput l r res.map` (the resolved mapping plus the herald
pairs `circuit_size + i ↦ positionᵢ`): `A[ka, kb] = C[va, vb]` for wired `ka ↦ va`, `kb ↦ vb` — light leaving
left mode `kb` enters input `vb` of the added processor and what it puts on its output `va` returns on mode
`ka` —, and every row / column of a mode that is not wired is the identity's: untouched modes are unaffected,
inside the range of the PERM as well as outside. -/
theorem compose_end_to_end_processor (f1 : RFlags) (f2 f3 : Bool) (l r : Side) (raw : RawMap) (keep : Bool)
    (res : Result) (hr : r.comp = false) (hwf : RightWF r)
    (h : compose f1 f2 f3 l r raw keep = .ok res)
    (C : Matrix (Fin r.cs) (Fin r.cs) R) (left : Matrix (Fin res.cs) (Fin res.cs) R) :
    ∃ A : Matrix (Fin res.cs) (Fin res.cs) R,
      composeMat res.cs res.first r.cs res.perm true C left = A * left ∧
      (∀ (ka kb : Fin res.cs) (va vb : Fin r.cs),
        (ka.val, va.val) ∈ permInput l r res.map → (kb.val, vb.val) ∈ permInput l r res.map →
        A ka kb = C va vb) ∧
      (∀ (i j : Fin res.cs),
        ((∀ v, (i.val, v) ∉ permInput l r res.map) ∨ (∀ v, (j.val, v) ∉ permInput l r res.map)) →
        A i j = if i = j then 1 else 0) := by
  obtain ⟨d, mp, perm, inp1, outp1, inp2, hd, hmp, hperm, -, -, hmap, -, hfirst, hp, -, hcs, -⟩ :=
    compose_proc_inv f1 f2 f3 l r raw keep res hr h
  obtain ⟨hne, hlen, hk, -, hlt, -⟩ := resolved_nmap_facts f1 l r raw d mp hd hmp
  obtain ⟨-, -, hmm⟩ := hwf hr
  have hpi : permInput l r res.map = addHeraldedModes l.cs mp (r.heralds.map (·.1)) := by
    simp [permInput, hr, hmap]
  rw [hpi, hfirst, hp]
  generalize hmpH : addHeraldedModes l.cs mp (r.heralds.map (·.1)) = mpH at *
  have hkH : mpH.keys.Nodup := by
    rw [← hmpH]; exact addHeraldedModes_keys_nodup l.cs mp _ hk hlt
  have hL : mpH.length = r.cs := by rw [← hmpH]; simp [addHeraldedModes, hlen, hmm]
  obtain ⟨hvn, hvb⟩ := legal_of_genPerm_ok mpH hkH perm hperm
  have hvperm : IsPermList r.cs mpH.vals := ⟨by simp [NMap.vals, hL], hvn, by rw [← hL]; exact hvb⟩
  have hkeysN : ∀ k ∈ mpH.keys, k < res.cs := by
    intro k hk'
    rw [← hmpH, addHeraldedModes_keys, List.mem_append] at hk'
    rcases hk' with hk' | hk'
    · have := hlt k hk'; omega
    · obtain ⟨i, hi, rfl⟩ := List.mem_map.1 hk'
      rw [List.mem_range, List.length_map] at hi
      omega
  -- every right-hand mode is wired to some left mode
  have hsurj : ∀ w, w < r.cs → ∃ k, (k, w) ∈ mpH := by
    intro w hw
    have := isPermList_mem hvperm hw
    obtain ⟨p, hp', e⟩ := List.mem_map.1 this
    exact ⟨p.1, by rw [← e]; exact hp'⟩
  have hge : ∀ {k v}, (k, v) ∈ mpH → minN mpH.keys ≤ k := fun hm => minN_le (mem_keys_of_mem hm)
  rcases genPerm_ok_cases mpH perm hperm with ⟨rfl, hid⟩ | rfl
  · -- no PERM: the processor is embedded at `first`
    have hw : ∀ {k v}, (k, v) ∈ mpH → v = k - minN mpH.keys :=
      fun hm => (genPerm_ok_wires mpH hkH none hperm hm).2 rfl
    refine ⟨embed res.cs (minN mpH.keys) C, ?_, ?_, ?_⟩
    · simp [composeMat, composeMatV, permAt, permInvAt]
    · intro ka kb va vb ha hb
      have ea := hw ha; have eb := hw hb
      have ga := hge ha; have gb := hge hb
      rw [embed_apply_in_gen C ka kb ⟨ga, by have := va.isLt; omega⟩ ⟨gb, by have := vb.isLt; omega⟩]
      congr 1 <;> exact Fin.ext (by simp only; omega)
    · intro i j hun
      apply embed_apply_out
      have key : ∀ x : Fin res.cs, (∀ v, (x.val, v) ∉ mpH) →
          ¬ (minN mpH.keys ≤ x.val ∧ x.val < minN mpH.keys + r.cs) := by
        intro x hx ⟨h1, h2⟩
        obtain ⟨k, hkm⟩ := hsurj (x.val - minN mpH.keys) (by omega)
        have := hw hkm
        have := hge hkm
        have : k = x.val := by omega
        exact hx _ (this ▸ hkm)
      rcases hun with hun | hun
      · exact Or.inl (key i hun)
      · exact Or.inr (key j hun)
  · -- PERM, processor, inverse PERM
    set σ := permVect mpH with hσdef
    have hσ : IsPermList σ.length σ := genPerm_ok_isPerm mpH _ hperm
    have hLσ : σ.length = mpH.length + (missingModes mpH).length := permVect_length' mpH hkH
    have hkL : r.cs ≤ σ.length := by omega
    have hmpne : mpH ≠ [] := by
      intro e; rw [e] at hL
      cases mp with
      | nil => exact hne rfl
      | cons a t => simp at hlen; simp at hL; omega
    have hN : minN mpH.keys + σ.length ≤ res.cs := by
      have h1 : σ.length = maxN mpH.keys + 1 - minN mpH.keys := genPerm_length mpH hkH
      have hpos : 0 < res.cs := by
        cases mpH with
        | nil => exact absurd rfl hmpne
        | cons a t => have := hkeysN a.1 (by simp [NMap.keys]); omega
      have h2 := maxN_lt hpos hkeysN
      have h3 : minN mpH.keys ≤ maxN mpH.keys := by
        cases mpH with
        | nil => exact absurd rfl hmpne
        | cons a t =>
          have m : a.1 ∈ NMap.keys (a :: t) := by simp [NMap.keys]
          exact le_trans (minN_le m) (le_maxN m)
      omega
    have hw : ∀ {k v}, (k, v) ∈ mpH → σ[k - minN mpH.keys]? = some v :=
      fun hm => genPerm_wires mpH hkH hm
    have hwlt : ∀ {k v}, (k, v) ∈ mpH → k - minN mpH.keys < σ.length := by
      intro k v hm
      by_contra hc
      have := hw hm
      rw [List.getElem?_eq_none (by omega)] at this
      cases this
    refine ⟨embed res.cs (minN mpH.keys) ((permMatF (permFn σ.length σ))ᴴ * embed σ.length 0 C
        * permMatF (permFn σ.length σ)), ?_, ?_, ?_⟩
    · have e : embed res.cs (minN mpH.keys) C =
          embed res.cs (minN mpH.keys) (embed σ.length 0 C) := by
        rw [embed_embed hN (by omega)]; rfl
      simp only [composeMat, composeMatV, MatV.toMatrix_ofMatrix, permAt, permInvAt, ↓reduceIte]
      rw [permMatL_eq_permMatF hσ, e, ← Matrix.mul_assoc, ← Matrix.mul_assoc, embed_mul hN,
        embed_mul hN]
    · intro ka kb va vb ha hb
      have ga := hge ha; have gb := hge hb
      have la := hwlt ha; have lb := hwlt hb
      rw [embed_apply_in_gen _ ka kb ⟨ga, by omega⟩ ⟨gb, by omega⟩, block_apply]
      have fa := permFn_eq_of_getElem hσ ⟨ka.val - minN mpH.keys, la⟩ (hw ha)
      have fb := permFn_eq_of_getElem hσ ⟨kb.val - minN mpH.keys, lb⟩ (hw hb)
      rw [embed_apply_in C _ _ (by rw [fa]; exact va.isLt) (by rw [fb]; exact vb.isLt)]
      congr 1 <;> exact Fin.ext (by assumption)
    · intro i j hun
      -- an unwired mode inside the PERM is sent past the processor
      have key : ∀ x : Fin res.cs, (∀ v, (x.val, v) ∉ mpH) →
          ∀ hx : minN mpH.keys ≤ x.val ∧ x.val < minN mpH.keys + σ.length,
          r.cs ≤ (permFn σ.length σ ⟨x.val - minN mpH.keys, by omega⟩).val := by
        intro x hx hin
        by_contra hc
        have hlt' : (permFn σ.length σ ⟨x.val - minN mpH.keys, by omega⟩).val < r.cs := by omega
        obtain ⟨k, hkm⟩ := hsurj _ hlt'
        have h1 := hw hkm
        have h2 := permFn_getElem hσ ⟨x.val - minN mpH.keys, by omega⟩
        have := nodup_getElem?_eq hσ.2.1 h1 h2
        have := hge hkm
        have e : k = x.val := by simp only at *; omega
        exact hx _ (e ▸ hkm)
      by_cases hi : minN mpH.keys ≤ i.val ∧ i.val < minN mpH.keys + σ.length
      · by_cases hj : minN mpH.keys ≤ j.val ∧ j.val < minN mpH.keys + σ.length
        · rw [embed_apply_in_gen _ i j hi hj, block_apply]
          have hout : ¬ (0 ≤ (permFn σ.length σ ⟨i.val - minN mpH.keys, by omega⟩).val ∧
                (permFn σ.length σ ⟨i.val - minN mpH.keys, by omega⟩).val < 0 + r.cs) ∨
              ¬ (0 ≤ (permFn σ.length σ ⟨j.val - minN mpH.keys, by omega⟩).val ∧
                (permFn σ.length σ ⟨j.val - minN mpH.keys, by omega⟩).val < 0 + r.cs) := by
            rcases hun with hun | hun
            · left; have := key i hun hi; omega
            · right; have := key j hun hj; omega
          rw [embed_apply_out C _ _ hout]
          by_cases e : i = j
          · subst e; simp
          · rw [if_neg e, if_neg]
            intro e'
            have := permFn_injective hσ e'
            apply e
            apply Fin.ext
            have := congrArg Fin.val this
            simp only at this
            omega
        · exact embed_apply_out _ i j (Or.inr hj)
      · exact embed_apply_out _ i j (Or.inl hi)


/-- **the matrix after `Processor.add(mapping, component)`, entry by entry**: the result is `A * left` where the
column of a mapped left mode `kb ↦ vb` is column `vb` of the component, placed on rows `first … first+m-1`
(`first` = smallest mapped mode) — light leaving left mode `kb` enters input `vb` of the component, which sits on
modes `first …` —, and every mode outside `[min, max]` of the mapped modes is untouched (inside, unmapped modes
are merely relabelled by the PERM: no inverse PERM follows a bare component). -/
theorem compose_end_to_end_component (f1 : RFlags) (f2 f3 : Bool) (l r : Side) (raw : RawMap)
    (keep : Bool) (res : Result) (hr : r.comp = true)
    (h : compose f1 f2 f3 l r raw keep = .ok res)
    (C : Matrix (Fin r.m) (Fin r.m) R) (left : Matrix (Fin res.cs) (Fin res.cs) R) :
    ∃ A : Matrix (Fin res.cs) (Fin res.cs) R,
      composeMat res.cs res.first r.m res.perm false C left = A * left ∧
      (∀ (kb : Fin res.cs) (vb : Fin r.m), (kb.val, vb.val) ∈ res.map → ∀ i : Fin res.cs,
        A i kb = if hi : res.first ≤ i.val ∧ i.val < res.first + r.m
          then C ⟨i.val - res.first, by omega⟩ vb else 0) ∧
      (∀ (i j : Fin res.cs), (i.val < res.first ∨ maxN res.map.keys < i.val) →
        A i j = if i = j then 1 else 0) := by
  obtain ⟨d, mp, perm, hd, hmp, hperm, hmap, -, hfirst, hp, -, hcs, -⟩ :=
    compose_comp_inv f1 f2 f3 l r raw keep res hr h
  obtain ⟨hne, hlen, hk, -, hlt, -⟩ := resolved_nmap_facts f1 l r raw d mp hd hmp
  rw [hmap, hp]
  have hmn : minN mp.keys = res.first := hfirst.symm
  obtain ⟨hvn, hvb⟩ := legal_of_genPerm_ok mp hk perm hperm
  have hvperm : IsPermList r.m mp.vals := ⟨by simp [NMap.vals, hlen], hvn, by rw [← hlen]; exact hvb⟩
  have hkeysN : ∀ k ∈ mp.keys, k < res.cs := fun k hk' => by have := hlt k hk'; omega
  have hge : ∀ {k v}, (k, v) ∈ mp → res.first ≤ k := fun hm => hmn ▸ minN_le (mem_keys_of_mem hm)
  have hle : ∀ {k v}, (k, v) ∈ mp → k ≤ maxN mp.keys := fun hm => le_maxN (mem_keys_of_mem hm)
  have hmpos : 0 < r.m := by rw [← hlen]; exact List.length_pos_iff.2 hne
  rcases genPerm_ok_cases mp perm hperm with ⟨rfl, hid⟩ | rfl
  · have hw : ∀ {k v}, (k, v) ∈ mp → v = k - res.first :=
      fun hm => by rw [← hmn]; exact (genPerm_ok_wires mp hk none hperm hm).2 rfl
    -- the largest right-hand mode sits on the largest mapped mode
    have hmax : res.first + r.m ≤ maxN mp.keys + 1 := by
      have := isPermList_mem hvperm (by omega : r.m - 1 < r.m)
      obtain ⟨p, hp', e⟩ := List.mem_map.1 this
      have h1 := hw (k := p.1) (v := p.2) hp'
      have h2 := hge (k := p.1) (v := p.2) hp'
      have h3 := hle (k := p.1) (v := p.2) hp'
      omega
    refine ⟨embed res.cs (res.first) C, ?_, ?_, ?_⟩
    · simp [composeMat, composeMatV, permAt]
    · intro kb vb hb i
      have eb := hw hb; have gb := hge hb
      have hbin : res.first ≤ kb.val ∧ kb.val < res.first + r.m := ⟨gb, by have := vb.isLt; omega⟩
      by_cases hi : res.first ≤ i.val ∧ i.val < res.first + r.m
      · rw [dif_pos hi, embed_apply_in_gen C i kb hi hbin]
        congr 1; exact Fin.ext (by simp only; omega)
      · rw [dif_neg hi, embed_apply_out C i kb (Or.inl hi), if_neg]
        rintro rfl; exact hi hbin
    · intro i j hi
      exact embed_apply_out C i j (Or.inl (by omega))
  · set σ := permVect mp with hσdef
    have hσ : IsPermList σ.length σ := genPerm_ok_isPerm mp _ hperm
    have hLσ : σ.length = mp.length + (missingModes mp).length := permVect_length' mp hk
    have hkL : r.m ≤ σ.length := by omega
    have h1 : σ.length = maxN mp.keys + 1 - res.first := hmn ▸ genPerm_length mp hk
    have h3 : res.first ≤ maxN mp.keys := by
      cases mp with
      | nil => exact absurd rfl hne
      | cons a t =>
        have m : a.1 ∈ NMap.keys (a :: t) := by simp [NMap.keys]
        rw [← hmn]
        exact le_trans (minN_le m) (le_maxN m)
    have hN : res.first + σ.length ≤ res.cs := by
      have hpos : 0 < res.cs := by
        cases mp with
        | nil => exact absurd rfl hne
        | cons a t => have := hkeysN a.1 (by simp [NMap.keys]); omega
      have h2 := maxN_lt hpos hkeysN
      omega
    have hw : ∀ {k v}, (k, v) ∈ mp → σ[k - res.first]? = some v :=
      fun hm => hmn ▸ genPerm_wires mp hk hm
    have hwlt : ∀ {k v}, (k, v) ∈ mp → k - res.first < σ.length := by
      intro k v hm
      by_contra hc
      have := hw hm
      rw [List.getElem?_eq_none (by omega)] at this
      cases this
    refine ⟨embed res.cs (res.first) (embed σ.length 0 C * permMatF (permFn σ.length σ)), ?_, ?_, ?_⟩
    · have e : embed res.cs (res.first) C = embed res.cs (res.first) (embed σ.length 0 C) := by
        rw [embed_embed hN (by omega)]; rfl
      simp only [composeMat, composeMatV, MatV.toMatrix_ofMatrix, permAt, Bool.false_eq_true,
        ↓reduceIte]
      rw [permMatL_eq_permMatF hσ, e, ← Matrix.mul_assoc, embed_mul hN]
    · intro kb vb hb i
      have gb := hge hb; have lb := hwlt hb
      have fb := permFn_eq_of_getElem hσ ⟨kb.val - res.first, lb⟩ (hw hb)
      have hbin : res.first ≤ kb.val ∧ kb.val < res.first + σ.length := ⟨gb, by omega⟩
      by_cases hiL : res.first ≤ i.val ∧ i.val < res.first + σ.length
      · rw [embed_apply_in_gen _ i kb hiL hbin, mul_permMatF_apply]
        by_cases hi : res.first ≤ i.val ∧ i.val < res.first + r.m
        · rw [dif_pos hi, embed_apply_in C _ _ (by simp only; omega) (by rw [fb]; exact vb.isLt)]
          congr 1; exact Fin.ext fb
        · rw [dif_neg hi, embed_apply_out C _ _ (Or.inl (by simp only; omega)), if_neg]
          intro e
          have := congrArg Fin.val e
          rw [fb] at this
          simp only at this
          have := vb.isLt
          omega
      · have hi : ¬ (res.first ≤ i.val ∧ i.val < res.first + r.m) := by omega
        rw [dif_neg hi, embed_apply_out _ i kb (Or.inl hiL), if_neg]
        rintro rfl; exact hiL hbin
    · intro i j hi
      exact embed_apply_out _ i j (Or.inl (by omega))

/-! ## non-vacuity of the end-to-end statements -/

/-- 3-mode left processor, mode 1 heralded (expected 0) -/
def exL : Side :=
  { comp := false, m := 2, cs := 3, conn := [true, false, true], heralds := [(1, 0)],
    dets := [none, some "pnr", none],
    outp := [⟨1, 1, "herald0", true, 0, none⟩], inp := [⟨1, 1, "herald0", true, 0, none⟩],
    outNames := ["", "herald0", ""], inNames := ["", "herald0", ""], ps := none }

/-- 3-mode right processor: heralds declared on mode 2 (expected 1, threshold detector) then mode 0
(expected 0, PNR detector); one mode of interest (mode 1) -/
def exR : Side :=
  { comp := false, m := 1, cs := 3, conn := [false, true, false], heralds := [(2, 1), (0, 0)],
    dets := [some "pnr", none, some "threshold"],
    outp := [⟨2, 1, "herald0", true, 1, none⟩, ⟨0, 1, "herald1", true, 0, none⟩],
    inp := [⟨2, 1, "herald0", true, 1, none⟩, ⟨0, 1, "herald1", true, 0, none⟩],
    outNames := ["herald1", "", "herald0"], inNames := ["herald1", "", "herald0"], ps := none }

/-- a bare 2-mode component -/
def exC2 : Side :=
  { comp := true, m := 2, cs := 2, conn := [true, true], heralds := [], dets := [], outp := [], inp := [],
    outNames := [], inNames := [], ps := none }

/-- what the examples look at in the outcome of `compose` -/
structure ExObs where
  cs : Nat
  heralds : List (Nat × Nat)
  dets : List (Option String)
  perm : Option (List Nat)
  conn : List Bool
deriving DecidableEq

def exObs : Except Err Result → Except Err ExObs
  | .ok res => .ok ⟨res.cs, res.heralds, res.dets, res.perm, res.conn⟩
  | .error e => .error e

/-- hypotheses of `heralds_appended`, `compose_keeps_heralds_reserved`, `result_heralds_reserved` -/
example : exR.comp = false ∧ exL.conn.length = exL.cs ∧ exL.heralds = heraldsOf exL.outp ∧
    exR.heralds = heraldsOf exR.outp ∧ HeraldPortsReserved exL.cs exL.conn exL.outp ∧ RightWF exR := by
  refine ⟨rfl, rfl, by decide, by decide, ?_, ?_⟩
  · unfold HeraldPortsReserved; decide
  · unfold RightWF; decide

/-- `add([2], exR)` on `exL`: accepted; modes 3 and 4 are appended for the heralds on positions 2 and 0 -/
example : exObs (compose .all true true exL exR (.ofList [2]) false) =
    .ok ⟨5, [(1, 0), (3, 1), (4, 0)], [none, some "pnr", none, some "threshold", some "pnr"],
      some [1, 2, 0], [true, false, true, false, false]⟩ := by decide

/-- `add([2, 0], component)` on `exL`: nothing changes in the bookkeeping -/
example : exObs (compose .all true true exL exC2 (.ofList [2, 0]) false) =
    .ok ⟨3, [(1, 0)], [none, some "pnr", none], some [1, 2, 0], [true, false, true]⟩ := by decide

/-- hypotheses of `genPerm_never_raises` / `genPerm_ok_iff` on `{2: 1, 3: 2, 4: 0}`; an illegal mapping
(`{0: 0, 1: 2}`, right-hand mode out of range) ends in PERM's assertion -/
example : ([(2, 1), (3, 2), (4, 0)] : NMap) ≠ [] ∧ (NMap.keys [(2, 1), (3, 2), (4, 0)]).Nodup ∧
    (NMap.vals [(2, 1), (3, 2), (4, 0)]).Nodup ∧
    (∀ v ∈ NMap.vals [(2, 1), (3, 2), (4, 0)], v < 3) ∧
    genPerm [(2, 1), (3, 2), (4, 0)] = .ok (some [1, 2, 0]) ∧
    genPerm [(0, 0), (1, 2)] = .error .assertion := by decide

/-- the offset and list forms on the same objects -/
example : resolve .all exL exR (.ofInt 2) = .ok [(2, 1)] ∧ intMap 2 exR = [(2, 1)] ∧
    resolve .all exL exR (.ofInt 1) = .error .unavailable ∧
    resolve .all exL exC2 (.ofList [2, 0]) = .ok [(2, 0), (0, 1)] ∧
    listMap [2, 0] exC2 = [(2, 0), (0, 1)] ∧
    resolve .all exL exC2 (.ofList [2, 2]) = .error .invalid ∧
    resolve .all exL exC2 (.ofList [2]) = .error .invalid ∧
    resolve .all exL exC2 (.ofList [2, 1]) = .error .unavailable ∧
    0 < exR.m ∧ 0 < exC2.m := by decide

example : RightWF exC2 := by unfold RightWF; decide

/-- `compose_no_perm_assertion` is not vacuous: with a left post-selection on modes {0, 1}, plugging onto
mode 0 and 2 trips the `can_compose_with` assertion -/
example : exObs (compose .all true true { exL with ps := some (.cond [0, 1] .eq 1) } exC2
    (.ofList [2, 0]) false) = .error .assertion := by decide

/-! ## non-vacuity of the extension (dictionary forms, ports, post-selection, end-to-end matrix) -/

/-- 4-mode left processor: a one-mode port `a` on mode 0, a two-mode port `d` on modes 1-2 -/
def exLp : Side :=
  { comp := false, m := 4, cs := 4, conn := [true, true, true, true], heralds := [], dets := [none, none, none, none],
    outp := [⟨0, 1, "a", false, 0, none⟩, ⟨1, 2, "d", false, 0, none⟩],
    inp := [⟨0, 1, "a", false, 0, none⟩, ⟨1, 2, "d", false, 0, none⟩],
    outNames := ["a", "d", "d", ""], inNames := ["a", "d", "d", ""], ps := none }

/-- 3-mode right processor: herald on mode 0 (expected 1), a two-mode port `rd` on modes 1-2, post-selection
`[1] == 1` -/
def exRp : Side :=
  { comp := false, m := 2, cs := 3, conn := [false, true, true], heralds := [(0, 1)], dets := [none, none, none],
    outp := [⟨0, 1, "herald0", true, 1, none⟩, ⟨1, 2, "rd", false, 0, none⟩],
    inp := [⟨0, 1, "herald0", true, 1, none⟩, ⟨1, 2, "rd", false, 0, none⟩],
    outNames := ["herald0", "rd", "rd"], inNames := ["herald0", "rd", "rd"],
    ps := some (.cond [1] .eq 1) }

/-- a bare 1-mode component -/
def exC1 : Side :=
  { comp := true, m := 1, cs := 1, conn := [true], heralds := [], dets := [], outp := [], inp := [],
    outNames := [], inNames := [], ps := none }

/-- every key form of a dictionary mapping, on the repaired model -/
example :
    itemPairs .all exLp exRp (.name "a", .int 2) = .ok [(0, 2)] ∧
    itemPairs .all exLp exRp (.name "d", .list [2, 1]) = .ok [(1, 2), (2, 1)] ∧
    itemPairs .all exLp exRp (.name "d", .name "rd") = .ok [(1, 1), (2, 2)] ∧
    itemPairs .all exLp exRp (.int 3, .list [1]) = .ok [(3, 1)] ∧
    itemPairs .all exLp exRp (.int 3, .name "rd") = .error .invalid ∧
    itemPairs .all exLp exRp (.name "zz", .int 0) = .error .invalid ∧
    itemPairs .all exLp exRp (.name "d", .int 0) = .error .invalid ∧
    itemPairs .all exLp exC2 (.name "d", .int 0) = .error .assertion ∧
    itemPairs .all exLp exRp (.name "d", .list [1]) = .error .invalid := by decide

/-- `add({'d': 'rd'}, exRp)` and `add({'d': [2, 1]}, exRp)` on `exLp`; an unknown port; a value on the herald mode
of the added processor passes `resolve` and is caught by PERM's assertion only (`genPerm_ok_iff_vals_moi`) -/
example :
    resolve .all exLp exRp (.ofDict [(.name "d", .name "rd")]) = .ok [(1, 1), (2, 2)] ∧
    resolve .all exLp exRp (.ofDict [(.name "d", .list [2, 1])]) = .ok [(1, 2), (2, 1)] ∧
    resolve .all exLp exRp (.ofDict [(.name "q", .name "rd")]) = .error .invalid ∧
    resolve .all exLp exRp (.ofDict [(.name "d", .list [0, 1])]) = .ok [(1, 0), (2, 1)] ∧
    exObs (compose .all true true exLp exRp (.ofDict [(.name "d", .list [0, 1])]) true) = .error .assertion ∧
    0 < exRp.m ∧ typeChecks exRp [(.name "d", .name "rd")] = true := by decide

/-- the behaviour as found (`skip = false`): `{0: [0], 1: 0}` on a one-mode component is accepted, the first
item being silently ignored; repaired, the two pairs make a mapping of the wrong size.  `{0: [0]}` alone is
refused as found and accepted repaired.  A left mode named twice: the last value wins (`dictOf_mem_iff`). -/
example :
    resolve ⟨true, false⟩ exLp exC1 (.ofDict [(.int 0, .list [0]), (.int 1, .int 0)]) = .ok [(1, 0)] ∧
    resolve .all exLp exC1 (.ofDict [(.int 0, .list [0]), (.int 1, .int 0)]) = .error .invalid ∧
    resolve ⟨true, false⟩ exLp exC1 (.ofDict [(.int 0, .list [0])]) = .error .invalid ∧
    resolve .all exLp exC1 (.ofDict [(.int 0, .list [0])]) = .ok [(0, 0)] ∧
    resolve ⟨false, true⟩ exLp exC1 (.ofDict [(.name "a", .int 0)]) = .error .invalid ∧
    resolve .all exLp exC1 (.ofDict [(.name "a", .int 0)]) = .ok [(0, 0)] ∧
    resolve .all exLp exC1 (.ofDict [(.name "a", .int 5), (.int 0, .int 0)]) = .ok [(0, 0)] ∧
    lastVal [(0, 5), (0, 0)] 0 = some 0 := by decide

/-- what the examples look at in the ports / post-selection of the outcome -/
structure ExPorts where
  inp : List (Nat × Nat × String)
  outp : List (Nat × Nat × String)
  inNames : Option (List String)
  outNames : Option (List String)
  ps : Option (List (List Nat))
deriving DecidableEq

def exPorts : Except Err Result → Except Err ExPorts
  | .ok res => .ok ⟨res.inp.map fun p => (p.start, p.size, p.name), res.outp.map fun p => (p.start, p.size, p.name),
      portNames res.cs res.inp, portNames res.cs res.outp, res.ps.map (·.conds)⟩
  | .error e => .error e

/-- `add({'d': 'rd'}, exRp)` with `keep_port`: the port `d` is still on modes 1-2 on both sides, so `rd` is dropped
on both sides (modes not free); the herald is appended on mode 4 as an input and an output port; the
post-selection `[1] == 1` is carried over onto mode 1 -/
example : exPorts (compose .all true true exLp exRp (.ofDict [(.name "d", .name "rd")]) true) =
    .ok ⟨[(0, 1, "a"), (1, 2, "d"), (4, 1, "herald#")], [(0, 1, "a"), (1, 2, "d"), (4, 1, "herald#")],
      some ["a", "d", "d", "", "herald#"], some ["a", "d", "d", "", "herald#"], some [[1]]⟩ := by decide

/-- with `keep_port = False` the output port `d` is removed first, so `rd` is re-attached on the output side; a
crossed mapping `{'d': [2, 1]}` does not send `rd` onto consecutive modes in order: it is dropped, and the
post-selection on right-hand mode 1 lands on left mode 2 -/
example :
    exPorts (compose .all true true exLp exRp (.ofDict [(.name "d", .name "rd")]) false) =
      .ok ⟨[(0, 1, "a"), (1, 2, "d"), (4, 1, "herald#")], [(0, 1, "a"), (4, 1, "herald#"), (1, 2, "rd")],
        some ["a", "d", "d", "", "herald#"], some ["a", "rd", "rd", "", "herald#"], some [[1]]⟩ ∧
    exPorts (compose .all true true exLp exRp (.ofDict [(.name "d", .list [2, 1])]) false) =
      .ok ⟨[(0, 1, "a"), (1, 2, "d"), (4, 1, "herald#")], [(0, 1, "a"), (4, 1, "herald#")],
        some ["a", "d", "d", "", "herald#"], some ["a", "", "", "", "herald#"], some [[2]]⟩ := by decide

/-- hypotheses of `ports_stay_disjoint`, `port_names_after_add`, `compose_end_to_end_processor` on these objects -/
example : PortsDisjoint exLp.inp ∧ PortsDisjoint exLp.outp ∧ (∀ p ∈ exLp.inp, p.start + p.size ≤ exLp.cs) ∧
    (∀ p ∈ exLp.outp, p.start + p.size ≤ exLp.cs) ∧ RightWF exRp ∧ exRp.comp = false := by
  have hd : PortsDisjoint [(⟨0, 1, "a", false, 0, none⟩ : Port), ⟨1, 2, "d", false, 0, none⟩] := by
    unfold PortsDisjoint
    simp only [List.pairwise_cons, List.mem_singleton, forall_eq, List.not_mem_nil, false_implies,
      implies_true, List.Pairwise.nil, and_true, covers]
    intro m
    omega
  refine ⟨hd, hd, by decide, by decide, ?_, rfl⟩
  unfold RightWF; decide

/-- merged post-selection and its refusal: a left post-selection on mode 3 composes with the carried-over one on
mode 1; one on mode 1 shares a mode with it -> `RuntimeError`; one on modes {1, 3} straddles the mapped modes
-> the `can_compose_with` assertion -/
example :
    exPorts (compose .all true true { exLp with ps := some (.cond [3] .eq 0) } exRp (.ofInt 1) true) =
      .ok ⟨[(0, 1, "a"), (1, 2, "d"), (4, 1, "herald#")], [(0, 1, "a"), (1, 2, "d"), (4, 1, "herald#")],
        some ["a", "d", "d", "", "herald#"], some ["a", "d", "d", "", "herald#"], some [[3], [1]]⟩ ∧
    exObs (compose .all true true { exLp with ps := some (.cond [1, 2] .eq 0) } exRp (.ofInt 1) true) =
      .error .runtime ∧
    exObs (compose .all true true { exLp with ps := some (.cond [1, 3] .eq 0) } exRp (.ofInt 1) true) =
      .error .assertion := by decide

/-! # Extension 3: the life of a processor (`Model/C10Hist.lean`)

The composition theorems above assume of the left processor that its bookkeeping is well formed (`heralds` is the
list of herald ports, herald ports are one-mode ports on modes that are not connectible, one mode type per mode,
ports do not overlap).  Below these facts are proved for EVERY processor obtained from `Processor(backend, m)` /
`Processor(backend)` by any sequence of successful `add_herald`, `add_port`, `remove_port`, `add(mode, Detector)`,
`set_postselection` and `add(mapping, component-or-processor, keep_port)` calls — in the repaired model
(`fixM0 = true`); for the code as found (`self.m == 0` at the top of `Experiment.add`) the statement is false, with a
proved counter-example. -/

/-- one accepted `add` (with the repaired prelude) keeps the bookkeeping invariant -/
theorem addObj_inv (e e' : Exp) (r : Side) (raw : RawMap) (keep : Bool) (hi : ExpInv e)
    (hrh : r.comp = false → r.heralds = heraldsOf r.outp)
    (h : addObj true e r raw keep = .ok e') : ExpInv e' := by
  unfold addObj at h
  split at h
  · cases h
  · rename_i e1 h1
    obtain ⟨hi1, -, -, -, -⟩ := defaultM_inv e e1 _ hi h1
    split at h
    · cases h
    · rename_i res hres
      cases h
      have hl : e1.side.conn.length = e1.side.cs := by
        show (e1.mt.map MT.isPhot).length = e1.cs
        rw [List.length_map, hi1.cs_eq]
      obtain ⟨-, hheq, hresv⟩ := compose_keeps_heralds_reserved .all true true e1.side r raw keep res hl hrh
        hi1.reserved hres
      obtain ⟨hcs, hconn⟩ := compose_conn .all true true e1.side r raw keep res hres
      obtain ⟨hdI, hdO⟩ := ports_stay_disjoint .all true true e1.side r raw keep res hi1.disjI hi1.disjO hres
      have hlen1 := hi1.len
      have hcs1 : e1.side.cs = e1.mt.length := hi1.cs_eq
      have hcs' : (e1.after r res).cs = res.cs ∧ (e1.after r res).mt.map MT.isPhot = res.conn ∧
          e1.mt.length ≤ (e1.after r res).mt.length ∧
          ((e1.after r res).nmoi + ((e1.after r res).nher : Int) = ((e1.after r res).mt.length : Int)) := by
        rw [hcs, hconn]
        unfold Exp.after Exp.cs csAfter connAfter
        cases hc : r.comp with
        | true =>
          simp only [if_true]
          exact ⟨rfl, rfl, le_refl _, hlen1⟩
        | false =>
          simp only [Bool.false_eq_true, if_false]
          refine ⟨?_, map_isPhot_append_heralds _ _, by simp, by simp; push_cast; omega⟩
          show (e1.nmoi + ((e1.nher + r.heralds.length : Nat) : Int)).toNat = e1.cs + r.heralds.length
          unfold Exp.cs; push_cast; omega
      obtain ⟨e1cs, e1conn, e1le, e1len⟩ := hcs'
      refine ⟨e1len, ?_, ?_, hdI, hdO⟩
      · show HeraldPortsReserved (e1.after r res).cs ((e1.after r res).mt.map MT.isPhot) res.outp
        rw [e1cs, e1conn]; exact hresv
      · intro x hx
        replace hx : x ∈ heraldsOf res.outp := hx
        rw [← hheq] at hx
        cases hc : r.comp with
        | true =>
          obtain ⟨-, hh, -⟩ := heralds_unchanged_component .all true true e1.side r raw keep res hc rfl
            (HeraldPortsReserved.covered hi1.reserved) hres
          rw [hh] at hx
          exact lt_of_lt_of_le (hi1.inside x hx) e1le
        | false =>
          obtain ⟨-, hh, -⟩ := heralds_appended .all true true e1.side r raw keep res hc rfl
            (HeraldPortsReserved.covered hi1.reserved) (hrh hc) hres
          rw [hh] at hx
          rcases List.mem_append.1 hx with hx | hx
          · exact lt_of_lt_of_le (hi1.inside x hx) e1le
          · obtain ⟨i, hi', e''⟩ := List.mem_iff_getElem.1 hx
            simp only [List.getElem_zipWith, List.getElem_range] at e''
            simp only [List.length_zipWith, List.length_range] at hi'
            have hx1 : x.1 = e1.side.cs + i := (congrArg Prod.fst e'').symm
            have : (e1.after r res).mt.length = e1.mt.length + r.heralds.length := by
              unfold Exp.after; simp [hc]
            rw [hx1, this, hcs1]; omega

theorem stepH_inv (e e' : Exp) (op : HOp) (hi : ExpInv e) (hok : op.rightOK)
    (h : stepH true e op = .ok e') : ExpInv e' := by
  cases op with
  | herald mode expected name => exact addHerald_inv e e' mode expected name hi h
  | port mode size name loc => exact addPort_inv e e' mode size name loc hi h
  | rmport mode loc => exact removePort_inv e e' mode loc hi h
  | det mode name => exact addDet_inv e e' mode name hi h
  | setps ps => cases h; exact setps_inv e ps hi
  | add r raw keep => exact addObj_inv e e' r raw keep hi hok h

/-- **the bookkeeping invariant holds after every history**: whatever sequence of successful public calls built the
processor (repaired prelude of `add`) -/
theorem history_invariant (m : Option Nat) (ops : List HOp) (e : Exp)
    (hok : ∀ op ∈ ops, op.rightOK) (h : history true m ops = .ok e) : ExpInv e := by
  unfold history at h
  split at h
  · cases h
  · rename_i e0 h0
    have hi0 := new_inv m e0 h0
    clear h0
    induction ops generalizing e0 with
    | nil => cases h; exact hi0
    | cons op rest ih =>
      unfold runH at h
      split at h
      · cases h
      · rename_i e1 h1
        exact ih (fun o ho => hok o (List.mem_cons_of_mem _ ho)) e1 h
          (stepH_inv e0 e1 op hi0 (hok op List.mem_cons_self) h1)

/-- **the hypotheses of the composition theorems, discharged**: for the processor any history leaves behind, seen as
the LEFT side of the next `add`: one availability flag per mode, `heralds` is the list of herald ports, herald ports
are one-mode ports on modes that are not connectible, no two ports overlap on either side, and every mode listed in
`heralds` is a mode of the circuit that is not connectible -/
theorem history_left_wf (m : Option Nat) (ops : List HOp) (e : Exp)
    (hok : ∀ op ∈ ops, op.rightOK) (h : history true m ops = .ok e) :
    e.side.conn.length = e.side.cs ∧ e.side.heralds = heraldsOf e.side.outp ∧
    HeraldPortsReserved e.side.cs e.side.conn e.side.outp ∧
    PortsDisjoint e.side.inp ∧ PortsDisjoint e.side.outp ∧
    (∀ hm ∈ e.side.heralds, hm.1 < e.side.cs ∧ connectible e.side.cs e.side.conn (hm.1 : Int) = false) := by
  have hi := history_invariant m ops e hok h
  refine ⟨?_, rfl, hi.reserved, hi.disjI, hi.disjO, ?_⟩
  · show (e.mt.map MT.isPhot).length = e.cs
    rw [List.length_map, hi.cs_eq]
  · intro hm hmem
    obtain ⟨p, hpo, hph, hs, -⟩ := mem_heraldsOf hmem
    refine ⟨?_, ?_⟩
    · show hm.1 < e.cs
      rw [hi.cs_eq]; exact hi.inside hm hmem
    · rw [← hs]; exact (hi.reserved p hpo hph).2

/-- `heralds_appended` without hypotheses on the left processor: it is the result of ANY history -/
theorem heralds_appended_after_history (m : Option Nat) (ops : List HOp) (e : Exp)
    (hok : ∀ op ∈ ops, op.rightOK) (hh : history true m ops = .ok e)
    (f1 : RFlags) (f2 f3 : Bool) (r : Side) (raw : RawMap) (keep : Bool) (res : Result)
    (hr : r.comp = false) (hrh : r.heralds = heraldsOf r.outp)
    (h : compose f1 f2 f3 e.side r raw keep = .ok res) :
    res.cs = e.cs + r.heralds.length ∧
    res.heralds = heraldsOf e.outp ++
      (List.range r.heralds.length).zipWith (fun i h => (e.cs + i, h.2)) r.heralds ∧
    res.dets = e.dets ++ r.heralds.map (fun h => r.dets.getD h.1 none) ∧
    (∀ hm ∈ res.heralds, connectible res.cs res.conn (hm.1 : Int) = false) := by
  obtain ⟨hl, -, hres, -, -, -⟩ := history_left_wf m ops e hok hh
  obtain ⟨a, b, c⟩ := heralds_appended f1 f2 f3 e.side r raw keep res hr rfl
    (HeraldPortsReserved.covered hres) hrh h
  exact ⟨a, b, c, result_heralds_reserved f1 f2 f3 e.side r raw keep res hl (fun _ => hrh) hres h⟩

/-- a processor whose two modes were both declared heralds, then `add(0, <two-mode component>)` -/
def exHistOps : List HOp :=
  [.herald 0 1 none, .herald 1 0 none,
   .add ⟨true, 2, 2, [], [], [], [], [], [], [], none⟩ (.ofInt 0) true]

/-- what the two models answer on it: the code as found accepts the component ON the two herald modes, reports a
circuit of 4 modes and both herald modes connectible; repaired, the add is refused (`UnavailableModeException`) -/
theorem exHist_outcomes :
    ((history false (some 2) exHistOps).toOption.map fun e => (e.cs, e.side.conn, heraldsOf e.outp)) =
      some (4, [true, true], [(0, 1), (1, 0)]) ∧
    ((history true (some 2) exHistOps).toOption.map fun e => e.cs) = none ∧
    ((history true (some 2) (exHistOps.take 2)).toOption.map fun e => (e.cs, e.side.conn, heraldsOf e.outp)) =
      some (2, [false, false], [(0, 1), (1, 0)]) := by decide

/-- **the code as found violates it**: with `self.m == 0` as the test for "number of modes never given", a processor
all of whose modes are heralds accepts a component on its herald modes — a mode listed in `heralds` is connectible
after a history of successful calls -/
theorem history_heralds_reserved_fails_on_current_code :
    ¬ (∀ (m : Option Nat) (ops : List HOp) (e : Exp), (∀ op ∈ ops, op.rightOK) → history false m ops = .ok e →
        ∀ hm ∈ e.side.heralds, connectible e.side.cs e.side.conn (hm.1 : Int) = false) := by
  intro H
  have h1 := exHist_outcomes.1
  cases hh : history false (some 2) exHistOps with
  | error x => rw [hh] at h1; cases h1
  | ok e =>
    rw [hh] at h1
    simp only [Except.toOption, Option.map_some, Option.some.injEq, Prod.mk.injEq] at h1
    obtain ⟨hcs, hconn, hher⟩ := h1
    have hok : ∀ op ∈ exHistOps, op.rightOK := by
      intro op hop
      simp only [exHistOps, List.mem_cons, List.not_mem_nil, or_false] at hop
      rcases hop with rfl | rfl | rfl
      · trivial
      · trivial
      · intro hc; cases hc
    have := H (some 2) exHistOps e hok hh (0, 1) (by show (0, 1) ∈ heraldsOf e.outp; rw [hher]; simp)
    have hc : e.side.cs = 4 := hcs
    rw [hc, hconn] at this
    revert this; decide

/-! # Extension 5: a history-built processor as the ADDED object (`Model/C10HistR.lean`)

`RightWF` — herald positions distinct and inside the circuit, `m = circuit_size − #heralds` — was a hypothesis on the
added processor, checked by the harness.  Below it is a theorem about every processor obtained by a history of
successful public calls in which no `remove_port` takes a herald port off the OUTPUT side (`historyKeeps`): the
counter `_n_heralds` stays in step with the herald ports (`HerCount`), the herald ports sit on distinct modes of the
circuit (invariant of extension 3), hence `#heralds ≤ circuit_size`, `_n_moi ≥ 0` and `m + #heralds = circuit_size`.
Without the side condition the statement is false for the code (and the repaired code): `remove_port` leaves
`_n_heralds`, `_n_moi` and the mode type alone — proved counter-example below. -/

/-- one accepted `add` keeps `_n_heralds` in step with the herald ports of `_out_ports` -/
theorem addObj_count (e e' : Exp) (r : Side) (raw : RawMap) (keep : Bool) (hi : ExpInv e) (hc : HerCount e)
    (hrh : r.comp = false → r.heralds = heraldsOf r.outp)
    (h : addObj true e r raw keep = .ok e') : HerCount e' := by
  unfold addObj at h
  split at h
  · cases h
  · rename_i e1 h1
    obtain ⟨hi1, -, -, -, -⟩ := defaultM_inv e e1 _ hi h1
    obtain ⟨hc1, -⟩ := defaultM_count e e1 _ hc h1
    split at h
    · cases h
    · rename_i res hres
      cases h
      have hl : e1.side.conn.length = e1.side.cs := by
        show (e1.mt.map MT.isPhot).length = e1.cs
        rw [List.length_map, hi1.cs_eq]
      obtain ⟨-, hheq, -⟩ := compose_keeps_heralds_reserved .all true true e1.side r raw keep res hl hrh
        hi1.reserved hres
      show (if r.comp then e1.nher else e1.nher + r.heralds.length) = (heraldsOf res.outp).length
      rw [← hheq]
      cases hcmp : r.comp with
      | true =>
        obtain ⟨-, hh, -⟩ := heralds_unchanged_component .all true true e1.side r raw keep res hcmp rfl
          (HeraldPortsReserved.covered hi1.reserved) hres
        rw [hh]
        exact hc1
      | false =>
        obtain ⟨-, hh, -⟩ := heralds_appended .all true true e1.side r raw keep res hcmp rfl
          (HeraldPortsReserved.covered hi1.reserved) (hrh hcmp) hres
        rw [hh]
        have : e1.nher = (heraldsOf e1.outp).length := hc1
        simp [this]
        rfl

theorem stepH_count (e e' : Exp) (op : HOp) (hi : ExpInv e) (hc : HerCount e) (hok : op.rightOK)
    (hk : op.keepsHeraldOut e = true) (h : stepH true e op = .ok e') : HerCount e' := by
  cases op with
  | herald mode expected name => exact addHerald_count e e' mode expected name hc h
  | port mode size name loc => exact addPort_count e e' mode size name loc hc h
  | rmport mode loc => exact removePort_count e e' mode loc hc hk h
  | det mode name => exact addDet_count e e' mode name hc h
  | setps ps => cases h; exact hc
  | add r raw keep => exact addObj_count e e' r raw keep hi hc hok h

theorem runH_count (ops : List HOp) (e0 e : Exp) (hok : ∀ op ∈ ops, op.rightOK)
    (hi0 : ExpInv e0) (hc0 : HerCount e0) (hk : keepsHeraldOut true e0 ops = true)
    (h : runH true e0 ops = .ok e) : ExpInv e ∧ HerCount e := by
  induction ops generalizing e0 with
  | nil => cases h; exact ⟨hi0, hc0⟩
  | cons op rest ih =>
    unfold runH at h
    unfold keepsHeraldOut at hk
    split at h
    · cases h
    · rename_i e1 h1
      simp only [h1, Bool.and_eq_true] at hk
      exact ih e1 (fun o ho => hok o (List.mem_cons_of_mem _ ho))
        (stepH_inv e0 e1 op hi0 (hok op List.mem_cons_self) h1)
        (stepH_count e0 e1 op hi0 hc0 (hok op List.mem_cons_self) hk.1 h1) hk.2 h

/-- **`RightWF` of the added processor, derived from its own history**: a processor built by any sequence of
successful public calls none of which takes a herald port off the output side has distinct herald positions inside
its circuit, `m = circuit_size − #heralds`, a non-negative `_n_moi` and `_n_heralds = len(heralds)` -/
theorem history_right_wf (m : Option Nat) (ops : List HOp) (e : Exp)
    (hok : ∀ op ∈ ops, op.rightOK) (hk : historyKeeps m ops = true) (h : history true m ops = .ok e) :
    RightWF e.side ∧ 0 ≤ e.nmoi ∧ e.nher = e.side.heralds.length ∧ e.side.m + e.side.heralds.length = e.side.cs := by
  unfold history at h
  unfold historyKeeps at hk
  split at h
  · cases h
  · rename_i e0 h0
    simp only [h0] at hk
    have hi0 := new_inv m e0 h0
    have hc0 : HerCount e0 := by
      unfold Exp.new at h0
      split at h0
      · cases h0; rfl
      · split_ifs at h0; cases h0; rfl
    obtain ⟨hi, hc⟩ := runH_count ops e0 e hok hi0 hc0 hk h
    obtain ⟨hnn, hwf⟩ := rightWF_of_inv hi hc
    exact ⟨hwf, hnn, hc, (hwf rfl).2.2⟩

/-- what the model answers on three short lives: `Processor(2)`, `add_herald(0, 1)`, `remove_port(0, OUTPUT)` leaves
m = 1, circuit_size = 2 and NO herald (not a well-formed right-hand side: 1 + 0 ≠ 2); removing the herald port on the
input side only keeps everything; `Processor(1)`, `add_herald(0, 1)`, `remove_port(0)`, `add_herald(0, 1)` is accepted
and leaves `m = −1` (read through `Exp.side`, whose `m` is a natural number, that processor looks well formed: this is
why `history_right_wf` also concludes `0 ≤ _n_moi`) -/
theorem herald_removal_outcomes :
    ((history true (some 2) [.herald 0 1 none, .rmport 0 .output]).toOption.map fun e =>
      (e.nmoi, e.cs, e.side.heralds, rightWFb e.side)) = some (1, 2, [], false) ∧
    historyKeeps (some 2) [.herald 0 1 none, .rmport 0 .output] = false ∧
    ((history true (some 2) [.herald 0 1 none, .rmport 0 .input]).toOption.map fun e =>
      (e.nmoi, e.cs, e.side.heralds, rightWFb e.side)) = some (1, 2, [(0, 1)], true) ∧
    historyKeeps (some 2) [.herald 0 1 none, .rmport 0 .input] = true ∧
    ((history true (some 1) [.herald 0 1 none, .rmport 0 .inout, .herald 0 1 none]).toOption.map fun e =>
      (e.nmoi, e.cs, e.side.heralds, rightWFb e.side)) = some (-1, 1, [(0, 1)], true) :=
  ⟨by decide, by decide, by decide, by decide, by decide⟩

/-- **the side condition cannot be dropped**: after `remove_port` on the output side of a heralded mode the processor
is not a well-formed right-hand side although every call succeeded -/
theorem history_right_wf_fails_after_herald_removal :
    ¬ (∀ (m : Option Nat) (ops : List HOp) (e : Exp), (∀ op ∈ ops, op.rightOK) → history true m ops = .ok e →
        RightWF e.side) := by
  intro H
  have h1 := herald_removal_outcomes.1
  cases hh : history true (some 2) [.herald 0 1 none, .rmport 0 .output] with
  | error x => rw [hh] at h1; cases h1
  | ok e =>
    rw [hh] at h1
    simp only [Except.toOption, Option.map_some, Option.some.injEq, Prod.mk.injEq] at h1
    have hwf := H (some 2) _ e (by
      intro op hop
      simp only [List.mem_cons, List.not_mem_nil, or_false] at hop
      rcases hop with rfl | rfl <;> trivial) hh
    rw [← rightWFb_iff, h1.2.2.2] at hwf
    cases hwf

/-- **heralds appended, between two histories — no hypothesis left**: the left processor is the result of ANY
history, the added processor the result of ANY history (herald ports removed or not): after an accepted add the
circuit grew by one mode per herald the added processor still lists, `heralds` is the old dictionary followed by
`circuit_size + i ↦ expectedᵢ` in the order of the added processor's heralds, `detectors` is extended by the
detectors on its herald positions, and every mode listed in `heralds` is reserved -/
theorem heralds_appended_between_histories (m : Option Nat) (ops : List HOp) (e e' : Exp)
    (hok : ∀ op ∈ ops, op.rightOK) (hh : history true m ops = .ok e)
    (f1 : RFlags) (f2 f3 : Bool) (raw : RawMap) (keep : Bool) (res : Result)
    (h : compose f1 f2 f3 e.side e'.side raw keep = .ok res) :
    res.cs = e.cs + (heraldsOf e'.outp).length ∧
    res.heralds = heraldsOf e.outp ++
      (List.range (heraldsOf e'.outp).length).zipWith (fun i h => (e.cs + i, h.2)) (heraldsOf e'.outp) ∧
    res.dets = e.dets ++ (heraldsOf e'.outp).map (fun h => e'.dets.getD h.1 none) ∧
    (∀ hm ∈ res.heralds, connectible res.cs res.conn (hm.1 : Int) = false) :=
  heralds_appended_after_history m ops e hok hh f1 f2 f3 e'.side raw keep res rfl rfl h

/-- **the wiring, between two histories**: the added processor is the result of a history that keeps its herald
ports; after an accepted add — any mapping syntax — the matrix is `A * left` with `A[ka, kb] = C[va, vb]` on wired
pairs and the identity's row and column on every mode that is not wired.  `RightWF` is no longer assumed. -/
theorem compose_end_to_end_between_histories (m' : Option Nat) (ops' : List HOp) (e' : Exp)
    (hok' : ∀ op ∈ ops', op.rightOK) (hk' : historyKeeps m' ops' = true) (hh' : history true m' ops' = .ok e')
    (f1 : RFlags) (f2 f3 : Bool) (l : Side) (raw : RawMap) (keep : Bool) (res : Result)
    (h : compose f1 f2 f3 l e'.side raw keep = .ok res)
    (C : Matrix (Fin e'.side.cs) (Fin e'.side.cs) R) (left : Matrix (Fin res.cs) (Fin res.cs) R) :
    ∃ A : Matrix (Fin res.cs) (Fin res.cs) R,
      composeMat res.cs res.first e'.side.cs res.perm true C left = A * left ∧
      (∀ (ka kb : Fin res.cs) (va vb : Fin e'.side.cs),
        (ka.val, va.val) ∈ permInput l e'.side res.map → (kb.val, vb.val) ∈ permInput l e'.side res.map →
        A ka kb = C va vb) ∧
      (∀ (i j : Fin res.cs),
        ((∀ v, (i.val, v) ∉ permInput l e'.side res.map) ∨ (∀ v, (j.val, v) ∉ permInput l e'.side res.map)) →
        A i j = if i = j then 1 else 0) :=
  compose_end_to_end_processor f1 f2 f3 l e'.side raw keep res rfl
    (history_right_wf m' ops' e' hok' hk' hh').1 h C left

/-- **no PERM assertion, between two histories**: an offset or list mapping of a history-built processor (herald
ports kept) onto a left processor without post-selection never ends in `AssertionError`: every such mapping that
`resolve` accepts is legal for `generate_permutation`, imported heralded modes included -/
theorem compose_between_histories_never_assertion (m' : Option Nat) (ops' : List HOp) (e' : Exp)
    (hok' : ∀ op ∈ ops', op.rightOK) (hk' : historyKeeps m' ops' = true) (hh' : history true m' ops' = .ok e')
    (f1 : RFlags) (f2 f3 : Bool) (l : Side) (raw : RawMap) (keep : Bool)
    (hraw : ∀ items, raw ≠ .ofDict items) (hps : l.ps = none) :
    compose f1 f2 f3 l e'.side raw keep ≠ .error .assertion :=
  compose_int_list_never_assertion f1 f2 f3 l e'.side raw keep hraw
    (history_right_wf m' ops' e' hok' hk' hh').1 hps

/-- non-vacuity: a life that declares a herald, imports a heralded processor and removes an ordinary port keeps its
herald ports; it ends as a well-formed processor with two heralds -/
example :
    historyKeeps (some 3) [.herald 2 1 none, .port 0 1 "a" .inout, .add exRp (.ofInt 0) true, .rmport 0 .inout] = true ∧
    ((history true (some 3) [.herald 2 1 none, .port 0 1 "a" .inout, .add exRp (.ofInt 0) true,
        .rmport 0 .inout]).toOption.map fun e => (e.nmoi, e.cs, e.side.heralds, rightWFb e.side)) =
      some (2, 4, [(2, 1), (3, 1)], true) := by decide

/-! # Wave 7 (proofs only): the herald counter against the herald ports, as an equivalence

`history_right_wf` derived `RightWF` from `historyKeeps`; below the converse: along ANY history of successful calls
`_n_heralds − len(heralds)` never decreases, and it grows by one exactly at a `remove_port` that takes a herald port off
the output side — so the counter is in step with the herald ports (and the processor is a well-formed right-hand side
with `_n_moi ≥ 0`) **iff** the history keeps its herald ports. -/

/-- one accepted `add` keeps the distance between `_n_heralds` and the herald ports of `_out_ports` -/
theorem addObj_gap (e e' : Exp) (r : Side) (raw : RawMap) (keep : Bool) (g : Nat) (hi : ExpInv e)
    (hc : HerGap e g) (hrh : r.comp = false → r.heralds = heraldsOf r.outp)
    (h : addObj true e r raw keep = .ok e') : HerGap e' g := by
  unfold addObj at h
  split at h
  · cases h
  · rename_i e1 h1
    obtain ⟨hi1, -, -, -, -⟩ := defaultM_inv e e1 _ hi h1
    have hc1 := defaultM_gap e e1 _ g hc h1
    split at h
    · cases h
    · rename_i res hres
      cases h
      have hl : e1.side.conn.length = e1.side.cs := by
        show (e1.mt.map MT.isPhot).length = e1.cs
        rw [List.length_map, hi1.cs_eq]
      obtain ⟨-, hheq, -⟩ := compose_keeps_heralds_reserved .all true true e1.side r raw keep res hl hrh
        hi1.reserved hres
      unfold HerGap
      show (if r.comp then e1.nher else e1.nher + r.heralds.length) = (heraldsOf res.outp).length + g
      rw [← hheq]
      cases hcmp : r.comp with
      | true =>
        obtain ⟨-, hh, -⟩ := heralds_unchanged_component .all true true e1.side r raw keep res hcmp rfl
          (HeraldPortsReserved.covered hi1.reserved) hres
        rw [hh]
        exact hc1
      | false =>
        obtain ⟨-, hh, -⟩ := heralds_appended .all true true e1.side r raw keep res hcmp rfl
          (HeraldPortsReserved.covered hi1.reserved) (hrh hcmp) hres
        rw [hh]
        have h1' : e1.nher = (heraldsOf e1.outp).length + g := hc1
        have h2' : (e1.side.heralds).length = (heraldsOf e1.outp).length := rfl
        simp only [Bool.false_eq_true, if_false, List.length_append, List.length_zipWith, List.length_range,
          Nat.min_self, h2']
        omega

/-- one successful call: the distance stays, or grows by one when the call takes a herald port off the output side -/
theorem stepH_gap (e e' : Exp) (op : HOp) (g : Nat) (hi : ExpInv e) (hc : HerGap e g) (hok : op.rightOK)
    (h : stepH true e op = .ok e') : HerGap e' (if op.keepsHeraldOut e = true then g else g + 1) := by
  cases op with
  | herald mode expected name => exact addHerald_gap e e' mode expected name g hc h
  | port mode size name loc => exact addPort_gap e e' mode size name loc g hc h
  | rmport mode loc => exact removePort_gap e e' mode loc g hc h
  | det mode name => exact addDet_gap e e' mode name g hc h
  | setps ps => cases h; exact hc
  | add r raw keep => exact addObj_gap e e' r raw keep g hi hc hok h

/-- along a history of successful calls the distance never shrinks, and it is unchanged exactly when no call took a
herald port off the output side -/
theorem runH_gap (ops : List HOp) (e0 e : Exp) (g : Nat) (hok : ∀ op ∈ ops, op.rightOK)
    (hi0 : ExpInv e0) (hc0 : HerGap e0 g) (h : runH true e0 ops = .ok e) :
    ∃ g', g ≤ g' ∧ HerGap e g' ∧ (g' = g ↔ keepsHeraldOut true e0 ops = true) := by
  induction ops generalizing e0 g with
  | nil => cases h; exact ⟨g, le_refl _, hc0, by simp [keepsHeraldOut]⟩
  | cons op rest ih =>
    unfold runH at h
    unfold keepsHeraldOut
    split at h
    · cases h
    · rename_i e1 h1
      simp only [h1, Bool.and_eq_true]
      have hi1 := stepH_inv e0 e1 op hi0 (hok op List.mem_cons_self) h1
      have hc1 := stepH_gap e0 e1 op g hi0 hc0 (hok op List.mem_cons_self) h1
      obtain ⟨g', hle, hg', hiff⟩ := ih e1 _ (fun o ho => hok o (List.mem_cons_of_mem _ ho)) hi1 hc1 h
      refine ⟨g', ?_, hg', ?_⟩
      · split_ifs at hle <;> omega
      · by_cases hk : op.keepsHeraldOut e0 = true
        · rw [if_pos hk] at hle hiff
          rw [hiff]; simp [hk]
        · rw [if_neg hk] at hle hiff
          constructor
          · intro hh; omega
          · intro hh; exact absurd hh.1 hk

/-- **the herald counter, as an equivalence**: after ANY history of successful public calls `_n_heralds` is at least
the number of herald ports of `_out_ports` (= `len(heralds)`), and the two are equal **iff** no `remove_port` of the
history took a herald port off the output side -/
theorem history_count_iff (m : Option Nat) (ops : List HOp) (e : Exp)
    (hok : ∀ op ∈ ops, op.rightOK) (h : history true m ops = .ok e) :
    e.side.heralds.length ≤ e.nher ∧ (e.nher = e.side.heralds.length ↔ historyKeeps m ops = true) := by
  unfold history at h
  unfold historyKeeps
  split at h
  · cases h
  · rename_i e0 h0
    simp only [h0]
    have hi0 := new_inv m e0 h0
    have hc0 : HerGap e0 0 := by
      unfold Exp.new at h0
      split at h0
      · cases h0; rfl
      · split_ifs at h0; cases h0; rfl
    obtain ⟨g', -, hg', hiff⟩ := runH_gap ops e0 e 0 hok hi0 hc0 h
    have hg : e.nher = (heraldsOf e.outp).length + g' := hg'
    show (heraldsOf e.outp).length ≤ e.nher ∧ (e.nher = (heraldsOf e.outp).length ↔ _)
    refine ⟨by omega, ?_⟩
    rw [← hiff]
    omega

/-- **`RightWF` from the history, as an equivalence**: a processor built by a history of successful public calls is
a well-formed right-hand side with a non-negative `_n_moi` **iff** no `remove_port` of its history took a herald port
off the output side (`history_right_wf` is the direction from right to left) -/
theorem history_right_wf_iff (m : Option Nat) (ops : List HOp) (e : Exp)
    (hok : ∀ op ∈ ops, op.rightOK) (h : history true m ops = .ok e) :
    (RightWF e.side ∧ 0 ≤ e.nmoi) ↔ historyKeeps m ops = true := by
  constructor
  · rintro ⟨hwf, hnn⟩
    rw [← (history_count_iff m ops e hok h).2]
    have h3 : e.nmoi.toNat + (heraldsOf e.outp).length = (e.nmoi + (e.nher : Int)).toNat := (hwf rfl).2.2
    show e.nher = (heraldsOf e.outp).length
    omega
  · intro hk
    obtain ⟨hwf, hnn, -, -⟩ := history_right_wf m ops e hok hk h
    exact ⟨hwf, hnn⟩

/-- non-vacuity of both sides of the equivalences: a life that keeps its herald ports, and one that does not -/
example :
    historyKeeps (some 2) [.herald 0 1 none, .rmport 0 .input] = true ∧
    historyKeeps (some 2) [.herald 0 1 none, .rmport 0 .output] = false ∧
    ((history true (some 2) [.herald 0 1 none, .rmport 0 .output]).toOption.map fun e =>
      (e.nher, e.side.heralds.length)) = some (1, 0) := by decide

/-! # Wave 7: the verdict of the add of a bare component, end to end -/

/-- **the verdict of `add(mapping, component)`, end to end**: on a processor without post-selection the add of a bare
component through an offset or list mapping is accepted exactly when `resolve` accepts the mapping, and refused with
exactly the error of `resolve` otherwise — `generate_permutation` / `PERM` never refuse what `resolve` accepted -/
theorem add_component_verdict (f1 : RFlags) (f2 f3 : Bool) (l r : Side) (raw : RawMap) (keep : Bool)
    (hr : r.comp = true) (hraw : ∀ items, raw ≠ .ofDict items) (hps : l.ps = none) :
    ((∃ res, compose f1 f2 f3 l r raw keep = .ok res) ↔ ∃ d, resolve f1 l r raw = .ok d) ∧
    (∀ x, compose f1 f2 f3 l r raw keep = .error x ↔ resolve f1 l r raw = .error x) := by
  have hwf : RightWF r := fun hc => by rw [hr] at hc; cases hc
  have hna := compose_int_list_never_assertion f1 f2 f3 l r raw keep hraw hwf hps
  cases hres : resolve f1 l r raw with
  | error y =>
    have hc : compose f1 f2 f3 l r raw keep = .error y := by
      cases hc : compose f1 f2 f3 l r raw keep with
      | ok res =>
        obtain ⟨d, -, -, hd, -⟩ := compose_comp_inv f1 f2 f3 l r raw keep res hr hc
        rw [hres] at hd; cases hd
      | error x =>
        rcases compose_comp_error_inv f1 f2 f3 l r raw keep x hr hc with h1 | ⟨d, hd, -⟩
        · rw [hres] at h1; cases h1; rfl
        · rw [hres] at hd; cases hd
    rw [hc]
    refine ⟨⟨?_, ?_⟩, fun x => ?_⟩
    · rintro ⟨_, h⟩; cases h
    · rintro ⟨_, h⟩; cases h
    · constructor <;> (intro h; cases h; rfl)
  | ok d =>
    cases hc : compose f1 f2 f3 l r raw keep with
    | ok res =>
      refine ⟨⟨fun _ => ⟨d, rfl⟩, fun _ => ⟨res, rfl⟩⟩, fun x => ?_⟩
      constructor <;> (intro h; cases h)
    | error x =>
      rcases compose_comp_error_inv f1 f2 f3 l r raw keep x hr hc with h1 | ⟨_, -, hx⟩
      · rw [hres] at h1; cases h1
      · rw [hx] at hc; exact absurd hc hna

/-- **`add(b, component)` in closed form, end to end**: on a processor without post-selection a component with
`m ≥ 1` modes plugged at offset `b` is accepted iff the modes `b … b+m-1` are all connectible, and refused otherwise
with `UnavailableModeException` and nothing else -/
theorem add_component_offset_iff (f1 : RFlags) (f2 f3 : Bool) (l r : Side) (b : Int) (keep : Bool)
    (hr : r.comp = true) (hm : 0 < r.m) (hps : l.ps = none) :
    ((∃ res, compose f1 f2 f3 l r (.ofInt b) keep = .ok res) ↔
      ∀ i : Nat, i < r.m → connectible l.cs l.conn (b + i) = true) ∧
    (∀ x, compose f1 f2 f3 l r (.ofInt b) keep = .error x ↔
      x = .unavailable ∧ ∃ i : Nat, i < r.m ∧ connectible l.cs l.conn (b + i) = false) := by
  have hwf : RightWF r := fun hc => by rw [hr] at hc; cases hc
  obtain ⟨h1, h2⟩ := add_component_verdict f1 f2 f3 l r (.ofInt b) keep hr (fun items h => by cases h) hps
  refine ⟨?_, fun x => ?_⟩
  · rw [h1]
    constructor
    · rintro ⟨d, hd⟩
      exact ((resolve_int_ok_iff_wf f1 l r b d hm hwf).1 hd).2
    · intro h
      exact ⟨_, (resolve_int_ok_iff_wf f1 l r b _ hm hwf).2 ⟨rfl, h⟩⟩
  · rw [h2 x, resolve_int_error_iff_wf f1 l r b x hm hwf]

/-- the hypothesis `l.ps = none` cannot be dropped from the verdict: with a left post-selection on mode 0 only, a
two-mode component at offset 0 is resolved but refused by `can_compose_with` -/
example :
    let l : Side := ⟨false, 2, 2, [true, true], [], [none, none], [], [], ["", ""], ["", ""],
      some (.cond [0] .eq 1)⟩
    let r : Side := ⟨true, 2, 2, [], [], [], [], [], [], [], none⟩
    (resolve .all l r (.ofInt 0)).toOption.isSome = true ∧
    (compose .all true true l r (.ofInt 0) true).toOption.isSome = false := by decide

/-- non-vacuity: a two-mode component at offset 1 of a three-mode processor is accepted, at offset 2 refused -/
example :
    let l : Side := ⟨false, 3, 3, [true, true, true], [], [none, none, none], [], [], ["", "", ""], ["", "", ""],
      none⟩
    let r : Side := ⟨true, 2, 2, [], [], [], [], [], [], [], none⟩
    (compose .all true true l r (.ofInt 1) true).toOption.isSome = true ∧
    (compose .all true true l r (.ofInt 2) true).toOption.isSome = false := by decide

/-- **`add([k0, k1, …], component)` in closed form, end to end**: on a processor without post-selection a component
with `m ≥ 1` modes plugged on the listed modes is accepted iff the list has `m` entries, no repetition and only
connectible modes; it is refused with `InvalidMappingException` iff the size is wrong or a mode is repeated, and with
`UnavailableModeException` iff it is a duplicate-free list of the right size naming a mode that is not connectible -/
theorem add_component_list_iff (f1 : RFlags) (f2 f3 : Bool) (l r : Side) (ks : List Int) (keep : Bool)
    (hr : r.comp = true) (hm : 0 < r.m) (hps : l.ps = none) :
    ((∃ res, compose f1 f2 f3 l r (.ofList ks) keep = .ok res) ↔
      ks.length = r.m ∧ ks.Nodup ∧ ∀ k ∈ ks, connectible l.cs l.conn k = true) ∧
    (compose f1 f2 f3 l r (.ofList ks) keep = .error .invalid ↔ ks.length ≠ r.m ∨ ¬ ks.Nodup) ∧
    (compose f1 f2 f3 l r (.ofList ks) keep = .error .unavailable ↔
      ks.length = r.m ∧ ks.Nodup ∧ ∃ k ∈ ks, connectible l.cs l.conn k = false) := by
  have hwf : RightWF r := fun hc => by rw [hr] at hc; cases hc
  obtain ⟨h1, h2⟩ := add_component_verdict f1 f2 f3 l r (.ofList ks) keep hr (fun items h => by cases h) hps
  refine ⟨?_, ?_, ?_⟩
  · rw [h1]
    constructor
    · rintro ⟨d, hd⟩
      obtain ⟨a, b, c, -⟩ := (resolve_list_ok_iff f1 l r ks d hm hwf).1 hd
      exact ⟨a, b, c⟩
    · rintro ⟨a, b, c⟩
      exact ⟨_, (resolve_list_ok_iff f1 l r ks _ hm hwf).2 ⟨a, b, c, rfl⟩⟩
  · rw [h2, resolve_list_invalid_iff f1 l r ks hm hwf]
  · rw [h2, resolve_list_unavailable_iff f1 l r ks hm hwf]



/-! ## wave 9 — the verdict of the add of a bare component, left post-selection included

`add_component_verdict` / `add_component_offset_iff` / `add_component_list_iff` assumed a left processor WITHOUT
post-selection. The hypothesis is dropped here: the chain resolve → `_validate_postselect_composition` →
`generate_permutation` is characterised for every left processor, and `compVerdict` (Model/C10Verdict.lean) gives
its outcome in closed form. -/

theorem add_component_verdict_ps (f1 : RFlags) (f2 f3 : Bool) (l r : Side) (raw : RawMap) (keep : Bool)
    (hr : r.comp = true) (hraw : ∀ items, raw ≠ .ofDict items) :
    ((∃ res, compose f1 f2 f3 l r raw keep = .ok res) ↔
      ∃ d, resolve f1 l r raw = .ok d ∧ validatePS l (d.keys.map Int.toNat) = .ok ()) ∧
    (∀ x, compose f1 f2 f3 l r raw keep = .error x ↔
      (resolve f1 l r raw = .error x ∨
        ∃ d, resolve f1 l r raw = .ok d ∧ validatePS l (d.keys.map Int.toNat) = .error x)) := by
  have hwf : RightWF r := fun hc => by rw [hr] at hc; cases hc
  cases hres : resolve f1 l r raw with
  | error y =>
    have hc : compose f1 f2 f3 l r raw keep = .error y := by
      unfold compose
      simp only [bind, Except.bind, hres]
    rw [hc]
    refine ⟨⟨?_, ?_⟩, fun x => ⟨?_, ?_⟩⟩
    · rintro ⟨_, h⟩; cases h
    · rintro ⟨_, h, _⟩; cases h
    · intro h; cases h; exact Or.inl rfl
    · rintro (h | ⟨_, h, _⟩)
      · cases h; rfl
      · cases h
  | ok d =>
    obtain ⟨mp, σ, hm, hσ⟩ := genPerm_ok_of_accepted_int_list f1 l r raw d hraw hwf hres
    have hpi : permInput l r mp = mp := by simp [permInput, hr]
    rw [hpi] at hσ
    cases hv : validatePS l (d.keys.map Int.toNat) with
    | error e =>
      have hc : compose f1 f2 f3 l r raw keep = .error e := by
        unfold compose
        simp only [bind, Except.bind, hres, hv]
      rw [hc]
      refine ⟨⟨?_, ?_⟩, fun x => ⟨?_, ?_⟩⟩
      · rintro ⟨_, h⟩; cases h
      · rintro ⟨_, h, h2⟩; cases h; rw [hv] at h2; cases h2
      · intro h; cases h; exact Or.inr ⟨d, rfl, hv⟩
      · rintro (h | ⟨_, h, h2⟩)
        · cases h
        · cases h; rw [hv] at h2; cases h2; rfl
    | ok u =>
      have hc : ∃ res, compose f1 f2 f3 l r raw keep = .ok res := by
        unfold compose
        simp only [bind, Except.bind, hres, hv, hm, hr, if_true, hσ, pure, Except.pure]
        exact ⟨_, rfl⟩
      obtain ⟨res, hc⟩ := hc
      rw [hc]
      refine ⟨⟨fun _ => ⟨d, rfl, hv⟩, fun _ => ⟨res, rfl⟩⟩, fun x => ⟨?_, ?_⟩⟩
      · intro h; cases h
      · rintro (h | ⟨_, h, h2⟩)
        · cases h
        · cases h; rw [hv] at h2; cases h2

theorem verdict_of_resolve_ok (f1 : RFlags) (f2 f3 : Bool) (l r : Side) (raw : RawMap) (keep : Bool) (d : Dict)
    (hr : r.comp = true) (hraw : ∀ items, raw ≠ .ofDict items) (hres : resolve f1 l r raw = .ok d) :
    ((∃ res, compose f1 f2 f3 l r raw keep = .ok res) ↔ verdictOf (validatePS l (d.keys.map Int.toNat)) = none) ∧
    (∀ x, compose f1 f2 f3 l r raw keep = .error x ↔
      verdictOf (validatePS l (d.keys.map Int.toNat)) = some x) := by
  obtain ⟨h1, h2⟩ := add_component_verdict_ps f1 f2 f3 l r raw keep hr hraw
  refine ⟨?_, fun x => ?_⟩
  · rw [h1]
    constructor
    · rintro ⟨d', hd', hv⟩
      rw [hres] at hd'; cases hd'; rw [hv]; rfl
    · intro h
      refine ⟨d, hres, ?_⟩
      cases hv : validatePS l (d.keys.map Int.toNat) with
      | ok u => rfl
      | error e => rw [hv] at h; cases h
  · rw [h2 x]
    constructor
    · rintro (h | ⟨d', hd', hv⟩)
      · rw [hres] at h; cases h
      · rw [hres] at hd'; cases hd'; rw [hv]; rfl
    · intro h
      refine Or.inr ⟨d, hres, ?_⟩
      cases hv : validatePS l (d.keys.map Int.toNat) with
      | ok u => rw [hv] at h; cases h
      | error e => rw [hv] at h; cases h; rfl

theorem verdict_of_resolve_error (f1 : RFlags) (f2 f3 : Bool) (l r : Side) (raw : RawMap) (keep : Bool) (e : Err)
    (hr : r.comp = true) (hraw : ∀ items, raw ≠ .ofDict items) (hres : resolve f1 l r raw = .error e) :
    ((∃ res, compose f1 f2 f3 l r raw keep = .ok res) ↔ (some e : Option Err) = none) ∧
    (∀ x, compose f1 f2 f3 l r raw keep = .error x ↔ some e = some x) := by
  obtain ⟨h1, h2⟩ := add_component_verdict_ps f1 f2 f3 l r raw keep hr hraw
  refine ⟨?_, fun x => ?_⟩
  · rw [h1]
    constructor
    · rintro ⟨d', hd', -⟩; rw [hres] at hd'; cases hd'
    · intro h; cases h
  · rw [h2 x]
    constructor
    · rintro (h | ⟨d', hd', -⟩)
      · rw [hres] at h; cases h; rfl
      · rw [hres] at hd'; cases hd'
    · intro h; cases h; exact Or.inl hres

/-- **the verdict of `Processor.add(mapping, component)` in closed form, left post-selection included**: for an
offset or list mapping of a bare component with `m ≥ 1` modes, the add is accepted iff `compVerdict` is `none`
and refused with exactly the error class `compVerdict` names otherwise. -/
theorem add_component_closed (f1 : RFlags) (f2 f3 : Bool) (l r : Side) (raw : RawMap) (keep : Bool)
    (hr : r.comp = true) (hm : 0 < r.m) (hraw : ∀ items, raw ≠ .ofDict items) :
    ((∃ res, compose f1 f2 f3 l r raw keep = .ok res) ↔ compVerdict l r raw = none) ∧
    (∀ x, compose f1 f2 f3 l r raw keep = .error x ↔ compVerdict l r raw = some x) := by
  have hwf : RightWF r := fun hc => by rw [hr] at hc; cases hc
  cases raw with
  | ofDict items => exact absurd rfl (hraw items)
  | ofInt b =>
    by_cases hA : (List.range r.m).all (fun i => connectible l.cs l.conn (b + Int.ofNat i)) = true
    · have hall : ∀ i : Nat, i < r.m → connectible l.cs l.conn (b + i) = true := by
        intro i hi
        exact (List.all_eq_true.1 hA) i (List.mem_range.2 hi)
      have hres := (resolve_int_ok_iff_wf f1 l r b (intMap b r) hm hwf).2 ⟨rfl, hall⟩
      have hk : (intMap b r).keys.map Int.toNat
          = (List.range r.m).map fun (i : Nat) => (b + Int.ofNat i).toNat := by
        rw [intMap_keys, List.map_map]; rfl
      have hcv : compVerdict l r (.ofInt b) = verdictOf (validatePS l ((intMap b r).keys.map Int.toNat)) := by
        rw [hk]
        simp only [compVerdict, hA, if_true]
        cases validatePS l ((List.range r.m).map fun (i : Nat) => (b + Int.ofNat i).toNat) <;> rfl
      rw [hcv]
      exact verdict_of_resolve_ok f1 f2 f3 l r _ keep _ hr hraw hres
    · have hex : ∃ i : Nat, i < r.m ∧ connectible l.cs l.conn (b + i) = false := by
        by_contra hne
        apply hA
        rw [List.all_eq_true]
        intro i hi
        by_contra hc
        exact hne ⟨i, List.mem_range.1 hi, by simpa using hc⟩
      have hres := (resolve_int_error_iff_wf f1 l r b .unavailable hm hwf).2 ⟨rfl, hex⟩
      have hcv : compVerdict l r (.ofInt b) = some .unavailable := by
        simp only [compVerdict, hA]; rfl
      rw [hcv]
      exact verdict_of_resolve_error f1 f2 f3 l r _ keep _ hr hraw hres
  | ofList ks =>
    by_cases hbad : ks.length ≠ r.m ∨ ¬ ks.Nodup
    · have hres := (resolve_list_invalid_iff f1 l r ks hm hwf).2 hbad
      have hcv : compVerdict l r (.ofList ks) = some .invalid := by
        simp only [compVerdict, hbad, if_true]
      rw [hcv]
      exact verdict_of_resolve_error f1 f2 f3 l r _ keep _ hr hraw hres
    · have hlen : ks.length = r.m := by
        by_contra h; exact hbad (Or.inl h)
      have hnd : ks.Nodup := by
        by_contra h; exact hbad (Or.inr h)
      by_cases hA : ks.all (fun k => connectible l.cs l.conn k) = true
      · have hall : ∀ k ∈ ks, connectible l.cs l.conn k = true := fun k hk => (List.all_eq_true.1 hA) k hk
        have hres := (resolve_list_ok_iff f1 l r ks (listMap ks r) hm hwf).2 ⟨hlen, hnd, hall, rfl⟩
        have hk : (listMap ks r).keys = ks := by
          have hrl := orderedRModes_length r hwf
          simp only [listMap, Dict.keys]
          rw [← List.unzip_fst, List.unzip_zip_left]
          simp [hrl, hlen]
        have hcv : compVerdict l r (.ofList ks) = verdictOf (validatePS l ((listMap ks r).keys.map Int.toNat)) := by
          rw [hk]
          simp only [compVerdict, hbad, if_false, hA, if_true]
          cases validatePS l (ks.map Int.toNat) <;> rfl
        rw [hcv]
        exact verdict_of_resolve_ok f1 f2 f3 l r _ keep _ hr hraw hres
      · have hex : ∃ k ∈ ks, connectible l.cs l.conn k = false := by
          by_contra hne
          apply hA
          rw [List.all_eq_true]
          intro k hk
          by_contra hc
          exact hne ⟨k, hk, by simpa using hc⟩
        have hres := (resolve_list_unavailable_iff f1 l r ks hm hwf).2 ⟨hlen, hnd, hex⟩
        have hcv : compVerdict l r (.ofList ks) = some .unavailable := by
          simp only [compVerdict, hbad, if_false, hA]; rfl
        rw [hcv]
        exact verdict_of_resolve_error f1 f2 f3 l r _ keep _ hr hraw hres

/-- the post-selection validation of `Processor.add` refuses (AssertionError) exactly when the left processor has
a post-selection one of whose conditions contains some but not all of the mapped modes -/
theorem validatePS_ok_iff (l : Side) (keys : List Nat) :
    validatePS l keys = .ok () ↔
      ∀ p, l.ps = some p → ∀ c ∈ p.conds, (∀ k ∈ keys, k ∈ c) ∨ (∀ k ∈ keys, k ∉ c) := by
  unfold validatePS
  cases hp : l.ps with
  | none => simp
  | some p =>
    simp only [Option.some.injEq, forall_eq']
    rw [← canCompose_iff]
    cases p.canCompose keys <;> simp

theorem validatePS_error (l : Side) (keys : List Nat) (e : Err) (h : validatePS l keys = .error e) :
    e = .assertion := by
  unfold validatePS at h
  split at h
  · split at h <;> cases h; rfl
  · cases h

/-- non-vacuity: a two-mode component at offset 0 of a two-mode processor whose post-selection reads mode 0 only
is refused with AssertionError, with a post-selection on both modes it is accepted, on a reserved mode the
mapping error comes first -/
example :
    let l1 : Side := ⟨false, 2, 2, [true, true], [], [none, none], [], [], ["", ""], ["", ""],
      some (.cond [0] .eq 1)⟩
    let l2 : Side := ⟨false, 2, 2, [true, true], [], [none, none], [], [], ["", ""], ["", ""],
      some (.cond [0, 1] .eq 1)⟩
    let l3 : Side := ⟨false, 2, 2, [true, false], [], [none, none], [], [], ["", ""], ["", ""],
      some (.cond [0] .eq 1)⟩
    let r : Side := ⟨true, 2, 2, [], [], [], [], [], [], [], none⟩
    compVerdict l1 r (.ofInt 0) = some .assertion ∧ compVerdict l2 r (.ofInt 0) = none ∧
    compVerdict l3 r (.ofInt 0) = some .unavailable ∧ compVerdict l1 r (.ofList [1, 0]) = some .assertion ∧
    compVerdict l2 r (.ofList [1, 1]) = some .invalid ∧
    (compose .all true true l1 r (.ofInt 0) true).toOption.isSome = false := by decide


/-- **`add(b, component)` on a processor WITH a post-selection, as a statement about modes**: accepted iff the modes
`b … b+m-1` are all connectible and no condition of the left post-selection contains some but not all of them;
refused with `AssertionError` iff they are all connectible and some condition does -/
theorem add_component_offset_ps_iff (f1 : RFlags) (f2 f3 : Bool) (l r : Side) (b : Int) (keep : Bool)
    (hr : r.comp = true) (hm : 0 < r.m) :
    ((∃ res, compose f1 f2 f3 l r (.ofInt b) keep = .ok res) ↔
      (∀ i : Nat, i < r.m → connectible l.cs l.conn (b + i) = true) ∧
      ∀ p, l.ps = some p → ∀ c ∈ p.conds,
        (∀ i : Nat, i < r.m → (b + i).toNat ∈ c) ∨ (∀ i : Nat, i < r.m → (b + i).toNat ∉ c)) ∧
    (compose f1 f2 f3 l r (.ofInt b) keep = .error .assertion ↔
      (∀ i : Nat, i < r.m → connectible l.cs l.conn (b + i) = true) ∧
      ¬ ∀ p, l.ps = some p → ∀ c ∈ p.conds,
        (∀ i : Nat, i < r.m → (b + i).toNat ∈ c) ∨ (∀ i : Nat, i < r.m → (b + i).toNat ∉ c)) := by
  obtain ⟨h1, h2⟩ := add_component_closed f1 f2 f3 l r (.ofInt b) keep hr hm (fun items h => by cases h)
  have hkeys : ∀ (P : Nat → Prop),
      (∀ k ∈ (List.range r.m).map (fun (i : Nat) => (b + Int.ofNat i).toNat), P k) ↔
        ∀ i : Nat, i < r.m → P (b + i).toNat := by
    intro P
    simp [List.mem_map, List.mem_range]
  have hval : validatePS l ((List.range r.m).map fun (i : Nat) => (b + Int.ofNat i).toNat) = .ok () ↔
      ∀ p, l.ps = some p → ∀ c ∈ p.conds,
        (∀ i : Nat, i < r.m → (b + i).toNat ∈ c) ∨ (∀ i : Nat, i < r.m → (b + i).toNat ∉ c) := by
    rw [validatePS_ok_iff]
    constructor
    · intro h p hp c hc
      rcases h p hp c hc with h' | h'
      · exact Or.inl ((hkeys (· ∈ c)).1 h')
      · exact Or.inr ((hkeys (· ∉ c)).1 h')
    · intro h p hp c hc
      rcases h p hp c hc with h' | h'
      · exact Or.inl ((hkeys (· ∈ c)).2 h')
      · exact Or.inr ((hkeys (· ∉ c)).2 h')
  have hall : (List.range r.m).all (fun i => connectible l.cs l.conn (b + Int.ofNat i)) = true ↔
      ∀ i : Nat, i < r.m → connectible l.cs l.conn (b + i) = true := by
    simp [List.all_eq_true, List.mem_range]
  rw [h1, h2 .assertion, ← hall, ← hval]
  by_cases hA : (List.range r.m).all (fun i => connectible l.cs l.conn (b + Int.ofNat i)) = true
  · simp only [compVerdict, hA, if_true, true_and]
    cases hv : validatePS l ((List.range r.m).map fun (i : Nat) => (b + Int.ofNat i).toNat) with
    | ok u => simp
    | error e =>
      have := validatePS_error l _ e hv
      subst this
      simp
  · simp only [compVerdict, hA]
    simp

/-- **`add([k0, k1, …], component)` on a processor WITH a post-selection**: accepted iff the list has `m` entries, no
repetition, only connectible modes, and no condition of the left post-selection contains some but not all of the
listed modes; refused with `AssertionError` iff the first three hold and some condition does -/
theorem add_component_list_ps_iff (f1 : RFlags) (f2 f3 : Bool) (l r : Side) (ks : List Int) (keep : Bool)
    (hr : r.comp = true) (hm : 0 < r.m) :
    ((∃ res, compose f1 f2 f3 l r (.ofList ks) keep = .ok res) ↔
      (ks.length = r.m ∧ ks.Nodup) ∧ (∀ k ∈ ks, connectible l.cs l.conn k = true) ∧
      ∀ p, l.ps = some p → ∀ c ∈ p.conds, (∀ k ∈ ks, k.toNat ∈ c) ∨ (∀ k ∈ ks, k.toNat ∉ c)) ∧
    (compose f1 f2 f3 l r (.ofList ks) keep = .error .assertion ↔
      (ks.length = r.m ∧ ks.Nodup) ∧ (∀ k ∈ ks, connectible l.cs l.conn k = true) ∧
      ¬ ∀ p, l.ps = some p → ∀ c ∈ p.conds, (∀ k ∈ ks, k.toNat ∈ c) ∨ (∀ k ∈ ks, k.toNat ∉ c)) := by
  obtain ⟨h1, h2⟩ := add_component_closed f1 f2 f3 l r (.ofList ks) keep hr hm (fun items h => by cases h)
  have hkeys : ∀ (P : Nat → Prop), (∀ k ∈ ks.map Int.toNat, P k) ↔ ∀ k ∈ ks, P k.toNat := by
    intro P
    simp [List.mem_map]
  have hval : validatePS l (ks.map Int.toNat) = .ok () ↔
      ∀ p, l.ps = some p → ∀ c ∈ p.conds, (∀ k ∈ ks, k.toNat ∈ c) ∨ (∀ k ∈ ks, k.toNat ∉ c) := by
    rw [validatePS_ok_iff]
    constructor
    · intro h p hp c hc
      rcases h p hp c hc with h' | h'
      · exact Or.inl ((hkeys (· ∈ c)).1 h')
      · exact Or.inr ((hkeys (· ∉ c)).1 h')
    · intro h p hp c hc
      rcases h p hp c hc with h' | h'
      · exact Or.inl ((hkeys (· ∈ c)).2 h')
      · exact Or.inr ((hkeys (· ∉ c)).2 h')
  have hall : ks.all (fun k => connectible l.cs l.conn k) = true ↔
      ∀ k ∈ ks, connectible l.cs l.conn k = true := by
    simp [List.all_eq_true]
  rw [h1, h2 .assertion, ← hall, ← hval]
  by_cases hbad : ks.length ≠ r.m ∨ ¬ ks.Nodup
  · have hn : ¬ (ks.length = r.m ∧ ks.Nodup) := by
      rintro ⟨a, b⟩
      rcases hbad with h | h
      · exact h a
      · exact h b
    simp only [compVerdict, hbad, if_true, hn, false_and]
    simp
  · have hy : ks.length = r.m ∧ ks.Nodup := by
      constructor
      · by_contra h; exact hbad (Or.inl h)
      · by_contra h; exact hbad (Or.inr h)
    by_cases hA : ks.all (fun k => connectible l.cs l.conn k) = true
    · simp only [compVerdict, hA, if_true, hy, true_and, and_self]
      cases hv : validatePS l (ks.map Int.toNat) with
      | ok u => simp
      | error e =>
        have := validatePS_error l _ e hv
        subst this
        simp
    · simp only [compVerdict, hA, hy, true_and]
      simp


end PM.C10
