/-
  C10 — property theorems (model: `Model/C10.lean`, repaired behaviour = all fix flags `true`).
  All statements are for every mapping / every size; nothing is bounded.
-/
import PercevalModel.Lemmas.C10
import PercevalModel.Num.GQ

open Matrix

namespace PM.C10

/-! ## accept / reject decision of `_check_consistency` -/

/-- A resolved mapping (a dictionary, so its keys are distinct by construction) is accepted iff it has
the right size, every left mode it names is connectible (photonic, inside the circuit — this
subsumes "not negative") and the right-hand modes are pairwise distinct. -/
theorem resolve_ok_iff (cs : Nat) (conn : List Bool) (n : Nat) (d : Dict) (hd : d ≠ []) :
    checkConsistency cs conn n d = .ok () ↔
      d.length = n ∧ (∀ p ∈ d, connectible cs conn p.1 = true) ∧ d.vals.Nodup := by
  rw [checkConsistency_eq cs conn n d hd]
  by_cases h1 : d.length = n
  · rw [if_neg (not_not.2 h1)]
    by_cases h2 : ∃ p ∈ d, connectible cs conn p.1 = false
    · rw [if_pos h2]
      constructor
      · intro h; cases h
      · rintro ⟨_, hall, _⟩
        obtain ⟨p, hp, hc⟩ := h2
        rw [hall p hp] at hc; cases hc
    · rw [if_neg h2]
      have hall : ∀ p ∈ d, connectible cs conn p.1 = true := by
        intro p hp
        by_contra hc
        exact h2 ⟨p, hp, by simpa using hc⟩
      by_cases h3 : d.vals.Nodup
      · rw [if_neg (not_not.2 h3)]
        exact ⟨fun _ => ⟨h1, hall, h3⟩, fun _ => rfl⟩
      · rw [if_pos h3]
        constructor
        · intro h; cases h
        · rintro ⟨_, _, h⟩; exact absurd h h3
  · rw [if_pos h1]
    constructor
    · intro h; cases h
    · rintro ⟨h, _⟩; exact absurd h h1

/-- the error class when the mapping is refused: `UnavailableModeException` exactly when the size
is right but some named left mode is not connectible … -/
theorem resolve_unavailable_iff (cs : Nat) (conn : List Bool) (n : Nat) (d : Dict) (hd : d ≠ []) :
    checkConsistency cs conn n d = .error .unavailable ↔
      d.length = n ∧ ∃ p ∈ d, connectible cs conn p.1 = false := by
  rw [checkConsistency_eq cs conn n d hd]
  by_cases h1 : d.length = n
  · by_cases h2 : ∃ p ∈ d, connectible cs conn p.1 = false
    · simp only [h1, h2, ne_eq, not_true_eq_false, if_false, if_true, and_self]
    · by_cases h3 : d.vals.Nodup
      · simp only [h1, h2, h3, ne_eq, not_true_eq_false, if_false, and_false, reduceCtorEq]
      · simp only [h1, h2, h3, ne_eq, not_true_eq_false, if_false, not_false_eq_true, if_true,
          and_false, reduceCtorEq, Except.error.injEq]
  · simp [h1]

/-- … and `InvalidMappingException` exactly when the size is wrong, or every mode is available but two
left modes are sent to the same right-hand mode. -/
theorem resolve_invalid_iff (cs : Nat) (conn : List Bool) (n : Nat) (d : Dict) (hd : d ≠ []) :
    checkConsistency cs conn n d = .error .invalid ↔
      d.length ≠ n ∨ (d.length = n ∧ (¬ ∃ p ∈ d, connectible cs conn p.1 = false) ∧ ¬ d.vals.Nodup) := by
  rw [checkConsistency_eq cs conn n d hd]
  by_cases h1 : d.length = n
  · by_cases h2 : ∃ p ∈ d, connectible cs conn p.1 = false
    · simp only [h1, h2, ne_eq, not_true_eq_false, if_false, if_true, false_or, true_and,
        false_and, reduceCtorEq, Except.error.injEq]
    · by_cases h3 : d.vals.Nodup
      · simp only [h1, h2, h3, ne_eq, not_true_eq_false, if_false, false_or, true_and,
          not_false_eq_true, and_false, reduceCtorEq]
      · simp only [h1, h2, h3, ne_eq, not_true_eq_false, if_false, not_false_eq_true, if_true,
          false_or, and_self]
  · simp [h1]

/-! ## the generated permutation -/

/-- `generate_permutation` builds a permutation of `0 … L-1` (`L = max − min + 1` modes) whenever the
left modes are distinct and the right-hand modes are `0 … n-1` in some order.  (With the heralded
modes of the added processor appended the hypothesis is the same for the extended mapping.) -/
theorem genPerm_isPerm (mp : NMap) (hne : mp ≠ []) (hk : mp.keys.Nodup) (hv : mp.vals.Nodup)
    (hb : ∀ v ∈ mp.vals, v < mp.length) :
    IsPermList (permVect mp).length (permVect mp) := by
  have hperm := permVect_perm_vals mp hk
  have hlen : (permVect mp).length = mp.length + (missingModes mp).length := by
    rw [hperm.length_eq]
    simp [NMap.vals, filled, fill_length]
  refine ⟨rfl, hperm.nodup_iff.2 (fill_vals_nodup mp _ hv), ?_⟩
  intro x hx
  have hpos : 0 < mp.length := by
    cases mp with
    | nil => exact absurd rfl hne
    | cons a l => simp
  have := fill_vals_lt mp (missingModes mp) mp.length hpos hb x (hperm.subset hx)
  omega

/-- the PERM occupies `max − min + 1` modes starting at the smallest mapped mode -/
theorem genPerm_length (mp : NMap) (hk : mp.keys.Nodup) :
    (permVect mp).length = maxN mp.keys + 1 - minN mp.keys := by
  simp [permVect, filled_length mp hk]

/-- wiring: for every pair `k ↦ v` of the mapping, the PERM sends its input `k − min` (left mode `k`)
to its output `v` (where input `v` of the added object sits). -/
theorem genPerm_wires (mp : NMap) (hk : mp.keys.Nodup) {k v : Nat} (h : (k, v) ∈ mp) :
    (permVect mp)[k - minN mp.keys]? = some v := by
  have hkm : k ∈ mp.keys := List.mem_map.2 ⟨(k, v), h, rfl⟩
  have h1 := minN_le hkm
  have h2 := le_maxN hkm
  have hL := filled_length mp hk
  unfold permVect
  rw [List.getElem?_map, List.getElem?_range' (by omega)]
  simp only [Option.map_some, lookupD]
  have : minN mp.keys + 1 * (k - minN mp.keys) = k := by omega
  rw [this, filled, fill_lookup _ _ hkm, lookup_of_mem hk h]
  rfl

/-- `PERM.__init__`'s assertion only lets permutations through -/
theorem permValid_isPerm (v : List Nat) (h : permValid v = true) : IsPermList v.length v := by
  simp only [permValid, Bool.and_eq_true, decide_eq_true_eq, beq_iff_eq] at h
  obtain ⟨⟨⟨_, _⟩, hmax⟩, hnd⟩ := h
  refine ⟨rfl, hnd, fun x hx => ?_⟩
  have := le_maxN hx
  omega

/-- whatever `generate_permutation` returns is a permutation (for any mapping, legal or not) -/
theorem genPerm_sound (mp : NMap) (σ : List Nat) (h : genPerm mp = .ok (some σ)) :
    IsPermList σ.length σ := by
  simp only [genPerm] at h
  split_ifs at h with h1 h2
  · cases h
  · cases h; exact permValid_isPerm _ h2

/-! ## what the appended components do (with `Found/LinAlg`, `Found/Perm`) -/

variable {R : Type} [CommRing R] [StarRing R]

/-- added **processor**, PERM needed: the matrix after the `add` is
`embed (P⁻¹ · embed C · P) · left` with `P` the generated permutation on modes `first …`. -/
theorem compose_matrix (N first k : ℕ) (σ : List ℕ) (hσ : IsPermList σ.length σ)
    (hk : k ≤ σ.length) (hN : first + σ.length ≤ N)
    (C : Matrix (Fin k) (Fin k) R) (left : Matrix (Fin N) (Fin N) R) :
    composeMat N first k (some σ) true C left =
      embed N first ((permMatF (permFn σ.length σ))ᴴ * embed σ.length 0 C
        * permMatF (permFn σ.length σ)) * left := by
  have e : embed N first C = embed N first (embed σ.length 0 C) := by
    rw [embed_embed hN (by omega)]; rfl
  simp only [composeMat, composeMatV, MatV.toMatrix_ofMatrix, permAt, permInvAt, ↓reduceIte]
  rw [permMatL_eq_permMatF hσ, e, ← Matrix.mul_assoc, ← Matrix.mul_assoc, embed_mul hN,
    embed_mul hN]

/-- added bare **component**, PERM needed: `embed (embed C · P) · left` (no inverse permutation) -/
theorem compose_matrix_component (N first k : ℕ) (σ : List ℕ) (hσ : IsPermList σ.length σ)
    (hk : k ≤ σ.length) (hN : first + σ.length ≤ N)
    (C : Matrix (Fin k) (Fin k) R) (left : Matrix (Fin N) (Fin N) R) :
    composeMat N first k (some σ) false C left =
      embed N first (embed σ.length 0 C * permMatF (permFn σ.length σ)) * left := by
  have e : embed N first C = embed N first (embed σ.length 0 C) := by
    rw [embed_embed hN (by omega)]; rfl
  simp only [composeMat, composeMatV, MatV.toMatrix_ofMatrix, permAt, Bool.false_eq_true,
    ↓reduceIte]
  rw [permMatL_eq_permMatF hσ, e, ← Matrix.mul_assoc, embed_mul hN]

/-- no PERM needed (the mapping is consecutive and increasing): the object is simply embedded -/
theorem compose_matrix_noperm (N first k : ℕ) (b : Bool)
    (C : Matrix (Fin k) (Fin k) R) (left : Matrix (Fin N) (Fin N) R) :
    composeMat N first k none b C left = embed N first C * left := by
  cases b <;> simp [composeMat, composeMatV, permAt, permInvAt]

theorem permFn_val {L : ℕ} (σ : List ℕ) (a : Fin L) (v : ℕ) (h : σ[a.val]? = some v) (hv : v < L) :
    (permFn L σ a).val = v := by
  have e : σ.getD a.val L = v := by rw [List.getD_eq_getElem?_getD, h]; rfl
  unfold permFn
  rw [dif_pos (by rw [e]; exact hv)]
  exact e

/-- **processor wiring**: if the PERM sends position `a` to input `va` of the added processor and position `b`
to input `vb`, the appended block has entry `C va vb` at `(a, b)`: light leaving left mode `first+b`
enters input `vb`, and what the processor puts on its output `va` returns on mode `first+a`. -/
theorem wiring_processor {L k : ℕ} (σ : List ℕ)
    (C : Matrix (Fin k) (Fin k) R) (a b : Fin L) (va vb : Fin k)
    (ha : σ[a.val]? = some va.val) (hb : σ[b.val]? = some vb.val) (hk : k ≤ L) :
    ((permMatF (permFn L σ))ᴴ * embed L 0 C * permMatF (permFn L σ) :
      Matrix (Fin L) (Fin L) R) a b = C va vb := by
  rw [mul_permMatF_apply, permMatF_conjTranspose_mul_apply]
  have fa : (permFn L σ a).val = va.val := permFn_val σ a _ ha (lt_of_lt_of_le va.isLt hk)
  have fb : (permFn L σ b).val = vb.val := permFn_val σ b _ hb (lt_of_lt_of_le vb.isLt hk)
  rw [embed_apply_in C _ _ (by rw [fa]; exact va.isLt) (by rw [fb]; exact vb.isLt)]
  congr 1 <;> exact Fin.ext (by assumption)

/-- **component wiring**: light leaving position `b` (sent by the PERM to input `vb`) enters column `vb` of the
component, which sits on rows `0 … k-1` of the block. -/
theorem wiring_component {L k : ℕ} (σ : List ℕ)
    (C : Matrix (Fin k) (Fin k) R) (a b : Fin L) (vb : Fin k) (ha : a.val < k)
    (hb : σ[b.val]? = some vb.val) (hk : k ≤ L) :
    (embed L 0 C * permMatF (permFn L σ) : Matrix (Fin L) (Fin L) R) a b = C ⟨a.val, ha⟩ vb := by
  rw [mul_permMatF_apply]
  have fb : (permFn L σ b).val = vb.val := permFn_val σ b _ hb (lt_of_lt_of_le vb.isLt hk)
  rw [embed_apply_in C _ _ ha (by rw [fb]; exact vb.isLt)]
  congr 1; exact Fin.ext fb

/-- modes outside `[first, first+L)` are untouched by whatever block is appended -/
theorem untouched_outside {N first L : ℕ} (B : Matrix (Fin L) (Fin L) R) (i j : Fin N)
    (hi : i.val < first ∨ first + L ≤ i.val) : embed N first B i j = if i = j then 1 else 0 :=
  embed_apply_out_row B i j hi

/-! ## heralded modes of the added processor -/

/-- `add_heralded_modes`: the i-th herald position (in the order of the added processor's `heralds`)
is wired to the new mode `circuit_size + i`; the user's pairs are kept. -/
theorem heralds_appended_partial (cs : Nat) (mp : NMap) (hpos : List Nat) :
    (addHeraldedModes cs mp hpos).length = mp.length + hpos.length ∧
    (∀ p ∈ mp, p ∈ addHeraldedModes cs mp hpos) ∧
    (∀ i (hi : i < hpos.length), (cs + i, hpos[i]) ∈ addHeraldedModes cs mp hpos) ∧
    (addHeraldedModes cs mp hpos).keys = mp.keys ++ (List.range hpos.length).map (cs + ·) := by
  refine ⟨by simp [addHeraldedModes], fun p hp => by simp [addHeraldedModes, hp], ?_, ?_⟩
  · intro i hi
    simp only [addHeraldedModes, List.mem_append]
    right
    rw [List.mem_iff_getElem]
    refine ⟨i, by simpa using hi, by simp⟩
  · simp only [addHeraldedModes, keys_append]
    congr 1
    simp only [NMap.keys]
    apply List.ext_getElem
    · simp
    · intro i h1 h2
      simp
/- Full statement (validated by the correspondence on every run, not proved): after
   `compose … = .ok res` for a processor, `res.heralds = l.heralds ++ [(l.cs + i, expectedᵢ)]`,
   `res.dets = l.dets ++ [r.dets[posᵢ]]`, `res.cs = l.cs + #heralds`.  The monadic `compose` and the port
   loops (`transferOut`) are executable model code only; the theorem above covers the mapping part. -/

/-! ## availability of the modes after a composition (history of a long-lived processor)

`_check_consistency` of the *next* `add` reads the mode types the previous `add` left behind.  The modes
appended for the heralds of an added processor must be reserved exactly like heralds declared with
`add_herald`, and the availability of the old modes must not depend on what was plugged before. -/

/-- whatever `Processor.add` accepts, the circuit size and the mode availability it leaves behind are
`csAfter` / `connAfter` (for every mapping, every flag setting) -/
theorem compose_conn (f1 f2 f3 : Bool) (l r : Side) (raw : RawMap) (keep : Bool) (res : Result)
    (h : compose f1 f2 f3 l r raw keep = .ok res) :
    res.cs = csAfter l r ∧ res.conn = connAfter l r := by
  unfold compose at h
  simp only [bind, Except.bind, pure, Except.pure, throw, throwThe, MonadExceptOf.throw] at h
  repeat' split at h
  all_goals first
    | (cases h; done)
    | (cases h; exact ⟨rfl, rfl⟩)

/-- every mode imported for a herald of an added processor (`k ≥` old circuit size) is not connectible -/
theorem imported_heralds_reserved (l r : Side) (hl : l.conn.length = l.cs) (hr : r.comp = false)
    (k : Int) (hk : (l.cs : Int) ≤ k) :
    connectible (csAfter l r) (connAfter l r) k = false := by
  unfold connectible
  have h0 : ¬ k < 0 := by omega
  rw [if_neg h0]
  split_ifs with h1
  · rfl
  · have hk' : l.conn.length ≤ k.toNat := by omega
    simp only [connAfter, hr, Bool.false_eq_true, if_false]
    rw [List.getD_eq_getElem?_getD, List.getElem?_append_right hk']
    cases h : (List.replicate r.heralds.length false)[k.toNat - l.conn.length]? with
    | none => rfl
    | some b =>
      have := List.mem_of_getElem? h
      simp only [List.mem_replicate] at this
      simp [this.2]

/-- … and the availability of the old modes is what it was, whatever was plugged -/
theorem old_modes_keep_availability (l r : Side) (hl : l.conn.length = l.cs) (k : Int)
    (hk : k < (l.cs : Int)) :
    connectible (csAfter l r) (connAfter l r) k = connectible l.cs l.conn k := by
  unfold connectible
  by_cases h0 : k < 0
  · simp [h0]
  · have h1 : ¬ k ≥ (l.cs : Int) := by omega
    have h2 : ¬ k ≥ ((csAfter l r : Nat) : Int) := by
      unfold csAfter; split_ifs <;> push_cast <;> omega
    rw [if_neg h0, if_neg h0, if_neg h1, if_neg h2]
    unfold connAfter
    split_ifs
    · rfl
    · have : k.toNat < l.conn.length := by omega
      rw [List.getD_eq_getElem?_getD, List.getD_eq_getElem?_getD, List.getElem?_append_left this]

/-- a later mapping that names an imported herald mode is refused: never accepted, and with
`UnavailableModeException` whenever its size is right -/
theorem mapping_onto_imported_herald_rejected (l r : Side) (hl : l.conn.length = l.cs)
    (hr : r.comp = false) (n : Nat) (d : Dict) (p : Int × Int) (hp : p ∈ d) (hk : (l.cs : Int) ≤ p.1) :
    checkConsistency (csAfter l r) (connAfter l r) n d ≠ .ok () ∧
    (d.length = n → checkConsistency (csAfter l r) (connAfter l r) n d = .error .unavailable) := by
  have hd : d ≠ [] := List.ne_nil_of_mem hp
  have hc := imported_heralds_reserved l r hl hr p.1 hk
  constructor
  · intro h
    have := ((resolve_ok_iff _ _ n d hd).1 h).2.1 p hp
    rw [hc] at this; cases this
  · intro hn
    exact (resolve_unavailable_iff _ _ n d hd).2 ⟨hn, p, hp, hc⟩

/-- `resolve` (int, list, dict / port-name mappings alike) only returns mappings whose left modes are all
connectible -/
theorem resolve_keys_connectible (fixed : Bool) (l r : Side) (raw : RawMap) (d : Dict)
    (h : resolve fixed l r raw = .ok d) : ∀ p ∈ d, connectible l.cs l.conn p.1 = true := by
  have key : ∀ d' : Dict, checkConsistency l.cs l.conn r.m d' = .ok () →
      ∀ p ∈ d', connectible l.cs l.conn p.1 = true := by
    intro d' hc p hp
    exact ((resolve_ok_iff _ _ _ d' (List.ne_nil_of_mem hp)).1 hc).2.1 p hp
  unfold resolve at h
  cases raw with
  | ofInt b =>
    simp only [bind, Except.bind, pure, Except.pure] at h
    split at h
    · cases h
    · rename_i u hc
      cases h
      cases u
      exact key _ hc
  | ofList ks =>
    simp only [bind, Except.bind, pure, Except.pure, throw, throwThe, MonadExceptOf.throw] at h
    repeat' split at h
    all_goals first
      | (cases h; done)
      | (rename_i u hc; cases h; cases u; exact key _ hc)
  | ofDict items =>
    simp only [bind, Except.bind, pure, Except.pure, throw, throwThe, MonadExceptOf.throw] at h
    repeat' split at h
    all_goals first
      | (cases h; done)
      | (rename_i u hc; cases h; cases u; exact key _ hc)

/-- **two successive adds**: after a processor was plugged (by any mapping), no mapping the next `add`
accepts — offset, list, dictionary or port names, for any object — touches a mode imported for its
heralds; the next `add` sees exactly the old modes, with their old availability. -/
theorem second_add_avoids_imported_heralds (f1 f2 f3 fixed : Bool) (l r : Side) (raw : RawMap)
    (keep : Bool) (res : Result) (hl : l.conn.length = l.cs) (hr : r.comp = false)
    (h : compose f1 f2 f3 l r raw keep = .ok res)
    (l' r' : Side) (hcs : l'.cs = res.cs) (hconn : l'.conn = res.conn) (raw' : RawMap) (d : Dict)
    (h' : resolve fixed l' r' raw' = .ok d) :
    ∀ p ∈ d, p.1 < (l.cs : Int) ∧ connectible l.cs l.conn p.1 = true := by
  intro p hp
  obtain ⟨e1, e2⟩ := compose_conn f1 f2 f3 l r raw keep res h
  have hc := resolve_keys_connectible fixed l' r' raw' d h' p hp
  rw [hcs, hconn, e1, e2] at hc
  have hlt : p.1 < (l.cs : Int) := by
    by_contra hge
    rw [imported_heralds_reserved l r hl hr p.1 (by omega)] at hc
    cases hc
  exact ⟨hlt, by rw [← old_modes_keep_availability l r hl p.1 hlt]; exact hc⟩

/-! ## post-selection carried over -/

theorem eval_mapModes (f : Nat → Nat) (ps : PS) (s : Nat → Nat) :
    (ps.mapModes f).eval s = ps.eval (s ∘ f) := by
  induction ps with
  | cond ms op v => simp [PS.mapModes, PS.eval, List.map_map]
  | and a b iha ihb => simp [PS.mapModes, PS.eval, iha, ihb]
  | or a b iha ihb => simp [PS.mapModes, PS.eval, iha, ihb]
  | xor a b iha ihb => simp [PS.mapModes, PS.eval, iha, ihb]
  | not a iha => simp [PS.mapModes, PS.eval, iha]

/-- The carried-over condition evaluated on a state of the composed processor equals the original
condition evaluated on the state read back through `v ↦ first + τ(v)` … -/
theorem postselect_renamed (τ : List Nat) (first : Nat) (ps : PS) (s : Nat → Nat) :
    (renamePS true (some τ) first ps).eval s =
      ps.eval (fun v => s (applyPermFn τ 0 v + first)) := by
  simp only [renamePS, if_true, eval_mapModes]
  rfl

theorem postselect_renamed_noperm (first : Nat) (ps : PS) (s : Nat → Nat) :
    (renamePS true none first ps).eval s = ps.eval (fun v => s (v + first)) := by
  simp only [renamePS, eval_mapModes]
  rfl

/-- … and `first + τ(v)` is exactly the left mode `k` the mapping attached to right-hand mode `v`
(`τ` = inverse of the generated permutation): the condition is re-expressed in the new numbering. -/
theorem postselect_renamed_mode (mp : NMap) (hne : mp ≠ []) (hk : mp.keys.Nodup)
    (hv : mp.vals.Nodup) (hb : ∀ v ∈ mp.vals, v < mp.length) {k v : Nat} (h : (k, v) ∈ mp) :
    applyPermFn (invPerm (permVect mp)) 0 v + minN mp.keys = k := by
  have hσ := genPerm_isPerm mp hne hk hv hb
  have hw := genPerm_wires mp hk h
  have hvlt : v < (permVect mp).length := by
    have hmem : v ∈ permVect mp := List.mem_of_getElem? hw
    exact hσ.2.2 v hmem
  have hinv := invPerm_getD hσ.2.1 hvlt hw
  have hkm : k ∈ mp.keys := List.mem_map.2 ⟨(k, v), h, rfl⟩
  have h1 := minN_le hkm
  have hlen : (invPerm (permVect mp)).length = (permVect mp).length := by simp [invPerm]
  unfold applyPermFn
  rw [if_pos ⟨Nat.zero_le _, by rw [hlen]; omega⟩]
  simp only [Nat.sub_zero, Nat.zero_add]
  rw [hinv]
  omega

/-- The code as found (`fixPS = false`: permute at offset `first`, then shift) breaks this as soon as the
first impacted mode is not 0: right-hand mode 0 attached to left mode 2 through `[2, 1]`. -/
theorem postselect_renamed_fails_on_current_code :
    ¬ ∀ (τ : List Nat) (first : Nat) (ps : PS) (s : Nat → Nat),
        (renamePS false (some τ) first ps).eval s =
          ps.eval (fun v => s (applyPermFn τ 0 v + first)) := by
  intro h
  have := h [1, 0] 1 (.cond [0] .eq 1) (fun m => if m = 2 then 1 else 0)
  revert this
  decide

/-! ## non-vacuity -/

/-- the mapping `[2, 0]` (left modes 2 and 0 onto inputs 0 and 1): PERM `[1, 2, 0]` on modes 0..2 -/
example : permVect [(2, 0), (0, 1)] = [1, 2, 0] ∧ genPerm [(2, 0), (0, 1)] = .ok (some [1, 2, 0]) ∧
    invPerm [1, 2, 0] = [2, 0, 1] := by decide

example : ([(2, 0), (0, 1)] : NMap) ≠ [] ∧ (NMap.keys [(2, 0), (0, 1)]).Nodup := by decide

/-- a herald of the added processor at position 1, left circuit of 3 modes: new mode 3 ↦ 1 -/
example : addHeraldedModes 3 [(1, 0), (0, 2)] [1] = [(1, 0), (0, 2), (3, 1)] ∧
    permVect [(1, 0), (0, 2), (3, 1)] = [2, 0, 3, 1] := by decide

example : checkConsistency 4 [true, true, false, true] 2 [(0, 0), (3, 1)] = .ok () ∧
    checkConsistency 4 [true, true, false, true] 2 [(0, 0), (2, 1)] = .error .unavailable ∧
    checkConsistency 4 [true, true, false, true] 2 [(0, 0), (3, 0)] = .error .invalid ∧
    checkConsistency 4 [true, true, false, true] 2 [(0, 0)] = .error .invalid := by decide

/-- a 3-mode left processor (mode 1 heralded) receives a processor with two heralds: modes 3 and 4 are
reserved, modes 0 and 2 stay available; a later `[4, 0]` is refused with `UnavailableModeException` -/
example :
    let l : Side := ⟨false, 2, 3, [true, false, true], [(1, 0)], [], [], [], [], [], none⟩
    let r : Side := ⟨false, 1, 3, [false, true, false], [(2, 1), (0, 0)], [], [], [], [], [], none⟩
    csAfter l r = 5 ∧ connAfter l r = [true, false, true, false, false] ∧
    checkConsistency (csAfter l r) (connAfter l r) 2 [(4, 0), (0, 1)] = .error .unavailable ∧
    checkConsistency (csAfter l r) (connAfter l r) 2 [(2, 0), (0, 1)] = .ok () := by decide

/-- the repaired renaming on the witness of the defect: condition on right-hand mode 0 lands on mode 2 -/
example : (renamePS true (some [1, 0]) 1 (.cond [0] .eq 1)).conds = [[2]] ∧
    (renamePS false (some [1, 0]) 1 (.cond [0] .eq 1)).conds = [[1]] := by decide

def exC : Matrix (Fin 2) (Fin 2) GQ := fun i j => if i = j then 0 else GQ.I

example : IsPermList 3 [1, 2, 0] := by decide

end PM.C10
