/-
  C10 — property theorems (model: `Model/C10.lean`, repaired behaviour = all fix flags `true`).
  All statements are for every mapping / every size; nothing is bounded.
-/
import PercevalModel.Lemmas.C10
import PercevalModel.Lemmas.C10More
import PercevalModel.Num.GQ

open Matrix

namespace PM.C10

/-! ## accept / reject decision of `_check_consistency` -/

/-- A resolved mapping (a dictionary, so its keys are distinct by construction) is accepted iff it has
the right size, every left mode it names is connectible (photonic, inside the circuit — this
subsumes "not negative") and the right-hand modes are pairwise distinct. -/
theorem resolve_ok_iff (cs : Nat) (conn : List Bool) (n : Nat) (d : Dict) (hd : d ≠ []) :
    checkConsistency cs conn n d = .ok () ↔
      d.length = n ∧ (∀ p ∈ d, connectible cs conn p.1 = true) ∧ d.vals.Nodup := by
  rw [checkConsistency_eq cs conn n d hd]
  by_cases h1 : d.length = n
  · rw [if_neg (not_not.2 h1)]
    by_cases h2 : ∃ p ∈ d, connectible cs conn p.1 = false
    · rw [if_pos h2]
      constructor
      · intro h; cases h
      · rintro ⟨_, hall, _⟩
        obtain ⟨p, hp, hc⟩ := h2
        rw [hall p hp] at hc; cases hc
    · rw [if_neg h2]
      have hall : ∀ p ∈ d, connectible cs conn p.1 = true := by
        intro p hp
        by_contra hc
        exact h2 ⟨p, hp, by simpa using hc⟩
      by_cases h3 : d.vals.Nodup
      · rw [if_neg (not_not.2 h3)]
        exact ⟨fun _ => ⟨h1, hall, h3⟩, fun _ => rfl⟩
      · rw [if_pos h3]
        constructor
        · intro h; cases h
        · rintro ⟨_, _, h⟩; exact absurd h h3
  · rw [if_pos h1]
    constructor
    · intro h; cases h
    · rintro ⟨h, _⟩; exact absurd h h1

/-- the error class when the mapping is refused: `UnavailableModeException` exactly when the size
is right but some named left mode is not connectible … -/
theorem resolve_unavailable_iff (cs : Nat) (conn : List Bool) (n : Nat) (d : Dict) (hd : d ≠ []) :
    checkConsistency cs conn n d = .error .unavailable ↔
      d.length = n ∧ ∃ p ∈ d, connectible cs conn p.1 = false := by
  rw [checkConsistency_eq cs conn n d hd]
  by_cases h1 : d.length = n
  · by_cases h2 : ∃ p ∈ d, connectible cs conn p.1 = false
    · simp only [h1, h2, ne_eq, not_true_eq_false, if_false, if_true, and_self]
    · by_cases h3 : d.vals.Nodup
      · simp only [h1, h2, h3, ne_eq, not_true_eq_false, if_false, and_false, reduceCtorEq]
      · simp only [h1, h2, h3, ne_eq, not_true_eq_false, if_false, not_false_eq_true, if_true,
          and_false, reduceCtorEq, Except.error.injEq]
  · simp [h1]

/-- … and `InvalidMappingException` exactly when the size is wrong, or every mode is available but two
left modes are sent to the same right-hand mode. -/
theorem resolve_invalid_iff (cs : Nat) (conn : List Bool) (n : Nat) (d : Dict) (hd : d ≠ []) :
    checkConsistency cs conn n d = .error .invalid ↔
      d.length ≠ n ∨ (d.length = n ∧ (¬ ∃ p ∈ d, connectible cs conn p.1 = false) ∧ ¬ d.vals.Nodup) := by
  rw [checkConsistency_eq cs conn n d hd]
  by_cases h1 : d.length = n
  · by_cases h2 : ∃ p ∈ d, connectible cs conn p.1 = false
    · simp only [h1, h2, ne_eq, not_true_eq_false, if_false, if_true, false_or, true_and,
        false_and, reduceCtorEq, Except.error.injEq]
    · by_cases h3 : d.vals.Nodup
      · simp only [h1, h2, h3, ne_eq, not_true_eq_false, if_false, false_or, true_and,
          not_false_eq_true, and_false, reduceCtorEq]
      · simp only [h1, h2, h3, ne_eq, not_true_eq_false, if_false, not_false_eq_true, if_true,
          false_or, and_self]
  · simp [h1]

/-! ## the generated permutation -/

/-- `generate_permutation` builds a permutation of `0 … L-1` (`L = max − min + 1` modes) whenever the
left modes are distinct and the right-hand modes are `0 … n-1` in some order.  (With the heralded
modes of the added processor appended the hypothesis is the same for the extended mapping.) -/
theorem genPerm_isPerm (mp : NMap) (hne : mp ≠ []) (hk : mp.keys.Nodup) (hv : mp.vals.Nodup)
    (hb : ∀ v ∈ mp.vals, v < mp.length) :
    IsPermList (permVect mp).length (permVect mp) := by
  have hperm := permVect_perm_vals mp hk
  have hlen : (permVect mp).length = mp.length + (missingModes mp).length := by
    rw [hperm.length_eq]
    simp [NMap.vals, filled, fill_length]
  refine ⟨rfl, hperm.nodup_iff.2 (fill_vals_nodup mp _ hv), ?_⟩
  intro x hx
  have hpos : 0 < mp.length := by
    cases mp with
    | nil => exact absurd rfl hne
    | cons a l => simp
  have := fill_vals_lt mp (missingModes mp) mp.length hpos hb x (hperm.subset hx)
  omega

/-- the PERM occupies `max − min + 1` modes starting at the smallest mapped mode -/
theorem genPerm_length (mp : NMap) (hk : mp.keys.Nodup) :
    (permVect mp).length = maxN mp.keys + 1 - minN mp.keys := by
  simp [permVect, filled_length mp hk]

/-- wiring: for every pair `k ↦ v` of the mapping, the PERM sends its input `k − min` (left mode `k`)
to its output `v` (where input `v` of the added object sits). -/
theorem genPerm_wires (mp : NMap) (hk : mp.keys.Nodup) {k v : Nat} (h : (k, v) ∈ mp) :
    (permVect mp)[k - minN mp.keys]? = some v := by
  have hkm : k ∈ mp.keys := List.mem_map.2 ⟨(k, v), h, rfl⟩
  have h1 := minN_le hkm
  have h2 := le_maxN hkm
  have hL := filled_length mp hk
  unfold permVect
  rw [List.getElem?_map, List.getElem?_range' (by omega)]
  simp only [Option.map_some, lookupD]
  have : minN mp.keys + 1 * (k - minN mp.keys) = k := by omega
  rw [this, filled, fill_lookup _ _ hkm, lookup_of_mem hk h]
  rfl

/-- `PERM.__init__`'s assertion only lets permutations through -/
theorem permValid_isPerm (v : List Nat) (h : permValid v = true) : IsPermList v.length v := by
  simp only [permValid, Bool.and_eq_true, decide_eq_true_eq, beq_iff_eq] at h
  obtain ⟨⟨⟨_, _⟩, hmax⟩, hnd⟩ := h
  refine ⟨rfl, hnd, fun x hx => ?_⟩
  have := le_maxN hx
  omega

/-- whatever `generate_permutation` returns is a permutation (for any mapping, legal or not) -/
theorem genPerm_sound (mp : NMap) (σ : List Nat) (h : genPerm mp = .ok (some σ)) :
    IsPermList σ.length σ := by
  simp only [genPerm] at h
  split_ifs at h with h1 h2
  · cases h
  · cases h; exact permValid_isPerm _ h2

/-! ## what the appended components do (with `Found/LinAlg`, `Found/Perm`) -/

variable {R : Type} [CommRing R] [StarRing R]

/-- added **processor**, PERM needed: the matrix after the `add` is
`embed (P⁻¹ · embed C · P) · left` with `P` the generated permutation on modes `first …`. -/
theorem compose_matrix (N first k : ℕ) (σ : List ℕ) (hσ : IsPermList σ.length σ)
    (hk : k ≤ σ.length) (hN : first + σ.length ≤ N)
    (C : Matrix (Fin k) (Fin k) R) (left : Matrix (Fin N) (Fin N) R) :
    composeMat N first k (some σ) true C left =
      embed N first ((permMatF (permFn σ.length σ))ᴴ * embed σ.length 0 C
        * permMatF (permFn σ.length σ)) * left := by
  have e : embed N first C = embed N first (embed σ.length 0 C) := by
    rw [embed_embed hN (by omega)]; rfl
  simp only [composeMat, composeMatV, MatV.toMatrix_ofMatrix, permAt, permInvAt, ↓reduceIte]
  rw [permMatL_eq_permMatF hσ, e, ← Matrix.mul_assoc, ← Matrix.mul_assoc, embed_mul hN,
    embed_mul hN]

/-- added bare **component**, PERM needed: `embed (embed C · P) · left` (no inverse permutation) -/
theorem compose_matrix_component (N first k : ℕ) (σ : List ℕ) (hσ : IsPermList σ.length σ)
    (hk : k ≤ σ.length) (hN : first + σ.length ≤ N)
    (C : Matrix (Fin k) (Fin k) R) (left : Matrix (Fin N) (Fin N) R) :
    composeMat N first k (some σ) false C left =
      embed N first (embed σ.length 0 C * permMatF (permFn σ.length σ)) * left := by
  have e : embed N first C = embed N first (embed σ.length 0 C) := by
    rw [embed_embed hN (by omega)]; rfl
  simp only [composeMat, composeMatV, MatV.toMatrix_ofMatrix, permAt, Bool.false_eq_true,
    ↓reduceIte]
  rw [permMatL_eq_permMatF hσ, e, ← Matrix.mul_assoc, embed_mul hN]

/-- no PERM needed (the mapping is consecutive and increasing): the object is simply embedded -/
theorem compose_matrix_noperm (N first k : ℕ) (b : Bool)
    (C : Matrix (Fin k) (Fin k) R) (left : Matrix (Fin N) (Fin N) R) :
    composeMat N first k none b C left = embed N first C * left := by
  cases b <;> simp [composeMat, composeMatV, permAt, permInvAt]

theorem permFn_val {L : ℕ} (σ : List ℕ) (a : Fin L) (v : ℕ) (h : σ[a.val]? = some v) (hv : v < L) :
    (permFn L σ a).val = v := by
  have e : σ.getD a.val L = v := by rw [List.getD_eq_getElem?_getD, h]; rfl
  unfold permFn
  rw [dif_pos (by rw [e]; exact hv)]
  exact e

/-- **processor wiring**: if the PERM sends position `a` to input `va` of the added processor and position `b`
to input `vb`, the appended block has entry `C va vb` at `(a, b)`: light leaving left mode `first+b`
enters input `vb`, and what the processor puts on its output `va` returns on mode `first+a`. -/
theorem wiring_processor {L k : ℕ} (σ : List ℕ)
    (C : Matrix (Fin k) (Fin k) R) (a b : Fin L) (va vb : Fin k)
    (ha : σ[a.val]? = some va.val) (hb : σ[b.val]? = some vb.val) (hk : k ≤ L) :
    ((permMatF (permFn L σ))ᴴ * embed L 0 C * permMatF (permFn L σ) :
      Matrix (Fin L) (Fin L) R) a b = C va vb := by
  rw [mul_permMatF_apply, permMatF_conjTranspose_mul_apply]
  have fa : (permFn L σ a).val = va.val := permFn_val σ a _ ha (lt_of_lt_of_le va.isLt hk)
  have fb : (permFn L σ b).val = vb.val := permFn_val σ b _ hb (lt_of_lt_of_le vb.isLt hk)
  rw [embed_apply_in C _ _ (by rw [fa]; exact va.isLt) (by rw [fb]; exact vb.isLt)]
  congr 1 <;> exact Fin.ext (by assumption)

/-- **component wiring**: light leaving position `b` (sent by the PERM to input `vb`) enters column `vb` of the
component, which sits on rows `0 … k-1` of the block. -/
theorem wiring_component {L k : ℕ} (σ : List ℕ)
    (C : Matrix (Fin k) (Fin k) R) (a b : Fin L) (vb : Fin k) (ha : a.val < k)
    (hb : σ[b.val]? = some vb.val) (hk : k ≤ L) :
    (embed L 0 C * permMatF (permFn L σ) : Matrix (Fin L) (Fin L) R) a b = C ⟨a.val, ha⟩ vb := by
  rw [mul_permMatF_apply]
  have fb : (permFn L σ b).val = vb.val := permFn_val σ b _ hb (lt_of_lt_of_le vb.isLt hk)
  rw [embed_apply_in C _ _ ha (by rw [fb]; exact vb.isLt)]
  congr 1; exact Fin.ext fb

/-- modes outside `[first, first+L)` are untouched by whatever block is appended -/
theorem untouched_outside {N first L : ℕ} (B : Matrix (Fin L) (Fin L) R) (i j : Fin N)
    (hi : i.val < first ∨ first + L ≤ i.val) : embed N first B i j = if i = j then 1 else 0 :=
  embed_apply_out_row B i j hi

/-! ## heralded modes of the added processor -/

/-- `add_heralded_modes`: the i-th herald position (in the order of the added processor's `heralds`)
is wired to the new mode `circuit_size + i`; the user's pairs are kept. -/
theorem heralds_appended_partial (cs : Nat) (mp : NMap) (hpos : List Nat) :
    (addHeraldedModes cs mp hpos).length = mp.length + hpos.length ∧
    (∀ p ∈ mp, p ∈ addHeraldedModes cs mp hpos) ∧
    (∀ i (hi : i < hpos.length), (cs + i, hpos[i]) ∈ addHeraldedModes cs mp hpos) ∧
    (addHeraldedModes cs mp hpos).keys = mp.keys ++ (List.range hpos.length).map (cs + ·) := by
  refine ⟨by simp [addHeraldedModes], fun p hp => by simp [addHeraldedModes, hp], ?_, ?_⟩
  · intro i hi
    simp only [addHeraldedModes, List.mem_append]
    right
    rw [List.mem_iff_getElem]
    refine ⟨i, by simpa using hi, by simp⟩
  · simp only [addHeraldedModes, keys_append]
    congr 1
    simp only [NMap.keys]
    apply List.ext_getElem
    · simp
    · intro i h1 h2
      simp
/- The full statement — after `compose … = .ok res` for a processor, `res.heralds = l.heralds ++
   [(l.cs + i, expectedᵢ)]`, `res.dets = l.dets ++ [r.dets[posᵢ]]`, `res.cs = l.cs + #heralds`, through the
   monadic `compose` and the port loop `transferOut` — is `heralds_appended` below. -/

/-! ## availability of the modes after a composition (history of a long-lived processor)

`_check_consistency` of the *next* `add` reads the mode types the previous `add` left behind.  The modes
appended for the heralds of an added processor must be reserved exactly like heralds declared with
`add_herald`, and the availability of the old modes must not depend on what was plugged before. -/

/-- whatever `Processor.add` accepts, the circuit size and the mode availability it leaves behind are
`csAfter` / `connAfter` (for every mapping, every flag setting) -/
theorem compose_conn (f1 f2 f3 : Bool) (l r : Side) (raw : RawMap) (keep : Bool) (res : Result)
    (h : compose f1 f2 f3 l r raw keep = .ok res) :
    res.cs = csAfter l r ∧ res.conn = connAfter l r := by
  unfold compose at h
  simp only [bind, Except.bind, pure, Except.pure, throw, throwThe, MonadExceptOf.throw] at h
  repeat' split at h
  all_goals first
    | (cases h; done)
    | (cases h; exact ⟨rfl, rfl⟩)

/-- every mode imported for a herald of an added processor (`k ≥` old circuit size) is not connectible -/
theorem imported_heralds_reserved (l r : Side) (hl : l.conn.length = l.cs) (hr : r.comp = false)
    (k : Int) (hk : (l.cs : Int) ≤ k) :
    connectible (csAfter l r) (connAfter l r) k = false := by
  unfold connectible
  have h0 : ¬ k < 0 := by omega
  rw [if_neg h0]
  split_ifs with h1
  · rfl
  · have hk' : l.conn.length ≤ k.toNat := by omega
    simp only [connAfter, hr, Bool.false_eq_true, if_false]
    rw [List.getD_eq_getElem?_getD, List.getElem?_append_right hk']
    cases h : (List.replicate r.heralds.length false)[k.toNat - l.conn.length]? with
    | none => rfl
    | some b =>
      have := List.mem_of_getElem? h
      simp only [List.mem_replicate] at this
      simp [this.2]

/-- … and the availability of the old modes is what it was, whatever was plugged -/
theorem old_modes_keep_availability (l r : Side) (hl : l.conn.length = l.cs) (k : Int)
    (hk : k < (l.cs : Int)) :
    connectible (csAfter l r) (connAfter l r) k = connectible l.cs l.conn k := by
  unfold connectible
  by_cases h0 : k < 0
  · simp [h0]
  · have h1 : ¬ k ≥ (l.cs : Int) := by omega
    have h2 : ¬ k ≥ ((csAfter l r : Nat) : Int) := by
      unfold csAfter; split_ifs <;> push_cast <;> omega
    rw [if_neg h0, if_neg h0, if_neg h1, if_neg h2]
    unfold connAfter
    split_ifs
    · rfl
    · have : k.toNat < l.conn.length := by omega
      rw [List.getD_eq_getElem?_getD, List.getD_eq_getElem?_getD, List.getElem?_append_left this]

/-- a later mapping that names an imported herald mode is refused: never accepted, and with
`UnavailableModeException` whenever its size is right -/
theorem mapping_onto_imported_herald_rejected (l r : Side) (hl : l.conn.length = l.cs)
    (hr : r.comp = false) (n : Nat) (d : Dict) (p : Int × Int) (hp : p ∈ d) (hk : (l.cs : Int) ≤ p.1) :
    checkConsistency (csAfter l r) (connAfter l r) n d ≠ .ok () ∧
    (d.length = n → checkConsistency (csAfter l r) (connAfter l r) n d = .error .unavailable) := by
  have hd : d ≠ [] := List.ne_nil_of_mem hp
  have hc := imported_heralds_reserved l r hl hr p.1 hk
  constructor
  · intro h
    have := ((resolve_ok_iff _ _ n d hd).1 h).2.1 p hp
    rw [hc] at this; cases this
  · intro hn
    exact (resolve_unavailable_iff _ _ n d hd).2 ⟨hn, p, hp, hc⟩

/-- `resolve` (int, list, dict / port-name mappings alike) only returns mappings whose left modes are all
connectible -/
theorem resolve_keys_connectible (fixed : Bool) (l r : Side) (raw : RawMap) (d : Dict)
    (h : resolve fixed l r raw = .ok d) : ∀ p ∈ d, connectible l.cs l.conn p.1 = true := by
  have key : ∀ d' : Dict, checkConsistency l.cs l.conn r.m d' = .ok () →
      ∀ p ∈ d', connectible l.cs l.conn p.1 = true := by
    intro d' hc p hp
    exact ((resolve_ok_iff _ _ _ d' (List.ne_nil_of_mem hp)).1 hc).2.1 p hp
  unfold resolve at h
  cases raw with
  | ofInt b =>
    simp only [bind, Except.bind, pure, Except.pure] at h
    split at h
    · cases h
    · rename_i u hc
      cases h
      cases u
      exact key _ hc
  | ofList ks =>
    simp only [bind, Except.bind, pure, Except.pure, throw, throwThe, MonadExceptOf.throw] at h
    repeat' split at h
    all_goals first
      | (cases h; done)
      | (rename_i u hc; cases h; cases u; exact key _ hc)
  | ofDict items =>
    simp only [bind, Except.bind, pure, Except.pure, throw, throwThe, MonadExceptOf.throw] at h
    repeat' split at h
    all_goals first
      | (cases h; done)
      | (rename_i u hc; cases h; cases u; exact key _ hc)

/-- **two successive adds**: after a processor was plugged (by any mapping), no mapping the next `add`
accepts — offset, list, dictionary or port names, for any object — touches a mode imported for its
heralds; the next `add` sees exactly the old modes, with their old availability. -/
theorem second_add_avoids_imported_heralds (f1 f2 f3 fixed : Bool) (l r : Side) (raw : RawMap)
    (keep : Bool) (res : Result) (hl : l.conn.length = l.cs) (hr : r.comp = false)
    (h : compose f1 f2 f3 l r raw keep = .ok res)
    (l' r' : Side) (hcs : l'.cs = res.cs) (hconn : l'.conn = res.conn) (raw' : RawMap) (d : Dict)
    (h' : resolve fixed l' r' raw' = .ok d) :
    ∀ p ∈ d, p.1 < (l.cs : Int) ∧ connectible l.cs l.conn p.1 = true := by
  intro p hp
  obtain ⟨e1, e2⟩ := compose_conn f1 f2 f3 l r raw keep res h
  have hc := resolve_keys_connectible fixed l' r' raw' d h' p hp
  rw [hcs, hconn, e1, e2] at hc
  have hlt : p.1 < (l.cs : Int) := by
    by_contra hge
    rw [imported_heralds_reserved l r hl hr p.1 (by omega)] at hc
    cases hc
  exact ⟨hlt, by rw [← old_modes_keep_availability l r hl p.1 hlt]; exact hc⟩

/-! ## post-selection carried over -/

theorem eval_mapModes (f : Nat → Nat) (ps : PS) (s : Nat → Nat) :
    (ps.mapModes f).eval s = ps.eval (s ∘ f) := by
  induction ps with
  | cond ms op v => simp [PS.mapModes, PS.eval, List.map_map]
  | and a b iha ihb => simp [PS.mapModes, PS.eval, iha, ihb]
  | or a b iha ihb => simp [PS.mapModes, PS.eval, iha, ihb]
  | xor a b iha ihb => simp [PS.mapModes, PS.eval, iha, ihb]
  | not a iha => simp [PS.mapModes, PS.eval, iha]

/-- The carried-over condition evaluated on a state of the composed processor equals the original
condition evaluated on the state read back through `v ↦ first + τ(v)` … -/
theorem postselect_renamed (τ : List Nat) (first : Nat) (ps : PS) (s : Nat → Nat) :
    (renamePS true (some τ) first ps).eval s =
      ps.eval (fun v => s (applyPermFn τ 0 v + first)) := by
  simp only [renamePS, if_true, eval_mapModes]
  rfl

theorem postselect_renamed_noperm (first : Nat) (ps : PS) (s : Nat → Nat) :
    (renamePS true none first ps).eval s = ps.eval (fun v => s (v + first)) := by
  simp only [renamePS, eval_mapModes]
  rfl

/-- … and `first + τ(v)` is exactly the left mode `k` the mapping attached to right-hand mode `v`
(`τ` = inverse of the generated permutation): the condition is re-expressed in the new numbering. -/
theorem postselect_renamed_mode (mp : NMap) (hne : mp ≠ []) (hk : mp.keys.Nodup)
    (hv : mp.vals.Nodup) (hb : ∀ v ∈ mp.vals, v < mp.length) {k v : Nat} (h : (k, v) ∈ mp) :
    applyPermFn (invPerm (permVect mp)) 0 v + minN mp.keys = k := by
  have hσ := genPerm_isPerm mp hne hk hv hb
  have hw := genPerm_wires mp hk h
  have hvlt : v < (permVect mp).length := by
    have hmem : v ∈ permVect mp := List.mem_of_getElem? hw
    exact hσ.2.2 v hmem
  have hinv := invPerm_getD hσ.2.1 hvlt hw
  have hkm : k ∈ mp.keys := List.mem_map.2 ⟨(k, v), h, rfl⟩
  have h1 := minN_le hkm
  have hlen : (invPerm (permVect mp)).length = (permVect mp).length := by simp [invPerm]
  unfold applyPermFn
  rw [if_pos ⟨Nat.zero_le _, by rw [hlen]; omega⟩]
  simp only [Nat.sub_zero, Nat.zero_add]
  rw [hinv]
  omega

/-- The code as found (`fixPS = false`: permute at offset `first`, then shift) breaks this as soon as the
first impacted mode is not 0: right-hand mode 0 attached to left mode 2 through `[2, 1]`. -/
theorem postselect_renamed_fails_on_current_code :
    ¬ ∀ (τ : List Nat) (first : Nat) (ps : PS) (s : Nat → Nat),
        (renamePS false (some τ) first ps).eval s =
          ps.eval (fun v => s (applyPermFn τ 0 v + first)) := by
  intro h
  have := h [1, 0] 1 (.cond [0] .eq 1) (fun m => if m = 2 then 1 else 0)
  revert this
  decide

/-! ## non-vacuity -/

/-- the mapping `[2, 0]` (left modes 2 and 0 onto inputs 0 and 1): PERM `[1, 2, 0]` on modes 0..2 -/
example : permVect [(2, 0), (0, 1)] = [1, 2, 0] ∧ genPerm [(2, 0), (0, 1)] = .ok (some [1, 2, 0]) ∧
    invPerm [1, 2, 0] = [2, 0, 1] := by decide

example : ([(2, 0), (0, 1)] : NMap) ≠ [] ∧ (NMap.keys [(2, 0), (0, 1)]).Nodup := by decide

/-- a herald of the added processor at position 1, left circuit of 3 modes: new mode 3 ↦ 1 -/
example : addHeraldedModes 3 [(1, 0), (0, 2)] [1] = [(1, 0), (0, 2), (3, 1)] ∧
    permVect [(1, 0), (0, 2), (3, 1)] = [2, 0, 3, 1] := by decide

example : checkConsistency 4 [true, true, false, true] 2 [(0, 0), (3, 1)] = .ok () ∧
    checkConsistency 4 [true, true, false, true] 2 [(0, 0), (2, 1)] = .error .unavailable ∧
    checkConsistency 4 [true, true, false, true] 2 [(0, 0), (3, 0)] = .error .invalid ∧
    checkConsistency 4 [true, true, false, true] 2 [(0, 0)] = .error .invalid := by decide

/-- a 3-mode left processor (mode 1 heralded) receives a processor with two heralds: modes 3 and 4 are
reserved, modes 0 and 2 stay available; a later `[4, 0]` is refused with `UnavailableModeException` -/
example :
    let l : Side := ⟨false, 2, 3, [true, false, true], [(1, 0)], [], [], [], [], [], none⟩
    let r : Side := ⟨false, 1, 3, [false, true, false], [(2, 1), (0, 0)], [], [], [], [], [], none⟩
    csAfter l r = 5 ∧ connAfter l r = [true, false, true, false, false] ∧
    checkConsistency (csAfter l r) (connAfter l r) 2 [(4, 0), (0, 1)] = .error .unavailable ∧
    checkConsistency (csAfter l r) (connAfter l r) 2 [(2, 0), (0, 1)] = .ok () := by decide

/-- the repaired renaming on the witness of the defect: condition on right-hand mode 0 lands on mode 2 -/
example : (renamePS true (some [1, 0]) 1 (.cond [0] .eq 1)).conds = [[2]] ∧
    (renamePS false (some [1, 0]) 1 (.cond [0] .eq 1)).conds = [[1]] := by decide

def exC : Matrix (Fin 2) (Fin 2) GQ := fun i j => if i = j then 0 else GQ.I

example : IsPermList 3 [1, 2, 0] := by decide

/-! # End-to-end statements (through `compose`, `resolve`, the port loops) -/

/-! ## heralds and detectors of the composed processor, end to end

The statements below go through the monadic `compose` (`resolve`, `_validate_postselect_composition`,
port removal, `add_heralded_modes`, `generate_permutation`, the output-port loop with `_add_herald`).
Hypotheses are the well-formedness of the bookkeeping the code maintains by construction:
`heralds` *is* the list of herald ports (`Experiment.heralds` is computed from `_out_ports`), and herald
ports sit on modes that are not connectible. -/

/-- **heralds appended** (full statement): after an accepted `add` of a processor — any mapping syntax,
any flag setting — the circuit grew by one mode per herald of the added processor; `heralds` is the old
dictionary followed, in the order of the added processor's `heralds`, by `circuit_size + i ↦ expectedᵢ`;
`detectors` is the old list followed by the detectors the added processor had on its herald modes. -/
theorem heralds_appended (f1 f2 f3 : Bool) (l r : Side) (raw : RawMap) (keep : Bool) (res : Result)
    (hr : r.comp = false)
    (hlh : l.heralds = heraldsOf l.outp)
    (hlc : ∀ p ∈ l.outp, p.herald = true → ∀ k : Nat, p.start ≤ k → k < p.start + p.size →
      connectible l.cs l.conn (k : Int) = false)
    (hrh : r.heralds = heraldsOf r.outp)
    (h : compose f1 f2 f3 l r raw keep = .ok res) :
    res.cs = l.cs + r.heralds.length ∧
    res.heralds = l.heralds ++
      (List.range r.heralds.length).zipWith (fun i h => (l.cs + i, h.2)) r.heralds ∧
    res.dets = l.dets ++ r.heralds.map (fun h => r.dets.getD h.1 none) := by
  obtain ⟨d, mp, perm, inp1, outp1, inp2, -, -, -, -, -, -, -, -, -, -, hcs, -, hh, hdets, -, ho⟩ :=
    compose_proc_inv f1 f2 f3 l r raw keep res hr h
  obtain ⟨keys, new, hkeys, e, hnew, -⟩ := compose_proc_ports f1 f2 f3 l r raw keep res hr hrh h
  refine ⟨hcs, ?_, by rw [hdets, List.map_map]; rfl⟩
  rw [hh, ← ho, e, heraldsOf_append, hnew, hlh]
  congr 1
  unfold heraldsOf
  rw [removePorts_herald_filter keep l.outp keys (keys_avoid_heralds l keys hkeys hlc)]

/-- a bare component brings no herald: size, heralds and detectors are unchanged (whether or not the
output ports under the mapped modes are removed) -/
theorem heralds_unchanged_component (f1 f2 f3 : Bool) (l r : Side) (raw : RawMap) (keep : Bool)
    (res : Result) (hr : r.comp = true)
    (hlh : l.heralds = heraldsOf l.outp)
    (hlc : ∀ p ∈ l.outp, p.herald = true → ∀ k : Nat, p.start ≤ k → k < p.start + p.size →
      connectible l.cs l.conn (k : Int) = false)
    (h : compose f1 f2 f3 l r raw keep = .ok res) :
    res.cs = l.cs ∧ res.heralds = l.heralds ∧ res.dets = l.dets := by
  obtain ⟨d, mp, perm, hd, hmp, -, -, -, -, -, -, hcs, -, hh, hdets, -, -, -⟩ :=
    compose_comp_inv f1 f2 f3 l r raw keep res hr h
  obtain ⟨-, -, -, -, -, hconn⟩ := resolved_nmap_facts f1 l r raw d mp hd hmp
  refine ⟨hcs, ?_, hdets⟩
  rw [hh, hlh]
  unfold heraldsOf
  rw [removePorts_herald_filter keep l.outp _ (keys_avoid_heralds l _ ?_ hlc)]
  rw [← toNMap_keys d mp hmp]; exact hconn

/-- a mode that is not connectible stays so after any `add` (old modes keep their type, imported modes are
reserved) -/
theorem connectible_after_false (l r : Side) (hl : l.conn.length = l.cs) (k : Int)
    (h : connectible l.cs l.conn k = false) :
    connectible (csAfter l r) (connAfter l r) k = false := by
  by_cases hk : k < (l.cs : Int)
  · rw [old_modes_keep_availability l r hl k hk]; exact h
  · cases hr : r.comp with
    | true => simpa [csAfter, connAfter, hr] using h
    | false => exact imported_heralds_reserved l r hl hr k (by omega)

theorem compose_keeps_heralds_reserved (f1 f2 f3 : Bool) (l r : Side) (raw : RawMap) (keep : Bool)
    (res : Result) (hl : l.conn.length = l.cs)
    (hrh : r.comp = false → r.heralds = heraldsOf r.outp)
    (hres : HeraldPortsReserved l.cs l.conn l.outp)
    (h : compose f1 f2 f3 l r raw keep = .ok res) :
    res.conn.length = res.cs ∧ res.heralds = heraldsOf res.outp ∧
      HeraldPortsReserved res.cs res.conn res.outp := by
  obtain ⟨ecs, econn⟩ := compose_conn f1 f2 f3 l r raw keep res h
  have hold : ∀ p ∈ l.outp, p.herald = true →
      p.size = 1 ∧ connectible res.cs res.conn (p.start : Int) = false := by
    intro p hp hh
    obtain ⟨hs, hc⟩ := hres p hp hh
    rw [ecs, econn]
    exact ⟨hs, connectible_after_false l r hl _ hc⟩
  cases hr : r.comp with
  | true =>
    obtain ⟨d, mp, perm, -, -, -, -, -, -, -, -, hcs, hconn, hh, -, -, ho, -⟩ :=
      compose_comp_inv f1 f2 f3 l r raw keep res hr h
    refine ⟨by rw [hcs, hconn, hl], by rw [hh, ho], ?_⟩
    intro p hp hph
    rw [ho] at hp
    exact hold p (removePorts_subset _ _ _ p hp) hph
  | false =>
    obtain ⟨d, mp, perm, inp1, outp1, inp2, -, -, -, -, -, -, -, -, -, -, hcs, hconn, hh, -, -, ho⟩ :=
      compose_proc_inv f1 f2 f3 l r raw keep res hr h
    obtain ⟨keys, new, -, e, hnew, hsz⟩ :=
      compose_proc_ports f1 f2 f3 l r raw keep res hr (hrh hr) h
    refine ⟨by rw [hcs, hconn]; simp [hl], by rw [hh, ho], ?_⟩
    intro p hp hph
    rw [e] at hp
    rcases List.mem_append.1 hp with hp | hp
    · exact hold p (removePorts_subset _ _ _ p hp) hph
    · refine ⟨hsz p hp hph, ?_⟩
      have hm := heraldsOf_mem hp hph
      rw [hnew] at hm
      obtain ⟨i, hi, e'⟩ := List.mem_iff_getElem.1 hm
      simp only [List.getElem_zipWith, List.getElem_range] at e'
      have hst : p.start = l.cs + i := (congrArg Prod.fst e').symm
      rw [ecs, econn, hst]
      exact imported_heralds_reserved l r hl hr _ (by push_cast; omega)

theorem result_heralds_reserved (f1 f2 f3 : Bool) (l r : Side) (raw : RawMap) (keep : Bool)
    (res : Result) (hl : l.conn.length = l.cs)
    (hrh : r.comp = false → r.heralds = heraldsOf r.outp)
    (hres : HeraldPortsReserved l.cs l.conn l.outp)
    (h : compose f1 f2 f3 l r raw keep = .ok res) :
    ∀ hm ∈ res.heralds, connectible res.cs res.conn (hm.1 : Int) = false := by
  obtain ⟨-, e, hp⟩ := compose_keeps_heralds_reserved f1 f2 f3 l r raw keep res hl hrh hres h
  intro hm hmem
  rw [e] at hmem
  obtain ⟨p, hpo, hph, hs, -⟩ := mem_heraldsOf hmem
  rw [← hs]
  exact (hp p hpo hph).2

/-! ## `generate_permutation` never raises on a legal mapping -/

/-- **completeness of PERM's assertion**: on a legal mapping (distinct left modes, right-hand modes
`0 … n-1` in some order) `generate_permutation` does not raise; it returns no PERM when the vector is the
identity and the PERM of `permVect` otherwise. -/
theorem genPerm_never_raises (mp : NMap) (hne : mp ≠ []) (hk : mp.keys.Nodup) (hv : mp.vals.Nodup)
    (hb : ∀ v ∈ mp.vals, v < mp.length) :
    genPerm mp = .ok (if permVect mp = List.range (permVect mp).length then none
      else some (permVect mp)) := by
  have hp := permValid_of_isPerm (permVect mp) (permVect_ne_nil mp hne hk)
    (genPerm_isPerm mp hne hk hv hb)
  simp only [genPerm]
  split_ifs <;> rfl

/-- … and legality is exactly what the assertion tests: for a mapping with distinct left modes,
`generate_permutation` returns iff the right-hand modes are distinct and `< n`. -/
theorem genPerm_ok_iff (mp : NMap) (hne : mp ≠ []) (hk : mp.keys.Nodup) :
    (∃ σ, genPerm mp = .ok σ) ↔ mp.vals.Nodup ∧ ∀ v ∈ mp.vals, v < mp.length := by
  constructor
  · rintro ⟨σ, h⟩; exact legal_of_genPerm_ok mp hk σ h
  · rintro ⟨hv, hb⟩; exact ⟨_, genPerm_never_raises mp hne hk hv hb⟩

/-- the only way `generate_permutation` fails is PERM's `AssertionError`, exactly on the illegal mappings -/
theorem genPerm_raises_iff (mp : NMap) (hne : mp ≠ []) (hk : mp.keys.Nodup) (e : Err) :
    genPerm mp = .error e ↔
      e = .assertion ∧ ¬ (mp.vals.Nodup ∧ ∀ v ∈ mp.vals, v < mp.length) := by
  rw [← genPerm_ok_iff mp hne hk]
  constructor
  · intro h
    refine ⟨?_, fun ⟨σ, hσ⟩ => by rw [hσ] at h; cases h⟩
    simp only [genPerm] at h
    split_ifs at h
    cases h; rfl
  · rintro ⟨rfl, hn⟩
    cases hg : genPerm mp with
    | ok σ => exact absurd ⟨σ, hg⟩ hn
    | error e' =>
      simp only [genPerm] at hg
      split_ifs at hg
      cases hg; rfl

/-- **end to end**: whenever `resolve` accepts a mapping whose right-hand values are modes of interest of
the added object (no herald, nothing out of range) and the added object is well formed, the mapping
`compose` hands to `generate_permutation` — the heralded modes of an added processor included — is legal,
so `generate_permutation` returns. -/
theorem genPerm_ok_of_accepted (fixed : Bool) (l r : Side) (raw : RawMap) (d : Dict) (mp : NMap)
    (h : resolve fixed l r raw = .ok d) (hm : toNMap d = some mp) (hwf : RightWF r)
    (hvals : ∀ v ∈ mp.vals, v ∈ orderedRModes r) :
    ∃ σ, genPerm (permInput l r mp) = .ok σ := by
  obtain ⟨hne, hk, hv, hb⟩ := permInput_legal fixed l r raw d mp h hm hwf hvals
  exact ⟨_, genPerm_never_raises _ hne hk hv hb⟩

/-- offset and list mappings need no side condition: every one `resolve` accepts goes through
`generate_permutation` -/
theorem genPerm_ok_of_accepted_int_list (fixed : Bool) (l r : Side) (raw : RawMap) (d : Dict)
    (hraw : ∀ items, raw ≠ .ofDict items) (hwf : RightWF r)
    (h : resolve fixed l r raw = .ok d) :
    ∃ mp σ, toNMap d = some mp ∧ genPerm (permInput l r mp) = .ok σ := by
  obtain ⟨mp, hm, hvals⟩ := resolve_simple_toNMap fixed l r raw d hraw hwf h
  obtain ⟨σ, hσ⟩ := genPerm_ok_of_accepted fixed l r raw d mp h hm hwf hvals
  exact ⟨mp, σ, hm, hσ⟩

/-- **through `compose`**: for an offset or list mapping onto a well-formed right-hand object, the only
`AssertionError` `Processor.add` can end in is the explicit `can_compose_with` assertion about the left
post-selection — never PERM's, neither in `_add_component` nor in `_compose_experiment` (heralded modes
included). -/
theorem compose_no_perm_assertion (f1 f2 f3 : Bool) (l r : Side) (raw : RawMap) (keep : Bool)
    (hraw : ∀ items, raw ≠ .ofDict items) (hwf : RightWF r)
    (h : compose f1 f2 f3 l r raw keep = .error .assertion) :
    ∃ d, resolve f1 l r raw = .ok d ∧ validatePS l (d.keys.map Int.toNat) = .error .assertion := by
  refine compose_assertion_inv f1 f2 f3 l r raw keep hraw hwf ?_ h
  intro d mp hd hm
  obtain ⟨mp', σ, hm', hσ⟩ := genPerm_ok_of_accepted_int_list f1 l r raw d hraw hwf hd
  rw [hm] at hm'
  cases hm'
  exact ⟨σ, hσ⟩

/-- in particular, on a left processor without post-selection such an `add` never raises `AssertionError` -/
theorem compose_int_list_never_assertion (f1 f2 f3 : Bool) (l r : Side) (raw : RawMap) (keep : Bool)
    (hraw : ∀ items, raw ≠ .ofDict items) (hwf : RightWF r) (hps : l.ps = none) :
    compose f1 f2 f3 l r raw keep ≠ .error .assertion := by
  intro h
  obtain ⟨d, -, hv⟩ := compose_no_perm_assertion f1 f2 f3 l r raw keep hraw hwf h
  simp [validatePS, hps] at hv

/-! ## the offset and list forms of `resolve` (corollaries of `resolve_ok_iff`) -/

/-- **offset mapping** `add(b, obj)`: accepted iff it stands for `{b+i : r_list[i]}`, the `m` consecutive left
modes `b … b+m-1` are all connectible and the right-hand modes of interest are distinct -/
theorem resolve_int_ok_iff (fixed : Bool) (l r : Side) (b : Int) (d : Dict) (hm : 0 < r.m) :
    resolve fixed l r (.ofInt b) = .ok d ↔
      d = intMap b r ∧ (∀ i : Nat, i < r.m → connectible l.cs l.conn (b + i) = true) ∧
        (intMap b r).vals.Nodup := by
  rw [resolve_int_eq, ← intMap_forall b r (fun k => connectible l.cs l.conn k = true)]
  have hlen : (intMap b r).length = r.m := by simp [intMap]
  have hiff := resolve_ok_iff l.cs l.conn r.m (intMap b r) (intMap_ne_nil b r hm)
  constructor
  · intro h
    split at h
    · rename_i u hc
      cases h
      exact ⟨rfl, ((hiff.1 (by cases u; exact hc)).2)⟩
    · cases h
  · rintro ⟨rfl, h2, h3⟩
    rw [hiff.2 ⟨hlen, h2, h3⟩]

/-- for a well-formed right-hand object the last condition always holds: an offset mapping is accepted iff
modes `b … b+m-1` are connectible … -/
theorem resolve_int_ok_iff_wf (fixed : Bool) (l r : Side) (b : Int) (d : Dict) (hm : 0 < r.m)
    (hwf : RightWF r) :
    resolve fixed l r (.ofInt b) = .ok d ↔
      d = intMap b r ∧ ∀ i : Nat, i < r.m → connectible l.cs l.conn (b + i) = true := by
  rw [resolve_int_ok_iff fixed l r b d hm]
  have : (intMap b r).vals.Nodup := by
    rw [intMap_vals b r hwf]; exact map_ofNat_nodup _ (orderedRModes_nodup r)
  exact ⟨fun h => ⟨h.1, h.2.1⟩, fun h => ⟨h.1, h.2, this⟩⟩

/-- … and is refused otherwise with `UnavailableModeException`, nothing else -/
theorem resolve_int_error_iff_wf (fixed : Bool) (l r : Side) (b : Int) (e : Err) (hm : 0 < r.m)
    (hwf : RightWF r) :
    resolve fixed l r (.ofInt b) = .error e ↔
      e = .unavailable ∧ ∃ i : Nat, i < r.m ∧ connectible l.cs l.conn (b + i) = false := by
  have hne := intMap_ne_nil b r hm
  have hlen : (intMap b r).length = r.m := by simp [intMap]
  have hnd : (intMap b r).vals.Nodup := by
    rw [intMap_vals b r hwf]; exact map_ofNat_nodup _ (orderedRModes_nodup r)
  have hex : (∃ p ∈ intMap b r, connectible l.cs l.conn p.1 = false) ↔
      ∃ i : Nat, i < r.m ∧ connectible l.cs l.conn (b + i) = false := by
    simp only [intMap, List.mem_map, List.mem_range]
    constructor
    · rintro ⟨p, ⟨i, hi, rfl⟩, hc⟩; exact ⟨i, hi, hc⟩
    · rintro ⟨i, hi, hc⟩; exact ⟨_, ⟨i, hi, rfl⟩, hc⟩
  rw [resolve_int_eq, ← hex, checkConsistency_eq _ _ _ _ hne, if_neg (not_not.2 hlen),
    if_neg (not_not.2 hnd)]
  by_cases h2 : ∃ p ∈ intMap b r, connectible l.cs l.conn p.1 = false
  · rw [if_pos h2]
    constructor
    · intro h; cases h; exact ⟨rfl, h2⟩
    · rintro ⟨rfl, _⟩; rfl
  · rw [if_neg h2]
    constructor
    · intro h; cases h
    · rintro ⟨_, h⟩; exact absurd h h2

/-- **list mapping** `add([k0, k1, …], obj)` onto a well-formed right-hand object with `m ≥ 1` modes of
interest: accepted iff the list has `m` entries, no repetition, and names only connectible left modes; the
resolved mapping is then `zip(list, r_list)` -/
theorem resolve_list_ok_iff (fixed : Bool) (l r : Side) (ks : List Int) (d : Dict) (hm : 0 < r.m)
    (hwf : RightWF r) :
    resolve fixed l r (.ofList ks) = .ok d ↔
      ks.length = r.m ∧ ks.Nodup ∧ (∀ k ∈ ks, connectible l.cs l.conn k = true) ∧
        d = listMap ks r := by
  have hrl := orderedRModes_length r hwf
  rw [resolve_list_eq, hrl]
  by_cases hlen : ks.length = r.m
  · rw [if_neg (not_not.2 hlen)]
    have hlen' : ks.length = (orderedRModes r).length := by rw [hrl]; exact hlen
    have hkeys := listMap_keys ks r hlen'
    have hvals := listMap_vals ks r hlen'
    have hL := listMap_length ks r hlen'
    constructor
    · intro h
      split at h
      · rename_i u hc
        cases h
        obtain ⟨-, h1, -, h4⟩ := checkConsistency_ok _ _ _ _ hc
        have hnd : ((listMap ks r).map (·.1)).Nodup :=
          (dictOf_length_iff _).1 (by rw [h1, hL, hlen])
        have e := dictOf_of_nodup _ hnd
        rw [hkeys] at hnd
        refine ⟨hlen, hnd, fun k hk => ?_, e⟩
        rw [e] at h4
        rw [← hkeys] at hk
        obtain ⟨p, hp, rfl⟩ := List.mem_map.1 hk
        exact h4 p hp
      · cases h
    · rintro ⟨-, hnd, hc, rfl⟩
      have e := dictOf_of_nodup (listMap ks r) (by rw [hkeys]; exact hnd)
      rw [e]
      have hne : listMap ks r ≠ [] := by
        intro h0
        have h1 : (listMap ks r).length = 0 := by rw [h0]; rfl
        omega
      have : checkConsistency l.cs l.conn r.m (listMap ks r) = .ok () := by
        refine (resolve_ok_iff _ _ _ _ hne).2 ⟨by rw [hL, hlen], fun p hp => ?_, ?_⟩
        · exact hc p.1 (by rw [← hkeys]; exact List.mem_map.2 ⟨p, hp, rfl⟩)
        · rw [hvals]; exact map_ofNat_nodup _ (orderedRModes_nodup r)
      rw [this]
  · rw [if_pos hlen]
    constructor
    · intro h; cases h
    · rintro ⟨h, _⟩; exact absurd h hlen

/-- … refused with `InvalidMappingException` exactly when the size is wrong or a left mode is repeated … -/
theorem resolve_list_invalid_iff (fixed : Bool) (l r : Side) (ks : List Int) (hm : 0 < r.m)
    (hwf : RightWF r) :
    resolve fixed l r (.ofList ks) = .error .invalid ↔ ks.length ≠ r.m ∨ ¬ ks.Nodup := by
  have hrl := orderedRModes_length r hwf
  rw [resolve_list_eq, hrl]
  by_cases hlen : ks.length = r.m
  · rw [if_neg (not_not.2 hlen)]
    have hlen' : ks.length = (orderedRModes r).length := by rw [hrl]; exact hlen
    have hkeys := listMap_keys ks r hlen'
    have hvals := listMap_vals ks r hlen'
    have hL := listMap_length ks r hlen'
    by_cases hnd : ks.Nodup
    · have e := dictOf_of_nodup (listMap ks r) (by rw [hkeys]; exact hnd)
      have hne : listMap ks r ≠ [] := by
        intro h0
        have h1 : (listMap ks r).length = 0 := by rw [h0]; rfl
        omega
      rw [e, checkConsistency_eq _ _ _ _ hne, if_neg (not_not.2 (by rw [hL, hlen])),
        if_neg (not_not.2 (by rw [hvals]; exact map_ofNat_nodup _ (orderedRModes_nodup r)))]
      constructor
      · intro h
        split at h
        · cases h
        · rename_i e' hc
          split_ifs at hc
          · cases hc; cases h
      · rintro (h | h)
        · exact absurd hlen h
        · exact absurd hnd h
    · have hlt : (dictOf (listMap ks r)).length ≠ r.m := by
        intro h
        apply hnd
        rw [← hkeys]
        exact (dictOf_length_iff _).1 (by rw [h, hL, hlen])
      have : checkConsistency l.cs l.conn r.m (dictOf (listMap ks r)) = .error .invalid := by
        unfold checkConsistency
        rw [if_pos hlt]
      rw [this]
      exact ⟨fun _ => Or.inr hnd, fun _ => rfl⟩
  · rw [if_pos hlen]
    exact ⟨fun _ => Or.inl hlen, fun _ => rfl⟩

/-- … and with `UnavailableModeException` exactly when it is a duplicate-free list of the right size that
names a left mode that is not connectible -/
theorem resolve_list_unavailable_iff (fixed : Bool) (l r : Side) (ks : List Int) (hm : 0 < r.m)
    (hwf : RightWF r) :
    resolve fixed l r (.ofList ks) = .error .unavailable ↔
      ks.length = r.m ∧ ks.Nodup ∧ ∃ k ∈ ks, connectible l.cs l.conn k = false := by
  have hrl := orderedRModes_length r hwf
  by_cases hbad : ks.length ≠ r.m ∨ ¬ ks.Nodup
  · have := (resolve_list_invalid_iff fixed l r ks hm hwf).2 hbad
    rw [this]
    constructor
    · intro h; cases h
    · rintro ⟨h1, h2, -⟩
      rcases hbad with h | h
      · exact absurd h1 h
      · exact absurd h2 h
  · have hlen : ks.length = r.m := by
      by_contra h; exact hbad (Or.inl h)
    have hnd : ks.Nodup := by
      by_contra h; exact hbad (Or.inr h)
    have hlen' : ks.length = (orderedRModes r).length := by rw [hrl]; exact hlen
    have hkeys := listMap_keys ks r hlen'
    have hvals := listMap_vals ks r hlen'
    have hL := listMap_length ks r hlen'
    have e := dictOf_of_nodup (listMap ks r) (by rw [hkeys]; exact hnd)
    have hne : listMap ks r ≠ [] := by
      intro h0
      have h1 : (listMap ks r).length = 0 := by rw [h0]; rfl
      omega
    have hex : (∃ p ∈ listMap ks r, connectible l.cs l.conn p.1 = false) ↔
        ∃ k ∈ ks, connectible l.cs l.conn k = false := by
      constructor
      · rintro ⟨p, hp, hc⟩
        exact ⟨p.1, by rw [← hkeys]; exact List.mem_map.2 ⟨p, hp, rfl⟩, hc⟩
      · rintro ⟨k, hk, hc⟩
        rw [← hkeys] at hk
        obtain ⟨p, hp, rfl⟩ := List.mem_map.1 hk
        exact ⟨p, hp, hc⟩
    rw [resolve_list_eq, hrl, if_neg (not_not.2 hlen), e]
    have hu := resolve_unavailable_iff l.cs l.conn r.m (listMap ks r) hne
    rw [hex] at hu
    constructor
    · intro h
      split at h
      · cases h
      · rename_i e' hc
        cases h
        exact ⟨hlen, hnd, (hu.1 hc).2⟩
    · rintro ⟨-, -, h⟩
      rw [hu.2 ⟨by rw [hL, hlen], h⟩]

/-! ## the permutation `compose` stores wires the resolved mapping and the herald modes -/

/-- wiring read off the value `generate_permutation` returned -/
theorem genPerm_ok_wires (mp : NMap) (hk : mp.keys.Nodup) (perm : Option (List Nat))
    (h : genPerm mp = .ok perm) {k v : Nat} (hm : (k, v) ∈ mp) :
    (∀ σ, perm = some σ → σ[k - minN mp.keys]? = some v) ∧ (perm = none → v = k - minN mp.keys) := by
  have hw := genPerm_wires mp hk hm
  rcases genPerm_ok_cases mp perm h with ⟨rfl, hr⟩ | rfl
  · refine ⟨fun σ hσ => (by cases hσ), fun _ => ?_⟩
    rw [hr] at hw
    have hlt : k - minN mp.keys < (permVect mp).length := by
      by_contra hc
      rw [List.getElem?_eq_none (by simpa using hc)] at hw
      cases hw
    rw [List.getElem?_range hlt] at hw
    exact (Option.some.inj hw).symm
  · exact ⟨fun σ hσ => (by cases hσ; exact hw), fun hn => (by cases hn)⟩

/-- **the permutation stored by `compose` wires the mapping**: after an accepted `add`, for every pair
`k ↦ v` of the resolved mapping — and, for an added processor, for every herald pair
`circuit_size + i ↦ positionᵢ` — the PERM placed at `res.first` sends left mode `k` to input `v` of the
added object; when no PERM was needed, `v = k − res.first` already. -/
theorem compose_wires (f1 f2 f3 : Bool) (l r : Side) (raw : RawMap) (keep : Bool) (res : Result)
    (h : compose f1 f2 f3 l r raw keep = .ok res) (k v : Nat)
    (hkv : (k, v) ∈ res.map ∨ (r.comp = false ∧ ∃ i, ∃ hi : i < r.heralds.length,
      k = l.cs + i ∧ v = (r.heralds[i]).1)) :
    (∀ σ, res.perm = some σ → σ[k - res.first]? = some v) ∧ (res.perm = none → v = k - res.first) := by
  cases hr : r.comp with
  | true =>
    obtain ⟨d, mp, perm, hd, hmp, hperm, hmap, -, hfirst, hp, -⟩ :=
      compose_comp_inv f1 f2 f3 l r raw keep res hr h
    obtain ⟨-, -, hk, -, -, -⟩ := resolved_nmap_facts f1 l r raw d mp hd hmp
    rw [hfirst, hp]
    rcases hkv with hkv | ⟨hf, -⟩
    · exact genPerm_ok_wires mp hk perm hperm (hmap ▸ hkv)
    · rw [hr] at hf; cases hf
  | false =>
    obtain ⟨d, mp, perm, inp1, outp1, inp2, hd, hmp, hperm, -, -, hmap, -, hfirst, hp, -⟩ :=
      compose_proc_inv f1 f2 f3 l r raw keep res hr h
    obtain ⟨-, -, hk, -, hlt, -⟩ := resolved_nmap_facts f1 l r raw d mp hd hmp
    have hkH := addHeraldedModes_keys_nodup l.cs mp (r.heralds.map (·.1)) hk hlt
    rw [hfirst, hp]
    apply genPerm_ok_wires _ hkH perm hperm
    rcases hkv with hkv | ⟨-, i, hi, rfl, rfl⟩
    · exact (heralds_appended_partial l.cs mp _).2.1 _ (hmap ▸ hkv)
    · have := addHeraldedModes_mem l.cs mp (r.heralds.map (·.1)) i (by simpa using hi)
      simpa only [List.getElem_map] using this

/-! ## non-vacuity of the end-to-end statements -/

/-- 3-mode left processor, mode 1 heralded (expected 0) -/
def exL : Side :=
  { comp := false, m := 2, cs := 3, conn := [true, false, true], heralds := [(1, 0)],
    dets := [none, some "pnr", none],
    outp := [⟨1, 1, "herald0", true, 0, none⟩], inp := [⟨1, 1, "herald0", true, 0, none⟩],
    outNames := ["", "herald0", ""], inNames := ["", "herald0", ""], ps := none }

/-- 3-mode right processor: heralds declared on mode 2 (expected 1, threshold detector) then mode 0
(expected 0, PNR detector); one mode of interest (mode 1) -/
def exR : Side :=
  { comp := false, m := 1, cs := 3, conn := [false, true, false], heralds := [(2, 1), (0, 0)],
    dets := [some "pnr", none, some "threshold"],
    outp := [⟨2, 1, "herald0", true, 1, none⟩, ⟨0, 1, "herald1", true, 0, none⟩],
    inp := [⟨2, 1, "herald0", true, 1, none⟩, ⟨0, 1, "herald1", true, 0, none⟩],
    outNames := ["herald1", "", "herald0"], inNames := ["herald1", "", "herald0"], ps := none }

/-- a bare 2-mode component -/
def exC2 : Side :=
  { comp := true, m := 2, cs := 2, conn := [true, true], heralds := [], dets := [], outp := [], inp := [],
    outNames := [], inNames := [], ps := none }

/-- what the examples look at in the outcome of `compose` -/
structure ExObs where
  cs : Nat
  heralds : List (Nat × Nat)
  dets : List (Option String)
  perm : Option (List Nat)
  conn : List Bool
deriving DecidableEq

def exObs : Except Err Result → Except Err ExObs
  | .ok res => .ok ⟨res.cs, res.heralds, res.dets, res.perm, res.conn⟩
  | .error e => .error e

/-- hypotheses of `heralds_appended`, `compose_keeps_heralds_reserved`, `result_heralds_reserved` -/
example : exR.comp = false ∧ exL.conn.length = exL.cs ∧ exL.heralds = heraldsOf exL.outp ∧
    exR.heralds = heraldsOf exR.outp ∧ HeraldPortsReserved exL.cs exL.conn exL.outp ∧ RightWF exR := by
  refine ⟨rfl, rfl, by decide, by decide, ?_, ?_⟩
  · unfold HeraldPortsReserved; decide
  · unfold RightWF; decide

/-- `add([2], exR)` on `exL`: accepted; modes 3 and 4 are appended for the heralds on positions 2 and 0 -/
example : exObs (compose true true true exL exR (.ofList [2]) false) =
    .ok ⟨5, [(1, 0), (3, 1), (4, 0)], [none, some "pnr", none, some "threshold", some "pnr"],
      some [1, 2, 0], [true, false, true, false, false]⟩ := by decide

/-- `add([2, 0], component)` on `exL`: nothing changes in the bookkeeping -/
example : exObs (compose true true true exL exC2 (.ofList [2, 0]) false) =
    .ok ⟨3, [(1, 0)], [none, some "pnr", none], some [1, 2, 0], [true, false, true]⟩ := by decide

/-- hypotheses of `genPerm_never_raises` / `genPerm_ok_iff` on `{2: 1, 3: 2, 4: 0}`; an illegal mapping
(`{0: 0, 1: 2}`, right-hand mode out of range) ends in PERM's assertion -/
example : ([(2, 1), (3, 2), (4, 0)] : NMap) ≠ [] ∧ (NMap.keys [(2, 1), (3, 2), (4, 0)]).Nodup ∧
    (NMap.vals [(2, 1), (3, 2), (4, 0)]).Nodup ∧
    (∀ v ∈ NMap.vals [(2, 1), (3, 2), (4, 0)], v < 3) ∧
    genPerm [(2, 1), (3, 2), (4, 0)] = .ok (some [1, 2, 0]) ∧
    genPerm [(0, 0), (1, 2)] = .error .assertion := by decide

/-- the offset and list forms on the same objects -/
example : resolve true exL exR (.ofInt 2) = .ok [(2, 1)] ∧ intMap 2 exR = [(2, 1)] ∧
    resolve true exL exR (.ofInt 1) = .error .unavailable ∧
    resolve true exL exC2 (.ofList [2, 0]) = .ok [(2, 0), (0, 1)] ∧
    listMap [2, 0] exC2 = [(2, 0), (0, 1)] ∧
    resolve true exL exC2 (.ofList [2, 2]) = .error .invalid ∧
    resolve true exL exC2 (.ofList [2]) = .error .invalid ∧
    resolve true exL exC2 (.ofList [2, 1]) = .error .unavailable ∧
    0 < exR.m ∧ 0 < exC2.m := by decide

example : RightWF exC2 := by unfold RightWF; decide

/-- `compose_no_perm_assertion` is not vacuous: with a left post-selection on modes {0, 1}, plugging onto
mode 0 and 2 trips the `can_compose_with` assertion -/
example : exObs (compose true true true { exL with ps := some (.cond [0, 1] .eq 1) } exC2
    (.ofList [2, 0]) false) = .error .assertion := by decide

end PM.C10
