/-
  C19 — a job group on disk always matches the group in memory.
  Property theorems (model: `Model/C19.lean`, helpers and the invariant: `Lemmas/C19.lean`).

  `step fixed`   = `JobGroup`/`RemoteJob` with the five repairs `fixes/C19-job-context.diff`,
                   `fixes/C19-subdir.diff`, `fixes/C19-add-atomic.diff`, `fixes/C19-stale-status.diff`,
                   `fixes/C19-wait-status.diff` (the main model; every positive theorem is about it);
  `step current` = the code as pinned; `{ fixed with xFix := false }` = one repair missing.
                   Each part of the property the pinned code violates is a `Prop` of the variant, proved for
                   `fixed` and refuted by a concrete history for the variant lacking the repair
                   (regression witnesses; the same histories are the harness's witnesses on the real code).

  What "for all histories, server outcomes and stopping points" means here: a history is a list of
  `Op`; a `launch`/`progress`/`list` operation carries the server's answers for that operation
  (`accept` with an arbitrary fresh identifier or `refuse` per `create_job`/`rerun_job` call; per
  `get_job_status` call a status, a failed request whose error leaves the operation, or a failed request
  that is swallowed — `Ans`) as *arbitrary lists*.  A list that runs out is the process stopping at
  that server call (memory lost, group re-opened from the file), so every prefix of every loop —
  before/after each accepted job, each write, each status poll — is a stopping point covered by `∀ ops`.
  Stopping *between* operations is re-opening (`Op.reopen`) at any position of the list.

  Hypothesis `WFOp` on added jobs: a job object whose status is SUCCESS has an identifier (a status
  SUCCESS only ever comes from the server or from a stored entry, both of which need one).

  Not covered (stated residue): a crash *inside* one `PersistentData.write_file` call (torn file), and a
  crash (or Ctrl-C) between the server's answer to `create_job`/`rerun_job` and the file write that follows it.
  Sections 7 and 8 (added later) bring `get_results`, `track_progress`, Ctrl-C in status requests and sleeps,
  deletion and listing into the same statements.  Sections 9 and 10 treat those two stopping points in models of
  their own (torn writes; `crashAfterAnswer`, all launch modes).  Section 11: two `JobGroup` objects of one name —
  the re-open discipline under which they are one object (proved), the last-writer law of `add` (proved), and
  witnesses for what is lost without the discipline; for undisciplined histories nothing else is proved.
  Added after that (proofs only, the executable model unchanged): section 9b — a model of the text `json.dumps`
  writes and the proof that every dictionary's text is accepted and ends in a non-blank character, which removes the
  per-text hypothesis of the torn-write theorems; section 10b — the crash after the server's answer as a step of an
  extended machine, whose histories go on after it and keep the invariant (the identifier statement only `_partial`:
  see there); section 11 — more last-writer laws (every launch mode, `progress` / `list_*` / `track_progress`).  STILL NOT PROVED:
  that the real `json.dumps` writes what `JV.dumps` writes (a transcription, not a theorem about CPython); that the
  ghost list `retired` of an extended history holds nothing but rerun-replaced, deleted and crash-lost identifiers;
  a last-writer law for operations that raise or are cut, and for `get_results`, by a stale object.
  Wave 10 (section 10c, proofs only): `retired` is PROVED write-only (every operation and the crash step leave it alone
  or prepend to it) and the ledger `lost` is PROVED to be inside it; of the second item above what is left is the
  provenance bound (every entry of `retired` is rerun-replaced, deleted or crash-lost).
-/
import PercevalModel.Lemmas.C19
import PercevalModel.Lemmas.C19TW
import PercevalModel.Lemmas.C19Dumps
import PercevalModel.Model.C19Crash
import PercevalModel.Lemmas.C19CrashM
import PercevalModel.Lemmas.C19W10
import PercevalModel.Lemmas.C19Conc
import PercevalModel.Lemmas.C19ConcMore

namespace PM.C19
open PM.SM

/-! ## witnesses -/

/-- a plain unsent job -/
def plainJob : Job :=
  { id := none, st := .waiting, hd := 1, name := 1,
    req := some { jobName := none, payload := { rest := 1, maxSamples := none, maxShots := none, ctx := none } },
    ctx := none, cmdMax := none, dmap := none }

/-- a job carrying a `job_context` (`Sampler.probs` on a `sample_count`-only platform) -/
def ctxJob : Job := { plainJob with ctx := some { rm := some 1, md := none } }

/-- `max_samples` left unset although `max_shots` is given: `_create_payload_data()` raises `TypeError` -/
def forgotJob : Job :=
  { plainJob with cmdMax := some none,
                  req := some { jobName := none, payload := { rest := 1, maxSamples := none, maxShots := some (some 100), ctx := none } } }

def launchPar (outs : List Outcome) : Op := .launch false false false outs []

/-! ## 1. re-opening the group from disk yields the group in memory -/

/-- the group a fresh process loads has the same observable content as memory: same order, same
identifiers, same last known status of every sent job, same platform metadata, same request body of
every job that is not SUCCESS (`toDict` is exactly that projection) -/
abbrev Refines (v : Variant) (s : State) : Prop := (reload v s).map toDict = s.mem.map toDict

def DiskRefinesMemory (v : Variant) : Prop :=
  ∀ (dir : Bool) (ops : List Op), (∀ op ∈ ops, WFOp op) → Refines v (exec (step v) (create v dir) ops)

/-- **disk_refines_memory.**  After every history — every operation returning, raising or being cut at
any server call — re-opening yields memory's observable content; moreover the file *is* the image of
memory and every job in memory is prepared (serialising it again changes nothing). -/
theorem disk_refines_memory : DiskRefinesMemory fixed := by
  intro dir ops hw
  have h := exec_inv dir ops hw
  show (reload fixed _).map toDict = _
  rw [reload_eq h]
  exact reloadList_toDict h.good

theorem disk_is_image_of_memory (dir : Bool) (ops : List Op) (hw : ∀ op ∈ ops, WFOp op) :
    (exec (step fixed) (create fixed dir) ops).disk =
      some ((exec (step fixed) (create fixed dir) ops).mem.map toDict) :=
  (exec_inv dir ops hw).disk

/-- the same, said for the state after *each* operation of a history (every prefix) -/
theorem disk_refines_memory_after_every_operation (dir : Bool) (ops : List Op) (hw : ∀ op ∈ ops, WFOp op)
    (n : Nat) : Refines fixed (exec (step fixed) (create fixed dir) (ops.take n)) :=
  disk_refines_memory dir (ops.take n) (fun op h => hw op (List.mem_of_mem_take h))

/-- non-vacuity: a history with a refusal in the middle of a launch, a cut rerun and re-openings -/
example : (∀ op ∈ [Op.add plainJob none, .add ctxJob none, .add plainJob none,
                    launchPar [.accept 0, .refuse], .reopen,
                    .launch true false true [.accept 2] [.st .error],
                    .progress [.st .running, .fault .httpError], .list .active [.ignored, .st .success],
                    .launch false false true [.accept 0] [.ignored, .st .running, .fault .connectionError]], WFOp op) := by
  simp [WFOp, WFJob, plainJob, ctxJob, launchPar]

example : ((exec (step fixed) (create fixed false)
    [Op.add plainJob none, .add ctxJob none, .add plainJob none,
     launchPar [.accept 0, .refuse]]).mem.map (·.id)) = [some 0, none, none] := by decide

/-- pinned code, fresh data directory: nothing is ever written, the re-opened group is empty -/
theorem disk_refines_memory_fails_without_subdir : ¬ DiskRefinesMemory { fixed with dirFix := false } := by
  intro h
  have := h false [.add plainJob none] (by simp [WFOp, WFJob, plainJob])
  revert this
  decide

/-- pinned code: `add` appends before it serialises; a job that cannot be serialised stays in memory -/
theorem disk_refines_memory_fails_when_add_appends_first :
    ¬ DiskRefinesMemory { fixed with addFix := false } := by
  intro h
  have := h true [.add forgotJob none] (by simp [WFOp, WFJob, forgotJob, plainJob])
  revert this
  decide

/-- pinned code: the rerun loop refreshes a status (`job.is_failed`) without writing it -/
theorem disk_refines_memory_fails_with_unsaved_status :
    ¬ DiskRefinesMemory { fixed with statFix := false } := by
  intro h
  have := h true [.add plainJob none, launchPar [.accept 0], .launch true true false [] [.st .waiting, .st .success]]
    (by simp [WFOp, WFJob, plainJob, launchPar])
  revert this
  decide

/-- pinned code: the sequential wait keeps the statuses it sees in memory until the job is complete; a
status request that raises inside the wait (unrecoverable HTTP status, too many faults in a row) ends
`run_sequential` with RUNNING in memory and WAITING in the file -/
theorem disk_refines_memory_fails_when_wait_raises :
    ¬ DiskRefinesMemory { fixed with pollFix := false } := by
  intro h
  have := h true [.add plainJob none, .launch false false true [.accept 0] [.st .running, .fault .httpError]]
    (by simp [WFOp, WFJob, plainJob])
  revert this
  decide

/-- the same history on the repaired code: the launch raises, the file holds RUNNING like memory; and a
status refresh that raises after an earlier job changed status leaves that change in the file
(`_update_job_statuses` writes job by job) -/
example :
    let r := run (step fixed) (create fixed true)
      [Op.add plainJob none, .add plainJob none,
       .launch false false true [.accept 0] [.st .running, .fault .httpError],
       launchPar [.accept 0],
       .progress [.st .suspended, .fault .httpError]]
    r.2.map (·.res) = [.ok, .ok, .raised .httpError, .ok, .raised .httpError] ∧
    r.1.mem.map (·.st) = [.suspended, .waiting] ∧
    (r.1.disk.getD []).map (·.status) = [some .suspended, some .waiting] := by decide

theorem disk_refines_memory_fails_on_current_code : ¬ DiskRefinesMemory current := by
  intro h
  have := h false [.add plainJob none] (by simp [WFOp, WFJob, plainJob])
  revert this
  decide

/-! ## 2. identifiers already accepted survive a launch that stops part-way -/

/-- every identifier the server issued to this group's launches is in the file, unless the failed job
it belonged to was replaced by its rerun -/
def AcceptedIdsSurvive (v : Variant) : Prop :=
  ∀ (dir : Bool) (ops : List Op), (∀ op ∈ ops, WFOp op) →
    ∀ k ∈ (exec (step v) (create v dir) ops).issued,
      k ∉ (exec (step v) (create v dir) ops).retired → k ∈ diskIds (exec (step v) (create v dir) ops)

/-- **accepted_ids_survive_refusal.**  Whatever stops a launch — a refusal at any loop position, an
exception, the process dying at any server call — and whatever happens afterwards. -/
theorem accepted_ids_survive_refusal : AcceptedIdsSurvive fixed := by
  intro dir ops hw k hk hr
  have h := exec_inv dir ops hw
  rw [diskIds_eq h]
  rcases h.surv k hk with h1 | h1
  · exact absurd h1 hr
  · exact h1

/-- non-vacuity: two jobs accepted, the third refused: the launch raises, both identifiers are in the file -/
example :
    let s := exec (step fixed) (create fixed true)
      [Op.add plainJob none, .add plainJob none, .add plainJob none, launchPar [.accept 0, .accept 3, .refuse]]
    s.issued = [4, 0] ∧ diskIds s = [0, 4] ∧
    (run (step fixed) (create fixed true)
      [Op.add plainJob none, .add plainJob none, .add plainJob none, launchPar [.accept 0, .accept 3, .refuse]]).2.map (·.res)
      = [.ok, .ok, .ok, .raised .httpError] := by decide

/-- pinned code: after `add` left an unserialisable job in memory, the next launch is accepted by the
server and its identifier never reaches the file -/
theorem accepted_ids_lost_when_add_appends_first : ¬ AcceptedIdsSurvive { fixed with addFix := false } := by
  intro h
  have := h true [.add plainJob none, .add forgotJob none, launchPar [.accept 0, .accept 0]]
    (by simp [WFOp, WFJob, forgotJob, plainJob, launchPar])
  revert this
  decide

/-! ## 3. the request sent does not depend on re-opening -/

/-- every `create_job` request that left equals the body the file held for that entry at that
moment — which is what a group re-opened at any earlier point is built from -/
def RequestStable (v : Variant) : Prop :=
  ∀ (dir : Bool) (ops : List Op), (∀ op ∈ ops, WFOp op) →
    ∀ r ∈ (exec (step v) (create v dir) ops).sent, r.req = r.stored ∧ r.req.isSome = true

/-- **request_stable_under_reopen.** -/
theorem request_stable_under_reopen : RequestStable fixed :=
  fun dir ops hw => (exec_inv dir ops hw).sent

/-- and job by job: in every reachable state, the in-memory job and its re-opened copy are both
prepared and hold the same request, so `_create_payload_data()` returns the same request for both -/
theorem reopened_job_sends_same_request (dir : Bool) (ops : List Op) (hw : ∀ op ∈ ops, WFOp op)
    (i : Nat) (j : Job) (hj : (exec (step fixed) (create fixed dir) ops).mem[i]? = some j)
    (hs : j.st ≠ .success) :
    ∃ j', (reload fixed (exec (step fixed) (create fixed dir) ops))[i]? = some j' ∧
      norm j = .ok j ∧ norm j' = .ok j' ∧ j'.req = j.req ∧ j'.id = j.id ∧ j.js = true ∧ j'.js = true := by
  have h := exec_inv dir ops hw
  have hg := h.good j (List.mem_of_getElem? hj)
  obtain ⟨h1, h2, h3⟩ := fromDict_req hs
  refine ⟨fromDict fixed (toDict j), ?_, (hg.2 hs).1, ((good_fromDict hg).2 h3).1, h1, h2, (hg.2 hs).2,
    ((good_fromDict hg).2 h3).2⟩
  rw [reload_eq h, reloadList_getElem?, hj]
  rfl

/-! ### 3b. the stored body *is* the request: bodies are made of JSON values

The `rest` token of a request stands for the request as it leaves for the server (`execute_async` sends
`serialize(body)`, encoded as JSON).  `r.req = r.stored` above is an equality of such tokens; it describes the code
only if writing a body to the file and reading it back does not change that form — true for bodies made of JSON
values, false for a body holding e.g. a `BasicState` or a `NoiseModel` (what a `Sampler` with iterations puts in
`payload['iterator']`): `serialize` gives those a tagged text, any JSON rendering of the object itself another.
`Job.js` says whether the body is made of JSON values; the two statements below are why the token equality is
sound: no job whose body would have to be written ever has `js = false`, because `add` refuses such a job
(`json.dumps` raises `TypeError` before the file is touched, `add` takes the job back). -/

/-- **stored_bodies_are_json.**  In every reachable state every job whose body the file holds (every job that is
not SUCCESS) has a body made of JSON values. -/
theorem stored_bodies_are_json (dir : Bool) (ops : List Op) (hw : ∀ op ∈ ops, WFOp op) (j : Job)
    (hj : j ∈ (exec (step fixed) (create fixed dir) ops).mem) (hs : j.st ≠ .success) : j.js = true :=
  (((exec_inv dir ops hw).good j hj).2 hs).2

/-- **non_json_body_refused.**  In every reachable state, `add` of a job that is not SUCCESS and whose body holds
a value that is not JSON raises, and memory, the file and the server's counter are what they were. -/
theorem non_json_body_refused (dir : Bool) (ops : List Op) (hw : ∀ op ∈ ops, WFOp op) (j : Job) (kw : Option Nat)
    (hjs : j.js = false) (hs : j.st ≠ .success) :
    ∃ e, (step fixed (exec (step fixed) (create fixed dir) ops) (.add j kw)).2.res = .raised e ∧
      (step fixed (exec (step fixed) (create fixed dir) ops) (.add j kw)).1.mem =
        (exec (step fixed) (create fixed dir) ops).mem ∧
      (step fixed (exec (step fixed) (create fixed dir) ops) (.add j kw)).1.disk =
        (exec (step fixed) (create fixed dir) ops).disk ∧
      (step fixed (exec (step fixed) (create fixed dir) ops) (.add j kw)).1.next =
        (exec (step fixed) (create fixed dir) ops).next := by
  have h := inv_script3 (exec_inv dir ops hw) [] [] []
  obtain ⟨e, he⟩ := addOp_not_json h kw hjs hs
  refine ⟨e, ?_, ?_, ?_, ?_⟩ <;> simp only [step, clearScript, he]

/-- a job as a `Sampler` with iterations builds it: the body holds `BasicState` objects -/
def iterJob : Job :=
  { plainJob with js := false,
                  req := some { jobName := none, payload := { rest := 2, maxSamples := none, maxShots := none, ctx := none } } }

/-- non-vacuity: such a job is refused with `TypeError` between two plain jobs, the group is re-opened and launched:
two jobs, two requests, each equal to the stored body; the same job already SUCCESS (sent outside the group) is
accepted — its body is not written -/
example :
    let r := run (step fixed) (create fixed true)
      [Op.add plainJob none, .add iterJob none, .add iterJob (some 5), .add plainJob none, .reopen,
       launchPar [.accept 0, .accept 0], .add { iterJob with id := some 9, st := .success } none]
    r.2.map (·.res) = [.ok, .raised .typeError, .raised .runtimeError, .ok, .ok, .ok, .ok] ∧
    r.1.mem.map (·.id) = [some 0, some 1, some 9] ∧
    (r.1.disk.getD []).map (fun e => e.body.isSome) = [true, true, false] ∧
    r.1.sent.map (fun x => decide (x.req = x.stored)) = [true, true] := by decide

/-- non-vacuity: a job with a context, re-opened, then launched: one request left, with the context -/
example :
    (exec (step fixed) (create fixed true) [Op.add ctxJob none, .reopen, launchPar [.accept 0]]).sent.map
        (fun r => r.req.map (·.payload.ctx)) = [some (some (some { rm := some 1, md := none }))] := by decide

/-- pinned code (section 10, item 8): after re-opening, `_create_payload_data` overwrites
`payload['job_context']` with `None` -/
theorem request_stable_fails_without_context_restore : ¬ RequestStable { fixed with ctxFix := false } := by
  intro h
  have := h true [.add ctxJob none, .reopen, launchPar [.accept 0]]
    (by simp [WFOp, WFJob, ctxJob, plainJob, launchPar])
  revert this
  decide

theorem request_stable_fails_on_current_code : ¬ RequestStable current := by
  intro h
  have := h true [.add ctxJob none, .reopen, launchPar [.accept 0]]
    (by simp [WFOp, WFJob, ctxJob, plainJob, launchPar])
  revert this
  decide

/-- the witness spelled out: stored body has the context, the request that left has `null` -/
theorem current_code_drops_job_context :
    (exec (step current) (create current true) [.add ctxJob none, .reopen, launchPar [.accept 0]]).sent.map
        (fun r => (r.req.map (·.payload.ctx), r.stored.map (·.payload.ctx))) =
      [(some (some none), some (some (some { rm := some 1, md := none })))] := by decide

/-! ## 4. the progress summary partitions the jobs -/

/-- **progress_partition.**  For every state (hence every state any history reaches, in every variant of
the code) and every server answer: a `progress()` that returns gives the four counters of a partition
of the group — successful + unsuccessful + sent + not sent = total = number of jobs. -/
theorem progress_partition (v : Variant) (s : State) (sts : List Ans)
    (hok : (step v s (.progress sts)).2.res = .ok) :
    ∃ a b c d, (step v s (.progress sts)).2.view = [a, b, c, d, (step v s (.progress sts)).1.mem.length] ∧
      a + b + c + d = (step v s (.progress sts)).1.mem.length := by
  simp only [step] at hok ⊢
  generalize refreshAll v { s with outs := [], sts := sts } = r at hok ⊢
  obtain ⟨s', res⟩ := r
  simp only at hok
  subst hok
  exact ⟨_, _, _, _, rfl, classes_partition s'.mem⟩

/-- every job falls in exactly one class -/
theorem progress_classes_partition (l : List Job) :
    countClass l 0 + countClass l 1 + countClass l 2 + countClass l 3 = l.length := classes_partition l

example : (step fixed (exec (step fixed) (create fixed true)
      [Op.add plainJob none, .add plainJob none, .add plainJob none, launchPar [.accept 0, .accept 0]])
      (.progress [.ignored, .st .suspended])).2 = ⟨.ok, [0, 1, 1, 1, 3]⟩ := by decide

/-! ## 5. no identifier twice -/

/-- **no_duplicate_ids** (the operation): adding a job whose identifier is already in the group is
refused with `ValueError` and changes neither memory nor the file — every state, every variant. -/
theorem duplicate_add_rejected (v : Variant) (s : State) (j : Job) (kw : Option Nat) (k : Nat)
    (hk : j.id = some k) (hm : k ∈ ids s.mem) :
    (step v s (.add j kw)).2.res = .raised .valueError ∧ (step v s (.add j kw)).1.mem = s.mem ∧
      (step v s (.add j kw)).1.disk = s.disk := by
  have hd : dupCheck (clearScript s) j = true := dupCheck_true hk hm
  simp only [step, addOp_eq, hd, if_true]
  exact ⟨trivial, rfl, rfl⟩

def NoDuplicateIds (v : Variant) : Prop :=
  ∀ (dir : Bool) (ops : List Op), (∀ op ∈ ops, WFOp op) →
    (ids (exec (step v) (create v dir) ops).mem).Nodup ∧ (diskIds (exec (step v) (create v dir) ops)).Nodup

/-- **no_duplicate_ids** (the invariant): along every history no identifier occurs twice, neither in
memory nor in the file (the server never issues an identifier twice — `Outcome.accept`). -/
theorem no_duplicate_ids : NoDuplicateIds fixed := by
  intro dir ops hw
  have h := exec_inv dir ops hw
  exact ⟨h.nodup, by rw [diskIds_eq h]; exact h.nodup⟩

/-- non-vacuity: a job sent outside the group is added, then added again -/
example :
    (run (step fixed) (create fixed true)
      [Op.add { plainJob with id := some 7 } none, .add { plainJob with id := some 7, name := 2 } none]).2.map (·.res)
      = [.ok, .raised .valueError] := by decide

/-! ## 7. more operations and stopping points: `get_results`, `track_progress`, Ctrl-C, deletion

`Op` also has `getResults` (`JobGroup.get_results()`: a refresh, then `job.get_results()` for every job whose status
is `maybe_completed`; that call evaluates `job.status` again — UNKNOWN is not final — and asks the server for the
results, one scripted `Rsp` per request), `track` (`track_progress()`: refresh rounds until nothing is waiting or
running), the answer `Ans.intr` (Ctrl-C: `KeyboardInterrupt` in a status request or in the `time.sleep` after it —
wait loop, delay between two sequential launches, `track_progress`), `wipe` / `deleteDate` (the group's file is
deleted by name, with all groups, or by date, and the name opened again) and `other` (namespace operations on other
names).  `disk_refines_memory`, `accepted_ids_survive_refusal`, `request_stable_under_reopen`, `no_duplicate_ids`
above are statements about ALL lists of `Op`, hence about all histories that contain these operations and stopping
points; the statements below are what is specific to them. -/

/-- non-vacuity: a history with a Ctrl-C in the sequential wait, one in the delay after a completed job, one in
`track_progress`, results fetched (mapped, unavailable, failing) around an UNKNOWN status, a date-based deletion
that spares the group and one that removes it -/
example :
    let ops := [Op.add ctxJob none, .add plainJob none, .add plainJob none,
                .launch false false true [.accept 0, .accept 0] [.st .running, .intr],
                .track [.st .running, .st .running, .intr],
                .launch false false true [.accept 0, .accept 0] [.st .unknown, .st .canceled, .intr],
                .getResults [.st .unknown, .st .unknown] [.ok true, .unavailable],
                .getResults [.st .unknown, .st .success] [.ok true, .fault .httpError],
                .deleteDate 0 7, .other,
                .launch false false false [.accept 0] [],
                .deleteDate 5 9, .add plainJob none]
    (run (step fixed) (create fixed true) ops).2.map (·.res) =
      [.ok, .ok, .ok, .raised .keyboardInterrupt, .raised .keyboardInterrupt, .raised .keyboardInterrupt, .ok, .ok,
       .ok, .ok, .ok, .ok, .ok] ∧
    (exec (step fixed) (create fixed true) (ops.take 7)).mem.map (·.st) = [.unknown, .canceled, .waiting] ∧
    (exec (step fixed) (create fixed true) (ops.take 8)).mem.map (·.st) = [.success, .canceled, .waiting] ∧
    (exec (step fixed) (create fixed true) ops).mem.map (·.id) = [none] ∧
    (exec (step fixed) (create fixed true) ops).created = 9 := by decide

/-- **Ctrl-C is a stopping point like any other.**  Spelled out for the wait loop: the status seen before the
interrupt is in the file (`try … finally`), and the object goes on being usable. -/
example :
    let s := exec (step fixed) (create fixed true)
      [Op.add plainJob none, .launch false false true [.accept 0] [.st .running, .intr]]
    s.mem.map (·.st) = [.running] ∧ (s.disk.getD []).map (·.status) = [some .running] := by decide

/-- pinned wait loop (no `finally`): a Ctrl-C leaves RUNNING in memory and WAITING in the file -/
theorem disk_refines_memory_fails_when_wait_interrupted :
    ¬ DiskRefinesMemory { fixed with pollFix := false } := by
  intro h
  have := h true [.add plainJob none, .launch false false true [.accept 0] [.st .running, .intr]]
    (by simp [WFOp, WFJob, plainJob])
  revert this
  decide

/-- `JobGroup.get_results` as it was: `job.get_results()` refreshes an UNKNOWN status and nobody writes it -/
theorem disk_refines_memory_fails_when_results_refresh_status :
    ¬ DiskRefinesMemory { fixed with gstFix := false } := by
  intro h
  have := h true [.add plainJob none, launchPar [.accept 0], .getResults [.st .unknown, .st .success] [.ok false]]
    (by simp [WFOp, WFJob, plainJob, launchPar])
  revert this
  decide

/-- the same history on the repaired code: SUCCESS in memory and in the file -/
example :
    let s := exec (step fixed) (create fixed true)
      [Op.add plainJob none, launchPar [.accept 0], .getResults [.st .unknown, .st .success] [.ok false]]
    s.mem.map (·.st) = [.success] ∧ (s.disk.getD []).map (·.status) = [some .success] := by decide

/-- `RemoteJob._get_results` as it was: results that carry a `result_mapping` make it replace the job's
`_delta_parameters`; from then on the job cannot be serialised (`KeyError`), so the next launch of the group gets an
identifier from the server that never reaches the file -/
theorem accepted_ids_lost_when_results_replace_delta_parameters :
    ¬ AcceptedIdsSurvive { fixed with resFix := false } := by
  intro h
  have := h true [.add ctxJob none, launchPar [.accept 0], .add plainJob none,
                  .getResults [.st .canceled] [.ok true], launchPar [.accept 0]]
    (by simp [WFOp, WFJob, ctxJob, plainJob, launchPar])
  revert this
  decide

/-- … spelled out: the launch raises `KeyError`, identifier 1 was issued, the file only has identifier 0 -/
theorem current_results_lose_an_accepted_id :
    let v : Variant := { fixed with resFix := false }
    let ops := [Op.add ctxJob none, launchPar [.accept 0], .add plainJob none,
                .getResults [.st .canceled] [.ok true], launchPar [.accept 0]]
    (run (step v) (create v true) ops).2.map (·.res) = [.ok, .ok, .ok, .ok, .raised .keyError] ∧
    (exec (step v) (create v true) ops).issued = [1, 0] ∧ diskIds (exec (step v) (create v true) ops) = [0] := by
  decide

/-- **status_views_change_only_statuses** — what `progress()`, `list_*_jobs()`, `get_results()` and
`track_progress()` may change, whatever the server answers, wherever they are interrupted or the process stops: in
memory and in the file the jobs stay the same jobs in the same order (identifiers, platform metadata), no identifier
is issued, no request leaves, the creation date stays; only statuses (and what hangs on them: the body dropped on
SUCCESS, the results cache) can differ.  Together with `disk_refines_memory` (the file is the image of memory
afterwards) this bounds what these operations write. -/
theorem status_views_change_only_statuses (s : State) (hs : Inv s) (op : Op)
    (hop : (∃ sts, op = .progress sts) ∨ (∃ k sts, op = .list k sts) ∨
           (∃ sts rsps, op = .getResults sts rsps) ∨ (∃ sts, op = .track sts)) :
    let s' := (step fixed s op).1
    s'.mem.map (fun j => (j.id, j.hd)) = s.mem.map (fun j => (j.id, j.hd)) ∧
    (s'.disk.getD []).map (fun e => (e.id, e.hd)) = (s.disk.getD []).map (fun e => (e.id, e.hd)) ∧
    s'.issued = s.issued ∧ s'.sent = s.sent ∧ s'.next = s.next ∧ s'.created = s.created := by
  have hclear : ∀ t : State, Frame t (clearScript t) := fun _ => ⟨rfl, rfl, rfl, rfl, rfl, rfl⟩
  have hf : Frame s (step fixed s op).1 := by
    rcases hop with ⟨sts, rfl⟩ | ⟨k, sts, rfl⟩ | ⟨sts, rsps, rfl⟩ | ⟨sts, rfl⟩
    · have a : Frame s { s with outs := [], sts := sts } := ⟨rfl, rfl, rfl, rfl, rfl, rfl⟩
      exact a.trans ((refreshAll_frame (inv_script hs [] sts)).trans (hclear _))
    · simp only [step]
      split
      · exact (hclear s).trans (hclear _)
      · have a : Frame s { s with outs := [], sts := sts } := ⟨rfl, rfl, rfl, rfl, rfl, rfl⟩
        exact a.trans ((refreshAll_frame (inv_script hs [] sts)).trans (hclear _))
    · have a : Frame s { s with outs := [], sts := sts, rsps := rsps } := ⟨rfl, rfl, rfl, rfl, rfl, rfl⟩
      exact a.trans ((getResultsOp_frame (inv_script3 hs [] sts rsps)).trans (hclear _))
    · have a : Frame s { s with outs := [], sts := sts, rsps := [] } := ⟨rfl, rfl, rfl, rfl, rfl, rfl⟩
      exact a.trans ((trackOp_frame (inv_script3 hs [] sts [])).trans (hclear _))
  have hi : Inv (step fixed s op).1 := step_inv hs (by
    rcases hop with ⟨sts, rfl⟩ | ⟨k, sts, rfl⟩ | ⟨sts, rsps, rfl⟩ | ⟨sts, rfl⟩ <;> trivial)
  have hd : ∀ t : State, Inv t → (t.disk.getD []).map (fun e => (e.id, e.hd)) = shape t.mem := by
    intro t ht
    simp [ht.disk, shape, List.map_map, Function.comp_def, toDict]
  exact ⟨hf.shape, by rw [hd _ hi, hd _ hs]; exact hf.shape, hf.issued, hf.sent, hf.next, hf.created⟩

/-- non-vacuity and sharpness: a `get_results` that refreshes two statuses (one of them inside `job.get_results()`)
and is then cut by a failing results request: statuses and file change, identifiers and metadata do not -/
example :
    let s := exec (step fixed) (create fixed true)
      [Op.add plainJob none, .add ctxJob none, launchPar [.accept 0, .accept 2]]
    let s' := (step fixed s (.getResults [.st .unknown, .st .canceled, .st .success] [.ok false, .fault .httpError])).1
    s.mem.map (·.st) = [.waiting, .waiting] ∧ s'.mem.map (·.st) = [.success, .canceled] ∧
    (s'.disk.getD []).map (·.status) = [some .success, some .canceled] ∧
    s'.mem.map (fun j => (j.id, j.hd)) = [(some 0, 1), (some 3, 1)] := by decide

/-- **deletion yields a fresh empty group** — every state, whatever the group held: after the group's file was
deleted (by name or with all groups) the name opens as an empty group created now, and the file is that group. -/
theorem delete_yields_fresh_group (s : State) (now : Nat) :
    (step fixed s (.wipe now)).2.res = .ok ∧ (step fixed s (.wipe now)).1.mem = [] ∧
    (step fixed s (.wipe now)).1.disk = some [] ∧ (step fixed s (.wipe now)).1.created = now ∧
    reload fixed (step fixed s (.wipe now)).1 = [] := by
  have e : step fixed s (.wipe now) =
      (clearScript (wipeOp fixed (clearScript s) now).1, ⟨(wipeOp fixed (clearScript s) now).2, []⟩) := rfl
  rw [e, wipeOp_eq]
  refine ⟨rfl, rfl, rfl, rfl, ?_⟩
  simp [reload, construct, clearScript, fixed]

/-- **date-based deletion**: a group created strictly before the cut-off becomes a fresh empty group; any other group
is re-opened exactly as it was (same file, same creation date, memory = the file's image) -/
theorem delete_by_date (s : State) (hs : Inv s) (cutoff now : Nat) :
    let s' := (step fixed s (.deleteDate cutoff now)).1
    (s.created < cutoff → s'.mem = [] ∧ s'.disk = some [] ∧ s'.created = now) ∧
    (¬ s.created < cutoff → s'.disk = s.disk ∧ s'.created = s.created ∧ s'.mem.map toDict = s.mem.map toDict) := by
  constructor
  · intro h
    have e : step fixed s (.deleteDate cutoff now) =
        (clearScript (wipeOp fixed (clearScript s) now).1, ⟨(wipeOp fixed (clearScript s) now).2, []⟩) := by
      simp [step, deleteDateOp, clearScript, h]
    rw [e, wipeOp_eq]
    exact ⟨rfl, rfl, rfl⟩
  · intro h
    have hi : Inv ({ clearScript s with clock := now } : State) :=
      hs.of_same rfl rfl rfl rfl rfl rfl hs.good rfl
    simp only [step, deleteDateOp]
    rw [if_neg (by simpa [clearScript] using h), construct_eq hi]
    exact ⟨rfl, rfl, reloadList_toDict hs.good⟩

/-- non-vacuity of `Inv` in `delete_by_date`: every reachable state -/
example (dir : Bool) (ops : List Op) (hw : ∀ op ∈ ops, WFOp op) : Inv (exec (step fixed) (create fixed dir) ops) :=
  exec_inv dir ops hw

/-- namespace operations that concern other names leave the group alone (the model's side of "other groups are
untouched"; that the code's deletions, listings and openings of *other* names really are such operations is the
subject of `NS` below and of the correspondence) -/
theorem other_names_leave_group (v : Variant) (s : State) :
    (step v s .other).1.mem = s.mem ∧ (step v s .other).1.disk = s.disk ∧ (step v s .other).1.created = s.created :=
  ⟨rfl, rfl, rfl⟩

/-! ## 6. the group is found again *by name*: the file primitives form a store keyed by the file name

The theorems above speak about "the file" of the group.  `JobGroup` finds that file through the group's
name: `has_file` decides between re-opening and creating, `read_file` loads, `write_file` saves,
`delete_file` removes, and the path is derived from the name at two sites (`get_full_path` and
`has_file`'s own join).  `FS.step k` is that machine for a choice `k` of the two derivations. -/
namespace FS

/-- **named_store.**  Whenever the two sites agree and distinct names get distinct paths (`Coherent`),
every history of primitive calls and `JobGroup(name)` openings over any number of names observes exactly
what a store keyed by the *name itself* shows (`step real`): what was last written under a name is what
is found and read under that name, and nothing else is. -/
theorem named_store {k : Paths} (hk : Coherent k) (ops : List Op) :
    (run (step k) empty ops).2 = (run (step real) empty ops).2 :=
  (refine_run (step k) (step real) (Sim k) (fun s a op h => sim_step hk s a op h) empty empty
    (sim_empty k) ops).2

/-- the code as it is satisfies the hypothesis -/
theorem real_paths_coherent : Coherent real := real_coherent

/-- non-vacuity: so does any common injective derivation, e.g. a directory prefix -/
example : Coherent ⟨fun n => n + 100, fun n => n + 100⟩ := ⟨fun _ => rfl, fun a b h => by simpa using h⟩

/-- **reopen_by_name_finds_saved_group.**  In every directory state, after a group was saved under a name,
`JobGroup(name)` loads exactly that content and leaves the directory unchanged. -/
theorem reopen_by_name_finds_saved_group {k : Paths} (hk : Coherent k) (s : Store) (n c : Nat) :
    step k (writeFile k s n c) (.openGroup n) = (writeFile k s n c, .content (some c)) := by
  have h1 : hasFile k (writeFile k s n c) n = true := by simp [hasFile, writeFile, hk.1 n]
  have h2 : readFile k (writeFile k s n c) n = some c := by simp [readFile, writeFile]
  simp [step, h1, h2]

/-- **other_groups_untouched.**  Saving, deleting or opening a group (even one that does not exist yet, which
creates its file) never changes what is stored and found under a *different* name. -/
theorem other_groups_untouched {k : Paths} (hk : Coherent k) (s : Store) (op : Op) (n n' : Nat)
    (hop : (∃ c, op = .write n c) ∨ op = .delete n ∨ op = .openGroup n) (hne : n' ≠ n) :
    readFile k (step k s op).1 n' = readFile k s n' ∧ hasFile k (step k s op).1 n' = hasFile k s n' := by
  have hp : k.full n' ≠ k.full n := fun he => hne (hk.2 _ _ he)
  have hw : ∀ c, readFile k (writeFile k s n c) n' = readFile k s n' ∧
      hasFile k (writeFile k s n c) n' = hasFile k s n' := by
    intro c; simp [readFile, hasFile, writeFile, hk.1 n', hp]
  rcases hop with ⟨c, rfl⟩ | rfl | rfl
  · exact hw c
  · simp [step, readFile, hasFile, deleteFile, hk.1 n', hp]
  · simp only [step]
    split
    · exact ⟨rfl, rfl⟩
    · exact hw 0

/-- non-vacuity: two groups with different names in one directory, one deleted, both re-opened -/
example : (run (step real) empty [.write 4 7, .write 5 9, .openGroup 4, .delete 5, .has 5, .openGroup 5, .read 4]).2 =
    [.done, .done, .content (some 7), .done, .found false, .content (some 0), .content (some 7)] := by decide

/-- regression witness for the two-site shape: if `get_full_path` alone maps names to "portable" ones
while `has_file` keeps its own join, the hypothesis fails … -/
theorem portable_not_coherent : ¬ Coherent portable := by
  intro h
  have := h.1 1
  revert this
  decide

/-- … and so does the property: a group saved under name `1` is not found when re-opened by that
name; `JobGroup(1)` starts an empty group and overwrites the saved one. -/
theorem reopen_by_name_fails_when_sites_disagree :
    (run (step portable) empty [.write 1 7, .openGroup 1, .read 1]).2 =
      [.done, .content (some 0), .content (some 0)] ∧
    (run (step real) empty [.write 1 7, .openGroup 1, .read 1]).2 =
      [.done, .content (some 7), .content (some 7)] := by decide

end FS

/-! ## 8. listing and deleting the group files of a directory

`NS.step k` is the machine of `JobGroup(name)` openings, saves, `list_existing`, `delete_job_group`,
`delete_all_job_groups` and `delete_job_groups_date` over any number of names, for a choice `k` of the three sites
that relate names and directory entries.  `Coherent k`: they agree (validated against the real code by the
correspondence; `real` satisfies it). -/
namespace NS

theorem real_paths_coherent : Coherent real := real_coherent

/-- non-vacuity: a common injective path derivation with its inverse -/
example : Coherent ⟨fun n => n + 100, fun n => n + 100, fun p => if p < 100 then none else some (p - 100)⟩ :=
  ⟨fun _ => rfl, fun a b h => by simpa using h, fun n => by simp⟩

/-- **list_existing_exact.**  After every history, `list_existing()` returns exactly the names under which a group
is found. -/
theorem list_existing_exact {k : Paths} (hk : Coherent k) (ops : List Op) (n : Nat) :
    n ∈ listExisting k (exec (step k) [] ops) ↔ hasFile k (exec (step k) [] ops) n = true :=
  mem_listExisting hk (named_exec k ops) n

/-- **delete_then_reopen_fresh.**  In every directory: after `delete_job_group(name)`, `JobGroup(name)` is a fresh
empty group created now. -/
theorem delete_then_reopen_fresh {k : Paths} (hk : Coherent k) (d : Dir) (n now : Nat) :
    (step k (step k d (.delete n)).1 (.open n now)).2 = .content (some ⟨now, 0⟩) := by
  have h : hasFile k (deleteFile k d n) n = false := by
    simp [hasFile, deleteFile, hk.1 n, lookup_remove_self]
  simp [step, openGroup, h]

/-- **delete_leaves_other_groups.**  Deleting a group changes neither what is found nor what is read under any
other name. -/
theorem delete_leaves_other_groups {k : Paths} (hk : Coherent k) (d : Dir) (n n' : Nat) (hne : n' ≠ n) :
    readFile k (step k d (.delete n)).1 n' = readFile k d n' ∧ hasFile k (step k d (.delete n)).1 n' = hasFile k d n' := by
  have hp : k.full n' ≠ k.full n := fun he => hne (hk.2.1 _ _ he)
  simp [step, readFile, hasFile, deleteFile, hk.1 n', lookup_remove_ne _ _ _ hp]

/-- **delete_all_leaves_nothing.**  After every history, `delete_all_job_groups()` empties the directory: no name
has a group any more, `list_existing()` is empty, and any name opens as a fresh empty group. -/
theorem delete_all_leaves_nothing {k : Paths} (hk : Coherent k) (ops : List Op) :
    (step k (exec (step k) [] ops) .deleteAll).1 = [] :=
  eq_nil_of_lookup_none (fun p => deleteAll_lookup hk (named_exec k ops) p)

theorem delete_all_then_reopen_fresh {k : Paths} (hk : Coherent k) (ops : List Op) (n now : Nat) :
    (step k (step k (exec (step k) [] ops) .deleteAll).1 (.open n now)).2 = .content (some ⟨now, 0⟩) ∧
    (step k (step k (exec (step k) [] ops) .deleteAll).1 .list).2 = .names [] := by
  rw [delete_all_leaves_nothing hk ops]
  exact ⟨by simp [step, openGroup, hasFile, lookup], rfl⟩

/-- **delete_by_date_exact.**  After every history, `delete_job_groups_date(cutoff)` returns normally; a group whose
`created_date` is strictly before the cut-off is gone; every other group file is exactly what it was; no group file
appears (the `JobGroup(name)` the code uses to read the date never creates one). -/
theorem delete_by_date_exact {k : Paths} (hk : Coherent k) (ops : List Op) (cutoff now : Nat) :
    let d := exec (step k) [] ops
    (step k d (.deleteDate cutoff now)).2 = .done ∧
    ∀ n, readFile k (step k d (.deleteDate cutoff now)).1 n =
      (match readFile k d n with
       | some c => if c.created < cutoff then none else some c
       | none => none) := by
  have h := deleteDate_spec hk (named_exec k ops) cutoff now
  refine ⟨?_, h.2⟩
  simp [step, h.1]

/-- non-vacuity: three groups, listing, a date-based deletion that removes the oldest, deletion by name, deletion
of all -/
example :
    (run (step real) [] [.open 4 10, .save 4 2 11, .open 6 20, .save 9 1 30, .list, .deleteDate 20 40, .list,
                         .open 4 50, .delete 6, .has 6, .has 9, .deleteAll, .list, .open 9 60]).2 =
      [.content (some ⟨10, 0⟩), .content (some ⟨10, 2⟩), .content (some ⟨20, 0⟩), .content (some ⟨30, 1⟩),
       .names [4, 6, 9], .done, .names [6, 9], .content (some ⟨50, 0⟩), .done, .found false, .found true,
       .done, .names [], .content (some ⟨60, 0⟩)] := by decide

/-- `list_existing` as it was does not satisfy the hypothesis: the empty name's file `.jgrp` is listed as the name
`.jgrp` … -/
theorem dotted_not_coherent : ¬ Coherent dotted := by
  intro h
  have := h.2.2 1
  revert this
  decide

/-- … and the properties fail: `delete_all_job_groups()` leaves that group in place (it tries to delete
`.jgrp.jgrp`), and `delete_job_groups_date` *creates* a group file `.jgrp.jgrp` when it opens the listed name -/
theorem delete_all_fails_for_dotted_names :
    (run (step dotted) [] [.save 1 3 5, .deleteAll, .open 1 9]).2 =
      [.content (some ⟨5, 3⟩), .done, .content (some ⟨5, 3⟩)] ∧
    (run (step real) [] [.save 1 3 5, .deleteAll, .open 1 9]).2 =
      [.content (some ⟨5, 3⟩), .done, .content (some ⟨9, 0⟩)] ∧
    (run (step dotted) [] [.save 1 3 5, .deleteDate 2 7, .has 2, .has 1]).2 =
      [.content (some ⟨5, 3⟩), .done, .found true, .found true] := by decide

end NS

/-! ## 10. a crash between the server's answer and the write that follows it

`execute_async` / `rerun` return with the identifier the server issued, then `_launch_jobs` calls
`_write_to_file`.  A process that dies in between leaves the file as it was when the request left — which is the
file of the process that dies *at* that server call, a stopping point the machine has — while the server has
issued one more identifier.  That identifier is necessarily lost (no code has run that could save it); the
statement is that it is the *only* one. -/

/-- **crash_after_answer_loses_only_that_id.**  For every history and every answer: the file is untouched, the
identifier in flight is not in it, and every other identifier ever issued is (unless retired by a rerun). -/
theorem crash_after_answer_loses_only_that_id (dir : Bool) (ops : List Op) (hw : ∀ op ∈ ops, WFOp op) (g : Nat) :
    let s := exec (step fixed) (create fixed dir) ops
    (crashAfterAnswer s g).disk = s.disk ∧
    (crashAfterAnswer s g).issued = (s.next + g) :: s.issued ∧
    (s.next + g) ∉ diskIds (crashAfterAnswer s g) ∧
    ∀ k ∈ (crashAfterAnswer s g).issued, k ≠ s.next + g → k ∉ (crashAfterAnswer s g).retired →
      k ∈ diskIds (crashAfterAnswer s g) := by
  intro s
  have h : Inv s := exec_inv dir ops hw
  have hd : (crashAfterAnswer s g).disk = s.disk := by simp [crashAfterAnswer, construct, h.disk]
  have hi : (crashAfterAnswer s g).issued = (s.next + g) :: s.issued := by
    simp [crashAfterAnswer, construct, h.disk]
  have hr : (crashAfterAnswer s g).retired = s.retired := by simp [crashAfterAnswer, construct, h.disk]
  have hids : diskIds (crashAfterAnswer s g) = ids s.mem := by
    rw [← diskIds_eq h]; simp [diskIds, hd]
  refine ⟨hd, hi, ?_, ?_⟩
  · rw [hids]
    intro hm
    have := h.lt _ hm
    omega
  · intro k hk hne hnr
    rw [hi] at hk
    rw [hr] at hnr
    rw [hids]
    rcases List.mem_cons.1 hk with rfl | hk
    · exact absurd rfl hne
    · rcases h.surv k hk with h1 | h1
      · exact absurd h1 hnr
      · exact h1

/-- the identifier in flight *is* lost — `accepted_ids_survive_refusal` does not extend to this stopping point:
two jobs, the first accepted and saved, the process dies right after the server accepted the second -/
theorem accepted_id_lost_when_crash_follows_answer :
    let s := exec (step fixed) (create fixed true)
      [Op.add plainJob none, .add plainJob none, launchPar [.accept 0]]
    s.issued = [0] ∧ diskIds s = [0] ∧
    (crashAfterAnswer s 2).issued = [3, 0] ∧ diskIds (crashAfterAnswer s 2) = [0] := by decide

/-- the same stopping point in a rerun with replacement and in the sequential mode (both are histories of the
machine, so `crash_after_answer_loses_only_that_id` covers them): job 0 failed, its rerun is answered with identifier
1 and the process dies before the write — the file still holds the failed job 0 (not retired: nothing replaced it
on disk), identifier 1 is lost; sequential launch of two jobs, the first complete and saved, the process dies after
the answer to the second — -/
theorem accepted_id_lost_when_crash_follows_rerun_answer :
    let s := exec (step fixed) (create fixed true)
      [Op.add plainJob none, launchPar [.accept 0], .progress [.st .error], .launch true true false [] []]
    diskIds s = [0] ∧ s.retired = [] ∧
    (crashAfterAnswer s 0).issued = [1, 0] ∧ diskIds (crashAfterAnswer s 0) = [0] ∧
    (crashAfterAnswer s 0).retired = [] := by decide

theorem accepted_id_lost_when_crash_follows_sequential_answer :
    let s := exec (step fixed) (create fixed true)
      [Op.add plainJob none, .add plainJob none, .launch false false true [.accept 0] [.st .success]]
    diskIds s = [0] ∧ (s.mem.map (·.st)) = [.success, .waiting] ∧
    (crashAfterAnswer s 0).issued = [1, 0] ∧ diskIds (crashAfterAnswer s 0) = [0] := by decide

/-! ## 10b. the same crash as a stopping point INSIDE a machine: histories that go on after it

`Lemmas/C19CrashM.lean`: the extended machine `xstep` runs histories of `XOp` = an operation of the machine above
(`.op o`) or a crash step (`.crash g`: the process that stopped at a `create_job` / `rerun_job` request had in fact
been answered `accept g` and died before the write).  The crash step is `crashAfterAnswer` with the identifier in
flight also entered in the ghost list `retired` — which in this machine reads "identifiers known not to be in the
file: replaced by a rerun, deleted with the group, or in flight at a crash" — and in the ledger `lost` of the
extended state.  After a crash step the history goes on with any operations (re-open, add, launch, rerun, …) and
any further crashes.  The one invariant all theorems of sections 1–7 are read off is preserved by the crash step,
hence by every extended history: the theorems are kept. -/

/-- **crash_histories_keep_invariant.**  For ALL histories interleaving operations and crashes-after-answer (all
answers, all stopping points, any number of crashes, anything after them) the invariant holds. -/
theorem crash_histories_keep_invariant (dir : Bool) (xs : List XOp) (hw : ∀ o ∈ xs, WFX o) :
    Inv (exec xstep (xinit dir) xs).st :=
  xexec_inv dir xs hw

/-- **crash_histories_disk_refines_memory.**  `disk_refines_memory` for histories with crashes: re-opening yields
memory's observable content and the file is exactly the image of memory. -/
theorem crash_histories_disk_refines_memory (dir : Bool) (xs : List XOp) (hw : ∀ o ∈ xs, WFX o) :
    Refines fixed (exec xstep (xinit dir) xs).st ∧
    (exec xstep (xinit dir) xs).st.disk = some ((exec xstep (xinit dir) xs).st.mem.map toDict) := by
  have h := xexec_inv dir xs hw
  refine ⟨?_, h.disk⟩
  show (reload fixed _).map toDict = _
  rw [reload_eq h]
  exact reloadList_toDict h.good

/-- **crash_histories_no_duplicate_ids.** -/
theorem crash_histories_no_duplicate_ids (dir : Bool) (xs : List XOp) (hw : ∀ o ∈ xs, WFX o) :
    (ids (exec xstep (xinit dir) xs).st.mem).Nodup ∧ (diskIds (exec xstep (xinit dir) xs).st).Nodup := by
  have h := xexec_inv dir xs hw
  exact ⟨h.nodup, by rw [diskIds_eq h]; exact h.nodup⟩

/-- **crash_histories_request_stable.**  Every `create_job` request that left — before or after any crash — equals
the body the file held for that entry; every job whose body the file holds has a body made of JSON values. -/
theorem crash_histories_request_stable (dir : Bool) (xs : List XOp) (hw : ∀ o ∈ xs, WFX o) :
    (∀ r ∈ (exec xstep (xinit dir) xs).st.sent, r.req = r.stored ∧ r.req.isSome = true) ∧
    (∀ j ∈ (exec xstep (xinit dir) xs).st.mem, j.st ≠ .success → j.js = true) := by
  have h := xexec_inv dir xs hw
  exact ⟨h.sent, fun j hj hs => ((h.good j hj).2 hs).2⟩

/- FULL statement wanted for the identifiers: along every extended history every identifier the server issued is in
the file, unless the failed job it belonged to was replaced by its rerun, or the group was deleted, or it is in the
ledger `lost` (in flight at a crash) — and the ledger has exactly one entry per crash.
PROVED below (`…_partial`): every issued identifier is in the file unless it is in `retired`, where the crash step
enters the identifier in flight in `retired` (by definition of `lose`, see `crash_step_spec`); the ledger has one
entry per crash.  MISSING for the full statement: that the `retired` list of an extended history consists of
nothing but the entries made by reruns / deletions and the ledger — i.e. that operations treat `retired` as a
write-only ghost (a lemma per operation of the machine: each leaves `retired` alone or prepends to it); it is
visible in the definitions but not proved. -/

/-- **crash_histories_accepted_ids_partial.** -/
theorem crash_histories_accepted_ids_partial (dir : Bool) (xs : List XOp) (hw : ∀ o ∈ xs, WFX o) :
    (∀ k ∈ (exec xstep (xinit dir) xs).st.issued,
      k ∉ (exec xstep (xinit dir) xs).st.retired → k ∈ diskIds (exec xstep (xinit dir) xs).st) ∧
    (exec xstep (xinit dir) xs).lost.length = (xs.filter isCrash).length := by
  have h := xexec_inv dir xs hw
  refine ⟨?_, by simpa [xinit] using xexec_lost_length xs (xinit dir)⟩
  intro k hk hr
  rw [diskIds_eq h]
  rcases h.surv k hk with h1 | h1
  · exact absurd h1 hr
  · exact h1

/-- **crash_step_spec.**  What the crash step does in a reachable state: it is `crashAfterAnswer` (the function of
section 10) plus the book-keeping — the identifier in flight goes to `retired` and to the ledger; the file is
untouched, and that identifier is not in it. -/
theorem crash_step_spec (dir : Bool) (xs : List XOp) (hw : ∀ o ∈ xs, WFX o) (g : Nat) :
    let x := exec xstep (xinit dir) xs
    let y := (xstep x (.crash g)).1
    y.st = { crashAfterAnswer x.st g with retired := (x.st.next + g) :: x.st.retired } ∧
    y.lost = (x.st.next + g) :: x.lost ∧ y.st.disk = x.st.disk ∧ (x.st.next + g) ∉ diskIds y.st ∧
    (xstep x (.crash g)).2.res = .killed := by
  intro x y
  have h : Inv x.st := xexec_inv dir xs hw
  have e : y.st = { crashAfterAnswer x.st g with retired := (x.st.next + g) :: x.st.retired } := lose_eq h g
  have hd : y.st.disk = x.st.disk := by rw [e]; simp [crashAfterAnswer, construct, h.disk]
  refine ⟨e, rfl, hd, ?_, rfl⟩
  have : diskIds y.st = ids x.st.mem := by rw [← diskIds_eq h]; simp [diskIds, hd]
  rw [this]
  intro hm
  have := h.lt _ hm
  omega

/-- **crash_free_histories_agree.**  On histories without crash steps the extended machine is the machine of
sections 1–7 (so nothing above is about a different machine). -/
theorem crash_free_histories_agree (dir : Bool) (ops : List Op) :
    exec xstep (xinit dir) (ops.map .op) = ⟨exec (step fixed) (create fixed dir) ops, []⟩ :=
  xexec_ops ops (xinit dir)

/-- non-vacuity, and a history that goes on after the crash: two jobs; the launch is cut at its second request
(identifier 0 saved); in fact the server had answered `accept 2` (identifier 3) before the process died; the group
is re-opened, the second job — still unsent in the file — is launched again and gets identifier 4: the file holds
0 and 4, identifier 3 is issued, retired and in the ledger, and a third launch has nothing left to send -/
example :
    let xs : List XOp := [.op (.add plainJob none), .op (.add plainJob none), .op (launchPar [.accept 0]),
      .crash 2, .op .reopen, .op (launchPar [.accept 0]), .op (launchPar [])]
    (∀ o ∈ xs, WFX o) ∧
    let x := exec xstep (xinit true) xs
    x.st.issued = [4, 3, 0] ∧ diskIds x.st = [0, 4] ∧ x.st.retired = [3] ∧ x.lost = [3] ∧
    (run xstep (xinit true) xs).2.map (·.res) = [.ok, .ok, .killed, .killed, .ok, .ok, .ok] := by
  refine ⟨by simp [WFX, WFOp, WFJob, plainJob, launchPar], ?_⟩
  decide

/-! ### 10c (wave 10, proofs only). the ghost list `retired` is write-only

The lemma "per operation" that section 10b names as missing (`Lemmas/C19W10.lean`): every operation of the machine
(`step_retired`: `add`, every launch mode, the status views, `get_results`, `track_progress`, re-opening, deletion)
and the crash step leave `retired` alone or PREPEND to it; nothing is ever removed or reordered. -/

/-- **crash_histories_retired_write_only.**  Along every extended history (operations and crashes, all answers, all
stopping points) the ghost list `retired` only grows at its head: what it held after any prefix `pre` of a history
is a suffix of what it holds after `pre ++ post`, so an identifier once retired stays retired, and no operation's
entry is ever dropped. -/
theorem crash_histories_retired_write_only (dir : Bool) (pre post : List XOp) (hw : ∀ o ∈ pre ++ post, WFX o) :
    (exec xstep (xinit dir) pre).st.retired <:+ (exec xstep (xinit dir) (pre ++ post)).st.retired ∧
    ∀ k ∈ (exec xstep (xinit dir) pre).st.retired, k ∈ (exec xstep (xinit dir) (pre ++ post)).st.retired := by
  have h := xexec_inv dir pre (fun o ho => hw o (List.mem_append_left _ ho))
  have hs := xexec_retired_suffix post _ h (fun o ho => hw o (List.mem_append_right _ ho))
  rw [exec_append]
  exact ⟨hs, fun k hk => hs.subset hk⟩

/-- **retired_write_only_step.**  One step, in any reachable state: an operation prepends some (possibly no)
identifiers to `retired`; a crash step prepends exactly the identifier in flight. -/
theorem retired_write_only_step (dir : Bool) (xs : List XOp) (hw : ∀ o ∈ xs, WFX o) :
    let x := exec xstep (xinit dir) xs
    (∀ o : Op, ∃ new, (xstep x (.op o)).1.st.retired = new ++ x.st.retired) ∧
    (∀ g : Nat, (xstep x (.crash g)).1.st.retired = (x.st.next + g) :: x.st.retired) := by
  intro x
  have h : Inv x.st := xexec_inv dir xs hw
  exact ⟨fun o => let ⟨t, ht⟩ := step_retired h o; ⟨t, ht.symm⟩, fun g => lose_ret x.st g⟩

/-- **crash_histories_ledger_in_retired.**  Every identifier of the ledger `lost` (in flight at some crash of the
history) is in `retired` at the end of the history, whatever operations and crashes followed that crash: with
`crash_histories_accepted_ids_partial`, the identifiers excused by "unless in `retired`" include all crash-lost ones,
and none of them is excused only temporarily. -/
theorem crash_histories_ledger_in_retired (dir : Bool) (xs : List XOp) (hw : ∀ o ∈ xs, WFX o) :
    ∀ k ∈ (exec xstep (xinit dir) xs).lost, k ∈ (exec xstep (xinit dir) xs).st.retired :=
  (xexec_lostRet dir xs hw).2

/- STILL MISSING for the full identifier statement of section 10b: the converse bound on `retired` — that every
entry of `retired` is the identifier of a failed job replaced by its rerun, an identifier of a deleted group, or an
entry of the ledger (a provenance statement: it needs a ghost tag per entry, or a second ledger for reruns and
deletions, i.e. a change of the extended state; not attempted here). -/

/-- non-vacuity: the history of section 10b's example, cut after the first launch (`retired` empty) and continued
with the crash, a re-open, a launch, a status view (job 0 SUCCESS, job 4 ERROR) and a rerun with replacement: `retired` grows from `[]` to
`[3]` (crash) to `[4, 3]` (rerun replaces the failed job 4 by 5); the ledger `[3]` is inside it -/
example :
    let pre : List XOp := [.op (.add plainJob none), .op (.add plainJob none), .op (launchPar [.accept 0])]
    let post : List XOp := [.crash 2, .op .reopen, .op (launchPar [.accept 0]), .op (.progress [.st .success, .st .error]),
      .op (.launch true true false [.accept 0] [])]
    (∀ o ∈ pre ++ post, WFX o) ∧
    (exec xstep (xinit true) pre).st.retired = [] ∧
    (exec xstep (xinit true) (pre ++ [.crash 2])).st.retired = [3] ∧
    (exec xstep (xinit true) (pre ++ post)).st.retired = [4, 3] ∧
    (exec xstep (xinit true) (pre ++ post)).lost = [3] ∧
    diskIds (exec xstep (xinit true) (pre ++ post)).st = [0, 5] := by
  refine ⟨by simp [WFX, WFOp, WFJob, plainJob, launchPar], ?_⟩
  decide

/-! ## 9. torn writes: a crash (or an I/O error) *inside* one `PersistentData.write_file` call

`_write_to_file` replaces the group file in place: `open(path, "wt")` truncates it, then the JSON text is written.
`TW.fileAt w old new c` is the file when the process stops after `c` events of that write (`Model/C19TW.lean`),
`TW.reopen` what `JobGroup(name)` then does, `TW.accepts` = `json.loads` returns a dictionary.  The statements are
about ALL texts `new` that `json.loads` accepts and that end in a non-blank character (what `json.dumps` of a
dictionary produces: that the real file texts are such is part of the correspondence), all previous contents and
all crash points. -/
namespace TW

/-- **torn_write_outcomes.**  Which crash points of an in-place write leave which file: before the `open` the
previous file (whatever re-opening made of it before); from the `open` until the last character is written a file
`json.loads` refuses — `JobGroup(name)` raises; afterwards the new group.  In particular the only crash points that
leave a loadable file equal to a state of the group are the first and the last. -/
theorem torn_write_outcomes (old : Option Text) (new : Text) (hn : accepts new = true) (hb : endsBlack new = true)
    (c : Nat) :
    reopen (fileAt .inPlace old new c) =
      if c = 0 then reopen old else if c ≤ new.length then .raises else .loaded new := by
  cases c with
  | zero => simp [fileAt]
  | succ k =>
    by_cases hk : k + 1 ≤ new.length
    · have : accepts (new.take k) = false := proper_prefix_refused new hn hb k hk
      simp [fileAt, reopen, this, hk]
    · have ht : new.take k = new := List.take_of_length_le (by omega)
      simp [fileAt, reopen, ht, hn, hk]

/-- **torn_write_never_misread.**  Whatever the crash point, re-opening never yields a group other than the one
before the write or the one written: a torn file is refused, not misread. -/
theorem torn_write_never_misread (old : Option Text) (new : Text) (hn : accepts new = true)
    (hb : endsBlack new = true) (c : Nat) :
    reopen (fileAt .inPlace old new c) = reopen old ∨ reopen (fileAt .inPlace old new c) = .raises ∨
    reopen (fileAt .inPlace old new c) = .loaded new := by
  rw [torn_write_outcomes old new hn hb c]
  by_cases h0 : c = 0
  · simp [h0]
  · by_cases h1 : c ≤ new.length <;> simp [h0, h1]

/-- **write_via_temp_atomic.**  A write that goes through a temporary file renamed onto the group file leaves, at
every crash point, the previous group or the new one (the repair `fixes/C19-atomic-write.diff`; not what the code
does). -/
theorem write_via_temp_atomic (old : Option Text) (new : Text) (hn : accepts new = true) (c : Nat) :
    reopen (fileAt .viaTemp old new c) = reopen old ∨ reopen (fileAt .viaTemp old new c) = .loaded new := by
  by_cases h : c < new.length + 3
  · left; simp [fileAt, h]
  · right; simp [fileAt, h, reopen, hn]

/-- non-vacuity of the hypotheses, and the recogniser at work: `{"a": [1, -2.5e3, "x\"}"], "b": {}}` is accepted,
ends in `}`, and none of its 33 proper prefixes is -/
example :
    let t : Text := [123, 34, 97, 34, 58, 32, 91, 49, 44, 32, 45, 50, 46, 53, 101, 51, 44, 32, 34, 120, 92, 34, 125, 34,
                     93, 44, 32, 34, 98, 34, 58, 32, 123, 125, 125]
    accepts t = true ∧ endsBlack t = true ∧ (List.range t.length).all (fun k => !accepts (t.take k)) = true := by
  decide

/-- **in_place_write_not_atomic** (the code as it is): a group `{"k": 1}` on disk, the write of `{"k": 2}` stopped
after the `open` and four characters: the group can no longer be opened — neither the previous nor the new state.
With the write through a temporary file the previous group is found. -/
theorem in_place_write_not_atomic :
    let old : Text := [123, 34, 107, 34, 58, 32, 49, 125]
    let new : Text := [123, 34, 107, 34, 58, 32, 50, 125]
    reopen (some old) = .loaded old ∧ reopen (fileAt .inPlace (some old) new 5) = .raises ∧
    reopen (fileAt .inPlace (some old) new 1) = .raises ∧
    reopen (fileAt .viaTemp (some old) new 5) = .loaded old := by
  decide

/-- the property fails at those crash points: "re-opening the group yields the group in memory or the group as it
was" does not hold for the in-place write — -/
theorem reopen_after_crash_fails_for_in_place_write :
    ¬ ∀ (old : Option Text) (new : Text) (c : Nat), accepts new = true →
        reopen (fileAt .inPlace old new c) = reopen old ∨ reopen (fileAt .inPlace old new c) = .loaded new := by
  intro h
  have := h (some [123, 125]) [123, 125] 1 (by decide)
  revert this
  decide

/-! ### 9b. the per-text hypothesis discharged: a model of what `json.dumps` writes

`Lemmas/C19Dumps.lean` describes the text `json.dumps(v)` (default arguments: `", "` / `": "`, `ensure_ascii`) as a
function `JV.dumps` of the value tree `JV`: None / True / False / NaN / ±Infinity, number literals as `repr` writes
them, strings of arbitrary code points (escapes, `\uXXXX`, surrogate pairs), lists, dictionaries with string keys,
nested to any depth — a superset of what `JobGroup._to_json` builds (dates as text, identifiers and statuses as text
or None, request bodies and metadata as nested dictionaries).  Proved by mutual structural induction on the value
(the value lemma `JV.scan_dumps`: under ANY stack, in either mode where a value may start, the text of a value
leaves the scanner either in `closeValue` or inside a number that may end there): the hypotheses `accepts new` and
`endsBlack new` of the three theorems above hold for the text of EVERY dictionary, so the torn-write statements
hold for everything `json.dumps` can write, not only for the texts the scenarios happened to write. -/

/-- **dumps_text_loadable.**  For every dictionary (any keys, any nesting, any values of the kinds above):
`json.loads` accepts the text `json.dumps` writes for it — and returns a dictionary —, and that text ends in a
non-blank character. -/
theorem dumps_text_loadable (m : JM) :
    accepts (JV.dumps (.obj m)) = true ∧ endsBlack (JV.dumps (.obj m)) = true :=
  ⟨accepts_dumps_obj m, endsBlack_dumps_obj m⟩

/-- **torn_write_outcomes_of_dumps.**  `torn_write_outcomes` without hypothesis on the text: for every dictionary
written, every previous content and every stopping point. -/
theorem torn_write_outcomes_of_dumps (old : Option Text) (m : JM) (c : Nat) :
    reopen (fileAt .inPlace old (JV.dumps (.obj m)) c) =
      if c = 0 then reopen old
      else if c ≤ (JV.dumps (.obj m)).length then .raises else .loaded (JV.dumps (.obj m)) :=
  torn_write_outcomes old _ (accepts_dumps_obj m) (endsBlack_dumps_obj m) c

/-- **torn_write_never_misread_of_dumps.**  Whatever dictionary is written and wherever the write stops, re-opening
yields the previous outcome, a refusal, or the group written — never a third group. -/
theorem torn_write_never_misread_of_dumps (old : Option Text) (m : JM) (c : Nat) :
    reopen (fileAt .inPlace old (JV.dumps (.obj m)) c) = reopen old ∨
    reopen (fileAt .inPlace old (JV.dumps (.obj m)) c) = .raises ∨
    reopen (fileAt .inPlace old (JV.dumps (.obj m)) c) = .loaded (JV.dumps (.obj m)) :=
  torn_write_never_misread old _ (accepts_dumps_obj m) (endsBlack_dumps_obj m) c

/-- **write_via_temp_atomic_of_dumps.** -/
theorem write_via_temp_atomic_of_dumps (old : Option Text) (m : JM) (c : Nat) :
    reopen (fileAt .viaTemp old (JV.dumps (.obj m)) c) = reopen old ∨
    reopen (fileAt .viaTemp old (JV.dumps (.obj m)) c) = .loaded (JV.dumps (.obj m)) :=
  write_via_temp_atomic old _ (accepts_dumps_obj m) c

/-- the dictionary `JobGroup._to_json` builds: two dates (text) and the list of job dictionaries -/
def groupJson (created modified : List Nat) (jobs : JL) : JM :=
  .cons [99, 114, 101, 97, 116, 101, 100, 95, 100, 97, 116, 101] (.str created)          -- created_date
    (.cons [109, 111, 100, 105, 102, 105, 101, 100, 95, 100, 97, 116, 101] (.str modified)   -- modified_date
      (.cons [106, 111, 98, 95, 103, 114, 111, 117, 112, 95, 100, 97, 116, 97] (.arr jobs) .nil))  -- job_group_data

/-- **group_file_write_outcomes.**  The statement for the group file itself: whatever the dates, however many jobs
and whatever their dictionaries hold, a `_write_to_file` stopped before the `open` leaves the previous file, stopped
anywhere from the `open` until its last character leaves a file `JobGroup(name)` refuses, and completed leaves the
new group. -/
theorem group_file_write_outcomes (old : Option Text) (created modified : List Nat) (jobs : JL) (c : Nat) :
    let new := JV.dumps (.obj (groupJson created modified jobs))
    reopen (fileAt .inPlace old new c) =
      if c = 0 then reopen old else if c ≤ new.length then .raises else .loaded new :=
  torn_write_outcomes_of_dumps old _ c

/-- the serializer at work: the witness text of section 9, `{"a": [1, -2.5e3, "x\"}"], "b": {}}`, is `dumps` of its
value tree; and a string with a line feed, U+00E9 and U+1F600 is written `"\n\u00e9\ud83d\ude00"` -/
example :
    JV.dumps (.obj (.cons [97] (.arr (.cons (.num ⟨false, .pos 0 [], none, none⟩)
        (.cons (.num ⟨true, .pos 1 [], some ⟨5, []⟩, some (.none, ⟨3, []⟩)⟩)
          (.cons (.str [120, 34, 125]) .nil)))) (.cons [98] (.obj .nil) .nil))) =
      [123, 34, 97, 34, 58, 32, 91, 49, 44, 32, 45, 50, 46, 53, 101, 51, 44, 32, 34, 120, 92, 34, 125, 34,
       93, 44, 32, 34, 98, 34, 58, 32, 123, 125, 125] ∧
    JV.dumps (.str [10, 233, 128512]) =
      [34, 92, 110, 92, 117, 48, 48, 101, 57, 92, 117, 100, 56, 51, 100, 92, 117, 100, 101, 48, 48, 34] := by
  decide

/-- an empty group: `{"created_date": "", "modified_date": "", "job_group_data": []}` -/
example : (JV.dumps (.obj (groupJson [] [] .nil))).length = 63 ∧
    accepts (JV.dumps (.obj (groupJson [] [] .nil))) = true := by decide

end TW

/-! ## 11. two `JobGroup` objects of one name alive at the same time

`Model/C19Conc.lean`: each object has its own list, loaded once by its constructor; file, directory and server are
shared; an action is (object, operation).  No operation reads the file again, so the exact law is a discipline:
**an object that takes over after the other one acted must start by re-opening the group** (`disc`).  Under that
discipline, for ALL histories, answers and stopping points, the two objects together are indistinguishable from ONE
object performing the same operations — every theorem of sections 1–10 then speaks about the acting object.  Without
it the last writer wins: a stale object's next write replaces the other's work, identifiers included (witnesses). -/
namespace Conc

/-- **handover_by_reopen_is_single_owner.**  State of the acting object (its memory, the file, the server, the ghost
records) and the outputs of all operations are those of a single object performing the same operations. -/
theorem handover_by_reopen_is_single_owner (dir : Bool) (hist : List Act) (hw : ∀ a ∈ hist, WFOp a.2)
    (hd : disc false hist = true) :
    (exec (step2 fixed) (init2 fixed dir) hist).cur = exec (step fixed) (create fixed dir) (hist.map (·.2)) ∧
    (run (step2 fixed) (init2 fixed dir) hist).2 = (run (step fixed) (create fixed dir) (hist.map (·.2))).2 := by
  have h := run_disc hist (init2 fixed dir) (create_inv dir) hw hd
  exact ⟨congrArg Prod.fst h, congrArg Prod.snd h⟩

/-- **disciplined_file_is_actor_memory.**  Under the discipline, after every history the file is exactly the image
of the acting object's memory, re-opening yields its observable content, and every identifier the server issued to
either object is in the file unless retired by a rerun. -/
theorem disciplined_file_is_actor_memory (dir : Bool) (hist : List Act) (hw : ∀ a ∈ hist, WFOp a.2)
    (hd : disc false hist = true) :
    let s := (exec (step2 fixed) (init2 fixed dir) hist).cur
    s.disk = some (s.mem.map toDict) ∧ Refines fixed s ∧ (∀ k ∈ s.issued, k ∉ s.retired → k ∈ diskIds s) := by
  have hwo : ∀ op ∈ hist.map (·.2), WFOp op := by
    intro op hop
    obtain ⟨a, ha, rfl⟩ := List.mem_map.1 hop
    exact hw a ha
  simp only [(handover_by_reopen_is_single_owner dir hist hw hd).1]
  exact ⟨disk_is_image_of_memory dir _ hwo, disk_refines_memory dir _ hwo, accepted_ids_survive_refusal dir _ hwo⟩

/-- non-vacuity: a history in which the objects alternate, each re-opening when it takes over -/
example : disc false [(false, Op.add plainJob none), (true, .reopen), (true, launchPar [.accept 0]), (false, .reopen),
    (false, .progress [.st .success]), (true, .reopen), (true, .add plainJob none)] = true := by decide

/-- **stale_object_write_loses_accepted_id** (the discipline is necessary; the code as it is): object B is
constructed, object A adds a job and launches it — identifier 0 is in the file —, then B, without re-opening, adds a
job: the file is the image of B's list, which is not A's, and identifier 0 is gone from it although nothing retired
it.  Had B re-opened first, the file would hold both jobs. -/
theorem stale_object_write_loses_accepted_id :
    let t := exec (step2 fixed) (init2 fixed true)
      [(true, Op.reopen), (false, .add plainJob none), (false, launchPar [.accept 0]), (true, .add plainJob none)]
    let t' := exec (step2 fixed) (init2 fixed true)
      [(true, Op.reopen), (false, .add plainJob none), (false, launchPar [.accept 0]), (true, .reopen),
       (true, .add plainJob none)]
    t.cur.issued = [0] ∧ t.cur.retired = [] ∧ diskIds t.cur = [] ∧
    t.cur.disk = some (t.cur.mem.map toDict) ∧ (t.other.map (·.map (·.id))) = some [some 0] ∧
    t.cur.mem.map (·.id) = [none] ∧
    (t'.cur.disk.map (·.map (·.id))) = some [some 0, none] := by decide

/-- **add_makes_file_the_adders_list** (the last writer wins, as a law of `add`; no discipline, no reachability
hypothesis).  In ANY state of the two objects — whatever interleaving led to it, whatever the file holds — an
`add` by either object that returns normally leaves the file equal to the image of THAT object's list: everything
the other object saved since the adder loaded its list is gone from the file.  (`dir`: the `job_group` directory
exists, which every constructor of the repaired code ensures.) -/
theorem add_makes_file_the_adders_list (t : Two) (h : Bool) (j : Job) (kw : Option Nat) (hd : t.cur.dir = true) :
    (step2 fixed t (h, .add j kw)).2.res = .ok →
    (step2 fixed t (h, .add j kw)).1.cur.disk = some ((step2 fixed t (h, .add j kw)).1.cur.mem.map toDict) := by
  have key : ∀ t1 : Two, t1.cur.dir = true → (step fixed t1.cur (.add j kw)).2.res = .ok →
      (step fixed t1.cur (.add j kw)).1.disk = some ((step fixed t1.cur (.add j kw)).1.mem.map toDict) := by
    intro t1 h1 hk
    have := addOp_okWritten (clearScript t1.cur) j kw (by simpa [clearScript] using h1)
    simp only [step, clearScript] at hk ⊢
    exact this hk
  by_cases hs : h = t.who
  · simpa [step2, hs] using key t hd
  · simpa [step2, hs] using key (switch fixed t) (switch_dir t hd)

/-- non-vacuity of the hypothesis: right after the first constructor the directory exists -/
example (dir : Bool) : (init2 fixed dir).cur.dir = true := by cases dir <;> rfl

/-- **launch_makes_file_the_launchers_list.**  The last-writer law for `run_parallel` / `run_sequential` (the launch
that is not a rerun), proved like the one for `add` for ANY state of the two objects — no discipline, no
reachability hypothesis beyond the existence of the `job_group` directory —, all answers of the server, all status
scripts of the sequential wait: a launch by either object that returns normally either found nothing to send
(every job of THAT object's list has an identifier already; its list and the file are untouched), or leaves the
file equal to the image of THAT object's list — whatever the other object saved since the launcher loaded its list
is gone.  (`actor t h` = the world as object `h` sees it when it starts to act: its own, possibly stale, list and
the shared file.) -/
theorem launch_makes_file_the_launchers_list (t : Two) (h : Bool) (rp seq : Bool) (outs : List Outcome)
    (sts : List Ans) (hd : t.cur.dir = true) :
    (step2 fixed t (h, .launch false rp seq outs sts)).2.res = .ok →
      (step2 fixed t (h, .launch false rp seq outs sts)).1.cur.disk =
        some ((step2 fixed t (h, .launch false rp seq outs sts)).1.cur.mem.map toDict) ∨
      ((step2 fixed t (h, .launch false rp seq outs sts)).1.cur.mem = (actor t h).cur.mem ∧
       (step2 fixed t (h, .launch false rp seq outs sts)).1.cur.disk = (actor t h).cur.disk ∧
       ∀ j ∈ (actor t h).cur.mem, j.id.isSome = true) := by
  obtain ⟨e1, e2⟩ := step2_actor t h (.launch false rp seq outs sts)
  rw [e1, e2]
  exact launch_ok_written _ rp seq outs sts (actor_dir t h hd)

/-- non-vacuity (both alternatives occur), and what the law means: object B is constructed, A adds a job, B adds a
job without re-opening (the file is B's list), A launches its job (accepted, identifier 0: the file is A's list,
B's job is gone), B launches its job (identifier 1): the launch returns normally and the file is the image of B's
list — the identifier 0 the server issued to A is gone; a second launch by B finds nothing to send and leaves list
and file untouched -/
example :
    let hist : List Act := [(true, Op.reopen), (false, .add plainJob none), (true, .add plainJob none),
      (false, launchPar [.accept 0]), (true, launchPar [.accept 0])]
    let t := exec (step2 fixed) (init2 fixed true) hist
    t.cur.dir = true ∧ t.cur.issued = [1, 0] ∧ diskIds t.cur = [1] ∧ t.cur.disk = some (t.cur.mem.map toDict) ∧
    (run (step2 fixed) (init2 fixed true) hist).2.map (·.res) = [.ok, .ok, .ok, .ok, .ok] ∧
    (step2 fixed t (true, launchPar [])).2.res = .ok ∧
    (step2 fixed t (true, launchPar [])).1.cur.mem = (actor t true).cur.mem ∧
    (∀ j ∈ (actor t true).cur.mem, j.id.isSome = true) := by decide

/-- **any_launch_makes_file_the_launchers_list.**  The same law for EVERY launch mode — `run_parallel`,
`run_sequential`, `rerun_failed_parallel`, `rerun_failed_sequential`, with or without replacement (the reruns start
with a status refresh, which may itself write) —, any state of the two objects, all answers, all status scripts: a
launch by either object that returns normally leaves the file equal to the image of THAT object's list, or has
written nothing at all (the image of that object's list and the file are what they were when it started to act). -/
theorem any_launch_makes_file_the_launchers_list (t : Two) (h : Bool) (rr rp seq : Bool) (outs : List Outcome)
    (sts : List Ans) (hd : t.cur.dir = true) :
    (step2 fixed t (h, .launch rr rp seq outs sts)).2.res = .ok →
      (step2 fixed t (h, .launch rr rp seq outs sts)).1.cur.disk =
        some ((step2 fixed t (h, .launch rr rp seq outs sts)).1.cur.mem.map toDict) ∨
      ((step2 fixed t (h, .launch rr rp seq outs sts)).1.cur.mem.map toDict = (actor t h).cur.mem.map toDict ∧
       (step2 fixed t (h, .launch rr rp seq outs sts)).1.cur.disk = (actor t h).cur.disk) := by
  obtain ⟨e1, e2⟩ := step2_actor t h (.launch rr rp seq outs sts)
  rw [e1, e2]
  exact launch_any_ok_written _ rr rp seq outs sts (actor_dir t h hd)

/-- non-vacuity for a rerun: B is constructed; A adds a job, launches it (identifier 0) and sees it fail; B adds a
job without re-opening (the file is B's list); A reruns its failed job with replacement (identifier 1): the rerun
returns normally and the file is the image of A's list — B's job is gone -/
example :
    let hist : List Act := [(true, Op.reopen), (false, .add plainJob none), (false, launchPar [.accept 0]),
      (false, .progress [.st .error]), (true, .add plainJob none), (false, .launch true true false [.accept 0] [])]
    let t := exec (step2 fixed) (init2 fixed true) hist
    t.cur.dir = true ∧ diskIds t.cur = [1] ∧ t.cur.disk = some (t.cur.mem.map toDict) ∧ t.cur.mem.length = 1 ∧
    (run (step2 fixed) (init2 fixed true) hist).2.map (·.res) = [.ok, .ok, .ok, .ok, .ok, .ok] := by decide

/-- **status_view_by_either_object_writes_its_list_or_nothing.**  The last-writer law for the status views
`progress()`, `list_*()` and `track_progress()`: for ANY state of the two objects, all status answers: a view by
either object that returns normally leaves the file equal to the image of THAT object's list (it saw a status
change and saved), or has written nothing (the image of that object's list and the file are untouched). -/
theorem status_view_by_either_object_writes_its_list_or_nothing (t : Two) (h : Bool) (op : Op)
    (hop : (∃ sts, op = .progress sts) ∨ (∃ k sts, op = .list k sts) ∨ (∃ sts, op = .track sts))
    (hd : t.cur.dir = true) :
    (step2 fixed t (h, op)).2.res = .ok →
      (step2 fixed t (h, op)).1.cur.disk = some ((step2 fixed t (h, op)).1.cur.mem.map toDict) ∨
      ((step2 fixed t (h, op)).1.cur.mem.map toDict = (actor t h).cur.mem.map toDict ∧
       (step2 fixed t (h, op)).1.cur.disk = (actor t h).cur.disk) := by
  obtain ⟨e1, e2⟩ := step2_actor t h op
  rw [e1, e2]
  exact views_ok_written _ op hop (actor_dir t h hd)

/-- non-vacuity (both alternatives): B adds and launches a job (identifier 0); A, whose list is still empty, adds a
job (the file is A's list: identifier 0 is gone from it); B's `progress()` sees WAITING become RUNNING and saves: the
file is B's list again, A's job is gone; a `progress()` whose request is swallowed writes nothing -/
example :
    let hist : List Act := [(true, Op.reopen), (true, .add plainJob none), (true, launchPar [.accept 0]),
      (false, .add plainJob none)]
    let t := exec (step2 fixed) (init2 fixed true) hist
    t.cur.dir = true ∧ diskIds t.cur = [] ∧
    (step2 fixed t (true, .progress [.st .running])).2.res = .ok ∧
    diskIds (step2 fixed t (true, .progress [.st .running])).1.cur = [0] ∧
    (step2 fixed t (true, .progress [.st .running])).1.cur.disk =
      some ((step2 fixed t (true, .progress [.st .running])).1.cur.mem.map toDict) ∧
    (step2 fixed t (true, .progress [.ignored])).2.res = .ok ∧
    (step2 fixed t (true, .progress [.ignored])).1.cur.disk = t.cur.disk ∧
    diskIds (step2 fixed t (true, .progress [.ignored])).1.cur = [] := by decide

/-- the positive statements fail without the discipline -/
theorem handover_without_reopen_fails :
    ¬ ∀ (dir : Bool) (hist : List Act), (∀ a ∈ hist, WFOp a.2) →
        ∀ k ∈ (exec (step2 fixed) (init2 fixed dir) hist).cur.issued,
          k ∉ (exec (step2 fixed) (init2 fixed dir) hist).cur.retired →
          k ∈ diskIds (exec (step2 fixed) (init2 fixed dir) hist).cur := by
  intro h
  have := h true [(true, Op.reopen), (false, .add plainJob none), (false, launchPar [.accept 0]),
    (true, .add plainJob none)] (by simp [WFOp, WFJob, plainJob, launchPar]) 0
  revert this
  decide

end Conc

end PM.C19
