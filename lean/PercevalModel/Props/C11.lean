/-
  C11 — property theorems (models: `Model/C11.lean`, `Model/C11Lists.lean`).

  Part A (this section): inversion.  For every commutative star ring `R` with an imaginary unit `I`
  (in particular ℂ), every tree of any depth, every admissible offset, all three beam-splitter
  conventions and four independent phases.  `fixed = true` is the repaired code
  (`fixes/C11-bs-inverse.diff`, `fixes/C11-shared-inverse.diff`, `fixes/C11-flatten-offset.diff`);
  the `…_fails_on_current_code` theorems are the regression witnesses about `fixed = false`.
-/
import PercevalModel.Lemmas.C11
import PercevalModel.Lemmas.C11Lists
import PercevalModel.Lemmas.C11More
import PercevalModel.Lemmas.C11Adj
import PercevalModel.Lemmas.C11Copy
import PercevalModel.Lemmas.C11Heur
import PercevalModel.Lemmas.C11Regroup
import PercevalModel.Lemmas.C11Deep
import PercevalModel.Lemmas.C11Chain
import PercevalModel.Lemmas.C11Mixed
import PercevalModel.Lemmas.C11Nest
import PercevalModel.Props.C01
import PercevalModel.Num.GQ

open Matrix PM

namespace PM.C11
variable {R : Type}

/-! ## A. inversion -/

/-- `BS.inverse(v=True)` (repaired) yields the matrix with the mode order reversed on both sides:
a ring identity, for every convention and all parameter values. -/
theorem bs_vinv [CommRing R] (I : R) (p : BSP R) :
    bsMat I (p.vInv true) = vflip (bsMat I p) := bsMat_vInv I p

/-- `BS.inverse(h=True)` (repaired) yields the inverse matrix, for every convention, every `θ` and
four independent phases. -/
theorem bs_hinv [CommRing R] [StarRing R] {I : R} (hI : ImagUnit I) {p : BSP R} (hp : p.Unit) :
    bsMat I (p.hInv true) * bsMat I p = 1 ∧ bsMat I p * bsMat I (p.hInv true) = 1 := by
  rw [bsMat_hInv hI hp.toReal]
  exact ⟨(bsMat_isUnitary hI hp).2, (bsMat_isUnitary hI hp).1⟩

/-- `BS.inverse(v, h)` (repaired), any combination of the flags: flipped, then conjugate-transposed. -/
theorem bs_inv [CommRing R] [StarRing R] {I : R} (hI : ImagUnit I) {p : BSP R} (hp : p.Real)
    (v h : Bool) : bsMat I (p.inv true v h) = xform v h (bsMat I p) := bsMat_inv hI hp v h

/-- `PS.inverse(h=True)` inverts the phase (`v` leaves a one-mode component alone). -/
theorem ps_hinv [CommRing R] [StarRing R] (v : Bool) {z : R} (hz : z * star z = 1) :
    (Leaf.ps z).inv true v true = .ps (star z) ∧ star z * z = 1 :=
  ⟨rfl, by rw [mul_comm]; exact hz⟩

/-- `Unitary.inverse(h=True)` (also `PERM.inverse`): the inverse matrix. -/
theorem unitary_hinv [CommRing R] [StarRing R] {k : ℕ} {U : Matrix (Fin k) (Fin k) R}
    (hU : IsUnitary U) :
    (Leaf.un k U).inv true false true = .un k Uᴴ ∧ Uᴴ * U = 1 ∧ U * Uᴴ = 1 :=
  ⟨rfl, hU.2, hU.1⟩

/-- `Unitary.inverse(v=True)`: `np.flip`. -/
theorem unitary_vinv [CommRing R] [StarRing R] {k : ℕ} (U : Matrix (Fin k) (Fin k) R) :
    (Leaf.un k U).inv true true false = .un k (vflip U) := rfl

/-- `Circuit.inverse(v, h)` (repaired leaf maps), every nesting depth, every offset, every flag
combination: the circuit's matrix is flipped (`v`) and conjugate-transposed (`h`).
(`Cmp.inv … (.circ m items) = .circ m (items.inv … m)` by definition.) -/
theorem circuit_inv [CommRing R] [StarRing R] {I : R} (hI : ImagUnit I) (v h : Bool) (m : ℕ)
    (items : Its R) (hw : items.WF m) (hl : items.All Leaf.Real) :
    (items.inv true v h m).U I m = xform v h (items.U I m) :=
  its_inv hI v h m items hw hl

/-- the matrix of a circuit made of unitary leaves is unitary (C01, through the matrix reading) -/
theorem circuit_isUnitary [CommRing R] [StarRing R] {I : R} (hI : ImagUnit I) (m : ℕ)
    (items : Its R) (hw : items.WF m) (hl : items.All Leaf.Unitary) :
    IsUnitary (items.U I m) :=
  C01.prodItems_isUnitary m _ (Its.toC01_WF I m items hw) (Its.toC01_AllUnitary hI items hl)

/-- **Horizontal inversion yields the inverse matrix.** -/
theorem circuit_hinv [CommRing R] [StarRing R] {I : R} (hI : ImagUnit I) (m : ℕ)
    (items : Its R) (hw : items.WF m) (hl : items.All Leaf.Unitary) :
    (items.inv true false true m).U I m * items.U I m = 1 ∧
      items.U I m * (items.inv true false true m).U I m = 1 := by
  have hr : items.All Leaf.Real := Its.All.imp (fun _ h => h.real) items hl
  rw [circuit_inv hI false true m items hw hr]
  have hu := circuit_isUnitary hI m items hw hl
  exact ⟨hu.2, hu.1⟩

/-- **Vertical inversion yields the matrix with the mode order reversed on both sides.** -/
theorem circuit_vinv [CommRing R] [StarRing R] {I : R} (hI : ImagUnit I) (m : ℕ)
    (items : Its R) (hw : items.WF m) (hl : items.All Leaf.Real) :
    (items.inv true true false m).U I m = vflip (items.U I m) :=
  circuit_inv hI true false m items hw hl

/-! ### regression witnesses: the code as it was (`fixed = false`) -/

/-- `BS.Rx(θ, φ_tl, φ_bl, φ_tr, φ_br)` with `cos(θ/2) = 3/5` and four different phases -/
def exBS (conv : Conv) : BSP GQ :=
  { conv := conv, c := ⟨3/5, 0⟩, s := ⟨4/5, 0⟩,
    tl := ⟨3/5, 4/5⟩, bl := ⟨5/13, 12/13⟩, tr := ⟨8/17, 15/17⟩, br := ⟨7/25, 24/25⟩ }

theorem gq_imagUnit : ImagUnit GQ.I := ⟨GQ.I_mul_I, by decide⟩

theorem exBS_unit : ∀ conv, (exBS conv).Unit := by
  intro conv
  cases conv <;> refine ⟨⟨?_, ?_⟩, ?_, ?_, ?_, ?_, ?_⟩ <;> decide +kernel

/-- non-vacuity of `circuit_inv` / `circuit_hinv` / `circuit_vinv`: a 4-mode circuit holding a
`BS.Ry` with four different phases inside a sub-circuit at offset 1 inside a sub-circuit at offset 1,
a phase shifter and a 3-mode permutation (as `Unitary`) -/
def exTree : Its GQ :=
  .cons 1 (.circ 3 (.cons 1 (.circ 2 (.cons 0 (.leaf (.bs (exBS .Ry))) .nil))
            (.cons 0 (.leaf (.ps ⟨3/5, 4/5⟩)) .nil))) <|
  .cons 0 (.leaf (.un 3 (permMatL 3 [1, 2, 0]))) <|
  .cons 2 (.leaf (.bs (exBS .H))) .nil

example : exTree.WF 4 ∧ exTree.All Leaf.Unitary := by
  refine ⟨by simp [exTree, Its.WF, Cmp.WF, Cmp.size, Leaf.size], ?_⟩
  simp only [exTree, Its.All, Cmp.All, Leaf.Unitary, and_true]
  refine ⟨⟨exBS_unit _, by decide +kernel⟩, ?_, exBS_unit _⟩
  unfold IsUnitary
  decide +kernel

/-- old `BS.inverse(h=True)` only negates the phases: not the inverse, in any convention -/
theorem bs_hinv_fails_on_current_code :
    ∀ conv, bsMat GQ.I ((exBS conv).hInv false) * bsMat GQ.I (exBS conv) ≠ 1 := by
  intro conv; cases conv <;> decide +kernel

/-- old `BS.inverse(v=True)` leaves the phases where they are: not the flipped matrix -/
theorem bs_vinv_fails_on_current_code :
    ∀ conv, bsMat GQ.I ((exBS conv).vInv false) ≠ vflip (bsMat GQ.I (exBS conv)) := by
  intro conv; cases conv <;> decide +kernel

/-- old `BS.inverse(v=True, h=True)` on a `Ry` beam splitter is wrong even with all phases zero:
the `h` block negates the `θ` it read before the `v` block -/
theorem bs_vhinv_theta_fails_on_current_code :
    let p : BSP GQ := { conv := .Ry, c := ⟨3/5, 0⟩, s := ⟨4/5, 0⟩, tl := 1, bl := 1, tr := 1, br := 1 }
    bsMat GQ.I (p.inv false true true) ≠ xform true true (bsMat GQ.I p) := by
  decide +kernel

/-- what the old maps do satisfy (`bs_hinv_partial`): the old `h` map is right when left and
right phases agree, the old `v` map when top and bottom phases agree -/
theorem bs_hinv_partial [CommRing R] [StarRing R] {I : R} (hI : ImagUnit I) {p : BSP R}
    (hp : p.Real) (h1 : p.tl = p.tr) (h2 : p.bl = p.br) :
    bsMat I (p.hInv false) = (bsMat I p)ᴴ := by
  rw [← bsMat_hInv hI hp]
  obtain ⟨conv, c, s, tl, bl, tr, br⟩ := p
  simp only at h1 h2
  subst h1 h2
  cases conv <;> rfl

theorem bs_vinv_partial [CommRing R] (I : R) {p : BSP R} (h1 : p.tl = p.bl) (h2 : p.tr = p.br) :
    bsMat I (p.vInv false) = vflip (bsMat I p) := by
  rw [← bsMat_vInv I p]
  obtain ⟨conv, c, s, tl, bl, tr, br⟩ := p
  simp only at h1 h2
  subst h1 h2
  cases conv <;> rfl

/-! ### component objects held several times -/

/-- the repaired `Circuit.inverse` on shared references is the tree-level inverse of what the
references denote -/
theorem refs_inverse_fixed [Neg R] [Star R] (v h : Bool) (rc : RefCirc R)
    (hr : ∀ it ∈ rc.items, it.2 < rc.store.length) :
    (rc.invFixed true v h).deref = rc.deref.inv true v h := by
  have hl : ∀ it ∈ rc.items, (rc.invFixed true v h).store.getD it.2 (.barrier 0) =
      (rc.store.getD it.2 (.barrier 0)).inv true v h := fun it hit =>
    invFixed_store_getD true v h rc it.2 (hr it hit) (List.mem_map_of_mem hit)
  have e := build_invMap v h rc.m rc.store (rc.invFixed true v h).store rc.items hl
  simp only [RefCirc.deref, RefCirc.its, Cmp.inv]
  congr 1
  cases h
  · simpa [RefCirc.invFixed, RefCirc.invItems] using e.symm
  · simp only [if_true]
    rw [e, ← RefCirc.build_reverse]
    simp [RefCirc.invFixed, RefCirc.invItems]

def exShared : RefCirc GQ :=
  { m := 2
    store := [.bs { conv := .Rx, c := ⟨3/5, 0⟩, s := ⟨4/5, 0⟩, tl := 1, bl := 1, tr := 1, br := 1 }]
    items := [(0, 0), (0, 0)] }

example : ∀ it ∈ exShared.items, it.2 < exShared.store.length := by decide

/-- `b = BS.Rx(θ); c = Circuit(2) // b // b; c.inverse(h=True)` with the old code: `b` is inverted once
per occurrence, i.e. twice, i.e. not at all — the result is `U(b)⁴`, not the identity -/
theorem shared_inverse_fails_on_current_code : (exShared.invCurrent true false true).its.U GQ.I 2 * exShared.its.U GQ.I 2 ≠ 1 := by
  decide +kernel

/-- the same circuit with the repaired code -/
theorem shared_inverse_fixed_example : (exShared.invFixed true false true).its.U GQ.I 2 * exShared.its.U GQ.I 2 = 1 := by
  decide +kernel


/-! ## B. flattening, regrouping -/

/-- `Experiment.flatten(max_depth)` (repaired `_flatten`): the listed components, applied in order on
the listed modes, are the experiment's circuit — any nesting depth, any offsets, any `max_depth`. -/
theorem flatten_matrix [CommRing R] (I : R) (N : ℕ) (items : Its R) (hw : items.WF N)
    (depth : Option ℕ) :
    prodList I N (flattenExp true depth items) = items.U I N := by
  have := flattenIts_prod I N items hw N 0 depth (by omega)
  rw [embed_full] at this
  exact this

/-- a `PS(i)` on mode 1 of a 2-mode circuit, on mode 1 of a 3-mode circuit, on mode 1 of a 5-mode
experiment: the phase shifter sits on mode 3 -/
def exNested : Its GQ :=
  .cons 1 (.circ 3 (.cons 1 (.circ 2 (.cons 1 (.leaf (.ps GQ.I)) .nil)) .nil)) .nil

example : exNested.WF 5 := by simp [exNested, Its.WF, Cmp.WF, Cmp.size, Leaf.size]

/-- old `_flatten` passes `starting_mode = m_range[0]` to the recursive call: from the second nesting
level on the enclosing offset is lost (mode 2 instead of 3) -/
theorem flatten_fails_on_current_code :
    (flattenExp false none exNested).map (·.1) = [2] ∧
      (flattenExp true none exNested).map (·.1) = [3] ∧
      prodList GQ.I 5 (flattenExp false none exNested) ≠ exNested.U GQ.I 5 := by
  refine ⟨rfl, rfl, ?_⟩
  rw [← flatten_matrix GQ.I 5 exNested (by simp [exNested, Its.WF, Cmp.WF, Cmp.size, Leaf.size]) none]
  intro h
  have h2 := congrFun (congrFun h 2) 2
  simp [flattenExp, flattenIts, flattenCmp, exNested, prodList, Cmp.toC01, Leaf.mat, Leaf.size,
    embed_apply] at h2
  revert h2
  decide

/-- `non_unitary_circuit()`: the block `u[min_r:max_r, min_r:max_r]` of the product of components that
all lie inside `[min_r, max_r)` loses nothing — embedded back at `min_r` it is that product, and it is
the product of the components restricted to the block. -/
theorem regroup_matrix [CommRing R] (I : R) {N a k : ℕ} (hk : a + k ≤ N) (comps : List (ℕ × Cmp R))
    (hl : Within I a k comps) :
    Group.blockMat I N a k comps = prodList I k (shiftDown a comps) ∧
      embed N a (Group.blockMat I N a k comps) = prodList I N comps := by
  unfold Group.blockMat
  rw [prodList_embed I hk comps hl, block_embed hk]
  exact ⟨rfl, rfl⟩

example : Within GQ.I 1 3 [(2, Cmp.leaf (.bs (exBS .Rx))), (1, Cmp.leaf (.ps (1 : GQ)))] := by
  intro p hp
  simp only [List.mem_cons, List.not_mem_nil, or_false] at hp
  rcases hp with rfl | rfl <;> simp [Cmp.toC01, C01.Comp.size, Leaf.size]

/-- `non_unitary_circuit()`: the block it cuts out with its own `min_r` / `max_r`, embedded back at
`min_r`, is the product of the pending unitary components -/
theorem regroup_block [CommRing R] (I : R) (N : ℕ) (pending : List (ℕ × Cmp R))
    (hfit : ∀ p ∈ pending, p.1 + (p.2.toC01 I).size ≤ N) :
    embed N (pendingRange I N pending).1
        (Group.blockMat I N (pendingRange I N pending).1
          ((pendingRange I N pending).2 - (pendingRange I N pending).1) pending) =
      prodList I N pending := by
  have h2 : (pendingRange I N pending).2 ≤ N := pendingRange_le I N pending N 0 (Nat.zero_le _) hfit
  have h1 : (pendingRange I N pending).1 ≤ N := (pendingRange_foldl I pending N 0).1
  have hk : (pendingRange I N pending).1 +
      ((pendingRange I N pending).2 - (pendingRange I N pending).1) ≤ N := by omega
  unfold Group.blockMat
  rw [prodList_embed I hk pending (pendingRange_within I N pending), block_embed hk]


/-! ## C. permutations -/

/-- `invert_permutation` returns the inverse permutation: its matrix is the (conjugate) transpose. -/
theorem invert_permutation_spec [CommRing R] [StarRing R] {n : ℕ} {σ : List ℕ} (h : IsPermList n σ) :
    permMatL (R := R) n (invertPerm σ) = (permMatL n σ)ᴴ := by
  have e := vecMat_invertPerm (R := R) h
  ext i j
  have := congrFun (congrFun e j) i
  simp only [vecMat, permMatL] at this
  simp only [permMatL, conjTranspose_apply]
  rw [this]
  split <;> simp

example : IsPermList 3 [1, 2, 0] := by decide

/-- **`PERM.break_in_2_mode_perms`** (the bubble sort), for every permutation of every size: the
emitted two-mode swaps (`PERM([1, 0])` at first port `k`), multiplied in circuit order, are the
permutation's matrix, and every one of them is an adjacent swap inside the circuit. -/
theorem bubble_matrix [CommRing R] {n : ℕ} {σ : List ℕ} (h : IsPermList n σ) :
    prodSwaps (R := R) n (bubble σ) = permMatL n σ ∧ ∀ k ∈ bubble σ, k + 2 ≤ n := by
  obtain ⟨hs, hf⟩ := bubble_ok h
  refine ⟨?_, hs⟩
  have e := prodSwaps_mul_vecMat (R := R) n (bubble σ) (List.range n) (by simp) hs
  rw [vecMat_range, Matrix.mul_one] at e
  rw [e, ← vecMat_invertPerm h, ← hf]
  congr 1
  have := bubbleOuter_applySwaps σ (List.range σ.length) (List.range σ.length)
  rw [h.1] at this
  simp only [bubble, bubbleFinal, h.1]
  exact this.symm

example : IsPermList 4 [2, 0, 3, 1] := by decide

/-- `extend_perm`: the permutation on its own modes, the identity on the other modes. -/
theorem extend_perm_matrix [Zero R] [One R] {r0 m : ℕ} {σ : List ℕ}
    (hσ : IsPermList σ.length σ) (h : r0 + σ.length ≤ m) :
    permMatL (R := R) m (extendPerm r0 σ m) = embed m r0 (permMatL σ.length σ) :=
  extend_perm_matrix' hσ h

/-- `perm_compose`: on the common range `[0, max_r)` the result is "left, then right". -/
theorem perm_compose_matrix [CommRing R] {lr0 rr0 : ℕ} {lσ rσ : List ℕ}
    (hl : IsPermList lσ.length lσ) (hr : IsPermList rσ.length rσ) :
    (permCompose lr0 lσ rr0 rσ).1 = max (lr0 + lσ.length) (rr0 + rσ.length) ∧
    permMatL (R := R) (max (lr0 + lσ.length) (rr0 + rσ.length)) (permCompose lr0 lσ rr0 rσ).2 =
      embed (max (lr0 + lσ.length) (rr0 + rσ.length)) rr0 (permMatL rσ.length rσ) *
        embed (max (lr0 + lσ.length) (rr0 + rσ.length)) lr0 (permMatL lσ.length lσ) :=
  perm_compose_matrix' hl hr

/-- `reduce_perm`: trimming the fixed points at both ends does not change the matrix. -/
theorem reduce_perm_matrix [Zero R] [One R] {N n r0 : ℕ} {σ : List ℕ} (hσ : IsPermList n σ)
    (hn : 0 < n) (hN : r0 + n ≤ N) :
    embed N (reducePerm r0 σ).1
        (permMatL (R := R) (reducePerm r0 σ).2.length (reducePerm r0 σ).2) =
      embed N r0 (permMatL n σ) :=
  reduce_perm_matrix_aux hσ hn hN

/-! ## D. the simplifier

`listU ι m l` is the matrix of a component list (`Lemmas/C11Lists.lean`): permutations by their
permutation matrix, numeric phase shifters by `ι.e φ`, every other component by an arbitrary matrix
`ι.other id` of its width.  `Item.WF ι m` says the component fits into the `m` modes. -/

/-- **`_simplify_PS`** (walk-back through permutations and past components on other modes, fusion,
drop at multiples of `2π`, `display` flag) leaves the matrix unchanged. -/
theorem simplify_ps_sound {P : Type} [CommRing R] [PhaseAlg P] (ι : Interp P R)
    (hadd : ∀ a b : P, ι.e (PhaseAlg.add a b) = ι.e a * ι.e b)
    (hdrop : ∀ a : P, PhaseAlg.canDrop a = true → ι.e a = 1)
    (m : ℕ) (display wantDrop : Bool) (comps : List (Item P)) (r0 : ℕ) (φ : P)
    (hr : r0 < m) (hw : ∀ it ∈ comps, it.WF ι m) :
    listU ι m (simplifyPS m display wantDrop comps r0 φ) =
      listU ι m (comps ++ [⟨r0, 1, .ps φ⟩]) :=
  simplifyPS_sound ι hadd hdrop m display wantDrop comps r0 φ hr hw

/-- **`_simplify_perm`** leaves the matrix unchanged in every branch (single, successive,
non-successive), for both `display` modes and for *every* unravelling permutation satisfying the
decidable `validChoice` (the specification rejects an invalid one: the result is `none`). -/
theorem simplify_perm_sound {P : Type} [CommRing R] (ι : Interp P R) {m : ℕ} (hm : 0 < m)
    (fixedAdj display : Bool) (comps : List (Item P)) (r0 : ℕ) (σ : List ℕ)
    (choice : Option (List ℕ)) (l : List (Item P))
    (hw : ∀ it ∈ comps, it.WF ι m) (hσ : IsPermList σ.length σ) (h0 : 0 < σ.length)
    (hfit : r0 + σ.length ≤ m)
    (h : simplifyPerm fixedAdj m display comps r0 σ choice = some l) :
    listU ι m l = listU ι m (comps ++ [⟨r0, σ.length, .perm σ⟩]) :=
  simplify_perm_sound' ι hm fixedAdj display comps r0 σ choice l hw hσ h0 hfit h

/-- **one iteration of `simplify`** (append the component, run `_simplify_comp`) leaves the matrix
unchanged, whatever the rounding of the drop test and whatever valid choice of the heuristic.
That the heuristic `_generate_compatible_perm` always *produces* a valid choice is
`simplify_perm_choice_valid` (section H); `simplify_sound` there is the unconditional fold. -/
theorem simplify_step_sound {P : Type} [CommRing R] [PhaseAlg P] (ι : Interp P R)
    (hadd : ∀ a b : P, ι.e (PhaseAlg.add a b) = ι.e a * ι.e b)
    (hdrop : ∀ a : P, PhaseAlg.canDrop a = true → ι.e a = 1)
    {m : ℕ} (fixedAdj display wantDrop : Bool) (choice : Option (List ℕ))
    (comps : List (Item P)) (it : Item P) (l : List (Item P))
    (hw : ∀ x ∈ comps, x.WF ι m) (hit : it.WF ι m) (hpos : 0 < it.w)
    (h : simplifyStep fixedAdj m display wantDrop choice comps it = some l) :
    listU ι m l = listU ι m (comps ++ [it]) :=
  simplify_step_sound' ι hadd hdrop fixedAdj display wantDrop choice comps it l hw hit hpos h

/-- non-vacuity of the simplifier theorems: phases as elements of `GQ` (fusion = product, drop at 1);
a `BS`-like component between two non-adjacent permutations, unravelled by a valid choice -/
instance : PhaseAlg GQ where
  add := (· * ·)
  canDrop z := z == 1

def exInterp : Interp GQ GQ :=
  { e := id, var := fun _ => GQ.I, otherW := fun _ => 2, other := fun _ => bsMat GQ.I (exBS .Rx) }

def exComps : List (Item GQ) := [⟨0, 3, .perm [1, 2, 0]⟩, ⟨1, 2, .other 0⟩, ⟨0, 1, .ps GQ.I⟩]

example : (∀ a b : GQ, exInterp.e (PhaseAlg.add a b) = exInterp.e a * exInterp.e b) ∧
    (∀ a : GQ, PhaseAlg.canDrop a = true → exInterp.e a = 1) ∧
    (∀ it ∈ exComps, it.WF exInterp 3) ∧
    (simplifyPerm true 3 false exComps 0 [2, 0, 1] (some [1, 2, 0])).isSome = true ∧
    validChoice 3 (exComps.drop 1) [1, 2, 0] = true := by
  refine ⟨fun _ _ => rfl, ?_, ?_, by decide, by decide⟩
  · intro a h; simpa [PhaseAlg.canDrop, exInterp] using h
  · intro it hit
    simp only [exComps, List.mem_cons, List.not_mem_nil, or_false] at hit
    rcases hit with rfl | rfl | rfl <;> simp [Item.WF, exInterp] <;> decide

/-- two phase shifters on one mode fuse into the product phase (`PS(a) ; PS(b) = PS(a + b)`),
and a phase equal to one can be dropped -/
theorem ps_fuse [CommRing R] (z w : R) :
    (Matrix.of fun (_ _ : Fin 1) => w) * (Matrix.of fun (_ _ : Fin 1) => z) =
        (Matrix.of fun (_ _ : Fin 1) => z * w) ∧
      (Matrix.of fun (_ _ : Fin 1) => (1 : R)) = 1 := by
  constructor <;> ext i j <;>
    simp [Matrix.mul_apply, Matrix.one_apply, Subsingleton.elim i j, mul_comm]

/-! ## E. the whole loop of `simplify`

`simplifyRun fixedAdj m display steps acc` (`Lemmas/C11More.lean`) is the `for r, c in circuit` loop:
a plain fold of `simplifyStep` over `steps`, each holding the component appended, the floating-point
outcome of the drop test and the heuristic's unravelling permutation of that iteration; the run is
`none` as soon as an invalid permutation is offered. -/

/-- **well-formedness is preserved by one iteration**: from a component list that fits the `m` modes
and a new component that fits, every branch of `_simplify_comp` (phase-shifter walk-back, fusion and
drop; single, successive and non-successive `PERM` branches with any valid choice, `_move_comp`
included) returns a component list that fits the `m` modes. -/
theorem simplify_step_wf {P : Type} [PhaseAlg P] (ι : Interp P R) {m : ℕ}
    (fixedAdj display wantDrop : Bool) (choice : Option (List ℕ))
    (comps : List (Item P)) (it : Item P) (l : List (Item P))
    (hw : ∀ x ∈ comps, x.WF ι m) (hit : it.WF ι m) (hpos : 0 < it.w)
    (h : simplifyStep fixedAdj m display wantDrop choice comps it = some l) :
    ∀ x ∈ l, x.WF ι m :=
  simplifyStep_wf ι fixedAdj display wantDrop choice comps it l hw hit hpos h

/-- **`simplify` keeps the matrix of the circuit** — the fold theorem: for every input circuit
(components that fit the `m` modes, of positive width), every rounding outcome of every drop test and
every sequence of valid choices of the heuristic, in both `display` modes and with either version of
the adjacency bookkeeping: the simplified component list fits the `m` modes and its matrix is the
matrix of the input. -/
theorem simplify_fold_sound {P : Type} [CommRing R] [PhaseAlg P] (ι : Interp P R)
    (hadd : ∀ a b : P, ι.e (PhaseAlg.add a b) = ι.e a * ι.e b)
    (hdrop : ∀ a : P, PhaseAlg.canDrop a = true → ι.e a = 1)
    {m : ℕ} (fixedAdj display : Bool) (steps : List (Iter P)) (l : List (Item P))
    (hs : ∀ s ∈ steps, s.it.WF ι m ∧ 0 < s.it.w)
    (h : simplifyRun fixedAdj m display steps [] = some l) :
    (∀ x ∈ l, x.WF ι m) ∧ listU ι m l = listU ι m (steps.map (·.it)) := by
  have := simplifyRun_sound ι hadd hdrop fixedAdj display steps [] l hs (by simp) h
  simpa using this

/-- the loop is defined (never stops on a malformed state) as long as no invalid unravelling
permutation is offered; in particular with the unravelling switched off it is defined on EVERY input
— so `simplify_fold_sound` is not vacuous for any circuit. -/
theorem simplify_fold_defined {P : Type} [PhaseAlg P] (fixedAdj : Bool) (m : ℕ) (display : Bool)
    (steps : List (Iter P)) (hs : ∀ s ∈ steps, s.choice = none) :
    (simplifyRun fixedAdj m display steps []).isSome = true :=
  simplifyRun_keep_isSome fixedAdj m display steps [] hs

/-- one iteration is defined whenever the choice offered (if any) is valid for the in-between
components -/
theorem simplify_step_defined {P : Type} [PhaseAlg P] (fixedAdj : Bool) (m : ℕ)
    (display wantDrop : Bool) (choice : Option (List ℕ)) (comps : List (Item P)) (it : Item P)
    (hch : ∀ ρ, choice = some ρ → ∀ i, lastPermIdx comps = some i →
      validChoice m (comps.drop (i + 1)) ρ = true) :
    (simplifyStep fixedAdj m display wantDrop choice comps it).isSome = true :=
  simplifyStep_isSome fixedAdj m display wantDrop choice comps it hch

/-- non-vacuity of `simplify_fold_sound` with a real unravelling: `PERM([1,2,0]) ; other on (1,2) ;
PS on 0 ; PERM([2,0,1])`, the last iteration unravelled with the valid choice `[1,2,0]` -/
def exSteps : List (Iter GQ) :=
  [⟨⟨0, 3, .perm [1, 2, 0]⟩, false, none⟩, ⟨⟨1, 2, .other 0⟩, false, none⟩,
   ⟨⟨0, 1, .ps GQ.I⟩, false, none⟩, ⟨⟨0, 3, .perm [2, 0, 1]⟩, false, some [1, 2, 0]⟩]

example : (∀ s ∈ exSteps, s.it.WF exInterp 3 ∧ 0 < s.it.w) ∧
    (simplifyRun true 3 false exSteps []).isSome = true := by
  refine ⟨?_, by decide +kernel⟩
  intro s hs
  simp only [exSteps, List.mem_cons, List.not_mem_nil, or_false] at hs
  rcases hs with rfl | rfl | rfl | rfl <;> simp [Item.WF, exInterp] <;> decide

/-! ## F. `copy`

Original and copy live in one heap of leaf objects (`Lemmas/C11Copy.lean`): `rc.copy` is the circuit
`Circuit.copy()` returns — one fresh object per occurrence, appended to the heap. -/

/-- **`Circuit.copy()` denotes the same circuit**: the same component list, hence the same matrix;
every object it holds is fresh (allocated by the copy) and none is held twice. -/
theorem copy_matrix [CommRing R] (I : R) (rc : RefCirc R) :
    rc.copy.its = rc.its ∧ rc.copy.U I = rc.U I ∧
      (∀ it ∈ rc.copy.items, rc.store.length ≤ it.2 ∧ it.2 < rc.copy.store.length) ∧
      (rc.copy.items.map Prod.snd).Nodup := by
  have e : rc.copy.its = rc.its :=
    copy_build_frame rc.store rc.items _ (fun _ _ _ => rfl)
  refine ⟨e, ?_, copyItems_fresh rc.store rc.items, copyItems_nodup rc.store rc.items⟩
  show rc.copy.its.U I rc.m = rc.its.U I rc.m
  rw [e]

/-- **copy and original are independent**: whatever happens afterwards to the objects of the copy
(any heap `st'` that still holds the original's objects) the original denotes the same circuit, and
whatever happens to the objects of the original the copy denotes the same circuit. -/
theorem copy_independent (rc : RefCirc R) (hr : ∀ it ∈ rc.items, it.2 < rc.store.length)
    (st' : List (Leaf R)) :
    ((∀ j, j < rc.store.length → st'.getD j (.barrier 0) = rc.store.getD j (.barrier 0)) →
        (rc.withStore st').its = rc.its) ∧
      ((∀ j, rc.store.length ≤ j → j < rc.copy.store.length →
          st'.getD j (.barrier 0) = rc.copy.store.getD j (.barrier 0)) →
        (rc.copy.withStore st').its = rc.its) :=
  ⟨fun h => orig_build_frame rc.store rc.items st' hr h,
   fun h => copy_build_frame rc.store rc.items st' h⟩

/-- mutating one object of the copy in place (`copy._components[k][1].param(...).set_value(...)`,
modelled as an arbitrary update `f` of the object at any heap address `j` the copy owns) does not
change the original; mutating an object of the original does not change the copy -/
theorem copy_mutation (rc : RefCirc R) (hr : ∀ it ∈ rc.items, it.2 < rc.store.length)
    (j : ℕ) (f : Leaf R → Leaf R) :
    (rc.store.length ≤ j → (rc.withStore (rc.copy.store.modify j f)).its = rc.its) ∧
      (j < rc.store.length → (rc.copy.withStore (rc.copy.store.modify j f)).its = rc.its) := by
  constructor
  · intro hj
    refine (copy_independent rc hr _).1 (fun k hk => ?_)
    rw [modify_getD_ne _ _ _ _ _ (by omega)]
    exact copyItems_store_old rc.store rc.items k hk _
  · intro hj
    refine (copy_independent rc hr _).2 (fun k hk _ => ?_)
    exact modify_getD_ne _ _ _ _ _ (by omega)

/-- `cp = c.copy(); cp.inverse(v, h)` (repaired in-place inverse): the copy is inverted, the original
still denotes the same circuit; and the other way round. -/
theorem copy_then_inverse [Neg R] [Star R] (v h : Bool) (rc : RefCirc R)
    (hr : ∀ it ∈ rc.items, it.2 < rc.store.length) :
    (rc.copy.invFixed true v h).deref = rc.deref.inv true v h ∧
      (rc.withStore (rc.copy.invFixed true v h).store).its = rc.its ∧
      (rc.copy.withStore ((rc.withStore rc.copy.store).invFixed true v h).store).its = rc.its := by
  refine ⟨?_, ?_, ?_⟩
  · rw [refs_inverse_fixed v h rc.copy (fun it hit => (copyItems_fresh rc.store rc.items it hit).2)]
    have e : rc.copy.its = rc.its := copy_build_frame rc.store rc.items _ (fun _ _ _ => rfl)
    simp only [RefCirc.deref, e]
    rfl
  · refine (copy_independent rc hr _).1 (fun k hk => ?_)
    rw [invFixed_store_other true v h rc.copy k ?_ _]
    · exact copyItems_store_old rc.store rc.items k hk _
    · intro hmem
      obtain ⟨it, hit, rfl⟩ := List.mem_map.1 hmem
      have := (copyItems_fresh rc.store rc.items it hit).1
      omega
  · refine (copy_independent rc hr _).2 (fun k hk _ => ?_)
    refine invFixed_store_other true v h (rc.withStore rc.copy.store) k ?_ _
    intro hmem
    obtain ⟨it, hit, rfl⟩ := List.mem_map.1 hmem
    have := hr it hit
    omega

/-- non-vacuity: the circuit `Circuit(2) // b // b` holding one object twice; its copy holds two fresh
objects (addresses 1 and 2) -/
example : (∀ it ∈ exShared.items, it.2 < exShared.store.length) ∧
    exShared.copy.items = [(0, 1), (0, 2)] ∧ exShared.copy.store.length = 3 := by decide

/-! ## G. the adjacency bookkeeping and the heuristic's choice

`adjOf true m inComps` is the list of groups of dependent modes `_simplify_perm` computes with the
repaired `_update_adjacent` and hands to `_generate_compatible_perm` (`Lemmas/C11Adj.lean`). -/

/-- **repaired `_update_adjacent`**: after the bookkeeping loop every in-between component lies inside
ONE group of dependent modes (any components: overlapping, nested, any order). -/
theorem update_adjacent_groups {P : Type} (m : ℕ) (inComps : List (Item P)) :
    ∀ it ∈ inComps, ∃ g ∈ adjOf true m inComps, ∀ j < it.w, it.r0 + j ∈ g :=
  adjOf_covered m inComps

/-- the old `_update_adjacent` loses modes: after the components on modes (1,2) and (0,1) of a 4-mode
circuit, mode 2 is in no group at all (the regression witness of `fixes/C10-simplify-adjacent.diff`) -/
theorem update_adjacent_fails_on_old_code :
    let inComps : List (Item Unit) := [⟨1, 2, .other 0⟩, ⟨0, 2, .other 1⟩]
    adjOf false 4 inComps = [[0, 1], [3]] ∧ ¬ Covered (adjOf false 4 inComps) 1 2 ∧
      Covered (adjOf true 4 inComps) 1 2 := by
  decide

/-- **sufficient condition for a valid choice**: a permutation of the `m` modes whose inverse sends
consecutive modes of a same group (of the repaired bookkeeping) to consecutive places is a valid
unravelling permutation. -/
theorem valid_choice_of_groups {P : Type} {m : ℕ} (inComps : List (Item P)) (ρ : List ℕ)
    (hlen : ρ.length = m) (hperm : isPerm ρ = true)
    (hadj : KeepsGroups m (adjOf true m inComps) ρ) :
    validChoice m inComps ρ = true :=
  validChoice_of_groups inComps ρ hlen hperm hadj

/-- **what `_update_perm` does, as a sufficient condition**: a permutation of the `m` modes in which
every group of dependent modes is written as a sorted block into consecutive slots
(`perm[slice_min:slice_max] = modes`) is a valid unravelling permutation. -/
theorem valid_choice_of_blocks {P : Type} {m : ℕ} (inComps : List (Item P)) (ρ : List ℕ)
    (hρ : IsPermList m ρ) (hb : ∀ g ∈ adjOf true m inComps, BlockPlaced ρ g) :
    validChoice m inComps ρ = true := by
  refine validChoice_of_groups inComps ρ hρ.1 ?_ (keepsGroups_of_blocks hρ hb)
  simp only [isPerm, List.all_eq_true, List.mem_range, List.contains_iff_mem]
  intro j hj
  exact isPermList_mem hρ (by rw [← hρ.1]; exact hj)

/-- non-vacuity: in `[1,2,0]` the group `{1,2}` is written from slot 0, the group `{0}` at slot 2 -/
example : IsPermList 3 [1, 2, 0] ∧
    ∀ g ∈ adjOf true 3 (exComps.drop 1), BlockPlaced [1, 2, 0] g := by
  refine ⟨by decide, ?_⟩
  have e : adjOf true 3 (exComps.drop 1) = [[0, 0], [1, 2, 1, 2]] := by decide
  rw [e]
  intro g hg
  simp only [List.mem_cons, List.not_mem_nil, or_false] at hg
  rcases hg with rfl | rfl
  · exact ⟨2, [0], by decide, by decide, by decide, by decide⟩
  · exact ⟨0, [1, 2], by decide, by decide, by decide, by decide⟩

/-- FULL STATEMENT WANTED (`simplify_perm_choice_valid`): for every component list, the
`left_right_perm` returned by `_generate_compatible_perm(invert_permutation(previous_c_list),
adjacent_modes)` satisfies `validChoice`.
PROVED (`…_partial`): with the repaired bookkeeping, `_simplify_perm` accepts every permutation of the
modes that keeps the consecutive modes of each group on consecutive places, and (by
`simplify_perm_sound`, `simplify_step_wf`) the result then has the same matrix and fits the circuit.
NO LONGER MISSING: that the heuristic's output has this property is `simplify_perm_choice_valid`
(section H: `_generate_compatible_perm` / `_update_perm` / `_search_empty_space` are modelled exactly and
their output is a permutation in which every group sits as a sorted block); this theorem is kept as the
bridge from `KeepsGroups` to the result of `_simplify_perm`. -/
theorem simplify_perm_choice_valid_partial {P : Type} [CommRing R] (ι : Interp P R) {m : ℕ}
    (hm : 0 < m) (display : Bool) (comps : List (Item P)) (r0 : ℕ) (σ ρ : List ℕ)
    (hw : ∀ it ∈ comps, it.WF ι m) (hσ : IsPermList σ.length σ) (h0 : 0 < σ.length)
    (hfit : r0 + σ.length ≤ m) (hlen : ρ.length = m) (hperm : isPerm ρ = true)
    (hadj : ∀ i, lastPermIdx comps = some i →
      KeepsGroups m (adjOf true m (comps.drop (i + 1))) ρ) :
    ∃ l, simplifyPerm true m display comps r0 σ (some ρ) = some l ∧
      (∀ x ∈ l, x.WF ι m) ∧
      listU ι m l = listU ι m (comps ++ [⟨r0, σ.length, .perm σ⟩]) := by
  have hsome := simplifyPerm_isSome_of_groups m display comps r0 σ ρ hlen hperm hadj
  obtain ⟨l, hl⟩ := Option.isSome_iff_exists.1 hsome
  exact ⟨l, hl, simplifyPerm_wf ι hm true display comps r0 σ (some ρ) l hw hσ h0 hfit hl,
    simplify_perm_sound' ι hm true display comps r0 σ (some ρ) l hw hσ h0 hfit hl⟩

/-- non-vacuity: the choice `[1,2,0]` of the example keeps the groups `{0}`, `{1,2}` -/
example : ([1, 2, 0] : List ℕ).length = 3 ∧ isPerm [1, 2, 0] = true ∧
    (∀ i, lastPermIdx exComps = some i →
      KeepsGroups 3 (adjOf true 3 (exComps.drop (i + 1))) [1, 2, 0]) := by
  refine ⟨rfl, by decide, ?_⟩
  intro i hi
  have : i = 0 := by
    have h0 : lastPermIdx exComps = some 0 := by decide
    rw [h0] at hi; exact (Option.some.inj hi).symm
  subst this
  decide

/-! ## H. the heuristic itself: `_search_empty_space`, `_update_perm`, `_generate_compatible_perm`

`Model/C11Heur.lean` models the three functions statement by statement (`reverse` as a list of
`Option Nat`, `none` for `-1`; the `while` loop of `_update_perm` with fuel `len(perm) + 1`), the exact
sorted `adjacent_modes` (`adjExact`), and the deterministic simplifier obtained by feeding the
heuristic's `left_right_perm` (`heurChoice`) into `_simplify_perm` (`simplifyPermDet`,
`simplifyStepDet`, `simplifyDet`).  `Placed perm g`: the list `g` stands in consecutive slots of
`perm`. -/

/-- **`_update_perm(perm, init, modes)`**: on a list of `m` slots of which `C ≥ len(modes) ≥ 1` are
free (`-1`), for every start position `init < m`: the `while` loop ends (the model's fuel
`len(perm) + 1` is never exhausted), the modes are written as ONE block of consecutive slots, every
block written by an earlier call is still a block (the slice shifts move whole blocks), and exactly
`len(modes)` fewer slots are free. -/
theorem update_perm_block {m C : ℕ} {placed : List (List ℕ)} {perm : Slots} {init : ℕ}
    {modes : List ℕ} (hlen : perm.length = m) (hcnt : perm.count none = C)
    (hbl : ∀ g ∈ placed, Placed perm g) (hinit : init < m) (hk1 : 1 ≤ modes.length)
    (hkC : modes.length ≤ C) :
    ∃ p', updatePerm perm init modes = some p' ∧ p'.length = m ∧
      p'.count none + modes.length = C ∧ ∀ g ∈ modes :: placed, Placed p' g :=
  updatePerm_spec hlen hcnt hbl hinit hk1 hkC

/-- non-vacuity, with a shift: `[-1, 0, 3, -1]`, the two-mode group `[1, 2]` wanted at slot 1: one
free slot is found, the blocks `[0]` and `[3]` are shifted, the result is `[1, 2, 0, 3]` -/
example : ([none, some 0, some 3, none] : Slots).length = 4 ∧
    ([none, some 0, some 3, none] : Slots).count none = 2 ∧
    (∀ g ∈ [[0], [3]], Placed [none, some 0, some 3, none] g) ∧
    updatePerm [none, some 0, some 3, none] 1 [1, 2] = some [some 1, some 2, some 0, some 3] := by
  refine ⟨rfl, by decide, ?_, by decide⟩
  intro g hg
  simp only [List.mem_cons, List.not_mem_nil, or_false] at hg
  rcases hg with rfl | rfl
  · exact ⟨1, by decide⟩
  · exact ⟨2, by decide⟩

/-- **`_generate_compatible_perm(perm_list, adjacent_modes)`** on the groups of dependent modes of ANY
in-between components (positive widths, inside the `m` modes; overlapping, nested, in any order) and
any permutation `perm_list` of the modes: it returns (no slot is left at `-1`, no loop runs out), its
first result `left_right_perm` is a permutation of the `m` modes, and every group of the repaired
adjacency bookkeeping stands in it as a sorted block of consecutive slots. -/
theorem generate_compatible_perm_blocks {P : Type} {m : ℕ} (hm : 0 < m) {permList : List ℕ}
    (hpl : IsPermList m permList) (inComps : List (Item P))
    (hw : ∀ it ∈ inComps, 0 < it.w ∧ it.r0 + it.w ≤ m) :
    ∃ ρ, genCompatiblePerm permList (adjExact m inComps) = some ρ ∧ IsPermList m ρ ∧
      ∀ g ∈ adjOf true m inComps, BlockPlaced ρ g :=
  heur_blocks hm hpl inComps hw

example : IsPermList 4 [2, 0, 1, 3] ∧
    (∀ it ∈ ([⟨1, 2, .other 0⟩] : List (Item Unit)), 0 < it.w ∧ it.r0 + it.w ≤ 4) ∧
    genCompatiblePerm [2, 0, 1, 3] (adjExact 4 ([⟨1, 2, .other 0⟩] : List (Item Unit))) =
      some [1, 2, 0, 3] := by
  refine ⟨by decide, by decide, by decide⟩

/-- **`simplify_perm_choice_valid`** (the statement `simplify_perm_choice_valid_partial` left open):
for every well-formed component list whose last permutation is at index `i`, the `left_right_perm`
computed by `_simplify_perm` — `_generate_compatible_perm(invert_permutation(previous_c_list),
adjacent_modes)[0]` — exists, is a permutation of the modes, places every group as a block and
satisfies `validChoice` for the in-between components. -/
theorem simplify_perm_choice_valid {P : Type} (ι : Interp P R) {m : ℕ} (hm : 0 < m)
    (comps : List (Item P)) (hw : ∀ it ∈ comps, it.WF ι m) (hpos : ∀ it ∈ comps, 0 < it.w)
    {i : ℕ} (hli : lastPermIdx comps = some i) :
    ∃ ρ, heurChoice m comps = some ρ ∧ IsPermList m ρ ∧
      (∀ g ∈ adjOf true m (comps.drop (i + 1)), BlockPlaced ρ g) ∧
      validChoice m (comps.drop (i + 1)) ρ = true :=
  heurChoice_valid ι hm comps hw hpos hli

example : (∀ it ∈ exComps, it.WF exInterp 3) ∧ (∀ it ∈ exComps, 0 < it.w) ∧
    lastPermIdx exComps = some 0 ∧ heurChoice 3 exComps = some [1, 2, 0] := by
  refine ⟨?_, by decide, by decide, by decide +kernel⟩
  intro it hit
  simp only [exComps, List.mem_cons, List.not_mem_nil, or_false] at hit
  rcases hit with rfl | rfl | rfl <;> simp [Item.WF, exInterp] <;> decide

/-- **`_simplify_perm` with the real heuristic** (all three branches, both `display` modes): it
returns, the result fits the circuit, every component keeps a positive width, and the matrix is the
matrix of the input followed by the new permutation — no hypothesis on the heuristic left. -/
theorem simplify_perm_det_sound {P : Type} [CommRing R] (ι : Interp P R) {m : ℕ} (display : Bool)
    (comps : List (Item P)) (r0 : ℕ) (σ : List ℕ) (hw : ∀ it ∈ comps, it.WF ι m)
    (hpos : ∀ it ∈ comps, 0 < it.w) (hσ : IsPermList σ.length σ) (h0 : 0 < σ.length)
    (hfit : r0 + σ.length ≤ m) :
    ∃ l, simplifyPermDet m display comps r0 σ = some l ∧ (∀ x ∈ l, x.WF ι m) ∧
      (∀ x ∈ l, 0 < x.w) ∧ listU ι m l = listU ι m (comps ++ [⟨r0, σ.length, .perm σ⟩]) :=
  simplifyPermDet_sound ι display comps r0 σ hw hpos hσ h0 hfit

/-- **`simplify` preserves the matrix — unconditionally.**  `simplifyDet m display steps []` is the
loop `for r, c in circuit` with the real heuristic at every non-successive permutation; the only
input besides the circuit is the floating-point outcome of each drop test of `_simplify_PS`
(`steps[k].2`).  For every circuit (components of positive width that fit the `m` modes), every
sequence of rounding outcomes and both `display` modes: the loop returns a component list that fits
the `m` modes and has the matrix of the input circuit. -/
theorem simplify_sound {P : Type} [CommRing R] [PhaseAlg P] (ι : Interp P R)
    (hadd : ∀ a b : P, ι.e (PhaseAlg.add a b) = ι.e a * ι.e b)
    (hdrop : ∀ a : P, PhaseAlg.canDrop a = true → ι.e a = 1)
    {m : ℕ} (display : Bool) (steps : List (Item P × Bool))
    (hs : ∀ s ∈ steps, s.1.WF ι m ∧ 0 < s.1.w) :
    ∃ l, simplifyDet m display steps [] = some l ∧ (∀ x ∈ l, x.WF ι m) ∧
      listU ι m l = listU ι m (steps.map (·.1)) := by
  obtain ⟨l, h1, h2, _, h4⟩ := simplifyDet_sound ι hadd hdrop display steps [] hs (by simp)
    (fun x hx => by simp at hx)
  exact ⟨l, h1, h2, by simpa using h4⟩

/-- non-vacuity: the circuit of `exSteps` is unravelled by the real heuristic (its choice is
`[1, 2, 0]`): two components are left -/
example : (∀ s ∈ exSteps.map (fun s => (s.it, s.wantDrop)), s.1.WF exInterp 3 ∧ 0 < s.1.w) ∧
    (simplifyDet 3 false (exSteps.map fun s => (s.it, s.wantDrop)) []).map List.length = some 2 := by
  refine ⟨?_, by decide +kernel⟩
  intro s hs
  simp only [exSteps, List.map_cons, List.map_nil, List.mem_cons, List.not_mem_nil, or_false] at hs
  rcases hs with rfl | rfl | rfl | rfl <;> simp [Item.WF, exInterp] <;> decide

/-! ## I. regrouping as a whole: `non_unitary_circuit()` / `unitary_circuit()` on lists with
non-unitary components

`regroup I N es pending` is the loop of `non_unitary_circuit()` over the flattened list `es`
(`Entry.uni`: an `ACircuit`, `Entry.non`: loss channel, time delay, …).  `ungroup` replaces every
block by the components it was computed from; `denE` is the denotation of a flattened list (every
maximal run of unitary components: the ordered product of their embedded matrices; non-unitary
components: themselves), `Group.den` the denotation of a block (`Unitary(u[min_r:max_r, …])` embedded at
`min_r`) — `Lemmas/C11Regroup.lean`. -/

/-- **nothing is lost, duplicated or reordered** by the regrouping: un-grouping the output gives back
the flattened list, for every list (any mixture of unitary and non-unitary components). -/
theorem regroup_ungroup [CommRing R] (I : R) (N : ℕ) (es : List (ℕ × Entry R)) :
    ungroup (regroup I N es []) = es := by
  simpa using regroup_ungroup' I N es []

/-- **block boundaries are exactly at the non-unitary components**: the output never holds two
consecutive blocks (a block is a MAXIMAL run of unitary components — together with `regroup_ungroup`:
the runs between consecutive non-unitary components), every block holds at least one component and
is placed on `range(min_r, max_r)` of its own components. -/
theorem regroup_boundaries [CommRing R] (I : R) (N : ℕ) (es : List (ℕ × Entry R)) :
    NoAdjBlocks (regroup I N es []) ∧ ∀ g ∈ regroup I N es [], g.BlockOK I N :=
  ⟨regroup_noAdj' I N es [], regroup_blockOK' I N es []⟩

/-- **the regrouped list denotes what the flattened list denotes** (all lists whose unitary components
fit the `N` modes): block after block the matrix handed to `Unitary(...)`, put back on its range, is the
ordered product of the unitary components of that run; the non-unitary components stand between the
blocks exactly where they stood between the runs. -/
theorem regroup_denotation [CommRing R] (I : R) (N : ℕ) (es : List (ℕ × Entry R))
    (hfit : EntriesFit I N es) :
    (regroup I N es []).map (Group.den I N) = denE I N es none :=
  regroup_den' I N es [] hfit (by simp)

/-- a loss channel between two beam splitters, a phase shifter after the second one -/
def exEntries : List (ℕ × Entry GQ) :=
  [(0, .uni (.leaf (.bs (exBS .Rx)))), (1, .non 7 1), (1, .uni (.leaf (.bs (exBS .H)))),
   (2, .uni (.leaf (.ps GQ.I)))]

example : EntriesFit GQ.I 3 exEntries ∧ (regroup GQ.I 3 exEntries []).map Group.isBlock = [true, false, true] := by
  refine ⟨?_, rfl⟩
  intro e he
  simp only [exEntries, List.mem_cons, List.not_mem_nil, or_false] at he
  rcases he with rfl | rfl | rfl | rfl <;> simp [Cmp.toC01, C01.Comp.size, Leaf.size]

/-- **`unitary_circuit()`** (defined — no `RuntimeError` — exactly when no non-unitary component was
added): the regrouping of an all-unitary non-empty list is ONE block, and that block put back on its
range is the matrix of the unitary circuit. -/
theorem unitary_circuit_block [CommRing R] (I : R) (N : ℕ) (es : List (ℕ × Entry R))
    (comps : List (ℕ × Cmp R)) (h : unitaryCircuit es = some comps) (hne : comps ≠ [])
    (hfit : ∀ p ∈ comps, p.1 + (p.2.toC01 I).size ≤ N) :
    ∃ r0 w, regroup I N es [] = [.blockOf r0 w comps] ∧
      embed N r0 (Group.blockMat I N r0 w comps) = prodList I N comps := by
  rw [unitaryCircuit_eq_some h, regroup_all_uni I N comps []]
  refine ⟨_, _, ?_, block_embed_pending I N comps hfit⟩
  unfold flush
  cases comps with
  | nil => exact absurd rfl hne
  | cons a b => rfl

example : unitaryCircuit ([(0, .uni (.leaf (.bs (exBS .Rx)))), (1, .uni (.leaf (.ps GQ.I)))] :
      List (ℕ × Entry GQ)) = some [(0, .leaf (.bs (exBS .Rx))), (1, .leaf (.ps GQ.I))] ∧
    unitaryCircuit exEntries = none := ⟨rfl, rfl⟩

/-! ## J. `copy()` of nested circuits with object identity

`Model/C11Deep.lean`: every node of a circuit tree — leaf component or nested `Circuit` — carries the
identity of the Python object it is; `t.copy next` is what `Circuit.copy()` / `Experiment.copy()` builds
(a new object for EVERY occurrence of every component, nested circuits stay nested), numbering the new
objects from `next`. -/

/-- **a deep copy denotes the same circuit**: at every nesting depth, with any sharing of leaf or
sub-circuit objects in the original, the copy is the same tree of components on the same modes — hence
has the same matrix. -/
theorem deep_copy_matrix [CommRing R] (I : R) (next : ℕ) (t : OCmp R) :
    (t.copy next).1.erase = t.erase ∧
      (t.copy next).1.erase.toC01 I = t.erase.toC01 I := by
  have := OCmp.copy_erase next t
  exact ⟨this, by rw [this]⟩

/-- **the copy consists of fresh, pairwise distinct objects**: one new object per occurrence (the
identities `next, next+1, …` in iteration order), so no object of the copy is an object of the
original (whose identities are below `next`), and an object the original held twice — leaf or
sub-circuit — is two objects in the copy. -/
theorem deep_copy_fresh (next : ℕ) (t : OCmp R) :
    (t.copy next).1.ids = List.range' next t.count ∧ (t.copy next).1.ids.Nodup ∧
      ∀ a ∈ (t.copy next).1.ids, next ≤ a := by
  obtain ⟨_, h⟩ := OCmp.copy_ids next t
  refine ⟨h, by rw [h]; exact List.nodup_range' .., ?_⟩
  intro a ha
  rw [h, List.mem_range'_1] at ha
  exact ha.1

/-- **copy and original are independent**: an in-place change of any leaf object of the copy (at any
depth: `set_value` on a parameter, `inverse`, …) leaves the original as it was, and an in-place change
of any object of the original leaves the copy as it was. -/
theorem deep_copy_independent (next : ℕ) (t : OCmp R) (hn : ∀ a ∈ t.ids, a < next)
    (a : ℕ) (f : Leaf R → Leaf R) :
    (a ∈ (t.copy next).1.ids → t.mutate a f = t) ∧
      (a ∈ t.ids → (t.copy next).1.mutate a f = (t.copy next).1) := by
  obtain ⟨_, _, hge⟩ := deep_copy_fresh next t
  constructor
  · intro ha
    exact OCmp.mutate_fresh a f t (fun h => by have := hn a h; have := hge a ha; omega)
  · intro ha
    exact OCmp.mutate_fresh a f _ (fun h => by have := hn a ha; have := hge a h; omega)

/-- a 3-mode circuit (object 0) holding the sub-circuit object 1 twice (at modes 0 and 1), the
sub-circuit holding the beam splitter object 2 and the phase shifter object 3; its copy is made of the
seven new objects 4 … 10 -/
def exDeep : OCmp GQ :=
  .circ 0 3 (.cons 0 (.circ 1 2 (.cons 0 (.leaf 2 (.bs (exBS .Rx))) (.cons 1 (.leaf 3 (.ps GQ.I)) .nil)))
    (.cons 1 (.circ 1 2 (.cons 0 (.leaf 2 (.bs (exBS .Rx))) (.cons 1 (.leaf 3 (.ps GQ.I)) .nil))) .nil))

example : (∀ a ∈ exDeep.ids, a < 4) ∧ exDeep.ids = [0, 1, 2, 3, 1, 2, 3] ∧
    (exDeep.copy 4).1.ids = [4, 5, 6, 7, 8, 9, 10] := by decide

/-! ## K. histories: transformation A, then transformation B, … on one circuit object

`Model/C11Chain.lean`: a history is a list of steps `inverse(v, h)` (in place) / `copy()` (work goes on with the
copy) / `flatten(max_depth)` (work goes on with the flattened list); `chain m steps items` is the component
list the last step leaves, `law steps` the composition of the advertised effects of the steps.  The theorems of
parts A, B and J speak of ONE transformation of a circuit as built; these say that the law of every step still
holds on what any earlier history left — whatever the order and number of the steps. -/

/-- every step keeps what the laws need: admissible ranges, beam-splitter parameters from real angles -/
theorem step_invariant [CommRing R] [StarRing R] (m : ℕ) (s : Step) (items : Its R)
    (hw : items.WF m) (hl : items.All Leaf.Real) :
    (s.apply m items).WF m ∧ (s.apply m items).All Leaf.Real := by
  cases s with
  | inv v h => exact ⟨Its.WF_inv true v h m items hw, Its.Real_inv v h m items hl⟩
  | copy => exact ⟨hw, hl⟩
  | flat d =>
    exact Its.ofList_WF _ (flattenIts_ok m items hw hl m 0 d (by omega))

/-- the law of one step, on any admissible circuit -/
theorem step_matrix [CommRing R] [StarRing R] {I : R} (hI : ImagUnit I) (m : ℕ) (s : Step)
    (items : Its R) (hw : items.WF m) (hl : items.All Leaf.Real) :
    (s.apply m items).U I m = s.law (items.U I m) := by
  cases s with
  | inv v h => exact circuit_inv hI v h m items hw hl
  | copy => rfl
  | flat d =>
    show (Its.ofList (flattenExp true d items)).U I m = items.U I m
    rw [Its.U_ofList, flatten_matrix I m items hw d]

/-- **a whole history has the composition of the laws of its steps**: any number of inversions (any flags),
copies and flattenings in any order — e.g. `c.inverse(h=True); d = c.copy()` gives `d` the inverse matrix,
`c.inverse(v=True); c.inverse(v=True, h=True)` the conjugate transpose. -/
theorem chain_matrix [CommRing R] [StarRing R] {I : R} (hI : ImagUnit I) (m : ℕ) (steps : List Step)
    (items : Its R) (hw : items.WF m) (hl : items.All Leaf.Real) :
    (chain m steps items).U I m = law steps (items.U I m) := by
  induction steps generalizing items with
  | nil => rfl
  | cons s rest ih =>
    obtain ⟨h1, h2⟩ := step_invariant m s items hw hl
    have e := ih (s.apply m items) h1 h2
    simp only [chain, law, List.foldl_cons] at e ⊢
    rw [e, step_matrix hI m s items hw hl]

/-- the invariants hold after every history (so a further step can always be applied) -/
theorem chain_invariant [CommRing R] [StarRing R] (m : ℕ) (steps : List Step) (items : Its R)
    (hw : items.WF m) (hl : items.All Leaf.Real) :
    (chain m steps items).WF m ∧ (chain m steps items).All Leaf.Real := by
  induction steps generalizing items with
  | nil => exact ⟨hw, hl⟩
  | cons s rest ih =>
    obtain ⟨h1, h2⟩ := step_invariant m s items hw hl
    simpa only [chain, List.foldl_cons] using ih (s.apply m items) h1 h2

/-- a history can be cut anywhere: what the second part does, it does to what the first part left -/
theorem chain_append [Neg R] [Star R] (m : ℕ) (s1 s2 : List Step) (items : Its R) :
    chain m (s1 ++ s2) items = chain m s2 (chain m s1 items) := by
  simp [chain, List.foldl_append]

/-- the copy of an inverted circuit has the matrix of the inverted circuit, and inverting a copy of an
inverted circuit a second time horizontally gives the original matrix back -/
theorem inverse_copy_inverse [CommRing R] [StarRing R] {I : R} (hI : ImagUnit I) (m : ℕ)
    (items : Its R) (hw : items.WF m) (hl : items.All Leaf.Real) (v h : Bool) :
    (chain m [.inv v h, .copy] items).U I m = xform v h (items.U I m) ∧
      (chain m [.inv false true, .copy, .inv false true] items).U I m = items.U I m := by
  refine ⟨chain_matrix hI m _ items hw hl, ?_⟩
  rw [chain_matrix hI m _ items hw hl]
  simp [law, Step.law, xform]

example : exTree.WF 4 ∧ exTree.All Leaf.Real := by
  refine ⟨by simp [exTree, Its.WF, Cmp.WF, Cmp.size, Leaf.size], ?_⟩
  simp only [exTree, Its.All, Cmp.All, Leaf.Real, and_true]
  exact ⟨(exBS_unit _).toReal, trivial, (exBS_unit _).toReal⟩

/-! ## L. MIXED histories: `inverse` / `copy` / `flatten` together with `simplify`, `decompose_perms`,
`non_unitary_circuit()` — one history machine, one theorem

`Model/C11Mixed.lean`: the state is the flattened view of the object (`for r, c in circuit`) with the class of every
component (`PERM` with its `perm_vector`, numeric `PS` with its phase, anything else opaque); a history is a list of
`MStep`s.  The list-rebuilding steps are the SAME functions the parts C, E, H, I speak about (`bubble`,
`simplifyDet`, `regroup`/`blockMat`), applied to what the earlier steps left — nothing is read back.  `e` reads a
phase as the unit `e^{iφ}`; the hypotheses on it are those of `simplify_sound` (`hadd`, `hdrop`) plus
`e(-φ) = star (e φ)` for `PS.inverse`. -/

/-- every step keeps the invariant (positive widths, components fit the `m` modes, `PERM`s hold permutations,
beam splitters have real angles) — so any further step can be applied -/
theorem mixed_step_invariant {P : Type} [CommRing R] [StarRing R] [PhaseAlg P] [PhaseNeg P] {I : R}
    (e : P → R) (hadd : ∀ a b : P, e (PhaseAlg.add a b) = e a * e b)
    (hdrop : ∀ a : P, PhaseAlg.canDrop a = true → e a = 1)
    (m : ℕ) (s : MStep) (st : MS P R) (hok : st.OK m) : (s.apply I e m st).OK m := by
  cases s with
  | inv v h => exact MS.inv_OK m v h st hok
  | copy => exact hok
  | flat => exact hok
  | simp d drops => exact (MS.simp_spec I e hadd hdrop m d drops st hok).1
  | decomp mg => exact (MS.decomp_spec I e m st hok).1
  | regroup => exact (MS.regroup_spec I e m st hok).1

/-- the law of one step on ANY admissible list: `inverse(v, h)` gives the flipped / inverted matrix (with the
`perm_vector` of every `PERM` recomputed from the flipped / inverted matrix), `simplify` (both display modes, every
rounding outcome of every drop test, the real heuristic), `decompose_perms`, the regrouping into one block, `copy` and
`flatten` keep the matrix -/
theorem mixed_step_matrix {P : Type} [CommRing R] [StarRing R] [PhaseAlg P] [PhaseNeg P] {I : R}
    (hI : ImagUnit I) (e : P → R) (hadd : ∀ a b : P, e (PhaseAlg.add a b) = e a * e b)
    (hdrop : ∀ a : P, PhaseAlg.canDrop a = true → e a = 1)
    (hneg : ∀ φ : P, e (PhaseNeg.neg φ) = star (e φ))
    (m : ℕ) (s : MStep) (st : MS P R) (hok : st.OK m) :
    MS.U I e m (s.apply I e m st) = s.law (MS.U I e m st) := by
  cases s with
  | inv v h => exact MS.inv_matrix hI e hneg m v h st hok
  | copy => rfl
  | flat => rfl
  | simp d drops => exact (MS.simp_spec I e hadd hdrop m d drops st hok).2
  | decomp mg => exact (MS.decomp_spec I e m st hok).2
  | regroup => exact (MS.regroup_spec I e m st hok).2

/-- **a whole mixed history has the composition of the laws of its steps**: any number of inversions (any flags),
copies, flattenings, simplifications (any display mode, any rounding outcomes), permutation decompositions and
regroupings, in ANY order — e.g. `c.inverse(h=True); d = simplify(c); e = decompose_perms(d); e.inverse(v=True)` gives
`e` the flipped inverse of the matrix `c` had.  No step's result is read back: every step works on the list the model
of the previous step produced. -/
theorem mixed_chain_matrix {P : Type} [CommRing R] [StarRing R] [PhaseAlg P] [PhaseNeg P] {I : R}
    (hI : ImagUnit I) (e : P → R) (hadd : ∀ a b : P, e (PhaseAlg.add a b) = e a * e b)
    (hdrop : ∀ a : P, PhaseAlg.canDrop a = true → e a = 1)
    (hneg : ∀ φ : P, e (PhaseNeg.neg φ) = star (e φ))
    (m : ℕ) (steps : List MStep) (st : MS P R) (hok : st.OK m) :
    (mchain I e m steps st).OK m ∧ MS.U I e m (mchain I e m steps st) = mlaw steps (MS.U I e m st) := by
  induction steps generalizing st with
  | nil => exact ⟨hok, rfl⟩
  | cons s rest ih =>
    have h1 := mixed_step_invariant (I := I) e hadd hdrop m s st hok
    obtain ⟨i1, i2⟩ := ih (s.apply I e m st) h1
    simp only [mchain, mlaw, List.foldl_cons] at i1 i2 ⊢
    exact ⟨i1, by rw [i2, mixed_step_matrix hI e hadd hdrop hneg m s st hok]⟩

/-- inverting horizontally, simplifying, breaking the permutations into swaps and inverting horizontally again gives a
circuit with the ORIGINAL matrix; with a vertical inversion at both ends instead, likewise -/
theorem mixed_inverse_rebuild_inverse {P : Type} [CommRing R] [StarRing R] [PhaseAlg P] [PhaseNeg P] {I : R}
    (hI : ImagUnit I) (e : P → R) (hadd : ∀ a b : P, e (PhaseAlg.add a b) = e a * e b)
    (hdrop : ∀ a : P, PhaseAlg.canDrop a = true → e a = 1)
    (hneg : ∀ φ : P, e (PhaseNeg.neg φ) = star (e φ))
    (m : ℕ) (st : MS P R) (hok : st.OK m) (d mg : Bool) (drops : List Bool) :
    MS.U I e m (mchain I e m [.inv false true, .simp d drops, .decomp mg, .inv false true] st) = MS.U I e m st ∧
      MS.U I e m (mchain I e m [.inv true false, .simp d drops, .regroup, .inv true false] st) = MS.U I e m st := by
  refine ⟨?_, ?_⟩
  · rw [(mixed_chain_matrix hI e hadd hdrop hneg m _ st hok).2]
    simp [mlaw, MStep.law, xform]
  · rw [(mixed_chain_matrix hI e hadd hdrop hneg m _ st hok).2]
    simp [mlaw, MStep.law, xform, vflip_vflip]

/-- the flattened view denotes the circuit of the tree model: its matrix is the matrix `compute_unitary()` of the
circuit holding the same components (`PERM` as the `Unitary` of its permutation matrix, `PS` with its unit phase) — the
histories of part K and the mixed histories speak of the same matrix -/
theorem mixed_tree_matrix {P : Type} [CommRing R] (I : R) (e : P → R) (m : ℕ) (st : MS P R) :
    MS.U I e m st = (Its.ofList (st.cmps e)).U I m := by
  rw [Its.U_ofList]; rfl

/-- `decompose_perms` after `inverse`: the swaps are those of the bubble sort of the INVERTED permutation vector
(`invert_permutation` for `h`, the mirrored vector for `v`) — the stale-view class of defects (a step reading a view
of the component the previous step did not update) is a difference to this model -/
instance : PhaseNeg GQ where
  neg := star

def exMixed : MS GQ GQ :=
  [(0, .perm 3 [1, 2, 0]), (1, .leaf (.bs (exBS .Rx))), (0, .ps GQ.I), (0, .perm 3 [2, 0, 1])]

example : (∀ a b : GQ, id (PhaseAlg.add a b) = id a * id b) ∧
    (∀ a : GQ, PhaseAlg.canDrop a = true → id a = 1) ∧
    (∀ φ : GQ, id (PhaseNeg.neg φ) = star (id φ)) ∧ exMixed.OK 3 ∧
    (MS.inv 3 true true exMixed).map (·.1) = [0, 2, 0, 0] ∧
    ((MS.inv 3 false true exMixed).decomp).map (·.1) = [1, 0, 0, 1, 0, 1] ∧
    ((exMixed.simp 3 false []).map (·.1)) = [0, 2] := by
  refine ⟨fun _ _ => rfl, ?_, fun _ => rfl, ?_, by decide +kernel, by decide +kernel, by decide +kernel⟩
  · intro a h; simpa [PhaseAlg.canDrop] using h
  · intro p hp
    simp only [exMixed, List.mem_cons, List.not_mem_nil, or_false] at hp
    rcases hp with rfl | rfl | rfl | rfl
    · exact ⟨by decide, by decide, (by decide : IsPermList 3 [1, 2, 0])⟩
    · exact ⟨by decide, by decide, (exBS_unit _).toReal⟩
    · exact ⟨by decide, by decide, trivial⟩
    · exact ⟨by decide, by decide, (by decide : IsPermList 3 [2, 0, 1])⟩

/-! ## M. `decompose_perms(circuit, merge)` as the OBJECT it returns — nesting included

`MS.decomp` (part L) is the flattened view, in which `merge` cannot be seen.  `MS.decompTree merge` is the component
list `decompose_perms` builds through `Circuit.add(r, new_c, merge=merge)`: with `merge=False` one nested
`Circuit(n)` of swaps per `PERM` that is not a two-mode one; with `merge=True` the swaps themselves — except that
`Circuit.add` tests the TRUTHINESS of the sub-circuit's component list, so the empty sub-circuit of an identity
permutation (or of a one-mode `PERM`) stays a nested empty circuit. -/

/-- `for r, c in decompose_perms(circuit, merge)` iterates over exactly the list `MS.decomp` describes, for both
values of `merge` (the nested sub-circuits sit at the place of their `PERM`, their swaps at `r + k`; an empty nested
circuit contributes nothing) — the hypothesis-free link between the object and the flattened view part L works on -/
theorem decompose_nested_view [Zero R] [One R] {P : Type} (merge : Bool) (e : P → R) (st : MS P R) :
    flattenExp true none (Its.ofList (MS.decompTree merge e st)) = (MS.decomp st).cmps e :=
  decompTree_flatten' merge e st

/-- BREAKING PERMUTATIONS INTO TWO-MODE SWAPS LEAVES THE MATRIX UNCHANGED — for the object `decompose_perms` returns,
with either value of `merge`, empty nested circuits included: every `Circuit.add` it makes passes the range
assertions (on the circuit and inside each nested sub-circuit), and `compute_unitary()` of the returned circuit is the
matrix of the input -/
theorem decompose_nested_matrix [CommRing R] [StarRing R] {P : Type} (I : R) (e : P → R) (m : ℕ) (merge : Bool)
    (st : MS P R) (hok : st.OK m) :
    (Its.ofList (MS.decompTree merge e st)).WF m ∧
      (Its.ofList (MS.decompTree merge e st)).U I m = MS.U I e m st := by
  have hw := (Its.ofList_WF _ (decompTree_ok merge e m st hok)).1
  refine ⟨hw, ?_⟩
  rw [← flatten_matrix I m _ hw none, decompTree_flatten', ← (MS.decomp_spec I e m st hok).2]
  rfl

/-- `merge=False`: nothing is merged — the returned circuit has ONE component per input component, on the same
modes (a `PERM` that is not a two-mode one became a nested circuit of its own width) -/
theorem decompose_unmerged_shape [Zero R] [One R] {P : Type} (e : P → R) (st : MS P R) :
    (MS.decompTree false e st).map (fun q => (q.1, q.2.size)) = st.map fun p => (p.1, p.2.size) := by
  induction st with
  | nil => rfl
  | cons p rest ih =>
    have hsplit : MS.decompTree false e (p :: rest) = decompItem false e p ++ MS.decompTree false e rest := by
      simp [MS.decompTree]
    rw [hsplit, List.map_append, ih]
    obtain ⟨o, k⟩ := p
    cases k with
    | perm n σ =>
      by_cases h2 : n = 2
      · subst h2; simp [decompItem, FK.toCmp, Cmp.size, Leaf.size, FK.size]
      · simp [decompItem, h2, Cmp.size, FK.size]
    | ps φ => simp [decompItem, FK.toCmp, Cmp.size, Leaf.size, FK.size]
    | leaf l => simp [decompItem, FK.toCmp, Cmp.size, FK.size]

/-- `merge=True`: the only nesting left is EMPTY sub-circuits (`Circuit.add` merges only a sub-circuit whose
component list is truthy) — every component of the returned circuit is a leaf or an empty `Circuit(n)` -/
theorem decompose_merged_shape [Zero R] [One R] {P : Type} (e : P → R) (st : MS P R) :
    ∀ q ∈ MS.decompTree true e st, (∃ l, q.2 = .leaf l) ∨ (∃ n, q.2 = .circ n .nil) := by
  intro q hq
  simp only [MS.decompTree, List.mem_flatMap] at hq
  obtain ⟨⟨o, k⟩, -, hq⟩ := hq
  cases k with
  | perm n σ =>
    by_cases h2 : n = 2
    · simp only [decompItem, h2, if_true, List.mem_singleton] at hq
      subst hq; exact .inl ⟨_, rfl⟩
    · cases hb : bubble σ with
      | nil =>
        simp only [decompItem, h2, hb, if_false, List.isEmpty_nil, Bool.not_true, Bool.and_false,
          Bool.false_eq_true, List.map_nil, Its.ofList, List.mem_singleton] at hq
        subst hq; exact .inr ⟨n, rfl⟩
      | cons a t =>
        simp only [decompItem, h2, hb, if_false, List.isEmpty_cons, Bool.not_false, Bool.and_true,
          if_true, List.mem_map] at hq
        obtain ⟨k, -, rfl⟩ := hq
        exact .inl ⟨_, rfl⟩
  | ps φ =>
    simp only [decompItem, List.mem_singleton] at hq
    subst hq; exact .inl ⟨_, rfl⟩
  | leaf l =>
    simp only [decompItem, List.mem_singleton] at hq
    subst hq; exact .inl ⟨_, rfl⟩

/-- a 3-cycle, an identity permutation on 3 modes, a two-mode identity `PERM` and a phase shifter on 4 modes -/
def exNest : MS GQ GQ :=
  [(0, .perm 3 [1, 2, 0]), (1, .perm 3 [0, 1, 2]), (2, .perm 2 [0, 1]), (0, .ps GQ.I)]

example : exNest.OK 4 ∧
    (MS.decompTree true id exNest).map (fun q => (q.1, q.2.size)) = [(1, 2), (0, 2), (1, 3), (2, 2), (0, 1)] ∧
    (MS.decompTree false id exNest).map (fun q => (q.1, q.2.size)) = [(0, 3), (1, 3), (2, 2), (0, 1)] := by
  refine ⟨?_, by decide +kernel, by decide +kernel⟩
  intro p hp
  simp only [exNest, List.mem_cons, List.not_mem_nil, or_false] at hp
  rcases hp with rfl | rfl | rfl | rfl
  · exact ⟨by decide, by decide, (by decide : IsPermList 3 [1, 2, 0])⟩
  · exact ⟨by decide, by decide, (by decide : IsPermList 3 [0, 1, 2])⟩
  · exact ⟨by decide, by decide, (by decide : IsPermList 2 [0, 1])⟩
  · exact ⟨by decide, by decide, trivial⟩

/-! ## Still NOT proved (validated by the correspondence only)

* the fields `Experiment.copy()` / `Processor.copy()` share with the original (shallow `copy.copy`: ports,
  heralds, detectors, post-selection, noise, input state) — only the component list is modelled;
  `copy(subs=…)` with symbolic parameters (for circuits whose parameters all have values `subs` changes
  nothing); structural in-place changes (`add` on a nested container) are not in the mutation theorem;
  the correspondence compares `copy(subs={symbol: value})` of circuits / experiments with phase shifters on
  symbols against the same program written with the numbers (no theorem); `Processor.copy(subs=…)` drops
  `subs` on the current code (`fixes/C11-processor-copy-subs.diff`; symbolic parameters are outside the
  quantifier of the property, not reported by the check);
* the floating-point drop test of `_simplify_PS` (an input of `simplify_sound`: both outcomes are allowed
  when the exact phase sum is a multiple of `2π`);
* mixed histories (part L) speak of the FLATTENED view: that `inverse` / `copy` of a nested circuit followed by the
  iteration `for r, c in circuit` gives the inverse / the copy of the flattened list is `flatten_matrix` + `circuit_inv`
  on the matrix level only (the lists themselves are compared by the correspondence); the nesting
  `decompose_perms(merge)` leaves is modelled and proved in part M, but the history machine of part L still works on
  the flattened view (`decompose_nested_view` is the link); the regrouping step is the
  all-unitary case (one block) — lists with loss channels / time delays have `regroup_denotation` but are not steps
  of the history machine;
* model = code (differential testing on every run). -/

end PM.C11
