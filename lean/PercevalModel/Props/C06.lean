/-
  C06 — property theorems (model: `Model/C06.lean`, helper lemmas: `Lemmas/C06.lean`).

  Everything is for ALL well-formed parameter tuples `P` (`Params.WF`: what `Source.__init__` and
  `NoiseModel` accept, with `q`, `r` the non-negative square roots the code takes), ALL expected inputs
  `ns` (any number of modes, any number of photons per mode), ALL values `t` of the tag counter.

  How probabilities are stated.  `E g d` is the expectation of a test function `g` under the list
  distribution `d`.  Laws are stated as *generating functions*: an identity
  `E (∏ᵢ xᵢ ^ countᵢ) d = F x` for all rational `x` fixes every joint probability of the counts
  (two polynomials that agree on ℚⁿ have the same coefficients — formalised in `gf_determines_law`,
  `Polynomial.funext` over the infinite field ℚ, and used in the section "individual probabilities"
  below: `photon_count_pmf`, `photon_number_pmf`, `photon_count_joint_pmf`, `tag_pmf`,
  `prob_table_eq_counts`).  Independence across modes is stated for ALL product test functions
  (`dist_tensor`), which contains all indicator functions, hence the joint law itself.

  Threshold.  `generate_distribution` always trims with `max(prob_threshold, 1e-16)`.  The exact
  statements of the property (mass one *before* normalisation, exact product law) hold for the
  untrimmed product, i.e. the model at threshold `0` (`generateAt P 0`); theorems that are about the
  product law are stated there.  What trimming at a positive threshold does (drops entries, then
  renormalises) is in the model (`generate`), is compared with the code on every run, and is covered
  here by `generate_normalised` (the result has mass one whatever the threshold),
  `trimming_only_removes` (the trimmed product is dominated by the exact one), `tags_fresh`,
  `perfect_source_id` (any threshold `< 1`) and, quantitatively, `trimmed_mass_ge` /
  `generate_close_to_exact`: the trimming removes at most `θ · lossCount ns` of the mass and the
  returned (renormalised) distribution is within that distance, event by event, of the exact product law
  (`lossCount ns ≤ 9 · #modes · 5^(Σ nᵢ)` counts the places where an entry `≤ θ` can be dropped).
  Parameter-dependent version (`trimmed_mass_ge_width`, `generate_close_to_exact_width`): the base 5 becomes
  `width P`, the number of one-photon outcomes the source really has (2 for the HOM-only source).

  Wave 6: `share_tag_iff_common` / `share_tag_prob` / `simplify_share_tag_prob` / `share_tag_prob_returned` (the
  property's sentence "two photons share a tag with probability I" for the event "share ONE tag", simplified or
  not, exact and on the returned distribution), `anonymize_idempotent` / `simplify_idempotent`.

  Sampler.  `generate_samples` is modelled as a deterministic function of the draws of `random.choices` /
  `random.shuffle` (`Model/C06Samp.lean`); the theorems of the section "the direct sample generator" are about the
  push-forward of the IDEAL law of these draws (independent indices with probability `wᵢ/Σw`, uniform permutations).
  Proved in full for the no-filter route (`sampler_no_filter_law`) and for the event-table route
  (`sampler_filtered_law`: under a uniform shuffle the per-mode class profile of a sample — the sample up to the names
  of its fresh tags — follows `generate_distribution` conditioned on the photon filter; `sampler_filtered_law_partial`
  is the part that holds for EVERY law of the shuffle).
-/
import PercevalModel.Lemmas.C06
import PercevalModel.Lemmas.C06Fresh
import PercevalModel.Lemmas.C06Trim
import PercevalModel.Lemmas.C06Coeff
import PercevalModel.Lemmas.C06Cat
import PercevalModel.Lemmas.C06Loss
import PercevalModel.Lemmas.C06More
import PercevalModel.Model.C06Proc
import PercevalModel.Lemmas.C06Multi
import PercevalModel.Lemmas.C06Anon
import PercevalModel.Lemmas.C06Place
import PercevalModel.Lemmas.C06PlaceK
import PercevalModel.Lemmas.C06Route
import PercevalModel.Lemmas.C06Rename
import PercevalModel.Lemmas.C06Rows
import PercevalModel.Lemmas.C06Share
import PercevalModel.Lemmas.C06AnonIdem
import PercevalModel.Lemmas.C06AnonDistIdem
import PercevalModel.Lemmas.C06LossW
import PercevalModel.Lemmas.C06NoTrim
import PercevalModel.Lemmas.C06Src

namespace PM.C06

/-! ### `_get_probs` -/

/-- The pair `(p1, p2)` the code selects solves `g2 = 2·p2 / (p1 + 2·p2)²` (written without the
division) with `p1 + p2 = brightness`, and both are probabilities' worth of non-negative. -/
theorem p2_solves_g2 {P : Params} (hP : P.WF) :
    2 * p2 P = P.g2 * (p1 P + 2 * p2 P) ^ 2 ∧ p1 P + p2 P = P.beta ∧ 0 ≤ p1 P ∧ 0 ≤ p2 P := by
  refine ⟨?_, by simp [p1], p1_nonneg hP, p2_nonneg hP⟩
  by_cases h : P.g2 = 0
  · simp [p2, h]
  · have h1 := p2_mul_g2 P h
    have h2 := hP.q_sq
    have e : P.g2 * (p1 P + 2 * p2 P) = 1 - P.q := by unfold p1; linear_combination h1
    have key : P.g2 * (2 * p2 P - P.g2 * (p1 P + 2 * p2 P) ^ 2) = 0 := by
      calc P.g2 * (2 * p2 P - P.g2 * (p1 P + 2 * p2 P) ^ 2)
          = 2 * (p2 P * P.g2) - (P.g2 * (p1 P + 2 * p2 P)) ^ 2 := by ring
        _ = 0 := by rw [h1, e]; linear_combination (-1 : ℚ) * h2
    rcases mul_eq_zero.mp key with h3 | h3
    · exact absurd h3 h
    · linarith

/-- Binomial thinning: the three numbers `_get_probs` returns, and the law `(p0, π1, π2)` of the
number of photons one requested photon delivers is the emission law `(1−β, p1, p2)` with every
emitted photon surviving independently with probability `η` (as a generating function in `y`). -/
theorem thinning (P : Params) (y : ℚ) :
    p11 P = P.eta * p1 P ∧ p22 P = P.eta ^ 2 * p2 P ∧ 2 * p21 P = 2 * P.eta * (1 - P.eta) * p2 P ∧
    poly P y = (1 - P.beta) + p1 P * ((1 - P.eta) + P.eta * y) +
      p2 P * ((1 - P.eta) + P.eta * y) ^ 2 := by
  refine ⟨rfl, rfl, by unfold p21; ring, ?_⟩
  simp only [poly, p0, pi1, pi2, p11, p21, p22, p1]; ring

/-- The three count probabilities are probabilities. -/
theorem count_probs_nonneg {P : Params} (hP : P.WF) :
    0 ≤ p0 P ∧ 0 ≤ pi1 P ∧ 0 ≤ pi2 P ∧ p0 P + pi1 P + pi2 P = 1 :=
  ⟨p0_nonneg hP, add_nonneg (p11_nonneg hP) (mul_nonneg zero_le_two (p21_nonneg hP)), p22_nonneg hP,
    by unfold p0 pi1 pi2; ring⟩

/-! ### `_generate_one_photon_distribution` -/

/-- The distribution of one requested photon is normalised (both multiphoton models, partially
distinguishable or not) and has only positive entries. -/
theorem one_photon_dist_mass_one {P : Params} (hP : P.WF) (t : ℕ) :
    mass (onePhoton P t) = 1 ∧ ∀ e ∈ onePhoton P t, 0 < e.2 := by
  constructor
  · rw [mass_eq_E]
    simpa [poly_one] using cnt_onePhoton hP t 1
  · intro e he
    simp only [onePhoton, positive, List.mem_filter, decide_eq_true_eq] at he
    exact he.2

/-- One requested photon delivers 0, 1, 2 photons with probabilities `p0`, `π1 = p1to1 + 2·p2to1`,
`π2 = p2to2`, in both multiphoton models. -/
theorem photon_count_one {P : Params} (hP : P.WF) (t : ℕ) :
    massP (fun m => decide (m.length = 0)) (onePhoton P t) = p0 P ∧
    massP (fun m => decide (m.length = 1)) (onePhoton P t) = pi1 P ∧
    massP (fun m => decide (m.length = 2)) (onePhoton P t) = pi2 P := by
  simp only [massP, E_onePhoton hP]
  unfold onePhotonRaw pi1 pi2
  refine ⟨?_, ?_, ?_⟩ <;>
    by_cases hpd : partDist P = true <;> by_cases hdm : P.dm = true <;>
      simp [hpd, hdm, E] <;> ring

/-! ### `probability_distribution` / `generate_distribution`: the product law -/

/-- The input mixture is the tensor product over the modes (and has mass one): for every family of
test functions `fs i` on mode `i`, the expectation of their product is the product of their
expectations under `probability_distribution(nᵢ)`.  With indicator functions for `fs` this is the
joint law itself. -/
theorem dist_tensor {P : Params} (hP : P.WF) (fs : ℕ → Mode → ℚ) {ns : List ℕ} (hne : ns ≠ [])
    (t : ℕ) :
    E (W fs 0) (generateAt P 0 ns t) = prodFrom fs 0 (modeDists P 0 ns t) ∧
    mass (generateAt P 0 ns t) = 1 := by
  refine ⟨by rw [E_generateAt_zero hP _ hne, E_generateRaw_zero P _ hne], ?_⟩
  rw [generateAt]
  apply mass_normalize
  rw [mass_generateRaw_zero hP hne]
  exact one_ne_zero

/-- Already before `dist.normalize()` the untrimmed product has mass one. -/
theorem dist_tensor_raw_mass {P : Params} (hP : P.WF) {ns : List ℕ} (hne : ns ≠ []) (t : ℕ) :
    mass (generateRaw P 0 ns t) = 1 :=
  mass_generateRaw_zero hP hne t

/-- Whatever the threshold: when anything at all survives the trimming, the returned distribution is
normalised. -/
theorem generate_normalised (P : Params) (thr : ℚ) (ns : List ℕ) (t : ℕ)
    (h : mass (generateRaw P (max thr minP) ns t) ≠ 0) : mass (generate P thr ns t) = 1 :=
  mass_normalize _ h

/-- Trimming only removes: at ANY threshold `θ` (in particular the `max(prob_threshold, 1e-16)` the code
uses), before normalisation, the trimmed product gives every event — every non-negative test function
— at most the weight the exact product law gives it.  (No bound on *how much* is removed is proved.) -/
theorem trimming_only_removes (P : Params) (θ : ℚ) (ns : List ℕ) (t : ℕ) (g : State → ℚ)
    (hg : ∀ s, 0 ≤ g s) : E g (generateRaw P θ ns t) ≤ E g (generateRaw P 0 ns t) :=
  Dom_generateRaw P θ ns t g hg

/-- … hence the mass before normalisation never exceeds one. -/
theorem trimmed_mass_le_one {P : Params} (hP : P.WF) (θ : ℚ) {ns : List ℕ} (hne : ns ≠ []) (t : ℕ) :
    mass (generateRaw P θ ns t) ≤ 1 := by
  rw [← mass_generateRaw_zero hP hne t, mass_eq_E, mass_eq_E]
  exact trimming_only_removes P θ ns t _ fun _ => zero_le_one

/-- Within one mode the requested photons are independent: for every multiplicative tag weight
(common tag ↦ `a`, any fresh tag ↦ `b`) the expectation under `probability_distribution(n)` is the
`n`-th power of the one-photon expectation, which is the generating function `tagGF` of the
physical description. -/
theorem mode_tensor {P : Params} (hP : P.WF) (n t : ℕ) (a b : ℚ) :
    E (tagProd (tagW a b)) (probDist P 0 n t) = tagGF P a b ^ n ∧
    ∀ t', E (tagProd (tagW a b)) (onePhoton P t') = tagGF P a b :=
  ⟨tag_probDist hP n t a b, fun t' => tag_onePhoton hP t' a b⟩

/-- Joint law of the photon counts per mode: the probability generating function of
`(count in mode 0, count in mode 1, …)` under the generated mixture is `∏ᵢ (p0 + π1·xᵢ + π2·xᵢ²)^{nᵢ}` —
each requested photon independently yields 0, 1 or 2 photons with probabilities `p0, π1, π2`. -/
theorem photon_count_marginal {P : Params} (hP : P.WF) {ns : List ℕ} (hne : ns ≠ []) (t : ℕ)
    (x : ℕ → ℚ) :
    E (W (fun i m => x i ^ m.length) 0) (generateAt P 0 ns t) = gfFrom P x 0 ns := by
  rw [(dist_tensor hP _ hne t).1, prodFrom_count hP]

/-- Law of the total photon number: generating function `(p0 + π1·y + π2·y²)^{Σ nᵢ}`. -/
theorem photon_number_law {P : Params} (hP : P.WF) {ns : List ℕ} (hne : ns ≠ []) (t : ℕ) (y : ℚ) :
    E (fun s => y ^ photons s) (generateAt P 0 ns t) = poly P y ^ ns.sum := by
  have h := photon_count_marginal hP hne t (fun _ => y)
  rw [gfFrom_const] at h
  rw [← h]
  congr 1
  funext s
  rw [W_count_const]

/-- Tag law: the joint generating function of (number of photons with the common tag, number of
photons with a fresh tag) under the generated mixture is `tagGF P a b ^ (Σ nᵢ)`, `tagGF` being the
physical description: emission `1−β / p1 / p2`, independent survival `η`, the signal photon common
with probability `r = √I`, the extra photon fresh ("distinguishable") or common ("indistinguishable"). -/
theorem tag_law {P : Params} (hP : P.WF) {ns : List ℕ} (hne : ns ≠ []) (t : ℕ) (a b : ℚ) :
    E (W (fun _ => tagProd (tagW a b)) 0) (generateAt P 0 ns t) = tagGF P a b ^ ns.sum := by
  rw [(dist_tensor hP _ hne t).1, prodFrom_tag hP]

/-- Indistinguishability: for a source whose only imperfection is the indistinguishability
(`β = 1, g2 = 0, η = 1`) every requested photon carries the common tag with probability `r = √I`,
independently: all `N = Σ nᵢ` photons carry it with probability `r^N`; in particular two requested
photons (in one mode or in two) share the common tag with probability `r² = I`.

Full statement wanted by the property: "two signal photons share *a* tag with probability `I`".  Proved
here: they share the *common* tag `_:0` with probability `I`.  That they cannot share any other tag
(all other tags are fresh, pairwise different) is `tags_fresh` below. -/
theorem tag_share_prob {P : Params} (hP : P.WF) (hb : P.beta = 1) (hg : P.g2 = 0) (he : P.eta = 1)
    {ns : List ℕ} (hne : ns ≠ []) (t : ℕ) :
    massP allCommon (generateAt P 0 ns t) = P.r ^ ns.sum ∧
    (ns.sum = 2 → massP allCommon (generateAt P 0 ns t) = P.ind) := by
  have h := tag_law hP hne t 1 0
  have hgf : tagGF P 1 0 = P.r := by simp [tagGF, sigS, p1, p2, hb, hg, he]
  have hm : massP allCommon (generateAt P 0 ns t) = P.r ^ ns.sum := by
    rw [← hgf, ← h, massP]
    congr 1
    funext s
    rw [W_indicator]
  refine ⟨hm, fun h2 => ?_⟩
  rw [hm, h2, ← hP.r_sq]
  ring

/-- Every tag other than the common one is fresh: in every state of the generated mixture — for every
parameter tuple, every threshold (`generate P thr = generateAt P (max thr 1e-16)`), every input, every
value of the tag counter — no two photons, in the same mode or in different modes, carry the same
non-common tag.  Hence two photons share a tag exactly when both carry the common tag `_:0`. -/
theorem tags_fresh (P : Params) (θ : ℚ) (ns : List ℕ) (t : ℕ) :
    ∀ x ∈ generateAt P θ ns t, (freshTags x.1.flatten).Nodup := by
  intro x hx
  obtain ⟨y, hy, hk⟩ := mem_normalize_key _ x hx
  rw [← hk]
  exact (generateRaw_Inv P θ ns t y hy).1

/-! ### the event table (`_compute_prob_table`) -/

/-- Without filter the event table is normalised (four-term multinomial theorem), for every `n`,
including the settings in which the loops are cut short because `p_g2` or `p_duo` is `0`. -/
theorem prob_table_mass_one (P : Params) (n : ℕ) :
    mass (table P n 0) = 1 ∧ physPerf P n 0 = 1 := by
  have h : mass (tableRaw P n 0) = 1 := by
    have := E_tableRawOf_weight (pSignal P) (pG2 P) (pDuo P) (pNone P) 1 1 1 n
    simp only [one_pow, mul_one] at this
    rw [mass_eq_E, tableRaw, this]
    unfold pNone
    ring_nf
  exact ⟨by simpa [table] using h, h⟩

/-- The photon-number law of the event table is that of the generated mixture: event `(i, j, k)`
carries `i + j + 2k` photons and the generating function is `(p0 + π1·y + π2·y²)^n`. -/
theorem prob_table_count_law (P : Params) (n : ℕ) (y : ℚ) :
    E (fun e => y ^ evPhotons e) (table P n 0) = poly P y ^ n := by
  have h := E_tableRawOf_weight (pSignal P) (pG2 P) (pDuo P) (pNone P) y y (y ^ 2) n
  have e1 : (fun e : ℕ × ℕ × ℕ => y ^ evPhotons e) =
      fun e => y ^ e.1 * y ^ e.2.1 * (y ^ 2) ^ e.2.2 := by
    funext e; simp only [evPhotons, pow_add, pow_mul]
  simp only [table, if_true, tableRaw]
  rw [e1, h]
  congr 1
  simp only [poly, pSignal, pG2, pDuo, pNone, p0, pi1, pi2]
  ring

/-- The sampler's event table and the distribution builder agree on the law of the total photon
number (same generating function), for every input with `Σ nᵢ = n`. -/
theorem prob_table_matches_distribution {P : Params} (hP : P.WF) {ns : List ℕ} (hne : ns ≠ [])
    (t : ℕ) (y : ℚ) :
    E (fun e => y ^ evPhotons e) (table P ns.sum 0) =
      E (fun s => y ^ photons s) (generateAt P 0 ns t) := by
  rw [prob_table_count_law, photon_number_law hP hne]

/-- Conditioning on the minimum-photon filter: the filtered loops produce exactly the restriction of
the unfiltered table to the events with at least `f` photons; `phys_perf` is the retained mass; and
the returned table (`f ≠ 0`) is that restriction divided by `phys_perf`, hence normalised whenever
anything is retained. -/
theorem prob_table_filtered (P : Params) (n f : ℕ) :
    tableRaw P n f = (table P n 0).filter (fun e => decide (f ≤ evPhotons e.1)) ∧
    physPerf P n f = massP (fun e => decide (f ≤ evPhotons e)) (table P n 0) ∧
    (f ≠ 0 → table P n f = normalize (tableRaw P n f)) ∧
    (f ≠ 0 → physPerf P n f ≠ 0 → mass (table P n f) = 1) := by
  have h1 : tableRaw P n f = (table P n 0).filter (fun e => decide (f ≤ evPhotons e.1)) := by
    simp only [table, if_true, tableRaw]
    exact tableRawOf_filter _ _ _ _ n f
  have h3 : f ≠ 0 → table P n f = normalize (tableRaw P n f) := by
    intro hf
    simp [table, hf, normalize, physPerf]
  refine ⟨h1, ?_, h3, ?_⟩
  · rw [physPerf, h1, mass_eq_E, massP]
    generalize table P n 0 = d
    induction d with
    | nil => simp
    | cons e d ih =>
      by_cases h : f ≤ evPhotons e.1 <;> simp [List.filter_cons, h, ih]
  · intro hf hp
    rw [h3 hf]
    exact mass_normalize _ hp

/-! ### perfect source, `from_noise_model` -/

/-- A perfect source returns the requested state unchanged (probability 1, no annotation), for every
threshold below 1. -/
theorem perfect_source_id {P : Params} (h : isPerfect P = true) (thr : ℚ) (hthr : thr < 1)
    {ns : List ℕ} (hne : ns ≠ []) (t : ℕ) :
    generate P thr ns t = [(ns.map fun n => List.replicate n none, 1)] := by
  have hm : minP < 1 := by norm_num [minP]
  have hθ : max thr minP < 1 := max_lt hthr hm
  have hf : ∀ l : List ℕ, (l.map fun n => [List.replicate n (none : Tag)]).flatten =
      l.map fun n => List.replicate n none := by
    intro l; induction l <;> simp_all
  unfold generate generateAt generateRaw
  rw [modeDists_perfect h]
  match ns, hne with
  | [n], _ => simp [ltpState, lift, normalize, mass]
  | n₁ :: n₂ :: ns, _ =>
    have e : (((n₁ :: n₂ :: ns).map fun n => [(List.replicate n (none : Tag), (1 : ℚ))]).map lift).map
        (trim (max thr minP)) =
        ((n₁ :: n₂ :: ns).map fun n => [List.replicate n (none : Tag)]).map fun s => [(s, (1 : ℚ))] := by
      simp only [List.map_map]
      apply List.map_congr_left
      intro n _
      simp [lift, trim, hthr, hm]
    show normalize (dfs (max thr minP) (fun s e => s ++ e)
      ((((n₁ :: n₂ :: ns).map fun n => [(List.replicate n (none : Tag), (1 : ℚ))]).map lift).map
        (trim (max thr minP))) [] 1) = _
    rw [e, dfs_points _ hθ.le]
    simp [normalize, mass, hf]

/-- `Source.from_noise_model`: brightness, g2, indistinguishability are passed through,
`losses = 1 − transmittance` so the survival probability is the transmittance, and the multiphoton
model is "distinguishable" exactly when `g2_distinguishable`. -/
theorem from_noise_model_fields (brightness g2 q ind r transmittance : ℚ) (g2dist : Bool) :
    let P := ofNoise brightness g2 q ind r transmittance g2dist
    P.beta = brightness ∧ P.g2 = g2 ∧ P.ind = ind ∧ P.eta = transmittance ∧ P.dm = g2dist := by
  simp [ofNoise]

/-! ### the long-lived `Processor`: history-independence of `source_distribution` -/

/-- Every step of the processor (in-place update of any `NoiseModel` object, assignment of any object —
the one already held included —, new Fock input, CUSTOM input (an `SVDistribution` / `StateVector` / polarised
state of the user, which is stored in the very slot that caches the generated mixture),
`clear_input_and_circuit`, reading the distribution, direct use of the source, unrelated operations)
preserves the invariant: the source is built from the current values of the held noise object unless that
object was updated in place and not yet re-assigned; a cached generated distribution was generated by the
current source for the current input, which is a Fock state; a cached custom object is the current input and
a custom input is always cached. -/
theorem proc_step_inv (s : Proc) (op : ProcOp) (h : s.Inv) : (procStep s op).1.Inv := by
  obtain ⟨hs, hc, hcc, hck⟩ := h
  cases op with
  | mutate id v =>
    refine ⟨fun hd => ?_, hc, hcc, hck⟩
    simp only [procStep, Bool.or_eq_false_iff, decide_eq_false_iff_not] at hd ⊢
    rw [if_neg (fun e => hd.2 e.symm)]
    exact hs hd.1
  | assign id =>
    by_cases ha : (s.heap id).admissible = true
    · -- the cache survives exactly when the input is a custom one; then it holds that custom object
      cases hin : s.input with
      | none =>
        refine ⟨fun _ => ?_, fun d hd => ?_, fun c hd => ?_, fun c hi => ?_⟩ <;>
          simp [procStep, ha, Proc.hasCustomInput, hin] at *
      | some i =>
        cases i with
        | fock ns =>
          refine ⟨fun _ => ?_, fun d hd => ?_, fun c hd => ?_, fun c hi => ?_⟩ <;>
            simp [procStep, ha, Proc.hasCustomInput, hin] at *
        | custom c0 =>
          have hk := hck c0 hin
          refine ⟨fun _ => ?_, fun d hd => ?_, fun c hd => ?_, fun c hi => ?_⟩
          · simp [procStep, ha]
          · simp [procStep, ha, Proc.hasCustomInput, hin, hk] at hd
          · simp only [procStep, ha, Proc.hasCustomInput, hin, hk, if_true, Option.some.injEq,
              Cached.custom.injEq] at hd ⊢
            rw [hd]
          · simp only [procStep, ha, Proc.hasCustomInput, hin, hk, if_true, Option.some.injEq,
              Inp.custom.injEq] at hi ⊢
            rw [hi]
    · -- a rejected assignment: only the reference moves, and the ghost flag is raised
      refine ⟨fun hd => ?_, fun d hd => ?_, fun c hd => ?_, fun c hi => ?_⟩
      · simp [procStep, ha] at hd
      · simp only [procStep, ha] at hd ⊢; exact hc d hd
      · simp only [procStep, ha] at hd ⊢; exact hcc c hd
      · simp only [procStep, ha] at hi ⊢; exact hck c hi
  | input ns =>
    refine ⟨hs, fun d hd => ⟨ns, s.tag, rfl, ?_⟩, fun c hd => ?_, fun c hi => ?_⟩
    · simp only [procStep, Proc.fill, Option.some.injEq, Cached.gen.injEq] at hd
      exact hd.symm
    · simp [procStep, Proc.fill] at hd
    · simp [procStep, Proc.fill] at hi
  | custom c0 =>
    refine ⟨hs, fun d hd => ?_, fun c hd => ?_, fun c hi => ?_⟩
    · simp [procStep] at hd
    · simp only [procStep, Option.some.injEq, Cached.custom.injEq] at hd ⊢
      rw [hd]
    · simp only [procStep, Option.some.injEq, Inp.custom.injEq] at hi ⊢
      rw [hi]
  | clear =>
    refine ⟨hs, fun d hd => ?_, fun c hd => ?_, fun c hi => ?_⟩ <;> simp [procStep] at *
  | read =>
    unfold procStep
    cases hca : s.cache with
    | some d => exact ⟨hs, hc, hcc, hck⟩
    | none =>
      cases hin : s.input with
      | none => exact ⟨hs, hc, hcc, hck⟩
      | some i =>
        cases i with
        | custom c0 => exact ⟨hs, hc, hcc, hck⟩
        | fock ns =>
          refine ⟨hs, fun d hd => ⟨ns, s.tag, hin, ?_⟩, fun c hd => ?_, fun c hi => ?_⟩
          · simp only [Proc.fill, Option.some.injEq, Cached.gen.injEq] at hd
            exact hd.symm
          · simp [Proc.fill] at hd
          · simp [Proc.fill, hin] at hi
  | useSource ns thr => exact ⟨hs, hc, hcc, hck⟩
  | other => exact ⟨hs, hc, hcc, hck⟩

/-- … hence the invariant holds after EVERY history of a processor constructed with any noise object. -/
theorem proc_inv_all_histories (heap : ℕ → NoiseVal) (ref : ℕ) (ops : List ProcOp) :
    (procAfter heap ref ops).Inv :=
  SM.inv_exec procStep Proc.Inv proc_step_inv _
    ⟨fun _ => rfl, fun d hd => by simp [Proc.init] at hd, fun c hd => by simp [Proc.init] at hd,
      fun c hi => by simp [Proc.init] at hi⟩ ops

/-- History-independence: after ANY history (any interleaving of in-place updates, assignments of new,
equal or the very same `NoiseModel` object, Fock inputs, custom inputs, `clear_input_and_circuit`, reads that
fill the cache, direct uses of the source), provided the last in-place update of the held object has been
followed by an assignment, whenever the CURRENT input is a Fock state — whatever was the input before, a custom
distribution included — `Processor.source_distribution` is the mixture `Source.generate_distribution` builds
from `Source.from_noise_model` of the CURRENT values of the held noise object for the CURRENT input — for some
value `t` of the tag counter, which only names the fresh tags (every theorem above holds for all `t`). -/
theorem proc_source_distribution_current (heap : ℕ → NoiseVal) (ref : ℕ) (ops : List ProcOp)
    (hd : (procAfter heap ref ops).dirty = false) {ns : List ℕ}
    (hin : (procAfter heap ref ops).input = some (.fock ns)) :
    ∃ t, (procAfter heap ref ops).sourceDistribution =
      some (.gen (generate ((procAfter heap ref ops).heap (procAfter heap ref ops).ref).params 0 ns t)) := by
  obtain ⟨hs, hc, hcc, _⟩ := proc_inv_all_histories heap ref ops
  generalize procAfter heap ref ops = s at *
  unfold Proc.sourceDistribution procStep
  cases hca : s.cache with
  | some x =>
    cases x with
    | gen d =>
      obtain ⟨ns', t, h1, h2⟩ := hc d hca
      rw [hin, Option.some.injEq, Inp.fock.injEq] at h1
      exact ⟨t, by simp only [h2, h1, hs hd]⟩
    | custom c =>
      have := hcc c hca
      rw [hin] at this
      cases this
  | none =>
    simp only [hin]
    exact ⟨s.tag, by rw [hs hd]⟩

/-- A custom input bypasses the source: while it is the current input, `source_distribution` is the user's
own object, after any history (noise assignments included). -/
theorem proc_custom_input_returned (heap : ℕ → NoiseVal) (ref : ℕ) (ops : List ProcOp) {c : ℕ}
    (hin : (procAfter heap ref ops).input = some (.custom c)) :
    (procAfter heap ref ops).sourceDistribution = some (.custom c) := by
  obtain ⟨_, _, _, hck⟩ := proc_inv_all_histories heap ref ops
  generalize procAfter heap ref ops = s at *
  unfold Proc.sourceDistribution procStep
  rw [hck c hin]

/-- Without an input (never given, or removed by `clear_input_and_circuit`) there is no distribution. -/
theorem proc_no_input_no_distribution (heap : ℕ → NoiseVal) (ref : ℕ) (ops : List ProcOp)
    (hin : (procAfter heap ref ops).input = none) :
    (procAfter heap ref ops).sourceDistribution = none := by
  obtain ⟨_, hc, hcc, _⟩ := proc_inv_all_histories heap ref ops
  generalize procAfter heap ref ops = s at *
  unfold Proc.sourceDistribution procStep
  cases hca : s.cache with
  | some x =>
    cases x with
    | gen d =>
      obtain ⟨ns', t, h1, _⟩ := hc d hca
      rw [hin] at h1
      cases h1
    | custom c =>
      have := hcc c hca
      rw [hin] at this
      cases this
  | none => simp only [hin]

/-- The same for the source object itself: `processor.source` is `from_noise_model` of the current
values of the held noise object, so any direct request to it follows the current parameters. -/
theorem proc_source_current (heap : ℕ → NoiseVal) (ref : ℕ) (ops : List ProcOp)
    (hd : (procAfter heap ref ops).dirty = false) (ns : List ℕ) (thr : ℚ) :
    ∃ t, (procStep (procAfter heap ref ops) (.useSource ns thr)).2 =
      some (.gen (generate ((procAfter heap ref ops).heap (procAfter heap ref ops).ref).params thr ns t)) := by
  obtain ⟨hs, _⟩ := proc_inv_all_histories heap ref ops
  exact ⟨(procAfter heap ref ops).tag, by simp only [procStep, hs hd]⟩

/-- An ACCEPTED assignment (the values of the object pass the assertions of `Source.__init__`) always ends the
"updated in place / rejected" state, whatever object is assigned. -/
theorem proc_assign_clean (heap : ℕ → NoiseVal) (ref : ℕ) (ops : List ProcOp) (id : ℕ)
    (ha : ((procAfter heap ref ops).heap id).admissible = true) :
    (procAfter heap ref (ops ++ [.assign id])).dirty = false ∧
    (procAfter heap ref (ops ++ [.assign id])).ref = id := by
  simp only [procAfter] at ha
  simp [procAfter, SM.exec_append, SM.exec_cons, SM.exec_nil, procStep, ha]

/-- A REJECTED assignment (`Source.from_noise_model` raises inside `_noise_changed_observer`, after the setter has
stored the reference): `processor.noise` reports the rejected object, but the processor keeps the source, the tag
counter, the input and the cached distribution it had — it goes on answering for the values accepted last — and
nothing is claimed of its reads (`dirty`) until an assignment is accepted (`proc_assign_clean`).  In particular a
rejected assignment can never make a later judged read wrong: the invariant is kept (`proc_step_inv`). -/
theorem proc_assign_rejected (heap : ℕ → NoiseVal) (ref : ℕ) (ops : List ProcOp) (id : ℕ)
    (ha : ((procAfter heap ref ops).heap id).admissible = false) :
    let s := procAfter heap ref ops
    let s' := procAfter heap ref (ops ++ [.assign id])
    s'.ref = id ∧ s'.dirty = true ∧ s'.src = s.src ∧ s'.tag = s.tag ∧ s'.input = s.input ∧
      s'.cache = s.cache ∧ s'.heap = s.heap := by
  simp only [procAfter] at ha
  simp [procAfter, SM.exec_append, SM.exec_cons, SM.exec_nil, procStep, ha]


/-! ### individual probabilities (from the generating functions to their coefficients) -/

/-- The step from generating functions to probabilities: two list distributions whose (weighted) count
generating functions agree at every rational argument give every value of the count the same weight.
(Both sides are polynomials in `y`; ℚ is infinite; the weight of `{count = k}` is the `k`-th
coefficient.)  With `w = w' = 1` these are the probabilities of `{count = k}`. -/
theorem gf_determines_law {α β : Type} (w : α → ℚ) (c : α → ℕ) (d : Dist α) (w' : β → ℚ) (c' : β → ℕ)
    (d' : Dist β)
    (h : ∀ y : ℚ, E (fun x => w x * y ^ c x) d = E (fun x => w' x * y ^ c' x) d') (k : ℕ) :
    E (fun x => if c x = k then w x else 0) d = E (fun x => if c' x = k then w' x else 0) d' :=
  law_of_gf w c d w' c' d' h k

/-- `probability_distribution(n)` delivers exactly `k` photons with probability
`countCoeff p0 π1 π2 n k = Σ_{l ≤ k/2} C(n, k−l) · C(k−l, l) · p0^(n−k+l) · π1^(k−2l) · π2^l`
(`l` = number of requested photons that deliver two).  For one requested photon these are
`p0, π1, π2, 0, 0, …`; no photon at all has probability `p0^n`. -/
theorem photon_count_pmf {P : Params} (hP : P.WF) (n t k : ℕ) :
    massP (fun m => decide (m.length = k)) (probDist P 0 n t) =
      countCoeff (p0 P) (pi1 P) (pi2 P) n k ∧
    countCoeff (p0 P) (pi1 P) (pi2 P) n k =
      ∑ l ∈ Finset.range (k / 2 + 1), ((n.choose (k - l) : ℚ) * ((k - l).choose l : ℚ) *
        p0 P ^ (n - (k - l)) * pi1 P ^ (k - l - l) * pi2 P ^ l) ∧
    countCoeff (p0 P) (pi1 P) (pi2 P) n 0 = p0 P ^ n ∧
    (countCoeff (p0 P) (pi1 P) (pi2 P) 1 0 = p0 P ∧ countCoeff (p0 P) (pi1 P) (pi2 P) 1 1 = pi1 P ∧
      countCoeff (p0 P) (pi1 P) (pi2 P) 1 2 = pi2 P ∧
      ∀ k, 2 < k → countCoeff (p0 P) (pi1 P) (pi2 P) 1 k = 0) :=
  ⟨probDist_count_point hP n t k, rfl, countCoeff_zero _ _ _ n, countCoeff_one _ _ _⟩

/-- Law of the total photon number of the generated mixture, probability by probability: the trinomial
law with `N = Σ nᵢ` trials (coefficient-wise form of `photon_number_law`). -/
theorem photon_number_pmf {P : Params} (hP : P.WF) {ns : List ℕ} (hne : ns ≠ []) (t k : ℕ) :
    massP (fun s => decide (photons s = k)) (generateAt P 0 ns t) =
      countCoeff (p0 P) (pi1 P) (pi2 P) ns.sum k :=
  generateAt_photons_point hP hne t k

/-- Joint law of the photon counts per mode, probability by probability: mode `i` holds `ks[i]` photons
for every `i` with probability `∏ᵢ countCoeff p0 π1 π2 nᵢ kᵢ` (coefficient-wise form of
`photon_count_marginal`); a list `ks` of the wrong length has probability `0`. -/
theorem photon_count_joint_pmf {P : Params} (hP : P.WF) {ns : List ℕ} (hne : ns ≠ []) (t : ℕ)
    (ks : List ℕ) :
    massP (fun s => decide (s.map List.length = ks)) (generateAt P 0 ns t) =
      if ks.length = ns.length then (List.zipWith (countCoeff (p0 P) (pi1 P) (pi2 P)) ns ks).prod
      else 0 :=
  generateAt_counts_point hP hne t ks

/-- Tag law, probability by probability (coefficient-wise form of `tag_law`): the joint law of
(number of photons with the common tag, number of photons with a fresh tag) in the generated mixture is
the law of the componentwise sum of `N = Σ nᵢ` independent draws from the physical description of one
requested photon `physOne P` (nothing emitted `1−β`; the signal `p1`; signal + extra `p2`; every emitted
photon survives with probability `η`; the signal is common with probability `r`, the extra photon is
fresh or common according to the multiphoton model). -/
theorem tag_pmf {P : Params} (hP : P.WF) {ns : List ℕ} (hne : ns ≠ []) (t u v : ℕ) :
    massP (fun s => decide (nCommon s = u ∧ nFresh s = v)) (generateAt P 0 ns t) =
      massP (fun l => decide ((l.map Prod.fst).sum = u ∧ (l.map Prod.snd).sum = v))
        (iid (physOne P) ns.sum) ∧
    NonNeg (iid (physOne P) ns.sum) ∧ mass (iid (physOne P) ns.sum) = 1 :=
  ⟨generateAt_tags_point hP hne t (physOne P) (physOne_gf P) u v,
    iid_NonNeg _ (physOne_NonNeg hP) _, by rw [mass_iid, physOne_mass, one_pow]⟩

/-- One requested photon, probability by probability, with the class of the tags: it delivers `u` photons
with the common tag and `v` with a fresh tag with the probability the physical description gives, explicitly
(`p1to1 = η p1`, `p2to1 = η(1−η) p2`, `p2to2 = η² p2`, `r = √I`):
nothing `p0`; one common `r (p1to1 + p2to1)` (+ `p2to1` in the "indistinguishable" model); one fresh
`(1−r)(p1to1 + p2to1)` (+ `p2to1` in the "distinguishable" model); two common `r·p2to2` ("indistinguishable"
only); one common + one fresh `r·p2to2` ("distinguishable") or `(1−r)·p2to2` ("indistinguishable"); two fresh
`(1−r)·p2to2` ("distinguishable" only). -/
theorem tag_class_one {P : Params} (hP : P.WF) (t : ℕ) :
    (∀ u v, massP (fun m => decide (mCommon m = u ∧ mFresh m = v)) (onePhoton P t) =
      massP (fun x => decide (x = (u, v))) (physOne P)) ∧
    massP (fun x => decide (x = (0, 0))) (physOne P) = p0 P ∧
    massP (fun x => decide (x = (1, 0))) (physOne P) =
      P.r * (p11 P + p21 P) + (if P.dm then 0 else p21 P) ∧
    massP (fun x => decide (x = (0, 1))) (physOne P) =
      (1 - P.r) * (p11 P + p21 P) + (if P.dm then p21 P else 0) ∧
    massP (fun x => decide (x = (2, 0))) (physOne P) = (if P.dm then 0 else P.r * p22 P) ∧
    massP (fun x => decide (x = (1, 1))) (physOne P) =
      (if P.dm then P.r * p22 P else (1 - P.r) * p22 P) ∧
    massP (fun x => decide (x = (0, 2))) (physOne P) = (if P.dm then (1 - P.r) * p22 P else 0) :=
  ⟨onePhoton_class hP t, physOne_point P⟩

/-- Independence across modes, probability by probability: for ANY observable `κ` of a mode whose law under
`probability_distribution(n)` is `F n` (whatever the tag counter), the joint law of `(κ(mode 0), κ(mode 1), …)`
in the generated mixture is the product `∏ᵢ F nᵢ cᵢ` (event-level form of `dist_tensor`). -/
theorem modes_independent_pmf {K : Type} [DecidableEq K] {P : Params} (hP : P.WF) (κ : Mode → K)
    (F : ℕ → K → ℚ)
    (hF : ∀ n t c, massP (fun m => decide (κ m = c)) (probDist P 0 n t) = F n c)
    {ns : List ℕ} (hne : ns ≠ []) (t : ℕ) (cs : List K) :
    massP (fun s => decide (s.map κ = cs)) (generateAt P 0 ns t) =
      if cs.length = ns.length then (List.zipWith F ns cs).prod else 0 :=
  generateAt_key_point hP κ F hF hne t cs

/-- Joint tag law per mode, probability by probability: mode `i` holds `cs[i].1` photons with the common tag
and `cs[i].2` photons with a fresh tag, for every `i`, with probability `∏ᵢ Pr[sum of nᵢ independent draws of
physOne = cs[i]]`. -/
theorem tag_joint_pmf {P : Params} (hP : P.WF) {ns : List ℕ} (hne : ns ≠ []) (t : ℕ)
    (cs : List (ℕ × ℕ)) :
    massP (fun s => decide (s.map (fun m => (mCommon m, mFresh m)) = cs)) (generateAt P 0 ns t) =
      if cs.length = ns.length then
        (List.zipWith (fun n c => massP
          (fun l : List (ℕ × ℕ) => decide (((l.map Prod.fst).sum, (l.map Prod.snd).sum) = c))
          (iid (physOne P) n)) ns cs).prod
      else 0 :=
  generateAt_key_point hP _ _ (fun n t c => probDist_class_point hP n t c) hne t cs

/-! ### the event table is the law of the per-photon categorical counts -/

/-- DESIGN's `prob_table_eq_counts`.  Classify each of the `n` requested photons independently as
"signal alone / extra photon alone / both / nothing" with the four numbers of `_compute_prob_table`
(`catDist P`); the event of a sequence of categories is its triple of counts (`catCounts`).  Then
* the keys of the table (filtered or not) are pairwise different — `prob_table[(i,j,k)] = …` never
  overwrites, the list of the model is a faithful picture of the dict;
* every entry of the unfiltered table is exactly the probability of its event;
* the probability of EVERY triple `(i, j, k)` — in the table or not (the truthiness short-cuts of the loops
  leave out keys) — is the multinomial `n!/(i! j! k! (n−i−j−k)!) · p_signal^i p_g2^j p_duo^k p0^(n−i−j−k)` when
  `i + j + k ≤ n` and `0` otherwise, and it is the weight the table gives to that key;
* the categorical draws are a probability law (non-negative, mass one). -/
theorem prob_table_eq_counts {P : Params} (hP : P.WF) (n : ℕ) :
    (∀ f, ((table P n f).map Prod.fst).Nodup) ∧
    (∀ e ∈ table P n 0,
      e.2 = massP (fun l => decide (catCounts l = e.1)) (iid (catDist P) n)) ∧
    (∀ i j k, massP (fun l => decide (catCounts l = (i, j, k))) (iid (catDist P) n) =
        (if i + j + k ≤ n then coef (pSignal P) (pG2 P) (pDuo P) (pNone P) n i j k else 0) ∧
      massP (fun l => decide (catCounts l = (i, j, k))) (iid (catDist P) n) =
        massP (fun e => decide (e = (i, j, k))) (table P n 0)) ∧
    (NonNeg (iid (catDist P) n) ∧ mass (iid (catDist P) n) = 1) := by
  have hk : ∀ f, ((table P n f).map Prod.fst).Nodup := by
    intro f
    have h := tableRawOf_keys_nodup (pSignal P) (pG2 P) (pDuo P) (pNone P) n f
    unfold table
    split
    · exact h
    · simpa [tableRaw, List.map_map, Function.comp_def] using h
  refine ⟨hk, ?_, ?_, iid_NonNeg _ (catDist_NonNeg hP) n, ?_⟩
  · intro e he
    rw [← massP_key_of_nodup (table P n 0) (hk 0) e he]
    obtain ⟨i, j, k⟩ := e.1
    exact table_eq_cat_counts P n i j k
  · intro i j k
    have h1 := table_eq_cat_counts P n i j k
    refine ⟨?_, h1.symm⟩
    rw [← h1, massP]
    have h2 := table_point (pSignal P) (pG2 P) (pDuo P) (pNone P) n i j k
    simp only [table, if_true, tableRaw]
    rw [← h2]
    apply E_congr
    intro e
    simp
  · rw [mass_iid, catDist_mass, one_pow]

/-- The filtered table is the CONDITIONAL law of the categorical counts: `phys_perf` is the probability that
the `n` independent categorical draws deliver at least `f` photons, and every entry of the table returned
for a filter `f ≠ 0` satisfies the filter and is the probability of its event divided by that probability. -/
theorem prob_table_filtered_eq_counts (P : Params) (n f : ℕ) :
    physPerf P n f =
      massP (fun l => decide (f ≤ evPhotons (catCounts l))) (iid (catDist P) n) ∧
    (f ≠ 0 → ∀ e ∈ table P n f, f ≤ evPhotons e.1 ∧
      e.2 = massP (fun l => decide (catCounts l = e.1)) (iid (catDist P) n) /
        massP (fun l => decide (f ≤ evPhotons (catCounts l))) (iid (catDist P) n)) :=
  ⟨physPerf_eq_cat P n f, table_filtered_entry P n f⟩

/-- … and these categorical draws are the per-photon structure of the generated mixture (`dist_tensor`):
with the tags `_events_to_samples` attaches to an event (signal photon common with probability `r`, extra
photon fresh or common according to the model; `catTag P`) `N = Σ nᵢ` independent categorical draws give
the joint law of (common-tag photons, fresh-tag photons) of `generate_distribution`, and the photon number
of the events (`i + j + 2k`) has, under the table as under the categorical draws, the law of the photon
number of `generate_distribution` — probability by probability. -/
theorem prob_table_counts_match_distribution {P : Params} (hP : P.WF) {ns : List ℕ} (hne : ns ≠ [])
    (t : ℕ) :
    (∀ u v, massP (fun s => decide (nCommon s = u ∧ nFresh s = v)) (generateAt P 0 ns t) =
      massP (fun l => decide ((l.map Prod.fst).sum = u ∧ (l.map Prod.snd).sum = v))
        (iid (catTag P) ns.sum)) ∧
    (∀ k, massP (fun s => decide (photons s = k)) (generateAt P 0 ns t) =
      massP (fun e => decide (evPhotons e = k)) (table P ns.sum 0)) ∧
    (∀ k, massP (fun s => decide (photons s = k)) (generateAt P 0 ns t) =
      massP (fun l => decide (evPhotons (catCounts l) = k)) (iid (catDist P) ns.sum)) ∧
    (NonNeg (iid (catTag P) ns.sum) ∧ mass (iid (catTag P) ns.sum) = 1) := by
  refine ⟨fun u v => generateAt_tags_point hP hne t (catTag P) (catTag_gf P) u v, fun k => ?_,
    fun k => ?_, iid_NonNeg _ (catTag_NonNeg hP) _, by rw [mass_iid, catTag_mass, one_pow]⟩
  · exact law_of_gf_count photons _ evPhotons _
      (fun y => (prob_table_matches_distribution hP hne t y).symm) k
  · refine law_of_gf_count photons _ (fun l => evPhotons (catCounts l)) _ (fun y => ?_) k
    rw [photon_number_law hP hne]
    have h := E_iid_cat P y y (y ^ 2) ns.sum
    rw [E_congr (g' := fun l => y ^ evPhotons (catCounts l))
      (fun l => by simp only [evPhotons, pow_add, pow_mul])] at h
    rw [h]
    congr 1
    simp only [poly, pSignal, pG2, pDuo, pNone, p0, pi1, pi2]
    ring

/-! ### how much the trimming removes -/

/-- Quantitative trimming bound: at any threshold `θ ≥ 0` the product, before normalisation, keeps at least
`1 − θ · lossCount ns` of the mass.  `lossCount ns` (a function of the input only) counts the places where
an entry of weight `≤ θ` can be dropped: the trims of the factors and the nodes of the two depth-first
products; `lossCount ns ≤ 9 · #modes · 5^(Σ nᵢ)`. -/
theorem trimmed_mass_ge {P : Params} (hP : P.WF) (θ : ℚ) (hθ : 0 ≤ θ) {ns : List ℕ} (hne : ns ≠ [])
    (t : ℕ) :
    1 - θ * (lossCount ns : ℚ) ≤ mass (generateRaw P θ ns t) ∧
    lossCount ns ≤ 9 * (ns.length * 5 ^ ns.sum) :=
  ⟨mass_generateRaw_ge hP θ hθ hne t, lossCount_le ns⟩

/-- … hence the distribution `generate_distribution` returns (trimmed at `max(prob_threshold, 1e-16)`, then
renormalised) is close to the exact product law in total variation: every event — every test function with
values in `[0, 1]` — gets a probability within `θ · lossCount ns` of the exact one, `θ` the effective
threshold (no smallness assumption: when the bound exceeds 1 it holds trivially).  With the default threshold
this is `lossCount ns / 10^16`. -/
theorem generate_close_to_exact {P : Params} (hP : P.WF) (thr : ℚ) {ns : List ℕ} (hne : ns ≠ []) (t : ℕ)
    (g : State → ℚ) (hg0 : ∀ s, 0 ≤ g s) (hg1 : ∀ s, g s ≤ 1) :
    |E g (generate P thr ns t) - E g (generateAt P 0 ns t)| ≤ max thr minP * (lossCount ns : ℚ) ∧
    (thr ≤ minP → max thr minP * (lossCount ns : ℚ) = (lossCount ns : ℚ) / 10 ^ 16) := by
  have hθ : (0 : ℚ) ≤ max thr minP := le_max_of_le_right (by norm_num [minP])
  refine ⟨generateAt_close_all hP _ hθ hne t g hg0 hg1, fun h => ?_⟩
  rw [max_eq_right h, minP]
  ring

/-- Example of use: the probability of `k` photons in the RETURNED distribution (default or any threshold)
is within `θ · lossCount ns` of the trinomial coefficient. -/
theorem generate_photon_number_close {P : Params} (hP : P.WF) (thr : ℚ) {ns : List ℕ} (hne : ns ≠ [])
    (t k : ℕ) :
    |massP (fun s => decide (photons s = k)) (generate P thr ns t) -
      countCoeff (p0 P) (pi1 P) (pi2 P) ns.sum k| ≤ max thr minP * (lossCount ns : ℚ) := by
  rw [← photon_number_pmf hP hne t k]
  exact (generate_close_to_exact hP thr hne t _ (fun s => by split <;> norm_num)
    (fun s => by split <;> norm_num)).1


/-! ### the tag counter after `_generate_samples_no_filter` (model only) -/

/-- The tag counter `_generate_samples_no_filter` leaves behind, as the model has it (`nfTag`; the harness does
NOT compare this value with the code, so this is a statement about the model only): for an imperfect,
partially distinguishable source it is the value `generate_distribution` leaves for the same input (`genTag`:
both allocate one block of tags per requested photon, so the no-filter sampler and the distribution builder
name their photons alike — the reason `sampler_no_filter_law` holds with the tags and not only up to
renaming); for a source without annotations one call of `_generate_one_photon_distribution` advanced it
(`nextTag`); it never decreases, so tags handed out afterwards are new. -/
theorem sampler_tag_counter_model (P : Params) (ns : List ℕ) (t : ℕ) (h : isPerfect P = false) :
    (partDist P = true → nfTag P ns t = genTag P ns t) ∧
    (partDist P = false → nfTag P ns t = nextTag P t) ∧ t ≤ nfTag P ns t := by
  refine ⟨fun hp => ?_, fun hp => ?_, ?_⟩
  · simp only [nfTag, hp, if_true]; exact genTagPd_eq_genTag h ns t
  · simp [nfTag, hp]
  · by_cases hp : partDist P = true
    · simp only [nfTag, hp, if_true]; rw [genTagPd_eq_genTag h]; exact le_genTag P ns t
    · simp only [nfTag, hp, Bool.false_eq_true, if_false]; exact le_nextTag P t

/-! ### a parameter-dependent trimming bound -/

/-- The number of outcomes of one requested photon, `width P` = the number of entries of
`_generate_one_photon_distribution` that `Source._add` keeps (positive probability), depends on the
parameters only — not on the tag counter — and on the pattern of imperfections: between 1 and 5 for every
well-formed source, at most 3 when there is no multi-photon emission (`g2 = 0`) or no annotation (the source
is not partially distinguishable), at most 2 for a source that loses nothing and emits exactly one photon
per request (indistinguishability the only possible defect). -/
theorem width_of_pattern (P : Params) :
    (∀ t, (onePhoton P t).length = width P) ∧ width P ≤ 5 ∧ (P.WF → 1 ≤ width P) ∧
    ((P.g2 = 0 ∨ partDist P = false) → width P ≤ 3) ∧
    (P.beta = 1 → P.g2 = 0 → P.eta = 1 → width P ≤ 2) :=
  ⟨length_onePhoton P, width_le_five P, one_le_width, width_le_three, width_le_two⟩

/-- Sharper, parameter-dependent trimming bound: at any threshold `θ ≥ 0` the product keeps, before
normalisation, at least `1 − θ · lossCountW (width P) ns` of the mass, `lossCountW c ns` the count of the
places where an entry `≤ θ` can be dropped when a requested photon has `c` outcomes (`lossCountW 5 = lossCount`,
the worst case of `trimmed_mass_ge`).  It never exceeds the worst-case count, and for `c = width P ≥ 2` it is
at most `9 · #modes · c^(Σ nᵢ)` — the base of the exponential is the number of outcomes the source really has
(2, 3, … instead of 5). -/
theorem trimmed_mass_ge_width {P : Params} (hP : P.WF) (θ : ℚ) (hθ : 0 ≤ θ) {ns : List ℕ} (hne : ns ≠ [])
    (t : ℕ) :
    1 - θ * (lossCountW (width P) ns : ℚ) ≤ mass (generateRaw P θ ns t) ∧
    lossCountW (width P) ns ≤ lossCount ns ∧
    (2 ≤ width P → lossCountW (width P) ns ≤ 9 * (ns.length * width P ^ ns.sum)) ∧
    (∀ c, width P ≤ c → lossCountW (width P) ns ≤ lossCountW c ns) :=
  ⟨mass_generateRaw_geW hP θ hθ hne t, lossCountW_width_le P ns, fun h => lossCountW_le h ns,
    fun _ h => lossCountW_mono h ns⟩

/-- … and the distribution `generate_distribution` RETURNS (any threshold, renormalised) gives every event —
every test function with values in `[0, 1]` — a probability within `θ · lossCountW (width P) ns` of the exact
product law, `θ = max(prob_threshold, 1e-16)` (no smallness assumption). -/
theorem generate_close_to_exact_width {P : Params} (hP : P.WF) (thr : ℚ) {ns : List ℕ} (hne : ns ≠ [])
    (t : ℕ) (g : State → ℚ) (hg0 : ∀ s, 0 ≤ g s) (hg1 : ∀ s, g s ≤ 1) :
    |E g (generate P thr ns t) - E g (generateAt P 0 ns t)| ≤
      max thr minP * (lossCountW (width P) ns : ℚ) := by
  have hθ : (0 : ℚ) ≤ max thr minP := le_max_of_le_right (by norm_num [minP])
  exact generateAt_close_of hP _ hne t _ (mass_generateRaw_geW hP _ hθ hne t) g hg0 hg1

/-- For the source whose only imperfection is the indistinguishability (the HOM setting of the property)
the base of the exponential is 2: the returned distribution is within `θ · 9 · #modes · 2^N` of the exact
law (at the default threshold informative up to about 45 photons instead of 20). -/
theorem generate_close_to_exact_hom_only {P : Params} (hP : P.WF) (hb : P.beta = 1) (hg : P.g2 = 0)
    (he : P.eta = 1) (thr : ℚ) {ns : List ℕ} (hne : ns ≠ []) (t : ℕ) (g : State → ℚ)
    (hg0 : ∀ s, 0 ≤ g s) (hg1 : ∀ s, g s ≤ 1) :
    |E g (generate P thr ns t) - E g (generateAt P 0 ns t)| ≤
      max thr minP * ((9 * (ns.length * 2 ^ ns.sum) : ℕ) : ℚ) := by
  have hθ : (0 : ℚ) ≤ max thr minP := le_max_of_le_right (by norm_num [minP])
  refine le_trans (generate_close_to_exact_width hP thr hne t g hg0 hg1)
    (mul_le_mul_of_nonneg_left (Nat.cast_le.mpr ?_) hθ)
  exact le_trans (lossCountW_mono (width_le_two hb hg he) ns) (lossCountW_le (le_refl 2) ns)


/-- A weight-dependent statement, exact instead of a bound: when the effective threshold
`max(prob_threshold, 1e-16)` is below `wmin P ^ N` — `wmin P` the smallest probability of an outcome of one
requested photon (positive, at most 1, the same for every value of the tag counter), `N = Σ nᵢ`, i.e. below the
smallest weight any branch of the two depth-first products and any accumulated entry can have — NOTHING is
trimmed: `generate_distribution` returns, entry by entry and in the same order, the exact untrimmed product
law, so every theorem stated for `generateAt P 0` holds for the returned list itself.  (No well-formedness
hypothesis; e.g. outcomes of probability `≥ 1e-3` and up to 5 requested photons at the default threshold.) -/
theorem no_trimming_below_min_weight (P : Params) (thr : ℚ) (ns : List ℕ) (t : ℕ)
    (h : max thr minP < wmin P ^ ns.sum) :
    generate P thr ns t = generateAt P 0 ns t ∧ 0 < wmin P ∧ wmin P ≤ 1 ∧
    ∀ t', ∀ e ∈ onePhoton P t', wmin P ≤ e.2 :=
  ⟨generateAt_eq_of_small P _ ns t h, wmin_pos P, wmin_le_one P, wmin_le P⟩


/-! ### the direct sample generator as a function of its random draws (`Model/C06Samp.lean`) -/

/-- What `generate_samples` does before any draw: a perfect source returns the input (no draw at all); no filter →
`_generate_samples_no_filter`; a filter that cannot be met because nothing is ever transmitted → no sample;
otherwise the event-table route (an empty table — filter above `2n` — makes `random.choices` raise). -/
theorem sampler_route (P : Params) (n f : ℕ) :
    (isPerfect P = true → sampRoute P n f = .perfect) ∧
    (isPerfect P = false → f = 0 → sampRoute P n f = .noFilter) ∧
    (sampRoute P n f = .events → isPerfect P = false ∧ f ≠ 0 ∧ P.beta * P.eta ≠ 0 ∧ table P n f ≠ []) := by
  refine ⟨fun h => by simp [sampRoute, h], fun h hf => by simp [sampRoute, h, hf], fun h => ?_⟩
  unfold sampRoute at h
  split at h
  · cases h
  · next h1 =>
    split at h
    · cases h
    · next h2 =>
      split at h
      · cases h
      · next h3 =>
        split at h
        · cases h
        · next h4 => exact ⟨by simpa using h1, h2, h3, by simpa [List.isEmpty_iff] using h4⟩

/-- **The no-filter sampler draws from `generate_distribution`.**  `_generate_samples_no_filter` is a deterministic
function of the indices drawn by its `bsd.sample` calls (`nfSample`); when these indices are independent with the
ideal law of `random.choices` (index `i` with probability `wᵢ/Σw`, `nfDrawLaw`), the law of one sample (`nfLaw`) gives
EVERY test function of the state the expectation the untrimmed product law of `generate_distribution` gives it — the
two laws are the same (not only up to renaming of tags: the sampler allocates the same tags, in both branches:
a new one-photon distribution per requested photon when partially distinguishable, one shared distribution
otherwise), and `k` samples are `k` independent copies.  For a perfect source the sampler returns the input, as
`generate_distribution` does (`perfect_source_id`). -/
theorem sampler_no_filter_law {P : Params} (hP : P.WF) (hperf : isPerfect P = false) {ns : List ℕ}
    (hne : ns ≠ []) (t : ℕ) :
    (∀ g : State → ℚ, E g (nfLaw P ns t) = E g (generateAt P 0 ns t)) ∧
    (∀ (g : State → ℚ) (k : ℕ), E (fun l => (l.map g).prod) (iid (nfLaw P ns t) k) =
      E g (generateAt P 0 ns t) ^ k) ∧
    mass (nfLaw P ns t) = 1 := by
  have h := nfLaw_same hP hperf hne t
  refine ⟨h, fun g k => by rw [E_iid_prod, h], ?_⟩
  rw [mass_eq_E, h, ← mass_eq_E]
  exact (dist_tensor hP (fun _ _ => 1) hne t).2

/-- **The `k` samples of one no-filter request are `k` independent draws from `generate_distribution`** — the
re-indexing made formal.  `_generate_samples_no_filter` makes, mode after mode and requested photon after requested
photon, ONE call `bsd.sample(k)` = one `random.choices(…, k=k)` per requested photon; sample `i` is built from the
`i`-th index of every call (`nfSamples`: rows of the array of draws, cut into the calls of each mode).  With every
call's `k` indices independent and ideal and the calls independent, EVERY test function `G` of the list of the `k`
samples has the expectation `k` independent draws from the one-sample law give it — which is the untrimmed law of
`generate_distribution` (`sampler_no_filter_law`) —, in particular products of functions of the single samples
factorise with `E g (generate_distribution)` as factors. -/
theorem sampler_no_filter_samples_iid {P : Params} (hP : P.WF) (hperf : isPerfect P = false) {ns : List ℕ}
    (hne : ns ≠ []) (t k : ℕ) :
    (∀ G : List State → ℚ,
      E (fun calls => G (nfSamples (nfDists P ns t) k calls))
          (prodLaw ((nfDists P ns t).flatten.map fun d => iid (sampleIdxLaw d) k)) =
        E G (iid (nfLaw P ns t) k)) ∧
    (∀ g : State → ℚ,
      E (fun calls => ((nfSamples (nfDists P ns t) k calls).map g).prod)
          (prodLaw ((nfDists P ns t).flatten.map fun d => iid (sampleIdxLaw d) k)) =
        E g (generateAt P 0 ns t) ^ k) ∧
    (∀ calls, (nfSamples (nfDists P ns t) k calls).length = k) := by
  refine ⟨fun G => nfSamples_iid (nfDists P ns t) k G, fun g => ?_, fun calls => nfSamples_length _ k calls⟩
  rw [nfSamples_iid_prod, ← nfLaw_same hP hperf hne t g]
  rfl

/-- **The event-table route draws from `generate_distribution` conditioned on the photon filter** — proved for the
photons a sample carries, NOT for their arrangement over the modes.  `_events_to_samples` is a deterministic function
of the event index, of the booleans of `_generate_distinguishability` and of the permutation `random.shuffle` effects
(`fSample`).  For EVERY law `σ` of that permutation (supported on permutations; in particular the uniform one,
`shuffleLaw`), with the event index and the booleans independent and ideal:
* every sample carries exactly the `i + j + 2k` photons of its event — and every event of a filtered table has at
  least `f` of them (`prob_table_filtered_eq_counts`), so the filter is met by construction — and no two of its
  photons carry the same non-common tag (whatever the booleans, the permutation, the tag counter);
* for all weights `a`, `b` of the two tag classes the class generating function of one sample is the one of
  `generate_distribution` conditioned on `≥ f` photons, hence, probability by probability, the joint law of (photons
  with the common tag, photons with a fresh tag) — in particular of the photon number — is that conditional law.
Full statement wanted (not proved HERE; proved since, under a uniform shuffle, as `sampler_filtered_law` below): the law of the sample on states up to renaming of fresh tags, i.e. the joint law
of the per-mode pairs (common, fresh), equals the conditional law.  Missing: that a uniformly shuffled list with
multinomial category counts is a sequence of independent categorical draws (the placement of the photons into the
modes).  The placement is compared with the code exactly on recorded and on exhaustively forced draws by the
correspondence, and the per-mode law is evaluated on the real code by exhaustive forcing for small inputs. -/
theorem sampler_filtered_law_partial {P : Params} (hP : P.WF) {ns : List ℕ} (hne : ns ≠ []) (f t : ℕ)
    (hf : f ≠ 0) (hperf : physPerf P ns.sum f ≠ 0) (σ : Dist (List ℕ))
    (hσ : ∀ p ∈ σ, p.1.Perm (List.range ns.sum)) (hm : mass σ = 1) :
    (∀ (i : ℕ) (bs : List Bool) (perm : List ℕ), perm.Perm (List.range ns.sum) →
      photons (fSample P.dm ns t (eventOf P ns.sum f i) bs perm) = evPhotons (eventOf P ns.sum f i) ∧
      (freshTags (fSample P.dm ns t (eventOf P ns.sum f i) bs perm).flatten).Nodup) ∧
    (∀ a b : ℚ, E (fun s => a ^ nCommon s * b ^ nFresh s) (fLaw P ns f t σ) =
      E (fun s => a ^ nCommon s * b ^ nFresh s) (condMin f (generateAt P 0 ns t))) ∧
    (∀ u v, massP (fun s => decide (nCommon s = u ∧ nFresh s = v)) (fLaw P ns f t σ) =
      massP (fun s => decide (nCommon s = u ∧ nFresh s = v)) (condMin f (generateAt P 0 ns t))) ∧
    ((∀ p ∈ shuffleLaw ns.sum, p.1.Perm (List.range ns.sum)) ∧ mass (shuffleLaw ns.sum) = 1) :=
  ⟨fun i bs perm hp => ⟨fSample_photons P.dm ns t _ bs perm (eventOf_le P ns.sum f i) hp,
      (fSample_fresh P.dm ns t _ bs perm (eventOf_le P ns.sum f i) hp).choose_spec.1⟩,
    fun a b => fLaw_gf hP hne f t hf hperf σ hσ hm a b,
    fun u v => fLaw_class_pmf hP hne f t hf hperf σ hσ hm u v,
    shuffleLaw_perm ns.sum, shuffleLaw_mass ns.sum⟩

/-- **The event-table route draws from `generate_distribution` conditioned on the photon filter — placement over the
modes included.**  The *per-mode class profile* of a state (`profile s`: for every mode, how many of its photons carry
the common tag and how many carry a fresh tag) is the state up to the names of its fresh tags: by `tags_fresh` /
the first clause of `sampler_filtered_law_partial` a fresh tag occurs once in a state, so a mode is `u` copies of
`_:0` and `v` tags that occur nowhere else, and which numbers these carry is an artefact of the tag counter (the
sampler resets it after every event, `generate_distribution` does not).  With the event index and the booleans of
`_generate_distinguishability` independent and ideal and the permutation of `random.shuffle` UNIFORM (`shuffleLaw`),
one sample of `_events_to_samples` gives EVERY test function `F` of the profile the expectation
`generate_distribution` conditioned on `≥ f` photons gives it — hence, profile by profile, the same probability.
This is the clause `sampler_filtered_law_partial` left open (there: only the totals over the modes, for every law
of the shuffle).  The combinatorial core (`Lemmas/C06Place.lean`, `Lemmas/C06Shuffle.lean`): a uniformly shuffled
list whose category counts are multinomial is a sequence of independent categorical draws
(`table_shuffle_iid`, from `E_iid_perms`: the sum over all permutations of an iid list is `n!` times the iid
expectation, by insertion exchangeability), the booleans refine the slots independently (`E_evKinds`), and the modes
take consecutive blocks (`massP_blockSum_iid`).
Not part of the statement: the independence of the `k` samples of one request (stated for rows of draws in
`sampler_no_filter_law`; the booleans of one `random.choices` call are consumed event after event, `fSamples`). -/
theorem sampler_filtered_law {P : Params} (hP : P.WF) {ns : List ℕ} (hne : ns ≠ []) (f t : ℕ)
    (hf : f ≠ 0) (hperf : physPerf P ns.sum f ≠ 0) :
    (∀ F : List (ℕ × ℕ) → ℚ,
      E (fun s => F (profile s)) (fLaw P ns f t (shuffleLaw ns.sum)) =
        E (fun s => F (profile s)) (condMin f (generateAt P 0 ns t))) ∧
    (∀ cs : List (ℕ × ℕ),
      massP (fun s => decide (profile s = cs)) (fLaw P ns f t (shuffleLaw ns.sum)) =
        massP (fun s => decide (profile s = cs)) (condMin f (generateAt P 0 ns t))) ∧
    -- the unconditioned core, for every function of the list of slot classes: multinomial event, classes of the
    -- slots independent given their categories, uniform shuffle = independent draws from the physical description
    (∀ (n : ℕ) (H : List (ℕ × ℕ) → ℚ),
      E (fun e => E (shAvg H) (prodLaw ((canon n e).map (kindLaw P)))) (table P n 0) = E H (iid (physOne P) n)) ∧
    -- the profile of `generate_distribution` is the block sums of such a sequence
    (∀ F : List (ℕ × ℕ) → ℚ,
      E (fun s => F (profile s)) (generateAt P 0 ns t) = E (fun x => F (blockSum ns x)) (iid (physOne P) ns.sum)) :=
  ⟨fun F => fLaw_profile_law hP hne f t hf hperf F, fun cs => fLaw_profile_pmf hP hne f t hf hperf cs,
    fun n H => table_shuffle_iid P n H, fun F => generateAt_profile hP hne t F⟩

/-- **The profile is the state up to the names of its fresh tags.**  Two states in each of which every fresh tag occurs
once (`tags_fresh` for `generate_distribution`, first clause of `sampler_filtered_law_partial` for the sampler), the
second of which writes the common tag in one way (`c0`; `{_:0}` in the code), have the same per-mode class profile
IF AND ONLY IF one is the other with its tags renamed (`Renamed ρ s s'`: mode by mode, up to the order of the photons
inside a mode) by a renaming `ρ` that keeps common tags common and fresh tags fresh — and the renaming can be chosen
injective on the fresh tags of the first state.  So `sampler_filtered_law`, stated for functions of the profile, is the
statement "the sample, up to renaming of its fresh tags, follows `generate_distribution` conditioned on the filter". -/
theorem profile_is_state_up_to_renaming (s s' : State) (c0 : Tag) (hc0 : commonTag c0 = true)
    (hs : (freshTags s.flatten).Nodup) (hs' : (freshTags s'.flatten).Nodup)
    (hc' : ∀ tg ∈ s'.flatten, commonTag tg = true → tg = c0) :
    (profile s = profile s' ↔
      ∃ ρ : Tag → Tag, (∀ tg, commonTag (ρ tg) = commonTag tg) ∧ Renamed ρ s s') ∧
    (profile s = profile s' →
      ∃ ρ : Tag → Tag, (∀ tg, commonTag (ρ tg) = commonTag tg) ∧
        (∀ a ∈ freshTags s.flatten, ∀ b ∈ freshTags s.flatten, ρ a = ρ b → a = b) ∧ Renamed ρ s s') :=
  ⟨profile_eq_iff_renamed s s' c0 hc0 hs hs' hc', renamed_of_profile_eq s s' c0 hc0 hs hs' hc'⟩

/-- **The hypotheses of the event-table theorems are the code's own routing condition.**  Whenever `generate_samples`
takes the event-table route (imperfect source, a photon filter, `brightness * transmittance ≠ 0`, a non-empty filtered
table — `sampRoute … = .events`), the filter is not `0` and `phys_perf`, by which the table is divided, is POSITIVE
(one entry of the table is: `(0, 0, n)` with `p_duo^n` when pairs survive, `(n, 0, 0)` with `(η β)^n` otherwise; all
entries are `≥ 0`).  So `sampler_filtered_law` / `sampler_filtered_law_partial` apply to every request the code serves on
that route, and the division `prob / phys_perf` of `_compute_prob_table` never divides by zero there. -/
theorem sampler_events_route_wellposed {P : Params} (hP : P.WF) (n f : ℕ) (h : sampRoute P n f = .events) :
    f ≠ 0 ∧ 0 < physPerf P n f ∧ isPerfect P = false ∧ P.beta * P.eta ≠ 0 :=
  ⟨((sampRoute_events_iff P n f).mp h).2.1, physPerf_pos_of_events hP n f h, ((sampRoute_events_iff P n f).mp h).1,
    ((sampRoute_events_iff P n f).mp h).2.2.1⟩

/-- `sampler_filtered_law` with the routing condition as its only hypothesis about the request. -/
theorem sampler_events_route_law {P : Params} (hP : P.WF) {ns : List ℕ} (hne : ns ≠ []) (f t : ℕ)
    (h : sampRoute P ns.sum f = .events) (F : List (ℕ × ℕ) → ℚ) :
    E (fun s => F (profile s)) (fLaw P ns f t (shuffleLaw ns.sum)) =
      E (fun s => F (profile s)) (condMin f (generateAt P 0 ns t)) :=
  fLaw_profile_law hP hne f t (sampler_events_route_wellposed hP ns.sum f h).1
    (sampler_events_route_wellposed hP ns.sum f h).2.1.ne' F

/-- **The `k` samples of one filtered request are `k` independent copies of the one-sample law.**  `generate_samples`
draws the `k` events with ONE `random.choices` call, ALL booleans with ONE `random.choices([True, False], k = Σ (i + k_duo))`
call — `_events_to_samples` consumes them event after event (`fSamples`) — and shuffles once per sample.  With the `k`
event indices independent and ideal, the `Σ (i + k_duo)` booleans independent and ideal (their NUMBER depends on the
events drawn) and the `k` permutations independent with any law `σ`, EVERY test function `G` of the list of the `k`
samples has the expectation `k` independent draws from `fLaw` give it; in particular a product of functions of the
single samples factorises.  No hypothesis on the parameters, the input, the filter or `σ`.  Together with
`sampler_filtered_law` (`σ` uniform): the profiles of the `k` samples are independent draws from
`generate_distribution` conditioned on the filter. -/
theorem sampler_filtered_samples_iid (P : Params) (ns : List ℕ) (f t : ℕ) (σ : Dist (List ℕ)) (k : ℕ) :
    (∀ G : List State → ℚ,
      E (fun idx => E (fun bs => E (fun perms =>
          G (fSamples P.dm ns t (idx.map (eventOf P ns.sum f)) bs perms)) (iid σ k))
          (prodLaw (List.replicate (boolsNeeded (idx.map (eventOf P ns.sum f))) (boolLaw P))))
        (iid (eventIdxLaw P ns.sum f) k) =
      E G (iid (fLaw P ns f t σ) k)) ∧
    (∀ g : State → ℚ,
      E (fun idx => E (fun bs => E (fun perms =>
          ((fSamples P.dm ns t (idx.map (eventOf P ns.sum f)) bs perms).map g).prod) (iid σ k))
          (prodLaw (List.replicate (boolsNeeded (idx.map (eventOf P ns.sum f))) (boolLaw P))))
        (iid (eventIdxLaw P ns.sum f) k) = E g (fLaw P ns f t σ) ^ k) ∧
    (∀ (events : List (ℕ × ℕ × ℕ)) (bs : List Bool) (perms : List (List ℕ)),
      (fSamples P.dm ns t events bs perms).length = events.length) :=
  ⟨fun G => fSamples_iid P ns f t σ k G, fun g => fSamples_iid_prod P ns f t σ k g,
    fun events bs perms => fSamples_length P.dm ns t events bs perms⟩

/-- The tags `_events_to_samples` attaches (`catTag` made concrete): for the event `(i, j, k)`, whatever the tag
counter, the photons it creates have — averaged over ideal booleans — the class generating function
`sigS^i · x^j · (sigS·x)^k` (`sigS = r·a + (1−r)·b` for a signal photon, `x = b` or `a` for the extra photon according
to the model), and summed over the unfiltered event table this is the generating function `tagGF^n` of the physical
description. -/
theorem sampler_event_tags (P : Params) (a b : ℚ) (n : ℕ) (e : ℕ × ℕ × ℕ) (t : ℕ) :
    E (fun bs => itemsGF a b (evItems P.dm n e bs t).1)
      (prodLaw (List.replicate (e.1 + e.2.2) (boolLaw P))) =
      sigS P a b ^ e.1 * xW P a b ^ e.2.1 * (sigS P a b * xW P a b) ^ e.2.2 ∧
    E (fun e => sigS P a b ^ e.1 * xW P a b ^ e.2.1 * (sigS P a b * xW P a b) ^ e.2.2) (table P n 0) =
      tagGF P a b ^ n :=
  ⟨evItems_gf P a b n e t, E_table_evGF P a b n⟩

/-! ### `Source.simplify_distribution = True`: `anonymize_annotations` (`Model/C06Anon.lean`) -/

/-- What `anonymize_annotations` does to one state, for EVERY annotated state (not only those a source
produces): it applies ONE renaming `renameOf s` (a tag ↦ `_:rank of its first appearance`) to every photon
and re-sorts every mode; the renaming is injective on the tags of the state — hence the equality pattern of
the tags over all pairs of photon positions (which photons share a tag) is unchanged.  (`_:0` after the
renaming is the tag of the FIRST photon, not "the common tag".) -/
theorem anonymize_is_injective_renaming (s : State) :
    anonModes [] s = s.map (List.map (renameOf s)) ∧
    anonState s = (s.map (List.map (renameOf s))).map sortMode ∧
    (∀ m : Mode, (sortMode m).Perm m) ∧
    (∀ a ∈ s.flatten, ∀ b, renameOf s a = renameOf s b ↔ a = b) ∧
    tagPattern (anonModes [] s).flatten = tagPattern s.flatten := by
  refine ⟨anonModes_nil_eq s, ?_, sortMode_perm, fun a ha b => renameOf_inj s ha, ?_⟩
  · rw [anonState_eq, List.map_map]; rfl
  · rw [anonModes_nil_eq, ← List.map_flatten]
    exact tagPattern_map _ _ fun a ha b => renameOf_inj s ha

/-- … hence the number of modes, the number of photons in every mode, the total photon number and the
event "all photons carry one and the same tag" are those of the original state. -/
theorem anonymize_preserves_counts (s : State) :
    (anonState s).length = s.length ∧ (anonState s).map List.length = s.map List.length ∧
    photons (anonState s) = photons s ∧ oneTag (anonState s) = oneTag s :=
  ⟨anonState_length s, anonState_counts s, photons_anonState s, oneTag_anonState s⟩

/-- The simplified distribution is the push-forward of the distribution under `anonState` (probabilities of
states with the same image are ADDED): for every test function `g` the expectation is that of `g ∘ anonState`;
in particular the total mass is unchanged. -/
theorem simplify_pushforward (g : State → ℚ) (d : Dist State) :
    E g (anonDist d) = E (fun s => g (anonState s)) d ∧ mass (anonDist d) = mass d := by
  refine ⟨E_anonDist g d, ?_⟩
  rw [mass_eq_E, E_anonDist, ← mass_eq_E]

/-- The keys of the simplified distribution are pairwise different, every key is the image of a key of the
input, and the entries are sorted by decreasing probability. -/
theorem simplify_keys_distinct_sorted (d : Dist State) :
    ((anonDist d).map Prod.fst).Nodup ∧ (anonDist d).Pairwise (fun x y => y.2 ≤ x.2) ∧
    ∀ x ∈ anonDist d, ∃ y ∈ d, anonState y.1 = x.1 :=
  ⟨anonDist_keys_nodup d, anonDist_sorted d, mem_anonDist_key d⟩

/-- The flag: `simplify_distribution` acts only on a partially distinguishable source; otherwise (flag
off, or a source whose mixture carries no annotations) `generate_distribution` returns what it returned
before. -/
theorem simplify_flag (P : Params) (b : Bool) (thr : ℚ) (ns : List ℕ) (t : ℕ) :
    generateS P b thr ns t = generateSAt P b (max thr minP) ns t ∧
    ((b = false ∨ partDist P = false) → generateS P b thr ns t = generate P thr ns t) ∧
    (b = true → partDist P = true → generateS P b thr ns t = anonDist (generate P thr ns t)) := by
  refine ⟨rfl, ?_, ?_⟩
  · rintro (h | h) <;> simp [generateS, h]
  · intro h1 h2; simp [generateS, h1, h2]

/-- Every law of an observable that the renaming preserves is unchanged by the simplification — at every
threshold, for every parameter tuple, input and tag counter, whether or not the flag is set. -/
theorem simplify_preserves_invariant_laws (P : Params) (b : Bool) (θ : ℚ) (ns : List ℕ) (t : ℕ)
    (g : State → ℚ) (hg : ∀ s, g (anonState s) = g s) :
    E g (generateSAt P b θ ns t) = E g (generateAt P θ ns t) :=
  E_generateSAt_of_invariant P b θ ns t g hg

/-- The simplified distribution is still normalised (when anything at all survives the trimming). -/
theorem simplify_normalised (P : Params) (b : Bool) (thr : ℚ) (ns : List ℕ) (t : ℕ)
    (h : mass (generateRaw P (max thr minP) ns t) ≠ 0) : mass (generateS P b thr ns t) = 1 := by
  rw [(simplify_flag P b thr ns t).1, mass_eq_E,
    simplify_preserves_invariant_laws P b _ ns t _ (fun _ => rfl), ← mass_eq_E]
  exact generate_normalised P thr ns t h

/-- The photon-count laws carry over to the simplified mixture, flag on or off: the joint law of the photon
counts per mode (`photon_count_joint_pmf`), the law of the total photon number (`photon_number_pmf`) and its
generating function (`photon_number_law`). -/
theorem simplify_photon_laws {P : Params} (hP : P.WF) (b : Bool) {ns : List ℕ} (hne : ns ≠ []) (t : ℕ) :
    (∀ ks : List ℕ, massP (fun s => decide (s.map List.length = ks)) (generateSAt P b 0 ns t) =
      if ks.length = ns.length then (List.zipWith (countCoeff (p0 P) (pi1 P) (pi2 P)) ns ks).prod
      else 0) ∧
    (∀ k : ℕ, massP (fun s => decide (photons s = k)) (generateSAt P b 0 ns t) =
      countCoeff (p0 P) (pi1 P) (pi2 P) ns.sum k) ∧
    (∀ y : ℚ, E (fun s => y ^ photons s) (generateSAt P b 0 ns t) = poly P y ^ ns.sum) := by
  have inv : ∀ p : State → Bool, (∀ s, p (anonState s) = p s) →
      massP p (generateSAt P b 0 ns t) = massP p (generateAt P 0 ns t) := fun p hp =>
    E_generateSAt_of_invariant P b 0 ns t (fun a => if p a then 1 else 0) (fun s => by rw [hp])
  refine ⟨fun ks => ?_, fun k => ?_, fun y => ?_⟩
  · rw [inv _ (fun s => by rw [anonState_counts])]
    exact photon_count_joint_pmf hP hne t ks
  · rw [inv _ (fun s => by rw [photons_anonState])]
    exact photon_number_pmf hP hne t k
  · rw [simplify_preserves_invariant_laws P b 0 ns t _ (fun s => by rw [photons_anonState])]
    exact photon_number_law hP hne t y

/-- The probability that all photons of the state carry one and the same tag is unchanged by the
simplification (every threshold, every parameter tuple).

PARTIAL with respect to the statement wanted — "for the source whose only defect is the indistinguishability,
two requested photons share a tag with probability `I` also in the simplified mixture": `tag_share_prob` gives
`massP allCommon (generateAt P 0 ns t) = I`; that on the two-photon states of that mixture `oneTag` and
`allCommon` are the same event (fresh tags are pairwise different by `tags_fresh`, and a partially
distinguishable source emits no unannotated photon) is NOT proved in Lean; the harness evaluates the law of
the tag-equality pattern on the real simplified output against the closed form.
(Wave 6: that link IS proved now — `share_tag_iff_common`, and the full statement is `simplify_share_tag_prob`
below; this theorem is kept as the threshold-independent half of it.) -/
theorem simplify_share_tag_prob_partial (P : Params) (b : Bool) (θ : ℚ) (ns : List ℕ) (t : ℕ) :
    massP oneTag (generateSAt P b θ ns t) = massP oneTag (generateAt P θ ns t) :=
  E_generateSAt_of_invariant P b θ ns t (fun a => if oneTag a then 1 else 0)
    (fun s => by rw [oneTag_anonState])

-- non-vacuity / concrete values of the model of `anonymize_annotations`
example : anonState [[some 1, some 3], [some 2]] = [[some 0, some 1], [some 2]] := by decide
-- a fresh tag on the first photon becomes `_:0`; the mode is re-sorted after the renaming
example : anonState [[some 2], [some 0, some 2]] = [[some 0], [some 0, some 1]] := by decide
-- an unannotated photon is renamed like any other
example : anonState [[none], [some 4]] = [[some 0], [some 1]] := by decide
example : oneTag [[some 3], [some 3]] = true ∧ oneTag [[some 0], [some 3]] = false := by decide
example : ∃ g : State → ℚ, (∀ s, g (anonState s) = g s) ∧ g [[some 1]] ≠ g [] :=
  ⟨fun s => photons s, fun s => by simp only [photons_anonState], by simp [photons]⟩
-- two states of the source are merged into one key, probabilities added, result sorted
example : anonDist [([[some 0], [some 3]], 1 / 4), ([[some 1], [some 0]], 1 / 4),
      ([[some 0], [some 0]], 3 / 8), ([[some 0], []], 1 / 8)] =
    [([[some 0], [some 1]], 1 / 2), ([[some 0], [some 0]], 3 / 8), ([[some 0], []], 1 / 8)] := by
  decide +kernel
example : partDist { beta := 1, g2 := 0, q := 1, eta := 1, ind := 1 / 4, r := 1 / 2, dm := true } = true ∧
    partDist { beta := 1 / 2, g2 := 0, q := 1, eta := 1, ind := 1, r := 1, dm := true } = false := by
  constructor <;> norm_num [partDist]

/-! ### "share a tag" = "carry the common tag" on the states of the mixture -/

/-- The link between `oneTag` (all photons of the state carry one and the same tag — the event the property
speaks about, and the one the simplification preserves) and `allCommon` (all carry the common tag `_:0` — the
event the generating functions give the probability of): in EVERY state of the mixture `generate_distribution`
returns — every parameter tuple, every threshold, every input, every value of the tag counter — all photons
share one tag iff all of them carry the common tag or the state holds at most one photon.  Two facts about
the support go into it: a non-common tag occurs once (`tags_fresh`), and a mixture never mixes the tag `_:0`
with unannotated photons (all photons are annotated when the source is partially distinguishable, none is
otherwise; `generateAt_kind`). -/
theorem share_tag_iff_common (P : Params) (θ : ℚ) (ns : List ℕ) (t : ℕ) :
    ∀ x ∈ generateAt P θ ns t, oneTag x.1 = (allCommon x.1 || decide (photons x.1 ≤ 1)) := fun x hx =>
  oneTag_eq_of_kind x.1 (partDist P) (generateAt_kind P θ ns t x hx) (tags_fresh P θ ns t x hx)

/-- A source that loses nothing and emits exactly one photon per request (`β = 1, g2 = 0, η = 1`; the
indistinguishability is arbitrary) delivers exactly the requested number of photons in EVERY state of the
mixture, at every threshold (a statement about the support, not only about the probabilities). -/
theorem hom_only_photons {P : Params} (hb : P.beta = 1) (hg : P.g2 = 0) (he : P.eta = 1) (θ : ℚ)
    (ns : List ℕ) (t : ℕ) : ∀ x ∈ generateAt P θ ns t, photons x.1 = ns.sum := fun x hx => by
  rw [photons_eq_length_flatten]; exact generateAt_len hb hg he θ ns t x hx

/-- The property's sentence as it is written: for a source whose only imperfection is the
indistinguishability, `N ≥ 2` requested photons (in one mode or spread over several) all share ONE TAG —
whatever tag — with probability `√I ^ N`; two requested photons share a tag with probability `I`.
(`tag_share_prob` is the same for the event "all carry the common tag"; the two events coincide on every
state of the mixture by `share_tag_iff_common` and `hom_only_photons`.) -/
theorem share_tag_prob {P : Params} (hP : P.WF) (hb : P.beta = 1) (hg : P.g2 = 0) (he : P.eta = 1)
    {ns : List ℕ} (hne : ns ≠ []) (t : ℕ) (h2 : 2 ≤ ns.sum) :
    massP oneTag (generateAt P 0 ns t) = P.r ^ ns.sum ∧
    (ns.sum = 2 → massP oneTag (generateAt P 0 ns t) = P.ind) := by
  have hEq : massP oneTag (generateAt P 0 ns t) = massP allCommon (generateAt P 0 ns t) := by
    unfold massP
    apply E_congr_mem
    intro e hmem
    have hd : decide (ns.sum ≤ 1) = false := decide_eq_false (by omega)
    rw [share_tag_iff_common P 0 ns t e hmem, hom_only_photons hb hg he 0 ns t e hmem, hd, Bool.or_false]
  rw [hEq]
  exact tag_share_prob hP hb hg he hne t

/-- The same in the SIMPLIFIED mixture (`simplify_distribution = True`, flag `b` arbitrary): after
`anonymize_annotations` the common tag is no longer recognisable (the first photon is always renamed `_:0`),
but "all photons share one tag" is, and it keeps its probability `√I ^ N` (`= I` for two photons).  This is
the full statement `simplify_share_tag_prob_partial` was partial for. -/
theorem simplify_share_tag_prob {P : Params} (hP : P.WF) (hb : P.beta = 1) (hg : P.g2 = 0) (he : P.eta = 1)
    (b : Bool) {ns : List ℕ} (hne : ns ≠ []) (t : ℕ) (h2 : 2 ≤ ns.sum) :
    massP oneTag (generateSAt P b 0 ns t) = P.r ^ ns.sum ∧
    (ns.sum = 2 → massP oneTag (generateSAt P b 0 ns t) = P.ind) := by
  rw [simplify_share_tag_prob_partial]
  exact share_tag_prob hP hb hg he hne t h2

/-- … and on the distribution `generate_distribution` RETURNS — any `prob_threshold`, trimmed at
`θ = max(prob_threshold, 1e-16)` and renormalised, simplified or not (`generateS P b thr`): `N ≥ 2` requested
photons of the source whose only imperfection is the indistinguishability all share one tag with a
probability within `θ · 9 · #modes · 2^N` of `√I ^ N`; two requested photons share a tag with probability `I`
up to `36 · #modes · θ` (`7.2e-15` for two modes at the default threshold). -/
theorem share_tag_prob_returned {P : Params} (hP : P.WF) (hb : P.beta = 1) (hg : P.g2 = 0) (he : P.eta = 1)
    (b : Bool) (thr : ℚ) {ns : List ℕ} (hne : ns ≠ []) (t : ℕ) (h2 : 2 ≤ ns.sum) :
    |massP oneTag (generateS P b thr ns t) - P.r ^ ns.sum| ≤
      max thr minP * ((9 * (ns.length * 2 ^ ns.sum) : ℕ) : ℚ) ∧
    (ns.sum = 2 → |massP oneTag (generateS P b thr ns t) - P.ind| ≤
      max thr minP * ((36 * ns.length : ℕ) : ℚ)) := by
  have h1 : |massP oneTag (generateS P b thr ns t) - P.r ^ ns.sum| ≤
      max thr minP * ((9 * (ns.length * 2 ^ ns.sum) : ℕ) : ℚ) := by
    rw [(simplify_flag P b thr ns t).1, simplify_share_tag_prob_partial,
      ← (share_tag_prob hP hb hg he hne t h2).1]
    exact generate_close_to_exact_hom_only hP hb hg he thr hne t _ (fun s => by split <;> norm_num)
      (fun s => by split <;> norm_num)
  refine ⟨h1, fun h => ?_⟩
  have e1 : P.r ^ ns.sum = P.ind := by rw [h, ← hP.r_sq]; ring
  have e2 : 9 * (ns.length * 2 ^ ns.sum) = 36 * ns.length := by rw [h]; ring
  rw [e1, e2] at h1
  exact h1

-- non-vacuity of `share_tag_prob` / `simplify_share_tag_prob` / `hom_only_photons`: a well-formed source
-- with `β = 1, g2 = 0, η = 1` and `I = 1/4`, two photons requested in two modes
example : ({ beta := 1, g2 := 0, q := 1, eta := 1, ind := 1 / 4, r := 1 / 2, dm := true } : Params).WF ∧
    ([1, 1] : List ℕ) ≠ [] ∧ 2 ≤ ([1, 1] : List ℕ).sum :=
  ⟨by constructor <;> norm_num, by simp, by simp⟩
-- `share_tag_iff_common`: the clause `photons ≤ 1` is needed (one photon with a fresh tag shares its tag with
-- itself but does not carry the common one), and both events do occur
example : oneTag [[some 3]] = true ∧ allCommon [[some 3]] = false ∧
    oneTag [[some 0], [some 0]] = true ∧ allCommon [[some 0], [some 0]] = true ∧
    oneTag [[some 0], [some 2]] = false ∧ allCommon [[some 0], [some 2]] = false := by decide

/-! ### `anonymize_annotations` is idempotent -/

/-- `anonymize_annotations` applied to its own output changes nothing — on a single state (ALL states, also
ones no source produces: repeated tags, unannotated photons, modes in any order) and on a distribution (ALL
list distributions: the keys are already canonical, so nothing is merged and the accumulation gives the
entries back in their order; the entries are already sorted by decreasing probability, and the stable sort
leaves them where they are).  The renamed state is canonical: every mode is sorted and the tags appear, in
visiting order, as `_:0, _:1, …` (`annotMap_anonState`), so the second pass renames every tag to itself. -/
theorem anonymize_idempotent (s : State) (d : Dist State) :
    anonState (anonState s) = anonState s ∧ anonDist (anonDist d) = anonDist d :=
  ⟨anonState_idem s, anonDist_idem_of anonState_idem d⟩

/-- On the source: simplifying the simplified mixture of a partially distinguishable source once more gives
the same list of (state, probability) entries, in the same order (every threshold). -/
theorem simplify_idempotent (P : Params) (θ : ℚ) (ns : List ℕ) (t : ℕ) (hpd : partDist P = true) :
    anonDist (generateSAt P true θ ns t) = generateSAt P true θ ns t := by
  unfold generateSAt
  rw [hpd]
  exact anonDist_idem_of anonState_idem _

-- hypothesis of `simplify_idempotent`: a partially distinguishable source exists (see `partDist` above); it
-- is needed: the unannotated mixture of a source that is not partially distinguishable is left alone by the
-- flag, but `anonymize_annotations` itself would rename its photons
example : partDist { beta := 1, g2 := 0, q := 1, eta := 1, ind := 1 / 4, r := 1 / 2, dm := true } = true ∧
    anonState [[none]] ≠ [[none]] := by
  constructor
  · norm_num [partDist]
  · decide
-- the first pass does change something, the second does not
example : anonState [[some 2], [some 0, some 2]] ≠ [[some 2], [some 0, some 2]] ∧
    anonState (anonState [[some 2], [some 0, some 2]]) = anonState [[some 2], [some 0, some 2]] := by
  decide

/-! ### closed multinomial formula for `N` requested photons -/

/-- **Closed form of the tag law.**  The probability that the generated mixture holds `u` photons with the common
tag and `v` photons with a fresh tag is the explicit six-nomial sum: over all ways `k` to give each of the `N = Σ nᵢ`
requested photons one of the six outcomes `(0,0), (1,0), (0,1), (2,0), (1,1), (0,2)` (`Σ_c k_c = N`) with
`Σ_c k_c·c = (u, v)`, of `N! / ∏_c k_c! · ∏_c π_c^{k_c}`, `π_c` the six explicit one-photon probabilities
(`sixP` = the values of `tag_class_one`).  It equals the `N`-fold convolution of `tag_pmf`. -/
theorem tag_pmf_multinomial {P : Params} (hP : P.WF) {ns : List ℕ} (hne : ns ≠ []) (t u v : ℕ) :
    massP (fun s => decide (nCommon s = u ∧ nFresh s = v)) (generateAt P 0 ns t) =
      ∑ k ∈ (Finset.piAntidiag six ns.sum).filter (fun k => sixTotals k = (u, v)),
        (Nat.multinomial six k : ℚ) * ∏ c ∈ six, sixP P c ^ k c ∧
    massP (fun l => decide ((l.map Prod.fst).sum = u ∧ (l.map Prod.snd).sum = v)) (iid (physOne P) ns.sum) =
      ∑ k ∈ (Finset.piAntidiag six ns.sum).filter (fun k => sixTotals k = (u, v)),
        (Nat.multinomial six k : ℚ) * ∏ c ∈ six, sixP P c ^ k c ∧
    (∀ c ∈ six, massP (fun x => decide (x = c)) (physOne P) = sixP P c) := by
  have key : massP (fun s => decide (nCommon s = u ∧ nFresh s = v)) (generateAt P 0 ns t) =
      ∑ k ∈ (Finset.piAntidiag six ns.sum).filter (fun k => sixTotals k = (u, v)),
        (Nat.multinomial six k : ℚ) * ∏ c ∈ six, sixP P c ^ k c := by
    have h := law_of_gf2 (fun _ => 1) nCommon nFresh (generateAt P 0 ns t) (fun _ => 1)
      (fun x : ℕ × ℕ => x.1) (fun x => x.2) (sixRef P ns.sum)
      (fun a b => by
        simp only [one_mul]
        rw [sixRef_gf]
        exact E_generateAt_stateGF hP hne t a b) u v
    rw [E_sixRef] at h
    rw [Finset.sum_filter]
    simp only [massP]
    rw [E_congr (g' := fun s => if nCommon s = u ∧ nFresh s = v then (1 : ℚ) else 0) (fun s => by simp), h]
    refine Finset.sum_congr rfl fun k _ => ?_
    by_cases hk : sixTotals k = (u, v)
    · have : (sixTotals k).1 = u ∧ (sixTotals k).2 = v := by rw [hk]; exact ⟨rfl, rfl⟩
      simp [hk, this, sixWeight]
    · have : ¬ ((sixTotals k).1 = u ∧ (sixTotals k).2 = v) := fun h' => hk (Prod.ext h'.1 h'.2)
      simp [hk, this]
  refine ⟨key, ?_, ?_⟩
  · rw [← key]; exact ((tag_pmf hP hne t u v).1).symm
  · intro c hc
    obtain ⟨h0, h1, h2, h3, h4, h5⟩ := (tag_class_one hP t).2
    simp only [six, Finset.mem_insert, Finset.mem_singleton] at hc
    rcases hc with rfl | rfl | rfl | rfl | rfl | rfl
    · exact h0
    · exact h1
    · exact h2
    · exact h3
    · exact h4
    · exact h5

/-! ### non-vacuity -/

/-- every imperfection switched on, "distinguishable" model -/
def exP : Params :=
  { beta := 1 / 2, g2 := 9 / 25, q := 4 / 5, eta := 1 / 2, ind := 81 / 100, r := 9 / 10, dm := true }

theorem exP_WF : exP.WF := by
  constructor <;> norm_num [exP]

/-- only the indistinguishability is imperfect -/
def exHOM : Params :=
  { beta := 1, g2 := 0, q := 1, eta := 1, ind := 49 / 100, r := 7 / 10, dm := false }

theorem exHOM_WF : exHOM.WF := by
  constructor <;> norm_num [exHOM]

def exPerfect : Params :=
  { beta := 1, g2 := 0, q := 1, eta := 1, ind := 1, r := 1, dm := true }

-- hypotheses of `p2_solves_g2`, `one_photon_dist_mass_one`, `photon_count_one`, `dist_tensor`,
-- `photon_count_marginal`, `photon_number_law`, `tag_law`, `mode_tensor`,
-- `prob_table_matches_distribution`: a well-formed tuple with g2 > 0, loss and I < 1 exists,
-- and a non-empty input exists
example : ∃ P : Params, P.WF ∧ 0 < P.g2 ∧ P.eta < 1 ∧ P.ind < 1 ∧ P.dm = true :=
  ⟨exP, exP_WF, by norm_num [exP], by norm_num [exP], by norm_num [exP], rfl⟩
example : ([2, 0, 1] : List ℕ) ≠ [] := by simp
-- the g2 equation is not trivially `0 = 0` there
example : p2 exP ≠ 0 := by norm_num [p2, exP]
-- hypotheses of `tag_share_prob`
example : exHOM.WF ∧ exHOM.beta = 1 ∧ exHOM.g2 = 0 ∧ exHOM.eta = 1 ∧ ([1, 1] : List ℕ).sum = 2 ∧
    exHOM.ind ≠ 1 :=
  ⟨exHOM_WF, rfl, rfl, rfl, rfl, by norm_num [exHOM]⟩
-- hypotheses of `perfect_source_id`
example : isPerfect exPerfect = true ∧ (0 : ℚ) < 1 := ⟨(isPerfect_iff _).mpr ⟨rfl, rfl, rfl, rfl⟩, by norm_num⟩
-- hypotheses of `prob_table_filtered` (last part): a filter that keeps something
example : physPerf exP 2 1 ≠ 0 ∧ (1 : ℕ) ≠ 0 := by
  refine ⟨?_, by decide⟩
  rw [(prob_table_filtered exP 2 1).2.1]
  norm_num [massP, E, table, tableRaw, tableRawOf, coef, evPhotons, pSignal, pG2, pDuo, pNone, p11,
    p21, p22, p1, p2, exP, List.range, List.range.loop, Nat.factorial]
-- hypothesis of `generate_normalised`: at the default threshold the raw mass is not 0
example : mass (generateRaw exPerfect (max 0 minP) [1] 0) ≠ 0 := by
  norm_num [generateRaw, modeDists, probDist, shortcut, isPerfect, exPerfect, ltpState, lift, mass]

-- hypotheses of `proc_source_distribution_current` / `proc_source_current`: a history with an in-place
-- update of the held object followed by its re-assignment ends clean, with an input, and with values
-- that differ from the ones the processor was constructed with
def exNoise (b : ℚ) : NoiseVal :=
  { brightness := b, g2 := 0, q := 1, ind := 1, r := 1, transmittance := 1, g2dist := true }
def exHist : List ProcOp := [.input [1, 1], .read, .mutate 0 (exNoise (1 / 2)), .assign 0]
theorem exNoise_admissible_half : (exNoise (1 / 2)).admissible = true := by
  simp [NoiseVal.admissible, NoiseVal.params, ofNoise, Params.admissible, exNoise]; norm_num
theorem exNoise_admissible_one : (exNoise 1).admissible = true := by
  simp [NoiseVal.admissible, NoiseVal.params, ofNoise, Params.admissible, exNoise]
example : (procAfter (fun _ => exNoise 1) 0 exHist).dirty = false ∧
    (procAfter (fun _ => exNoise 1) 0 exHist).input = some (.fock [1, 1]) ∧
    ((procAfter (fun _ => exNoise 1) 0 exHist).heap 0).brightness = 1 / 2 := by
  have ha : ({ brightness := 2⁻¹, g2 := 0, q := 1, ind := 1, r := 1, transmittance := 1, g2dist := true } :
      NoiseVal).admissible = true := by simpa [exNoise] using exNoise_admissible_half
  simp [procAfter, exHist, SM.exec_cons, SM.exec_nil, procStep, Proc.fill, Proc.init, exNoise, ha]
-- ... also when a custom input was used in between and the SAME Fock state is given again (the custom object
-- sat in the slot of the cached mixture)
def exHistCustom : List ProcOp := [.input [1, 0], .custom 7, .assign 0, .input [1, 0]]
example : (procAfter (fun _ => exNoise (1 / 2)) 0 exHistCustom).dirty = false ∧
    (procAfter (fun _ => exNoise (1 / 2)) 0 exHistCustom).input = some (.fock [1, 0]) := by
  have ha : (exNoise 2⁻¹).admissible = true := by simpa using exNoise_admissible_half
  simp [procAfter, exHistCustom, SM.exec_cons, SM.exec_nil, procStep, Proc.fill, Proc.init, Proc.hasCustomInput, ha]
-- hypothesis of `proc_custom_input_returned` / `proc_no_input_no_distribution`
example : (procAfter (fun _ => exNoise 1) 0 [.input [1, 0], .custom 7, .assign 0]).input = some (.custom 7) := by
  simp [procAfter, SM.exec_cons, SM.exec_nil, procStep, Proc.fill, Proc.init, Proc.hasCustomInput,
    exNoise_admissible_one]
example : (procAfter (fun _ => exNoise 1) 0 [.input [1, 0], .custom 7, .clear]).input = none := by
  simp [procAfter, SM.exec_cons, SM.exec_nil, procStep, Proc.fill, Proc.init]
-- hypothesis of `proc_assign_rejected`: values every field of which `NoiseModel` accepts, yet `Source.__init__`
-- rejects (brightness * g2 = 4/5 > 1/2); hypothesis of `proc_assign_clean`: `exNoise_admissible_half`
example : ({ brightness := 1, g2 := 4 / 5, q := 0, ind := 1, r := 1, transmittance := 1, g2dist := true } :
    NoiseVal).admissible = false := by
  simp [NoiseVal.admissible, NoiseVal.params, ofNoise, Params.admissible]; norm_num
-- the hypothesis `dirty = false` is needed: between the in-place update and the re-assignment the source
-- of the code as it is still has the old values
example : (procAfter (fun _ => exNoise 1) 0 [.mutate 0 (exNoise (1 / 2))]).src.beta = 1 ∧
    ((procAfter (fun _ => exNoise 1) 0 [.mutate 0 (exNoise (1 / 2))]).heap 0).params.beta = 1 / 2 := by
  simp [procAfter, SM.exec_cons, SM.exec_nil, procStep, Proc.init, exNoise, NoiseVal.params, ofNoise]

-- hypotheses of `photon_count_pmf`, `photon_number_pmf`, `photon_count_joint_pmf`, `tag_pmf`,
-- `prob_table_eq_counts`, `prob_table_counts_match_distribution`, `trimmed_mass_ge`: `exP_WF`, a non-empty
-- input and a threshold `≥ 0` (above); `gf_determines_law`: its hypothesis holds for the one-photon
-- distribution against the explicit three-point law
example : ∀ y : ℚ, E (fun m : Mode => (fun _ => (1 : ℚ)) m * y ^ m.length) (onePhoton exP 0) =
    E (fun k : ℕ => (fun _ => (1 : ℚ)) k * y ^ k) [(0, p0 exP), (1, pi1 exP), (2, pi2 exP)] := by
  intro y
  simp only [one_mul, cnt_onePhoton exP_WF, poly, E_cons, E_nil]
  ring
-- hypothesis `f ≠ 0` of `prob_table_filtered_eq_counts`: see `physPerf exP 2 1 ≠ 0 ∧ 1 ≠ 0` above
-- hypothesis `hF` of `modes_independent_pmf`: the photon count of a mode is such an observable
example : ∀ n t c, massP (fun m : Mode => decide (m.length = c)) (probDist exP 0 n t) =
    countCoeff (p0 exP) (pi1 exP) (pi2 exP) n c := fun n t c => probDist_count_point exP_WF n t c
-- the coefficients are not trivial: two photons from two requested photons
example : countCoeff (p0 exP) (pi1 exP) (pi2 exP) 2 2 = pi1 exP ^ 2 + 2 * p0 exP * pi2 exP := by
  simp [countCoeff, triTerm, Finset.sum_range_succ]
-- the bound of `generate_close_to_exact` / `generate_photon_number_close` is informative (< 1, here 4e-15)
-- at the default threshold: two modes with one photon each
example : max (0 : ℚ) minP * (lossCount [1, 1] : ℚ) < 1 := by
  have : lossCount [1, 1] = 40 := by decide
  rw [this]
  norm_num [minP]


-- hypotheses of `sampler_no_filter_law`: a well-formed imperfect source and a non-empty input
example : exP.WF ∧ isPerfect exP = false ∧ ([1, 0, 2] : List ℕ) ≠ [] :=
  ⟨exP_WF, by simp [isPerfect, exP], by simp⟩
-- ... and the draws really decide the sample: two different indices of the first `bsd.sample` call give two
-- different states (nothing / one photon with the common tag)
example : nfSample (nfDists exP [1] 0) [[0]] = [[]] ∧ nfSample (nfDists exP [1] 0) [[4]] = [[some 0]] := by
  constructor <;>
    norm_num [nfSample, nfDists, nfDistsPd, partDist, photonDists, onePhoton, onePhotonRaw, positive, pickKey,
      modeOf, exP, p0, p11, p21, p22, p1, p2]
-- hypotheses of `sampler_filtered_law_partial`: `exP_WF`, `[1, 1] ≠ []`, the filter `1 ≠ 0` keeps something
-- (`physPerf exP 2 1 ≠ 0` above, `[1, 1].sum = 2`), and the uniform shuffle law is a law supported on permutations
-- (last clause of the theorem itself); the route `.events` is taken there
example : sampRoute exP 2 1 = .events := by
  simp [sampRoute, isPerfect, exP, table, tableRaw, tableRawOf, pG2, pDuo, p21, p22, p2, List.range,
    List.range.loop]
-- the sample is a function of the permutation too: the two shuffles of one "signal alone" photon and one empty slot
example : (fSample true [1, 1] 0 (1, 0, 0) [true] [0, 1]).map List.length = [1, 0] ∧
    (fSample true [1, 1] 0 (1, 0, 0) [true] [1, 0]).map List.length = [0, 1] := by
  constructor <;>
    simp [fSample, distribute, mergeAll, applyPerm, evItems, sigPart, g2Part, duoPart, mergeTags]
-- `tag_pmf_multinomial`: hypotheses as for `tag_pmf`; the six one-photon probabilities are the explicit ones
example : sixP exP (1, 1) = exP.r * p22 exP ∧ sixP exP (2, 0) = 0 ∧ (1, 1) ∈ six := by
  refine ⟨by simp [sixP, exP], by simp [sixP, exP], by decide⟩

-- hypotheses of `sampler_filtered_law`: those of `sampler_filtered_law_partial` (above).  The profile sees the
-- placement: the two shuffles of one "signal alone" photon and one empty slot give two different profiles
example : profile (fSample true [1, 1] 0 (1, 0, 0) [true] [0, 1]) = [(1, 0), (0, 0)] ∧
    profile (fSample true [1, 1] 0 (1, 0, 0) [true] [1, 0]) = [(0, 0), (1, 0)] := by
  constructor <;>
    simp [profile_fSample, evKinds_eq, blockSum, permute, clsSum, bcls]

-- hypothesis of `sampler_events_route_wellposed` / `sampler_events_route_law`: `sampRoute exP 2 1 = .events` (above)
-- `sampler_filtered_samples_iid` has no hypotheses; the number of booleans really depends on the events
example : boolsNeeded [(1, 0, 0), (0, 1, 0), (0, 0, 2)] = 3 := by decide

-- hypotheses of `profile_is_state_up_to_renaming`: two one-mode states with a common and a fresh photon each
example : commonTag (some 0) = true ∧ (freshTags ([[some 0, some 3]] : State).flatten).Nodup ∧
    (freshTags ([[some 0, some 5]] : State).flatten).Nodup ∧
    (∀ tg ∈ ([[some 0, some 5]] : State).flatten, commonTag tg = true → tg = some 0) := by
  refine ⟨rfl, by decide, by decide, by decide⟩

-- hypotheses of `trimmed_mass_ge_width` / `generate_close_to_exact_width` / `generate_close_to_exact_hom_only`:
-- `exP_WF`, `exHOM_WF` (above); the width really depends on the parameters (5 outcomes for `exP`,
-- 2 for the HOM-only source, 1 for the perfect one), and the count is smaller than the worst-case one
example : width exP = 5 ∧ width exHOM = 2 ∧ width exPerfect = 1 := by
  refine ⟨?_, ?_, ?_⟩ <;>
    norm_num [width, onePhoton, onePhotonRaw, positive, partDist, exP, exHOM, exPerfect, p0, p11, p21, p22,
      p1, p2, List.filter_cons]
example : exHOM.beta = 1 ∧ exHOM.g2 = 0 ∧ exHOM.eta = 1 := ⟨rfl, rfl, rfl⟩
example : lossCountW 2 [1, 1] = 10 ∧ lossCount [1, 1] = 40 ∧ lossCountW 2 [2, 1] = 28 ∧
    lossCount [2, 1] = 220 := by decide

-- hypothesis of `sampler_tag_counter_model`: an imperfect source exists, and the counter does move
example : isPerfect exP = false ∧ nfTag exP [1, 2] 0 = 6 := by
  constructor
  · simp [isPerfect, exP]
  · simp [nfTag, nfTag.genTagPd, partDist, tagAfter, nextTag, exP]

-- hypothesis of `no_trimming_below_min_weight`: the HOM-only source with `r = 7/10` has `wmin = 3/10`; two
-- requested photons at the default threshold are far above it
example : wmin exHOM = 3 / 10 ∧ max (0 : ℚ) minP < wmin exHOM ^ ([1, 1] : List ℕ).sum := by
  have h : wmin exHOM = 3 / 10 := by
    norm_num [wmin, onePhoton, onePhotonRaw, positive, partDist, exHOM, p0, p11, p21, p22, p1, p2,
      List.filter_cons]
  refine ⟨h, ?_⟩
  rw [h]
  norm_num [minP]

/-! ### the `Source` OBJECT across calls (wave 8; model `Model/C06Src.lean`)

`generate_samples` keeps its event table in three attributes of the object (`_prob_table`, `_prob_table_n`,
`_prob_table_filter`) and reuses it when the photon number and the filter of the request equal the stored ones;
`cache_prob_table` is public too.  The sampler theorems above speak of `table P n f` for the request at hand; the
theorems of this section are what entitles them to: after ANY history of public calls on one object the table in use
is the table of the request. -/

/-- **the cache is coherent after every history**: whatever the tag counter `t` of the context the object was constructed with and whatever calls (`cache_prob_table`, `generate_samples` with or
without filter, on any route, failing or not, `generate_distribution`, `probability_distribution`) were made on one
`Source` object, a stored table is the table of the photon number and filter it is filed under (and could be
computed without dividing by zero). -/
theorem source_cache_coherent (P : Params) (t : ℕ) (ops : List SrcOp) : (srcAfter P t ops).Coherent P :=
  coherent_after P t ops

/-- **`generate_samples` does not depend on the history of the object** (any parameters, well-formed or not): the
route taken and, on the event-table route, the keys and weights handed to `random.choices` are those a NEW object
would use for the same request. -/
theorem samples_history_free (P : Params) (t : ℕ) (ops : List SrcOp) (ns : List ℕ) (f : ℕ) :
    (srcStep P (srcAfter P t ops) (.samples ns f)).2 = samplesFresh P ns f :=
  samples_step_eq_fresh P _ (coherent_after P t ops) ns f

/-- … and for well-formed parameters this is the route `sampRoute` of the sampler theorems, with the table
`table P n f` of the request on the event-table route (`sampler_filtered_law`, `sampler_events_route_law`, … are
statements about exactly this table); in particular `generate_samples` never fails with a division by zero. -/
theorem samples_route_history_free {P : Params} (hP : P.WF) (t : ℕ) (ops : List SrcOp) (ns : List ℕ) (f : ℕ) :
    (srcStep P (srcAfter P t ops) (.samples ns f)).2 = routeOut P ns.sum f (sampRoute P ns.sum f) ∧
    (srcStep P (srcAfter P t ops) (.samples ns f)).2 ≠ .zeroDiv := by
  have h := (samples_history_free P t ops ns f).trans (samplesFresh_eq_route hP ns f)
  refine ⟨h, ?_⟩
  rw [h]
  cases sampRoute P ns.sum f <;> simp [routeOut]

/-- **the tag counter over histories**: it never falls below its value `t` at construction, no call decreases it; a filtered `generate_samples` leaves it where it was
(`_events_to_samples` puts it back after every event), an unfiltered one on an imperfect source advances it to
`nfTag`, `generate_distribution` to `tagAfterGen`. -/
theorem source_tag_counter (P : Params) (t : ℕ) (ops : List SrcOp) (o : SrcOp) :
    t ≤ (srcAfter P t ops).tag ∧ (srcAfter P t ops).tag ≤ (srcAfter P t (ops ++ [o])).tag ∧
    (∀ ns f, o = .samples ns f → f ≠ 0 → (srcAfter P t (ops ++ [o])).tag = (srcAfter P t ops).tag) ∧
    (∀ ns, o = .samples ns 0 → isPerfect P = false →
      (srcAfter P t (ops ++ [o])).tag = nfTag P ns (srcAfter P t ops).tag) ∧
    (∀ ns, o = .dist ns → (srcAfter P t (ops ++ [o])).tag = tagAfterGen P ns (srcAfter P t ops).tag) := by
  rw [srcAfter_snoc]
  refine ⟨tag_le_after P t ops, tag_le_step P _ o, ?_, ?_, ?_⟩
  · rintro ns f rfl hf
    exact samples_filtered_tag P _ ns f hf
  · rintro ns rfl hp
    simp [srcStep, hp]
  · rintro ns rfl
    rfl

/-- total loss: the one kind of source for which `cache_prob_table` itself can divide by zero -/
def exLoss : Params := { beta := 1, g2 := 0, q := 1, eta := 0, ind := 1, r := 1, dm := false }

-- `source_cache_coherent` / `samples_history_free` have no hypotheses.  The `zeroDiv` outcome of the model is not
-- vacuous: a direct `cache_prob_table(1, 1)` on a source that loses every photon divides 0.0 by 0.0 …
example : computeFails exLoss 1 1 = true ∧ exLoss.admissible = true := by decide +kernel
-- … and `samples_route_history_free` (hypothesis `exP_WF`) is about a route that exists: the second of two different
-- requests on one object gets ITS table (one entry), not the cached one (three entries)
example : (srcStep exP (srcStep exP Src.init (.samples [1] 1)).1 (.samples [1] 2)).2 = .events (table exP 1 2) ∧
    (table exP 1 1).length = 3 ∧ (table exP 1 2).length = 1 := by decide +kernel
-- NECESSITY of the filter in the cache test: with `expected_input.n != _prob_table_n` alone the same two requests
-- make the second one draw from the table of the first
example : (samplesStepN exP (samplesStepN exP Src.init [1] 1).1 [1] 2).2 = .events (table exP 1 1) ∧
    (samplesStepN exP (samplesStepN exP Src.init [1] 1).1 [1] 2).2 ≠ samplesFresh exP [1] 2 := by decide +kernel
-- the counter really moves on the unfiltered route and not on the filtered one
example : (srcAfter exP 0 [.samples [1, 2] 0]).tag = 6 ∧ (srcAfter exP 0 [.samples [1, 2] 0, .samples [1, 2] 1]).tag = 6 := by
  decide +kernel

end PM.C06
