/-
  C16 — property theorems (model: `Model/C16.lean`, helpers: `Lemmas/C16.lean`).

  The model is the client side of a cloud job: `Experiment` setters, `RemoteProcessor.check_circuit /
  check_input / prepare_job_payload / from_local_processor`, `Job._handle_params`,
  `RemoteJob._create_payload_data / _check_max_shots_samples_validity / execute_async` (as far as the
  handler's `create_job` log goes) and `Sampler._create_job`.  Circuits, post-selections and noise
  models are symbols; what they denote is checked by the correspondence on the real objects.

  `fromLocal true`  = `from_local_processor` with `fixes/C16-from-local-input.diff` applied (main model);
  `fromLocal false` = the code as it stood on the pinned tree (regression witness below).

  Every theorem is for ALL experiments / payload keyword sets / platforms / jobs / argument lists, or
  for ALL histories (lists of operations) of the session machine `step`.

  Extension round 5 (the two sections before the last): one level down the network stack — the HTTP requests the
  real `RPCHandler` emits (`Model/C16Rpc.lean`: `rstep` = `step` + handler + emitted requests, transport as a
  parameter) — and `add` with list / dict / port-name mappings, on herald modes and next to a post-selection,
  `clear_input_and_circuit`, `set_parameters`, `thresholded_output` (`Model/C16Add.lean`: `astep` = `cstep` + ports +
  condition mode sets, user-level reading with routings as functions on modes).

  Extension (three sections before those): the circuit of a request as a MATRIX (`Model/C16Mat.lean`: component lists as
  the code builds them, `cstep` = `step` + components, theorems for all histories and all environments), an input
  state left behind by a later `add_herald` (decided to be outside the statement, characterised exactly), and the
  objects a job's request shares with the processor and the sampler (`Model/C16Heap.lean`: `hstep true` = the pinned
  tree, `hstep false` = the code with `fixes/C16-job-snapshot.diff`, proved equal to `step` over every history).
-/
import PercevalModel.Lemmas.C16
import PercevalModel.Lemmas.C16Est
import PercevalModel.Lemmas.C16More
import PercevalModel.Lemmas.C16Mat
import PercevalModel.Lemmas.C16Heap
import PercevalModel.Lemmas.C16Rpc
import PercevalModel.Lemmas.C16Add
import PercevalModel.Lemmas.C16PS
import PercevalModel.Lemmas.C16Route
import PercevalModel.Lemmas.C16Relabel
import PercevalModel.Lemmas.C16Jobs

namespace PM.C16
open PM.SM

/-! ## the payload describes the processor -/

/-- **payload_complete.**  Whenever `prepare_job_payload` returns a payload (and the caller's extra
keyword arguments do not use one of the seven field names), reading the payload back yields exactly
the configuration of the processor: the command, the circuit (unless `circuitless`), the stored input
state (unless `inputless`), the photon filter — whatever its value, `0` included —, the
post-selection, the heralds and the noise model; and an item that is not configured is absent. -/
theorem payload_complete (pf : Platform) (e : Exp) (cmd : String) (cl il : Bool) (kw : Dict V) (e' : Exp)
    (pl : Dict V) (h : preparePayload pf e cmd cl il kw = (e', .ok pl))
    (hkw : ∀ k ∈ fieldKeys, dget kw k = none) :
    decode pl = configOf e cmd cl il := by
  obtain ⟨-, hf, -, -, rfl⟩ := preparePayload_ok pf e cmd cl il kw e' pl h
  simp only [fieldKeys, List.mem_cons, List.not_mem_nil, or_false, forall_eq_or_imp, forall_eq] at hkw
  obtain ⟨h0, h1, h2, h3, h4, h5, h6⟩ := hkw
  have hp : (syncFilterParam e).params ≠ [] := dset_ne_nil _ _ _
  have hq : dget (syncFilterParam e).params "min_detected_photons" = some (pvOfFilter e.filter) :=
    dget_dset_self _ _ _
  simp only [decode, configOf, fields_command, fields_circuit, fields_input, fields_parameters,
    fields_postselect, fields_heralds, fields_noise, dget, if_true, hp, ne_eq, not_false_eq_true, hq]
  have e1 : inputField (syncFilterParam e) il = inputField e il := rfl
  have e2 : (syncFilterParam e).post = e.post := rfl
  have e3 : (syncFilterParam e).noise = e.noise := rfl
  have e4 : (syncFilterParam e).heralds = e.heralds := rfl
  have e5 : (syncFilterParam e).circ = e.circ := rfl
  have e6 : (syncFilterParam e).size = e.size := rfl
  simp only [String.reduceEq, if_false, h1, h2, h4, h5, h6, e1, e2, e3, e4, e5, e6]
  cases cl <;> cases inputField e il <;> cases e.post <;> cases e.noise <;>
    by_cases hh : e.heralds = [] <;> simp [hh]

/-- non-vacuity: a heralded processor with input, filter 0, post-selection and noise gets a payload -/
example : ∃ e' pl, preparePayload ⟨some 20, none, some 6, some 1, ["probs"]⟩
    { m := 2, size := 3, heralds := [(1, 1)], input := some [1, 1, 0], post := some ⟨0, []⟩, noise := some 1,
      filter := some 0, params := [], circ := ⟨0, []⟩, cparams := [] } "probs" false false [] = (e', .ok pl) :=
  ⟨_, _, rfl⟩

/-- **Every configured item is present with its value**, whatever extra keyword arguments the caller
passes (no hypothesis on `kw`): a configured field always wins over a keyword of the same name. -/
theorem payload_configured_present (pf : Platform) (e : Exp) (cmd : String) (cl il : Bool) (kw : Dict V)
    (e' : Exp) (pl : Dict V) (h : preparePayload pf e cmd cl il kw = (e', .ok pl)) :
    dget pl "command" = some (.pv (.str cmd)) ∧
    (cl = false → dget pl "circuit" = some (.circ e.circ e.size)) ∧
    (∀ s, inputField e il = some s → dget pl "input_state" = some (.state s)) ∧
    (∃ d, dget pl "parameters" = some (.params d) ∧
      dget d "min_detected_photons" = some (pvOfFilter e.filter) ∧ e.filter.isSome) ∧
    (∀ p, e.post = some p → dget pl "postselect" = some (.post p)) ∧
    (e.heralds ≠ [] → dget pl "heralds" = some (.heralds e.heralds)) ∧
    (∀ n, e.noise = some n → dget pl "noise" = some (.noise n)) := by
  obtain ⟨-, hf, -, -, rfl⟩ := preparePayload_ok pf e cmd cl il kw e' pl h
  have hp : (syncFilterParam e).params ≠ [] := dset_ne_nil _ _ _
  refine ⟨?_, ?_, ?_, ?_, ?_, ?_, ?_⟩
  · rw [fields_command]; simp [dget]
  · intro hcl; rw [fields_circuit, hcl]; rfl
  · intro s hs
    have : inputField (syncFilterParam e) il = some s := hs
    rw [fields_input, this]
  · refine ⟨(syncFilterParam e).params, ?_, dget_dset_self _ _ _, hf⟩
    rw [fields_parameters]; simp [hp]
  · intro p hpost
    have : (syncFilterParam e).post = some p := hpost
    rw [fields_postselect, this]
  · intro hh
    have : (syncFilterParam e).heralds ≠ [] := hh
    rw [fields_heralds]; simp only [this, ne_eq, not_false_eq_true, if_true]; rfl
  · intro n hn
    have : (syncFilterParam e).noise = some n := hn
    rw [fields_noise, this]

/-- **A filter of 0 is transmitted** (the value is tested with `is None`, not by truthiness). -/
theorem payload_filter_zero (pf : Platform) (e : Exp) (cmd : String) (cl il : Bool) (kw : Dict V) (e' : Exp)
    (pl : Dict V) (h : preparePayload pf e cmd cl il kw = (e', .ok pl)) (h0 : e.filter = some 0) :
    ∃ d, dget pl "parameters" = some (.params d) ∧ dget d "min_detected_photons" = some (.int 0) := by
  obtain ⟨-, -, -, ⟨d, h1, h2, -⟩, -⟩ := payload_configured_present pf e cmd cl il kw e' pl h
  exact ⟨d, h1, by rw [h2, h0]; rfl⟩

/-- Keys `prepare_job_payload` does not own are passed through from the caller's keyword arguments. -/
theorem payload_kwargs_passed (pf : Platform) (e : Exp) (cmd : String) (cl il : Bool) (kw : Dict V) (e' : Exp)
    (pl : Dict V) (h : preparePayload pf e cmd cl il kw = (e', .ok pl)) (x : String) (hx : x ∉ fieldKeys) :
    dget pl x = dget kw x := by
  obtain ⟨-, -, -, -, rfl⟩ := preparePayload_ok pf e cmd cl il kw e' pl h
  rw [fields_other _ _ _ _ _ hx]
  have : "command" ≠ x := by intro e; subst e; simp [fieldKeys] at hx
  simp [dget, this]

/-- A payload is only produced when the photon filter is set, and the only thing `prepare_job_payload`
changes in the processor is the synchronised `min_detected_photons` parameter. -/
theorem payload_requires_filter (pf : Platform) (e : Exp) (cmd : String) (cl il : Bool) (kw : Dict V)
    (e' : Exp) (pl : Dict V) (h : preparePayload pf e cmd cl il kw = (e', .ok pl)) :
    e.filter.isSome ∧ e' = syncFilterParam e :=
  let ⟨_, h1, h2, _, _⟩ := preparePayload_ok pf e cmd cl il kw e' pl h
  ⟨h1, h2⟩

/-! ## the circuit in a request is the processor's circuit *now* (nothing stale survives a change) -/

/-- **payload_circuit_is_current.**  In every state of a session, a payload that carries a circuit
carries the circuit symbol the processor holds at that very moment, with the current circuit size —
`prepare_job_payload` reads the experiment afresh, whatever was produced or sent before. -/
theorem payload_circuit_is_current (w : World) (cmd : String) (il : Bool) (kw : Dict V) (pl : Dict V)
    (h : (step w (.prepare cmd false il kw)).2 = .payload pl) :
    ∃ e, w.exp = some e ∧ dget pl "circuit" = some (.circ e.circ e.size) := by
  cases he : w.exp with
  | none => simp [step, he] at h
  | some e =>
    cases hp : preparePayload w.pf e cmd false il kw with
    | mk e' r =>
      cases r with
      | error err => simp [step, he, hp] at h
      | ok pl0 =>
        simp only [step, he, hp, Out.payload.injEq] at h
        subst h
        exact ⟨e, rfl, (payload_configured_present w.pf e cmd false il kw e' pl0 hp).2.1 rfl⟩

/-- … and the payload captured by a `Sampler` job at its creation likewise. -/
theorem job_circuit_is_current (w : World) (method : Method) (pl : Dict V)
    (h : (step w (.createJob method)).2 = .payload pl) :
    ∃ e, w.exp = some e ∧ dget pl "circuit" = some (.circ e.circ e.size) := by
  cases he : w.exp with
  | none => simp [step, he] at h
  | some e =>
    cases hs : w.sampler with
    | none => simp [step, he, hs] at h
    | some s =>
      cases hj : createJob w.pf e s method with
      | mk e' r =>
        cases r with
        | error err => simp [step, he, hs, hj] at h
        | ok j =>
          simp only [step, he, hs, hj, Out.payload.injEq] at h
          subst h
          obtain ⟨prim, conv, pl0, -, -, hp, hpl, -, -, -, -⟩ := createJob_ok w.pf e s method e' j hj
          refine ⟨e, rfl, ?_⟩
          rw [hpl, dget_dset_ne _ _ _ _ (by decide)]
          have h0 := (payload_configured_present w.pf e prim.name false false [] e' pl0 hp).2.1 rfl
          split
          · rw [dget_dset_ne _ _ _ _ (by decide)]; exact h0
          · exact h0

/-- **circuit_never_stale.**  Over EVERY history of operations that do not change the circuit (input,
filter, post-selection, noise, heralds, parameters, payload generation, samplers, iterations, job
creation, executions — in any number and order), the next payload still carries the circuit symbol
the processor held before that history: producing or sending requests leaves no copy that could
replace the processor's own circuit. -/
theorem circuit_never_stale (w : World) (ops : List Op) (hops : ∀ op ∈ ops, op.touchesCircuit = false)
    (cmd : String) (il : Bool) (kw : Dict V) (pl : Dict V)
    (h : (step (exec step w ops) (.prepare cmd false il kw)).2 = .payload pl) :
    ∃ c n, w.circ = some c ∧ dget pl "circuit" = some (.circ c n) := by
  obtain ⟨e, he, hc⟩ := payload_circuit_is_current _ cmd il kw pl h
  refine ⟨e.circ, e.size, ?_, hc⟩
  rw [← exec_circ_frame w ops hops]
  simp [World.circ, he]

/-- **A parameter value changed between two requests reaches the second request.**  After
`P.set_value` on a circuit parameter (the circuit then denotes the matrix `c`), and after any history of
non-circuit operations — earlier payloads and executed jobs included —, the payload carries `c`. -/
theorem retuned_circuit_is_sent (w : World) (c : Nat) (ops : List Op)
    (hops : ∀ op ∈ ops, op.touchesCircuit = false) (cmd : String) (il : Bool) (kw : Dict V) (pl : Dict V)
    (h : (step (exec step (step w (.retune c)).1 ops) (.prepare cmd false il kw)).2 = .payload pl) :
    ∃ s n, dget pl "circuit" = some (.circ s n) ∧ s.id = c := by
  obtain ⟨s, n, hs, hpl⟩ := circuit_never_stale _ ops hops cmd il kw pl h
  refine ⟨s, n, hpl, ?_⟩
  cases he : w.exp with
  | none => simp [step, onExp, he, World.circ] at hs
  | some e =>
    simp only [step, onExp, he, World.circ, pure, Except.pure, Option.map_some, Option.some.injEq] at hs
    rw [← hs]; rfl

/-- **A circuit replaced between two requests reaches the second request**, through
`RemoteProcessor.set_circuit` as well as through `rp.experiment.set_circuit`, and so does a component
appended with `add`. -/
theorem replaced_circuit_is_sent (w : World) (op : Op) (c : Nat)
    (hop : (∃ checked sz cps, op = .setCircuit checked sz c cps) ∨ (∃ cps, op = .addComponent c cps))
    (hdone : (step w op).2 = .done) (ops : List Op)
    (hops : ∀ op ∈ ops, op.touchesCircuit = false) (cmd : String) (il : Bool) (kw : Dict V) (pl : Dict V)
    (h : (step (exec step (step w op).1 ops) (.prepare cmd false il kw)).2 = .payload pl) :
    ∃ n, dget pl "circuit" = some (.circ ⟨c, []⟩ n) := by
  obtain ⟨s, n, hs, hpl⟩ := circuit_never_stale _ ops hops cmd il kw pl h
  refine ⟨n, ?_⟩
  rw [hpl]
  suffices hh : (step w op).1.circ = some ⟨c, []⟩ by rw [hh] at hs; cases hs; rfl
  cases he : w.exp with
  | none =>
    rcases hop with ⟨checked, sz, cps, rfl⟩ | ⟨cps, rfl⟩ <;> simp [step, onExp, he] at hdone
  | some e =>
    rcases hop with ⟨checked, sz, cps, rfl⟩ | ⟨cps, rfl⟩
    · simp only [step, onExp, he] at hdone ⊢
      split at hdone
      · cases hdone
      · rename_i e' hf
        simp only [World.circ, Option.map_some, Option.some.injEq]
        split at hf
        · cases hf
        · unfold setCircuit at hf
          split at hf
          · cases hf
          · split at hf
            · cases hf
            · cases hf; rfl
    · simp only [step, onExp, he] at hdone ⊢
      split at hdone
      · cases hdone
      · rename_i e' hf
        simp only [World.circ, Option.map_some, Option.some.injEq]
        split at hf
        · cases hf
        · cases hf; rfl

/-- a phase scan: two payloads of the same processor around a `set_value` carry two different circuits;
and a replaced circuit is the one sent afterwards -/
example : ((run step (World.init ⟨none, none, none, none, ["probs"]⟩)
    [.newRemote false 2 0 ["phi"] none, .setFilter (some 1), .withInput [1, 0], .prepare "probs" false false [],
     .retune 1, .prepare "probs" false false [], .setCircuit false 2 2 [], .prepare "probs" false false []]).2.map
      (fun o => match o with | .payload pl => dget pl "circuit" | _ => none)) =
    [none, none, none, some (.circ ⟨0, []⟩ 2), none, some (.circ ⟨1, []⟩ 2), none, some (.circ ⟨2, []⟩ 2)] := by
  decide

/-! ## heralds are part of the input state -/

/-- **Heralds included in the input.**  On a well-formed experiment `with_input(s)` succeeds exactly when
`s` has one entry per mode of interest; the state stored (and later transmitted) has the size of the
circuit, carries each herald's expected photon count on the herald's mode, and is the user's state on
the other modes. -/
theorem input_includes_heralds (e : Exp) (hwf : e.WF) (s : List Nat) :
    (s.length ≠ e.m → withInput e s = .error .assertion) ∧
    (s.length = e.m → ∃ e' t, withInput e s = .ok e' ∧ e'.input = some t ∧ e'.WF ∧
      e'.heralds = e.heralds ∧ t.length = e.size ∧
      removeModes (heraldModes e) 0 t = s ∧ ∀ k v, (k, v) ∈ e.heralds → t[k]? = some v) := by
  refine ⟨withInput_err e s, fun hs => ?_⟩
  obtain ⟨h1, h2, h3⟩ := merge_spec e hwf s hs
  exact ⟨_, _, withInput_ok e s hs, rfl, withInput_wf e _ hwf s (withInput_ok e s hs), rfl, h1, h2, h3⟩

example : ∃ e : Exp, e.WF ∧ e.heralds ≠ [] ∧ ∃ s : List Nat, s.length = e.m :=
  ⟨{ m := 2, size := 4, heralds := [(1, 1), (3, 0)], input := none, post := none, noise := none,
     filter := none, params := [], circ := ⟨0, []⟩, cparams := [] }, by decide, by decide, [1, 0], rfl⟩

/-- … and that state is what the payload carries: set the input, then prepare the payload. -/
theorem payload_input_includes_heralds (pf : Platform) (e e1 e2 : Exp) (hwf : e.WF) (s : List Nat)
    (cmd : String) (cl : Bool) (kw : Dict V) (pl : Dict V) (hsz : e.size ≠ 0)
    (h1 : withInput e s = .ok e1) (h2 : preparePayload pf e1 cmd cl false kw = (e2, .ok pl)) :
    ∃ t, dget pl "input_state" = some (.state t) ∧ t.length = e.size ∧
      removeModes (heraldModes e) 0 t = s ∧ ∀ k v, (k, v) ∈ e.heralds → t[k]? = some v := by
  by_cases hs : s.length = e.m
  · obtain ⟨e', t, hw, hin, -, -, hl, hr, hh⟩ := (input_includes_heralds e hwf s).2 hs
    rw [hw] at h1; cases h1
    refine ⟨t, ?_, hl, hr, hh⟩
    have hne : t ≠ [] := by intro e0; subst e0; simp at hl; exact hsz hl.symm
    exact (payload_configured_present pf _ cmd cl false kw e2 pl h2).2.2.1 t (by simp [inputField, hin, hne])
  · rw [withInput_err e s hs] at h1; cases h1

/-! ## constraints are enforced before anything is produced -/

/-- **constraints_enforced.**  A payload that carries a circuit was checked against the platform's
mode-count window, and a payload that carries an input state was checked against the photon-count
window with the herald photons counted (`n_user + n_heralds`, `n_user` = photons on the modes of
interest). -/
theorem constraints_enforced (pf : Platform) (e : Exp) (cmd : String) (cl il : Bool) (kw : Dict V) (e' : Exp)
    (pl : Dict V) (h : preparePayload pf e cmd cl il kw = (e', .ok pl)) :
    (cl = false → (∀ mx, pf.maxModes = some mx → e.size ≤ mx) ∧ (∀ mn, pf.minModes = some mn → mn ≤ e.size)) ∧
    (∀ t, inputField e il = some t →
      (removeModes (heraldModes e) 0 t).length = e.m ∧
      (∀ mx, pf.maxPhotons = some mx → (removeModes (heraldModes e) 0 t).sum + heraldSum e ≤ mx) ∧
      (∀ mn, pf.minPhotons = some mn → mn ≤ (removeModes (heraldModes e) 0 t).sum + heraldSum e)) := by
  obtain ⟨-, -, -, hg, -⟩ := preparePayload_ok pf e cmd cl il kw e' pl h
  unfold guardsAfterSync at hg
  constructor
  · intro hcl
    subst hcl
    simp only [Bool.false_eq_true, if_false] at hg
    cases hc : checkCircuit pf (syncFilterParam e) with
    | some err => rw [hc] at hg; cases hg
    | none =>
      unfold checkCircuit at hc
      have hsz : (syncFilterParam e).size = e.size := rfl
      rw [hsz] at hc
      constructor
      · intro mx hmx
        simp only [hmx, above] at hc
        by_cases hlt : mx < e.size
        · simp [hlt] at hc
        · omega
      · intro mn hmn
        simp only [hmn, below] at hc
        by_cases hlt : e.size < mn
        · simp [hlt] at hc
        · omega
  · intro t ht
    have ht' : inputField (syncFilterParam e) il = some t := ht
    have hg2 : checkInput pf (syncFilterParam e) (removeModes (heraldModes e) 0 t) = none := by
      split at hg
      · cases hg
      · rw [ht'] at hg; exact hg
    unfold checkInput at hg2
    have hm : (syncFilterParam e).m = e.m := rfl
    have hh : heraldSum (syncFilterParam e) = heraldSum e := rfl
    rw [hm, hh] at hg2
    split at hg2
    · cases hg2
    · rename_i hlen
      refine ⟨by simpa using hlen, ?_, ?_⟩
      · intro mx hmx
        simp only [hmx, above] at hg2
        by_cases hlt : mx < (removeModes (heraldModes e) 0 t).sum + heraldSum e
        · simp [hlt] at hg2
        · omega
      · intro mn hmn
        simp only [hmn, below] at hg2
        by_cases hlt : (removeModes (heraldModes e) 0 t).sum + heraldSum e < mn
        · simp [hlt] at hg2
        · omega

/-- too many modes for the platform: refused -/
example : (preparePayload ⟨some 2, none, none, none, []⟩
    { m := 3, size := 3, heralds := [], input := none, post := none, noise := none, filter := some 0,
      params := [], circ := ⟨0, []⟩, cparams := [] } "probs" false false []).2 = .error .runtime := rfl

/-- too many photons once the herald photon is counted: refused -/
example : (preparePayload ⟨none, none, some 2, none, []⟩
    { m := 2, size := 3, heralds := [(1, 1)], input := some [1, 1, 1], post := none, noise := none,
      filter := some 0, params := [], circ := ⟨0, []⟩, cparams := [] } "probs" false false []).2 = .error .runtime := rfl

/-- **iteration_constraints_enforced.**  An iteration accepted by `_check_iteration` — whatever other
keys it carries and in whatever order — has had EVERY `input_state` entry checked: the state has the
size of the processor's modes of interest and `n_state + n_heralds` is inside the platform's
photon-count window; and every `circuit_params` entry names only parameters of the circuit, with
numbers as values. -/
theorem iteration_constraints_enforced (pf : Platform) (e : Exp) (it : Dict IV)
    (h : checkIteration pf e it = none) :
    (∀ st, ("input_state", IV.state st) ∈ it →
      st.length = e.m ∧ (∀ mx, pf.maxPhotons = some mx → st.sum + heraldSum e ≤ mx) ∧
      (∀ mn, pf.minPhotons = some mn → mn ≤ st.sum + heraldSum e)) ∧
    (∀ v, ("input_state", v) ∈ it → ∃ st, v = IV.state st) ∧
    (∀ d, ("circuit_params", IV.cparams d) ∈ it → checkCParams e.cparams d = none) := by
  have hall := checkIteration_none pf e it h
  refine ⟨?_, ?_, ?_⟩
  · intro st hst
    have hk := hall _ hst
    simp only [checkIterKey] at hk
    simp only [show ("input_state" = "circuit_params") = False from by decide, if_false, if_true] at hk
    split at hk
    · cases hk
    · rename_i hlen
      have hci : checkInput pf e st = none := hk
      unfold checkInput at hci
      simp only [hlen, if_false] at hci
      refine ⟨by simpa using hlen, ?_, ?_⟩
      · intro mx hmx
        simp only [hmx, above] at hci
        by_cases hlt : mx < st.sum + heraldSum e
        · simp [hlt] at hci
        · omega
      · intro mn hmn
        simp only [hmn, below] at hci
        by_cases hlt : st.sum + heraldSum e < mn
        · simp [hlt] at hci
        · omega
  · intro v hv
    have hk := hall _ hv
    simp only [checkIterKey] at hk
    simp only [show ("input_state" = "circuit_params") = False from by decide, if_false, if_true] at hk
    cases v with
    | state st => exact ⟨st, rfl⟩
    | cparams _ => cases hk
    | int _ => cases hk
    | noise _ => cases hk
    | other => cases hk
  · intro d hd
    have hk := hall _ hd
    simpa only [checkIterKey, if_true] using hk

/-- too many photons in an iterated input state: refused, alone or next to `circuit_params`, in
either order -/
example : checkIteration ⟨none, none, some 3, none, []⟩
    { m := 4, size := 4, heralds := [], input := none, post := none, noise := none, filter := some 0,
      params := [], circ := ⟨0, []⟩, cparams := ["phi"] }
    [("circuit_params", .cparams [("phi", .int 1)]), ("input_state", .state [1, 1, 1, 1])] = some .runtime := by decide
example : checkIteration ⟨none, none, some 3, none, []⟩
    { m := 4, size := 4, heralds := [], input := none, post := none, noise := none, filter := some 0,
      params := [], circ := ⟨0, []⟩, cparams := ["phi"] }
    [("input_state", .state [1, 1, 1, 1]), ("circuit_params", .cparams [("phi", .int 1)])] = some .runtime := by decide

/-- **sent_iterations_were_checked.**  Over every history from the initial state: every iteration of
every request the platform has received (and of every job created, and of the sampler's current list)
was accepted by `_check_iteration` against the session's processor as it was when the iteration was
added — with `iteration_constraints_enforced`: no iterated input state reaches the platform without
its size and photon count having been checked. -/
theorem sent_iterations_were_checked (pf : Platform) (ops : List Op) :
    ∀ s ∈ (exec step (World.init pf) ops).log, ∀ it ∈ s.iterator, ∃ e : Exp, checkIteration pf e it = none := by
  have hpf : (exec step (World.init pf) ops).pf = pf := by
    apply inv_exec step (fun w => w.pf = pf)
    · intro w op hw
      cases hx : op.isExecute with
      | false => rw [(step_frame w op hx).2.2.1]; exact hw
      | true =>
        cases op with
        | execute idx args kw net =>
          rcases step_execute w idx args kw net with ⟨-, h⟩ | ⟨j, its, -, -, h⟩ | ⟨j, its, err, -, -, -, h⟩ |
              ⟨j, its, pl, -, -, -, h⟩ <;> rw [h] <;> exact hw
        | _ => cases hx
    · rfl
  have h := inv_exec step World.ItersChecked itersChecked_step (World.init pf)
    ⟨fun s hs => (by cases hs), fun ji hji => (by cases hji), fun s hs => (by cases hs)⟩ ops
  intro s hs it hit
  have := h.log s hs it hit
  rw [hpf] at this
  exact this

/-! ## limits: `max_samples ≤ max_shots` -/

/-- **clamp.**  Whatever the job, the positional and the keyword arguments: if `_create_payload_data`
returns a payload that carries both limits then both are integers and `max_samples ≤ max_shots`. -/
theorem clamp (j : Job) (args : List PV) (kw : Dict PV) (pl : Dict V)
    (h : createPayloadData j args kw = .ok pl) : Clamped pl := by
  obtain ⟨c, m, ctx, -, hc⟩ := createPayloadData_ok j args kw pl h
  exact clampPayload_clamped _ _ hc

/-- the clamp lowers `max_samples` and touches nothing else -/
theorem clamp_only_max_samples (pl pl' : Dict V) (h : clampPayload pl = .ok pl') (x : String)
    (hx : x ≠ "max_samples") : dget pl' x = dget pl x :=
  clampPayload_other pl pl' h x hx

example : clampPayload [("max_samples", .pv (.int 10000)), ("max_shots", .pv (.int 500))] =
    .ok [("max_samples", .pv (.int 500)), ("max_shots", .pv (.int 500))] := rfl

/-! ## nothing is sent before `execute`; one `create_job` per `execute`, whatever the network does -/

/-- In every state, a step whose output is a transmission is an `execute` step. -/
theorem sent_only_by_execute (w : World) (op : Op) (h : (step w op).2.isSent = true) : op.isExecute = true := by
  cases hx : op.isExecute with
  | true => rfl
  | false => rw [(step_frame w op hx).2.1] at h; cases h

/-- **one_create_per_execute.**  Over every history — whatever the network does to each request
(`Net`: answered, delivered with the answer lost, not delivered / refused) — the requests received by
the platform through `rpc_handler.create_job` are exactly the transmissions reported by the steps, in
order: one entry per `execute_async` whose request was delivered, nothing from any other call. -/
theorem one_create_per_execute (w : World) (ops : List Op) :
    (exec step w ops).log = w.log ++ sentOf (run step w ops).2 := by
  induction ops generalizing w with
  | nil => simp [exec, run, sentOf]
  | cons op ops ih =>
    rw [exec_cons, ih, step_log, run_cons]
    simp only [List.append_assoc]
    congr 1
    exact (sentOf_cons _ _).symm

/-- **execution_creates_at_most_one_job.**  In every state, whatever the operation, its arguments and
the behaviour of the network: ONE call makes the platform receive at most one request — none unless
the call is an `execute` whose request was delivered, exactly one (the request reported) if it was.
In particular a call that returns normally (`.sent`) has created exactly one remote job, and a call
whose answer was lost (`.lost`) has created exactly one too: the client never re-sends. -/
theorem execution_creates_at_most_one_job (w : World) (op : Op) :
    (∀ s, (step w op).2 = .sent s ∨ (step w op).2 = .lost s → (step w op).1.log = w.log ++ [s]) ∧
    ((step w op).2.isSent = false → (step w op).1.log = w.log) ∧
    (step w op).1.log.length ≤ w.log.length + 1 := by
  have hl := step_log w op
  refine ⟨?_, ?_, ?_⟩
  · intro s hs
    rcases hs with hs | hs <;> rw [hl, hs] <;> rfl
  · intro hs
    rw [hl]
    cases ho : (step w op).2 with
    | sent s => rw [ho] at hs; cases hs
    | lost s => rw [ho] at hs; cases hs
    | err _ => simp [sentOf]
    | done => simp [sentOf]
    | payload _ => simp [sentOf]
  · rw [hl]
    cases (step w op).2 <;> simp [sentOf]

/-- an answer lost on the way back: the job was created platform side, the call raises -/
example : (step (exec step (World.init ⟨none, none, none, none, ["probs"]⟩)
    [.newRemote false 2 0 [] none, .setFilter (some 0), .withInput [1, 0], .newSampler (.int 100), .createJob .probs])
    (.execute 0 [] [] .lost)).2.isSent = true ∧
  (exec step (World.init ⟨none, none, none, none, ["probs"]⟩)
    [.newRemote false 2 0 [] none, .setFilter (some 0), .withInput [1, 0], .newSampler (.int 100), .createJob .probs,
     .execute 0 [] [] .lost, .execute 0 [] [] .ok]).log.length = 1 := by decide

/-- **no_send_before_execute.**  A history without `execute` transmits nothing, however the processor,
the sampler and the jobs are configured, created and inspected (`prepare_job_payload` included). -/
theorem no_send_before_execute (w : World) (ops : List Op) (h : ∀ op ∈ ops, op.isExecute = false) :
    (exec step w ops).log = w.log := by
  induction ops generalizing w with
  | nil => rfl
  | cons op ops ih =>
    rw [exec_cons, ih _ (fun o ho => h o (List.mem_cons_of_mem _ ho)), (step_frame w op (h op (by simp))).1]

example : (exec step (World.init ⟨none, none, none, none, ["probs"]⟩)
    [.newRemote false 2 0 [] none, .setFilter (some 0), .withInput [1, 0], .prepare "probs" false false [],
     .newSampler (.int 100), .createJob .probs]).log = [] := by decide

/-- **A job is transmitted at most once.**  Once `execute_async` has been called on a job (whether it
sent the job, raised before sending, or the network failed — answer lost or request not delivered),
every later `execute_async` on the same job — after any history whatsoever, whatever the network does
then — is refused with `AssertionError` and reaches the handler with nothing: a request whose answer
was lost is never sent a second time. -/
theorem job_sent_at_most_once (w : World) (idx : Nat) (args args' : List PV) (kw kw' : Dict PV) (net net' : Net)
    (ops : List Op) (hidx : idx < w.jobs.length) :
    let w₂ := exec step (step w (.execute idx args kw net)).1 ops
    step w₂ (.execute idx args' kw' net') = (w₂, .err .assertion) := by
  intro w₂
  have h1 : Executed (step w (.execute idx args kw net)).1 idx := by
    rcases step_execute w idx args kw net with ⟨hn, -⟩ | ⟨j, its, hj, hf, h⟩ | ⟨j, its, err, hj, -, -, h⟩ |
        ⟨j, its, pl, hj, -, -, h⟩
    · rw [List.getElem?_eq_getElem hidx] at hn; cases hn
    · rw [h]; exact ⟨j, its, hj, hf⟩
    · rw [h]; exact ⟨{ j with fresh := false }, its, by simp [hidx], rfl⟩
    · rw [h]; exact ⟨{ j with fresh := false }, its, by simp [hidx], rfl⟩
  have h2 : Executed w₂ idx := inv_exec step (Executed · idx) (fun s op hs => executed_step s op idx hs) _ h1 ops
  obtain ⟨j, its, hj, hf⟩ := h2
  rcases step_execute w₂ idx args' kw' net' with ⟨hn, -⟩ | ⟨j', its', -, -, h⟩ | ⟨j', its', err, hj', hf', -, -⟩ |
      ⟨j', its', pl, hj', hf', -, -⟩
  · rw [hj] at hn; cases hn
  · exact h
  · rw [hj] at hj'; cases hj'; rw [hf] at hf'; cases hf'
  · rw [hj] at hj'; cases hj'; rw [hf] at hf'; cases hf'

/-- **Every transmitted payload is clamped**, over every history from the initial state. -/
theorem clamp_every_sent (pf : Platform) (ops : List Op) :
    ∀ s ∈ (exec step (World.init pf) ops).log, Clamped s.payload := by
  apply inv_exec step (fun w => ∀ s ∈ w.log, Clamped s.payload)
  · intro w op hw
    cases hx : op.isExecute with
    | false => rw [(step_frame w op hx).1]; exact hw
    | true =>
      cases op with
      | execute idx args kw net =>
        rcases step_execute w idx args kw net with ⟨-, h⟩ | ⟨j, its, -, -, h⟩ | ⟨j, its, err, -, -, -, h⟩ |
            ⟨j, its, pl, -, -, hc, h⟩ <;> rw [h]
        · exact hw
        · exact hw
        · exact hw
        · intro s hs
          simp only [List.mem_append] at hs
          rcases hs with hs | hs
          · exact hw s hs
          · cases net <;> simp only [received, List.mem_cons, List.not_mem_nil, or_false] at hs
            · subst hs; exact clamp j args kw pl hc
            · subst hs; exact clamp j args kw pl hc
      | _ => cases hx
  · intro s hs; cases hs

/-- **The remote processor stays well-formed** (`m + #heralds = circuit size`, distinct herald modes
inside the circuit, a stored input state of full size) over every history — this is the hypothesis of
`input_includes_heralds`. -/
theorem wf_invariant (pf : Platform) (ops : List Op) (e : Exp)
    (h : (exec step (World.init pf) ops).exp = some e) : e.WF :=
  inv_exec step World.WFInv step_wf (World.init pf) (fun _ h => by cases h) ops e h

/-! ## what a `Sampler` job transmits -/

/-- **The job sent describes the processor as it was when the job was created.**  For every platform,
processor, sampler, method and every `execute_async` argument list: if the job is created and then
sent, decoding the transmitted payload yields the processor's configuration with the chosen primitive
as command, `max_shots` is the sampler's `max_shots_per_call`, the iterator is present iff iterations
were added, and the limits are clamped. -/
theorem job_sent_describes_processor (pf : Platform) (e e' : Exp) (s : Sampler) (method : Method) (j : Job)
    (args : List PV) (kw : Dict PV) (pl : Dict V)
    (h1 : createJob pf e s method = (e', .ok j)) (h2 : createPayloadData j args kw = .ok pl) :
    ∃ prim conv, primitive pf.commands method = some (prim, conv) ∧
      decode pl = configOf e prim.name false false ∧
      dget pl "max_shots" = some (.pv (.int s.maxShots)) ∧
      dget pl "iterator" = (if s.iterator ≠ [] then some (.iter s.iterator.length) else none) ∧
      Clamped pl ∧ j.jobName = method.name := by
  obtain ⟨prim, conv, pl0, hprim, -, hp, hpl, hk, hname, -, -⟩ := createJob_ok pf e s method e' j h1
  have hk' : ∀ x, x ∈ dkeys j.command ∨ x ∈ j.names → x ∉ fieldKeys := by
    intro x hx; rw [hk x hx]; decide
  have hf := createPayloadData_fields j args kw pl h2 hk'
  obtain ⟨c, m, ctx, hh, hc⟩ := createPayloadData_ok j args kw pl h2
  have hkeys := (handleParams_keys _ _ _ _ _ _ _ hh).1
  have hnot : ∀ x, x ≠ "max_samples" → x ≠ "job_context" → x ∉ dkeys (pvDict c ++ [("job_context", ctx)]) := by
    intro x h1 h2 hm
    simp only [dkeys, List.map_append, List.map_cons, List.map_nil, List.mem_append, List.mem_cons,
      List.not_mem_nil, or_false] at hm
    rcases hm with hm | hm
    · have : x ∈ dkeys (pvDict c) := hm
      rw [dkeys_pvDict] at this
      exact h1 (hk x (hkeys x this))
    · exact h2 hm
  refine ⟨prim, conv, hprim, ?_, ?_, ?_, clamp j args kw pl h2, hname⟩
  · rw [decode_congr pl j.payload hf, ← payload_complete pf e prim.name false false [] e' pl0 hp (by intro k _; rfl)]
    apply decode_congr
    intro x hx
    rw [hpl, dget_dset_ne _ _ _ _ (by intro e0; subst e0; simp [fieldKeys] at hx)]
    split
    · rw [dget_dset_ne _ _ _ _ (by intro e0; subst e0; simp [fieldKeys] at hx)]
    · rfl
  · rw [clampPayload_other _ _ hc "max_shots" (by decide),
      dget_dupdate_of_not_mem _ _ _ (hnot "max_shots" (by decide) (by decide)), hpl, dget_dset_self]
  · rw [clampPayload_other _ _ hc "iterator" (by decide),
      dget_dupdate_of_not_mem _ _ _ (hnot "iterator" (by decide) (by decide)), hpl,
      dget_dset_ne _ _ _ _ (by decide)]
    split
    · rw [dget_dset_self]
    · obtain ⟨-, -, -, -, rfl⟩ := preparePayload_ok _ _ _ _ _ _ _ _ hp
      rw [fields_other _ _ _ _ _ (by decide)]
      simp [dget]

example : ∃ e' j, createJob ⟨none, none, none, none, ["sample_count"]⟩
    { m := 2, size := 2, heralds := [], input := some [1, 0], post := none, noise := none, filter := some 0,
      params := [], circ := ⟨0, []⟩, cparams := [] } ⟨100, []⟩ .probs = (e', .ok j) ∧
    ∃ pl, createPayloadData j [.int 5000] [] = .ok pl := ⟨_, _, rfl, _, rfl⟩

/-- **primitive_choice.**  The command sent is available on the platform; it is the requested method
itself whenever that is available (then no result conversion is recorded), otherwise another available
primitive together with the converter back to the requested method; a job is refused only when none of
the three primitives is available. -/
theorem primitive_choice (avail : List String) (method : Method) :
    (∀ p conv, primitive avail method = some (p, conv) →
      p.name ∈ avail ∧ (conv = none ↔ p = method) ∧ (method.name ∈ avail → p = method)) ∧
    (primitive avail method = none ↔ "probs" ∉ avail ∧ "sample_count" ∉ avail ∧ "samples" ∉ avail) := by
  cases method <;>
    by_cases h1 : "probs" ∈ avail <;> by_cases h2 : "sample_count" ∈ avail <;>
    by_cases h3 : "samples" ∈ avail <;>
    simp [primitive, methodMapping, firstAvailable, Method.name, h1, h2, h3] <;>
    (intro p conv hp hc; subst hp; subst hc; simp [h1, h2, h3])

/-! ## `Job._handle_params` -/

/-- **handle_params_spec (positional part).**  When `_handle_params` succeeds (parameter names being
distinct): at most `len(param_names)` positional arguments remain after the extra one was taken as
`max_samples`, none of the names bound positionally was also given by keyword, and each positional
argument is stored in the command under its parameter name. -/
theorem handle_params_positional (names : List String) (command mapping : Dict PV) (args : List PV)
    (kw c m : Dict PV) (hn : names.Nodup)
    (h : handleParams names command mapping args kw = .ok (c, m)) :
    let rest := (splitArgs names args mapping).1
    rest.length ≤ names.length ∧
    ∀ i (h1 : i < rest.length) (h2 : i < names.length),
      dget kw names[i] = none ∧ dget c names[i] = some rest[i] := by
  intro rest
  obtain ⟨c₁, hb, rfl, -, -⟩ := handleParams_ok _ _ _ _ _ _ _ h
  obtain ⟨h1, h2, -⟩ := bindPositional_spec kw rest names command c₁ hn hb
  refine ⟨h1, fun i hi hi' => ?_⟩
  obtain ⟨h3, h4⟩ := h2 i hi hi'
  exact ⟨h3, by rw [fill_dget_of_absent _ _ _ h3]; exact h4⟩

/-- **handle_params_spec (duplicates raise).**  A parameter passed both positionally and by keyword
raises `RuntimeError`. -/
theorem handle_params_duplicate_raises (names : List String) (command mapping : Dict PV) (args : List PV)
    (kw : Dict PV) (i : Nat) (h1 : i < (splitArgs names args mapping).1.length) (h2 : i < names.length)
    (hd : (dget kw names[i]).isSome) :
    handleParams names command mapping args kw = .error .runtime := by
  unfold handleParams
  simp only
  rw [bindPositional_dup kw _ names command i h1 h2 hd]
  rfl

/-- **handle_params_spec (extra positional argument).**  With more positional arguments than parameter
names, the last one is taken as the mapping's `max_samples`. -/
theorem handle_params_extra_positional (names : List String) (args : List PV) (mapping : Dict PV)
    (h : names.length < args.length) :
    ∃ x, args.getLast? = some x ∧ splitArgs names args mapping = (args.dropLast, dset mapping "max_samples" x) := by
  cases hl : args.getLast? with
  | none =>
    have : args = [] := by simpa using hl
    subst this; simp at h
  | some x => exact ⟨x, rfl, by simp [splitArgs, h, hl]⟩

/-- **handle_params_spec (keywords land, leftovers raise).**  When `_handle_params` succeeds, every
keyword argument `k = v` has been written, with its value, into the command or into the mapping
parameters; in particular a keyword that names no known parameter makes the call raise. -/
theorem handle_params_keywords (names : List String) (command mapping : Dict PV) (args : List PV)
    (kw c m : Dict PV) (h : handleParams names command mapping args kw = .ok (c, m)) :
    (∀ k v, dget kw k = some v → (k, v) ∈ c ∨ (k, v) ∈ m) ∧
    (∀ k ∈ dkeys kw, k ∈ dkeys command ∨ k ∈ names ∨ k ∈ dkeys mapping ∨ k = "max_samples") := by
  have hkeys := handleParams_keys _ _ _ _ _ _ _ h
  obtain ⟨c₁, hb, rfl, rfl, hnil⟩ := handleParams_ok _ _ _ _ _ _ _ h
  have hland : ∀ k v, dget kw k = some v →
      (k, v) ∈ (fill c₁ kw).1 ∨ (k, v) ∈ (fill (splitArgs names args mapping).2 (fill c₁ kw).2).1 := by
    intro k v hkv
    rcases fill_lands c₁ kw k v hkv with h1 | h1
    · rcases fill_lands (splitArgs names args mapping).2 _ k v h1 with h2 | h2
      · rw [hnil] at h2; cases h2
      · exact Or.inr h2
    · exact Or.inl h1
  refine ⟨hland, ?_⟩
  intro k hk
  have : ∃ v, dget kw k = some v := dget_of_mem_dkeys kw k hk
  obtain ⟨v, hv⟩ := this
  rcases hland k v hv with h1 | h1
  · have : k ∈ dkeys (fill c₁ kw).1 := List.mem_map.mpr ⟨(k, v), h1, rfl⟩
    rcases hkeys.1 k this with h2 | h2
    · exact Or.inl h2
    · exact Or.inr (Or.inl h2)
  · have : k ∈ dkeys (fill (splitArgs names args mapping).2 (fill c₁ kw).2).1 := List.mem_map.mpr ⟨(k, v), h1, rfl⟩
    rcases hkeys.2 k this with h2 | h2
    · exact Or.inr (Or.inr (Or.inl h2))
    · exact Or.inr (Or.inr (Or.inr h2))

/-- `job.execute_async(500)` on a `samples` job, and by keyword -/
example : handleParams ["max_samples"] [("max_samples", .none)] [] [.int 500] [] =
    .ok ([("max_samples", .int 500)], []) := rfl
example : handleParams ["max_samples"] [("max_samples", .none)] [] [] [("max_samples", .int 500)] =
    .ok ([("max_samples", .int 500)], []) := rfl
/-- both at once, and an unknown keyword -/
example : handleParams ["max_samples"] [("max_samples", .none)] [] [.int 500] [("max_samples", .int 7)] =
    .error .runtime := rfl
example : handleParams ["max_samples"] [("max_samples", .none)] [] [.int 500] [("foo", .int 7)] =
    .error .runtime := rfl

/-! ## converting a local processor -/

/-- what `from_local_processor(p)` must deliver for a local processor `p`, as a property of the
version of the code selected by `fixed` -/
def FromLocalPreserves (fixed : Bool) : Prop :=
  ∀ p : Exp, p.WF → ∃ rp, fromLocal fixed p = .ok rp ∧ rp.WF ∧
    -- same modes of interest, same circuit size
    rp.m = p.m ∧ rp.size = p.size ∧
    -- the heralds keep their expected values, in order, and sit on the last modes
    rp.heralds.map (·.2) = p.heralds.map (·.2) ∧ heraldModes rp = List.range' p.m p.heralds.length ∧
    -- filter (whatever its value), noise, post-selection and circuit (relabelled like the modes)
    rp.filter = p.filter ∧ dget rp.params "min_detected_photons" = some (pvOfFilter p.filter) ∧
    rp.noise = some (p.noise.getD 0) ∧
    rp.post = p.post.map (·.relabel (normPerm (relabelOf p))) ∧
    rp.circ = p.circ.relabel (normPerm (relabelOf p)) ∧
    -- the input: present iff it was, the same on the modes of interest, herald photons on the herald modes
    (p.input = none → rp.input = none) ∧
    (∀ s, p.input = some s → ∃ t, rp.input = some t ∧ t.length = rp.size ∧
      removeModes (heraldModes rp) 0 t = removeModes (heraldModes p) 0 s ∧
      ∀ k v, (k, v) ∈ rp.heralds → t[k]? = some v)

/-- **from_local_preserves** (repaired code): conversion never fails on a well-formed local processor
and preserves modes, heralds, filter, noise, post-selection, circuit and input state. -/
theorem from_local_preserves : FromLocalPreserves true := by
  intro p hwf
  have hsize : p.m + p.heralds.length = p.size := hwf.count
  rw [fromLocal_eq]
  cases hin : p.input with
  | none =>
    refine ⟨convBase p, rfl, convBase_wf p, rfl, hsize, enumHeralds_values _ _, enumHeralds_modes _ _, rfl, rfl, rfl,
      rfl, rfl, fun _ => rfl, fun s hs => by cases hs⟩
  | some s =>
    have hlen : s.length = p.size := by
      have := hwf.inlen; simp only [inputLenOk, hin] at this; simpa using this
    have hrm : (removeModes (heraldModes p) 0 s).length = (convBase p).m := removeModes_length_wf p hwf s hlen
    obtain ⟨e', t, hw, hti, hwf', hher, hl, hr, hh⟩ :=
      (input_includes_heralds (convBase p) (convBase_wf p) (removeModes (heraldModes p) 0 s)).2 hrm
    simp only [if_true]
    have e1 : e' = { convBase p with input := some t } := by
      rw [withInput_ok _ _ hrm] at hw; cases hw; simp only at hti; cases hti; rfl
    subst e1
    refine ⟨_, hw, hwf', rfl, hsize, enumHeralds_values _ _, enumHeralds_modes _ _, rfl, rfl, rfl, rfl, rfl,
      (fun h => by cases h), fun s' hs' => ?_⟩
    cases hs'
    exact ⟨t, rfl, hl, hr, hh⟩

/-- the heralded CNOT of the catalog (heralds on modes 4 and 5) with input `|1,0,1,0>` -/
def heraldedCnot : Exp :=
  { m := 4, size := 6, heralds := [(4, 1), (5, 1)], input := some [1, 0, 1, 0, 1, 1], post := none, noise := none,
    filter := some 2, params := [("min_detected_photons", .int 2)], circ := ⟨0, []⟩, cparams := [] }

example : heraldedCnot.WF := by decide

/-- on the repaired code the conversion keeps the full input `|1,0,1,0,1,1>` -/
example : (fromLocal true heraldedCnot).map (·.input) = .ok (some [1, 0, 1, 0, 1, 1]) := rfl

/-- **The pinned tree fails this part of the property**: whenever the local processor has at least one
herald and an input state, `from_local_processor` hands the full-size state (herald modes included)
to `with_input`, which expects one entry per mode of interest, and raises `AssertionError`. -/
theorem from_local_current_code_raises (p : Exp) (hwf : p.WF) (hh : p.heralds ≠ []) (s : List Nat)
    (hin : p.input = some s) : fromLocal false p = .error .assertion := by
  rw [fromLocal_eq, hin]
  simp only [Bool.false_eq_true, if_false]
  apply withInput_err
  have hlen : s.length = p.size := by
    have := hwf.inlen; simp only [inputLenOk, hin] at this; simpa using this
  have : 0 < p.heralds.length := List.length_pos_iff.mpr hh
  have := hwf.count
  simp only [convBase]
  omega

theorem from_local_preserves_fails_on_current_code : ¬ FromLocalPreserves false := by
  intro h
  obtain ⟨rp, hrp, -⟩ := h heraldedCnot (by decide)
  rw [from_local_current_code_raises heraldedCnot (by decide) (by decide) _ rfl] at hrp
  cases hrp

/-- the witness, spelled out (regression: the defect of section 10, item 4) -/
theorem from_local_current_code_witness : fromLocal false heraldedCnot = .error .assertion := rfl

/-- **Noise set before or after the conversion is what is sent.**  After converting `p`, the payload
carries `p`'s noise model; after a later `rp.noise = n`, it carries `n`. -/
theorem noise_before_or_after_conversion (pf : Platform) (p rp : Exp) (hwf : p.WF)
    (hc : fromLocal true p = .ok rp) (cmd : String) (cl il : Bool) (kw : Dict V) :
    (∀ e' pl, preparePayload pf rp cmd cl il kw = (e', .ok pl) →
      dget pl "noise" = some (.noise (p.noise.getD 0))) ∧
    (∀ n e' pl, preparePayload pf (setNoise rp (some n)) cmd cl il kw = (e', .ok pl) →
      dget pl "noise" = some (.noise n)) := by
  obtain ⟨rp', hrp, -, -, -, -, -, -, -, hnoise, -⟩ := from_local_preserves p hwf
  rw [hc] at hrp; cases hrp
  constructor
  · intro e' pl h
    exact (payload_configured_present pf rp cmd cl il kw e' pl h).2.2.2.2.2.2 _ hnoise
  · intro n e' pl h
    exact (payload_configured_present pf _ cmd cl il kw e' pl h).2.2.2.2.2.2 n rfl

/-! ## `n_user + n_heralds` IS the photon number of the transmitted full-size state

`constraints_enforced` is stated on the quantity the code computes: photons of the stored state on the
modes of interest (`remove_modes`) + sum of the heralds' expected values.  The statements below close
the gap to the state that is actually transmitted: whenever the stored input is *fresh* (`InputFresh`:
it carries every herald's expected count on the herald's mode — what `with_input` and the repaired
`from_local_processor` produce, and what every operation except a later `add_herald` keeps), that
quantity is the photon number of the transmitted state itself, so the platform's photon window was
enforced on the very state the platform receives. -/

/-- **photons_user_plus_heralds.**  For every experiment with distinct herald modes and every state `t`
that carries each herald's expected photon count on the herald's mode:
`n_user + n_heralds = n(t)` — the photons left after `remove_modes(herald modes)` plus the sum of the
heralds' values is the photon number of the full-size state. -/
theorem photons_user_plus_heralds (e : Exp) (hn : (heraldModes e).Nodup) (t : List Nat)
    (hh : ∀ k v, (k, v) ∈ e.heralds → t[k]? = some v) :
    (removeModes (heraldModes e) 0 t).sum + heraldSum e = t.sum :=
  user_plus_heralds e.heralds t hn hh

/-- non-vacuity: the heralded CNOT with its full-size input `|1,0,1,0,1,1>` -/
example : (heraldModes heraldedCnot).Nodup ∧ heraldedCnot.heralds ≠ [] ∧
    ∃ t, heraldedCnot.input = some t ∧ InputFresh heraldedCnot := ⟨by decide, by decide, _, rfl, by decide⟩

/-- the freshness hypothesis cannot be dropped: a herald added AFTER `with_input` leaves a stored state
(here `|1,0,0>`, herald `1` on mode 1 added later) whose photon number (1) is not the checked quantity
(1 + 1): this well-formed, reachable experiment is exactly the residue named in the manifest note -/
example : ∃ e : Exp, e.WF ∧ ∃ t, e.input = some t ∧
    (removeModes (heraldModes e) 0 t).sum + heraldSum e ≠ t.sum :=
  ⟨{ m := 2, size := 3, heralds := [(1, 1)], input := some [1, 0, 0], post := none, noise := none,
     filter := none, params := [], circ := ⟨0, []⟩, cparams := [] }, by decide, _, rfl, by decide⟩

/-- … reached through the public operations: `with_input` then `add_herald` -/
example : (exec step (World.init ⟨none, none, none, none, []⟩)
    [.newRemote false 3 0 [] none, .withInput [1, 0, 0], .addHerald 1 1]).exp.map
      (fun e => (e.input, e.heralds, e.m)) = some (some [1, 0, 0], [(1, 1)], 2) := by decide

/-- **with_input_photon_number.**  On every well-formed experiment, the state `with_input(s)` stores is
fresh and has `n(s) + n_heralds` photons. -/
theorem with_input_photon_number (e : Exp) (hwf : e.WF) (s : List Nat) (e' : Exp)
    (h : withInput e s = .ok e') :
    ∃ t, e'.input = some t ∧ InputFresh e' ∧ t.sum = s.sum + heraldSum e := by
  by_cases hs : s.length = e.m
  · obtain ⟨e'', t, hw, hin, -, -, -, hr, hh⟩ := (input_includes_heralds e hwf s).2 hs
    rw [hw] at h; cases h
    refine ⟨t, hin, withInput_fresh e _ hwf s hw, ?_⟩
    rw [← photons_user_plus_heralds e hwf.nodup t hh, hr]
  · rw [withInput_err e s hs] at h; cases h

example : ∃ e', withInput { heraldedCnot with input := none } [1, 0, 1, 0] = .ok e' := ⟨_, rfl⟩

/-- **constraints_enforced_on_transmitted_state.**  For every platform, processor with distinct herald
modes and a fresh stored input, command, flags and keyword set: if `prepare_job_payload` returns a
payload, the input state `t` it carries satisfies `n_user + n_heralds = n(t)`, and the photon number of
`t` ITSELF is inside the platform's photon-count window. -/
theorem constraints_enforced_on_transmitted_state (pf : Platform) (e : Exp) (cmd : String) (cl il : Bool)
    (kw : Dict V) (e' : Exp) (pl : Dict V) (hn : (heraldModes e).Nodup) (hfr : InputFresh e)
    (h : preparePayload pf e cmd cl il kw = (e', .ok pl)) :
    ∀ t, inputField e il = some t →
      dget pl "input_state" = some (.state t) ∧
      (removeModes (heraldModes e) 0 t).sum + heraldSum e = t.sum ∧
      (∀ mx, pf.maxPhotons = some mx → t.sum ≤ mx) ∧ (∀ mn, pf.minPhotons = some mn → mn ≤ t.sum) := by
  intro t ht
  have hsum := photons_user_plus_heralds e hn t (hfr t (inputField_some e il t ht))
  obtain ⟨-, h1, h2⟩ := (constraints_enforced pf e cmd cl il kw e' pl h).2 t ht
  refine ⟨(payload_configured_present pf e cmd cl il kw e' pl h).2.2.1 t ht, hsum, ?_, ?_⟩
  · intro mx hmx; rw [← hsum]; exact h1 mx hmx
  · intro mn hmn; rw [← hsum]; exact h2 mn hmn

/-- non-vacuity: the heralded CNOT (4 photons, heralds included) on a platform that wants exactly 4 -/
example : ∃ e' pl, preparePayload ⟨none, none, some 4, some 4, []⟩ heraldedCnot "probs" false false [] = (e', .ok pl) ∧
    InputFresh heraldedCnot ∧ inputField heraldedCnot false = some [1, 0, 1, 0, 1, 1] := ⟨_, _, rfl, by decide, rfl⟩

/-- **fresh_input_invariant.**  From every session state whose processor is well-formed with a fresh
stored input, over EVERY history that contains no `add_herald` (all other setters, conversions, payload
generation, samplers, jobs, executions — in any number and order), the stored input stays fresh. -/
theorem fresh_input_invariant (w : World) (hw : w.WFInv) (hfr : w.FreshInv) (ops : List Op)
    (hops : ∀ op ∈ ops, op.isAddHerald = false) : (exec step w ops).FreshInv :=
  (exec_fresh w ops hops hw hfr).2

/-- the initial state qualifies (so every history WITHOUT `add_herald` from the initial state — heralds
then come from converted local processors only — keeps the input fresh) -/
example (pf : Platform) : (World.init pf).WFInv ∧ (World.init pf).FreshInv :=
  ⟨fun _ h => (by cases h), fun _ h => (by cases h)⟩

/-- **transmitted_photon_number_checked.**  From every such state and over every history without
`add_herald`: the next payload's input state `t` has `n(t) = n_user + n_heralds`, and `n(t)` is inside
the platform's photon-count window. -/
theorem transmitted_photon_number_checked (w : World) (hw : w.WFInv) (hfr : w.FreshInv) (ops : List Op)
    (hops : ∀ op ∈ ops, op.isAddHerald = false) (cmd : String) (cl il : Bool) (kw : Dict V) (pl : Dict V)
    (h : (step (exec step w ops) (.prepare cmd cl il kw)).2 = .payload pl) :
    ∃ e, (exec step w ops).exp = some e ∧ e.WF ∧ InputFresh e ∧
      ∀ t, inputField e il = some t →
        dget pl "input_state" = some (.state t) ∧
        (removeModes (heraldModes e) 0 t).sum + heraldSum e = t.sum ∧
        (∀ mx, w.pf.maxPhotons = some mx → t.sum ≤ mx) ∧ (∀ mn, w.pf.minPhotons = some mn → mn ≤ t.sum) := by
  obtain ⟨hw', hfr'⟩ := exec_fresh w ops hops hw hfr
  have hpf := exec_pf w ops
  generalize exec step w ops = w' at *
  cases he : w'.exp with
  | none => simp [step, he] at h
  | some e =>
    cases hp : preparePayload w'.pf e cmd cl il kw with
    | mk e' r =>
      cases r with
      | error err => simp [step, he, hp] at h
      | ok pl0 =>
        simp only [step, he, hp, Out.payload.injEq] at h
        subst h
        rw [hpf] at hp
        exact ⟨e, rfl, hw' e he, hfr' e he,
          constraints_enforced_on_transmitted_state w.pf e cmd cl il kw e' pl0 (hw' e he).nodup (hfr' e he) hp⟩

/-- **… after `with_input`, over every history.**  Whatever happened before (`ops0`: any history from the
initial state, `add_herald` included), once `with_input(s)` has succeeded and no herald is added
afterwards (`ops`: any other operations), the next payload's input state `t` has
`n(t) = n_user + n_heralds` inside the platform's photon-count window. -/
theorem transmitted_photon_number_checked_after_with_input (pf : Platform) (ops0 : List Op) (s : List Nat)
    (ops : List Op) (hin : (step (exec step (World.init pf) ops0) (.withInput s)).2 = .done)
    (hops : ∀ op ∈ ops, op.isAddHerald = false) (cmd : String) (cl il : Bool) (kw : Dict V) (pl : Dict V)
    (h : (step (exec step (World.init pf) (ops0 ++ .withInput s :: ops)) (.prepare cmd cl il kw)).2 = .payload pl) :
    ∃ e, (exec step (World.init pf) (ops0 ++ .withInput s :: ops)).exp = some e ∧ e.WF ∧ InputFresh e ∧
      ∀ t, inputField e il = some t →
        dget pl "input_state" = some (.state t) ∧
        (removeModes (heraldModes e) 0 t).sum + heraldSum e = t.sum ∧
        (∀ mx, pf.maxPhotons = some mx → t.sum ≤ mx) ∧ (∀ mn, pf.minPhotons = some mn → mn ≤ t.sum) := by
  rw [exec_append, exec_cons] at h ⊢
  have hw0 : (exec step (World.init pf) ops0).WFInv := exec_wf _ ops0 (fun _ h => by cases h)
  have hpf0 : (exec step (World.init pf) ops0).pf = pf := exec_pf _ ops0
  have hw1 := step_wf _ (.withInput s) hw0
  have hf1 := step_withInput_fresh _ s hw0 hin
  have := transmitted_photon_number_checked _ hw1 hf1 ops hops cmd cl il kw pl h
  rw [step_pf, hpf0] at this
  exact this

/-- non-vacuity: heralds added, input set, filter and noise changed afterwards, payload produced; the
transmitted state `|1,1,0>` has 2 = 1 + 1 photons -/
example :
    (step (exec step (World.init ⟨none, none, some 2, some 2, ["probs"]⟩)
      [.newRemote false 3 0 [] none, .addHerald 1 1]) (.withInput [1, 0])).2 = .done ∧
    (match (step (exec step (World.init ⟨none, none, some 2, some 2, ["probs"]⟩)
      ([.newRemote false 3 0 [] none, .addHerald 1 1] ++ .withInput [1, 0] :: [.setFilter (some 1), .setNoise (some 3)]))
      (.prepare "probs" false false [])).2 with
     | .payload pl => dget pl "input_state"
     | _ => none) = some (.state [1, 1, 0]) := by decide

/-! ## `Job._handle_params`: every supplied argument lands in EXACTLY one of command / mapping

"Lands in" cannot be read off membership alone: `command = {max_samples: None}`,
`mapping = {max_samples: None}` and the keyword `max_samples=None` end with `(max_samples, None)` in both
dictionaries although only the command loop consumed the keyword (see the `example` below).  The
statements therefore say which loop takes the argument — decided by the INPUT dictionaries alone — and
that the other dictionary's entries under that key are left exactly as they were (`atKey d k`: the
entries of `d` under key `k`, in order; equality of `atKey` implies equality of `d.get(k)` and of
membership).  No distinctness assumption on keys or names is needed. -/

/-- **handle_params_keyword_exactly_one.**  When `_handle_params` succeeds, every keyword argument
`k = v` is taken by exactly one of the two loops (`m₁` = the mapping after the extra positional
argument, if any, was stored under `max_samples`):
* the command has an entry `k: None` — then `v` is written into the command and the mapping's entries
  under `k` are untouched;
* the command has no entry `k: None` — then the mapping has one, `v` is written into the mapping, and the
  command's entries under `k` are untouched.
The two cases exclude each other by their first conjunct. -/
theorem handle_params_keyword_exactly_one (names : List String) (command mapping : Dict PV) (args : List PV)
    (kw c m : Dict PV) (h : handleParams names command mapping args kw = .ok (c, m))
    (k : String) (v : PV) (hkv : dget kw k = some v) :
    let m₁ := (splitArgs names args mapping).2
    ((k, PV.none) ∈ command ∧ (k, v) ∈ c ∧ atKey m k = atKey m₁ k) ∨
    ((k, PV.none) ∉ command ∧ (k, PV.none) ∈ m₁ ∧ (k, v) ∈ m ∧ atKey c k = atKey command k) := by
  intro m₁
  obtain ⟨c₁, hb, rfl, rfl, hnil⟩ := handleParams_ok _ _ _ _ _ _ _ h
  have hc₁ : atKey c₁ k = atKey command k :=
    bindPositional_atKey_kw kw _ names command c₁ hb k (by rw [hkv]; exact fun h => by cases h)
  have hmem : (k, PV.none) ∈ c₁ ↔ (k, PV.none) ∈ command := mem_of_atKey_eq _ _ k hc₁ _
  have hkw₁ := fill_snd_dget c₁ kw k v hkv
  by_cases hc : (k, PV.none) ∈ command
  · left
    rw [if_pos (hmem.mpr hc)] at hkw₁
    refine ⟨hc, ?_, fill_atKey _ _ k (Or.inr hkw₁)⟩
    rcases fill_lands c₁ kw k v hkv with h1 | h1
    · rw [hkw₁] at h1; cases h1
    · exact h1
  · right
    rw [if_neg (fun hh => hc (hmem.mp hh))] at hkw₁
    have hkw₂ := fill_snd_dget m₁ _ k v hkw₁
    rw [hnil] at hkw₂
    have hm₁ : (k, PV.none) ∈ m₁ := by
      apply Classical.byContradiction
      intro hno
      rw [if_neg hno] at hkw₂
      cases hkw₂
    refine ⟨hc, hm₁, ?_, ?_⟩
    · rcases fill_lands m₁ _ k v hkw₁ with h1 | h1
      · rw [hnil] at h1; cases h1
      · exact h1
    · rw [fill_atKey c₁ kw k (Or.inl (fun hh => hc (hmem.mp hh))), hc₁]

/-- … in terms of `d.get(k)` only, for dictionaries with distinct keys (what Python dictionaries are):
either the command had `k: None`, now has `k: v`, and `mapping.get(k)` is unchanged; or the command did
not have `k: None`, `command.get(k)` is unchanged, and the mapping had `k: None` and now has `k: v`. -/
theorem handle_params_keyword_exactly_one_dict (names : List String) (command mapping : Dict PV)
    (args : List PV) (kw c m : Dict PV) (hcn : (dkeys command).Nodup) (hmn : (dkeys mapping).Nodup)
    (h : handleParams names command mapping args kw = .ok (c, m))
    (k : String) (v : PV) (hkv : dget kw k = some v) :
    let m₁ := (splitArgs names args mapping).2
    (dget command k = some .none ∧ dget c k = some v ∧ dget m k = dget m₁ k) ∨
    (dget command k ≠ some .none ∧ dget m₁ k = some .none ∧ dget m k = some v ∧ dget c k = dget command k) := by
  intro m₁
  have hm₁n : (dkeys m₁).Nodup := splitArgs_nodup names args mapping hmn
  obtain ⟨c₁, hb, hc, hm, -⟩ := handleParams_ok _ _ _ _ _ _ _ h
  have hcn' : (dkeys c).Nodup := by
    rw [hc, fill_keys]; exact bindPositional_nodup _ _ _ _ _ hb hcn
  have hmn' : (dkeys m).Nodup := by
    rw [hm, fill_keys]; exact hm₁n
  rcases handle_params_keyword_exactly_one names command mapping args kw c m h k v hkv with
    ⟨h1, h2, h3⟩ | ⟨h1, h2, h3, h4⟩
  · exact Or.inl ⟨(mem_iff_dget _ hcn _ _).mp h1, (mem_iff_dget _ hcn' _ _).mp h2, dget_of_atKey_eq _ _ _ h3⟩
  · exact Or.inr ⟨fun hh => h1 ((mem_iff_dget _ hcn _ _).mpr hh), (mem_iff_dget _ hm₁n _ _).mp h2,
      (mem_iff_dget _ hmn' _ _).mp h3, dget_of_atKey_eq _ _ _ h4⟩

/-- non-vacuity, one keyword for each loop: a `samples` job (`max_samples` is a command parameter) and a
`samples` job run through the `probs` primitive (`max_samples` is a mapping parameter) -/
example : handleParams ["max_samples"] [("max_samples", .none)] [] [] [("max_samples", .int 500)] =
    .ok ([("max_samples", .int 500)], []) := rfl
example : handleParams [] [] [("max_samples", .none), ("max_shots", .int 100)] [] [("max_samples", .int 500)] =
    .ok ([], [("max_samples", .int 500), ("max_shots", .int 100)]) := rfl

/-- why exclusivity is not stated as "`(k, v)` is a member of exactly one": with the value `None` the
pair is in both dictionaries afterwards, although the keyword was consumed once (by the command loop) -/
example : handleParams [] [("max_samples", .none)] [("max_samples", .none)] [] [("max_samples", .none)] =
    .ok ([("max_samples", .none)], [("max_samples", .none)]) := rfl

/-- **handle_params_positional_exactly_one.**  When `_handle_params` succeeds (`rest` = the positional
arguments bound to names, `m₁` = the mapping after the extra positional argument was taken):
* a positional argument bound to `names[i]` (it is stored in the command, `handle_params_positional`)
  leaves the mapping's entries under `names[i]` as they are in `m₁`;
* `m₁` differs from the mapping at most under `max_samples`; without an extra positional argument
  nothing positional touches the mapping at all (`m₁ = mapping`, all arguments are bound to names);
* the extra positional argument (more arguments than names) is stored in the mapping under
  `max_samples` and is not among the arguments bound into the command;
* frame: the command's entries under a key that is neither bound positionally nor given by keyword,
  and the mapping's entries under a key not given by keyword, are untouched — together with
  `handle_params_positional` and `handle_params_keyword_exactly_one` this determines the new command
  and mapping completely, and the extra argument occurs nowhere in the description of the command. -/
theorem handle_params_positional_exactly_one (names : List String) (command mapping : Dict PV) (args : List PV)
    (kw c m : Dict PV) (h : handleParams names command mapping args kw = .ok (c, m)) :
    let rest := (splitArgs names args mapping).1
    let m₁ := (splitArgs names args mapping).2
    (∀ i (_ : i < rest.length) (h2 : i < names.length), atKey m names[i] = atKey m₁ names[i]) ∧
    (∀ k, k ≠ "max_samples" → atKey m₁ k = atKey mapping k) ∧
    (args.length ≤ names.length → rest = args ∧ m₁ = mapping) ∧
    (names.length < args.length → ∃ x, args.getLast? = some x ∧ rest = args.dropLast ∧
      m₁ = dset mapping "max_samples" x) ∧
    (∀ k, k ∉ names.take rest.length → dget kw k = none → atKey c k = atKey command k) ∧
    (∀ k, dget kw k = none → atKey m k = atKey m₁ k) := by
  intro rest m₁
  obtain ⟨c₁, hb, rfl, rfl, -⟩ := handleParams_ok _ _ _ _ _ _ _ h
  have hframe : ∀ k, dget kw k = none →
      atKey (fill m₁ (fill c₁ kw).2).1 k = atKey m₁ k := fun k hk =>
    fill_atKey _ _ k (Or.inr (fill_none_stays c₁ kw k hk))
  refine ⟨?_, ?_, ?_, ?_, ?_, hframe⟩
  · intro i h1 h2
    exact hframe _ (bindPositional_kw_none kw rest names command c₁ hb i h1 h2)
  · intro k hk; exact splitArgs_atKey names args mapping k hk
  · intro hle
    have := splitArgs_no_extra names args mapping hle
    exact ⟨congrArg Prod.fst this, congrArg Prod.snd this⟩
  · intro hlt
    obtain ⟨x, hx, hs⟩ := handle_params_extra_positional names args mapping hlt
    exact ⟨x, hx, congrArg Prod.fst hs, congrArg Prod.snd hs⟩
  · intro k hk hkw
    rw [fill_atKey c₁ kw k (Or.inr hkw)]
    exact bindPositional_atKey_other kw rest names command c₁ hb k hk

/-- non-vacuity: one bound positional argument and one extra (`job.execute_async(500, 7)` on a job with
one parameter name: 500 is the command's `max_samples`, 7 the mapping's) -/
example : handleParams ["max_samples"] [("max_samples", .none)] [] [.int 500, .int 7] [] =
    .ok ([("max_samples", .int 500)], [("max_samples", .int 7)]) := rfl

/-! ## iterations: checked against a processor this very session had -/

/-- **sent_iterations_were_checked_in_session** (strengthens `sent_iterations_were_checked`, whose
processor was existentially quantified over ALL experiments).  Over every history from the initial
state: every iteration of every request the platform has received was accepted by `_check_iteration`
against the processor the session held after some PREFIX of that history (the moment the iteration was
added). -/
theorem sent_iterations_were_checked_in_session (pf : Platform) (ops : List Op) :
    ∀ s ∈ (exec step (World.init pf) ops).log, ∀ it ∈ s.iterator,
      ∃ pre post e, pre ++ post = ops ∧ (exec step (World.init pf) pre).exp = some e ∧
        checkIteration pf e it = none :=
  (itersSat_exec pf ops ops [] rfl
    ⟨fun s hs => (by cases hs), fun ji hji => (by cases hji), fun s hs => (by cases hs)⟩).log

/-- **sent_iterated_inputs_were_in_window.**  … hence every iterated input state the platform receives
had the size of the modes of interest of that (well-formed) processor and `n_state + n_heralds` inside
the platform's photon-count window. -/
theorem sent_iterated_inputs_were_in_window (pf : Platform) (ops : List Op) :
    ∀ s ∈ (exec step (World.init pf) ops).log, ∀ it ∈ s.iterator, ∀ st, ("input_state", IV.state st) ∈ it →
      ∃ pre post e, pre ++ post = ops ∧ (exec step (World.init pf) pre).exp = some e ∧ e.WF ∧
        st.length = e.m ∧ (∀ mx, pf.maxPhotons = some mx → st.sum + heraldSum e ≤ mx) ∧
        (∀ mn, pf.minPhotons = some mn → mn ≤ st.sum + heraldSum e) := by
  intro s hs it hit st hst
  obtain ⟨pre, post, e, hpp, he, hc⟩ := sent_iterations_were_checked_in_session pf ops s hs it hit
  obtain ⟨h1, h2, h3⟩ := (iteration_constraints_enforced pf e it hc).1 st hst
  exact ⟨pre, post, e, hpp, he, wf_invariant pf pre e he, h1, h2, h3⟩

/-- non-vacuity: a job with one iterated input state, executed -/
example : ((exec step (World.init ⟨none, none, some 2, none, ["probs"]⟩)
    [.newRemote false 2 0 [] none, .setFilter (some 0), .newSampler (.int 100),
     .addIterations [[("input_state", .state [1, 1])]], .createJob .probs, .execute 0 [] [] .ok]).log.map
      (fun s => s.iterator)) = [[[("input_state", .state [1, 1])]]] := by decide

/-! ## the circuit of a request as a MATRIX (`Model/C16Mat.lean`) -/

section MatrixReading
open Matrix
variable {R : Type} [CommRing R] [StarRing R]

/-- **payload_matrix_is_user_matrix.**  Over EVERY history of calls from the initial state — processor built
remotely (`add` or `set_circuit`) or converted from a local processor with heralds anywhere, then any number of
`add(k, circuit)`, `set_circuit`, `add_herald`, `with_input`, filter, post-selection, noise, parameter calls,
payload generations, samplers, jobs, executions, accepted or refused, in any order — and for EVERY assignment `ρ`
of matrices to the user's elementary components (hence whatever values the user has given the circuit parameters,
at any moment): the matrix of the component list the processor holds — what `serialize(linear_circuit())` puts in
the request — IS the matrix the user means: the elementary components given since the last `set_circuit` /
conversion, each at its absolute position in the order of the calls, applied after the converted local
processor's own matrix read through the relabelling (`U[σ i, σ j]`). -/
theorem payload_matrix_is_user_matrix (ρ : Env R) (pf : Platform) (ops : List COp) (N : Nat)
    (hN : (exec sstep (sinit pf) ops).1.w.size = some N) :
    circMat ρ N (exec sstep (sinit pf) ops).1.comps = (exec sstep (sinit pf) ops).2.mat ρ N :=
  inv_exec sstep (MatInv ρ) (fun st op h => sstep_matInv ρ st op h) (sinit pf)
    (fun N h => by simp [sinit, CWorld.init, World.init, World.size] at h) ops N hN

/-- a local processor with a herald INSIDE (mode 1 of 3) -/
def heraldInside : Exp :=
  { m := 2, size := 3, heralds := [(1, 1)], input := none, post := none, noise := none,
    filter := some 0, params := [], circ := ⟨0, []⟩, cparams := [] }

/-- non-vacuity: conversion of that processor (PERM [0, 2, 1] needed), a herald-free `add`, a payload: there is a
processor of 3 modes, holding PERM, the local component, the inverted PERM and the nested circuit -/
example : (exec sstep (sinit ⟨none, none, none, none, ["probs"]⟩)
    [.convert heraldInside [.leaf 0 ⟨0, 3⟩], .add 0 ⟨2, [(0, ⟨1, 2⟩)], 1, []⟩,
     .plain (.prepare "probs" false false [])]).1.w.size = some 3 ∧
    (exec sstep (sinit ⟨none, none, none, none, ["probs"]⟩)
    [.convert heraldInside [.leaf 0 ⟨0, 3⟩], .add 0 ⟨2, [(0, ⟨1, 2⟩)], 1, []⟩,
     .plain (.prepare "probs" false false [])]).1.comps =
      [.perm 0 [0, 2, 1], .leaf 0 ⟨0, 3⟩, .permInv 0 [0, 2, 1], .sub 0 ⟨2, [(0, ⟨1, 2⟩)], 1, []⟩] := by
  decide

/-- **relabelling_is_a_permutation.**  For every well-formed local processor the vector handed to `PERM` by the
conversion (modes of interest in increasing order, then the herald modes in the order of the `heralds`
dictionary) is a permutation of all the modes: `PERM.__init__` never refuses it. -/
theorem relabelling_is_a_permutation (p : Exp) (h : p.WF) : IsPermList p.size (relabelOf p) :=
  relabelOf_isPerm p h

example : heraldInside.WF ∧ relabelOf heraldInside = [0, 2, 1] := by decide

/-- **converted_matrix_is_local_matrix_relabelled.**  Whenever `from_local_processor(p)` succeeds, from any
session state, for every component list `pc` of the local processor and every `ρ`: the remote processor has
`p.size` modes and the matrix it sends has entry `(i, j)` equal to entry `(σ i, σ j)` of the local processor's
matrix, `σ = relabelOf p` — with or without the PERM pair around the components. -/
theorem converted_matrix_is_local_matrix_relabelled (ρ : Env R) (cw cw' : CWorld) (p : Exp) (pc : List Comp)
    (h : cstep cw (.convert p pc) = (cw', .done)) :
    cw'.w.size = some p.size ∧
    circMat ρ p.size cw'.comps =
      (circMat ρ p.size pc).submatrix (permFn p.size (relabelOf p)) (permFn p.size (relabelOf p)) := by
  simp only [cstep] at h
  by_cases hσ : IsPermList p.size (relabelOf p)
  · rw [if_neg (not_not.2 hσ)] at h
    rcases step_convert_cases cw.w true p with ⟨err, he⟩ | ⟨e, hsz, he⟩
    · rw [he] at h; cases h
    · rw [he] at h
      cases h
      exact ⟨by simp [World.size, hsz], circMat_wrapPerm ρ p.size (relabelOf p) hσ pc⟩
  · rw [if_pos hσ] at h; cases h

/-- non-vacuity: the conversion of a well-formed local processor succeeds from every state -/
theorem conversion_succeeds (cw : CWorld) (p : Exp) (pc : List Comp) (h : p.WF) :
    ∃ cw', cstep cw (.convert p pc) = (cw', .done) := by
  obtain ⟨rp, hrp, -⟩ := from_local_preserves p h
  simp only [cstep]
  rw [if_neg (not_not.2 (relabelOf_isPerm p h))]
  simp only [step, if_neg (not_not.2 h), hrp]
  exact ⟨_, rfl⟩

/-- **added_component_multiplies_on_the_left.**  Whenever `add(k, circuit)` succeeds on a processor of `N` modes:
the new matrix is the circuit's elementary components, at positions shifted by `k`, applied after everything the
processor already held. -/
theorem added_component_multiplies_on_the_left (ρ : Env R) (cw cw' : CWorld) (k : Nat) (c : UC) (e : Exp)
    (he : cw.w.exp = some e) (h : cstep cw (.add k c) = (cw', .done)) :
    cw'.w.size = some e.size ∧
    circMat ρ e.size cw'.comps = flatMat ρ e.size (shiftLeaves k c.leaves) * circMat ρ e.size cw.comps := by
  simp only [cstep, he] at h
  by_cases hg : ¬ c.WF ∨ addOk e k c = false
  · rw [if_pos hg] at h; cases h
  · rw [if_neg hg] at h
    have hwf : c.WF := by
      by_contra hn; exact hg (Or.inl hn)
    have hok : addOk e k c = true := by
      cases hb : addOk e k c with
      | true => rfl
      | false => exact absurd (Or.inr hb) hg
    have hfit : k + c.m ≤ e.size := by
      simp only [addOk, Bool.and_eq_true, decide_eq_true_eq] at hok
      exact hok.1
    have hsize := step_size_frame cw.w (.addComponent c.sym c.cparams) rfl
    generalize step cw.w (.addComponent c.sym c.cparams) = sr at hsize h
    obtain ⟨w', o⟩ := sr
    cases o <;> simp only at h <;> cases h
    refine ⟨?_, ?_⟩
    · simp only at hsize; rw [hsize, World.size, he]; rfl
    · rw [circMat_snoc, sub_mat ρ e.size k c hfit hwf]

/-- **nested_equals_unpacked.**  `add(0, circuit)` stores the circuit as one nested component, `set_circuit`
stores its elementary components one by one: the same matrix. -/
theorem nested_equals_unpacked (ρ : Env R) (c : UC) (h : c.WF) :
    circMat ρ c.m [.sub 0 c] = circMat ρ c.m (unpack c) := by
  rw [circMat_single, sub_mat ρ c.m 0 c (by omega) h, shiftLeaves_zero, circMat_unpack]

example : (⟨2, [(0, ⟨0, 2⟩), (1, ⟨1, 1⟩)], 0, []⟩ : UC).WF := by decide

/-- **replaced_circuit_matrix.**  Whenever `set_circuit` (through the processor or its experiment) succeeds, the
processor's matrix is the product of the new circuit's elementary components and nothing else — whatever was
there before (a converted processor's PERMs included) is gone. -/
theorem replaced_circuit_matrix (ρ : Env R) (cw cw' : CWorld) (checked : Bool) (c : UC) (N : Nat)
    (h : cstep cw (.setCircuit checked c) = (cw', .done)) :
    circMat ρ N cw'.comps = flatMat ρ N c.leaves := by
  simp only [cstep] at h
  by_cases hwf : c.WF
  · rw [if_neg (not_not.2 hwf)] at h
    generalize step cw.w (.setCircuit checked c.m c.sym c.cparams) = sr at h
    obtain ⟨w', o⟩ := sr
    cases o <;> simp only at h <;> cases h
    exact circMat_unpack ρ N c
  · rw [if_pos hwf] at h; cases h

/-- **circuit_untouched_by_other_calls.**  No call other than the four circuit-changing ones touches the
component list: between two requests the matrix sent changes only through `ρ` (a parameter value the user set). -/
theorem circuit_untouched_by_other_calls (cw : CWorld) (op : Op) : (cstep cw (.plain op)).1.comps = cw.comps := by
  simp only [cstep]
  split <;> rfl

/-- **cstep_is_step.**  The machine with components IS the symbol machine as far as everything else goes: a call
is either outside the modelled domain (refused, nothing changes) or its effect on the session state and its output
are exactly `step`'s — so every theorem above about `step` holds for the session state of `cstep`. -/
theorem cstep_is_step (cw : CWorld) (op : COp) :
    cstep cw op = (cw, .err .precondition) ∨
    ((cstep cw op).1.w = (step cw.w op.toOp).1 ∧ (cstep cw op).2 = (step cw.w op.toOp).2) := by
  cases op with
  | newRemote via c noise =>
    simp only [cstep, COp.toOp]
    split
    · left; rfl
    · right
      generalize step cw.w (.newRemote via c.m c.sym c.cparams noise) = sr
      obtain ⟨w', o⟩ := sr
      cases o <;> exact ⟨rfl, rfl⟩
  | convert p pc =>
    simp only [cstep, COp.toOp]
    split
    · left; rfl
    · right
      generalize step cw.w (.convert true p) = sr
      obtain ⟨w', o⟩ := sr
      cases o <;> exact ⟨rfl, rfl⟩
  | add k c =>
    simp only [cstep, COp.toOp]
    split
    · left; rfl
    · split
      · left; rfl
      · right
        generalize step cw.w (.addComponent c.sym c.cparams) = sr
        obtain ⟨w', o⟩ := sr
        cases o <;> exact ⟨rfl, rfl⟩
  | setCircuit checked c =>
    simp only [cstep, COp.toOp]
    split
    · left; rfl
    · right
      generalize step cw.w (.setCircuit checked c.m c.sym c.cparams) = sr
      obtain ⟨w', o⟩ := sr
      cases o <;> exact ⟨rfl, rfl⟩
  | plain op =>
    simp only [cstep, COp.toOp]
    split
    · left; rfl
    · right; exact ⟨rfl, rfl⟩

end MatrixReading

/-! ## a stored input state left behind by a later `add_herald`

Decision (property text: "the full input state including herald photons … platform size and photon-count
constraints are enforced before sending"): the stored input state of such a processor is a state of an OBSOLETE
layout — the processor the user built holds it as it is (the local simulation reads the very same state), and the
request transmits it as stored.  That is outside the statement, exactly as for a local processor (C05:
`Pr.inputCurrent`); the theorems below say precisely what the code does then, for every processor. -/

/-- **add_herald_leaves_input_behind.**  `add_herald(k, v)` never touches the stored input state; a stored state
that was up to date stays so exactly when it already carries `v` on mode `k`. -/
theorem add_herald_leaves_input_behind (e e' : Exp) (k v : Nat) (h : addHerald e k v = .ok e') :
    e'.input = e.input ∧ e'.heralds = e.heralds ++ [(k, v)] ∧
    (InputFresh e → (InputFresh e' ↔ ∀ t, e.input = some t → t[k]? = some v)) := by
  unfold addHerald at h
  split at h
  · cases h
  · split at h
    · cases h
    · cases h
      refine ⟨rfl, rfl, fun hfr => ⟨fun h' t ht => h' t ht k v (by simp), fun h' t ht a b hab => ?_⟩⟩
      simp only [List.mem_append, List.mem_singleton, Prod.mk.injEq] at hab
      rcases hab with hab | ⟨rfl, rfl⟩
      · exact hfr t ht a b hab
      · exact h' t ht

/-- non-vacuity, both ways: `|1,0,0>` then a herald expecting 0 / expecting 1 on mode 1 -/
example : ∃ e', addHerald { heraldInside with heralds := [], m := 3, input := some [1, 0, 0] } 1 0 = .ok e' ∧
    InputFresh e' := ⟨_, rfl, by decide⟩
example : ∃ e', addHerald { heraldInside with heralds := [], m := 3, input := some [1, 0, 0] } 1 1 = .ok e' ∧
    ¬ InputFresh e' := ⟨_, rfl, by decide⟩

/-- **window_enforced_up_to_herald_mismatch.**  For EVERY processor (stored input up to date or not), platform,
command, flags and keyword set: if `prepare_job_payload` returns a payload, the input state `t` it carries is the
stored one, and the quantity `c` the photon-count window was enforced on satisfies
`c + (photons t has on the herald modes) = n(t) + (photons the heralds expect)`: the window holds for `n(t)`
corrected by the mismatch on the herald modes — for `n(t)` itself exactly when there is no mismatch. -/
theorem window_enforced_up_to_herald_mismatch (pf : Platform) (e : Exp) (cmd : String) (cl il : Bool)
    (kw : Dict V) (e' : Exp) (pl : Dict V) (h : preparePayload pf e cmd cl il kw = (e', .ok pl)) :
    ∀ t, inputField e il = some t →
      dget pl "input_state" = some (.state t) ∧
      ∃ c, c + onModes (heraldModes e) 0 t = t.sum + heraldSum e ∧
        (∀ mx, pf.maxPhotons = some mx → c ≤ mx) ∧ (∀ mn, pf.minPhotons = some mn → mn ≤ c) := by
  intro t ht
  obtain ⟨-, h1, h2⟩ := (constraints_enforced pf e cmd cl il kw e' pl h).2 t ht
  refine ⟨(payload_configured_present pf e cmd cl il kw e' pl h).2.2.1 t ht,
    (removeModes (heraldModes e) 0 t).sum + heraldSum e, ?_, h1, h2⟩
  have := removeModes_sum (heraldModes e) 0 t
  omega

/-- … in every state of every session: the stale processor reached by `with_input` then `add_herald` sends
`|1,0,0>` (1 photon) on a platform that wants at least 2, the check having counted 1 + 1 -/
example : (run step (World.init ⟨none, none, none, some 2, ["probs"]⟩)
    [.newRemote false 3 0 [] none, .withInput [1, 0, 0], .addHerald 1 1, .setFilter (some 0),
     .prepare "probs" false false []]).2.getLast?.map
      (fun o => match o with | .payload pl => dget pl "input_state" | _ => none) =
    some (some (.state [1, 0, 0])) := by decide

/-! ## what a job's request shares with the processor and the sampler (`Model/C16Heap.lean`) -/

/-- **repaired_job_request_is_as_created.**  With the repaired code (`aliased = false`: the request gets its own
copy of `_parameters` and of the iterator list when the job is created) the heap machine IS the symbol machine over
every history: same session state, same outputs — whatever is done to the processor's parameters or the sampler's
iterations between the creation of a job and its execution, in any interleaving with other jobs, the request sent
is the one built when the job was created (`job_sent_describes_processor`, `one_create_per_execute`, … apply). -/
theorem repaired_job_request_is_as_created (hw : HWorld) (ops : List Op) :
    (run (hstep false) hw ops).1.w = (run step hw.w ops).1 ∧
    (run (hstep false) hw ops).2 = (run step hw.w ops).2 :=
  refine_run (hstep false) step (fun a b => a.w = b)
    (fun s a op hr => by
      subst hr
      exact ⟨(hstep_false s op).1, (hstep_false s op).2⟩) hw hw.w rfl ops

/-- **aliased_request_reads_shared_objects** (the code as it is).  For every platform, processor, sampler, method
and argument list: a job created by `Sampler._create_job` and executed when the dictionary its request points to
holds `P` and the list it points to (if the request has an `iterator` key at all) holds `I` sends: the command,
circuit, input state, post-selection, heralds, noise model and `max_shots` of the processor and sampler AT JOB
CREATION, but `parameters = P` — in particular the photon filter found in `P` — and `I`'s iterations, i.e. the
content of those two objects AT SEND TIME. -/
theorem aliased_request_reads_shared_objects (pf : Platform) (e e' : Exp) (s : Sampler) (method : Method) (j : Job)
    (P : Dict PV) (I : Option (List (Dict IV))) (args : List PV) (kw : Dict PV) (pl : Dict V)
    (h1 : createJob pf e s method = (e', .ok j))
    (h2 : createPayloadData { j with payload := derefPayload j.payload P I } args kw = .ok pl) :
    ∃ prim conv, primitive pf.commands method = some (prim, conv) ∧
      decode pl = { configOf e prim.name false false with filter := dget P "min_detected_photons" } ∧
      dget pl "parameters" = some (.params P) ∧
      dget pl "max_shots" = some (.pv (.int s.maxShots)) ∧
      dget pl "iterator" = (match I with
        | some its => some (.iter its.length)
        | none => if s.iterator ≠ [] then some (.iter s.iterator.length) else none) ∧
      Clamped pl := by
  obtain ⟨prim, conv, pl0, hprim, -, hp, hpl, hk, hname, -, -⟩ := createJob_ok pf e s method e' j h1
  have hk' : ∀ x, x ∈ dkeys j.command ∨ x ∈ j.names → x ∉ fieldKeys := by
    intro x hx; rw [hk x hx]; decide
  have hf := createPayloadData_fields { j with payload := derefPayload j.payload P I } args kw pl h2 hk'
  obtain ⟨c, m, ctx, hh, hc⟩ := createPayloadData_ok _ args kw pl h2
  have hkeys := (handleParams_keys _ _ _ _ _ _ _ hh).1
  have hnot : ∀ x, x ≠ "max_samples" → x ≠ "job_context" → x ∉ dkeys (pvDict c ++ [("job_context", ctx)]) := by
    intro x h1 h2 hm
    simp only [dkeys, List.map_append, List.map_cons, List.map_nil, List.mem_append, List.mem_cons,
      List.not_mem_nil, or_false] at hm
    rcases hm with hm | hm
    · have : x ∈ dkeys (pvDict c) := hm
      rw [dkeys_pvDict] at this
      exact h1 (hk x (hkeys x this))
    · exact h2 hm
  -- the request as created
  have hcfg : decode j.payload = configOf e prim.name false false := by
    rw [← payload_complete pf e prim.name false false [] e' pl0 hp (by intro k _; rfl)]
    apply decode_congr
    intro x hx
    rw [hpl, dget_dset_ne _ _ _ _ (by intro e0; subst e0; simp [fieldKeys] at hx)]
    split
    · rw [dget_dset_ne _ _ _ _ (by intro e0; subst e0; simp [fieldKeys] at hx)]
    · rfl
  have hpar : (dget j.payload "parameters").isSome = true := by
    obtain ⟨-, -, -, -, hpl0⟩ := preparePayload_ok _ _ _ _ _ _ _ _ hp
    rw [hpl, dget_dset_ne _ _ _ _ (by decide)]
    have hp0 : (dget pl0 "parameters").isSome = true := by
      rw [hpl0, fields_parameters]
      simp [dset_ne_nil, syncFilterParam]
    split
    · rw [dget_dset_ne _ _ _ _ (by decide)]; exact hp0
    · exact hp0
  have hparams : dget pl "parameters" = some (.params P) := by
    rw [hf "parameters" (by decide)]
    exact dget_derefPayload_parameters j.payload P I hpar
  have hother : ∀ x ∈ fieldKeys, x ≠ "parameters" → dget pl x = dget j.payload x := by
    intro x hx hne
    rw [hf x hx]
    exact dget_derefPayload_other j.payload P I x hne (by intro e0; subst e0; simp [fieldKeys] at hx)
  refine ⟨prim, conv, hprim, ?_, hparams, ?_, ?_, clamp _ args kw pl h2⟩
  · rw [← hcfg]
    simp only [decode, hparams, hother "command" (by decide) (by decide),
      hother "circuit" (by decide) (by decide), hother "input_state" (by decide) (by decide),
      hother "postselect" (by decide) (by decide), hother "heralds" (by decide) (by decide),
      hother "noise" (by decide) (by decide)]
  · rw [clampPayload_other _ _ hc "max_shots" (by decide),
      dget_dupdate_of_not_mem _ _ _ (hnot "max_shots" (by decide) (by decide))]
    show dget (derefPayload j.payload P I) "max_shots" = _
    rw [dget_derefPayload_other _ _ _ _ (by decide) (by decide), hpl, dget_dset_self]
  · rw [clampPayload_other _ _ hc "iterator" (by decide),
      dget_dupdate_of_not_mem _ _ _ (hnot "iterator" (by decide) (by decide))]
    show dget (derefPayload j.payload P I) "iterator" = _
    rw [dget_derefPayload_iterator]
    cases I with
    | some its => rfl
    | none =>
      simp only
      rw [hpl, dget_dset_ne _ _ _ _ (by decide)]
      split
      · rw [dget_dset_self]
      · obtain ⟨-, -, -, -, rfl⟩ := preparePayload_ok _ _ _ _ _ _ _ _ hp
        rw [fields_other _ _ _ _ _ (by decide)]
        simp [dget]

/-- **shared_objects_are_current.**  Over every history, as the code is or repaired: the last dictionary of the
heap holds exactly the processor's `_parameters`, the last list exactly the sampler's iterations. -/
theorem shared_objects_are_current (aliased : Bool) (pf : Platform) (ops : List Op) :
    (exec (hstep aliased) (HWorld.init pf) ops).Current :=
  inv_exec (hstep aliased) HWorld.Current (fun s op _ => hstep_current aliased s op) (HWorld.init pf)
    ⟨fun _ h => (by cases h), fun _ h => (by cases h)⟩ ops

/-- **job_dictionary_is_the_processors_until_rebinding.**  From every heap state in which job `idx` points to the
processor's current dictionary, over EVERY history of calls none of which rebinds `_parameters` (no
`clear_parameters`, no new processor): the job still points to the processor's current dictionary, whose content is
the processor's parameters NOW — so (`aliased_request_reads_shared_objects`) a `set_parameter`, a
`min_detected_photons_filter` or a later payload generation changes what that job will send. -/
theorem job_dictionary_is_the_processors_until_rebinding (aliased : Bool) (hw : HWorld) (idx : Nat) (ir : Option Nat)
    (hne : hw.pobjs ≠ []) (href : hw.jrefs[idx]? = some (hw.pobjs.length - 1, ir)) (ops : List Op)
    (hops : ∀ op ∈ ops, op.rebindsParams = false) :
    (exec (hstep aliased) hw ops).jrefs[idx]? = some ((exec (hstep aliased) hw ops).pobjs.length - 1, ir) ∧
    (exec (hstep aliased) hw ops).pobjs ≠ [] := by
  induction ops generalizing hw with
  | nil => exact ⟨href, hne⟩
  | cons op rest ih =>
    rw [exec_cons]
    have hop := hops op (by simp)
    obtain ⟨hlen, -, hj⟩ := hstep_keeps_objects aliased hw op hop hne
    have hidx : idx < hw.jrefs.length := by
      by_contra hn
      rw [List.getElem?_eq_none (by omega)] at href
      cases href
    apply ih
    · intro e
      rw [e] at hlen
      have : 0 < hw.pobjs.length := List.length_pos_iff.mpr hne
      simp at hlen
      omega
    · rw [hj idx hidx, hlen]; exact href
    · intro o ho; exact hops o (by simp [ho])

/-- the witness: filter 2 and one iteration when the job is created, filter 0 and a second iteration before it is
executed.  The code as it is sends filter 0 and two iterations with the circuit and input of creation time — a
request that describes no processor the user ever held; the repaired code sends filter 2 and one iteration. -/
def aliasWitnessOps : List Op :=
  [.newRemote false 2 0 ["phi"] none, .withInput [1, 1], .setFilter (some 2), .newSampler (.int 100),
   .addIterations [[("circuit_params", .cparams [("phi", .int 1)])]], .createJob .sample_count,
   .setFilter (some 0), .addIterations [[("circuit_params", .cparams [("phi", .int 2)])]],
   .execute 0 [.int 10] [] .ok]

def sentFilterAndIterations (outs : List Out) : Option (Option PV × Nat) :=
  outs.getLast?.bind fun o => match o with
    | .sent s => some ((decode s.payload).filter, s.iterator.length)
    | _ => none

theorem aliased_request_mixes_creation_and_send_time :
    sentFilterAndIterations (run (hstep true) (HWorld.init ⟨none, none, none, none, ["sample_count"]⟩)
      aliasWitnessOps).2 = some (some (.int 0), 2) ∧
    sentFilterAndIterations (run (hstep false) (HWorld.init ⟨none, none, none, none, ["sample_count"]⟩)
      aliasWitnessOps).2 = some (some (.int 2), 1) := by
  decide

/-! ## one level down the network stack: the HTTP requests `RPCHandler` emits (`Model/C16Rpc.lean`)

`rstep` is the session machine plus the handler (`name`, `url`, `token`, `proxies`, `request_timeout`) and the list of
HTTP requests the client has emitted.  The transport under `requests` is a parameter of every call (`Wire`: answered
with ANY status code and body, answer never read, not delivered); what the session machine calls `Net` is derived from
it.  A request is a record (verb, URL, `Authorization` header, time-out, proxies, JSON document); the JSON document of
a job creation is `platform_name` + the `Sent` of the session machine. -/

/-- **rpc_refines_session.**  Over every history and whatever the transport does to each request, the machine with
the HTTP layer IS the session machine on everything the latter knows (each call read with `Net := Wire.net`), and the
handler is never touched: every theorem above about `step` holds of the sessions of `rstep`. -/
theorem rpc_refines_session (rw : RWorld) (ops : List ROp) :
    (exec rstep rw ops).w = exec step rw.w (ops.map ROp.toOp) ∧ (exec rstep rw ops).h = rw.h :=
  ⟨rexec_refines rw ops, rexec_h rw ops⟩

/-- … step by step, outputs included: the session machine's output is the abstraction of this one's (`.raised` is
`.lost` when the platform took the request or may have, a transport error otherwise). -/
theorem rpc_step_refines_session (rw : RWorld) (o : ROp) :
    (rstep rw o).1.w = (step rw.w o.toOp).1 ∧ (step rw.w o.toOp).2 = (rstep rw o).2.abs o.2 :=
  rstep_refines rw o

/-- **one_post_per_execution.**  In every state, whatever the call and whatever the transport does: ONE call emits
at most one HTTP request; the job-creation requests (POST) grow by exactly the one request the output stands for —
none for an output of the session machine (`.plain`: every call other than `execute`, and an `execute` refused
client-side), exactly one, built from the handler and the job's request, when `create_job` returned (`.sent`) or
raised (`.raised`) — and only an `execute` produces such an output.  There is no retry and no second request. -/
theorem one_post_per_execution (rw : RWorld) (o : ROp) :
    (rstep rw o).1.http.length ≤ rw.http.length + 1 ∧
    posts (rstep rw o).1.http = posts rw.http ++ (rstep rw o).2.post rw.h o.2 ∧
    ((rstep rw o).2.post rw.h o.2).length ≤ 1 ∧
    (∀ s, ((∃ id, (rstep rw o).2 = .sent id s) ∨ (∃ cls msg, (rstep rw o).2 = .raised cls msg s)) →
      (rstep rw o).2.post rw.h o.2 = [⟨postReq rw.h s, some o.2⟩] ∧ o.1.isExecute = true) := by
  refine ⟨?_, ?_, ?_, ?_⟩
  · rw [rstep_http, List.length_append]; have := emitted_length rw o; omega
  · rw [rstep_http, posts_append, posts_emitted]
  · cases (rstep rw o).2 <;> simp [ROut.post]
  · intro s hs
    rcases rstep_out rw o with ⟨out, ho⟩ | ⟨idx, args, kw, net, jobs', s', hop, -, hpost, hres⟩
    · rcases hs with ⟨id, h⟩ | ⟨cls, msg, h⟩ <;> rw [ho] at h <;> cases h
    · have hss : s' = s := by
        rcases hres with ⟨id, -, h⟩ | ⟨cls, msg, -, h⟩ <;> rcases hs with ⟨id', h'⟩ | ⟨cls', msg', h'⟩ <;>
          rw [h] at h' <;> cases h' <;> rfl
      subst hss
      exact ⟨hpost, by rw [hop]; rfl⟩

/-- **posted_body_is_the_jobs_request.**  Whenever an execution emits its POST (the call returns the job id, or
`create_job` raises): the call is `execute(idx, args, kw)` on a job `j` never executed before, and the JSON document
posted is the handler's platform name with EXACTLY the request `_create_payload_data(*args, **kw)` builds from the
request `j` has held since its creation, under the job's name, with the iterations the job captured. -/
theorem posted_body_is_the_jobs_request (rw : RWorld) (o : ROp) (s : Sent)
    (h : (∃ id, (rstep rw o).2 = .sent id s) ∨ (∃ cls msg, (rstep rw o).2 = .raised cls msg s)) :
    ∃ idx args kw net j its pl, o.1 = .execute idx args kw net ∧ rw.w.jobs[idx]? = some (j, its) ∧ j.fresh = true ∧
      createPayloadData j args kw = .ok pl ∧ s = ⟨j.jobName, pl, its⟩ ∧
      (postReq rw.h s).body = some ⟨rw.h.name, ⟨j.jobName, pl, its⟩⟩ := by
  rcases rstep_out rw o with ⟨out, ho⟩ | ⟨idx, args, kw, net, jobs', s', hop, hprep, -, hres⟩
  · rcases h with ⟨id, h⟩ | ⟨cls, msg, h⟩ <;> rw [ho] at h <;> cases h
  · have hss : s' = s := by
      rcases hres with ⟨id, -, h'⟩ | ⟨cls, msg, -, h'⟩ <;> rcases h with ⟨id', h⟩ | ⟨cls', msg', h⟩ <;>
        rw [h'] at h <;> cases h <;> rfl
    subst hss
    obtain ⟨j, its, pl, hj, hf, hc, hs⟩ := execPrep_ready rw.w idx args kw jobs' s' hprep
    exact ⟨idx, args, kw, net, j, its, pl, hop, hj, hf, hc, hs, by rw [hs]; rfl⟩

/-- non-vacuity: a job executed under a `201 Created` answer — the POST is emitted, `create_job` raises `HTTPError`
(the code wants 200), the platform has the job; executed again: refused client-side, nothing emitted -/
def rpcWitnessHandler : Handler := ⟨"sim:x".toList, "https://api.invalid".toList, some "tok".toList, none, 10⟩

def rpcWitnessOps : List ROp :=
  [(.newRemote false 2 0 [] none, .readTimeout), (.setFilter (some 0), .readTimeout), (.withInput [1, 0], .readTimeout),
   (.newSampler (.int 100), .readTimeout), (.createJob .probs, .readTimeout),
   (.execute 0 [] [] .ok, .answer 201 (.obj (some "j1".toList) none)),
   (.execute 0 [] [] .ok, .answer 200 (.obj (some "j2".toList) none))]

/-- class and message of an exception `create_job` raised -/
def ROut.raisedAs : ROut → Option (String × Option Text)
  | .raised cls msg _ => some (cls, msg)
  | _ => none

example :
    (posts (run rstep (RWorld.init ⟨none, none, none, none, ["probs"]⟩ rpcWitnessHandler) rpcWitnessOps).1.http).length = 1 ∧
    (run rstep (RWorld.init ⟨none, none, none, none, ["probs"]⟩ rpcWitnessHandler) rpcWitnessOps).1.http.length = 2 ∧
    (run rstep (RWorld.init ⟨none, none, none, none, ["probs"]⟩ rpcWitnessHandler) rpcWitnessOps).1.w.log.length = 1 ∧
    ((run rstep (RWorld.init ⟨none, none, none, none, ["probs"]⟩ rpcWitnessHandler) rpcWitnessOps).2[5]?.bind ROut.raisedAs) =
      some ("HTTPError", some unspecified) ∧
    (run rstep (RWorld.init ⟨none, none, none, none, ["probs"]⟩ rpcWitnessHandler) rpcWitnessOps).2[6]? =
      some (.plain (.err .assertion)) := by
  decide

/-- **posts_are_the_executions_requests.**  Over EVERY history from the initial state, whatever the transport does
to each request: the job-creation requests the client has emitted are exactly the ones the outputs of the calls stand
for, in order — one per execution that passed the client-side checks, none from any other call. -/
theorem posts_are_the_executions_requests (pf : Platform) (h : Handler) (ops : List ROp) :
    posts (exec rstep (RWorld.init pf h) ops).http = postsOf h ops (run rstep (RWorld.init pf h) ops).2 := by
  rw [rexec_posts]; rfl

/-- **platform_jobs_are_the_accepted_posts.**  Over every history: the requests the platform holds (the session
machine's log, of which `one_create_per_execute`, `clamp_every_sent`, `sent_iterations_were_checked…` speak) are
exactly the JSON documents of the emitted POSTs that the platform answered with a 2xx status or whose answer was
never read, in order.  Nothing else reaches the platform. -/
theorem platform_jobs_are_the_accepted_posts (pf : Platform) (h : Handler) (ops : List ROp) :
    (exec rstep (RWorld.init pf h) ops).w.log = acceptedBodies (exec rstep (RWorld.init pf h) ops).http := by
  apply inv_exec rstep (fun rw => rw.w.log = acceptedBodies rw.http)
  · intro rw o hi
    rw [rstep_log, rstep_http, acceptedBodies_append, hi]
  · rfl

/-- the shape of every emitted request -/
def FromHandler (h : Handler) (x : Exchange) : Prop :=
  x.req.auth = h.auth ∧ x.req.timeout = h.timeout ∧ x.req.proxies = h.proxies ∧
  ((x.req.verb = .get ∧ x.req.url = h.url ++ apiPlatform ++ quotePlus h.name ∧ x.req.body = none) ∨
   (x.req.verb = .post ∧ x.req.url = h.url ++ apiJob ∧ ∃ s, x.req.body = some ⟨h.name, s⟩ ∧ Clamped s.payload))

/-- `build_endpoint('/api/job')` and `build_endpoint('/api/platform/', quote_plus(name))`, for every base URL and
platform name: the base URL followed by the path (a base URL ending with `/` gives `//`: the code does not strip it) -/
theorem create_job_url (h : Handler) (s : Sent) : (postReq h s).url = h.url ++ apiJob := by
  simp only [postReq, buildEndpoint, List.map_nil, List.isEmpty_nil, if_true, List.append_nil]
  have : stripSlash apiJob = ['a', 'p', 'i', '/', 'j', 'o', 'b'] := by decide
  rw [this]; simp [apiJob]

theorem platform_details_url (h : Handler) : (fetchReq h).url = h.url ++ apiPlatform ++ quotePlus h.name := by
  simp only [fetchReq, buildEndpoint, List.map_cons, List.map_nil, List.isEmpty_cons, Bool.false_eq_true, if_false,
    joinSlash]
  have h1 : stripSlash apiPlatform = ['a', 'p', 'i', '/', 'p', 'l', 'a', 't', 'f', 'o', 'r', 'm'] := by decide
  have h2 : stripSlash (quotePlus h.name) = quotePlus h.name :=
    stripSlash_of_not_mem _ fun c hc => urlSafe_ne_slash c (quotePlus_safe' h.name c hc)
  rw [h1, h2]; simp [apiPlatform]

/-- **quote_plus_is_url_safe.**  Whatever the platform name, every character of the quoted name is an ASCII letter,
a digit, one of `_.-~`, `+` or `%`: the name cannot add a path segment, a query or a fragment to the URL. -/
theorem quote_plus_is_url_safe (s : Text) : ∀ c ∈ quotePlus s, urlSafe c ∧ c ≠ '/' ∧ c ≠ '?' ∧ c ≠ '#' ∧ c ≠ ' ' := by
  intro c hc
  have hs := quotePlus_safe' s c hc
  refine ⟨hs, urlSafe_ne_slash c hs, ?_, ?_, ?_⟩ <;> rintro rfl <;> rcases hs with h | h | h <;> revert h <;> decide

example : quotePlus "sim:a b/ç".toList = "sim%3Aa+b%2F%C3%A7".toList := by decide

/-- **every_request_comes_from_the_handler.**  Over every history: EVERY HTTP request the client has emitted carries
the handler's `Authorization: Bearer <token>` header, time-out and proxies; it is either the platform-details GET of a
`RemoteProcessor` constructor or the POST of an execution to `<url>/api/job`, whose JSON document names the handler's
platform and has `max_samples ≤ max_shots` — whether or not the platform took it. -/
theorem every_request_comes_from_the_handler (pf : Platform) (h : Handler) (ops : List ROp) :
    ∀ x ∈ (exec rstep (RWorld.init pf h) ops).http, FromHandler h x := by
  have key := inv_exec rstep (fun rw => rw.h = h ∧ ∀ x ∈ rw.http, FromHandler h x) (fun rw o hi => by
    obtain ⟨hh, hi⟩ := hi
    refine ⟨by rw [rstep_h, hh], ?_⟩
    intro x hx
    rw [rstep_http, List.mem_append] at hx
    rcases hx with hx | hx
    · exact hi x hx
    · unfold emitted at hx
      rw [List.mem_append] at hx
      rcases hx with hx | hx
      · split at hx
        · simp only [List.mem_cons, List.not_mem_nil, or_false] at hx
          subst hx; rw [hh]
          exact ⟨rfl, rfl, rfl, .inl ⟨rfl, platform_details_url h, rfl⟩⟩
        · cases hx
      · rcases rstep_out rw o with ⟨out, ho⟩ | ⟨idx, args, kw, net, jobs', s, -, hprep, hpost, -⟩
        · rw [ho] at hx; cases hx
        · rw [hpost] at hx
          simp only [List.mem_cons, List.not_mem_nil, or_false] at hx
          subst hx; rw [hh]
          obtain ⟨j, its, pl, -, -, hc, hs⟩ := execPrep_ready rw.w idx args kw jobs' s hprep
          exact ⟨rfl, rfl, rfl, .inr ⟨rfl, create_job_url h s, s, rfl, by rw [hs]; exact clamp j args kw pl hc⟩⟩)
    (RWorld.init pf h) ⟨rfl, fun x hx => by cases hx⟩ ops
  exact key.2

/-- **no_post_without_execute.**  A history without `execute` emits no job-creation request, whatever else is done
(`prepare_job_payload`, job creations, processor constructions — these only fetch the platform details). -/
theorem no_post_without_execute (rw : RWorld) (ops : List ROp) (h : ∀ o ∈ ops, o.1.isExecute = false) :
    posts (exec rstep rw ops).http = posts rw.http := by
  induction ops generalizing rw with
  | nil => rfl
  | cons o ops ih =>
    rw [exec_cons, ih _ (fun x hx => h x (List.mem_cons_of_mem _ hx)), rstep_http, posts_append, posts_emitted,
      rstep_not_execute rw o (h o (by simp)), List.append_nil]

/-- **job_posted_at_most_once.**  Once `execute` has been called on a job — whatever came of it: the id came back,
`create_job` raised on ANY answer or transport failure (the request may or may not have reached the platform), or the
call was refused before anything was emitted — every later `execute` of that job, after any history whatsoever and
whatever the transport would do, is refused with `AssertionError` and emits NOTHING: a POST whose answer was lost,
unreadable or an error status is never emitted a second time. -/
theorem job_posted_at_most_once (rw : RWorld) (idx : Nat) (args args' : List PV) (kw kw' : Dict PV) (net net' : Net)
    (wire wire' : Wire) (ops : List ROp) (hidx : idx < rw.w.jobs.length) :
    let rw₂ := exec rstep (rstep rw (.execute idx args kw net, wire)).1 ops
    rstep rw₂ (.execute idx args' kw' net', wire') = (rw₂, .plain (.err .assertion)) := by
  intro rw₂
  have h1 : Executed (rstep rw (.execute idx args kw net, wire)).1.w idx := by
    rw [(rstep_refines rw _).1, toOp_execute]
    rcases step_execute rw.w idx args kw wire.net with ⟨hn, -⟩ | ⟨j, its, hj, hf, h⟩ | ⟨j, its, err, hj, -, -, h⟩ |
        ⟨j, its, pl, hj, -, -, h⟩
    · rw [List.getElem?_eq_getElem hidx] at hn; cases hn
    · rw [h]; exact ⟨j, its, hj, hf⟩
    · rw [h]; exact ⟨{ j with fresh := false }, its, by simp [hidx], rfl⟩
    · rw [h]; exact ⟨{ j with fresh := false }, its, by simp [hidx], rfl⟩
  have h2 : Executed rw₂.w idx := by
    show Executed (exec rstep _ ops).w idx
    rw [rexec_refines]
    exact inv_exec step (Executed · idx) (fun s op hs => executed_step s op idx hs) _ h1 _
  simp only [rstep, execPrep_executed rw₂.w idx args' kw' h2]

/-- **create_job_returns_iff_200_with_job_id.**  `create_job` returns a job id exactly when the answer has status 200
and a JSON object with `job_id`; every other behaviour of the transport raises — including a 2xx status other than
200 and a 200 whose body is unusable, for which the platform HAS the job (`Wire.net = .lost`). -/
theorem create_job_returns_iff_200_with_job_id (wire : Wire) (id : Text) :
    createJobResult wire = .ok id ↔ ∃ e, wire = .answer 200 (.obj (some id) e) := by
  constructor
  · intro h
    cases wire with
    | answer code r =>
      by_cases hc : code = 200
      · subst hc
        cases r with
        | obj a b =>
          cases a with
          | none => simp [createJobResult] at h
          | some a => simp [createJobResult] at h; subst h; exact ⟨b, rfl⟩
        | notJson => simp [createJobResult] at h
        | list => simp [createJobResult] at h
      · cases r with
        | obj a b => cases b <;> simp [createJobResult, hc] at h
        | notJson => simp [createJobResult, hc] at h
        | list => simp [createJobResult, hc] at h
    | readTimeout => simp [createJobResult] at h
    | connectionError => simp [createJobResult] at h
    | connectTimeout => simp [createJobResult] at h
  · rintro ⟨e, rfl⟩; rfl

example : (Wire.answer 201 (.obj (some ['j']) none)).net = .lost ∧ (Wire.answer 200 .notJson).net = .lost ∧
    (Wire.answer 500 .notJson).net = .down ∧ Wire.readTimeout.net = .lost ∧ Wire.connectTimeout.net = .down := by decide

/-! ## `add` with list / dict / port-name mappings, on herald modes, next to a post-selection;
`clear_input_and_circuit`; `set_parameters`, `thresholded_output` (`Model/C16Add.lean`)

`astep` is the machine with components plus the processor's named ports, the mode sets of its post-selection's
conditions and the platform's detector spec; `asstep` runs it next to the user-level reading `ASpec` (a `Spec`, then
segments: elementary components at absolute positions, and ROUTINGS given as functions on modes). -/

section AddMat
variable {R : Type} [CommRing R] [StarRing R]

/-- **payload_matrix_is_user_matrix_with_mappings.**  Over EVERY history of calls of `astep` from the initial state —
everything `payload_matrix_is_user_matrix` covers, and `add` with an int offset, a list or a dictionary (int keys or
output port names) on any modes, also next to a post-selection and on a converted processor, `add_port`,
`set_postselection`, `set_parameters`, `thresholded_output`, `clear_input_and_circuit` followed by a new circuit on
the same processor, accepted or refused, in any order — and for every environment `ρ`: the matrix of the component
list the processor holds (what `serialize(linear_circuit())` sends) IS the matrix the user means: the local
processor's matrix relabelled / the circuit given to `set_circuit`, then, for every successful `add`, "the light of
processor mode `k` goes to the component's input `v` for every `k: v` of the mapping, the other modes of the span
behind it in order" (`routeFn`, a function on modes defined from the user's mapping) followed by the component's
elementary components on the first modes of the span. -/
theorem payload_matrix_is_user_matrix_with_mappings (ρ : Env R) (pf : Platform) (thrOnly : Bool) (ops : List AOp)
    (N : Nat) (hN : (exec asstep (asinit pf thrOnly) ops).1.cw.w.size = some N) :
    circMat ρ N (exec asstep (asinit pf thrOnly) ops).1.cw.comps = (exec asstep (asinit pf thrOnly) ops).2.mat ρ N :=
  (inv_exec asstep (AInv ρ) (fun st op h => asstep_ainv ρ st op h) (asinit pf thrOnly)
    ⟨fun N hN => by simp [asinit, AWorld.init, CWorld.init, World.init, World.size] at hN,
     fun h0 => by simp [asinit, AWorld.init, CWorld.init, World.init, World.size] at h0⟩ ops).1 N hN

/-- **the_perm_is_the_users_routing.**  For every mapping `add` has accepted on a processor of `N` modes: the `PERM`
the code puts on the span (vector computed by `generate_permutation`) denotes exactly the permutation "mode `k` to
the component's input `v`", given as a function on modes. -/
theorem the_perm_is_the_users_routing (aw : AWorld) (e : Exp) (mp : Mapping) (c : UC) (nm : NMap)
    (h : resolveAdd aw e mp c = .ok nm) (hm : c.m ≠ 0) :
    (Comp.perm (minL (nm.map (·.1))) (permVect nm)).mat (R := R) (fun _ k => (1 : Matrix (Fin k) (Fin k) R)) e.size =
      permMatF (routeFn e.size nm) := by
  have hr := resolveAdd_resolved aw e mp c nm h
  rw [perm_comp_mat]
  exact perm_mat_eq_route e.size nm hr.perm (span_fits aw e c nm hr hm).1

end AddMat

/-- a processor of 4 modes with a herald on mode 1, `add([0, 3], <2-mode circuit>)`: the span is 0 … 3 -/
def spanWitness : AWorld :=
  (exec astep (AWorld.init ⟨none, none, none, none, ["probs"]⟩ false)
    [.base (.newRemote false ⟨4, [], 0, []⟩ none), .base (.plain (.addHerald 1 1))])

/-- non-vacuity, and what the code does with the modes BETWEEN the keys: mode 0 goes to input 0, mode 3 to input 1
(position 1), and the herald mode 1 and mode 2 are pushed behind, to positions 2 and 3 — with no PERM back (the code
as it is; what that does to the herald is C10's subject) -/
example : (astep spanWitness (.addMapped (.list [0, 3]) ⟨2, [(0, ⟨7, 2⟩)], 1, []⟩)).2 = .done ∧
    (astep spanWitness (.addMapped (.list [0, 3]) ⟨2, [(0, ⟨7, 2⟩)], 1, []⟩)).1.cw.comps =
      [.sub 0 ⟨4, [], 0, []⟩, .perm 0 [0, 2, 3, 1], .sub 0 ⟨2, [(0, ⟨7, 2⟩)], 1, []⟩] := by decide

/-- **mapped_add_is_checked.**  Whenever `add(mapping, circuit)` succeeds on a processor `e` (after the first-add
sizing of an empty processor), for ANY mapping form: the resolved mapping has exactly one entry per component mode,
its keys are distinct modes INSIDE the circuit none of which is a HERALD mode, its values are distinct, every
condition of the processor's post-selection contains all the keys or none, the completed vector is a permutation
(`PERM.__init__` does not refuse it); the component list grows by exactly `PERM` (unless the identity) and the
component on the first modes of the span; heralds, input state, post-selection, noise, filter, parameters are
untouched and the circuit symbol is the new one. -/
theorem mapped_add_is_checked (aw aw' : AWorld) (mp : Mapping) (c : UC) (e0 : Exp) (he : aw.cw.w.exp = some e0)
    (hz : e0.size ≠ 0) (h : astep aw (.addMapped mp c) = (aw', .done)) :
    ∃ nm, resolveAdd aw e0 mp c = .ok nm ∧ Resolved aw e0 c nm ∧
      aw'.cw.comps = aw.cw.comps ++ mappedComps nm c ∧
      aw'.cw.w.exp = some (addComponent e0 c.sym c.cparams) ∧ aw'.ports = aw.ports ∧ aw'.psc = aw.psc := by
  simp only [astep, he, if_neg hz] at h
  split at h
  · cases h
  · cases hra : resolveAdd aw e0 mp c with
    | error err => rw [hra] at h; cases h
    | ok nm =>
      rw [hra] at h
      simp only [Prod.mk.injEq, and_true] at h
      subst h
      exact ⟨nm, rfl, resolveAdd_resolved aw e0 mp c nm hra, rfl, rfl, rfl, rfl⟩

/-- **mapped_add_sends_each_key_to_its_input.**  … and for every `k: v` of the resolved mapping the routing sends
processor mode `k` to position `min + v` — input `v` of the component, which sits on `min …` — inside the circuit:
light leaving mode `k` enters the component where the user said (`permMatF_mulVec_single`). -/
theorem mapped_add_sends_each_key_to_its_input (aw : AWorld) (e : Exp) (mp : Mapping) (c : UC) (nm : NMap)
    (h : resolveAdd aw e mp c = .ok nm) (hm : c.m ≠ 0) (k v : Nat) (hkv : (k, v) ∈ nm) :
    ∃ (hk : k < e.size) (hv : minL (nm.map (·.1)) + v < e.size),
      routeFn e.size nm ⟨k, hk⟩ = ⟨minL (nm.map (·.1)) + v, hv⟩ :=
  route_key aw e c nm (resolveAdd_resolved aw e mp c nm h) hm k v hkv

/-- **add_on_a_herald_mode_is_refused.**  Whatever the form of the mapping: if it resolves (one entry per component
mode) and ONE of its keys is a herald mode, negative or outside the circuit, `add` raises
`UnavailableModeException` — before the post-selection is looked at and before anything is appended. -/
theorem add_on_a_herald_mode_is_refused (aw : AWorld) (e : Exp) (mp : Mapping) (c : UC) (m : IMap)
    (hraw : resolveRaw (portNames e.size aw.ports) c.m mp = .ok m) (hlen : m.length = c.m) (kv : Int × Int)
    (hk : kv ∈ m) (hbad : kv.1 < 0 ∨ e.size ≤ kv.1.toNat ∨ kv.1.toNat ∈ heraldModes e) :
    resolveAdd aw e mp c = .error .unavailable := by
  have hnc : connectible e kv.1 = false := by
    cases hc : connectible e kv.1 with
    | false => rfl
    | true =>
      obtain ⟨h1, h2, h3⟩ := connectible_iff e kv.1 hc
      rcases hbad with hb | hb | hb
      · omega
      · omega
      · exact absurd hb h3
  have hall : (m.all fun kv => connectible e kv.1) ≠ true := by
    intro hall
    rw [List.all_eq_true] at hall
    have := hall kv hk
    rw [hnc] at this; cases this
  simp only [resolveAdd, hraw, checkConsistency, hlen, if_true, hall]
  rfl

/-- the herald of `spanWitness` (mode 1) as a key: refused, for a list and for a dictionary -/
example : (astep spanWitness (.addMapped (.list [1, 2]) ⟨2, [], 1, []⟩)).2 = .err .unavailable ∧
    (astep spanWitness (.addMapped (.dict [(.mode 2, .mode 1), (.mode 1, .mode 0)]) ⟨2, [], 1, []⟩)).2 =
      .err .unavailable ∧
    (astep spanWitness (.addMapped (.offset 3) ⟨2, [], 1, []⟩)).2 = .err .unavailable := by decide

/-- a post-selection `[0,1]==1`: a component on modes 1, 2 would split the condition — `AssertionError`; on 0, 1
(in either order) it is accepted; a port name resolves to its modes -/
example :
    let aw := exec astep (AWorld.init ⟨none, none, none, none, ["probs"]⟩ false)
      [.base (.newRemote false ⟨4, [], 0, []⟩ none), .post 0 [[0, 1]], .addPort 2 "q" 2]
    (astep aw (.addMapped (.offset 1) ⟨2, [], 1, []⟩)).2 = .err .assertion ∧
    (astep aw (.addMapped (.list [1, 0]) ⟨2, [], 1, []⟩)).2 = .done ∧
    (astep aw (.addMapped (.dict [(.port "q", .modes [1, 0])]) ⟨2, [], 1, []⟩)).1.cw.comps =
      [.sub 0 ⟨4, [], 0, []⟩, .perm 2 [1, 0], .sub 2 ⟨2, [], 1, []⟩] ∧
    (astep aw (.addMapped (.dict [(.port "zz", .modes [1, 0])]) ⟨2, [], 1, []⟩)).2 = .err .invalidMapping := by
  decide

/-- **astep_is_cstep_where_it_delegates.**  Every call `astep` does not treat itself (`AOp.delegate`) IS the call of
the machine with components — same components, same session state, same output — so every theorem about `cstep` /
`step` (payload contents, constraints, clamp, one request per execution, …) holds of those calls of `astep`. -/
theorem astep_is_cstep_where_it_delegates (aw : AWorld) (op : AOp) (cop : COp) (h : op.delegate aw = some cop) :
    (astep aw op).1.cw = (cstep aw.cw cop).1 ∧ (astep aw op).2 = (cstep aw.cw cop).2 :=
  astep_delegate aw op cop h

/-- **clear_keeps_noise_filter_parameters.**  `clear_input_and_circuit(new_m)` on a processor: components, heralds,
ports, post-selection, input state are gone and the processor has `new_m` modes (0 when not given, or when the `m`
setter refuses `new_m < 1` with `ValueError` — AFTER the reset); the noise model, the photon filter and the
`_parameters` dictionary are the ones the processor had: the next request of this processor carries them with the
new circuit. -/
theorem clear_keeps_noise_filter_parameters (aw : AWorld) (e : Exp) (newM : Option Int) (sym : Nat)
    (he : aw.cw.w.exp = some e) :
    ∃ e', (astep aw (.clearAll newM sym)).1.cw.w.exp = some e' ∧
      e'.noise = e.noise ∧ e'.filter = e.filter ∧ e'.params = e.params ∧
      e'.heralds = [] ∧ e'.input = none ∧ e'.post = none ∧ e'.m = e'.size ∧
      e'.size = (match newM with | some i => if i < 1 then 0 else i.toNat | none => 0) ∧
      (astep aw (.clearAll newM sym)).1.cw.comps = [] ∧ (astep aw (.clearAll newM sym)).1.ports = [] ∧
      (astep aw (.clearAll newM sym)).1.psc = none ∧
      (astep aw (.clearAll newM sym)).2 = (match newM with | some i => if i < 1 then .err .value else .done | none => .done) := by
  simp only [astep, he]
  cases newM with
  | none => exact ⟨_, rfl, rfl, rfl, rfl, rfl, rfl, rfl, rfl, rfl, rfl, rfl, rfl, rfl⟩
  | some i =>
    simp only
    by_cases hi : i < 1
    · rw [if_pos hi, if_pos hi, if_pos hi]; exact ⟨_, rfl, rfl, rfl, rfl, rfl, rfl, rfl, rfl, rfl, rfl, rfl, rfl, rfl⟩
    · rw [if_neg hi, if_neg hi, if_neg hi]; exact ⟨_, rfl, rfl, rfl, rfl, rfl, rfl, rfl, rfl, rfl, rfl, rfl, rfl, rfl⟩

/-- … and the first `add` / `set_circuit` afterwards decides the size: `clear_input_and_circuit()`, then
`add(1, <2-mode circuit>)` gives a processor of 3 modes whose request carries the filter and the parameter set before -/
example :
    let aw := exec astep (AWorld.init ⟨none, none, none, none, ["probs"]⟩ false)
      [.base (.newRemote false ⟨4, [], 0, []⟩ none), .base (.plain (.setFilter (some 1))), .thresholded true,
       .clearAll none 1, .addMapped (.offset 1) ⟨2, [], 2, []⟩]
    aw.cw.w.exp.map (fun e => (e.size, e.filter, dget e.params "thresholded")) = some (3, some 1, some (.bool true)) ∧
    aw.cw.comps = [.sub 1 ⟨2, [], 2, []⟩] := by decide

/-- **set_parameters_writes_until_a_bad_key.**  `set_parameters(d)` is `set_parameter` key by key in dictionary
order; at the first key that is not a string it raises `TypeError`, the earlier keys written and the later ones not. -/
theorem set_parameters_writes_until_a_bad_key (e : Exp) (a : List (String × PV)) (v : PV)
    (rest : List (Option String × PV)) :
    setParams e (a.map (fun kv => (some kv.1, kv.2))) = (a.foldl (fun e kv => setParam e kv.1 kv.2) e, none) ∧
    setParams e (a.map (fun kv => (some kv.1, kv.2)) ++ (none, v) :: rest) =
      (a.foldl (fun e kv => setParam e kv.1 kv.2) e, some .type) := by
  induction a generalizing e with
  | nil => exact ⟨rfl, rfl⟩
  | cons kv t ih => simp only [List.map_cons, List.cons_append, setParams, List.foldl_cons]; exact ih _

/-- **thresholded_reaches_the_request.**  After `thresholded_output(v)` has succeeded, `_parameters['thresholded']`
is `v` (a Python bool), and every payload the processor then produces — as long as no call rewrites that key —
carries it in its `parameters` field; `thresholded_output(False)` is refused on a platform whose specs say
`detector: threshold`, the dictionary untouched. -/
theorem thresholded_reaches_the_request (aw : AWorld) (e : Exp) (v : Bool) (he : aw.cw.w.exp = some e) :
    (v = false ∧ aw.thrOnly = true → astep aw (.thresholded v) = (aw, .err .assertion)) ∧
    (¬ (v = false ∧ aw.thrOnly = true) →
      ∃ e', (astep aw (.thresholded v)).1.cw.w.exp = some e' ∧ (astep aw (.thresholded v)).2 = .done ∧
        dget e'.params "thresholded" = some (.bool v) ∧
        ∀ pf cmd cl il kw e'' pl, preparePayload pf e' cmd cl il kw = (e'', .ok pl) →
          ∃ d, dget pl "parameters" = some (.params d) ∧ dget d "thresholded" = some (.bool v)) := by
  refine ⟨fun hc => by simp only [astep, he, if_pos hc], fun hc => ?_⟩
  refine ⟨setParam e "thresholded" (.bool v), by simp only [astep, he, if_neg hc]; rfl,
    by simp only [astep, he, if_neg hc], dget_dset_self _ _ _, ?_⟩
  intro pf cmd cl il kw e'' pl hp
  obtain ⟨-, -, -, -, rfl⟩ := preparePayload_ok pf _ cmd cl il kw e'' pl hp
  have hne : (syncFilterParam (setParam e "thresholded" (.bool v))).params ≠ [] := dset_ne_nil _ _ _
  refine ⟨_, by rw [fields_parameters, if_pos hne], ?_⟩
  show dget (dset (dset e.params "thresholded" (.bool v)) "min_detected_photons" _) "thresholded" = _
  rw [dget_dset_ne _ _ _ _ (by decide), dget_dset_self]

/-! ## extension 6: the post-selection as a PREDICATE

The session machine carries a post-selection as a symbol `⟨id, perm⟩`.  `Model/C16PS.lean` gives it a meaning: the
tree of a `PostSelect` with its evaluation on an output state (`PSel.eval`), the relabelling of the conditions'
modes as `Experiment._compose_experiment` performs it (`apply_permutation(perm_inv.perm_vector)` then
`shift_modes(c_first)`: `PSel.composePost`), and `Sym.denote`. -/

/-- **relabelled_postselect_reads_relabelled_state.**  Whatever map `f` is applied to the modes of the conditions
(the native `apply_permutation`, `shift_modes`: each mode list mapped and sorted again), the relabelled
post-selection decides on a state `t` exactly what the original decides on `s`, as soon as `t` carries on mode
`f m` what `s` carries on `m` for every mode `m` a condition reads — for every tree (conditions, negations, n-ary
and / or / xor at any depth), every comparison operator and every state. -/
theorem relabelled_postselect_reads_relabelled_state (f : Nat → Nat) (s t : List Nat) (x : PSel.Expr)
    (h : ∀ m ∈ x.modes, t.getD (f m) 0 = s.getD m 0) :
    PSel.eval (PSel.mapModes f x) t = PSel.eval x s :=
  PSel.eval_mapModes f s t x h

/-- **converted_postselect_is_user_postselect.**  For every well-formed local processor `p` (heralds anywhere), every
post-selection `x` (the empty `PostSelect()` included) and every output state `s` of `p`: the post-selection
`from_local_processor(p)` leaves in the remote processor — the one transmitted — accepts the output state of the
converted processor that corresponds to `s` (remote mode `j` carries local mode `relabelOf p [j]`: modes of interest
first, herald modes after them) iff the user's post-selection accepts `s`.  No hypothesis on the modes `x` reads
(a condition on a mode beyond the circuit counts 0 photons on both sides). -/
theorem converted_postselect_is_user_postselect (p : Exp) (hp : p.WF) (x : Option PSel.Expr) (s : List Nat)
    (hs : s.length = p.size) :
    PSel.evalTop (PSel.convertPost p x) (PSel.relabelState (relabelOf p) s) = PSel.evalTop x s := by
  cases x with
  | none => rfl
  | some x =>
    exact PSel.composePost_eval p.size (relabelOf p) (relabelOf_isPerm p hp).1 (PSel.mem_relabelOf p) s hs x

/-- the same through a herald: on the corresponding states the herald of the converted processor (`enumHeralds`:
the `k`-th herald of `p` sits on remote mode `p.m + k`) reads what the local herald mode carries — stated for the
mode list: remote mode `j` reads local mode `(relabelOf p)[j]`. -/
theorem relabelled_state_reads_local_mode (p : Exp) (s : List Nat) (j : Nat) (hj : j < (relabelOf p).length) :
    (PSel.relabelState (relabelOf p) s).getD j 0 = s.getD ((relabelOf p)[j]) 0 := by
  unfold PSel.relabelState
  rw [List.getD_eq_getElem?_getD, List.getElem?_map, List.getElem?_eq_getElem hj]
  rfl

/-- **converted_symbol_denotes_user_predicate.**  The symbol the session machine stores for the post-selection of a
converted processor (and puts in every payload: `payload_complete`) DENOTES, whatever the user's objects denote
(`env`), a predicate that accepts the relabelled output state iff the user's object accepts the local one — for
both variants of the conversion, with or without an input state. -/
theorem converted_symbol_denotes_user_predicate (fixed : Bool) (p e : Exp) (hp : p.WF) (id : Nat)
    (hpost : p.post = some ⟨id, []⟩) (he : fromLocal fixed p = .ok e) (env : Nat → Option PSel.Expr)
    (s : List Nat) (hs : s.length = p.size) :
    ∃ y, e.post = some y ∧
      PSel.evalTop (y.denote env) (PSel.relabelState (relabelOf p) s) = PSel.evalTop (env id) s := by
  have hlen := (relabelOf_isPerm p hp).1
  refine ⟨⟨id, normPerm (relabelOf p)⟩, by rw [PSel.fromLocal_post fixed p e he, hpost]; rfl, ?_⟩
  unfold Sym.denote normPerm
  by_cases hid : isIdentity (relabelOf p) = true
  · simp only [hid, if_true]
    rw [PSel.relabelState_identity _ hid s (by rw [hs, hlen])]
  · have hne : relabelOf p ≠ [] := fun h0 => hid (by rw [h0]; rfl)
    simp only [hid, Bool.false_eq_true, if_false, hne]
    cases hx : env id with
    | none => rfl
    | some x =>
      exact PSel.eval_mapModes _ s _ x
        (fun m _ => PSel.relabelState_applyPerm p.size _ hlen (PSel.mem_relabelOf p) s hs m)

/-- non-vacuity: a processor of 5 modes with heralds on modes 1 and 3, post-selection `[0,2] == 1 & [4] < 2`: the
transmitted conditions read modes `[0,1]` and `[2]`, and on the local output `|1,1,0,0,1>` both say "accepted" -/
example :
    let p : Exp := { m := 3, size := 5, heralds := [(1, 1), (3, 0)], input := none, post := none, noise := none,
                     filter := none, params := [], circ := ⟨0, []⟩, cparams := [] }
    let x : PSel.Expr := .nary .and (.cons (.cond [0, 2] .eq 1) (.cons (.cond [4] .lt 2) .nil))
    p.WF ∧ relabelOf p = [0, 2, 4, 1, 3] ∧
    (PSel.convertPost p (some x)).map PSel.Expr.conds = some [[0, 1], [2]] ∧
    PSel.relabelState (relabelOf p) [1, 1, 0, 0, 1] = [1, 0, 1, 1, 0] ∧
    PSel.evalTop (PSel.convertPost p (some x)) [1, 0, 1, 1, 0] = true ∧ PSel.eval x [1, 1, 0, 0, 1] = true := by
  decide

/-! ## wave 6: the routing values are component inputs; what `relabelOf` is; one end-to-end statement -/

/-- **mapped_add_values_are_component_inputs.**  For every mapping `add(mapping, circuit)` has accepted (any form:
offset, list, dictionary with int keys or port names; no hypothesis on the component's size): every value `v` of the
resolved mapping is an INPUT of the component, `v < c.m`, and the values are exactly `0 … c.m - 1`, each once.  The
code never checks this directly: it follows from "one entry per component mode, distinct values, and the completed
vector is accepted by `PERM`" — the modes of the span the user did not name get the values `max + 1, max + 2, …`, so
a value `≥ c.m` would leave a hole below it that nothing fills. -/
theorem mapped_add_values_are_component_inputs (aw : AWorld) (e : Exp) (mp : Mapping) (c : UC) (nm : NMap)
    (h : resolveAdd aw e mp c = .ok nm) :
    (∀ k v, (k, v) ∈ nm → v < c.m) ∧ (nm.map (·.2)).Perm (List.range c.m) :=
  ⟨fun k v hkv => resolved_value_lt aw e c nm (resolveAdd_resolved aw e mp c nm h) k v hkv,
   resolved_values_perm aw e c nm (resolveAdd_resolved aw e mp c nm h)⟩

/-- **mapped_add_routes_into_the_component.**  … so the routing sends processor mode `k` to a position INSIDE the
block `min … min + c.m - 1` the component is put on (`mapped_add_sends_each_key_to_its_input` only said "position
`min + v`"), and every mode of the span the user did not name to a position of the span BEHIND that block. -/
theorem mapped_add_routes_into_the_component (aw : AWorld) (e : Exp) (mp : Mapping) (c : UC) (nm : NMap)
    (h : resolveAdd aw e mp c = .ok nm) (hm : c.m ≠ 0) :
    (∀ k v, (k, v) ∈ nm → ∃ (hk : k < e.size) (hv : minL (nm.map (·.1)) + v < e.size),
      routeFn e.size nm ⟨k, hk⟩ = ⟨minL (nm.map (·.1)) + v, hv⟩ ∧ v < c.m ∧ minL (nm.map (·.1)) + c.m ≤ e.size) ∧
    (∀ i, i < spanLen nm → minL (nm.map (·.1)) + i ∉ nm.map (·.1) →
      c.m ≤ spanVal nm i ∧ spanVal nm i < spanLen nm) := by
  have hr := resolveAdd_resolved aw e mp c nm h
  refine ⟨fun k v hkv => ?_, fun i hi hni => ⟨unnamed_goes_behind aw e c nm hr i hni, permVect_lt nm hr.perm i hi⟩⟩
  obtain ⟨hk, hv, hroute⟩ := route_key aw e c nm hr hm k v hkv
  exact ⟨hk, hv, hroute, resolved_value_lt aw e c nm hr k v hkv, (span_fits aw e c nm hr hm).2⟩

/-- non-vacuity (the mapping of `spanWitness`'s example): keys 0 and 3 get the inputs 0 and 1 of a 2-mode component -/
example : resolveAdd spanWitness ⟨4, 4, [(1, 1)], none, none, none, none, [], ⟨0, []⟩, []⟩ (.list [0, 3])
    ⟨2, [(0, ⟨7, 2⟩)], 1, []⟩ = .ok [(0, 0), (3, 1)] := by decide

/-- **relabelling_is_moi_then_heralds.**  What the mode mapping of the conversion IS, as facts about the list and
not as its definition: for every well-formed local processor its first `p.m` entries are exactly the non-herald
modes, in increasing order; the entries behind them are the herald modes in insertion order; and these three facts
DETERMINE the list (any list with them is `relabelOf p`). -/
theorem relabelling_is_moi_then_heralds (p : Exp) (h : p.WF) :
    ((relabelOf p).take p.m).Pairwise (· < ·) ∧
    (∀ x, x ∈ (relabelOf p).take p.m ↔ x < p.size ∧ x ∉ heraldModes p) ∧
    (relabelOf p).drop p.m = heraldModes p ∧
    ∀ σ : List Nat, (σ.take p.m).Pairwise (· < ·) → (∀ x, x ∈ σ.take p.m ↔ x < p.size ∧ x ∉ heraldModes p) →
      σ.drop p.m = heraldModes p → σ = relabelOf p := by
  refine ⟨?_, ?_, relabelOf_drop p h, fun σ h1 h2 h3 => relabelOf_unique p σ h1 h2 h3⟩
  · rw [relabelOf_take p h]; exact moiModes_sorted p
  · intro x; rw [relabelOf_take p h]; exact mem_moiModes p x

/-- **converted_heralds_follow_the_relabelling.**  For both variants of the conversion and every well-formed local
processor: the heralds of the converted processor (the ones every payload carries) are the local heralds READ THROUGH
THE SAME MAPPING as the circuit (`converted_matrix_is_local_matrix_relabelled`) and the post-selection
(`converted_postselect_is_user_postselect`): a remote herald `(j, v)` sits on a remote mode that carries a local
herald mode expecting `v`, and every local herald is found again this way. -/
theorem converted_heralds_follow_the_relabelling (fixed : Bool) (p e : Exp) (hp : p.WF)
    (he : fromLocal fixed p = .ok e) :
    (∀ j v, (j, v) ∈ e.heralds → ∃ l, (relabelOf p)[j]? = some l ∧ (l, v) ∈ p.heralds) ∧
    (∀ l v, (l, v) ∈ p.heralds → ∃ j, (j, v) ∈ e.heralds ∧ (relabelOf p)[j]? = some l) :=
  ⟨converted_herald_reads_local fixed p e hp he, local_herald_is_converted fixed p e hp he⟩

example : heraldInside.WF ∧ (fromLocal true heraldInside).map (·.heralds) = .ok [(2, 1)] ∧
    (relabelOf heraldInside)[2]? = some 1 := by decide

/-- **converted_input_follows_the_relabelling** (repaired code).  For every well-formed local processor with an
input state `s`: the input the converted processor stores — the one transmitted — carries on its modes of interest
exactly what the local input carries on the modes `relabelOf p` names (the same mapping as the circuit, the
post-selection and the heralds), and on each of its herald modes the expected value of that herald. -/
theorem converted_input_follows_the_relabelling (p e : Exp) (hp : p.WF) (s : List Nat) (hin : p.input = some s)
    (he : fromLocal true p = .ok e) :
    ∃ t, e.input = some t ∧ t.length = p.size ∧
      t.take p.m = (PSel.relabelState (relabelOf p) s).take p.m ∧
      ∀ k v, (k, v) ∈ e.heralds → t[k]? = some v := by
  have hlen : s.length = p.size := by
    have := hp.inlen; simp only [inputLenOk, hin] at this; simpa using this
  obtain ⟨rp, hrp, -, hm, hsize, -, hmodes, -, -, -, -, -, -, hinp⟩ := from_local_preserves p hp
  rw [he] at hrp; cases hrp
  obtain ⟨t, ht, htl, hrm, hher⟩ := hinp s hin
  refine ⟨t, ht, by rw [htl, hsize], ?_, hher⟩
  rw [removeModes_eq_filter, removeModes_eq_filter, hmodes, htl, hsize, ← hp.count] at hrm
  simp only [Nat.zero_add] at hrm
  rw [filter_range_tail, map_getD_range t p.m (by rw [htl, hsize, ← hp.count]; omega)] at hrm
  rw [hrm]
  unfold PSel.relabelState
  rw [← List.map_take, relabelOf_take p hp, hlen]
  rfl


example : { heraldInside with input := some [1, 1, 0] }.WF ∧
    (fromLocal true { heraldInside with input := some [1, 1, 0] }).map (·.input) = .ok (some [1, 0, 1]) ∧
    PSel.relabelState (relabelOf heraldInside) [1, 1, 0] = [1, 0, 1] := by decide

section EndToEnd
variable {R : Type} [CommRing R] [StarRing R]

/-- **job_request_end_to_end.**  ONE statement from the user's calls to the bytes' content.  Take ANY history `ops`
of calls of `astep` from the initial state (constructors, conversions with or without post-selection, mapped `add`s,
setters, …), the processor `e` it leaves, a job `j` that `Sampler._create_job` makes from `e` at that moment, ANY
later state `rw` of the HTTP machine that still holds this job under `idx`, and an `execute(idx, args, kw)` there
that emits its POST (the call returns an id or `create_job` raises), whatever the transport does.  Then:
* exactly one POST is added, to `<url>/api/job`, and its JSON document is the handler's platform name with the job's
  name, the iterations the job captured and a payload `pl`;
* decoding `pl` gives the configuration of `e` — command = the primitive chosen, circuit symbol and size, input
  state, filter, post-selection symbol, heralds, noise — as it was when the job was created;
* the component list the processor held then (what the circuit symbol serialises) denotes, for every `ρ`, the matrix
  the user means (`ASpec.mat`: local matrix relabelled / given circuit, then every routing and component added);
* and if `e` still has the post-selection and the heralds a conversion `from_local_processor(p)` delivered: the
  post-selection symbol in `pl` denotes, whatever the user's objects denote, a predicate that accepts the relabelled
  output state iff the user's accepts the local one, and every herald in `pl` sits on a remote mode carrying a local
  herald mode with the same expected value.

`hjob` (the state still holds the job as created) is a hypothesis here; `job_request_end_to_end_over_history` below
discharges it for every history that follows the creation. -/
theorem job_request_end_to_end (ρ : Env R) (pf : Platform) (thrOnly : Bool) (ops : List AOp) (e : Exp)
    (he : (exec asstep (asinit pf thrOnly) ops).1.cw.w.exp = some e)
    (smp : Sampler) (method : Method) (e' : Exp) (j : Job)
    (hcreate : createJob (exec asstep (asinit pf thrOnly) ops).1.cw.w.pf e smp method = (e', .ok j))
    (rw : RWorld) (idx : Nat) (its : List (Dict IV)) (hjob : rw.w.jobs[idx]? = some (j, its))
    (args : List PV) (kw : Dict PV) (net : Net) (wire : Wire) (snt : Sent)
    (hsent : (∃ id, (rstep rw (.execute idx args kw net, wire)).2 = .sent id snt) ∨
      (∃ cls msg, (rstep rw (.execute idx args kw net, wire)).2 = .raised cls msg snt)) :
    ∃ pl prim conv,
      posts (rstep rw (.execute idx args kw net, wire)).1.http = posts rw.http ++ [⟨postReq rw.h snt, some wire⟩] ∧
      (postReq rw.h snt).url = rw.h.url ++ apiJob ∧
      (postReq rw.h snt).body = some ⟨rw.h.name, ⟨method.name, pl, its⟩⟩ ∧
      primitive (exec asstep (asinit pf thrOnly) ops).1.cw.w.pf.commands method = some (prim, conv) ∧
      decode pl = configOf e prim.name false false ∧
      circMat ρ e.size (exec asstep (asinit pf thrOnly) ops).1.cw.comps =
        (exec asstep (asinit pf thrOnly) ops).2.mat ρ e.size ∧
      ∀ (fixed : Bool) (p e0 : Exp) (id : Nat), p.WF → p.post = some ⟨id, []⟩ → fromLocal fixed p = .ok e0 →
        e.post = e0.post → e.heralds = e0.heralds →
        (∃ y, (decode pl).post = some y ∧ ∀ (env : Nat → Option PSel.Expr) (s : List Nat), s.length = p.size →
          PSel.evalTop (y.denote env) (PSel.relabelState (relabelOf p) s) = PSel.evalTop (env id) s) ∧
        (∀ jm v, (jm, v) ∈ (decode pl).heralds → ∃ l, (relabelOf p)[jm]? = some l ∧ (l, v) ∈ p.heralds) := by
  obtain ⟨idx', args', kw', net', j', its', pl, ho, hj', -, hc, hs, hbody⟩ :=
    posted_body_is_the_jobs_request rw (.execute idx args kw net, wire) snt hsent
  cases ho
  rw [hjob] at hj'
  cases hj'
  obtain ⟨prim, conv, hprim, hdec, -, -, -, hname⟩ :=
    job_sent_describes_processor _ e e' smp method j args kw pl hcreate hc
  have hpost := one_post_per_execution rw (.execute idx args kw net, wire)
  refine ⟨pl, prim, conv, ?_, create_job_url rw.h snt, by rw [hbody, hname], hprim, hdec,
    payload_matrix_is_user_matrix_with_mappings ρ pf thrOnly ops e.size (by simp [World.size, he]), ?_⟩
  · rw [hpost.2.1, (hpost.2.2.2 snt hsent).1]
  · intro fixed p e0 id hp hpp he0 hpe hhe
    have hdp : (decode pl).post = e.post := by rw [hdec]; rfl
    have hdh : (decode pl).heralds = e.heralds := by rw [hdec]; rfl
    refine ⟨?_, ?_⟩
    · obtain ⟨y, hy, -⟩ := converted_symbol_denotes_user_predicate fixed p e0 hp id hpp he0 (fun _ => none)
        (List.replicate p.size 0) List.length_replicate
      exact ⟨y, by rw [hdp, hpe, hy], fun env s hs' => by
        obtain ⟨y', hy', hev⟩ := converted_symbol_denotes_user_predicate fixed p e0 hp id hpp he0 env s hs'
        rw [hy] at hy'; cases hy'; exact hev⟩
    · intro jm v hjv
      rw [hdh, hhe] at hjv
      exact converted_herald_reads_local fixed p e0 hp he0 jm v hjv

/-- **job_request_end_to_end_over_history.**  The same with NO hypothesis on the later state: any history `ops` of
`astep` from the initial state, then `Sampler._create_job(method)` succeeds on the processor `e` and the sampler `smp`
of that moment, then ANY history `later` of the HTTP machine (any calls — setters, new circuits, new processors, other
jobs and their executions — under any behaviour of the transport, from any handler and any earlier traffic), then
`execute` of THAT job emits its POST: the document posted is the platform name, the job's name, the iterations the
sampler had at creation and a payload that decodes to the configuration of `e`; the components `e` had denote the
user's matrix; and the post-selection / the heralds of a conversion are the user's read through `relabelOf`. -/
theorem job_request_end_to_end_over_history (ρ : Env R) (pf : Platform) (thrOnly : Bool) (ops : List AOp) (e : Exp)
    (he : (exec asstep (asinit pf thrOnly) ops).1.cw.w.exp = some e)
    (smp : Sampler) (hsmp : (exec asstep (asinit pf thrOnly) ops).1.cw.w.sampler = some smp)
    (method : Method) (e' : Exp) (j : Job)
    (hcreate : createJob (exec asstep (asinit pf thrOnly) ops).1.cw.w.pf e smp method = (e', .ok j))
    (hd : Handler) (http0 : List Exchange) (later : List ROp)
    (args : List PV) (kw : Dict PV) (net : Net) (wire : Wire) (snt : Sent)
    (hsent :
      let rw := exec rstep ⟨(step (exec asstep (asinit pf thrOnly) ops).1.cw.w (.createJob method)).1, hd, http0⟩ later
      let o : ROp := (.execute (exec asstep (asinit pf thrOnly) ops).1.cw.w.jobs.length args kw net, wire)
      (∃ id, (rstep rw o).2 = .sent id snt) ∨ (∃ cls msg, (rstep rw o).2 = .raised cls msg snt)) :
    let rw := exec rstep ⟨(step (exec asstep (asinit pf thrOnly) ops).1.cw.w (.createJob method)).1, hd, http0⟩ later
    let o : ROp := (.execute (exec asstep (asinit pf thrOnly) ops).1.cw.w.jobs.length args kw net, wire)
    ∃ pl prim conv,
      posts (rstep rw o).1.http = posts rw.http ++ [⟨postReq hd snt, some wire⟩] ∧
      (postReq hd snt).url = hd.url ++ apiJob ∧
      (postReq hd snt).body = some ⟨hd.name, ⟨method.name, pl, smp.iterator⟩⟩ ∧
      primitive (exec asstep (asinit pf thrOnly) ops).1.cw.w.pf.commands method = some (prim, conv) ∧
      decode pl = configOf e prim.name false false ∧
      circMat ρ e.size (exec asstep (asinit pf thrOnly) ops).1.cw.comps =
        (exec asstep (asinit pf thrOnly) ops).2.mat ρ e.size ∧
      ∀ (fixed : Bool) (p e0 : Exp) (id : Nat), p.WF → p.post = some ⟨id, []⟩ → fromLocal fixed p = .ok e0 →
        e.post = e0.post → e.heralds = e0.heralds →
        (∃ y, (decode pl).post = some y ∧ ∀ (env : Nat → Option PSel.Expr) (s : List Nat), s.length = p.size →
          PSel.evalTop (y.denote env) (PSel.relabelState (relabelOf p) s) = PSel.evalTop (env id) s) ∧
        (∀ jm v, (jm, v) ∈ (decode pl).heralds → ∃ l, (relabelOf p)[jm]? = some l ∧ (l, v) ∈ p.heralds) := by
  intro rw o
  have hh : rw.h = hd := (rpc_refines_session _ later).2
  have hheld := rexec_holdsJob _ j smp.iterator
    ⟨(step (exec asstep (asinit pf thrOnly) ops).1.cw.w (.createJob method)).1, hd, http0⟩ later
    (step_createJob_appends _ e e' smp method j he hsmp hcreate)
  have hjob : rw.w.jobs[(exec asstep (asinit pf thrOnly) ops).1.cw.w.jobs.length]? = some (j, smp.iterator) := by
    rcases hheld with h | h
    · exact h
    · exfalso
      obtain ⟨idx', args', kw', net', j', its', pl, ho, hj', hf, -⟩ := posted_body_is_the_jobs_request rw o snt hsent
      cases ho
      rw [show rw.w.jobs[(exec asstep (asinit pf thrOnly) ops).1.cw.w.jobs.length]? = _ from h] at hj'
      cases hj'
      cases hf
  have key := job_request_end_to_end ρ pf thrOnly ops e he smp method e' j hcreate rw _ smp.iterator hjob args kw net
    wire snt hsent
  rw [hh] at key
  exact key

/-- **converted_job_end_to_end.**  The conversion clause with NOTHING assumed about the processor.  Any history
`before` of `astep`, then `RemoteProcessor.from_local_processor(p)` succeeds for a local processor `p` with the
post-selection object `id`, then any number of calls `mid` of the session machine that neither build a new processor
nor add a herald nor set a post-selection (input, filter, noise, parameters, circuit replaced / retuned / component
added, payloads, samplers, iterations, other jobs and their executions), then `Sampler._create_job(method)` succeeds,
then ANY later history of the HTTP machine, then `execute` of that job emits its POST.  Then the document posted is
as in `job_request_end_to_end_over_history` (platform name, method's name, the sampler's iterations, a payload that
decodes to the configuration of the processor at creation, whose components denote the user's matrix), and
* the post-selection in the payload denotes, whatever the user's objects denote, a predicate that accepts the
  relabelled output state iff the user's post-selection accepts the local one;
* the heralds in the payload are exactly the local heralds read through `relabelOf p`, in both directions. -/
theorem converted_job_end_to_end (ρ : Env R) (pf : Platform) (thrOnly : Bool) (before : List AOp)
    (p : Exp) (pc : List Comp) (conds : List (List Nat)) (id : Nat) (hpid : p.post = some ⟨id, []⟩)
    (hconv : (astep (exec asstep (asinit pf thrOnly) before).1 (.convertPS p pc conds)).2 = .done)
    (mid : List Op) (hmid : ∀ op ∈ mid, op.touchesPH = false)
    (e : Exp) (smp : Sampler) (method : Method) (e' : Exp) (j : Job)
    (he : (exec asstep (asinit pf thrOnly)
      (before ++ .convertPS p pc conds :: mid.map fun op => AOp.base (.plain op))).1.cw.w.exp = some e)
    (hsmp : (exec asstep (asinit pf thrOnly)
      (before ++ .convertPS p pc conds :: mid.map fun op => AOp.base (.plain op))).1.cw.w.sampler = some smp)
    (hcreate : createJob (exec asstep (asinit pf thrOnly)
      (before ++ .convertPS p pc conds :: mid.map fun op => AOp.base (.plain op))).1.cw.w.pf e smp method = (e', .ok j))
    (hd : Handler) (http0 : List Exchange) (later : List ROp)
    (args : List PV) (kw : Dict PV) (net : Net) (wire : Wire) (snt : Sent)
    (hsent :
      let st := exec asstep (asinit pf thrOnly) (before ++ .convertPS p pc conds :: mid.map fun op => AOp.base (.plain op))
      let rw := exec rstep ⟨(step st.1.cw.w (.createJob method)).1, hd, http0⟩ later
      let o : ROp := (.execute st.1.cw.w.jobs.length args kw net, wire)
      (∃ id, (rstep rw o).2 = .sent id snt) ∨ (∃ cls msg, (rstep rw o).2 = .raised cls msg snt)) :
    let st := exec asstep (asinit pf thrOnly) (before ++ .convertPS p pc conds :: mid.map fun op => AOp.base (.plain op))
    let rw := exec rstep ⟨(step st.1.cw.w (.createJob method)).1, hd, http0⟩ later
    let o : ROp := (.execute st.1.cw.w.jobs.length args kw net, wire)
    p.WF ∧ ∃ pl prim conv,
      posts (rstep rw o).1.http = posts rw.http ++ [⟨postReq hd snt, some wire⟩] ∧
      (postReq hd snt).url = hd.url ++ apiJob ∧
      (postReq hd snt).body = some ⟨hd.name, ⟨method.name, pl, smp.iterator⟩⟩ ∧
      primitive st.1.cw.w.pf.commands method = some (prim, conv) ∧
      decode pl = configOf e prim.name false false ∧
      circMat ρ e.size st.1.cw.comps = st.2.mat ρ e.size ∧
      (∃ y, (decode pl).post = some y ∧ ∀ (env : Nat → Option PSel.Expr) (s : List Nat), s.length = p.size →
        PSel.evalTop (y.denote env) (PSel.relabelState (relabelOf p) s) = PSel.evalTop (env id) s) ∧
      (∀ jm v, (jm, v) ∈ (decode pl).heralds → ∃ l, (relabelOf p)[jm]? = some l ∧ (l, v) ∈ p.heralds) ∧
      (∀ l v, (l, v) ∈ p.heralds → ∃ jm, (jm, v) ∈ (decode pl).heralds ∧ (relabelOf p)[jm]? = some l) := by
  intro st rw o
  obtain ⟨hwf, e0, hfl, hexp0⟩ := astep_convertPS_done _ p pc conds hconv
  -- the processor at creation has the post-selection and the heralds the conversion delivered
  have hph : st.1.cw.w.ph = some (e0.post, e0.heralds) := by
    show (exec asstep (asinit pf thrOnly) _).1.cw.w.ph = _
    rw [asexec_fst, exec_append, exec_cons, aexec_plain_ph _ mid hmid, ← asexec_fst]
    simp only [World.ph, hexp0, Option.map_some]
  have hph' : e.post = e0.post ∧ e.heralds = e0.heralds := by
    have : st.1.cw.w.ph = some (e.post, e.heralds) := by simp only [World.ph, st, he, Option.map_some]
    rw [this] at hph
    simp only [Option.some.injEq, Prod.mk.injEq] at hph
    exact hph
  obtain ⟨pl, prim, conv, h1, h2, h3, h4, h5, h6, h7⟩ :=
    job_request_end_to_end_over_history ρ pf thrOnly _ e he smp hsmp method e' j hcreate hd http0 later args kw net
      wire snt hsent
  obtain ⟨h8, h9⟩ := h7 true p e0 id hwf hpid hfl hph'.1 hph'.2
  refine ⟨hwf, pl, prim, conv, h1, h2, h3, h4, h5, h6, h8, h9, ?_⟩
  intro l v hlv
  obtain ⟨jm, hjm, hrl⟩ := local_herald_is_converted true p e0 hwf hfl l v hlv
  refine ⟨jm, ?_, hrl⟩
  have hdh : (decode pl).heralds = e.heralds := by rw [h5]; rfl
  rw [hdh, hph'.2]
  exact hjm

end EndToEnd

/-- the local processor of the witness: a herald inside (mode 1 of 3) and a post-selection (object 5) -/
def e2eLocal : Exp := { heraldInside with post := some ⟨5, []⟩ }

/-- conversion, input, a sampler -/
def e2eOps : List AOp :=
  [.convertPS e2eLocal [.leaf 0 ⟨0, 3⟩] [[0, 2]], .base (.plain (.withInput [1, 0])),
   .base (.plain (.newSampler (.int 100)))]

/-- non-vacuity of both end-to-end statements (no later history; a `200` answer with a job id): the processor, the
sampler, the job, the POST, and the conversion `e` still has the post-selection and the herald of -/
example :
    ∃ e smp e' j id snt, (exec asstep (asinit ⟨none, none, none, none, ["probs"]⟩ false) e2eOps).1.cw.w.exp = some e ∧
      (exec asstep (asinit ⟨none, none, none, none, ["probs"]⟩ false) e2eOps).1.cw.w.sampler = some smp ∧
      createJob (exec asstep (asinit ⟨none, none, none, none, ["probs"]⟩ false) e2eOps).1.cw.w.pf e smp .probs =
        (e', .ok j) ∧
      (exec asstep (asinit ⟨none, none, none, none, ["probs"]⟩ false) e2eOps).1.cw.w.jobs.length = 0 ∧
      (step (exec asstep (asinit ⟨none, none, none, none, ["probs"]⟩ false) e2eOps).1.cw.w
        (.createJob .probs)).1.jobs[0]? = some (j, smp.iterator) ∧
      (rstep (exec rstep ⟨(step (exec asstep (asinit ⟨none, none, none, none, ["probs"]⟩ false) e2eOps).1.cw.w
          (.createJob .probs)).1, rpcWitnessHandler, []⟩ [])
        (.execute 0 [] [] .ok, .answer 200 (.obj (some ['j']) none))).2 = .sent id snt ∧
      e2eLocal.WF ∧ e2eLocal.post = some ⟨5, []⟩ ∧
      ∃ e0, fromLocal true e2eLocal = .ok e0 ∧ e.post = e0.post ∧ e.heralds = e0.heralds ∧ e.heralds = [(2, 1)] :=
  ⟨_, ⟨100, []⟩, _, _, _, _, rfl, rfl, rfl, rfl, rfl, rfl, by decide, rfl, _, rfl, rfl, rfl, rfl⟩


/-- non-vacuity of `converted_job_end_to_end`: `e2eOps` is `[] ++ conversion :: [with_input, Sampler]`, the conversion
succeeds and the two calls after it keep post-selection and heralds (the other hypotheses: the example above) -/
example :
    e2eOps = [] ++ .convertPS e2eLocal [.leaf 0 ⟨0, 3⟩] [[0, 2]] ::
      [Op.withInput [1, 0], Op.newSampler (.int 100)].map (fun op => AOp.base (.plain op)) ∧
    (astep (exec asstep (asinit ⟨none, none, none, none, ["probs"]⟩ false) []).1
      (.convertPS e2eLocal [.leaf 0 ⟨0, 3⟩] [[0, 2]])).2 = .done ∧
    (∀ op ∈ [Op.withInput [1, 0], Op.newSampler (.int 100)], op.touchesPH = false) := by
  refine ⟨rfl, by decide, by decide⟩

/-! ## wave 9: the shot / sample estimators (`Model/C16Est.lean`)

`RemoteProcessor.estimate_required_shots` / `estimate_expected_samples` are where a user gets the `max_shots` /
`max_samples` of a job from.  Their decision layer (`_compute_sample_of_interest_probability` up to the simulation)
is modelled; the simulation itself (a local lossy SLOS run) is not. -/

/-- `estimate_required_shots` answers `None` (and `estimate_expected_samples` answers 0) exactly when a filter is
set and asks, herald photons added, for more photons than the stored input state holds — for ALL processors. -/
theorem estimate_zero_iff_filter_unreachable (e : Exp) :
    interest e = .ok .zero ↔
      ∃ s f, e.input = some s ∧ e.filter = some f ∧ f + (heraldSum e : Nat) > ((s.sum : Nat) : Int) := by
  rw [interest_ok]
  constructor
  · rintro ⟨s, hs, hz⟩
    obtain ⟨f, hf, hgt⟩ := (interestOf_zero _ _ _).mp hz.symm
    exact ⟨s, f, hs, hf, hgt⟩
  · rintro ⟨s, f, hs, hf, hgt⟩
    exact ⟨s, hs, ((interestOf_zero _ _ _).mpr ⟨f, hf, hgt⟩).symm⟩

/-- the photon count the simulated estimate counts from: at least 2, at most the photons of the stored input,
and equal to the filter plus the herald photons (the whole input when no filter is set) -/
theorem estimate_simulated_threshold (e : Exp) (k : Int) (h : interest e = .ok (.simulate k)) :
    ∃ s, e.input = some s ∧ 2 ≤ k ∧ k ≤ ((s.sum : Nat) : Int) ∧
      (∀ f, e.filter = some f → k = f + (heraldSum e : Nat)) ∧ (e.filter = none → k = ((s.sum : Nat) : Int)) := by
  obtain ⟨s, hs, hg⟩ := (interest_ok _ _).mp h
  exact ⟨s, hs, interestOf_simulate _ _ _ _ hg.symm⟩

/-- on the two closed exits the samples expected from `nshots ≥ 0` shots are never above the shots and never
negative (`max_samples ≤ max_shots` for a user who derives one limit from the other), and the two estimators agree:
"no number of shots is enough" (`None`) exactly when "0 samples expected" -/
theorem estimate_closed_exits (e : Exp) (nshots : Int) (h0 : 0 ≤ nshots) :
    (∀ k, expectedSamples e nshots = .ok (.exact k) → 0 ≤ k ∧ k ≤ nshots) ∧
    (requiredShots e nshots = .ok .noneVal ↔ interest e = .ok .zero) ∧
    (interest e = .ok .zero → expectedSamples e nshots = .ok (.exact 0)) ∧
    (interest e = .ok .one → expectedSamples e nshots = .ok (.exact nshots) ∧
      requiredShots e nshots = .ok (.exact nshots)) := by
  unfold expectedSamples requiredShots
  cases hi : interest e with
  | error err => simp [throw, throwThe, MonadExceptOf.throw]
  | ok g =>
    cases g <;> simp [pure, Except.pure]
    all_goals omega

/-- the estimate is about the request that is sent: whenever a payload is produced (input transmitted) and the
estimate simulates, the threshold `k` is the TRANSMITTED filter plus the TRANSMITTED herald photons, and it is
within the photons of the TRANSMITTED input state -/
theorem estimate_counts_what_is_transmitted (pf : Platform) (e : Exp) (cmd : String) (cl : Bool) (kw : Dict V)
    (e' : Exp) (pl : Dict V) (h : preparePayload pf e cmd cl false kw = (e', .ok pl))
    (hkw : ∀ k ∈ fieldKeys, dget kw k = none) (k : Int) (hk : interest e = .ok (.simulate k)) :
    ∃ s f, (decode pl).input = some s ∧ (decode pl).filter = some (.int f) ∧
      k = f + ((((decode pl).heralds.map (·.2)).sum : Nat) : Int) ∧ 2 ≤ k ∧ k ≤ ((s.sum : Nat) : Int) := by
  have hc := payload_complete pf e cmd cl false kw e' pl h hkw
  obtain ⟨s, hs, h2, hle, hkf⟩ := estimate_simulated_threshold e k hk
  have hfs : ∃ f, e.filter = some f := by
    unfold preparePayload at h
    by_cases hcmd : (dget kw "command").isSome
    · simp [hcmd, throw, throwThe, MonadExceptOf.throw] at h
    · cases hf : e.filter with
      | none => simp [hcmd, hf, throw, throwThe, MonadExceptOf.throw] at h
      | some f => exact ⟨f, rfl⟩
  obtain ⟨f, hf⟩ := hfs
  have hne : s ≠ [] := by
    rintro rfl
    simp only [List.sum_nil] at hle; omega
  refine ⟨s, f, ?_, ?_, ?_, h2, hle⟩
  · rw [hc]; simp [configOf, inputField, hs, hne]
  · rw [hc]; simp [configOf, hf, pvOfFilter]
  · rw [hc]; exact hkf.1 f hf

/-- non-vacuity: |1,1,1> with one herald photon inside, filter 1: the estimate simulates from 2 photons; filter 3:
`None`; no filter on |1,0>: probability 1 -/
example :
    interest (Exp.mk 2 3 [(2, 1)] (some [1, 1, 1]) none none (some 1) [] ⟨0, []⟩ []) = .ok (.simulate 2) ∧
    requiredShots (Exp.mk 2 3 [(2, 1)] (some [1, 1, 1]) none none (some 3) [] ⟨0, []⟩ []) 100 = .ok .noneVal ∧
    expectedSamples (Exp.mk 2 2 [] (some [1, 0]) none none none [] ⟨0, []⟩ []) 100 = .ok (.exact 100) := by
  decide


/-! ## what is still NOT proved (validated by the correspondence only)

* the matrix reading (`payload_matrix_is_user_matrix`) takes the OWN matrix of every elementary component from the
  environment `ρ` (what `BS`, `PS`, `PERM`, `Unitary` compute for themselves: C11's subject; how a nested circuit
  multiplies its components: C01's), takes a converted local processor's component list as given (how a local
  processor composes catalog gates: C10's subject) and ignores `simplify()`, which rewrites the PERMs the
  conversion inserts (assumed to keep the matrix; the correspondence compares the matrix actually sent).
  `add` of a circuit is now modelled for every mapping form (`Model/C16Add.lean`); `add` of a PROCESSOR onto a
  remote processor other than the conversion (`add(0, p)` on an empty one), `keep_port=False`, the transfer of the
  local processor's ports by the conversion and herald port names as mapping keys stay C10's.  What the leftover
  routing of a mapped `add` does to heralds / post-selection conditions on modes strictly inside the span is not
  judged (the code as it is).  The post-selection symbol now has a meaning (`Sym.denote`, extension 6): the tree the
  conversion leaves in the remote processor is proved to decide, on relabelled states, what the user's tree decides;
  what stays assumed there: that the CODE uses the mode mapping `relabelOf` (compared per sample with the circuit and
  the heralds actually produced; inside the model the mapping is now pinned down — `relabelling_is_moi_then_heralds`:
  increasing modes of interest then heralds in insertion order, and unique with these facts — and the heralds of the
  converted processor are proved to follow it, `converted_heralds_follow_the_relabelling`), the native `apply_permutation` / `shift_modes` / `merge` / evaluation (exqalibur;
  compared per sample), and conditions reading a mode BEYOND the circuit (the model counts 0 photons there, the
  native does not: outside the domain).  "Deserialising yields the same objects" relies on the real decoders (C15).
* wave 6: `v < c.m` for the values of an accepted mapping is now PROVED (`mapped_add_values_are_component_inputs`;
  it was never a hypothesis of a theorem, only unsaid in "input `v` of the component");
  `job_request_end_to_end_over_history` joins the HTTP document, the decoded configuration, the matrix reading and
  the predicate / herald reading of a conversion in one statement.  In it the link "the circuit SYMBOL in the payload
  stands for the serialisation of the component list the processor held at that moment" is the modelling convention
  of `cstep` (symbol and components change together), not a theorem.  `converted_job_end_to_end` has no hypothesis
  on the processor, but the calls between the conversion and the job are plain calls of the session machine
  (`Op.touchesPH = false`); a mapped `add`, `add_port`, `set_parameters`, `thresholded_output` in between (which keep
  post-selection and heralds too) are covered only by `job_request_end_to_end_over_history`, where "still has the
  post-selection and the heralds of the conversion" is a hypothesis.  A conversion WITHOUT post-selection
  (`.base (.convert …)`) is covered for its heralds by `converted_heralds_follow_the_relabelling` only.  The input
  state of a converted processor follows the same mapping (`converted_input_follows_the_relabelling`) but is not a
  clause of the end-to-end statements.
* the HTTP layer (`Model/C16Rpc.lean`) stops at the request `requests` is asked to send: redirects, environment
  proxies / netrc, TLS, and what the platform does with the document are outside; `execute_sync` / `__call__` are
  modelled up to the creation request (the status / result GETs that follow are not in the model).
* `n_user + n_heralds = n(transmitted state)` for a stored input that a LATER `add_herald` left behind: false in
  general; `window_enforced_up_to_herald_mismatch` states exactly what is enforced then.  Decided to be outside
  the statement (see the section above).
* an iteration is judged against the processor as it was when the iteration was added
  (`sent_iterations_were_checked_in_session`: some prefix of the history), not as it is when the job is
  created or sent: the code does not re-check, so no stronger statement holds.
* wave 9, the shot / sample estimators (`Model/C16Est.lean`): the lossy simulation behind the third exit is not in
  the model (the theorems pin down WHEN it runs and the photon threshold it counts from, not the number it yields —
  the harness compares that number with the exact binomial closed form for photon-counting platforms); Python's
  `round` on floats, `param_values`, a processor without input state and a negative filter are outside.
* the heap machine knows the two objects a request shares with its makers (`_parameters`, the iterator list);
  the iteration dictionaries inside the list and the objects inside them (a `BasicState`, a `NoiseModel` the user
  keeps a handle on) are values in the model.
-/

end PM.C16
