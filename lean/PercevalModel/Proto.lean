/-
  Line protocol shared by all drivers: one JSON request per line on stdin, one JSON reply per
  line on stdout.  Numbers cross the boundary as exact rationals `"num/den"`; complex numbers as
  `[re, im]`.  A request the model rejects is answered `{"err": "<enum>"}` — never defaulted.
-/
import Lean.Data.Json
import PercevalModel.Num.GQ

open Lean

namespace PM.Proto

def parseRat (s : String) : Except String ℚ :=
  match s.splitOn "/" with
  | [n] => match n.trimAscii.toString.toInt? with
    | some k => .ok (k : ℚ)
    | none => .error s!"bad rational {s}"
  | [n, d] => match n.trimAscii.toString.toInt?, d.trimAscii.toString.toNat? with
    | some k, some m => if m = 0 then .error "zero denominator" else .ok (mkRat k m)
    | _, _ => .error s!"bad rational {s}"
  | _ => .error s!"bad rational {s}"

def ratOfJson (j : Json) : Except String ℚ :=
  match j with
  | .str s => parseRat s
  | .num n => if n.exponent = 0 then .ok (n.mantissa : ℚ) else .error "non-integer json number"
  | _ => .error "expected rational"

def gqOfJson (j : Json) : Except String GQ := do
  match j with
  | .arr #[a, b] => return ⟨← ratOfJson a, ← ratOfJson b⟩
  | _ => return ⟨← ratOfJson j, 0⟩

def ratToJson (q : ℚ) : Json := .str (if q.den = 1 then s!"{q.num}" else s!"{q.num}/{q.den}")
def gqToJson (z : GQ) : Json := .arr #[ratToJson z.re, ratToJson z.im]

def natOf (j : Json) (k : String) : Except String ℕ := do (← j.getObjVal? k).getNat?
def intOf (j : Json) (k : String) : Except String ℤ := do (← j.getObjVal? k).getInt?
def strOf (j : Json) (k : String) : Except String String := do (← j.getObjVal? k).getStr?
def boolOf (j : Json) (k : String) : Except String Bool := do (← j.getObjVal? k).getBool?
def arrOf (j : Json) (k : String) : Except String (Array Json) := do (← j.getObjVal? k).getArr?
def natList (j : Json) : Except String (List ℕ) := do
  (← j.getArr?).toList.mapM (·.getNat?)
def intList (j : Json) : Except String (List ℤ) := do
  (← j.getArr?).toList.mapM (·.getInt?)

/-- rows of complex numbers -/
def gqRows (j : Json) : Except String (Array (Array GQ)) := do
  (← j.getArr?).mapM fun r => do (← r.getArr?).mapM gqOfJson

def rowsToJson (rows : Array (Array GQ)) : Json :=
  .arr (rows.map fun r => .arr (r.map gqToJson))

def errJson (e : String) : Json := Json.mkObj [("err", .str e)]

/-- the read–handle–print loop -/
partial def loop (h : IO.FS.Stream) (out : IO.FS.Stream) (handle : Json → Json) : IO Unit := do
  let line ← h.getLine
  if line.isEmpty then return ()
  let reply := match Json.parse line with
    | .ok j => handle j
    | .error e => errJson s!"parse: {e}"
  out.putStrLn reply.compress
  out.flush
  loop h out handle

def run (handle : Json → Json) : IO Unit := do
  loop (← IO.getStdin) (← IO.getStdout) handle

end PM.Proto
