/-
  C03 — the `Simulator` layer (perceval/simulators/simulator.py, _simulator_utils.py) above a strong
  simulation backend: linearity in the input, independent propagation of tagged photon groups,
  statistical mixtures, density matrices.

  The backend (`set_input_state(s); evolve()/prob_distribution()/prob_amplitude(t)`) is external
  to this property (C02): here it *is* `Found/Fock`'s `pamp`/`prob` over `allStates`.

  Numbers.  Amplitudes are kept *un-normalised* (`pamp`, a polynomial in the matrix entries, any
  commutative ring); the documented amplitude divides by `√(∏ s! ∏ t!)`.  A superposition term carries
  the rescaled coefficient `c' = c / √(∏_g ∏ s_g!)` (as in `Found/SimSpec`), so probabilities are
  rational: `|∑ c'ₖ ∏_g pamp|² / ∏_g t_g! / ‖ψ‖²`.

  Tagged states.  `AState` gives, for every mode, the tags of its photons.  The harness maps the empty
  annotation to tag 0 and `_:k` to `k+1`.  Only states whose photons are either all tagged or all
  un-tagged are covered (the native `separate_state` attaches un-tagged photons to the first group
  that accepts them; that rule is outside /repo and is not modelled).
-/
import PercevalModel.Found.SimSpec
import PercevalModel.Found.SM

open Matrix

namespace PM.C03
open PM.Fock PM.Dist PM.SimSpec

variable {R : Type*}

/-! ### tagged Fock states: `separate_state`, `_annot_state_mapping` -/

abbrev AState := List (List ℕ)

/-- occupation numbers (annotations cleared) -/
def occ (st : AState) : Fock := st.map List.length

/-- distinct tags, in order of first occurrence (photon order) -/
def tagsOf (st : AState) : List ℕ := st.flatten.reverse.dedup.reverse

/-- the photons carrying `tag` -/
def groupOf (tag : ℕ) (st : AState) : Fock := st.map (List.count tag)

/-- `BasicState.separate_state(keep_annotations=False)`: one un-annotated state per tag; the vacuum
separates into one vacuum group -/
def separate (st : AState) : List Fock :=
  if tagsOf st = [] then [occ st] else (tagsOf st).map (groupOf · st)

/-- `_annot_state_mapping`: annotation ↦ cleared group (the vacuum is keyed by the empty
annotation, tag 0) -/
def annotMap (st : AState) : List (ℕ × Fock) :=
  if tagsOf st = [] then [(0, occ st)] else (tagsOf st).map fun tg => (tg, groupOf tg st)

/-! ### amplitude level: `evolve`, `_merge_sv`, `prob_amplitude` -/

structure TermR (R : Type*) where
  coef : R
  groups : List Fock

/-- an annotated state vector: per output (the Fock state of every tag, in the order of the tag
universe) its un-normalised amplitude; equal keys add up (`ampGet`), as in a `StateVector` -/
abbrev Amps (R : Type*) := List (List Fock × R)

def ampGet [AddCommMonoid R] (l : Amps R) (k : List Fock) : R :=
  ((l.filter (·.1 == k)).map (·.2)).sum

/-- `backend.evolve()` for one group of indistinguishable photons (times `√(∏s! ∏t!)`) -/
def groupEvolve [CommRing R] {m : ℕ} (U : Matrix (Fin m) (Fin m) R) (s : Fock) : List (Fock × R) :=
  (allStates m s.sum).map fun t => (t, pamp U s t)

/-- `_merge_sv(sv1, sv2)` after `_inject_annotation`: every pair of components, amplitudes
multiplied, photons of the new tag added to the annotated state -/
def mergeSV [Mul R] (a : Amps R) (b : List (Fock × R)) : Amps R :=
  a.flatMap fun x => b.map fun y => (x.1 ++ [y.1], x.2 * y.2)

/-- `_evolve_no_compute`, one basic state of the input: `reslist.pop(0)` then `_merge_sv` with every
further group, left to right -/
def evolveTerm [CommRing R] {m : ℕ} (U : Matrix (Fin m) (Fin m) R) (groups : List Fock) : Amps R :=
  groups.foldl (fun acc s => mergeSV acc (groupEvolve U s)) [([], 1)]

/-- `_evolve_no_compute`: `result_sv += evolved_in_s * probampli` over the terms of the input -/
def evolveCode [CommRing R] {m : ℕ} (U : Matrix (Fin m) (Fin m) R) (terms : List (TermR R)) :
    Amps R :=
  terms.flatMap fun t => (evolveTerm U t.groups).map fun p => (p.1, t.coef * p.2)

/-- `Simulator.prob_amplitude(BasicState, BasicState)` times `√(∏_g s_g! t_g!)`:
vacuum shortcut, equal number of annotations, every input annotation present in the output,
product of the groups' amplitudes (a missing annotation returns 0) -/
def probAmpBS [CommRing R] {m : ℕ} (U : Matrix (Fin m) (Fin m) R) (sin sout : AState) : R :=
  if (occ sin).sum = 0 then (if (occ sout).sum = 0 then 1 else 0)
  else
    let im := annotMap sin
    let om := annotMap sout
    if im.length ≠ om.length then 0
    else (im.map fun p => match om.lookup p.1 with
      | none => 0
      | some t => pamp U p.2 t).prod

/-- `Simulator.prob_amplitude(StateVector, BasicState)`: `result += prob_amplitude(state, out) * pa` -/
def probAmpSV [CommRing R] {m : ℕ} (U : Matrix (Fin m) (Fin m) R) (terms : List (R × AState))
    (sout : AState) : R :=
  (terms.map fun t => probAmpBS U t.2 sout * t.1).sum

/-! ### distribution level: `list_tensor_product(merge_modes=True)`, `probs`, `probability` -/

/-- `_inner_tensor_product`: nested loops over the remaining distributions; a partial product below
the threshold prunes its subtree; the leaf does `res[current_state] += current_prob` -/
def innerTP (θ : ℚ) : List D → Fock → ℚ → D
  | [], cur, p => [(cur, p)]
  | d :: rest, cur, p =>
    d.flatMap fun e => if p * e.2 < θ then [] else innerTP θ rest (fadd e.1 cur) (p * e.2)

/-- `BSDistribution.list_tensor_product(distributions, merge_modes=True, prob_threshold=θ)`; the
resulting dict is read through `Dist.get` (equal keys add up) -/
def listTensor (m : ℕ) (θ : ℚ) : List D → D
  | [] => []
  | [d] => d
  | d₁ :: d₂ :: rest =>
    if (d₁ :: d₂ :: rest).any List.isEmpty then []
    else innerTP θ ((d₁ :: d₂ :: rest).map fun d => d.filter fun e => θ < e.2) (zeros m) 1

/-- `Simulator.probs(BasicState)` without heralds / post-selection: per-group distributions from the
cache, merged, normalised by `post_select_distribution` -/
def probsBS {m : ℕ} (U : Matrix (Fin m) (Fin m) GQ) (st : AState) : D :=
  normalize (listTensor m 0 ((separate st).map (probsFock U)))

/-- pointwise `t - o` when `o ≤ t` -/
def fsub? : Fock → Fock → Option Fock
  | [], [] => some []
  | a :: as, b :: bs => if b ≤ a then (fsub? as bs).map ((a - b) :: ·) else none
  | _, _ => none

/-- `BasicState.partition(sizes)`: all ways to distribute the photons of `t` over groups of the
given sizes -/
def partitions (m : ℕ) : Fock → List ℕ → List (List Fock)
  | t, [] => if t.all (· == 0) then [[]] else []
  | t, n :: ns =>
    (allStates m n).flatMap fun o =>
      match fsub? t o with
      | some r => (partitions m r ns).map (o :: ·)
      | none => []

/-- `Simulator.probability(BasicState, BasicState)` -/
def probabilityBS {m : ℕ} (U : Matrix (Fin m) (Fin m) GQ) (st : AState) (t : Fock) : ℚ :=
  if (occ st).sum = 0 then (if t.sum = 0 then 1 else 0)
  else
    let gs := separate st
    ((partitions m t (gs.map List.sum)).map fun os =>
      (List.zipWith (fun s o => prob U s o) gs os).prod).sum

/-! ### mixtures: `_preprocess_svd`, `_probs_svd_fast`, `_probs_svd_generic` -/

structure Member where
  w : ℚ
  terms : List Term

def termN (t : Term) : ℕ := (t.groups.map List.sum).sum
def photonCounts (ts : List Term) : List ℕ := (ts.map termN).reverse.dedup.reverse

/-- `_split_by_photon_count`: one normalised part per photon number, weighted by its share of the
squared norm -/
def splitByN (mb : Member) : List Member :=
  (photonCounts mb.terms).map fun n =>
    let part := mb.terms.filter (termN · == n)
    { w := mb.w * (svNorm2 part / svNorm2 mb.terms), terms := part }

def needsSplit (mb : Member) : Bool :=
  mb.terms.length != 1 && (photonCounts mb.terms).length != 1

structure Pre where
  kept : List Member
  θ : ℚ
  superposed : Bool

def maxW (start : ℚ) (ms : List Member) : ℚ := (ms.map (·.w)).foldl max start

/-- equality of two keys of the `SVDistribution` dict, as far as it is decided here: two one-component
state vectors on the same annotated basis state whose coefficients differ by a positive real factor
normalise to the same `StateVector` (`c/|c|`), hence are ONE key.  State vectors of several components
are compared by the native floating-point hash/equality: the harness never presents two of them that are
positively proportional, so they are distinct keys here. -/
def sameKey (a b : Member) : Bool :=
  match a.terms, b.terms with
  | [s], [t] => s.groups == t.groups && (s.coef * star t.coef).im == 0 &&
      decide (0 < (s.coef * star t.coef).re)
  | _, _ => false

/-- `d[k] += w` on a dict of state vectors kept as an association list (a missing key is created at the
end); also returns the new value of `d[k]` -/
def partAdd : List Member → Member → List Member × ℚ
  | [], x => ([x], x.w)
  | y :: r, x =>
    if sameKey y x then ({ y with w := y.w + x.w } :: r, y.w + x.w)
    else ((y :: (partAdd r x).1), (partAdd r x).2)

/-- `for k, p in xs: d[k] += p` -/
def partAddAll (d xs : List Member) : List Member := xs.foldl (fun acc x => (partAdd acc x).1) d

/-- `_preprocess_svd` with `min_detected_photons_filter = 0`: relative threshold
`max(min_p, max_p·precision)`, members at or below it are dropped; superpositions of unequal photon numbers
are split, their sectors are accumulated in the dict `to_add` (`to_add[split_sv] += prob`: equal sectors
of two members add up) and then into the trimmed mixture (`trimmed_svd[sv] += p`: a sector that is
already a member adds to that member's weight, `max_p` follows the accumulated value), and the threshold
is applied again.  The members of the input are pairwise distinct keys. -/
def preprocess (prec minp : ℚ) (ms : List Member) : Pre :=
  let maxp := maxW 0 ms
  let θ₁ := max minp (maxp * prec)
  let t₁ := ms.filter (θ₁ < ·.w)
  if t₁.any needsSplit then
    let toAdd := partAddAll [] ((t₁.filter needsSplit).flatMap splitByN)
    let acc := toAdd.foldl (fun (acc : List Member × ℚ) x =>
      ((partAdd acc.1 x).1, max acc.2 (partAdd acc.1 x).2)) (t₁, maxp)
    let θ₂ := max minp (acc.2 * prec)
    let kept := acc.1.filter fun mb => !needsSplit mb && decide (θ₂ < mb.w)
    { kept := kept, θ := θ₂, superposed := kept.any (·.terms.length > 1) }
  else
    { kept := t₁, θ := θ₁, superposed := t₁.any (·.terms.length > 1) }

/-- `∑ᵢ wᵢ · fᵢ(t)` over the entries of a dict of state vectors, `f` = the distribution of a member -/
def mixAt (f : List Term → D) (ms : List Member) (t : Fock) : ℚ :=
  (ms.map fun mb => mb.w * get (f mb.terms) t).sum

/-- `res[k] += v` on a dict kept as an association list without duplicated keys -/
def dictAdd : D → Fock → ℚ → D
  | [], k, v => [(k, v)]
  | (k', v') :: r, k, v => if k' == k then (k', v' + v) :: r else (k', v') :: dictAdd r k v

/-- `for bs, p in d.items(): res[bs] += p * prob0` -/
def accumulate (res : D) (w : ℚ) (d : D) : D :=
  d.foldl (fun r e => dictAdd r e.1 (e.2 * w)) res

/-- the accumulation loop of both paths and the final `res.normalize()` -/
def accumAll (members : List (ℚ × D)) : D :=
  members.foldl (fun r p => accumulate r p.1 p.2) []

/-- the photon groups a Fock member is separated into (tags without photons do not exist) -/
def realGroups (m : ℕ) (gs : List Fock) : List Fock :=
  let g := gs.filter fun s => s.sum ≠ 0
  if g = [] then [zeros m] else g

/-- `_probs_svd_fast`, one member: tensor product of the cached group distributions with the
threshold `p_threshold / (10·prob0)` -/
def memberFast {m : ℕ} (U : Matrix (Fin m) (Fin m) GQ) (θ : ℚ) (mb : Member) : D :=
  match mb.terms with
  | [t] => listTensor m (θ / (10 * mb.w)) ((realGroups m t.groups).map (probsFock U))
  | _ => []

def toTermR (t : Term) : TermR GQ := ⟨t.coef, t.groups⟩

/-- `_probs_svd_generic`, one member: recombined state vector, then `_to_bsd` (squared moduli,
annotations cleared), without the amplitude threshold of `_merge_sv` (see `memberGenericθ`) -/
def memberGeneric {m : ℕ} (U : Matrix (Fin m) (Fin m) GQ) (mb : Member) : D :=
  (gatherAmps (evolveCode U (mb.terms.map toTermR))).map fun p =>
    (flattenTuple m p.1, GQ.normSq p.2 / ((p.1.map prodFact).prod : ℚ) / svNorm2 mb.terms)

/-! The same loop with the amplitude threshold of `_merge_sv` (`abs(pa1·pa2) > √prob_threshold`,
`prob_threshold = p_threshold / (10·|c|²·prob0)`): a component carries, next to its un-normalised
amplitude, the factorial product `∏ s! t!` of the groups merged so far, so that the squared modulus
of the real amplitude is the rational `normSq amp / fact`.  The first group of a term is never
thresholded (`if not sv1: return sv2`); tags absent from a term do not exist in the code. -/

abbrev AmpsF := List (List Fock × GQ × ℚ)

def groupEvolveF {m : ℕ} (U : Matrix (Fin m) (Fin m) GQ) (s : Fock) : List (Fock × GQ × ℚ) :=
  (allStates m s.sum).map fun t => (t, pamp U s t, ((prodFact s * prodFact t : ℕ) : ℚ))

def mergeSVθ (thr : ℚ) (a : AmpsF) (b : List (Fock × GQ × ℚ)) : AmpsF :=
  a.flatMap fun x => b.filterMap fun y =>
    let pa := x.2.1 * y.2.1
    let f := x.2.2 * y.2.2
    if thr < GQ.normSq pa / f then some (x.1 ++ [y.1], pa, f) else none

/-- the same recombination without any threshold: every product of a component of `a` with a component
of `b` -/
def mergeAllF (a : AmpsF) (b : List (Fock × GQ × ℚ)) : AmpsF :=
  a.flatMap fun x => b.map fun y => (x.1 ++ [y.1], x.2.1 * y.2.1, x.2.2 * y.2.2)

/-- squared modulus of the real amplitude of a component -/
def sqF (z : List Fock × GQ × ℚ) : ℚ := GQ.normSq z.2.1 / z.2.2

/-- the test of `_merge_sv`, `abs(pa) > sqrt(prob_threshold)`, on the squared modulus -/
def keepF (thr : ℚ) (z : List Fock × GQ × ℚ) : Bool := decide (thr < sqF z)

def evolveTermθ {m : ℕ} (U : Matrix (Fin m) (Fin m) GQ) (thr : ℚ) (groups : List Fock) : AmpsF :=
  (groups.foldl (fun (acc : AmpsF × Bool) (s : Fock) =>
    if s.sum = 0 then (acc.1.map fun x => (x.1 ++ [s], x.2.1, x.2.2), acc.2)
    else if acc.2 then (mergeSVθ thr acc.1 (groupEvolveF U s), true)
    else (acc.1.flatMap fun x => (groupEvolveF U s).map fun y =>
      (x.1 ++ [y.1], x.2.1 * y.2.1, x.2.2 * y.2.2), true)) ([([], 1, 1)], false)).1

/-- `|c|²` of a term (its coefficient is stored rescaled) -/
def termW (t : Term) : ℚ := GQ.normSq t.coef * ((t.groups.map prodFact).prod : ℚ)

/-- `_probs_svd_generic`, one member, at threshold `θ` -/
def memberGenericθ {m : ℕ} (U : Matrix (Fin m) (Fin m) GQ) (θ : ℚ) (mb : Member) : D :=
  let n2 := svNorm2 mb.terms
  let amps : Amps GQ := mb.terms.flatMap fun t =>
    (evolveTermθ U (θ / (10 * (termW t / n2) * mb.w)) t.groups).map fun x => (x.1, t.coef * x.2.1)
  (gatherAmps amps).map fun p =>
    (flattenTuple m p.1, GQ.normSq p.2 / ((p.1.map prodFact).prod : ℚ) / n2)

/-- `Simulator.probs_svd` (no heralds, no post-selection, no detectors, filter 0) -/
def probsSvd {m : ℕ} (U : Matrix (Fin m) (Fin m) GQ) (prec minp : ℚ) (ms : List Member) : D :=
  let pre := preprocess prec minp ms
  normalize (accumAll (pre.kept.map fun mb =>
    (mb.w, if pre.superposed then memberGenericθ U pre.θ mb else memberFast U pre.θ mb)))

/-- `Simulator.probs(StateVector)`: one term → `probs(BasicState)`, else `_to_bsd(evolve(sv))` -/
def probsSVcode {m : ℕ} (U : Matrix (Fin m) (Fin m) GQ) (terms : List Term) : D :=
  memberGeneric U ⟨1, terms⟩

/-! ### density matrices: `_construct_evolve_operator`, `evolve_density_matrix`,
`probs_density_matrix`.  A density matrix is given sparsely and rescaled,
`ρ'(s,s') = ρ(s,s') / √(s! s'!)`; the result is rescaled likewise,
`out(t,t') = dmOut t t' / √(t! t'!)`. -/

abbrev DM := List ((Fock × Fock) × GQ)

def dmEntry (ρ : DM) (s s' : Fock) : GQ := ((ρ.filter (·.1 == (s, s'))).map (·.2)).sum

/-- `_get_density_matrix_input_list`: basis states with a non-zero diagonal entry -/
def dmInputOk (ρ : DM) (s : Fock) : Bool := dmEntry ρ s s != 0

/-- column `s` of the evolution operator: `evolve(s)` if `s` is in the input list, else empty -/
def dmCol {m : ℕ} (U : Matrix (Fin m) (Fin m) GQ) (ρ : DM) (s t : Fock) : GQ :=
  if dmInputOk ρ s then pamp U s t else 0

/-- `(V ρ V†)(t,t')` -/
def dmOut {m : ℕ} (U : Matrix (Fin m) (Fin m) GQ) (ρ : DM) (t t' : Fock) : GQ :=
  (ρ.map fun e => dmCol U ρ e.1.1 t * e.2 * star (dmCol U ρ e.1.2 t')).sum

/-- `FockBasis(m, n_max)` -/
def fockBasis (m nmax : ℕ) : List Fock := (List.range (nmax + 1)).flatMap (allStates m)

/-- `probs_density_matrix` (filter 0, no post-selection): every basis state with the real diagonal
entry, normalised -/
def probsDM {m : ℕ} (U : Matrix (Fin m) (Fin m) GQ) (ρ : DM) (nmax : ℕ) : D :=
  normalize ((fockBasis m nmax).map fun t => (t, (dmOut U ρ t t).re / (prodFact t : ℚ)))

/-- `extract_upper_triangle`: strict upper triangle plus half the diagonal -/
def upperHalf [CommRing R] {n : ℕ} (half : R) (A : Matrix (Fin n) (Fin n) R) :
    Matrix (Fin n) (Fin n) R :=
  fun i j => if i < j then A i j else if i = j then half * A i j else 0

/-! ### a long-lived `Simulator`: the cache `_evolve` of evolved groups (`_evolve_cache`), and queries that
assemble their answer from it (`_evolve_no_compute`, `_merge_probability_dist`,
`_construct_evolve_operator` → `evolve(fs)` for the populated basis states) -/

section Session
variable {K V A : Type} [DecidableEq K]

/-- `_evolve_cache(input_list)`: what is not cached yet is computed by the backend and stored -/
def cacheFill (compute : K → V) (cache : List (K × V)) (keys : List K) : List (K × V) :=
  keys.foldl (fun c k => match c.lookup k with
    | some _ => c
    | none => (k, compute k) :: c) cache

/-- a query: the cache keys it needs, and how its answer is assembled from the cache -/
structure Query (K V A : Type) where
  keys : List K
  assemble : (K → Option V) → A

/-- one call on the long-lived simulator -/
def sessionStep (compute : K → V) (cache : List (K × V)) (q : Query K V A) : List (K × V) × A :=
  (cacheFill compute cache q.keys, q.assemble fun k => (cacheFill compute cache q.keys).lookup k)

/-- every cached value is the function of its key that the backend computes -/
def CacheOk (compute : K → V) (cache : List (K × V)) : Prop :=
  ∀ k v, cache.lookup k = some v → v = compute k

end Session

end PM.C03
