/-
  C18 — extension of the executable model (`Model/C18.lean`) by the code around the job machine:

  §1  the string forms of the status (`JobStatus.__call__`, `JobStatus.__str__`);
  §2  `Job.name` (getter / setter), `Job.__call__`, and the value the job's relay `_progress_cb`
      hands back to the task together with the task-side test of `check_cancel.cancel_requested`
      — as an extended machine `xstep` over the single-job machine `step` (which is left untouched:
      every extended history projects to a history of `step`, `Lemmas/C18Ext.lean`);
  §3  the `delta_parameters` / `command_param_names` presets with which `Sampler._create_job`
      constructs its LocalJobs;
  §4  the task side of the cancel relay as a CLOSED loop: a cooperative task program (progress
      reports, then a result) that tests `cancel_requested(progress_callback(...))` after every
      report and reacts as the simulators do — `raise RuntimeError("Cancel requested")` (strong
      simulation) or `break` and return what it has (sampling).

  Everything is described AS IT IS in /repo, quirks included (a user callback that returns
  `{'cancel_requested': True}` stops a cooperative task although nobody called `cancel()`, and the job
  then ends SUCCESS with the partial result; a callback that returns a non-None object without `.get`
  makes `cancel_requested` raise AttributeError inside the task).  Core Lean only.
-/
import PercevalModel.Model.C18

namespace PM.C18

/-! ## §1 string forms of the status -/

/-- `RunningStatus.<X>.name`: what `job.status()` (`JobStatus.__call__`) and `str(job.status)`
(`JobStatus.__str__`) both return -/
def St.name : St → String
  | .waiting => "WAITING"
  | .running => "RUNNING"
  | .success => "SUCCESS"
  | .error => "ERROR"
  | .canceled => "CANCELED"

/-- `JobStatus.__call__` -/
def statusCall (s : State) : String := s.status.name
/-- `JobStatus.__str__` -/
def statusStr (s : State) : String := s.status.name

/-! ## §2 `Job.name`, `Job.__call__`, the reply of the relay -/

/-- what a progress callback (the user's, or the job's relay `_progress_cb`) returns -/
inductive Reply
  | none                       -- `None`
  | dict (flag : Option Bool)  -- a dict; `flag` = truthiness of its `'cancel_requested'` entry, if present
  | other                      -- any other object (not None, no `.get`)
  deriving DecidableEq, Repr

/-- `check_cancel.cancel_requested(exec_request)`:
`exec_request is not None and exec_request.get('cancel_requested', False)`, as a truth value;
`none` = the expression raises AttributeError (the object has no `.get`) -/
def cancelRequested : Reply → Option Bool
  | .none => some false
  | .dict f => some (f.getD false)
  | .other => none

/-- what `LocalJob._progress_cb` returns to the task when the user's callback (if it is invoked) returns
`u`; `s` is the job when `_progress_cb` is entered: `if self._cancel_requested: return {'cancel_requested':
True}; if self._user_cb is not None: return self._user_cb(progress, phase); return None` -/
def jobReply (s : State) (u : Reply) : Reply :=
  if s.cancelReq then .dict (some true)
  else match s.userCb with
    | some _ => u
    | none => .none

/-- `Job.name` setter: `if not isinstance(new_name, str): raise TypeError`;
`self._name = new_name if len(new_name) > 0 else "unnamed"`.  `none` = the argument is not a `str`. -/
def setName (cur : String) : Option String → String × Bool
  | none => (cur, false)
  | some s => (if s.length > 0 then s else "unnamed", true)

/-- `Job.__init__`: `self._name = "Job"` -/
def defaultName : String := "Job"

structure XState where
  job : State
  name : String
  deriving DecidableEq, Repr

inductive XEv
  | job (e : Ev)
  | call (c : Call)                 -- `job(*args, **kwargs)`: `Job.__call__`
  | prog (p : Nat) (u : Reply)      -- a progress report; the user's callback, if invoked, returns `u`
  | setName (v : Option String)     -- `job.name = v`
  | getName                         -- `job.name`
  deriving DecidableEq, Repr

inductive XOut
  | job (o : Out)
  | reply (o : Out) (r : Reply) (verdict : Option Bool)
      -- a progress report: the base answer, what the task got back, what `cancel_requested` makes of it
  | nameSet
  | typeError
  | name (s : String)
  | disabled
  deriving DecidableEq, Repr

def xinit (cfg : Cfg) : XState := { job := init cfg, name := defaultName }

def xstep (fixed : Bool) (cfg : Cfg) (x : XState) : XEv → XState × XOut
  | .job e => ({ x with job := (step fixed cfg x.job e).1 }, .job (step fixed cfg x.job e).2)
  | .call c =>
    ({ x with job := (step fixed cfg x.job (.execSync c)).1 }, .job (step fixed cfg x.job (.execSync c)).2)
  | .prog p u =>
    if x.job.phase = .active then
      ({ x with job := (step fixed cfg x.job (.tProgress p)).1 },
        .reply (step fixed cfg x.job (.tProgress p)).2 (jobReply x.job u) (cancelRequested (jobReply x.job u)))
    else (x, .job .disabled)
  | .setName v =>
    if callerEnabled x.job then
      (if (setName x.name v).2 then ({ x with name := (setName x.name v).1 }, .nameSet) else (x, .typeError))
    else (x, .disabled)
  | .getName => if callerEnabled x.job then (x, .name x.name) else (x, .disabled)

/-- the history of the single-job machine inside an extended history -/
def eraseX : List XEv → List Ev
  | [] => []
  | .job e :: w => e :: eraseX w
  | .call c :: w => .execSync c :: eraseX w
  | .prog p _ :: w => .tProgress p :: eraseX w
  | .setName _ :: w => eraseX w
  | .getName :: w => eraseX w

/-- the answers of the single-job machine inside the answers of an extended history -/
def baseOut : XOut → Option Out
  | .job o => some o
  | .reply o _ _ => some o
  | _ => none

/-! ## §3 the presets of `Sampler._create_job` -/

/-- the key `max_shots` (the harness table calls it so) -/
def maxShots : Key := 9

/-- the four combinations of (method asked for, primitive the backend offers) -/
inductive Preset
  | probsNative                       -- probs on a probs backend: no names, nothing preset, no conversion
  | sampleViaProbs (shots : PyVal)    -- samples / sample_count on a probs backend: conversion with
                                      --   mapping = {max_samples: None, max_shots: <Sampler's max_shots>}
  | probsViaSamples (count : Nat)     -- probs on a sampling backend: command = {max_samples: PROBS_SIMU_SAMPLE_COUNT}
  | samplesNative (conv : Bool)       -- samples / sample_count on a sampling backend: command = {max_samples: None}
  deriving DecidableEq, Repr

def Preset.cfg (cb0 : Bool) : Preset → Cfg
  | .probsNative => { paramNames := [], command0 := [], mapping0 := [], hasMap := false, cb0 := cb0 }
  | .sampleViaProbs shots =>
    { paramNames := [], command0 := [], mapping0 := [(maxSamples, none), (maxShots, shots)], hasMap := true, cb0 := cb0 }
  | .probsViaSamples count =>
    { paramNames := [maxSamples], command0 := [(maxSamples, some count)], mapping0 := [], hasMap := true, cb0 := cb0 }
  | .samplesNative conv =>
    { paramNames := [maxSamples], command0 := [(maxSamples, none)], mapping0 := [], hasMap := conv, cb0 := cb0 }

/-- the ways a user passes `max_samples` to a Sampler job -/
inductive How
  | nothing                       -- `job.execute_sync()`
  | pos (a : PyVal)               -- `job.execute_sync(a)`
  | kw (v : PyVal)                -- `job.execute_sync(max_samples=v)`
  | posKw (a v : PyVal)           -- `job.execute_sync(a, max_samples=v)`
  | pos2 (a b : PyVal)            -- `job.execute_sync(a, b)`
  deriving DecidableEq, Repr

def How.call : How → Call
  | .nothing => { args := [], kwargs := [], cbKw := false }
  | .pos a => { args := [a], kwargs := [], cbKw := false }
  | .kw v => { args := [], kwargs := [(maxSamples, v)], cbKw := false }
  | .posKw a v => { args := [a], kwargs := [(maxSamples, v)], cbKw := false }
  | .pos2 a b => { args := [a, b], kwargs := [], cbKw := false }

/-- the routing table of the presets, written out: (command, mapping, exception) after `_handle_params` -/
def Preset.route : Preset → How → Dict × Dict × Option Exc
  | .probsNative, .nothing => ([], [], none)
  | .probsNative, .pos a => ([], [(maxSamples, a)], none)            -- accepted; nobody reads it
  | .probsNative, .kw _ => ([], [], some .unused)
  | .probsNative, .posKw a v =>
    match a with
    | none => ([], [(maxSamples, v)], none)
    | some _ => ([], [(maxSamples, a)], some .unused)
  | .probsNative, .pos2 _ b => ([], [(maxSamples, b)], some .index)
  | .sampleViaProbs sh, .nothing => ([], [(maxSamples, none), (maxShots, sh)], none)
  | .sampleViaProbs sh, .pos a => ([], [(maxSamples, a), (maxShots, sh)], none)
  | .sampleViaProbs sh, .kw v => ([], [(maxSamples, v), (maxShots, sh)], none)
  | .sampleViaProbs sh, .posKw a v =>
    -- the positional value is stored first; the keyword fills the entry only if that value is `None`
    match a with
    | none => ([], [(maxSamples, v), (maxShots, sh)], none)
    | some _ => ([], [(maxSamples, a), (maxShots, sh)], some .unused)
  | .sampleViaProbs sh, .pos2 _ b => ([], [(maxSamples, b), (maxShots, sh)], some .index)
  | .probsViaSamples n, .nothing => ([(maxSamples, some n)], [], none)
  | .probsViaSamples _, .pos a => ([(maxSamples, a)], [], none)      -- overrides the preset count
  | .probsViaSamples n, .kw _ => ([(maxSamples, some n)], [], some .unused)
  | .probsViaSamples n, .posKw _ _ => ([(maxSamples, some n)], [], some .twice)
  | .probsViaSamples _, .pos2 a b => ([(maxSamples, a)], [(maxSamples, b)], none)
  | .samplesNative _, .nothing => ([(maxSamples, none)], [], none)
  | .samplesNative _, .pos a => ([(maxSamples, a)], [], none)
  | .samplesNative _, .kw v => ([(maxSamples, v)], [], none)
  | .samplesNative _, .posKw _ _ => ([(maxSamples, none)], [], some .twice)
  | .samplesNative _, .pos2 a b => ([(maxSamples, a)], [(maxSamples, b)], none)

/-! ## §4 the task side of the cancel relay: a cooperative task in closed loop -/

/-- how the task reacts when `cancel_requested(progress_callback(...))` is true -/
inductive Policy
  | ignore      -- the task never looks at what the callback returns
  | raise       -- `raise RuntimeError("Cancel requested")`   (Simulator.probs_svd, simulate_detectors)
  | stop        -- `break`, return what has been computed     (NoisySamplingSimulator)
  deriving DecidableEq, Repr

structure Prog where
  reports : List Nat
  result : Ret
  partialResult : Ret
  policy : Policy
  deriving DecidableEq, Repr

/-- what the task made of the last value the callback returned -/
inductive Verdict | go | stop | crash
  deriving DecidableEq, Repr

def verdictOf : Policy → Option Bool → Verdict
  | .ignore, _ => .go
  | _, some true => .stop
  | _, some false => .go
  | _, none => .crash

/-- harness tables: class RuntimeError, text "Cancel requested"; class AttributeError, text "'bool' object has
no attribute 'get'" -/
def clsRuntime : Nat := 1
def txtCancelRequested : Nat := 5
def clsAttribute : Nat := 6
def txtNoGet : Nat := 6

structure CState where
  job : State
  todo : List Nat
  seen : Verdict
  deriving DecidableEq, Repr

inductive CEv
  | caller (e : Ev)         -- a caller action (task events are not the environment's to choose here)
  | tick (u : Reply)        -- the task performs ITS next step; if that is a progress report whose user
                            -- callback is invoked, the callback returns `u`
  deriving DecidableEq, Repr

def isCaller : Ev → Bool
  | .execSync _ | .execAsync _ | .statusQuery | .cancel | .getResults => true
  | _ => false

/-- the next step of the cooperative task -/
def nextTaskEv (pr : Prog) (c : CState) : Option Ev :=
  match c.job.phase with
  | .ready => some .tStart
  | .active =>
    match c.seen with
    | .crash => some (.tRaise clsAttribute txtNoGet)
    | .stop =>
      (match pr.policy with
       | .stop => some (.tReturn pr.partialResult)
       | _ => some (.tRaise clsRuntime txtCancelRequested))
    | .go =>
      (match c.todo with
       | p :: _ => some (.tProgress p)
       | [] => some (.tReturn pr.result))
  | _ => none

def cinit (cfg : Cfg) (pr : Prog) : CState := { job := init cfg, todo := pr.reports, seen := .go }

def cstep (fixed : Bool) (cfg : Cfg) (pr : Prog) (c : CState) : CEv → CState × Out
  | .caller e =>
    if isCaller e then ({ c with job := (step fixed cfg c.job e).1 }, (step fixed cfg c.job e).2)
    else (c, .disabled)
  | .tick u =>
    match nextTaskEv pr c with
    | none => (c, .disabled)
    | some (.tProgress p) =>
      ({ job := (step fixed cfg c.job (.tProgress p)).1, todo := c.todo.tail,
         seen := verdictOf pr.policy (cancelRequested (jobReply c.job u)) },
        (step fixed cfg c.job (.tProgress p)).2)
    | some e => ({ c with job := (step fixed cfg c.job e).1 }, (step fixed cfg c.job e).2)

def ticks : List CEv → Nat
  | [] => 0
  | .tick _ :: w => ticks w + 1
  | .caller _ :: w => ticks w

end PM.C18
