/-
  C03 — `Simulator.evolve` / `evolve_svd` at AMPLITUDE level.

  `evolve(ψ)`, `ψ = ∑ₖ cₖ |sₖ⟩`:  `_prepare_decomposed_input` splits every basis state into its tag groups and caches the
  backend's `evolve()` of each; `_evolve_no_compute` recombines them (`_merge_sv`, no threshold) into one annotated
  vector per term and adds `result_sv += evolved_in_s * probampli`; `post_select_statevector` (no selection here)
  normalises the sum.  The native `StateVector` discards a component it is given when its modulus is below
  `global_params['min_complex_component']` (10⁻⁶): the cut is a parameter of the model (`cut2`, squared), and WHICH
  of the components below it are lost is left open (`evolve_cut_bound` holds for every choice).

  Numbers as in Model/C03: amplitudes un-normalised (`pamp`), coefficients rescaled; the documented amplitude of the
  annotated output `k` is `amp / √(∏ t! · ‖ψ‖²)`, its squared modulus `normSq amp · keyScale ‖ψ‖² k`.
-/
import PercevalModel.Model.C03Prec

open Matrix

namespace PM.C03
open PM.Fock PM.Dist PM.SimSpec

/-- the components `result_sv += evolved_in_s * probampli` adds up, term after term, before equal annotated outputs
meet in the `StateVector` -/
def contribs {m : ℕ} (U : Matrix (Fin m) (Fin m) GQ) (terms : List Term) : Amps GQ :=
  evolveCode U (terms.map toTermR)

/-- `Simulator.evolve(ψ)` before the final normalisation: one un-normalised amplitude per annotated output -/
def evolveRaw {m : ℕ} (U : Matrix (Fin m) (Fin m) GQ) (terms : List Term) : Amps GQ :=
  gatherAmps (contribs U terms)

/-- squared norm of that vector (`post_select_statevector` divides by its square root) -/
def outNorm2 {m : ℕ} (U : Matrix (Fin m) (Fin m) GQ) (terms : List Term) : ℚ :=
  ((evolveRaw U terms).map fun p => GQ.normSq p.2 / (((p.1.map prodFact).prod : ℕ) : ℚ)).sum

/-- `a·ψ` and `a·ψ₁ + b·ψ₂` as lists of terms -/
def smulTerms (a : GQ) (ts : List Term) : List Term := ts.map fun t => ⟨a * t.coef, t.groups⟩
def superpose (a : GQ) (ψ₁ : List Term) (b : GQ) (ψ₂ : List Term) : List Term := smulTerms a ψ₁ ++ smulTerms b ψ₂

/-- `_to_bsd(evolve(ψ))` — `Simulator.probs(StateVector)`: squared moduli of the NORMALISED evolved vector,
annotations cleared -/
def probsOfEvolve {m : ℕ} (U : Matrix (Fin m) (Fin m) GQ) (terms : List Term) : D :=
  (evolveRaw U terms).map fun p =>
    (flattenTuple m p.1, GQ.normSq p.2 / (((p.1.map prodFact).prod : ℕ) : ℚ) / outNorm2 U terms)

/-! ### `evolve_svd`: every member evolved on its own, weights kept (`success_prob = p · logical_perf`, no selection:
`logical_perf = 1`), the distribution of vectors normalised at the end -/

structure Evolved where
  w : ℚ
  amps : Amps GQ
  norm2 : ℚ

def evolveSvd {m : ℕ} (U : Matrix (Fin m) (Fin m) GQ) (ms : List Member) : List Evolved :=
  ms.map fun mb => ⟨mb.w, evolveRaw U mb.terms, outNorm2 U mb.terms⟩

/-- the outcome distribution of the mixture `evolve_svd` returns (`new_svd.normalize()` included) -/
def probsOfEvolveSvd {m : ℕ} (U : Matrix (Fin m) (Fin m) GQ) (ms : List Member) : D :=
  normalize (mix (ms.map fun mb => (mb.w, probsOfEvolve U mb.terms)))

/-! ### the native cut -/

/-- a component whose modulus (real scale: input normalised, factorials divided out) is below the cut -/
def smallC (cut2 n2 : ℚ) (x : List Fock × GQ) : Bool := decide (GQ.normSq x.2 * keyScale n2 x.1 < cut2)

/-- `lossAt` on a given list of components -/
def lossOf (cs : Amps GQ) (cut2 n2 : ℚ) (k : List Fock) : ℚ :=
  ((cs.filter fun x => x.1 == k && smallC cut2 n2 x).map fun x => sqrtUp (GQ.normSq x.2 * keyScale n2 k)).sum

/-- the largest change of the (real-scale, input-normalised) amplitude of the annotated output `k` that losing
components below the cut can cause: the sum of their moduli (upper square roots) -/
def lossAt {m : ℕ} (U : Matrix (Fin m) (Fin m) GQ) (cut2 : ℚ) (terms : List Term) (k : List Fock) : ℚ :=
  lossOf (contribs U terms) cut2 (svNorm2 terms) k

end PM.C03
