/-
  C06 — model of the *long-lived* `Processor` around the source (`perceval/components/processor.py`:
  `_noise_changed_observer`, `_input_changed_observer`, `source_distribution`, `_generate_noisy_input`;
  `perceval/components/experiment.py`: the `noise` setter and `with_input`), with the aliasing that
  Python gives: the experiment keeps a *reference* to a mutable `NoiseModel` object.

  Python objects as modelled here
    the `NoiseModel` objects alive in the program   `heap : ℕ → NoiseVal`  (object identity = index)
    `experiment._noise`                             `ref : ℕ`              (a reference, not a copy)
    `processor._source`                             `src : Params`, `tag : ℕ` (its tag counter)
    `experiment._input_state`                       `input : Option Inp`  (a plain `BasicState`, or a CUSTOM
                                                    input: an `SVDistribution` / `StateVector` / polarised
                                                    `BasicState` object of the user, identified by a number)
    `processor._inputs_map`                         `cache : Option Cached` (a generated mixture, or the user's
                                                    own distribution object — the same slot holds both)
  `dirty` is a ghost field (nothing in the code): the held `NoiseModel` object was updated in place
  (`set_value`) and not assigned again since, or its assignment was rejected (see below).  `NoiseModel` has no observer, so in that state the code
  keeps the source built from the old values; the documented way to make new values effective is the
  assignment `processor.noise = nm`, which is what the theorems are about.

  Custom inputs (`with_input(SVDistribution | StateVector)`, `with_polarized_input` — `_has_custom_input`)
  bypass the source: the user's object is stored in `_inputs_map` as it is and survives noise assignments;
  `clear_input_and_circuit` empties both slots.  Heralds only change which `BasicState` reaches
  `_input_changed_observer` (the harness merges them into `ns`).

  A REJECTED assignment (`processor.noise = nm` with values `Source.__init__` asserts against: brightness `0`,
  or `brightness * g2 > 1/2` — `NoiseModel` itself validates each field on its own only): the setter of
  `Experiment.noise` has already stored the reference (and the phase noise) when `_noise_changed_observer`
  calls `Source.from_noise_model`, which raises before `_source`, `_inputs_map` or `_previous_noise` are touched.
  The exception reaches the caller, the processor stays usable: `processor.noise` reports the rejected object
  while the source and a cached distribution are those of the values accepted last.  In the model: `ref := id`,
  everything else unchanged, ghost flag `dirty := true` (the held object's values are not those of the source; the
  next accepted assignment ends that state).

  Not modelled: the content of a custom distribution (an opaque identity); a `Processor(...)` constructor call
  that raises (there is no processor then).
-/
import PercevalModel.Model.C06
import PercevalModel.Found.SM

namespace PM.C06

/-- the fields of a `NoiseModel` object read by `Source.from_noise_model` (plus the two roots, as in
`Params`) -/
structure NoiseVal where
  brightness : ℚ
  g2 : ℚ
  q : ℚ
  ind : ℚ
  r : ℚ
  transmittance : ℚ
  g2dist : Bool

/-- `Source.from_noise_model(noise)` -/
def NoiseVal.params (v : NoiseVal) : Params :=
  ofNoise v.brightness v.g2 v.q v.ind v.r v.transmittance v.g2dist

/-- does `Source.from_noise_model` succeed on these values?  (the asserts of `Source.__init__`,
`Params.admissible`; `NoiseModel` validates each field on its own only, so an object can hold brightness `0` or
`brightness * g2 > 1/2`) -/
def NoiseVal.admissible (v : NoiseVal) : Bool := v.params.admissible

/-- the tag counter after `generate_distribution(expected_input)` -/
def tagAfterGen (P : Params) : List ℕ → ℕ → ℕ
  | [], t => t
  | n :: ns, t => tagAfterGen P ns (probDistTag P n t)

/-- `experiment._input_state`: a plain Fock state (the source is applied to it) or a custom input (the
source is bypassed); `c` is the identity of the user's object -/
inductive Inp where
  | fock (ns : List ℕ)
  | custom (c : ℕ)
deriving DecidableEq

/-- what `processor._inputs_map` holds / `source_distribution` returns -/
inductive Cached where
  | gen (d : Dist State)
  | custom (c : ℕ)

structure Proc where
  heap : ℕ → NoiseVal
  ref : ℕ
  src : Params
  tag : ℕ
  input : Option Inp
  cache : Option Cached
  dirty : Bool

inductive ProcOp where
  /-- `set_value` calls on the `NoiseModel` object `id` (held by the processor or not) -/
  | mutate (id : ℕ) (v : NoiseVal)
  /-- `processor.noise = <object id>` (also `processor.experiment.noise = …`) -/
  | assign (id : ℕ)
  /-- `processor.with_input(BasicState(ns))` -/
  | input (ns : List ℕ)
  /-- `processor.with_input(SVDistribution | StateVector)` / `processor.with_polarized_input(bs)` with the
  user's object `c` -/
  | custom (c : ℕ)
  /-- `processor.clear_input_and_circuit()` -/
  | clear
  /-- `processor.source_distribution` -/
  | read
  /-- `processor.source.generate_distribution(BasicState(ns), thr)`: a direct use of the source object -/
  | useSource (ns : List ℕ) (thr : ℚ)
  /-- operations that touch neither noise nor input (`min_detected_photons_filter`, …) -/
  | other

/-- `Processor.__init__` with the `NoiseModel` object `ref` (admissible — otherwise the constructor raises and there
is no processor): `_noise_changed_observer()` builds the source, `_input_changed_observer()` finds no input. -/
def Proc.init (heap : ℕ → NoiseVal) (ref : ℕ) : Proc :=
  { heap := heap, ref := ref, src := (heap ref).params, tag := 0, input := none, cache := none,
    dirty := false }

/-- `_generate_noisy_input`: `self._inputs_map = self._source.generate_distribution(self.input_state)` -/
def Proc.fill (s : Proc) (ns : List ℕ) : Proc :=
  { s with cache := some (.gen (generate s.src 0 ns s.tag)), tag := tagAfterGen s.src ns s.tag }

/-- `_has_custom_input` -/
def Proc.hasCustomInput (s : Proc) : Bool :=
  match s.input with
  | some (.custom _) => true
  | _ => false

def procStep (s : Proc) : ProcOp → Proc × Option Cached
  | .mutate id v =>
    -- no observer fires; every alias of the object sees the new values
    ({ s with heap := fun i => if i = id then v else s.heap i, dirty := s.dirty || decide (id = s.ref) },
      none)
  | .assign id =>
    -- `Experiment.noise.setter` stores the reference and calls `_noise_changed_observer`:
    --   `self._source = Source.from_noise_model(self.noise)`;
    --   `if not self._has_custom_input: self._inputs_map = None`
    if (s.heap id).admissible then
      ({ s with ref := id, src := (s.heap id).params, tag := 0,
                cache := if s.hasCustomInput then s.cache else none, dirty := false }, none)
    else
      -- `self._noise = nm` is done, then `Source(...)` raises inside the observer: nothing else is assigned
      ({ s with ref := id, dirty := true }, none)
  | .input ns =>
    -- `_input_changed_observer` → `_generate_noisy_input()` (eagerly)
    (({ s with input := some (.fock ns) }).fill ns, none)
  | .custom c =>
    -- `_input_changed_observer`: `self._inputs_map = self.input_state` (resp. `SVDistribution(bs)`)
    ({ s with input := some (.custom c), cache := some (.custom c) }, none)
  | .clear =>
    -- `experiment._input_state = None` (the input observer does nothing), then `self._inputs_map = None`
    ({ s with input := none, cache := none }, none)
  | .read =>
    match s.cache, s.input with
    | some d, _ => (s, some d)
    | none, some (.fock ns) => (s.fill ns, some (.gen (generate s.src 0 ns s.tag)))
    -- a custom input without its cached object: `_generate_noisy_input` would hand the custom object to the
    -- source; `Proc.Inv.customKept` shows that no history reaches this state
    | none, some (.custom _) => (s, none)
    | none, none => (s, none)
  | .useSource ns thr =>
    ({ s with tag := tagAfterGen s.src ns s.tag }, some (.gen (generate s.src thr ns s.tag)))
  | .other => (s, none)

/-- the state of the processor after a history -/
def procAfter (heap : ℕ → NoiseVal) (ref : ℕ) (ops : List ProcOp) : Proc :=
  SM.exec procStep (Proc.init heap ref) ops

/-- what `processor.source_distribution` returns in a state -/
def Proc.sourceDistribution (s : Proc) : Option Cached := (procStep s .read).2

/-- the invariant behind history-independence -/
structure Proc.Inv (s : Proc) : Prop where
  /-- unless the held object was updated in place and not re-assigned, the source is the one
  `from_noise_model` builds from the *current* values of the held object -/
  synced : s.dirty = false → s.src = (s.heap s.ref).params
  /-- a cached GENERATED distribution was generated by the current source for the current input, which is a
  plain Fock state -/
  cached : ∀ d, s.cache = some (.gen d) → ∃ ns t, s.input = some (.fock ns) ∧ d = generate s.src 0 ns t
  /-- a cached custom object is the current input -/
  customCached : ∀ c, s.cache = some (.custom c) → s.input = some (.custom c)
  /-- a custom input is always in the cache (the source is never asked about it) -/
  customKept : ∀ c, s.input = some (.custom c) → s.cache = some (.custom c)

end PM.C06
