/-
  C15 — feed-forward circuit providers (`FFCircuitProvider`): the size bookkeeping of the object and
  the order in which its writer / reader touch it.  Core Lean only.

  `perceval/components/feed_forward_configurator.py`
    * `__init__`            : `_max_circuit_size = default_circuit.m`, `_blocked_circuit_size = False`, `_map = {}`
    * `add_configuration`   : not blocked → `_max = max(_max, circuit.m)`; blocked → `RuntimeError` unless
                              `circuit.m == _max`; then `_map[state] = circuit` (a dict assignment: an existing
                              key keeps its place, a new key is appended)
    * `block_circuit_size`  : sets the flag (`Experiment.add` calls it)
  `perceval/serialization/_circuit_serialization.py`  (`ComponentSerializer._serialize(FFCircuitProvider)`)
    writes name, offset, the flag, the default circuit and the map `str(state) → circuit`; the maximal size is
    NOT written.  A protobuf map has no order: the reader may meet the entries in any order.
  `perceval/serialization/_component_deserialization.py`  (`deserialize_ff_circuit_provider`)
    constructor, then `add_configuration` for every entry, and only then the flag.

  The payloads (circuits or experiments) are abstract: type `α` with `size : α → Nat`; their own codec
  `enc`/`dec` is the one of `Model/C15.lean` (a hypothesis here).  Keys are abstract (`κ`, decidable equality).
-/
namespace PM.C15.FF

variable {κ α β : Type} [DecidableEq κ]

/-- `FFCircuitProvider` -/
structure Prov (κ α : Type) where
  m : Nat
  offset : Int
  name : String
  default : α
  maxSize : Nat
  blocked : Bool
  map : List (κ × α)

inductive Op (κ α : Type) where
  | add (k : κ) (c : α)
  | block

/-- `d[k] = c` on an insertion-ordered dict -/
def assign (k : κ) (c : α) : List (κ × α) → List (κ × α)
  | [] => [(k, c)]
  | (k', c') :: t => if k' = k then (k, c) :: t else (k', c') :: assign k c t

def keys (l : List (κ × α)) : List κ := l.map Prod.fst

/-- the constructor; `name or None` followed by `DEFAULT_NAME` is applied by the reader, not here -/
def Prov.new (size : α → Nat) (m : Nat) (offset : Int) (name : String) (d : α) : Prov κ α :=
  ⟨m, offset, name, d, size d, false, []⟩

/-- one call on the object; `none` = `RuntimeError("Circuit size mismatch …")` -/
def step (size : α → Nat) (p : Prov κ α) : Op κ α → Option (Prov κ α)
  | .block => some { p with blocked := true }
  | .add k c =>
    if p.blocked then
      if size c = p.maxSize then some { p with map := assign k c p.map } else none
    else some { p with maxSize := max p.maxSize (size c), map := assign k c p.map }

/-- a history of calls; stops at the first one that raises -/
def runOps (size : α → Nat) : Prov κ α → List (Op κ α) → Option (Prov κ α)
  | p, [] => some p
  | p, o :: t => (step size p o).bind (fun p' => runOps size p' t)

/-- the keys a history adds, in order -/
def addKeys : List (Op κ α) → List κ
  | [] => []
  | .add k _ :: t => k :: addKeys t
  | .block :: t => addKeys t

/-- the message (`pb.FFCircuitProvider`); `configs` in the order the reader will meet them -/
structure PbProv (κ β : Type) where
  name : String
  offset : Int
  block : Bool
  default : β
  configs : List (κ × β)

/-- the writer, for one particular order `wire` of the map entries -/
def encProv (enc : α → β) (p : Prov κ α) (wire : List (κ × α)) : PbProv κ β :=
  ⟨p.name, p.offset, p.blocked, enc p.default, wire.map (fun e => (e.1, enc e.2))⟩

/-- the entries of the message, decoded and added one by one -/
def readAll (dec : β → Option α) (size : α → Nat) : Prov κ α → List (κ × β) → Option (Prov κ α)
  | p, [] => some p
  | p, (k, b) :: t => (dec b).bind (fun c => (step size p (.add k c)).bind (fun p' => readAll dec size p' t))

/-- the reader.  `blockFirst = false` is the code (flag restored after the entries);
`blockFirst = true` is the variant that restores the flag right after the constructor. -/
def decProv (dec : β → Option α) (size : α → Nat) (blockFirst : Bool) (m : Nat) (w : PbProv κ β) :
    Option (Prov κ α) :=
  (dec w.default).bind fun d =>
    let p0 : Prov κ α := Prov.new size m w.offset (if w.name = "" then "FFC" else w.name) d
    let p1 : Prov κ α := if blockFirst && w.block then { p0 with blocked := true } else p0
    (readAll dec size p1 w.configs).map fun p => if w.block then { p with blocked := true } else p

/-- `M` is the largest size among the default circuit and the configured ones -/
def IsMax (size : α → Nat) (d : α) (l : List (κ × α)) (M : Nat) : Prop :=
  size d ≤ M ∧ (∀ e ∈ l, size e.2 ≤ M) ∧ (M = size d ∨ ∃ e ∈ l, size e.2 = M)

/-- what every history without a re-assigned key guarantees -/
structure Good (size : α → Nat) (p : Prov κ α) : Prop where
  isMax : IsMax size p.default p.map p.maxSize
  nodup : (keys p.map).Nodup

/-- same object up to the order of the dict -/
structure Equiv (p q : Prov κ α) : Prop where
  m : p.m = q.m
  offset : p.offset = q.offset
  name : p.name = q.name
  default : p.default = q.default
  maxSize : p.maxSize = q.maxSize
  blocked : p.blocked = q.blocked
  map : p.map.Perm q.map

/-! ### any history (re-assigned keys included) -/

/-- the largest size among the default circuit and the configured ones: what the reader recomputes, because
`_max_circuit_size` is not written -/
def trueMax (size : α → Nat) (d : α) (l : List (κ × α)) : Nat :=
  l.foldl (fun M e => max M (size e.2)) (size d)

/-- what EVERY history of calls keeps (a key may be re-assigned): the dict has distinct keys and the stored
maximal size is an upper bound — not necessarily attained any more -/
structure Inv (size : α → Nat) (p : Prov κ α) : Prop where
  nodup : (keys p.map).Nodup
  defLe : size p.default ≤ p.maxSize
  mapLe : ∀ e ∈ p.map, size e.2 ≤ p.maxSize

/-- `config_modes(self_modes)` of `AFFConfigurator`: the modes the configured circuit is placed on, as
(first mode, number of modes); `last` / `first` are `self_modes[-1]` / `self_modes[0]`.  The simulator and the
renderer place the configured circuit at the first of these modes. -/
def configModes (offset : Int) (maxSize : Nat) (first last : Int) : Int × Nat :=
  if 0 ≤ offset then (last + 1 + offset, maxSize) else (first + offset - maxSize + 1, maxSize)

end PM.C15.FF

/-
  C15 — feed-forward configurators (`FFConfigurator`): a controlled circuit with variables and tables
  `variable name → value`, one default table and one per measured state.

  `perceval/components/feed_forward_configurator.py`
    * `__init__` : `_linked_vars = controlled.vars` (a dict name → Parameter of every NON-FIXED parameter, i.e.
                   every variable, with or without a value); `_check_configuration(default_config)`;
                   `default_circuit = controlled.copy(); default_circuit.assign(default_config)`.
                   `copy()` re-creates every parameter as `Parameter(name, value, …)`: a variable that holds a
                   value becomes a FIXED parameter of the copy, so it is not among `copy.vars`, and
                   `assign` (`vs[k].set_value(v)` for every entry) raises `KeyError(k)` for it.
    * `_check_configuration(config)` : `len(config) != len(_linked_vars)` → `ValueError`; then the first name
                   (dict order) that is not a linked variable → `NameError`.
    * `add_configuration(state, config)` : `state.m != self.m` → `ValueError`; `_check_configuration`;
                   `_configs[state] = config` (dict assignment).
    * `configure(state)` : unmapped → the default circuit; mapped → `controlled.copy()` + `assign(table)`.
  `_circuit_serialization.py` (`_serialize(FFConfigurator)`): name, offset, flag, `serialize_circuit(controlled)`,
    `default_config` and `configs[str(state)]` as `VariableValues` = `map<string, float>`: every value is
    converted to a 32-bit float (`rnd`).  A protobuf map has no order — neither the states nor the names in a table.
  `_component_deserialization.py` (`deserialize_ff_configurator`): the constructor on the decoded circuit with
    `name or None` (→ `DEFAULT_NAME = "FFC"`), `add_configuration` per entry, then the flag.

  Abstract: the controlled circuit (`γ`, interface `Ctl`: names of `vars` and of `copy().vars`), its codec,
  the keys (`κ` with `ksize` = number of modes of the state), the values (`V` with `rnd : V → V`; the driver
  and `Lemmas/C15F32.lean` instantiate `V = Rat`, `rnd = F32.f32`).  Not modelled: the value-range check of
  `Parameter.set_value` inside `assign` (phases are periodic: any finite value is accepted).
-/
namespace PM.C15.FFC

open PM.C15.FF (assign keys)

variable {κ γ δ V : Type} [DecidableEq κ]

/-- a dict `name → value`, in insertion order -/
abbrev Table (V : Type) := List (String × V)

def names (t : Table V) : List String := t.map Prod.fst

/-- which exception -/
inductive Err where
  | count                 -- `ValueError("Wrong parameter count …")`
  | name (n : String)     -- `NameError("Parameter n does not exist in the controlled circuit")`
  | key (n : String)      -- `KeyError(n)` from `assign`
  | size                  -- `ValueError("Wrong size for detections …")`
  | codec                 -- the controlled circuit cannot be read
  deriving DecidableEq, Repr

/-- what the object needs to know about its controlled circuit -/
structure Ctl (γ : Type) where
  /-- names of `circuit.vars`: every variable, holding a value or not -/
  vars : γ → List String
  /-- names of `circuit.copy().vars`: the variables that do not hold a value -/
  free : γ → List String

/-- `FFConfigurator` -/
structure Cfgr (κ γ V : Type) where
  m : Nat
  offset : Int
  name : String
  ctrl : γ
  linked : List String
  defaultConfig : Table V
  configs : List (κ × Table V)
  blocked : Bool

inductive Op (κ V : Type) where
  | add (k : κ) (t : Table V)
  | block

/-- `_check_configuration` -/
def checkConfig (linked : List String) (t : Table V) : Except Err Unit :=
  if t.length ≠ linked.length then .error .count
  else match (names t).find? (fun n => !linked.contains n) with
    | some n => .error (.name n)
    | none => .ok ()

/-- `circuit.copy().assign(table)`: the first name that is not a variable of the copy raises `KeyError` -/
def assignAll (free : List String) (t : Table V) : Except Err Unit :=
  match (names t).find? (fun n => !free.contains n) with
  | some n => .error (.key n)
  | none => .ok ()

/-- the constructor -/
def Cfgr.new (I : Ctl γ) (m : Nat) (offset : Int) (name : String) (c : γ) (t : Table V) :
    Except Err (Cfgr κ γ V) :=
  (checkConfig (I.vars c) t).bind fun _ =>
  (assignAll (I.free c) t).bind fun _ =>
  .ok ⟨m, offset, name, c, I.vars c, t, [], false⟩

/-- one call on the object -/
def step (ksize : κ → Nat) (x : Cfgr κ γ V) : Op κ V → Except Err (Cfgr κ γ V)
  | .block => .ok { x with blocked := true }
  | .add k t =>
    if ksize k ≠ x.m then .error .size
    else (checkConfig x.linked t).bind fun _ => .ok { x with configs := assign k t x.configs }

/-- a history of calls; stops at the first one that raises -/
def runOps (ksize : κ → Nat) : Cfgr κ γ V → List (Op κ V) → Except Err (Cfgr κ γ V)
  | x, [] => .ok x
  | x, o :: t => (step ksize x o).bind fun x' => runOps ksize x' t

/-- `configure(state)` as far as raising is concerned: an unmapped state returns the default circuit built
by the constructor; a mapped one copies the controlled circuit and assigns the table -/
def configureOk (I : Ctl γ) (x : Cfgr κ γ V) (k : κ) : Except Err Unit :=
  match x.configs.find? (fun e => e.1 = k) with
  | none => .ok ()
  | some e => assignAll (I.free x.ctrl) e.2

def mapT (f : V → V) (t : Table V) : Table V := t.map fun e => (e.1, f e.2)
def mapC (f : V → V) (l : List (κ × Table V)) : List (κ × Table V) := l.map fun e => (e.1, mapT f e.2)

/-- the message (`pb.FFConfigurator`); the tables in the order the reader will meet their entries -/
structure PbCfgr (κ δ V : Type) where
  name : String
  offset : Int
  block : Bool
  ctrl : δ
  defaultConfig : Table V
  configs : List (κ × Table V)

/-- the writer, for one particular order `wd` of the default table and `wc` of the states and of the names in
every table; every value becomes a 32-bit float (`rnd`) -/
def encCfgr (enc : γ → δ) (rnd : V → V) (x : Cfgr κ γ V) (wd : Table V) (wc : List (κ × Table V)) :
    PbCfgr κ δ V :=
  ⟨x.name, x.offset, x.blocked, enc x.ctrl, mapT rnd wd, mapC rnd wc⟩

/-- the entries of the message, added one by one -/
def readAll (ksize : κ → Nat) : Cfgr κ γ V → List (κ × Table V) → Except Err (Cfgr κ γ V)
  | x, [] => .ok x
  | x, (k, t) :: rest => (step ksize x (.add k t)).bind fun x' => readAll ksize x' rest

/-- the reader -/
def decCfgr (I : Ctl γ) (dec : δ → Option γ) (ksize : κ → Nat) (m : Nat) (w : PbCfgr κ δ V) :
    Except Err (Cfgr κ γ V) :=
  match dec w.ctrl with
  | none => .error .codec
  | some c =>
    (Cfgr.new I m w.offset (if w.name = "" then "FFC" else w.name) c w.defaultConfig).bind fun x0 =>
    (readAll ksize x0 w.configs).bind fun x1 =>
    .ok (if w.block then { x1 with blocked := true } else x1)

/-- same states in the same order, every table up to the order of its entries -/
def TablesMatch : List (κ × Table V) → List (κ × Table V) → Prop
  | [], [] => True
  | e :: a, f :: b => e.1 = f.1 ∧ e.2.Perm f.2 ∧ TablesMatch a b
  | _, _ => False

/-- one wire order of the dict of tables: the states permuted, and the entries of every table permuted -/
def CfgPerm (a b : List (κ × Table V)) : Prop :=
  ∃ l : List (κ × Table V), l.Perm b ∧ TablesMatch a l

/-- what the constructor and `add_configuration` establish and no later call (nor a `set_value` on a
variable) breaks: dicts have distinct keys; every table passed `_check_configuration`; every state has `m` modes -/
structure Valid (ksize : κ → Nat) (x : Cfgr κ γ V) : Prop where
  keysNodup : (keys x.configs).Nodup
  defNames : (names x.defaultConfig).Nodup
  cfgNames : ∀ e ∈ x.configs, (names e.2).Nodup
  defOk : checkConfig x.linked x.defaultConfig = .ok ()
  cfgOk : ∀ e ∈ x.configs, checkConfig x.linked e.2 = .ok () ∧ ksize e.1 = x.m

/-- same object up to the order of its dicts -/
structure Equiv (x y : Cfgr κ γ V) : Prop where
  m : x.m = y.m
  offset : x.offset = y.offset
  name : x.name = y.name
  ctrl : x.ctrl = y.ctrl
  linked : x.linked.Perm y.linked
  blocked : x.blocked = y.blocked
  defaultConfig : x.defaultConfig.Perm y.defaultConfig
  configs : CfgPerm x.configs y.configs

/-- what the round trip is expected to return: the decoded circuit `c'` and its variables, the default-name
rule, and every table value passed through `rnd` -/
def expected (I : Ctl γ) (rnd : V → V) (x : Cfgr κ γ V) (c' : γ) : Cfgr κ γ V :=
  { x with name := if x.name = "" then "FFC" else x.name, ctrl := c', linked := I.vars c',
           defaultConfig := mapT rnd x.defaultConfig, configs := mapC rnd x.configs }

/-- every value in the tables of the object -/
def AllValues (P : V → Prop) (x : Cfgr κ γ V) : Prop :=
  (∀ e ∈ x.defaultConfig, P e.2) ∧ ∀ c ∈ x.configs, ∀ e ∈ c.2, P e.2

/-! ### the concrete controlled circuit of the driver and of the `KeyError` witness -/

/-- a controlled circuit reduced to its variables: (name, value it holds or `none`) -/
abbrev VarList (V : Type) := List (String × Option V)

def varCtl : Ctl (VarList V) where
  vars c := c.map Prod.fst
  free c := (c.filter fun e => e.2.isNone).map Prod.fst

/-- `parameter.set_value(v)` on the variable `n` of the controlled circuit (the object shares the Parameter) -/
def setValue (n : String) (v : Option V) (c : VarList V) : VarList V :=
  c.map fun e => if e.1 = n then (e.1, v) else e

end PM.C15.FFC
