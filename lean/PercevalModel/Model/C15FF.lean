/-
  C15 — feed-forward circuit providers (`FFCircuitProvider`): the size bookkeeping of the object and
  the order in which its writer / reader touch it.  Core Lean only.

  `perceval/components/feed_forward_configurator.py`
    * `__init__`            : `_max_circuit_size = default_circuit.m`, `_blocked_circuit_size = False`, `_map = {}`
    * `add_configuration`   : not blocked → `_max = max(_max, circuit.m)`; blocked → `RuntimeError` unless
                              `circuit.m == _max`; then `_map[state] = circuit` (a dict assignment: an existing
                              key keeps its place, a new key is appended)
    * `block_circuit_size`  : sets the flag (`Experiment.add` calls it)
  `perceval/serialization/_circuit_serialization.py`  (`ComponentSerializer._serialize(FFCircuitProvider)`)
    writes name, offset, the flag, the default circuit and the map `str(state) → circuit`; the maximal size is
    NOT written.  A protobuf map has no order: the reader may meet the entries in any order.
  `perceval/serialization/_component_deserialization.py`  (`deserialize_ff_circuit_provider`)
    constructor, then `add_configuration` for every entry, and only then the flag.

  The payloads (circuits or experiments) are abstract: type `α` with `size : α → Nat`; their own codec
  `enc`/`dec` is the one of `Model/C15.lean` (a hypothesis here).  Keys are abstract (`κ`, decidable equality).
-/
namespace PM.C15.FF

variable {κ α β : Type} [DecidableEq κ]

/-- `FFCircuitProvider` -/
structure Prov (κ α : Type) where
  m : Nat
  offset : Int
  name : String
  default : α
  maxSize : Nat
  blocked : Bool
  map : List (κ × α)

inductive Op (κ α : Type) where
  | add (k : κ) (c : α)
  | block

/-- `d[k] = c` on an insertion-ordered dict -/
def assign (k : κ) (c : α) : List (κ × α) → List (κ × α)
  | [] => [(k, c)]
  | (k', c') :: t => if k' = k then (k, c) :: t else (k', c') :: assign k c t

def keys (l : List (κ × α)) : List κ := l.map Prod.fst

/-- the constructor; `name or None` followed by `DEFAULT_NAME` is applied by the reader, not here -/
def Prov.new (size : α → Nat) (m : Nat) (offset : Int) (name : String) (d : α) : Prov κ α :=
  ⟨m, offset, name, d, size d, false, []⟩

/-- one call on the object; `none` = `RuntimeError("Circuit size mismatch …")` -/
def step (size : α → Nat) (p : Prov κ α) : Op κ α → Option (Prov κ α)
  | .block => some { p with blocked := true }
  | .add k c =>
    if p.blocked then
      if size c = p.maxSize then some { p with map := assign k c p.map } else none
    else some { p with maxSize := max p.maxSize (size c), map := assign k c p.map }

/-- a history of calls; stops at the first one that raises -/
def runOps (size : α → Nat) : Prov κ α → List (Op κ α) → Option (Prov κ α)
  | p, [] => some p
  | p, o :: t => (step size p o).bind (fun p' => runOps size p' t)

/-- the keys a history adds, in order -/
def addKeys : List (Op κ α) → List κ
  | [] => []
  | .add k _ :: t => k :: addKeys t
  | .block :: t => addKeys t

/-- the message (`pb.FFCircuitProvider`); `configs` in the order the reader will meet them -/
structure PbProv (κ β : Type) where
  name : String
  offset : Int
  block : Bool
  default : β
  configs : List (κ × β)

/-- the writer, for one particular order `wire` of the map entries -/
def encProv (enc : α → β) (p : Prov κ α) (wire : List (κ × α)) : PbProv κ β :=
  ⟨p.name, p.offset, p.blocked, enc p.default, wire.map (fun e => (e.1, enc e.2))⟩

/-- the entries of the message, decoded and added one by one -/
def readAll (dec : β → Option α) (size : α → Nat) : Prov κ α → List (κ × β) → Option (Prov κ α)
  | p, [] => some p
  | p, (k, b) :: t => (dec b).bind (fun c => (step size p (.add k c)).bind (fun p' => readAll dec size p' t))

/-- the reader.  `blockFirst = false` is the code (flag restored after the entries);
`blockFirst = true` is the variant that restores the flag right after the constructor. -/
def decProv (dec : β → Option α) (size : α → Nat) (blockFirst : Bool) (m : Nat) (w : PbProv κ β) :
    Option (Prov κ α) :=
  (dec w.default).bind fun d =>
    let p0 : Prov κ α := Prov.new size m w.offset (if w.name = "" then "FFC" else w.name) d
    let p1 : Prov κ α := if blockFirst && w.block then { p0 with blocked := true } else p0
    (readAll dec size p1 w.configs).map fun p => if w.block then { p with blocked := true } else p

/-- `M` is the largest size among the default circuit and the configured ones -/
def IsMax (size : α → Nat) (d : α) (l : List (κ × α)) (M : Nat) : Prop :=
  size d ≤ M ∧ (∀ e ∈ l, size e.2 ≤ M) ∧ (M = size d ∨ ∃ e ∈ l, size e.2 = M)

/-- what every history without a re-assigned key guarantees -/
structure Good (size : α → Nat) (p : Prov κ α) : Prop where
  isMax : IsMax size p.default p.map p.maxSize
  nodup : (keys p.map).Nodup

/-- same object up to the order of the dict -/
structure Equiv (p q : Prov κ α) : Prop where
  m : p.m = q.m
  offset : p.offset = q.offset
  name : p.name = q.name
  default : p.default = q.default
  maxSize : p.maxSize = q.maxSize
  blocked : p.blocked = q.blocked
  map : p.map.Perm q.map

end PM.C15.FF
