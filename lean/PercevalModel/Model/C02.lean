/-
  C02 — strong-simulation engines.  The specification is F2 (`Found/Fock.lean`): `pamp`, `prob`,
  `allStates`, masks.  The native kernels (permanent, SLOS/SLAP layers, MPS contractions) live in
  the closed `exqalibur` extension; for them the model *is* the specification.  Modelled Python
  glue: `NaiveBackend._compute_submatrix` (the repetition loops), the bulk methods of
  `AStrongSimulationBackend` (iteration order, mask filtering), SLOS' layered coefficient
  recursion and rescaling, `PERM.apply` (state relabelling used by the Stepper).
-/
import PercevalModel.Found.Fock

open Matrix

namespace PM.C02
open PM.Fock

variable {R : Type*}

/-! ### `NaiveBackend._compute_submatrix`
`for ik in range(m): for _ in range(s[ik]): for ok in range(m): for _ in range(t[ok]):
   u_st[rowidx, colidx] = umat[ok, ik]` — built column by column. -/
def subMatLoopCols [Zero R] {m : ℕ} (U : Matrix (Fin m) (Fin m) R) (s t : List ℕ) :
    List (List R) :=
  (expand s).map fun ik => (expand t).map fun ok => entry U ok ik

def subMatLoop [Zero R] {m : ℕ} (U : Matrix (Fin m) (Fin m) R) (s t : List ℕ) (i j : ℕ) : R :=
  ((subMatLoopCols U s t).getD j []).getD i 0

/-- `NaiveBackend.prob_amplitude` up to the `1/√(∏s!∏t!)` factor: the size-≤1 shortcuts and the
permanent of the loop-built matrix -/
def naivePamp [CommRing R] {m : ℕ} (U : Matrix (Fin m) (Fin m) R) (s t : List ℕ) : R :=
  if s.sum ≠ t.sum then 0
  else if s.sum = 0 then 1
  else (Matrix.of fun (i j : Fin s.sum) => subMatLoop U s t i.val j.val).permanent

/-! ### bulk methods: `all_prob`, `prob_distribution`, `evolve` iterate `_get_iterator` -/
def bulkStates (m : ℕ) (s : List ℕ) (masks : List (List (Option ℕ))) : List (List ℕ) :=
  allStatesMasked m s.sum masks 0

def allProb {m : ℕ} (U : Matrix (Fin m) (Fin m) GQ) (s : List ℕ)
    (masks : List (List (Option ℕ))) : List ℚ :=
  (bulkStates m s masks).map (prob U s)

def probDistribution {m : ℕ} (U : Matrix (Fin m) (Fin m) GQ) (s : List ℕ)
    (masks : List (List (Option ℕ))) : List (List ℕ × ℚ) :=
  (bulkStates m s masks).map fun t => (t, prob U s t)

def evolveAmps [CommRing R] {m : ℕ} (U : Matrix (Fin m) (Fin m) R) (s : List ℕ)
    (masks : List (List (Option ℕ))) : List (List ℕ × R) :=
  (bulkStates m s masks).map fun t => (t, pamp U s t)

/-! ### SLOS: layered polynomial coefficients.
`coefs` of layer `k` over the states of `k` photons: `coef(t + e_j) += coef(t) · U[j, c_k]`,
i.e. the coefficient of `x^t` in `∏ₖ (∑ⱼ U[j, cₖ] xⱼ)`; the amplitude is
`coef(t) · √(∏t! / ∏s!)`. -/
def decr (t : List ℕ) (j : ℕ) : Option (List ℕ) :=
  if 0 < t.getD j 0 then some (t.set j (t.getD j 0 - 1)) else none

/-- coefficient of `x^t` after injecting photons into the input modes `cs` (in that order) -/
def slosCoef [CommRing R] {m : ℕ} (U : Matrix (Fin m) (Fin m) R) : List ℕ → List ℕ → R
  | [], t => if t.all (· == 0) then 1 else 0
  | c :: cs, t =>
    ((List.range m).map fun j =>
      match decr t j with
      | some t' => slosCoef U cs t' * entry U j c
      | none => 0).sum

/-- SLOS amplitude numerator: `coef · ∏t!` (to be compared with `pamp`) -/
def slosPamp [CommRing R] {m : ℕ} (U : Matrix (Fin m) (Fin m) R) (s t : List ℕ) : R :=
  if s.sum = t.sum then slosCoef U (expand s) t * (prodFact t : R) else 0

/-! ### `PERM.apply`: photons on mode `k` of the slice move to mode `perm[k]` -/
def invPerm (perm : List ℕ) : List ℕ :=
  (List.range perm.length).map fun i => (perm.idxOf i)

/-- relabel the slice `[r0, r0 + |perm|)` of a state -/
def permApply (perm : List ℕ) (r0 : ℕ) (state : List ℕ) : List ℕ :=
  let inv := invPerm perm
  (List.range state.length).map fun i =>
    if r0 ≤ i ∧ i < r0 + perm.length then state.getD (inv.getD (i - r0) 0 + r0) 0
    else state.getD i 0

end PM.C02
