/-
  C02 — strong-simulation engines.  The specification is F2 (`Found/Fock.lean`): `pamp`, `prob`,
  `allStates`, masks.  The native kernels (permanent, SLOS/SLAP layers, MPS contractions) live in
  the closed `exqalibur` extension; for them the model *is* the specification.  Modelled Python
  glue: `NaiveBackend._compute_submatrix` (the repetition loops), the bulk methods of
  `AStrongSimulationBackend` (iteration order, mask filtering), SLOS' layered coefficient
  recursion and rescaling, `PERM.apply` (state relabelling used by the Stepper).
-/
import PercevalModel.Found.Fock
import Mathlib.Data.Nat.Choose.Basic
import Mathlib.Data.List.Dedup
import Mathlib.Algebra.BigOperators.Group.Finset.Basic

open Matrix

namespace PM.C02
open PM.Fock

variable {R : Type*}

/-! ### `NaiveBackend._compute_submatrix`
`for ik in range(m): for _ in range(s[ik]): for ok in range(m): for _ in range(t[ok]):
   u_st[rowidx, colidx] = umat[ok, ik]` — built column by column. -/
def subMatLoopCols [Zero R] {m : ℕ} (U : Matrix (Fin m) (Fin m) R) (s t : List ℕ) :
    List (List R) :=
  (expand s).map fun ik => (expand t).map fun ok => entry U ok ik

def subMatLoop [Zero R] {m : ℕ} (U : Matrix (Fin m) (Fin m) R) (s t : List ℕ) (i j : ℕ) : R :=
  ((subMatLoopCols U s t).getD j []).getD i 0

/-- `NaiveBackend.prob_amplitude` up to the `1/√(∏s!∏t!)` factor: the size-≤1 shortcuts and the
permanent of the loop-built matrix -/
def naivePamp [CommRing R] {m : ℕ} (U : Matrix (Fin m) (Fin m) R) (s t : List ℕ) : R :=
  if s.sum ≠ t.sum then 0
  else if s.sum = 0 then 1
  else (Matrix.of fun (i j : Fin s.sum) => subMatLoop U s t i.val j.val).permanent

/-! ### bulk methods: `all_prob`, `prob_distribution`, `evolve` iterate `_get_iterator` -/
def bulkStates (m : ℕ) (s : List ℕ) (masks : List (List (Option ℕ))) : List (List ℕ) :=
  allStatesMasked m s.sum masks 0

def allProb {m : ℕ} (U : Matrix (Fin m) (Fin m) GQ) (s : List ℕ)
    (masks : List (List (Option ℕ))) : List ℚ :=
  (bulkStates m s masks).map (prob U s)

def probDistribution {m : ℕ} (U : Matrix (Fin m) (Fin m) GQ) (s : List ℕ)
    (masks : List (List (Option ℕ))) : List (List ℕ × ℚ) :=
  (bulkStates m s masks).map fun t => (t, prob U s t)

def evolveAmps [CommRing R] {m : ℕ} (U : Matrix (Fin m) (Fin m) R) (s : List ℕ)
    (masks : List (List (Option ℕ))) : List (List ℕ × R) :=
  (bulkStates m s masks).map fun t => (t, pamp U s t)

/-! ### SLOS: layered polynomial coefficients.
`coefs` of layer `k` over the states of `k` photons: `coef(t + e_j) += coef(t) · U[j, c_k]`,
i.e. the coefficient of `x^t` in `∏ₖ (∑ⱼ U[j, cₖ] xⱼ)`; the amplitude is
`coef(t) · √(∏t! / ∏s!)`. -/
def decr (t : List ℕ) (j : ℕ) : Option (List ℕ) :=
  if 0 < t.getD j 0 then some (t.set j (t.getD j 0 - 1)) else none

/-- coefficient of `x^t` after injecting photons into the input modes `cs` (in that order) -/
def slosCoef [CommRing R] {m : ℕ} (U : Matrix (Fin m) (Fin m) R) : List ℕ → List ℕ → R
  | [], t => if t.all (· == 0) then 1 else 0
  | c :: cs, t =>
    ((List.range m).map fun j =>
      match decr t j with
      | some t' => slosCoef U cs t' * entry U j c
      | none => 0).sum

/-- SLOS amplitude numerator: `coef · ∏t!` (to be compared with `pamp`) -/
def slosPamp [CommRing R] {m : ℕ} (U : Matrix (Fin m) (Fin m) R) (s t : List ℕ) : R :=
  if s.sum = t.sum then slosCoef U (expand s) t * (prodFact t : R) else 0

/-! ### MPS: the closed formulas of the transition tensors

`MPSBackend._transition_matrix_1_mode(u)`: `big_u = zeros((d, d)); big_u[i, i] = u[0, 0] ** i`.
The documented amplitude of `|i> -> |j>` is `pamp / √(i! j!)`; here `i = j`, so the tensor entry is
`pamp / i!` — no square root is involved. -/
def tm1 [CommRing R] (U : Matrix (Fin 1) (Fin 1) R) (d i j : ℕ) : R :=
  if i < d ∧ j < d ∧ i = j then U 0 0 ^ i else 0

/-- the double sum of `MPSBackend._transition_matrix_2_mode(u)` for the entry
`big_u[n1, n2, m1, m2]`, *without* its factor `√(m1! m2!) / √(n1! n2!)`:
```
u11, u12, u21, u22 = u[0, 0], u[1, 0], u[0, 1], u[1, 1]
if n_tot <= self._n:
    for k1 in range(n1+1):
        for k2 in range(n2+1):
            outputs[k1 + k2, n_tot - (k1 + k2)] += comb(n1, k1) * comb(n2, k2)
                * (u11**k1 * u12**(n1-k1) * u21**k2 * u22**(n2-k2)) * sqrt((k1+k2)! (n_tot-k1-k2)!)
big_u[n1, n2, :] = outputs / sqrt(n1! n2!)
```
`nmax` is `self._n` (the photon number of the compiled input; the tensor has side `d = nmax + 1`). -/
def tm2 [CommRing R] (U : Matrix (Fin 2) (Fin 2) R) (nmax n1 n2 m1 m2 : ℕ) : R :=
  if n1 + n2 ≤ nmax then
    ∑ k1 ∈ Finset.range (n1 + 1), ∑ k2 ∈ Finset.range (n2 + 1),
      if k1 + k2 = m1 ∧ n1 + n2 - (k1 + k2) = m2 then
        (n1.choose k1 : R) * (n2.choose k2 : R) *
          (U 0 0 ^ k1 * U 1 0 ^ (n1 - k1) * U 0 1 ^ k2 * U 1 1 ^ (n2 - k2))
      else 0
  else 0

/-! ### the step-by-step simulator on the modes of one component

A state vector is an association list `state ↦ amplitude` (a key may occur several times: the
amplitude of a state is the sum of its entries, as `nsv += …` does).  Amplitudes are kept
un-normalised as everywhere in this model: the entry of `u` holds `c(u)·√(∏sᵢ! ∏uᵢ!)` for the
documented amplitude `c(u)` and the input `s`.  With that convention the factor the code multiplies
by, `prob_amplitude(slice → o) = pamp B slice o / √(∏sliceᵢ! ∏oᵢ!)`, becomes
`pamp B slice o / ∏ sliceᵢ!`; the inverse factorial is supplied by `inv` (`(·)⁻¹` in a field,
`gqInv` at the executable instance `ℚ[i]`, which is only a ring here). -/
abbrev SV (R : Type*) := List (List ℕ × R)

/-- `state[min_r:max_r]` -/
def slice (u : List ℕ) (r0 k : ℕ) : List ℕ := (u.drop r0).take k

/-- `state.set_slice(slice(min_r, max_r), o)` -/
def setSlice (u : List ℕ) (r0 : ℕ) (o : List ℕ) : List ℕ :=
  u.take r0 ++ o ++ u.drop (r0 + o.length)

/-- amplitude of `t`: sum of the entries stored under `t` -/
def svGet [AddCommMonoid R] (sv : SV R) (t : List ℕ) : R :=
  (sv.map fun p => if p.1 = t then p.2 else 0).sum

/-- the body of `Stepper.apply(sv, r, c)` (photon filter 0) before the additions are merged: every
state `u` of `sv` is replaced by the states `u` with its slice `[r0, r0+k)` set to each output `o` of
the slice's own `(k, n_slice)` space, weighted by the amplitude of the component alone between the
two slices; the other modes are not looked at. -/
def stepperApplyRaw [CommRing R] (inv : List ℕ → R) {k : ℕ} (B : Matrix (Fin k) (Fin k) R)
    (r0 : ℕ) (sv : SV R) : SV R :=
  sv.flatMap fun p =>
    (allStates k (slice p.1 r0 k).sum).map fun o =>
      (setSlice p.1 r0 o, pamp B (slice p.1 r0 k) o * inv (slice p.1 r0 k) * p.2)

/-- `nsv += …` merges the contributions to one state: one entry per distinct key, in order of first
appearance, holding the sum -/
def svCompress [AddCommMonoid R] (sv : SV R) : SV R :=
  (sv.map Prod.fst).dedup.map fun t => (t, svGet sv t)

/-- `Stepper.apply(sv, r, c)` -/
def stepperApply [CommRing R] (inv : List ℕ → R) {k : ℕ} (B : Matrix (Fin k) (Fin k) R) (r0 : ℕ)
    (sv : SV R) : SV R :=
  svCompress (stepperApplyRaw inv B r0 sv)

/-- a component of the circuit: its first mode and its matrix -/
structure Comp (R : Type*) where
  k : ℕ
  r0 : ℕ
  B : Matrix (Fin k) (Fin k) R

/-- `Stepper.compile`: `sv = StateVector(input)`, then component after component -/
def stepperRun [CommRing R] (inv : List ℕ → R) (comps : List (Comp R)) (s : List ℕ) : SV R :=
  comps.foldl (fun sv c => stepperApply inv c.B c.r0 sv) [(s, (prodFact s : R))]

/-! ### `AStrongSimulationBackend.evolve`: `res += output_state * prob_amplitude(output_state)` over
the (masked) iterator; a `StateVector` is a normalised object, so what is observed is the kept
amplitudes divided by the square root of the kept mass. -/
def keptMass {m : ℕ} (U : Matrix (Fin m) (Fin m) GQ) (s : List ℕ)
    (masks : List (List (Option ℕ))) : ℚ :=
  ((bulkStates m s masks).map (prob U s)).sum

/-- squared moduli of the components of the normalised `evolve()` result -/
def evolveProbs {m : ℕ} (U : Matrix (Fin m) (Fin m) GQ) (s : List ℕ)
    (masks : List (List (Option ℕ))) : List (List ℕ × ℚ) :=
  (bulkStates m s masks).map fun t => (t, prob U s t / keptMass U s masks)

/-! ### `PERM.apply`: photons on mode `k` of the slice move to mode `perm[k]` -/
def invPerm (perm : List ℕ) : List ℕ :=
  (List.range perm.length).map fun i => (perm.idxOf i)

/-- relabel the slice `[r0, r0 + |perm|)` of a state -/
def permApply (perm : List ℕ) (r0 : ℕ) (state : List ℕ) : List ℕ :=
  let inv := invPerm perm
  (List.range state.length).map fun i =>
    if r0 ≤ i ∧ i < r0 + perm.length then state.getD (inv.getD (i - r0) 0 + r0) 0
    else state.getD i 0

/-! ### the Stepper's main loop: `sv = c.apply(r, sv) if hasattr(c, "apply") else self.apply(sv, r, c)` -/

/-- `PERM.apply(r, sv)`: every state is relabelled, its amplitude kept -/
def stepperPerm [AddCommMonoid R] (σ : List ℕ) (r0 : ℕ) (sv : SV R) : SV R :=
  svCompress (sv.map fun p => (permApply σ r0 p.1, p.2))

/-- a circuit element as the Stepper sees it -/
inductive Step (R : Type*) where
  | block (c : Comp R)
  | perm (r0 : ℕ) (σ : List ℕ)

def stepperStep [CommRing R] (inv : List ℕ → R) (st : Step R) (sv : SV R) : SV R :=
  match st with
  | .block c => stepperApply inv c.B c.r0 sv
  | .perm r0 σ => stepperPerm σ r0 sv

/-- `Stepper.compile` on a circuit that may contain PERM components -/
def stepperRunS [CommRing R] (inv : List ℕ → R) (steps : List (Step R)) (s : List ℕ) : SV R :=
  steps.foldl (fun sv st => stepperStep inv st sv) [(s, (prodFact s : R))]

end PM.C02
