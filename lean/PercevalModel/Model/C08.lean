/-
  C08 — model of `perceval/components/detector.py` and
  `perceval/simulators/_simulate_detectors.py`.

  * `condProb`      = `Detector._cond_probability` (the recurrence on (clicks, photons));
    `condProbM`     = the same with the `functools.cache` memo table threaded through;
  * `Det`, `mkDetector`, `Det.type`, `Det.detect`, `detectCached` = `Detector.__init__`, `type`,
    `detect` (loop to `max_detectable - 1`, remainder to the top) and its per-instance `_cache`;
  * `treeOcc`, `bsDetect`, `bsDetectP` = `BSLayeredPPNR.detect`: the distribution the SLOS backend returns for
    `|n,0,…,0>` entering the beam-splitter tree of `create_circuit()` is *assumed* to be the
    multinomial over the `2^L` leaves with path weights `r^zeros (1-r)^ones` (built here by
    binomial splitting at every node, leaves in the circuit's mode order); each output state is
    then thresholded and the probabilities summed per click count, as the code does;
  * `detectionType` = `get_detection_type`, `checkHeralds` = `check_heralds_detectors`;
  * `simulate` = `simulate_detectors` with its three branches (all-PNR / all-threshold /
    general), `ProbabilityDistribution.add` (drops contributions `≤ min_p`),
    `BSDistribution.list_tensor_product` at `prob_threshold = 0`, `normalize`;
  * `sampleLaw` = `simulate_detectors_sample` (the law of the drawn state), with the `None`-detector
    repair selected by a flag.

  Everything is polymorphic in a linearly ordered field `K` (ℝ for the semantics, ℚ to run).
  Distributions are association lists in insertion order (Python `defaultdict`).
-/
import Mathlib.Algebra.Order.Field.Basic
import Mathlib.Data.Nat.Choose.Basic

namespace PM.C08

variable {K : Type} [Field K] [LinearOrder K]

/-! ### distributions (`ProbabilityDistribution(defaultdict)`) -/

abbrev Dist (σ : Type) (K : Type) := List (σ × K)

/-- `d[key] += p` on a `defaultdict(float)` (insertion order kept) -/
def bump {σ : Type} [DecidableEq σ] : Dist σ K → σ → K → Dist σ K
  | [], key, p => [(key, 0 + p)]
  | (k, v) :: rest, key, p => if k = key then (k, v + p) :: rest else (k, v) :: bump rest key p

/-- `ProbabilityDistribution.add`: `if proba > min_p: self[obj] += proba` -/
def addP {σ : Type} [DecidableEq σ] (minP : K) (d : Dist σ K) (key : σ) (p : K) : Dist σ K :=
  if minP < p then bump d key p else d

/-- `d[key]` read without inserting (0 when absent) -/
def prob {σ : Type} [DecidableEq σ] : Dist σ K → σ → K
  | [], _ => 0
  | (k, v) :: rest, key => if k = key then v else prob rest key

def mass {σ : Type} (d : Dist σ K) : K := (d.map Prod.snd).sum

/-- `ProbabilityDistribution.normalize` (a zero sum leaves the distribution unchanged) -/
def normalize {σ : Type} (d : Dist σ K) : Dist σ K :=
  if mass d = 0 then d else d.map fun e => (e.1, e.2 / mass d)

def Nonneg {σ : Type} (d : Dist σ K) : Prop := ∀ e ∈ d, 0 ≤ e.2

/-! ### `Detector._cond_probability` -/

/-- the recurrence exactly as coded (`det` clicks from `nph` photons on `w` wires);
`w - det + 1` is computed in `K` (Python: unbounded integers), never truncated -/
def condProb (w : ℕ) : ℕ → ℕ → K
  | 0, n => if n = 0 then 1 else 0
  | _ + 1, 0 => 0
  | k + 1, n + 1 =>
    if n + 1 < k + 1 then 0
    else condProb w k n * ((w : K) - ((k + 1 : ℕ) : K) + 1) / (w : K)
      + condProb w (k + 1) n * ((k + 1 : ℕ) : K) / (w : K)

/-- the `functools.cache` table of `_cond_probability` for one instance: `(det, nph) ↦ value` -/
abbrev Memo (K : Type) := List ((ℕ × ℕ) × K)

def Memo.get : Memo K → ℕ × ℕ → Option K
  | [], _ => none
  | (k, v) :: rest, key => if k = key then some v else Memo.get rest key

/-- `_cond_probability` with the memo threaded through: look up first, compute and record
otherwise (every call, base cases included, leaves an entry — as `functools.cache` does) -/
def condProbM (w : ℕ) : (nph det : ℕ) → Memo K → K × Memo K
  | 0, k, t =>
    match t.get (k, 0) with
    | some v => (v, t)
    | none =>
      let v : K := if k = 0 then 1 else 0
      (v, ((k, 0), v) :: t)
  | n + 1, k, t =>
    match t.get (k, n + 1) with
    | some v => (v, t)
    | none =>
      if k = 0 then (0, ((k, n + 1), 0) :: t)
      else if n + 1 < k then (0, ((k, n + 1), 0) :: t)
      else
        let a := condProbM w n (k - 1) t
        let b := condProbM w n k a.2
        let v : K := a.1 * ((w : K) - (k : K) + 1) / (w : K) + b.1 * (k : K) / (w : K)
        (v, ((k, n + 1), v) :: b.2)

/-! ### `Detector` -/

inductive DType | PNR | Threshold | PPNR | Mixed
  deriving DecidableEq, Repr

/-- a constructed `Detector`: `_wires is None` (then `_max is None` too) or `(_wires, _max)` -/
inductive Det
  | pnr
  | wired (w : ℕ) (mx : ℕ)
  deriving DecidableEq, Repr

/-- `Detector.__init__(n_wires, max_detections)` with its two assertions -/
def mkDetector (wires : Option ℕ) (maxd : Option ℕ) : Except String Det :=
  match wires with
  | none => .ok .pnr
  | some w =>
    if w = 0 then .error "AssertionError"
    else match maxd with
      | none => .ok (.wired w w)
      | some m => if w < m then .error "AssertionError" else .ok (.wired w (min m w))

def Det.type : Det → DType
  | .pnr => .PNR
  | .wired w _ => if w = 1 then .Threshold else .PPNR

def Det.maxDetections : Det → Option ℕ
  | .pnr => none
  | .wired _ mx => some mx

/-- what `detect` returns: a `BasicState([k])` or a `BSDistribution` over one-mode states -/
inductive DetOut (K : Type)
  | state (k : ℕ)
  | dist (d : Dist ℕ K)

/-- one-mode distribution of a `detect` result (`BSDistribution(d)` for a state) -/
def DetOut.toDist : DetOut K → Dist ℕ K
  | .state k => [(k, 1)]
  | .dist d => d

/-- the body of the `for i in range(1, max_detectable)` loop: `(result, remaining_p)` -/
def detectLoop (w n : ℕ) (minP : K) (is : List ℕ) (acc : Dist ℕ K × K) : Dist ℕ K × K :=
  is.foldl (fun a i => (addP minP a.1 i (condProb w i n), a.2 - condProb w i n)) acc

/-- the PPNR branch of `Detector.detect` (no cache) -/
def detectWired (w mx : ℕ) (minP : K) (n : ℕ) : Dist ℕ K :=
  let cap := min mx n
  let lp := detectLoop w n minP (List.range' 1 (cap - 1)) ([], 1)
  addP minP lp.1 cap lp.2

/-- `Detector.detect(theoretical_photons)` of a fresh instance -/
def Det.detect (d : Det) (minP : K) (n : ℕ) : DetOut K :=
  if n < 2 ∨ d.type = .PNR then .state n
  else if d.type = .Threshold then .state 1
  else match d with
    | .pnr => .state n
    | .wired w mx => .dist (detectWired w mx minP n)

/-- the loop of `detect` as it really runs: every `_cond_probability` call goes through the
memo table, which is threaded along -/
def detectLoopM (w n : ℕ) (minP : K) :
    List ℕ → (Dist ℕ K × K) × Memo K → (Dist ℕ K × K) × Memo K
  | [], a => a
  | i :: is, a =>
    let c := condProbM w n i a.2
    detectLoopM w n minP is ((addP minP a.1.1 i c.1, a.1.2 - c.1), c.2)

def detectWiredM (w mx : ℕ) (minP : K) (n : ℕ) (t : Memo K) : Dist ℕ K × Memo K :=
  let cap := min mx n
  let lp := detectLoopM w n minP (List.range' 1 (cap - 1)) (([], 1), t)
  (addP minP lp.1.1 cap lp.1.2, lp.2)

/-- the per-instance `_cache` of `detect`: `photons ↦ result` (only the PPNR branch stores) -/
abbrev DCache (K : Type) := List (ℕ × Dist ℕ K)

def DCache.get : DCache K → ℕ → Option (Dist ℕ K)
  | [], _ => none
  | (k, v) :: rest, key => if k = key then some v else DCache.get rest key

/-- mutable state of a long-lived `Detector`: the `functools.cache` table and `_cache` -/
structure Inst (K : Type) where
  memo : Memo K
  cache : DCache K

/-- `detect` on a long-lived instance: operation = photon count,
output = `(photon count, result)` -/
def detectInst (d : Det) (minP : K) (s : Inst K) (n : ℕ) : Inst K × (ℕ × DetOut K) :=
  if n < 2 ∨ d.type = .PNR then (s, (n, .state n))
  else if d.type = .Threshold then (s, (n, .state 1))
  else match d with
    | .pnr => (s, (n, .state n))
    | .wired w mx =>
      match s.cache.get n with
      | some r => (s, (n, .dist r))
      | none =>
        let r := detectWiredM w mx minP n s.memo
        (⟨r.2, (n, r.1) :: s.cache⟩, (n, .dist r.1))

/-! ### `BSLayeredPPNR` -/

/-- concatenation product of two distributions over mode lists, scaled by `c` -/
def scaleTensor (c : K) (a b : Dist (List ℕ) K) : Dist (List ℕ) K :=
  a.flatMap fun x => b.map fun y => (x.1 ++ y.1, c * (x.2 * y.2))

/-- leaf occupations of `n` photons entering a depth-`L` tree of beam splitters of
reflectivity `r` through one port (the other ports empty): at every node `j` of the photons
take the first output with weight `C(n,j) r^j (1-r)^(n-j)`.  Assumed law of
`SLOSBackend.prob_distribution()` on `create_circuit()`; leaves in mode order. -/
def treeOcc (r : K) : ℕ → ℕ → Dist (List ℕ) K
  | 0, n => [([n], 1)]
  | L + 1, n =>
    (List.range (n + 1)).flatMap fun j =>
      scaleTensor ((n.choose j : K) * r ^ j * (1 - r) ^ (n - j)) (treeOcc r L j) (treeOcc r L (n - j))

/-- `state.threshold_detection().n` -/
def clicks (s : List ℕ) : ℕ := (s.filter (· ≠ 0)).length

/-- `for state, prob in dist.items(): output[BasicState([thresholded.n])] += prob` -/
def aggregate (d : Dist (List ℕ) K) : Dist ℕ K :=
  d.foldl (fun out e => bump out (clicks e.1) e.2) []

/-- `BSLayeredPPNR.__init__` assertions -/
def mkBS (L : ℕ) (r : K) : Except String (ℕ × K) :=
  if L = 0 then .error "AssertionError"
  else if r < 0 ∨ 1 < r then .error "AssertionError"
  else .ok (L, r)

/-- the click law of the tree at `min_p = 0` (every leaf state kept): what the theorems about the
tree (`bsTree_half_eq_wires`, …) are stated for -/
def bsDetect (L : ℕ) (r : K) (n : ℕ) : DetOut K :=
  if n < 2 then .state n else .dist (aggregate (treeOcc r L n))

/-- `SLOSBackend.prob_distribution()` builds its result with `bsd.add(output_state, probability)`: a leaf
state whose probability is not above `min_p` is dropped BEFORE the click counts are summed -/
def treeOccP (minP r : K) (L n : ℕ) : Dist (List ℕ) K :=
  (treeOcc r L n).filter fun e => minP < e.2

/-- `BSLayeredPPNR.detect` of a fresh instance, as coded (at the current `min_p`) -/
def bsDetectP (minP : K) (L : ℕ) (r : K) (n : ℕ) : DetOut K :=
  if n < 2 then .state n else .dist (aggregate (treeOccP minP r L n))

/-- `BSLayeredPPNR.detect` on a long-lived instance (state = `_cache`) -/
def bsInst (minP : K) (L : ℕ) (r : K) (c : DCache K) (n : ℕ) : DCache K × (ℕ × DetOut K) :=
  if n < 2 then (c, (n, .state n))
  else match c.get n with
    | some d => (c, (n, .dist d))
    | none =>
      let d := aggregate (treeOccP minP r L n)
      ((n, d) :: c, (n, .dist d))

/-! ### detector lists -/

/-- an entry of a detector list: `None`, a `Detector`, a `BSLayeredPPNR` -/
inductive AnyDet (K : Type)
  | none
  | det (d : Det)
  | bs (L : ℕ) (r : K)

/-- `DetectionType.PNR if det is None else det.type` -/
def AnyDet.type : AnyDet K → DType
  | .none => .PNR
  | .det d => d.type
  | .bs _ _ => .PPNR

def AnyDet.maxDetections : AnyDet K → Option ℕ
  | .none => Option.none
  | .det d => d.maxDetections
  | .bs L _ => some (2 ^ L)

/-- the loop of `get_detection_type` (`result` starts as `None`) -/
def detTypeLoop : Option DType → List (AnyDet K) → DType
  | res, [] => res.getD .PNR
  | none, d :: rest => detTypeLoop (some d.type) rest
  | some t, d :: rest => if t ≠ d.type then .Mixed else detTypeLoop (some t) rest

/-- `get_detection_type(detectors)` (`not detectors` ⇒ PNR) -/
def detectionType (ds : List (AnyDet K)) : DType :=
  if ds.isEmpty then .PNR else detTypeLoop none ds

/-- `check_heralds_detectors(heralds, detectors)`; heralds as `(mode, value)` pairs, a mode
outside the list is an `IndexError` -/
def checkHeralds (heralds : List (ℕ × ℕ)) (ds : List (AnyDet K)) : Except String Bool :=
  if heralds.isEmpty ∨ ds.isEmpty then .ok true
  else
    let rec go : List (ℕ × ℕ) → Except String Bool
      | [] => .ok true
      | (k, v) :: rest =>
        match ds[k]? with
        | Option.none => .error "IndexError"
        | some d =>
          match d.maxDetections with
          | some mx => if mx < v then .ok false else go rest
          | Option.none => go rest
    go heralds

/-- what one entry of the detector list does to `n` photons in its mode -/
def AnyDet.detect (minP : K) : AnyDet K → ℕ → DetOut K
  | .none, n => .state n
  | .det d, n => d.detect minP n
  | .bs L r, n => bsDetectP minP L r n

/-- how many `add` calls (each may drop at most `min_p`) stand behind the per-mode result for `n` photons:
the loop of `Detector.detect` makes at most `n`; the backend makes one per leaf state of the tree; the other
kinds make none -/
def AnyDet.addCount : AnyDet K → ℕ → ℕ
  | .none, _ => 0
  | .det .pnr, _ => 0
  | .det (.wired _ _), n => n
  | .bs L r, n => (treeOcc r L n).length

/-- the same as a one-mode distribution (`BSDistribution(d)` when `detect` returned a state) -/
def AnyDet.kernel (minP : K) (d : AnyDet K) (n : ℕ) : Dist ℕ K :=
  (d.detect minP n).toDist

/-! ### `BSDistribution.list_tensor_product` at `prob_threshold = 0`, on one-mode factors -/

/-- `_inner_tensor_product` (`current_state * bs` appends the one-mode state) -/
def innerTensor : List (Dist ℕ K) → List ℕ → K → Dist (List ℕ) K → Dist (List ℕ) K
  | [], cur, p, res => bump res cur p
  | d :: rest, cur, p, res =>
    d.foldl (fun acc e =>
      if p * e.2 < 0 then acc else innerTensor rest (cur ++ [e.1]) (p * e.2) acc) res

/-- no factor ⇒ empty; one factor ⇒ that factor itself (untrimmed); an empty factor ⇒ empty;
otherwise factors trimmed to `prob > 0` and multiplied out -/
def listTensor (ds : List (Dist ℕ K)) : Dist (List ℕ) K :=
  match ds with
  | [] => []
  | [d] => d.map fun e => ([e.1], e.2)
  | _ =>
    if ds.any (·.isEmpty) then []
    else innerTensor (ds.map fun d => d.filter fun e => 0 < e.2) [] 1 []

/-! ### `simulate_detectors` -/

def belowFilter (minPhotons : Option ℕ) (s : List ℕ) : Bool :=
  match minPhotons with
  | none => false
  | some f => decide (s.sum < f)

/-- un-normalised result and `phys_perf` -/
abbrev Acc (K : Type) := Dist (List ℕ) K × K

/-- all-threshold branch -/
def simThreshold (minPhotons : Option ℕ) (dist : Dist (List ℕ) K) : Acc K :=
  dist.foldl (fun a e =>
    let s := e.1.map (min · 1)
    if belowFilter minPhotons s then (a.1, a.2 - e.2) else (bump a.1 s e.2, a.2)) ([], 1)

/-- per-mode kernels of one input state: `zip(s, detectors)` -/
def stateDist (minP : K) (ds : List (AnyDet K)) (s : List ℕ) : Dist (List ℕ) K :=
  listTensor (List.zipWith (fun n d => d.kernel minP n) s ds)

/-- the contributions of one input state `(s, p)` -/
def simState (minP : K) (minPhotons : Option ℕ) (p : K) (sd : Dist (List ℕ) K) (a : Acc K) : Acc K :=
  sd.foldl (fun a o =>
    if belowFilter minPhotons o.1 then (a.1, a.2 - p * o.2) else (addP minP a.1 o.1 (p * o.2), a.2)) a

/-- general branch -/
def simGeneral (minP : K) (minPhotons : Option ℕ) (ds : List (AnyDet K))
    (dist : Dist (List ℕ) K) : Acc K :=
  dist.foldl (fun a e => simState minP minPhotons e.2 (stateDist minP ds e.1) a) ([], 1)

/-- `(result before normalize(), phys_perf)` of `simulate_detectors` -/
def simulateRaw (minP : K) (dist : Dist (List ℕ) K) (ds : List (AnyDet K))
    (minPhotons : Option ℕ) : Acc K :=
  let ty := detectionType ds
  if dist.isEmpty ∨ ty = .PNR then (dist, 1)
  else if ty = .Threshold then simThreshold minPhotons dist
  else simGeneral minP minPhotons ds dist

/-- `simulate_detectors(dist, detectors, min_photons)` after the length assertion:
`(result, phys_perf)`; the all-PNR branch returns its input untouched (no filter, no
normalisation), the other two normalise -/
def simulate (minP : K) (dist : Dist (List ℕ) K) (ds : List (AnyDet K))
    (minPhotons : Option ℕ) : Acc K :=
  let a := simulateRaw minP dist ds minPhotons
  if dist.isEmpty ∨ detectionType ds = .PNR then a else (normalize a.1, a.2)

/-- with `assert len(detectors) == dist.m` (`m` is `None` on a never-filled distribution) -/
def simulateChecked (minP : K) (m : Option ℕ) (dist : Dist (List ℕ) K) (ds : List (AnyDet K))
    (minPhotons : Option ℕ) : Except String (Acc K) :=
  if m ≠ some ds.length then .error "AssertionError" else .ok (simulate minP dist ds minPhotons)

/-! ### `simulate_detectors_sample` -/

/-- `BSDistribution.tensor_product(bsd1, bsd2)` at `prob_threshold = 0` (`bsd1` empty ⇒ `bsd2`) -/
def tensor2 (a b : Dist (List ℕ) K) : Dist (List ℕ) K :=
  if a.isEmpty then b
  else a.foldl (fun acc x =>
    b.foldl (fun acc y => if x.2 * y.2 < 0 then acc else bump acc (x.1 ++ y.1) (x.2 * y.2)) acc) []

/-- a one-mode result as a distribution over one-mode states -/
def lift1 (d : Dist ℕ K) : Dist (List ℕ) K := d.map fun e => ([e.1], e.2)

/-- the loop `state_distrib *= detector.detect(photons_in_mode)` over `zip(sample, detectors)`
(`zip` truncates to the shorter list — there is no length assertion on this path).
`fixed = true`: an unset detector (`None`) contributes `BasicState([photons_in_mode])`
(`fixes/C08-sample-none-detector.diff`); `fixed = false`: the pinned tree calls `None.detect`. -/
def sampleLoop (fixed : Bool) (minP : K) :
    List ℕ → List (AnyDet K) → Dist (List ℕ) K → Except String (Dist (List ℕ) K)
  | n :: s, d :: ds, acc =>
    match d, fixed with
    | .none, false => .error "AttributeError"
    | _, _ => sampleLoop fixed minP s ds (tensor2 acc (lift1 (d.kernel minP n)))
  | _, _, acc => .ok acc

/-- `simulate_detectors_sample(sample, detectors, detection)`: the distribution the returned state
is drawn from (`detection` is recomputed or passed by the caller — same value).  All-PNR: the
sample itself; all-threshold: the thresholded sample; otherwise one draw from the product. -/
def sampleLaw (fixed : Bool) (minP : K) (ds : List (AnyDet K)) (s : List ℕ) :
    Except String (Dist (List ℕ) K) :=
  let ty := detectionType ds
  if ty = .PNR then .ok [(s, 1)]
  else if ty = .Threshold then .ok [(s.map (min · 1), 1)]
  else sampleLoop fixed minP s ds []

end PM.C08
