/-
  C08 — histories on ONE detector instance in which `global_params['min_p']` CHANGES between calls
  (`perceval/components/detector.py`: `Detector.detect`, `BSLayeredPPNR.detect`, `BSLayeredPPNR.clear_cache`).

  The per-instance `_cache` is keyed by the photon count only, while the cached dictionary was built with
  `BSDistribution.add` / `SLOSBackend.prob_distribution()` at the `min_p` in force during the FIRST call.

  * code as pinned (`fixed = false`): the lookup `if theoretical_photons in self._cache` ignores `min_p`, so a
    dictionary computed under another `min_p` is returned (`staleOuts`: the answer is the fresh answer at the `min_p`
    of the first call with that photon count since the last `clear_cache()`);
  * repaired code (`fixed = true`, fixes/C08-detect-cache-stale-minp.diff): `_sync_cache()` runs right before the
    lookup — `if self._cache_min_p != min_p: self._cache = {}; self._cache_min_p = min_p`
    (`_cache_min_p = None` on a new instance; `clear_cache()` only empties `_cache`).

  An operation carries the `min_p` in force when it is executed.  The bodies of the two `detect` methods are the
  existing `detectInst` / `bsInst` (memo table of `_cond_probability` threaded through, untouched by the repair).
-/
import PercevalModel.Model.C08

namespace PM.C08

variable {K : Type} [Field K] [LinearOrder K]

/-- mutable state of a long-lived `Detector`: memo table, `_cache`, and `_cache_min_p` (repaired code only) -/
structure InstH (K : Type) where
  inst : Inst K
  mark : Option K

/-- `_sync_cache()` (repaired code); the pinned code has no such step -/
def InstH.sync (fixed : Bool) (minP : K) (s : InstH K) : InstH K :=
  if fixed ∧ s.mark ≠ some minP then ⟨⟨s.inst.memo, []⟩, some minP⟩ else s

/-- `Detector.detect(n)` on a long-lived instance, executed while `global_params['min_p'] = op.1`.
The early returns (`n < 2`, PNR, threshold) happen before `_sync_cache()` and touch nothing. -/
def detectInstH (fixed : Bool) (d : Det) (s : InstH K) (op : K × ℕ) : InstH K × (ℕ × DetOut K) :=
  if op.2 < 2 ∨ d.type = .PNR ∨ d.type = .Threshold then (s, (detectInst d op.1 s.inst op.2).2)
  else
    let s' := s.sync fixed op.1
    let r := detectInst d op.1 s'.inst op.2
    (⟨r.1, s'.mark⟩, r.2)

/-- state of a long-lived `BSLayeredPPNR`: `_cache` and `_cache_min_p` -/
structure BsH (K : Type) where
  cache : DCache K
  mark : Option K

def BsH.sync (fixed : Bool) (minP : K) (s : BsH K) : BsH K :=
  if fixed ∧ s.mark ≠ some minP then ⟨[], some minP⟩ else s

/-- operations on a `BSLayeredPPNR`: `some (min_p, n)` = `detect(n)` at that `min_p`; `none` = `clear_cache()`
(output `none`) -/
def bsInstH (fixed : Bool) (L : ℕ) (r : K) (s : BsH K) : Option (K × ℕ) → BsH K × Option (ℕ × DetOut K)
  | none => (⟨[], s.mark⟩, none)
  | some op =>
    if op.2 < 2 then (s, some (op.2, .state op.2))
    else
      let s' := s.sync fixed op.1
      let o := bsInst op.1 L r s'.cache op.2
      (⟨o.1, s'.mark⟩, some o.2)

/-- the `min_p` of the first `detect` with photon count `n` in a history (newest operation LAST) -/
def firstP (pre : List (K × ℕ)) (n : ℕ) : Option K := (pre.find? fun e => e.2 = n).map (·.1)

/-- what the PINNED code answers along a history of `detect` calls at changing `min_p`: the fresh answer at the
`min_p` of the first call with the same photon count (`pre` = the calls already made) -/
def staleOuts (d : Det) : List (K × ℕ) → List (K × ℕ) → List (ℕ × DetOut K)
  | _, [] => []
  | pre, op :: rest => (op.2, d.detect ((firstP pre op.2).getD op.1) op.2) :: staleOuts d (pre ++ [op]) rest

end PM.C08
