/-
  C08 — `Simulator.probs_svd(input_dist, detectors)` for a MIXED input: an `SVDistribution` of several Fock members
  (what a noisy source produces: different photon numbers with their weights), through the detector path
  (`perceval/simulators/simulator.py`: `_preprocess_svd`, `_probs_svd_fast`, `probs_svd`).

      svd, p_threshold, …, physical_perf = self._preprocess_svd(input_dist)
          # members with fewer photons than min_detected_photons_filter: physical_perf -= p, removed
          # p_threshold = max(min_p, max_p * rel_precision); members with p <= p_threshold are dropped
      res = self._probs_svd_fast(svd, p_threshold, …)
          # per member: the backend distribution (with the heralds mask in the all-PNR case); a list_tensor_product of ONE
          # factor returns it untouched; self._logical_perf += sum(probs) * prob0; res[bs] += p * prob0; res.normalize()
      if self._logical_perf > 0 and physical_perf > 0: self._logical_perf /= physical_perf
      if not len(res): return {results: res, physical_perf, logical_perf: 0}
      res, phys = simulate_detectors(res, detectors, self.min_detected_photons_filter, p_threshold)   # T = p_threshold!
      physical_perf *= phys
      res, contrib = post_select_distribution(res, postselect, heralds, keep_heralds); self._logical_perf *= contrib

  A member is `(weight, photon number, theoretical mask-free distribution of the backend for it)`; members are
  un-annotated Fock states (no superposition, no distinguishability: those belong to C03–C05).
  `min_detected_photons_filter` = the user's value + the sum of the herald values.
-/
import PercevalModel.Model.C08Glue
import PercevalModel.Model.C08Thr

namespace PM.C08

variable {K : Type} [Field K] [LinearOrder K]

/-- one member of the input `SVDistribution` -/
structure Member (K : Type) where
  p : K
  n : ℕ
  base : Dist (List ℕ) K

/-- `max_p` of `_preprocess_svd` (starts at 0; only members passing the photon filter count) -/
def preMaxP (F : ℕ) (ms : List (Member K)) : K :=
  ms.foldl (fun a m => if F ≤ m.n then max m.p a else a) 0

/-- `phys_perf` of `_preprocess_svd` -/
def prePhys (F : ℕ) (ms : List (Member K)) : K :=
  ms.foldl (fun a m => if F ≤ m.n then a else a - m.p) 1

/-- `p_threshold = max(global_params['min_p'], max_p * self._rel_precision)` -/
def preThreshold (minP rel : K) (F : ℕ) (ms : List (Member K)) : K :=
  max minP (preMaxP F ms * rel)

/-- the members `_preprocess_svd` keeps: `pr > p_threshold and state not in to_remove` -/
def preKept (minP rel : K) (F : ℕ) (ms : List (Member K)) : List (Member K) :=
  ms.filter fun m => decide (preThreshold minP rel F ms < m.p) && decide (F ≤ m.n)

/-- what the backend returns for one member: everything, or (heralds mask) the herald-satisfying part -/
def memberRaw (h : List (ℕ × ℕ)) (mask : Bool) (m : Member K) : Dist (List ℕ) K :=
  if mask then selectHeralds h m.base else m.base

/-- `for bs, p in probs_in_s.items(): res[bs] += p * prob0` -/
def mixAdd (res : Dist (List ℕ) K) (prob0 : K) (d : Dist (List ℕ) K) : Dist (List ℕ) K :=
  d.foldl (fun r e => bump r e.1 (e.2 * prob0)) res

/-- the loop of `_probs_svd_fast`: `(res before normalize(), self._logical_perf)` -/
def mixRaw (h : List (ℕ × ℕ)) (mask : Bool) (ms : List (Member K)) : Dist (List ℕ) K × K :=
  ms.foldl (fun a m => (mixAdd a.1 m.p (memberRaw h mask m), a.2 + mass (memberRaw h mask m) * m.p)) ([], 0)

/-- `Simulator.probs_svd(SVDistribution of Fock members, detectors)` -/
def probsSvdMix (minP rel : K) (ms : List (Member K)) (ds : List (AnyDet K)) (userFilter : ℕ)
    (h : List (ℕ × ℕ)) (ps : SimSpec.PS) (keep : Bool) : Except String (ProbsOut K) :=
  match checkHeralds h ds with
  | .error e => .error e
  | .ok false => .ok ⟨[], 1, 0⟩
  | .ok true =>
    let F := userFilter + (h.map (·.2)).sum
    let phys0 := prePhys F ms
    let T := preThreshold minP rel F ms
    let mix := mixRaw h (useMask h ds) (preKept minP rel F ms)
    let lp0 := if 0 < mix.2 ∧ 0 < phys0 then mix.2 / phys0 else mix.2
    let res := normalize mix.1
    if res.isEmpty then .ok ⟨res, phys0, 0⟩
    else
      let a := simulateThr minP T res ds (some F)
      let b := postSelect ps h keep a.1
      .ok ⟨b.1, phys0 * a.2, lp0 * b.2⟩

end PM.C08
