/-
  C03 — the two `StateVector` entry points of `Simulator` that only dispatch:

  * `Simulator.probs(StateVector)`:
        if len(input_state) == 1: return self.probs(input_state[0])      # the coefficient is never read
        return _to_bsd(self.evolve(input_state))
    — a vector of ONE component takes the route of `probs(BasicState)` (`separate_state`, cached group distributions,
    `list_tensor_product(merge_modes=True)`, normalisation by `post_select_distribution`), every other vector the
    route through `evolve` (recombined annotated vector, normalised, squared moduli, annotations cleared);
  * `Simulator.probability(StateVector, BasicState)`:
        output_state.clear_annotations(); sv_out = self.evolve(input_state)
        for state, pa in sv_out: state.clear_annotations(); if state == output_state: result += abs(pa) ** 2
    — ALWAYS the route through `evolve`, also for one component; the squared moduli of all annotated outputs whose
    occupation is the requested one are added up.

  Numbers as in Model/C03Evolve.lean.
-/
import PercevalModel.Model.C03Evolve

open Matrix

namespace PM.C03
open PM.Fock PM.Dist PM.SimSpec

/-- `Simulator.probs(StateVector)` (no heralds / post-selection): the dispatch on the number of components -/
def probsSVentry {m : ℕ} (U : Matrix (Fin m) (Fin m) GQ) (terms : List Term) : D :=
  match terms with
  | [t] => normalize (listTensor m 0 ((realGroups m t.groups).map (probsFock U)))
  | _ => probsOfEvolve U terms

/-- the loop of `Simulator.probability(StateVector, BasicState)` over an evolved vector `ev` of squared norm `n2`:
`for state, pa in sv_out: state.clear_annotations(); if state == output_state: result += abs(pa) ** 2` -/
def probabilityOf (m : ℕ) (ev : Amps GQ) (n2 : ℚ) (t : Fock) : ℚ :=
  ((ev.filter fun p => flattenTuple m p.1 == t).map fun p =>
    GQ.normSq p.2 / (((p.1.map prodFact).prod : ℕ) : ℚ) / n2).sum

/-- `Simulator.probability(StateVector, BasicState)`: the annotated outputs of the NORMALISED evolved vector whose
occupation (annotations cleared) is `t`, squared moduli added up -/
def probabilitySV {m : ℕ} (U : Matrix (Fin m) (Fin m) GQ) (terms : List Term) (t : Fock) : ℚ :=
  probabilityOf m (evolveRaw U terms) (outNorm2 U terms) t

end PM.C03
