/-
  C09 (extension) — the sample-drawing conversions of `perceval/utils/conversion.py` and
  `BSDistribution.sample` (core Lean only).

    `BSDistribution.sample(count, non_null)` → `sampleDist`   (the draws of `random.choices` are INPUTS: indices
                                               into the list of states that take part)
    `probs_to_samples(probs, count, **kw)`   → `probsToSamples`     (`non_null` keeps its default `True`: the vacuum
                                               state is never handed out)
    `sample_count_to_samples(sc, count, **kw)` → `sampleCountToSamples` (`_deduce_count`, falling back on the total
                                               of the table when it raises; zero counts produce no key)
    `samples_to_probs(samples)`              → `samplesToProbs`     (= `sample_count_to_probs ∘ samples_to_sample_count`)

  The outcome space is `{0..n-1}`; `vac[i]` tells whether state `i` holds no photon.
-/
import PercevalModel.Model.C09

namespace PM.C09

/-- indices of the states `random.choices` draws among -/
def takingPart (vac : List Bool) (nonNull : Bool) (present : List Bool) : List Nat :=
  (List.range present.length).filter fun i => present.getD i false && !(nonNull && vac.getD i false)

inductive Drawn where
  | raise (e : String)
  | bad (why : String)          -- draws outside the modelled domain
  | ok (samples : List Nat)
  deriving Repr, DecidableEq

/-- `BSDistribution.sample(count, non_null)`.  `weights[i]` is the (normalised or not) weight of state `i`,
`present[i]` whether the key exists; `draws` are the successive picks of `random.choices` (positions in the list of
states taking part). -/
def sampleDist (vac : List Bool) (nonNull : Bool) (present : List Bool) (weights : List Rat) (count : Nat)
    (draws : List Nat) : Drawn :=
  let part := takingPart vac nonNull present
  if part.isEmpty then .raise "RuntimeError"                      -- "No state to sample from"
  else if sumQ (part.map fun i => weights.getD i 0) ≤ 0 then .raise "ValueError"   -- random.choices: total weight
  else if draws.length ≠ count then .bad "draw count"
  else if draws.any (fun j => decide (part.length ≤ j)) then .bad "draw range"
  else .ok (draws.map fun j => part.getD j 0)

/-- `probs_to_samples(probs, count, max_shots=…, max_samples=…)` -/
def probsToSamples (vac : List Bool) (probs : List Rat) (count maxShots maxSamples : Option Nat)
    (draws : List Nat) : Drawn :=
  match deduceCount count maxShots maxSamples with
  | .error e => .raise e
  | .ok c => sampleDist vac true (probs.map fun _ => true) probs c draws

/-- `sample_count_to_samples(sample_count, count, max_shots=…, max_samples=…)` -/
def sampleCountToSamples (vac : List Bool) (counts : List Int) (count maxShots maxSamples : Option Nat)
    (draws : List Nat) : Drawn :=
  let c : Int := match deduceCount count maxShots maxSamples with
    | .ok c => (c : Int)
    | .error _ => sumI counts
  match countsToProbs counts with
  | .error e => .raise e
  | .ok ps =>
    if c < 0 then .bad "negative count"
    else sampleDist vac true (ps.map Option.isSome) (ps.map getQ) c.toNat draws

/-- `samples_to_probs(sample_list)` over the outcome space `{0..n-1}` -/
def samplesToProbs (n : Nat) (samples : List Nat) : Except String (List (Option Rat)) :=
  countsToProbs ((countOf n samples).map Int.ofNat)

end PM.C09
