/-
  C10 — model of `perceval/components/_mode_connector.py` (`ModeConnector.resolve`,
  `_check_consistency`, `add_heralded_modes`, `generate_permutation`) and of
  `perceval/components/experiment.py` (`Experiment._compose_experiment`, `_add_component`,
  `_add_herald`, `is_mode_connectible`, port / herald / detector / post-selection transfer).

  Bookkeeping is core Lean (`Nat`, `Int`, `List`, `Option`); the last section states what the
  appended component list means as a matrix (`Found/LinAlg.embed`, `Found/Perm.permMatL`).

  Four behaviours of the code as found are selected by the flags `RFlags.name` / `RFlags.skip` / `fixPS` /
  `fixPorts` `= false`; the main model (all `true`) is the repaired behaviour (fixes/C10-*.diff):
  * `resolve`: `{'port name': int}` on a one-mode port stored the pair and then raised
    "imbalanced ports" because `r_idx` stayed `[]`;
  * `resolve`: a dictionary item with an int key and a list / port-name value (`{0: [1]}`, `{0: 'port'}`)
    matched neither branch of the loop and was silently ignored — the mapping was judged on its other items
    only (a legal `{0: [1]}` refused as "wrong size", an item too many accepted);
  * `_compose_experiment`: the carried-over post-selection was permuted with
    `apply_permutation(perm_inv, c_first)` *before* `shift_modes(c_first)`, i.e. on the wrong modes
    whenever the first impacted mode is not 0;
  * `_compose_experiment`: a multi-mode port of the added processor was re-attached on
    `port_mode … port_mode+m-1` whatever the mapping did to its other modes; it could then cover a
    new herald mode and make `_add_herald` raise `UnavailableModeException` on a legal mapping.
  (A fifth defect, in `simplification._update_adjacent`, makes `simplify` crash on legal mappings;
  the simplifier is not modelled here — it must not change the matrix — see fixes/C10-simplify-adjacent.diff.)
-/
import PercevalModel.Found.Perm
import PercevalModel.Found.Memo

namespace PM.C10

/-! ## errors -/

inductive Err | invalid | unavailable | assertion | runtime | value
deriving DecidableEq, Repr

def Err.name : Err → String
  | .invalid => "InvalidMappingException"
  | .unavailable => "UnavailableModeException"
  | .assertion => "AssertionError"
  | .runtime => "RuntimeError"
  | .value => "ValueError"

/-! ## Python dictionaries `int -> int` (insertion ordered) -/

abbrev Dict := List (Int × Int)

/-- `d[k] = v` : overwrite in place or append -/
def dictSet (d : Dict) (k v : Int) : Dict :=
  if d.any (fun p => p.1 == k) then d.map (fun p => if p.1 == k then (k, v) else p)
  else d ++ [(k, v)]

def dictSetAll (d : Dict) (l : List (Int × Int)) : Dict := l.foldl (fun d p => dictSet d p.1 p.2) d

/-- `{k: v for k, v in l}` -/
def dictOf (l : List (Int × Int)) : Dict := dictSetAll [] l

def Dict.keys (d : Dict) : List Int := d.map (·.1)
def Dict.vals (d : Dict) : List Int := d.map (·.2)

/-! ## post-selection conditions -/

inductive Cmp | eq | gt | lt | ge | le
deriving DecidableEq, Repr

def Cmp.holds : Cmp → Nat → Nat → Bool
  | .eq, a, b => a == b
  | .gt, a, b => a > b
  | .lt, a, b => a < b
  | .ge, a, b => a ≥ b
  | .le, a, b => a ≤ b

inductive PS
  | cond (modes : List Nat) (op : Cmp) (v : Nat)
  | and (a b : PS)
  | or (a b : PS)
  | xor (a b : PS)
  | not (a : PS)
deriving Repr

/-- rename every mode index (`shift_modes`, `apply_permutation`) -/
def PS.mapModes (f : Nat → Nat) : PS → PS
  | .cond ms op v => .cond (ms.map f) op v
  | .and a b => .and (a.mapModes f) (b.mapModes f)
  | .or a b => .or (a.mapModes f) (b.mapModes f)
  | .xor a b => .xor (a.mapModes f) (b.mapModes f)
  | .not a => .not (a.mapModes f)

/-- evaluation on an occupation function (`s m` = photons on mode `m`) -/
def PS.eval (s : Nat → Nat) : PS → Bool
  | .cond ms op v => op.holds ((ms.map s).sum) v
  | .and a b => a.eval s && b.eval s
  | .or a b => a.eval s || b.eval s
  | .xor a b => Bool.xor (a.eval s) (b.eval s)
  | .not a => !a.eval s

def PS.conds : PS → List (List Nat)
  | .cond ms _ _ => [ms]
  | .and a b => a.conds ++ b.conds
  | .or a b => a.conds ++ b.conds
  | .xor a b => a.conds ++ b.conds
  | .not a => a.conds

/-- `PostSelect.can_compose_with(modes)`: every condition contains all the modes or none -/
def PS.canCompose (ps : PS) (keys : List Nat) : Bool :=
  ps.conds.all fun c => keys.all (fun k => c.contains k) || keys.all (fun k => !c.contains k)

/-- `PostSelect.is_independent_with` : no shared mode -/
def PS.independent (a b : PS) : Bool :=
  a.conds.all fun c => b.conds.all fun c' => c.all fun m => !c'.contains m

/-- `PostSelect.apply_permutation(perm_vector, first_mode)` on one mode index -/
def applyPermFn (τ : List Nat) (first m : Nat) : Nat :=
  if first ≤ m ∧ m < first + τ.length then first + τ.getD (m - first) 0 else m

/-! ## the two objects -/

structure Port where
  start : Nat
  size : Nat
  name : String
  herald : Bool
  expected : Nat
  userName : Option String
deriving Repr

/-- public state of the left experiment / of the object being added -/
structure Side where
  comp : Bool                      -- right object is a bare component (`_r_is_component`)
  m : Nat                          -- modes of interest (`right_obj.m` = `_n_modes_to_connect`)
  cs : Nat                         -- `circuit_size`
  conn : List Bool                 -- `_mode_type[i] == PHOTONIC`
  heralds : List (Nat × Nat)       -- `heralds` in dictionary order: (mode, expected)
  dets : List (Option String)      -- `_detectors`
  outp : List Port                 -- `_out_ports` (heralds in `heralds` order)
  inp : List Port
  outNames : List String           -- `out_port_names`
  inNames : List String            -- `in_port_names`
  ps : Option PS

/-- `Experiment.is_mode_connectible` -/
def connectible (cs : Nat) (conn : List Bool) (mode : Int) : Bool :=
  if mode < 0 then false
  else if mode ≥ (cs : Int) then false
  else conn.getD mode.toNat false

/-- `_get_ordered_rmodes` -/
def orderedRModes (r : Side) : List Nat :=
  if r.comp then List.range r.m
  else (List.range r.cs).filter fun x => !(r.heralds.map (·.1)).contains x

/-! ## `_check_consistency` -/

def minI : List Int → Int
  | [] => 0
  | a :: l => l.foldr min a

def checkConsistency (cs : Nat) (conn : List Bool) (n : Nat) (d : Dict) : Except Err Unit :=
  if d.length ≠ n then .error .invalid
  else if d = [] then .error .value                 -- `min()` of an empty sequence
  else if minI d.keys < 0 then .error .unavailable
  else if d.any (fun p => !connectible cs conn p.1) then .error .unavailable
  else if ¬ d.vals.Nodup then .error .invalid
  else .ok ()

/-! ## `resolve` -/

inductive MKey | int (k : Int) | name (s : String)
inductive MVal | int (v : Int) | name (s : String) | list (l : List Int)
inductive RawMap
  | ofInt (b : Int)
  | ofList (l : List Int)
  | ofDict (items : List (MKey × MVal))

/-- `_resolve_port_left/right`: `count` consecutive positions from the first occurrence -/
def resolvePort (names : List String) (name : String) : Option (List Int) :=
  let c := names.count name
  if c = 0 then none else some ((List.range c).map fun (i : Nat) => Int.ofNat (names.idxOf name + i))

/-- which behaviours of `resolve` are the repaired ones (`all`) and which are the code as found:
`name = false`: `{'port name': int}` on a one-mode port is stored and then refused ("imbalanced ports");
`skip = false`: an item with an `int` key and a list / port-name value is silently ignored. -/
structure RFlags where
  name : Bool
  skip : Bool
deriving DecidableEq, Repr

def RFlags.all : RFlags := ⟨true, true⟩

/-- the right-hand modes an item names, paired with the left modes `lidx` (the `else` branch of the loop
of `resolve`: `r_idx` from an int / a list / an input port name, then the size test, then the stores) -/
def pairItem (fx : RFlags) (r : Side) (res : Dict) (lidx : List Int) (v : MVal) : Except Err Dict := do
  let (res, ridx) ← (match v with
    | .int v =>
      if lidx.length = 1 then
        .ok (dictSet res (lidx.headD 0) v, if fx.name then [v] else [])
      else if r.comp then .error .assertion         -- `_resolve_port_right` on a component
      else .error .invalid                          -- `names.count(int) == 0`
    | .list vs => .ok (res, vs)
    | .name s =>
      if r.comp then .error .assertion
      else match resolvePort r.inNames s with
        | none => .error .invalid
        | some ridx => .ok (res, ridx) : Except Err (Dict × List Int))
  if lidx.length ≠ ridx.length then .error .invalid
  else .ok (dictSetAll res (lidx.zip ridx))

/-- the dictionary branch of `resolve`, one `(k, v)` item at a time -/
def resolveItem (fx : RFlags) (l r : Side) (res : Dict) : MKey × MVal → Except Err Dict
  | (.int k, .int v) => .ok (dictSet res k v)
  | (.int k, v) =>
    if fx.skip then pairItem fx r res [k] v          -- repaired: an int key is a one-mode port
    else .ok res                                     -- as found: silently skipped by the code
  | (.name k, v) =>
    match resolvePort l.outNames k with
    | none => .error .invalid
    | some lidx => pairItem fx r res lidx v

def resolveItems (fx : RFlags) (l r : Side) : Dict → List (MKey × MVal) → Except Err Dict
  | res, [] => .ok res
  | res, it :: rest => do
    let res ← resolveItem fx l r res it
    resolveItems fx l r res rest

/-! ### the dictionary form in closed form: the pairs every item stands for -/

/-- right-hand modes named by a value, for `n` left modes (`r_idx`, with the errors of the code) -/
def rightIdx (fx : RFlags) (r : Side) (n : Nat) : MVal → Except Err (List Int)
  | .int v =>
    if n = 1 then (if fx.name then .ok [v] else .error .invalid)
    else if r.comp then .error .assertion
    else .error .invalid
  | .list vs => .ok vs
  | .name s =>
    if r.comp then .error .assertion
    else match resolvePort r.inNames s with
      | none => .error .invalid
      | some ridx => .ok ridx

/-- left modes named by a key (`none` = the item is ignored by the code as found) -/
def leftIdx (fx : RFlags) (l : Side) : MKey → MVal → Except Err (Option (List Int))
  | .int k, .int _ => .ok (some [k])
  | .int k, _ => .ok (if fx.skip then some [k] else none)
  | .name k, _ =>
    match resolvePort l.outNames k with
    | none => .error .invalid
    | some lidx => .ok (some lidx)

/-- the `(left mode, right mode)` pairs one item of a dictionary mapping stands for -/
def itemPairs (fx : RFlags) (l r : Side) (it : MKey × MVal) : Except Err (List (Int × Int)) :=
  match it with
  | (.int k, .int v) => .ok [(k, v)]
  | (k, v) => do
    match ← leftIdx fx l k v with
    | none => .ok []
    | some lidx =>
      let ridx ← rightIdx fx r lidx.length v
      if lidx.length ≠ ridx.length then .error .invalid else .ok (lidx.zip ridx)

/-- the pairs of all the items, in order (first error wins, as in the loop) -/
def allPairs (fx : RFlags) (l r : Side) : List (MKey × MVal) → Except Err (List (Int × Int))
  | [] => .ok []
  | it :: rest => do
    let ps ← itemPairs fx l r it
    let qs ← allPairs fx l r rest
    return ps ++ qs

/-- `_mapping_type_checks` (the part reachable with int / str / list values) -/
def typeChecks (r : Side) (items : List (MKey × MVal)) : Bool :=
  items.all fun it => match it.2 with
    | .name _ => !r.comp
    | _ => true

def resolve (fixed : RFlags) (l r : Side) : RawMap → Except Err Dict
  | .ofInt b => do
    let rl := orderedRModes r
    let d := dictOf ((List.range r.m).map fun (i : Nat) => (b + Int.ofNat i, Int.ofNat (rl.getD i 0)))
    checkConsistency l.cs l.conn r.m d
    return d
  | .ofList ks => do
    let rl := orderedRModes r
    if ks.length ≠ rl.length then throw .invalid
    let d := dictOf (ks.zip (rl.map Int.ofNat))
    checkConsistency l.cs l.conn r.m d
    return d
  | .ofDict items => do
    if !typeChecks r items then throw .assertion
    let d ← resolveItems fixed l r [] items
    checkConsistency l.cs l.conn r.m d
    return d

/-! ## `add_heralded_modes`, `generate_permutation` -/

abbrev NMap := List (Nat × Nat)

def NMap.keys (mp : NMap) : List Nat := mp.map (·.1)
def NMap.vals (mp : NMap) : List Nat := mp.map (·.2)

/-- after `_check_consistency` keys are `≥ 0`; a negative value can only end in PERM's assertion -/
def toNMap (d : Dict) : Option NMap :=
  if d.all (fun p => 0 ≤ p.1 && 0 ≤ p.2) then some (d.map fun p => (p.1.toNat, p.2.toNat)) else none

/-- `mapping[new_mode_index] = pos` for the herald positions of the added processor, in order -/
def addHeraldedModes (cs : Nat) (mp : NMap) (hpos : List Nat) : NMap :=
  mp ++ (List.range hpos.length).zipWith (fun i p => (cs + i, p)) hpos

def minN : List Nat → Nat
  | [] => 0
  | a :: l => l.foldr min a

def maxN (l : List Nat) : Nat := l.foldr max 0

/-- `for mm in missing_modes: mode_mapping[mm] = max(mode_mapping.values()) + 1` -/
def fill : NMap → List Nat → NMap
  | mp, [] => mp
  | mp, mm :: rest => fill (mp ++ [(mm, maxN mp.vals + 1)]) rest

def lookupD (mp : NMap) (k : Nat) : Nat := (mp.lookup k).getD 0

def missingModes (mp : NMap) : List Nat :=
  (List.range' (minN mp.keys) (maxN mp.keys + 1 - minN mp.keys)).filter fun x => !mp.keys.contains x

/-- the completed mapping (`mode_mapping` after the loop over the missing modes) -/
def filled (mp : NMap) : NMap := fill mp (missingModes mp)

/-- `perm_vect = [mode_mapping[i] for i in sorted(mode_mapping.keys())]`; the keys of the completed
mapping are exactly `min … max`, so the sorted keys are that range -/
def permVect (mp : NMap) : List Nat :=
  (List.range' (minN mp.keys) (filled mp).length).map (lookupD (filled mp))

/-- the assertion of `PERM.__init__` -/
def permValid (v : List Nat) : Bool :=
  v ≠ [] && minN v == 0 && maxN v + 1 == v.length && decide v.Nodup

/-- `generate_permutation`: `none` = no PERM needed -/
def genPerm (mp : NMap) : Except Err (Option (List Nat)) :=
  let v := permVect mp
  if v = List.range v.length then .ok none
  else if permValid v then .ok (some v)
  else .error .assertion

/-- perm vector of the inverted PERM (`perm_inv.perm_vector`) -/
def invPerm (σ : List Nat) : List Nat := (List.range σ.length).map fun i => σ.idxOf i

/-! ## ports, heralds, detectors -/

def portAt (ports : List Port) (m : Nat) : Option Port :=
  ports.find? fun p => p.start ≤ m && m < p.start + p.size

def modesFree (ports : List Port) (start size : Nat) : Bool :=
  (List.range' start size).all fun m => (portAt ports m).isNone

/-- first key carrying value `v` (`list(keys)[list(values).index(v)]`) -/
def keyOfVal (fl : NMap) (v : Nat) : Option Nat := (fl.find? fun p => p.2 == v).map (·.1)

def heraldName (p : Port) : String := p.userName.getD "herald#"

/-- repaired port transfer: the port's modes must be sent onto consecutive modes, in order -/
def consecutive (fl : NMap) (p : Port) (pm : Nat) : Bool :=
  (List.range p.size).all fun j => keyOfVal fl (p.start + j) == some (pm + j)

/-- the output-port loop of `_compose_experiment` -/
def transferOut (fixPorts : Bool) (fl : NMap) :
    List Port × List Port → List Port → Except Err (List Port × List Port)
  | st, [] => .ok st
  | (inp, outp), p :: rest =>
    match keyOfVal fl p.start with
    | none => .error .value
    | some pm =>
      if p.herald then
        if modesFree inp pm 1 && modesFree outp pm 1 then
          let h : Port := { p with start := pm, size := 1, name := heraldName p }
          transferOut fixPorts fl (inp ++ [h], outp ++ [h]) rest
        else .error .unavailable
      else if (!fixPorts || consecutive fl p pm) && modesFree outp pm p.size then
        transferOut fixPorts fl (inp, outp ++ [{ p with start := pm }]) rest
      else transferOut fixPorts fl (inp, outp) rest

/-- the input-port loop -/
def transferIn (fixPorts : Bool) (fl : NMap) : List Port → List Port → Except Err (List Port)
  | inp, [] => .ok inp
  | inp, p :: rest =>
    match keyOfVal fl p.start with
    | none => .error .value
    | some pm =>
      if (!fixPorts || consecutive fl p pm) && modesFree inp pm p.size then
        transferIn fixPorts fl (inp ++ [{ p with start := pm }]) rest
      else transferIn fixPorts fl inp rest

/-- `in_port_names` / `out_port_names` (`none` = IndexError: a port reaches past the last mode) -/
def portNames (cs : Nat) (ports : List Port) : Option (List String) :=
  ports.foldl (fun acc p => acc.bind fun names =>
    if p.start + p.size ≤ cs then
      some ((List.range cs).zipWith (fun i n => if p.start ≤ i && i < p.start + p.size then p.name else n) names)
    else none) (some (List.replicate cs ""))

/-- the `heralds` property -/
def heraldsOf (outp : List Port) : List (Nat × Nat) :=
  (outp.filter (·.herald)).map fun p => (p.start, p.expected)

/-! ## the whole `Processor.add` -/

structure Result where
  map : NMap                       -- resolved user mapping
  full : NMap                      -- completed mapping
  first : Nat
  perm : Option (List Nat)
  inv : Option (List Nat)
  cs : Nat
  conn : List Bool                 -- `_mode_type[i] == PHOTONIC` after the add
  heralds : List (Nat × Nat)
  dets : List (Option String)
  inp : List Port
  outp : List Port
  ps : Option PS

/-- `circuit_size` after the add: a bare component adds no mode, a processor appends one mode per herald -/
def csAfter (l r : Side) : Nat := if r.comp then l.cs else l.cs + r.heralds.length

/-- `_mode_type` after the add (as `== PHOTONIC`): `self._mode_type += [ModeType.HERALD] * n_new_heralds`
— the modes imported for the heralds of the added processor are reserved, the old ones keep their type
(`_add_herald` re-types the new modes `HERALD` again, which changes nothing) -/
def connAfter (l r : Side) : List Bool :=
  if r.comp then l.conn else l.conn ++ List.replicate r.heralds.length false

/-- post-selection of the added processor in the numbering of the composed processor -/
def renamePS (fixed : Bool) (inv : Option (List Nat)) (first : Nat) (ps : PS) : PS :=
  match inv with
  | none => ps.mapModes (· + first)
  | some τ =>
    if fixed then (ps.mapModes (applyPermFn τ 0)).mapModes (· + first)
    else (ps.mapModes (applyPermFn τ first)).mapModes (· + first)

def validatePS (l : Side) (keys : List Nat) : Except Err Unit :=
  match l.ps with
  | some ps => if ps.canCompose keys then .ok () else .error .assertion
  | none => .ok ()

def removePorts (keep : Bool) (outp : List Port) (keys : List Nat) : List Port :=
  if keep then outp
  else outp.filter fun p => !keys.any fun k => p.start ≤ k && k < p.start + p.size

def compose (fixName : RFlags) (fixPS fixPorts : Bool) (l r : Side) (raw : RawMap) (keepPort : Bool) :
    Except Err Result := do
  let d ← resolve fixName l r raw
  let keys := d.keys.map Int.toNat
  validatePS l keys
  let outp0 := removePorts keepPort l.outp keys
  match toNMap d with
  | none => throw .assertion
  | some mp =>
    if r.comp then
      -- `_add_component`
      let perm ← genPerm mp
      return { map := mp, full := filled mp, first := minN mp.keys, perm := perm, inv := none,
               cs := csAfter l r, conn := connAfter l r, heralds := heraldsOf outp0, dets := l.dets,
               inp := l.inp, outp := outp0, ps := l.ps }
    else
      -- `_compose_experiment`
      let hpos := r.heralds.map (·.1)
      let mpH := addHeraldedModes l.cs mp hpos
      let dets := l.dets ++ hpos.map fun p => r.dets.getD p none
      let perm ← genPerm mpH
      let fl := filled mpH
      let first := minN mpH.keys
      let inv := perm.map invPerm
      let (inp1, outp1) ← transferOut fixPorts fl (l.inp, outp0) r.outp
      let inp2 ← transferIn fixPorts fl inp1 r.inp
      let ps ← (match r.ps with
        | none => .ok l.ps
        | some q =>
          let q' := renamePS fixPS inv first q
          match l.ps with
          | none => .ok (some q')
          | some p => if p.independent q' then .ok (some (.and p q')) else .error .runtime
        : Except Err (Option PS))
      return { map := mp, full := fl, first := first, perm := perm, inv := inv, cs := csAfter l r,
               conn := connAfter l r, heralds := heraldsOf outp1, dets := dets, inp := inp2,
               outp := outp1, ps := ps }

/-! ## what the appended components are, as a matrix

`_compose_experiment` appends `PERM(σ)` on modes `first …`, the added processor's components
shifted by `first`, then the inverted PERM; `_add_component` appends `PERM(σ)` and the component.
`C` is the matrix of the added object on its own `k` modes. -/

open Matrix

variable {R : Type} [CommRing R] [StarRing R]

/-- matrix of `PERM(σ)` placed on modes `first … first+L-1` of an `N`-mode circuit -/
def permAt (N first : ℕ) (σ : Option (List ℕ)) : Matrix (Fin N) (Fin N) R :=
  match σ with
  | none => 1
  | some s => embed N first (permMatL (R := R) s.length s)

/-- the inverted PERM (`perm_component.copy().inverse(h=True)` = conjugate transpose) -/
def permInvAt (N first : ℕ) (σ : Option (List ℕ)) : Matrix (Fin N) (Fin N) R :=
  match σ with
  | none => 1
  | some s => embed N first (permMatL (R := R) s.length s)ᴴ

def composeMatV (N first k : ℕ) (σ : Option (List ℕ)) (isProc : Bool)
    (C : Matrix (Fin k) (Fin k) R) (left : Matrix (Fin N) (Fin N) R) : MatV R N N :=
  let a := MatV.ofMatrix (permAt N first σ * left)
  let b := MatV.ofMatrix (embed N first C * a.toMatrix)
  if isProc then MatV.ofMatrix (permInvAt N first σ * b.toMatrix) else b

/-- the matrix `linear_circuit().compute_unitary()` reports after the `add` -/
def composeMat (N first k : ℕ) (σ : Option (List ℕ)) (isProc : Bool)
    (C : Matrix (Fin k) (Fin k) R) (left : Matrix (Fin N) (Fin N) R) : Matrix (Fin N) (Fin N) R :=
  (composeMatV N first k σ isProc C left).toMatrix

end PM.C10
