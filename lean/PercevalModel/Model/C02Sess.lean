/-
  C02 — the configuration glue of `AStrongSimulationBackend` (`_abstract_backends.py`) AS WRITTEN:
  `set_circuit`, `set_input_state`, `set_mask(masks, n)`, `clear_mask`, `_init_mask`, the iterator cache
  `_cache_iterator` keyed by the photon number of the input, and the bulk queries (`all_prob(input_state)`,
  `all_prob()`, `prob_distribution()`, `evolve()`) that list the states of `_get_iterator`.
  Core Lean + `Found/Fock` only.  A python exception (assertion, IndexError, AttributeError) ends the
  session: `step` returns `.error` and nothing is said about the object afterwards.
-/
import PercevalModel.Found.Fock

namespace PM.C02.Sess
open PM.Fock

abbrev Mask := List (Option ℕ)

/-- the native `xq.FSMask(m, n, masks)` object: what it was built with -/
structure MaskObj where
  m : ℕ
  n : ℕ
  masks : List Mask
deriving DecidableEq, Repr

/-- the fields of the python object -/
structure St where
  /-- `_circuit` (its mode count) -/
  circ : Option ℕ := none
  /-- `_input_state` -/
  input : Option (List ℕ) := none
  /-- `_masks_str` -/
  masksStr : Option (List Mask) := none
  /-- `_mask_n` -/
  maskN : Option ℕ := none
  /-- `_mask` -/
  mask : Option MaskObj := none
  /-- `_cache_iterator`: photon number ↦ tuple of states (most recent entry first) -/
  cache : List (ℕ × List (List ℕ)) := []

inductive Op where
  | setCircuit (m : ℕ)
  | setInput (s : List ℕ)
  | setMask (masks : List Mask) (n : Option ℕ)
  | clearMask
  /-- `all_prob(input_state)` (`some s`) or `all_prob()` / `prob_distribution()` / `evolve()` (`none`) -/
  | bulk (s : Option (List ℕ))

/-- `self._mask_n or instate.n`: a photon number 0 given to `set_mask` is falsy -/
def effN (maskN : Option ℕ) (n : ℕ) : ℕ :=
  match maskN with
  | some k => if k = 0 then n else k
  | none => n

/-- enumeration of `xq.FSArray(m, n[, mask])`: the native mask instantiated for `k.n` photons keeps the
states whose deficit fits in the slack `k.n - n`, and nothing when `k.n < n` (native semantics: swept
exhaustively against the extension for m ≤ 3, n ≤ 3, mask n ≤ 4 when this model was written, and compared
on every run by the session correspondence) -/
def arrayStates (m n : ℕ) (mask : Option MaskObj) : List (List ℕ) :=
  match mask with
  | none => allStates m n
  | some k => if k.n < n then [] else allStatesMasked m n k.masks (k.n - n)

/-- `_init_mask` -/
def initMask (st : St) : Except String St :=
  match st.masksStr, st.input with
  | some ms, some s =>
    if (ms.headD []).length ≠ s.length then .error "mask-length"
    else .ok { st with mask := some ⟨s.length, effN st.maskN s.sum, ms⟩ }
  | _, _ => .ok st

/-- `clear_mask` (with `clear_iterator_cache`) -/
def clearMask (st : St) : St :=
  { st with masksStr := none, mask := none, maskN := none, cache := [] }

/-- `set_input_state`: `_check_state`, assignment, `_init_mask` -/
def setInput (st : St) (s : List ℕ) : Except String St :=
  match st.circ with
  | none => .error "no-circuit"
  | some m => if m ≠ s.length then .error "size-mismatch" else initMask { st with input := some s }

def cacheGet (c : List (ℕ × List (List ℕ))) (n : ℕ) : Option (List (List ℕ)) :=
  (c.find? fun p => p.1 == n).map Prod.snd

/-- `_get_iterator(input_state)`: keyed by the photon number only; the mask object of the moment is used
when the entry is built -/
def getIter (st : St) (s : List ℕ) : St × List (List ℕ) :=
  match cacheGet st.cache s.sum with
  | some l => (st, l)
  | none =>
    let l := arrayStates s.length s.sum st.mask
    ({ st with cache := (s.sum, l) :: st.cache }, l)

def step (st : St) : Op → Except String (St × Option (List (List ℕ)))
  | .setCircuit m =>
    -- `if self._circuit and circuit.m != self._circuit: self.clear_iterator_cache()`: a circuit object is
    -- truthy and an int never equals it, so the cache is cleared whenever a circuit was set before
    let st1 := if st.circ.isSome then { st with cache := [] } else st
    .ok ({ st1 with input := none, circ := some m }, none)
  | .setInput s => do
    let st' ← setInput st s
    pure (st', none)
  | .setMask masks n =>
    let st1 := clearMask st
    match masks with
    | [] => .error "empty-masks"
    | k0 :: _ =>
      if masks.any (fun k => k.length != k0.length) then .error "inconsistent-masks"
      else do
        let st2 ← initMask { st1 with masksStr := some masks, maskN := n }
        pure (st2, none)
  | .clearMask => .ok (clearMask st, none)
  | .bulk so => do
    let st1 ← match so with
      | some s => setInput st s
      | none => pure st
    match st1.input with
    | none => .error "no-input"
    | some s =>
      let r := getIter st1 s
      pure (r.1, some r.2)

/-- what the CURRENT configuration alone prescribes for the input `s`: the states of the `(m, n)` space kept
by the current mask strings instantiated for `_mask_n or n` photons -/
def spec (st : St) (s : List ℕ) : List (List ℕ) :=
  arrayStates s.length s.sum (st.masksStr.map fun ms => ⟨s.length, effN st.maskN s.sum, ms⟩)

/-- the objects a session can reach without an exception -/
inductive Reachable : St → Prop where
  | init : Reachable {}
  | step {st st' : St} {op : Op} {out : Option (List (List ℕ))} :
      Reachable st → step st op = .ok (st', out) → Reachable st'

/-- run a session; stops at the first exception, keeping the answers so far -/
def runOps : St → List Op → List (Except String (Option (List (List ℕ))))
  | _, [] => []
  | st, op :: ops =>
    match step st op with
    | .ok (st', out) => .ok out :: runOps st' ops
    | .error e => [.error e]

end PM.C02.Sess
