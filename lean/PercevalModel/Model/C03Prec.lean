/-
  C03 — `Simulator.probs_svd` at a NON-ZERO precision: what each stage leaves out, computed exactly.

  Stage 1  `_preprocess_svd`: members of weight at most the relative threshold, before the split by photon
           number (`θ₁`) and again after the sectors were accumulated onto equal keys (`θ₂`): `preDropped`.
  Stage 2  `_probs_svd_fast`: `list_tensor_product(prob_threshold = θ/(10·w))` prunes partial products — an
           incoherent loss: the pruned probability of every outcome is `get (memberFast 0) − get (memberFast θ)`.
  Stage 3  `_probs_svd_generic`: `_merge_sv(prob_threshold = θ/(10·|c|²·w))` leaves out products of group
           amplitudes — a coherent loss: per annotated output `k` the kept amplitude `b_k`, the dropped amplitude
           `l_k = a_k − b_k`, their probabilities `β_k`, `λ_k`; the probability of `k` changes by at most
           `λ_k + 2·√β_k·√λ_k` (`keyErr`, with rational upper square roots).
  The error of the un-normalised result is `errAt` per outcome and `errTot` in total; the final
  `res.normalize()` turns them into `(errAt t + P(t)·errTot) / mass` (Props/C03, section 10).
-/
import PercevalModel.Model.C03
import Mathlib.Algebra.Order.Floor.Semiring
import Mathlib.Data.Rat.Floor
import Mathlib.Data.Nat.Sqrt

open Matrix

namespace PM.C03
open PM.Fock PM.Dist PM.SimSpec

/-! ### a rational upper square root -/

def sqrtScale : ℕ := 10 ^ 15

/-- `x ≤ (sqrtUp x)²` and `0 ≤ sqrtUp x` for every `x` (`sqrtUp_sq`); exceeds `√x` by at most `2/10¹⁵`;
`sqrtUp x = 0` for `x ≤ 0` -/
def sqrtUp (x : ℚ) : ℚ :=
  if x ≤ 0 then 0
  else ((Nat.sqrt ⌈x * ((sqrtScale * sqrtScale : ℕ) : ℚ)⌉₊ + 1 : ℕ) : ℚ) / (sqrtScale : ℚ)

/-! ### the un-normalised result of `probs_svd` -/

/-- `_probs_svd_fast` / `_probs_svd_generic` up to, not including, the final `res.normalize()` -/
def rawSvd {m : ℕ} (U : Matrix (Fin m) (Fin m) GQ) (prec minp : ℚ) (ms : List Member) : D :=
  let pre := preprocess prec minp ms
  accumAll (pre.kept.map fun mb =>
    (mb.w, if pre.superposed then memberGenericθ U pre.θ mb else memberFast U pre.θ mb))

/-! ### stage 1: the members `_preprocess_svd` leaves out -/

/-- the dict `trimmed_svd` after `trimmed_svd[sv] += p` for every sector in `to_add` -/
def accSplit (t₁ : List Member) : List Member :=
  partAddAll t₁ (partAddAll [] ((t₁.filter needsSplit).flatMap splitByN))

/-- what `_preprocess_svd` leaves out: the members at or below the first threshold and — when a member was
split — the members and accumulated sectors at or below the second one -/
def preDropped (prec minp : ℚ) (ms : List Member) : List Member :=
  let θ₁ := max minp (maxW 0 ms * prec)
  let t₁ := ms.filter (θ₁ < ·.w)
  let d₁ := ms.filter fun mb => !decide (θ₁ < mb.w)
  if t₁.any needsSplit then
    d₁ ++ (accSplit t₁).filter fun mb => !needsSplit mb && !decide ((preprocess prec minp ms).θ < mb.w)
  else d₁

/-- `∑ w · (total probability of the member)` -/
def mixMass (f : List Term → D) (ms : List Member) : ℚ := (ms.map fun mb => mb.w * mass (f mb.terms)).sum

/-- probability of the outcome `t` lost with the trimmed members -/
def trimAt {m : ℕ} (U : Matrix (Fin m) (Fin m) GQ) (prec minp : ℚ) (ms : List Member) (t : Fock) : ℚ :=
  mixAt (probsSV U) (preDropped prec minp ms) t

/-- total probability lost with the trimmed members -/
def trimMass {m : ℕ} (U : Matrix (Fin m) (Fin m) GQ) (prec minp : ℚ) (ms : List Member) : ℚ :=
  mixMass (probsSV U) (preDropped prec minp ms)

/-! ### stage 3: the amplitude threshold of `_merge_sv` -/

/-- the components `result_sv` is the sum of (before equal annotated outputs are gathered) -/
def ampsθ {m : ℕ} (U : Matrix (Fin m) (Fin m) GQ) (θ : ℚ) (mb : Member) : Amps GQ :=
  mb.terms.flatMap fun t =>
    (evolveTermθ U (θ / (10 * (termW t / svNorm2 mb.terms) * mb.w)) t.groups).map fun x => (x.1, t.coef * x.2.1)

/-- the annotated outputs met with or without the threshold -/
def keysG {m : ℕ} (U : Matrix (Fin m) (Fin m) GQ) (θ : ℚ) (mb : Member) : List (List Fock) :=
  ((ampsθ U 0 mb ++ ampsθ U θ mb).map (·.1)).dedup

/-- scale from squared un-normalised amplitudes of the annotated output `k` to probabilities -/
def keyScale (n2 : ℚ) (k : List Fock) : ℚ := (((k.map prodFact).prod : ℕ) : ℚ)⁻¹ * n2⁻¹

/-- probability of an annotated output computed from its kept amplitude `b` -/
def keptPOf (n2 : ℚ) (b : GQ) (k : List Fock) : ℚ := GQ.normSq b * keyScale n2 k

/-- squared modulus (probability scale) of the amplitude left out: `a` without, `b` with the threshold -/
def droppedPOf (n2 : ℚ) (a b : GQ) (k : List Fock) : ℚ := GQ.normSq (a - b) * keyScale n2 k

/-- largest change of the probability of `k`: `| |b+l|² − |b|² | ≤ |l|² + 2·|b|·|l|` -/
def keyErrOf (n2 : ℚ) (a b : GQ) (k : List Fock) : ℚ :=
  droppedPOf n2 a b k + 2 * sqrtUp (keptPOf n2 b k) * sqrtUp (droppedPOf n2 a b k)

/-- probability of the annotated output `k` computed from the kept components -/
def keptP {m : ℕ} (U : Matrix (Fin m) (Fin m) GQ) (θ : ℚ) (mb : Member) (k : List Fock) : ℚ :=
  keptPOf (svNorm2 mb.terms) (ampGet (ampsθ U θ mb) k) k

/-- squared modulus of the amplitude the threshold left out of the annotated output `k` (probability scale) -/
def droppedP {m : ℕ} (U : Matrix (Fin m) (Fin m) GQ) (θ : ℚ) (mb : Member) (k : List Fock) : ℚ :=
  droppedPOf (svNorm2 mb.terms) (ampGet (ampsθ U 0 mb) k) (ampGet (ampsθ U θ mb) k) k

def keyErr {m : ℕ} (U : Matrix (Fin m) (Fin m) GQ) (θ : ℚ) (mb : Member) (k : List Fock) : ℚ :=
  keyErrOf (svNorm2 mb.terms) (ampGet (ampsθ U 0 mb) k) (ampGet (ampsθ U θ mb) k) k

/-- the error bounds of the annotated outputs as a distribution over the outcomes
(`= (keysG U θ mb).map fun k => (flattenTuple m k, keyErr U θ mb k)`, the component lists evaluated once) -/
def genericErrD {m : ℕ} (U : Matrix (Fin m) (Fin m) GQ) (θ : ℚ) (mb : Member) : D :=
  let a0 := ampsθ U 0 mb
  let aθ := ampsθ U θ mb
  let n2 := svNorm2 mb.terms
  ((a0 ++ aθ).map (·.1)).dedup.map fun k => (flattenTuple m k, keyErrOf n2 (ampGet a0 k) (ampGet aθ k) k)

/-! ### one member, either path -/

def memberAt {m : ℕ} (U : Matrix (Fin m) (Fin m) GQ) (sup : Bool) (θ : ℚ) (mb : Member) : D :=
  if sup then memberGenericθ U θ mb else memberFast U θ mb

/-- bound on the change of the member's probability of `t` caused by the internal threshold -/
def memberErrAt {m : ℕ} (U : Matrix (Fin m) (Fin m) GQ) (sup : Bool) (θ : ℚ) (mb : Member) (t : Fock) : ℚ :=
  if sup then get (genericErrD U θ mb) t else get (memberFast U 0 mb) t - get (memberFast U θ mb) t

/-- … summed over the outcomes -/
def memberErrTot {m : ℕ} (U : Matrix (Fin m) (Fin m) GQ) (sup : Bool) (θ : ℚ) (mb : Member) : ℚ :=
  if sup then mass (genericErrD U θ mb) else mass (memberFast U 0 mb) - mass (memberFast U θ mb)

/-! ### the whole pipeline -/

/-- bound on `|un-normalised probs_svd(t) at the given precision − at precision 0|` -/
def errAt {m : ℕ} (U : Matrix (Fin m) (Fin m) GQ) (prec minp : ℚ) (ms : List Member) (t : Fock) : ℚ :=
  let pre := preprocess prec minp ms
  trimAt U prec minp ms t + (pre.kept.map fun mb => mb.w * memberErrAt U pre.superposed pre.θ mb t).sum

/-- … summed over the outcomes -/
def errTot {m : ℕ} (U : Matrix (Fin m) (Fin m) GQ) (prec minp : ℚ) (ms : List Member) : ℚ :=
  let pre := preprocess prec minp ms
  trimMass U prec minp ms + (pre.kept.map fun mb => mb.w * memberErrTot U pre.superposed pre.θ mb).sum

/-- the bound after the final normalisation -/
def errNormAt {m : ℕ} (U : Matrix (Fin m) (Fin m) GQ) (prec minp : ℚ) (ms : List Member) (t : Fock) : ℚ :=
  (errAt U prec minp ms t + get (probsSvd U 0 0 ms) t * errTot U prec minp ms) / mass (rawSvd U prec minp ms)

/-! ### the same bounds as ONE list (what the driver evaluates: every member is visited once) -/

def memberErrD {m : ℕ} (U : Matrix (Fin m) (Fin m) GQ) (sup : Bool) (θ : ℚ) (mb : Member) : D :=
  if sup then genericErrD U θ mb else memberFast U 0 mb ++ scale (-1) (memberFast U θ mb)

/-- `get (errD …) t = errAt … t` and `mass (errD …) = errTot …` (`errD_spec`) -/
def errD {m : ℕ} (U : Matrix (Fin m) (Fin m) GQ) (prec minp : ℚ) (ms : List Member) : D :=
  let pre := preprocess prec minp ms
  mix ((preDropped prec minp ms).map fun mb => (mb.w, probsSV U mb.terms)) ++
    mix (pre.kept.map fun mb => (mb.w, memberErrD U pre.superposed pre.θ mb))

end PM.C03
