/-
  C11 — MIXED histories on one circuit object: `inverse(v, h)` / `copy()` / `flatten` together with the steps
  that REBUILD the component list — `simplify(display)`, `decompose_perms(merge)`, `non_unitary_circuit()`
  (regrouping of an all-unitary circuit into one `Unitary` block) — as steps of ONE history machine.

  `Model/C11Chain.lean` runs inverse / copy / flatten on circuit trees in which a `PERM` is a `Unitary`
  (`Leaf.un`); the list-rebuilding steps need more: `simplify` and `decompose_perms` test
  `isinstance(c, PERM)` and read `c.perm_vector` (recomputed from the matrix `_u` on every access), `simplify`
  reads `float(c.param("phi"))` of a `PS`.  So the state here is the FLATTENED view of the object — the list
  `for r, c in circuit` iterates, which is what every one of these functions works on — with the class of each
  component: `FK.perm n σ` (a `PERM` whose `perm_vector` is `σ`), `FK.ps φ` (a `PS` with numeric phase),
  `FK.leaf l` (anything else: `BS`, `Unitary`, `Barrier`).

  * `inverse(v, h)`: ranges mapped for `v`, order reversed for `h`, every component inverted; a `PERM` stays
    a `PERM`, its `perm_vector` becomes the vector of the flipped / inverted matrix (`permInv`);
  * `simplify`: the deterministic loop `simplifyDet` of `Model/C11Heur.lean` on the items of the list (every
    non-PERM non-PS component is an opaque `other i`, `i` its position), the result read through the same table;
  * `decompose_perms`: every `PERM` that is not a two-mode one is replaced by the swaps of `bubble`
    (`merge` only decides whether the swaps are nested in a sub-circuit: not visible in the flattened view);
  * `non_unitary_circuit()` of a processor holding only unitary components: ONE block
    `Unitary(u[min_r:max_r, min_r:max_r])` (`regroup` of `Model/C11.lean` on an all-unitary list).
-/
import PercevalModel.Model.C11
import PercevalModel.Model.C11Heur

open Matrix

namespace PM.C11
variable {P R : Type}

/-- `-float(phi)` of `PS.inverse(h=True)` -/
class PhaseNeg (P : Type) where
  neg : P → P

/-- a component of the flattened view, with its class -/
inductive FK (P R : Type) where
  | perm (n : ℕ) (σ : List ℕ)
  | ps (φ : P)
  | leaf (l : Leaf R)

def FK.size : FK P R → ℕ
  | .perm n _ => n
  | .ps _ => 1
  | .leaf l => l.size

/-- `perm_vector` of `np.flip(u)`: `σ'[j] = n-1-σ[n-1-j]` -/
def flipPerm (n : ℕ) (σ : List ℕ) : List ℕ :=
  (List.range n).map fun j => n - 1 - σ.getD (n - 1 - j) n

/-- `perm_vector` after `Unitary.inverse(v, h)`: flipped for `v`, then inverted for `h` -/
def permInv (v h : Bool) (n : ℕ) (σ : List ℕ) : List ℕ :=
  let σ1 := if v then flipPerm n σ else σ
  if h then invertPerm σ1 else σ1

/-- `component.inverse(v, h)` (repaired code) -/
def FK.inv [Neg R] [Star R] [PhaseNeg P] (v h : Bool) : FK P R → FK P R
  | .perm n σ => .perm n (permInv v h n σ)
  | .ps φ => .ps (if h then PhaseNeg.neg φ else φ)
  | .leaf l => .leaf (l.inv true v h)

/-- the flattened view of a circuit object: `(first port, component)` in circuit order -/
abbrev MS (P R : Type) := List (ℕ × FK P R)

/-- `Circuit.inverse(v, h)` seen on the flattened view -/
def MS.inv [Neg R] [Star R] [PhaseNeg P] (m : ℕ) (v h : Bool) (st : MS P R) : MS P R :=
  let mapped := st.map fun p => (if v then m - p.1 - p.2.size else p.1, p.2.inv v h)
  if h then mapped.reverse else mapped

/-- what `simplify` sees of a component at position `i` of the iteration -/
def FK.kind (i : ℕ) : FK P R → Kind P
  | .perm _ σ => .perm σ
  | .ps φ => .ps φ
  | .leaf _ => .other i

/-- the items `simplify` iterates over, positions counted from `k` -/
def MS.itemsFrom : ℕ → MS P R → List (Item P)
  | _, [] => []
  | k, p :: rest => ⟨p.1, p.2.size, p.2.kind k⟩ :: MS.itemsFrom (k + 1) rest

/-- the opaque component at position `i` -/
def MS.tbl (st : MS P R) (i : ℕ) : Leaf R :=
  match st[i]? with
  | some (_, .leaf l) => l
  | _ => .barrier 0

/-- an item of the simplified list, read back through the table of opaque components -/
def Item.toFK [One R] (tbl : ℕ → Leaf R) (it : Item P) : ℕ × FK P R :=
  (it.r0, match it.k with
    | .perm σ => .perm it.w σ
    | .ps φ => .ps φ
    | .psVar _ => .leaf (.ps 1)
    | .other i => .leaf (tbl i))

/-- each component with the rounding outcome of its drop test (`false` when the list is too short) -/
def withDrops : List (Item P) → List Bool → List (Item P × Bool)
  | [], _ => []
  | it :: r, [] => (it, false) :: withDrops r []
  | it :: r, d :: ds => (it, d) :: withDrops r ds

/-- `simplify(circuit, display)`: the loop with the real heuristic (`simplifyDet`) -/
def MS.simp [One R] [PhaseAlg P] (m : ℕ) (display : Bool) (drops : List Bool) (st : MS P R) : MS P R :=
  match simplifyDet m display (withDrops (st.itemsFrom 0) drops) [] with
  | some l => l.map (Item.toFK st.tbl)
  | none => st

/-- `decompose_perms(circuit, merge)`: `break_in_2_mode_perms` returns a two-mode `PERM` itself, every other one
as its bubble-sort swaps (a one-mode `PERM` disappears) -/
def MS.decomp (st : MS P R) : MS P R :=
  st.flatMap fun p =>
    match p.2 with
    | .perm n σ => if n = 2 then [p] else (bubble σ).map fun k => (p.1 + k, .perm 2 [1, 0])
    | _ => [p]

/-- the component as a leaf of the tree model (`PERM` is a `Unitary`; a `PS` through its unit phase) -/
def FK.toCmp [Zero R] [One R] (e : P → R) : FK P R → Cmp R
  | .perm n σ => .leaf (.un n (permMatL n σ))
  | .ps φ => .leaf (.ps (e φ))
  | .leaf l => .leaf l

def MS.cmps [Zero R] [One R] (e : P → R) (st : MS P R) : List (ℕ × Cmp R) :=
  st.map fun p => (p.1, p.2.toCmp e)

/-- `Processor.non_unitary_circuit()` when every component is unitary: nothing for an empty circuit, otherwise
one block `Unitary(u[min_r:max_r, min_r:max_r])` at `min_r` -/
def MS.regroup [CommRing R] (I : R) (e : P → R) (m : ℕ) (st : MS P R) : MS P R :=
  if st.isEmpty then []
  else
    let cs := st.cmps e
    let mm := pendingRange I m cs
    [(mm.1, .leaf (.un (mm.2 - mm.1) (Group.blockMat I m mm.1 (mm.2 - mm.1) cs)))]

/-- the matrix of the circuit -/
def MS.U [CommRing R] (I : R) (e : P → R) (m : ℕ) (st : MS P R) : Matrix (Fin m) (Fin m) R :=
  prodList I m (st.cmps e)

/-- one transformation of the object -/
inductive MStep where
  | inv (v h : Bool)
  | copy
  | flat
  | simp (display : Bool) (drops : List Bool)
  | decomp (merge : Bool)
  | regroup
deriving Repr

def MStep.apply [CommRing R] [Star R] [PhaseAlg P] [PhaseNeg P] (I : R) (e : P → R) (m : ℕ) :
    MStep → MS P R → MS P R
  | .inv v h, st => st.inv m v h
  | .copy, st => st
  | .flat, st => st
  | .simp d drops, st => st.simp m d drops
  | .decomp _, st => st.decomp
  | .regroup, st => st.regroup I e m

def mchain [CommRing R] [Star R] [PhaseAlg P] [PhaseNeg P] (I : R) (e : P → R) (m : ℕ)
    (steps : List MStep) (st : MS P R) : MS P R :=
  steps.foldl (fun t s => s.apply I e m t) st

/-- the advertised effect of one step on the matrix: `inverse` flips / inverts, everything else keeps it -/
def MStep.law [Star R] {n : ℕ} : MStep → Matrix (Fin n) (Fin n) R → Matrix (Fin n) (Fin n) R
  | .inv v h, M => xform v h M
  | _, M => M

def mlaw [Star R] {n : ℕ} (steps : List MStep) (M : Matrix (Fin n) (Fin n) R) : Matrix (Fin n) (Fin n) R :=
  steps.foldl (fun M s => s.law M) M

end PM.C11
