/-
  C12 — model of `perceval/utils/algorithms/solve.py: solve` (the code as it is).

  ```
  def solve(f, x0, constraint, bounds, precision, allow_error=False):
      if len(x0) == 0:
          if abs(f([])) < precision:
              return []
      for i, c in enumerate(constraint):
          if c is not None:
              c = float(c)
              res = solve(lambda x: f([*x[:i], c, *x[i:]]), x0[:i]+x0[i+1:], constraint[:i]+constraint[i+1:], …)
              if res is None:
                  return None
              return [*res[:i], c, *res[i:]]
      if x0:
          res = so.minimize(f, x0, …)   (+ Nelder-Mead polish)
          f_x = res.fun; x = res.x
      else:
          f_x = f([]); x = []
      if f_x > precision and not allow_error:
          return None
      return x
  ```

  What is modelled: the recursion that removes the imposed parameters one by one (first imposed entry, `x0` and
  `constraint` shortened at the same index, `f` re-indexed by `splice`, result re-assembled by `splice`), the early
  exit for an empty `x0`, the final acceptance test.  What is an oracle: the numerical minimiser — `opt f x0` is
  ANY function returning a point (`res.x`); the model takes `res.fun` to be `f res.x` (what scipy reports).
  `bounds` only parametrise the minimiser and are part of the oracle.

  Polymorphic in the parameter type `α` and in the value type `β` of `f` (any linearly ordered additive group; in
  `decompose_triangle`, `f = |cU_inv[0,0]·u[n,j] + cU_inv[0,1]·u[n+1,j]|`).  Core Lean + the order/abs notions only.
-/
import Mathlib.Algebra.Order.Group.Abs

namespace PM.C12.Solve

variable {α β : Type}

/-- `[*x[:i], c, *x[i:]]` -/
def splice (i : ℕ) (c : α) (x : List α) : List α := x.take i ++ c :: x.drop i

/-- `for i, c in enumerate(constraint): if c is not None:` — index and value of the first imposed entry -/
def firstSome : List (Option α) → Option (ℕ × α)
  | [] => none
  | some c :: _ => some (0, c)
  | none :: cs => (firstSome cs).map fun p => (p.1 + 1, p.2)

theorem firstSome_lt : ∀ {cs : List (Option α)} {i : ℕ} {c : α}, firstSome cs = some (i, c) → i < cs.length
  | [], _, _, h => by simp [firstSome] at h
  | some _ :: _, i, c, h => by
    simp only [firstSome, Option.some.injEq, Prod.mk.injEq] at h
    simp [← h.1]
  | none :: cs, i, c, h => by
    simp only [firstSome, Option.map_eq_some_iff] at h
    obtain ⟨⟨i', c'⟩, h', he⟩ := h
    have := firstSome_lt h'
    simp only [Prod.mk.injEq] at he
    simp only [List.length_cons]
    omega

set_option linter.unusedVariables false in
/-- `solve(f, x0, constraint, bounds, precision, allow_error)`; `none` is `return None`. -/
def solve [AddGroup β] [LinearOrder β] (opt : (List α → β) → List α → List α) (allowError : Bool) (prec : β)
    (f : List α → β) (x0 : List α) (cs : List (Option α)) : Option (List α) :=
  if x0.isEmpty = true ∧ |f []| < prec then some []
  else
    match h : firstSome cs with
    | some (i, c) =>
      (solve opt allowError prec (fun x => f (splice i c x)) (x0.eraseIdx i) (cs.eraseIdx i)).map (splice i c)
    | none =>
      let x := if x0.isEmpty then [] else opt f x0
      if prec < f x ∧ allowError = false then none else some x
termination_by cs.length
decreasing_by
  have := firstSome_lt h
  rw [List.length_eraseIdx]
  simp only [this, if_true]
  omega

/-- the constraint loop of `decompose_triangle`:
`for c in constraints: res = solve(g, x0, list(c), bounds, precision, allow_error); if res is not None: break` -/
def solveCell [AddGroup β] [LinearOrder β] (opt : (List α → β) → List α → List α) (allowError : Bool) (prec : β)
    (f : List α → β) (x0 : List α) (constraints : List (List (Option α))) : Option (List α) :=
  constraints.findSome? fun c => solve opt allowError prec f x0 c

end PM.C12.Solve
